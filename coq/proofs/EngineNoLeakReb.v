(* REBALANCE preserves the completeness invariant [Cov]: the page of every node that try_merge / merge_nodes drops
   from the overlay tree is handed back (the converse of the accounting of EngineOwnReb). *)
From Coq Require Import List NArith Bool Arith Lia ZifyN ZifyNat ZifyBool Permutation.
From Coq.Strings Require Import Byte.
From Jamm Require Spec.
From Jamm Require Import Bytes BytesFacts Tree Cursor SearchFacts Engine EngineAbs EngineFacts EngineMergeFacts.
From Jamm Require Import EngineModifyFacts EngineSpillFacts EnginePathFacts EngineBridgeFacts EngineRebalanceFacts.
From Jamm Require FreelistFacts EngineAllocFacts EngineSpillWfFacts.
From Jamm Require Import EngineTxInvFacts EngineSpillBucketFacts EngineRefines.
From Jamm Require Import EngineOwnDefs EngineOwnWr EngineOwnOps EngineOwnReb EngineOwnSpill.
From Jamm Require Import EngineNoLeakWr EngineNoLeakNode EngineNoLeakCov.
Import ListNotations.
Import Coq.Strings.String.StringSyntax. Delimit Scope string_scope with string.
Local Open Scope list_scope. Local Open Scope nat_scope.
Set Warnings "-abstract-large-number".
Arguments N.add : simpl never. Arguments N.sub : simpl never. Arguments N.mul : simpl never.
Arguments N.div : simpl never. Arguments N.ltb : simpl never. Arguments N.leb : simpl never.
Arguments N.eqb : simpl never.

(* ====================================================================== *)
(** * 1. [try_merge]: nothing happens, or the page of k is handed back *)

Lemma try_merge_cases : forall d par k s par' s', try_merge d par k s = Ok (par', s') ->
  (par' = set_kids par (replace_kid (n_kids par) k) /\ s' = s) \/
  (s' = free_node_page s k \/ s' = free_node_page (bump s) k).
Proof.
  intros d par k s par' s' H. unfold try_merge in H.
  destruct (negb (needs_merging s k)); [inversion H; now left|].
  destruct (n_data par) as [l|es]; [discriminate|].
  destruct ((llen es =? 1)%N && (0 <? dlen (n_data k))%N); [inversion H; now left|].
  destruct (n_orig k) as [ok|]; [|discriminate].
  destruct (Engine.bsearch (map fst es) ok) as [[|] idx]; [|discriminate].
  apply bind_ok_inv in H. destruct H as ([sibo s1] & Hr & H). right.
  assert (Hs1 : s1 = s \/ s1 = bump s).
  { destruct (0 <? dlen (n_data k))%N; [|inversion Hr; now left].
    destruct (if (idx =? 0)%N then nthN es 1 else nthN es (idx - 1)) as [[kq q]|]; [|discriminate].
    apply bind_ok_inv in Hr. destruct Hr as ([[sib s1'] isnew] & Hsib & Hr).
    apply bind_ok_inv in Hr. destruct Hr as (md & _ & Hr). inversion Hr; subst s1'.
    destruct (find_kid q (n_kids par)) as [sb|]; [inversion Hsib; now left|].
    destruct (dget d q) as [a|]; [|discriminate]. cbn [next_seq] in Hsib. inversion Hsib. right. reflexivity. }
  inversion H; subst s'. destruct Hs1 as [->| ->]; auto.
Qed.

(* with [pg_ok], the run of the page of a node on the committed disk is its old run *)
Lemma pg_prun_old : forall d k x, pg_ok d k -> n_page k <> 0%N -> In x (prun d (n_page k)) -> old_run k x.
Proof.
  intros d k x H Hnz Hx. destruct (pg_ok_inv _ _ H) as [Hp _]. destruct (Hp Hnz) as (a & Hg & Hn).
  unfold prun in Hx. rewrite Hg in Hx. apply In_nrun in Hx. split; [exact Hnz | lia].
Qed.

Lemma merge_freed_gone : forall d s k s', pg_ok d k -> (s' = free_node_page s k \/ s' = free_node_page (bump s) k) ->
  n_page k <> 0%N -> gone d s' (n_page k).
Proof.
  intros d s k s' Hpg Hs Hnz x Hx. pose proof (pg_prun_old d k x Hpg Hnz Hx) as Ho.
  destruct Hs as [->| ->]; apply free_node_page_freed; now right.
Qed.

Lemma merge_tx_mono : forall s k s' x, merge_tx s k s' -> freed_in_tx s x = true -> freed_in_tx s' x = true.
Proof.
  intros s k s' x [->|[->| ->]] H; [exact H | apply free_node_page_freed; now left|].
  apply free_node_page_freed. left. now rewrite freed_bump.
Qed.

(* ====================================================================== *)
(** * 2. [rebalance_kids] *)

(* the named pages that disappear are [F]; their runs are handed back *)
Definition RKC (h : nat) (d : disk) (s : txs) (n n' : node) (s' : txs) : Prop :=
  exists F, Permutation (npages h d n) (F ++ npages h d n') /\
    (forall x, freed_in_tx s x = true -> freed_in_tx s' x = true) /\
    (forall q, In q F -> q <> 0%N -> gone d s' q).

Definition RKC_IH (f : nat) : Prop :=
  forall h d s z lo hi n l n' s',
    Inv h d z lo hi n -> is_leaf (n_data n) = false -> NodeView d h n l ->
    NoDup (npages h d n) -> NoDup (seqs n) -> Forall (fun x => (x < seqc s)%N) (seqs n) ->
    pg_ok d n -> pst s ->
    rebalance_kids f d n s = Ok (n', s') -> RKC h d s n n' s'.

Lemma RKC_refl : forall h d s n, RKC h d s n n s.
Proof. intros h d s n. exists []. cbn [app]. split; [reflexivity|]. split; [auto | intros q []]. Qed.

Lemma gone_mono' : forall d s s2 q, (forall x, freed_in_tx s x = true -> freed_in_tx s2 x = true) -> gone d s q -> gone d s2 q.
Proof. intros d s s2 q Hm H x Hx. apply Hm, H, Hx. Qed.

Lemma perm_cons_self_absurd : forall (a : N) (X : list N), ~ Permutation (a :: X) X.
Proof. intros a X H. apply Permutation_length in H. cbn [length] in H. lia. Qed.

Lemma rkc_step : forall f h0 d s lo hi n l n0 s0 k k1 s1 n1 s1',
  RKC_IH f ->
  Forall (fun x => (x < seqc s)%N) (seqs n) ->
  RKPost (S h0) d s lo hi n l n0 s0 -> is_leaf (n_data n0) = false ->
  RKX (S h0) d s n n0 s0 -> RKC (S h0) d s n n0 s0 ->
  In k (n_kids n0) ->
  (if is_leaf (n_data k) then Ok (k, s0) else rebalance_kids f d k s0) = Ok (k1, s1) ->
  try_merge d (set_kids n0 (replace_kid (n_kids n0) k1)) k1 s1 = Ok (n1, s1') ->
  RKC (S h0) d s n n1 s1'.
Proof.
  intros f h0 d s lo hi n l n0 s0 k k1 s1 n1 s1' IHC Hlt (HI & HV & P1 & P2 & P3 & P4 & Np & Ip & Ns & Is & Tx) Hlf
    (F0x & _ & _ & Hpg0 & Hst0) (F0 & HP0 & HM0 & HG0) Hkin Hk1 Hm.
  destruct n0 as [p0 np0 og0 sq0 [l0|es0] ks0]; [discriminate|]. cbn [n_kids set_kids] in *.
  destruct (kid_facts _ _ _ _ _ _ _ _ _ _ _ _ HI Hkin HV Np Ns) as ((lk & Vk) & Npk & Nsk & Isk & (lo' & hi' & Ik)).
  assert (Hlt0 : forall y, In y (seqs (Node p0 np0 og0 sq0 (Branches es0) ks0)) -> (y < seqc s0)%N).
  { intros y Hy. destruct Tx as (_ & _ & _ & _ & _ & _ & Hle). rewrite Forall_forall in Hlt.
    destruct (Is y Hy) as [H | H]; [specialize (Hlt y H)|]; lia. }
  destruct (pg_ok_inv _ _ Hpg0) as [_ Hpgk0]. cbn [n_kids] in Hpgk0. pose proof (Hpgk0 k Hkin) as Hpgk.
  assert (Hk : n_page k1 = n_page k /\ n_orig k1 = n_orig k /\ n_seq k1 = n_seq k /\
               (forall lo' hi', Inv h0 d false lo' hi' k -> Inv h0 d true lo' hi' k1) /\
               (forall lk, NodeView d h0 k lk -> NodeView d h0 k1 lk) /\
               NoDup (npages h0 d k1) /\ incl (npages h0 d k1) (npages h0 d k) /\
               NoDup (seqs k1) /\ (forall x, In x (seqs k1) -> In x (seqs k) \/ (seqc s0 <= x < seqc s1)%N) /\
               tx_frame s0 s1 /\ RKX h0 d s0 k k1 s1 /\ RKC h0 d s0 k k1 s1).
  { destruct (is_leaf (n_data k)) eqn:Elf.
    - inversion Hk1; subst k1 s1. repeat (split; [reflexivity|]).
      split; [intros; eapply Inv_z_true; eauto|]. split; [auto|]. split; [exact Npk|].
      split; [apply incl_refl|]. split; [exact Nsk|]. split; [intros; now left |].
      split; [apply tx_frame_refl | split; [now apply RKX_refl | apply RKC_refl]].
    - assert (Hltk : Forall (fun x => (x < seqc s0)%N) (seqs k)).
      { apply Forall_forall. intros y Hy. apply Hlt0. now apply Isk. }
      pose proof (rebalance_kids_view f h0 d s0 true lo' hi' k lk k1 s1 Ik Elf Vk Npk Nsk Hltk Hk1)
        as (_ & _ & Q1 & Q2 & Q3 & Q4 & Q5 & Q6 & Q7 & Q8 & Q9).
      repeat (split; [assumption|]).
      split; [|split; [|repeat (split; [assumption|])]].
      + intros lo2 hi2 I2. apply (rebalance_kids_view f h0 d s0 false lo2 hi2 k lk k1 s1 I2 Elf Vk Npk Nsk Hltk Hk1).
      + intros lk2 V2. pose proof (NodeView_det _ _ _ _ Vk _ _ V2) as <-.
        apply (rebalance_kids_view f h0 d s0 true lo' hi' k lk k1 s1 Ik Elf Vk Npk Nsk Hltk Hk1).
      + split.
        * exact (rebalance_kids_x f h0 d s0 true lo' hi' k lk k1 s1 Ik Elf Vk Npk Nsk Hltk Hpgk Hst0 Hk1).
        * exact (IHC h0 d s0 true lo' hi' k lk k1 s1 Ik Elf Vk Npk Nsk Hltk Hpgk Hst0 Hk1). }
  destruct Hk as (E1 & E2 & E3 & TI & TV & Np1 & Ip1 & Ns1 & Is1 & Tx1 & (Fkx & _ & _ & Hpg1 & Hst1) & (Fk & HPk & HMk & HGk)).
  destruct (kid_replaced h0 d lo hi p0 np0 og0 sq0 es0 ks0 k k1 l (fun x => (seqc s0 <= x < seqc s1)%N)
              HI Hkin HV Np Ns E1 E2 E3 TI TV Np1 Ip1 Ns1 Is1) as (R1 & R2 & R3 & R4 & R5 & R6 & R7).
  { intros y Hy Hf. specialize (Hlt0 y Hy). lia. }
  cbv zeta in *.
  assert (Hlt1 : Forall (fun x => (x < seqc s1)%N) (seqs (Node p0 np0 og0 sq0 (Branches es0) (replace_kid ks0 k1)))).
  { apply Forall_forall. intros y Hy. destruct Tx1 as (_ & _ & _ & _ & _ & _ & Hle).
    destruct (R7 y Hy) as [H | H]; [specialize (Hlt0 y H)|]; lia. }
  pose proof (try_merge_step h0 d s1 lo hi p0 np0 og0 sq0 es0 _ k1 l n1 s1' R1 R2 R3 R4 R6 Hlt1 Hm)
    as (_ & _ & _ & _ & _ & _ & _ & _ & _ & _ & T11).
  pose proof (try_merge_step_x h0 d s1 lo hi p0 np0 og0 sq0 es0 _ k1 l n1 s1' R1 R2 R3 R4 R6 Hm) as TX.
  pose proof HI as HI'. rewrite Inv_branch_eq in HI'. destruct HI' as (_ & _ & Hnd0 & _ & Hlk0 & _).
  pose proof (kid_replaced_perm h0 d p0 np0 og0 sq0 es0 ks0 k k1 Fk Hnd0 Hlk0 Hkin E1 HPk) as HPr.
  assert (Hm01 : forall x, freed_in_tx s x = true -> freed_in_tx s1 x = true) by (intros x Hx; apply HMk, HM0, Hx).
  assert (Hm1' : forall x, freed_in_tx s1 x = true -> freed_in_tx s1' x = true).
  { intros x Hx. eapply merge_tx_mono; eauto. }
  assert (HG01 : forall q, In q (F0 ++ Fk) -> q <> 0%N -> gone d s1' q).
  { intros q Hq Hnz. apply in_app_or in Hq. destruct Hq as [Hq|Hq].
    - eapply gone_mono'; [|apply (HG0 q Hq Hnz)]. intros x Hx. apply Hm1', HMk, Hx.
    - eapply gone_mono'; [exact Hm1' | apply (HGk q Hq Hnz)]. }
  destruct TX as [[-> ->] | HT].
  - exists (F0 ++ Fk). split; [|split; [exact Hm01 | exact HG01]].
    rewrite HP0, HPr. now rewrite app_assoc.
  - exists ((F0 ++ Fk) ++ [n_page k1]). split; [|split].
    + rewrite HP0, HPr, <- HT. rewrite <- !app_assoc. reflexivity.
    + intros x Hx. apply Hm1', Hm01, Hx.
    + intros q Hq Hnz. apply in_app_or in Hq. destruct Hq as [Hq|[<-|[]]]; [now apply HG01|].
      destruct (try_merge_cases _ _ _ _ _ _ Hm) as [[En1 Es1]|Hfree].
      * exfalso. cbn [n_kids set_kids] in En1.
        rewrite (replace_kid_id (replace_kid ks0 k1) k1) in En1 by (apply find_kid_NoDup; [apply R1 | exact R2]).
        subst n1. exact (perm_cons_self_absurd _ _ HT).
      * eapply merge_freed_gone; eauto.
Qed.

Theorem rebalance_kids_c : forall fuel, RKC_IH fuel.
Proof.
  induction fuel as [|f IH]; intros h d s z lo hi n l n' s' HI Hlf HV Np Ns Hlt Hpg Hst H; [discriminate|].
  cbn [rebalance_kids] in H.
  destruct (Inv_height _ _ _ _ _ _ HI) as [h0 ->].
  match type of H with fold_left ?F0 _ _ = _ => set (F := F0) in H end.
  assert (HF : forall x r, (forall a, r <> Ok a) -> forall a, F r x <> Ok a).
  { intros x r Hr a. unfold F. destruct r as [a0| |]; cbn [bind]; [exfalso; eapply Hr; eauto | discriminate | discriminate]. }
  assert (Hloop : forall xs n0 s0, RKPost (S h0) d s lo hi n l n0 s0 -> is_leaf (n_data n0) = false ->
            RKX (S h0) d s n n0 s0 -> RKC (S h0) d s n n0 s0 -> fold_left F xs (Ok (n0, s0)) = Ok (n', s') ->
            RKC (S h0) d s n n' s').
  { induction xs as [|x xs IHxs]; intros n0 s0 HP0 Hlf0 HK0 HC0 Hfold; cbn [fold_left] in Hfold.
    - inversion Hfold; subst. assumption.
    - destruct (F (Ok (n0, s0)) x) as [[n1 s1]| |] eqn:E.
      2:{ exfalso. apply (fold_left_not_ok F xs (Panic msg) HF (fun a Ha => ltac:(discriminate)) _ Hfold). }
      2:{ exfalso. apply (fold_left_not_ok F xs (Err e) HF (fun a Ha => ltac:(discriminate)) _ Hfold). }
      unfold F in E. cbn [bind] in E.
      destruct (find (fun k => N.eqb (n_seq k) x) (n_kids n0)) as [k|] eqn:Ef.
      + apply find_some in Ef. destruct Ef as [Hkin Hkx].
        destruct (if is_leaf (n_data k) then Ok (k, s0) else rebalance_kids f d k s0) as [[k1 s1k]| |] eqn:Ek;
          cbn [bind] in E; try discriminate.
        destruct (rk_step f h0 d s lo hi n l n0 s0 k k1 s1k n1 s1 (rebalance_kids_view f) Hlt HP0 Hlf0 Hkin Ek E)
          as [HP1 Hlf1].
        pose proof (rkx_step f h0 d s lo hi n l n0 s0 k k1 s1k n1 s1 (rebalance_kids_x f) Hlt HP0 Hlf0 HK0 Hkin Ek E) as HK1.
        pose proof (rkc_step f h0 d s lo hi n l n0 s0 k k1 s1k n1 s1 IH Hlt HP0 Hlf0 HK0 HC0 Hkin Ek E) as HC1.
        apply (IHxs n1 s1 HP1 Hlf1 HK1 HC1 Hfold).
      + inversion E; subst n1 s1. apply (IHxs n0 s0 HP0 Hlf0 HK0 HC0 Hfold). }
  assert (HP0 : RKPost (S h0) d s lo hi n l n s).
  { unfold RKPost. split; [eapply Inv_z_true; eauto|]. split; [exact HV|]. repeat (split; [reflexivity|]).
    split; [exact Np|]. split; [apply incl_refl|]. split; [exact Ns|].
    split; [intros; now left | apply tx_frame_refl]. }
  apply (Hloop _ n s HP0 Hlf (RKX_refl _ _ _ _ Hpg Hst) (RKC_refl _ _ _ _) H).
Qed.

(* ====================================================================== *)
(** * 3. [merge_nodes] *)

Lemma hd_split_z : forall (q : N) (X : list N),
  exists Z, Permutation (q :: X) (Z ++ (if (q =? 0)%N then [] else [q]) ++ X) /\ forall z, In z Z -> z = 0%N.
Proof.
  intros q X. destruct (N.eqb_spec q 0) as [E|E].
  - exists [q]. split; [reflexivity|]. intros z [<-|[]]. exact E.
  - exists []. split; [reflexivity | intros z []].
Qed.

Lemma ensure_root_cov : forall h d s b l root s0, BInv h d s b -> BucketView d h b l -> h <= fuel0 ->
  ensure_root d b s = Ok (root, s0) ->
  exists Z, Permutation (bheads d b) (Z ++ hdl root ++ npages h d root) /\ (forall z, In z Z -> z = 0%N).
Proof.
  intros h d s b l root s0 HB HV Hh H. unfold ensure_root, BInv in *.
  destruct (b_rootn b) as [n|] eqn:En.
  - inversion H; subst root s0. exists []. cbn [app]. split; [|intros z []]. rewrite (bheads_some _ _ _ En).
    destruct HB as (HI & _). now rewrite (npages_stable _ _ _ _ _ _ HI fuel0 Hh).
  - destruct HB as [HP Hnp]. destruct (PInv_dget _ _ _ _ _ _ HP) as [a Ha]. rewrite Ha in H. cbn [next_seq] in H.
    inversion H; subst root s0.
    rewrite (bheads_none _ _ En), (node_of_page_npages h d _ a _ Ha), (ppages_stable _ _ _ _ _ _ HP fuel0 Hh).
    unfold hdl, node_of_page. cbn [n_page]. apply hd_split_z.
Qed.

Lemma root1_cov : forall h d s0 root l root1 s1, RInv h d s0 false root -> NodeView d h root l ->
  pg_ok d root -> pst s0 ->
  (if is_leaf (n_data root) then Ok (root, s0) else rebalance_kids fuel0 d root s0) = Ok (root1, s1) ->
  RKC h d s0 root root1 s1.
Proof.
  intros h d s0 root l root1 s1 (HI & Hnp & Hsq & Hlt) HV Hpg Hst H. destruct (is_leaf (n_data root)) eqn:Elf.
  - inversion H; subst. apply RKC_refl.
  - exact (rebalance_kids_c fuel0 h d s0 false None None root l root1 s1 HI Elf HV Hnp Hsq Hlt Hpg Hst H).
Qed.

Lemma merge_tail_cov : forall h d b root1 s1 b' s', h <= fuel0 -> Inv h d true None None root1 ->
  pg_ok d root1 ->
  (if needs_merging s1 root1 && negb (is_leaf (n_data root1)) && (dlen (n_data root1) =? 1)%N then
     match n_data root1 with
     | Branches ((_, q) :: _) =>
         Ok (Bucket q (b_next b) (b_dirty b) (find_kid q (n_kids root1)) (b_subs b), free_node_page s1 root1)
     | _ => Panic "unreachable"%string end
   else if negb (is_leaf (n_data root1)) && (dlen (n_data root1) =? 0)%N then
     Ok (Bucket (b_root_page b) (b_next b) (b_dirty b) (Some (set_data root1 (Leaves []))) (b_subs b), s1)
   else Ok (Bucket (b_root_page b) (b_next b) (b_dirty b) (Some root1) (b_subs b), s1)) = Ok (b', s') ->
  exists FC, Permutation (hdl root1 ++ npages h d root1) (FC ++ bheads d b') /\
    (forall x, freed_in_tx s1 x = true -> freed_in_tx s' x = true) /\
    (forall q, In q FC -> q <> 0%N -> gone d s' q).
Proof.
  intros h d b root1 s1 b' s' Hh HI1 Hpg H.
  destruct (Inv_height _ _ _ _ _ _ HI1) as [h0 Eh]. subst h.
  destruct (needs_merging s1 root1 && negb (is_leaf (n_data root1)) && (dlen (n_data root1) =? 1)%N) eqn:Ec.
  - apply andb_true_iff in Ec. destruct Ec as [_ Ec]. apply N.eqb_eq in Ec.
    destruct root1 as [p1 np1 og1 sq1 [l1|[|[k0 q] [|e2 rest]]] ks1]; cbn [n_data n_kids dlen] in H, Ec; try discriminate;
      try (unfold llen in Ec; cbn in Ec; lia).
    inversion H; subst b' s'. clear H.
    rewrite Inv_branch_eq in HI1. destruct HI1 as (_ & _ & _ & _ & _ & HCk).
    cbn [map fst] in HCk. inversion HCk as [|? bb ? ? Cq _]; subst. unfold CInv in Cq. cbn [snd] in Cq.
    rewrite npages_branch_eq. cbn [map snd flat_map]. rewrite app_nil_r. unfold cpages.
    set (R1 := Node p1 np1 og1 sq1 (Branches [(k0, q)]) ks1) in *.
    assert (Hmono : forall x, freed_in_tx s1 x = true -> freed_in_tx (free_node_page s1 R1) x = true).
    { intros x Hx. apply free_node_page_freed. now left. }
    assert (Hgone : forall z, In z (hdl R1) -> z <> 0%N -> gone d (free_node_page s1 R1) z).
    { intros z Hz Hnz. unfold hdl in Hz. destruct (N.eqb_spec (n_page R1) 0) as [E|E]; [destruct Hz|].
      destruct Hz as [<-|[]]. intros x Hx. apply free_node_page_freed. right. eapply pg_prun_old; eauto. }
    destruct (find_kid q ks1) as [kd|] eqn:Ef.
    + destruct (find_kid_In _ _ _ Ef) as [Hkdin Hkdp].
      destruct (hd_split_z q (npages h0 d kd)) as (Zq & HZ & HZ0).
      exists (hdl R1 ++ Zq). split; [|split; [exact Hmono|]].
      * unfold bheads. cbn [b_rootn]. rewrite (npages_stable _ _ _ _ _ _ Cq fuel0 ltac:(lia)), Hkdp.
        rewrite HZ. now rewrite app_assoc.
      * intros z Hz Hnz. apply in_app_or in Hz. destruct Hz as [Hz|Hz]; [now apply Hgone|].
        exfalso. apply Hnz, HZ0, Hz.
    + exists (hdl R1). split; [|split; [exact Hmono | exact Hgone]].
      unfold bheads. cbn [b_rootn b_root_page].
      now rewrite (ppages_stable _ _ _ _ _ _ Cq fuel0 ltac:(lia)).
  - destruct (negb (is_leaf (n_data root1)) && (dlen (n_data root1) =? 0)%N) eqn:E0; inversion H; subst b' s'; clear H.
    + exists []. cbn [app]. split; [|split; [auto | intros q []]].
      unfold bheads, hdl. cbn [b_rootn].
      destruct root1 as [p1 np1 og1 sq1 [l1|es1] ks1]; [discriminate|]. cbn [n_data is_leaf negb dlen andb] in E0.
      destruct es1 as [|e1 es1]; [|unfold llen in E0; cbn in E0; lia]. reflexivity.
    + exists []. cbn [app]. split; [|split; [auto | intros q []]].
      unfold bheads, hdl. cbn [b_rootn]. now rewrite (npages_stable _ _ _ _ _ _ HI1 fuel0 Hh).
Qed.

Theorem merge_nodes_cov : forall h d s b l b' s', BInv h d s b -> BucketView d h b l -> h <= fuel0 ->
  bpg_ok d b -> pst s -> merge_nodes d b s = Ok (b', s') ->
  exists F, Permutation (bheads d b) (F ++ bheads d b') /\
    (forall x, freed_in_tx s x = true -> freed_in_tx s' x = true) /\
    (forall q, In q F -> q <> 0%N -> gone d s' q).
Proof.
  intros h d s b l b' s' HB HV Hh Hpg Hst H. pose proof H as H0. unfold merge_nodes in H.
  apply bind_ok_inv in H. destruct H as ([root s0] & Er & H).
  apply bind_ok_inv in H. destruct H as ([root1 s1] & E1 & H).
  destruct (ensure_root_RInv _ _ _ _ _ _ _ HB HV Er) as (HR & HVr & _).
  destruct (ensure_root_own _ _ _ _ _ _ _ HB HV Hh Hpg Hst Er) as (_ & Hpgr & Hst0 & Hfr0).
  destruct (ensure_root_cov _ _ _ _ _ _ _ HB HV Hh Er) as (Z & HZ & HZ0).
  destruct (root1_RInv _ _ _ _ _ _ _ HR HVr E1) as ((HI1 & _) & _ & _).
  destruct (root1_own _ _ _ _ _ _ _ HR HVr Hpgr Hst0 E1) as ((F1x & _ & _ & Hpg1 & Hst1) & Ep1).
  destruct (root1_cov _ _ _ _ _ _ _ HR HVr Hpgr Hst0 E1) as (F1 & HP1 & HM1 & HG1).
  destruct (merge_tail_cov h d b root1 s1 b' s' Hh HI1 Hpg1 H) as (FC & HPC & HMC & HGC).
  exists ((Z ++ F1) ++ FC). split; [|split].
  - rewrite HZ, HP1. rewrite <- !app_assoc. rewrite <- HPC. unfold hdl. rewrite Ep1.
    apply Permutation_app_head. apply Permutation_app_swap_app.
  - intros x Hx. apply HMC, HM1. now rewrite Hfr0.
  - intros q Hq Hnz. apply in_app_or in Hq. destruct Hq as [Hq|Hq]; [|now apply HGC].
    apply in_app_or in Hq. destruct Hq as [Hq|Hq]; [exfalso; apply Hnz, HZ0, Hq|].
    eapply gone_mono'; [exact HMC | now apply HG1].
Qed.

(* ====================================================================== *)
(** * 4. [rebalance] *)

Definition RC_IH (d : disk) (f : nat) : Prop :=
  forall fv n s b r0 b' s', SDeepF fv d s b -> OwnI d n s b r0 -> pst s -> Cov d n s b r0 ->
    rebalance f d b s = Ok (b', s') ->
    Cov d n s' b' r0 /\ (forall x, freed_in_tx s x = true -> freed_in_tx s' x = true).

(* the fold over the opened sub-buckets of a bucket with view [l] *)
Definition SubKC (d : disk) (n' : nat) (s : txs) (l : list leafent)
  (acc rest : list (bytes * bucket)) (s0 : txs) : Prop :=
  (forall x, freed_in_tx s x = true -> freed_in_tx s0 x = true) /\
  (forall y r nx, In y (acc ++ rest) -> In (LBk (fst y) r nx) l -> Cov d n' s0 (snd y) r).

Lemma heads_nz' : forall d n r0 q, dget d 0%N = None -> sbk (S n) d r0 -> In q (r0 :: ppages fuel0 d r0) -> q <> 0%N.
Proof.
  intros d n r0 q Hz Hs Hq. destruct (sbk_inv _ _ _ Hs) as (h & Hh & HP & _).
  assert (Hsub : in_subtree d r0 q) by (destruct Hq as [<-|Hq]; [apply ist_self | eapply ppages_subtree; eauto]).
  destruct (PInv_subtree_present _ _ _ _ _ _ HP q Hsub) as [a Ha]. intros ->. congruence.
Qed.

Theorem rebalance_cov_gen : forall d, dget d 0%N = None -> forall f, RC_IH d f.
Proof.
  intros d Hz0. pose proof (zero_ok_missing d Hz0) as Hz.
  induction f as [|f IH]; intros fv n s b r0 b' s' HD HO Hst HCv H; [discriminate|].
  cbn [rebalance] in H. destruct (negb (is_dirty fuel0 b)) eqn:Edirty.
  { inversion H; subst b' s'. auto. }
  destruct fv as [|fv]; [destruct HD|]. destruct n as [|n']; [destruct HO|].
  cbn [SDeepF] in HD. destruct HD as (h & l & HL & (Hnd & H2 & H3)).
  pose proof (BLoc_sorted _ _ _ _ _ HL) as Hsorted.
  rewrite OwnI_S in HO. destruct HO as (A & B & C & l' & V & ND & Hown & Hent & Hun & Hsub).
  assert (El : l' = l) by (eapply bucket_view_det; [exact V | eapply BLoc_bucket_view; eauto]). subst l'.
  rewrite Cov_S in HCv. destruct (HCv l V) as (C1 & C2 & C3).
  match type of H with bind ?r _ = _ => destruct r as [[subs' s1]| |] eqn:Ef end; cbn [bind] in H; try discriminate.
  (* the sub-buckets *)
  set (K := fun acc rest s0 => SubK d fv n' s l (map fst (b_subs b)) acc rest s0 /\ SubKC d n' s l acc rest s0).
  assert (K0 : K [] (b_subs b) s).
  { split.
    - unfold SubK. cbn [app]. split; [lia|]. split; [exact Hst|]. split; [exact Hnd|]. split; [reflexivity|].
      split; [|split; [|intros; now left]].
      + intros [k sb] Hy. exact (Hsub k sb Hy).
      + intros y Hy. rewrite Forall_forall in H2. apply (H2 y Hy).
    - unfold SubKC. cbn [app]. split; [auto|]. intros [k sb] r nx Hy Hl. cbn [fst snd] in *. eapply C3; eauto. }
  assert (Kstep : forall acc x rest s0 bx sx, K acc (x :: rest) s0 -> rebalance f d (snd x) s0 = Ok (bx, sx) ->
            K (acc ++ [(fst x, bx)]) rest sx).
  { intros acc x rest s0 bx sx [KO KC] Ex. split; [eapply (subk_step d f fv n' s l _ r0 Hz (rebalance_own_gen d Hz f) B Hent); eauto|].
    destruct KO as (K1 & K2 & K3 & K4 & K5 & K6 & K7). destruct KC as [M1 M2].
    assert (Hxin : In x (acc ++ x :: rest)) by (apply in_or_app; right; now left).
    destruct (K5 x Hxin) as (rx & nxx & Hlx & Hox).
    assert (Dx : SDeepF fv d s0 (snd x)) by (eapply SDeepF_seqc_mono; [exact K1 | apply K6; now left]).
    destruct (IH fv n' s0 (snd x) rx bx sx Dx Hox K2 (M2 x rx nxx Hxin Hlx) Ex) as (Hcx & Hmx).
    split; [intros z Hz1; apply Hmx, M1, Hz1|].
    intros y r nx Hy Hl. rewrite <- app_assoc in Hy. apply in_app_or in Hy. cbn [app] in Hy.
    assert (Hother : In y (acc ++ rest) -> Cov d n' sx (snd y) r).
    { intros Hy'. eapply Cov_mono; [exact Hmx|]. apply (M2 y r nx); [|exact Hl].
      apply in_app_or in Hy'. apply in_or_app. destruct Hy'; [now left | right; now right]. }
    destruct Hy as [Hy | [<- | Hy]].
    - apply Hother. apply in_or_app. now left.
    - cbn [fst snd] in *. assert (E : LBk (fst x) r nx = LBk (fst x) rx nxx) by (eapply key_unique; eauto).
      inversion E; subst r nx. exact Hcx.
    - apply Hother. apply in_or_app. now right. }
  destruct (reb_fold_inv f d K Kstep (b_subs b) [] s subs' s1 K0 Ef) as [(K1 & K2 & K3 & K4 & K5 & _ & K7) (M1 & M2)].
  rewrite app_nil_r in K3, K4, K5, M2.
  (* the bucket's own tree *)
  destruct HL as (Hh & HB & _ & _ & HV).
  set (b0 := Bucket (b_root_page b) (b_next b) true (b_rootn b) subs') in *.
  assert (HB0 : BInv h d s1 b0) by (exact (BInv_seqc_mono _ _ _ _ _ K1 HB)).
  assert (HV0 : BucketView d h b0 l) by exact HV.
  assert (C0 : bpg_ok d b0) by exact C.
  destruct (merge_nodes_cov h d s1 b0 l b' s' HB0 HV0 Hh C0 K2 H) as (F & HPF & HMF & HGF).
  change (bheads d b0) with (bheads d b) in HPF.
  destruct (merge_nodes_bucket_view h d s1 b0 l b' s' HB0 HV0 Hh H) as (V' & _).
  destruct (merge_nodes_fields _ _ _ _ _ H) as (_ & Es & _). cbn [b0 b_subs] in Es.
  assert (Hm : forall x, freed_in_tx s x = true -> freed_in_tx s' x = true) by (intros x Hx; apply HMF, M1, Hx).
  split; [|exact Hm].
  rewrite Cov_S. intros l2 V2. assert (l2 = l) by (eapply bucket_view_det; eauto). subst l2.
  split; [|split].
  - intros Hr0 q Hq. destruct (C1 Hr0 q Hq) as [X|X]; [|right; eapply gone_mono'; eauto].
    assert (Hq' : In q (F ++ bheads d b')) by (eapply Permutation_in; eauto).
    apply in_app_or in Hq'. destruct Hq' as [Hq'|Hq']; [right | now left].
    destruct A as [A|A]; [contradiction|]. apply HGF; [exact Hq' | eapply heads_nz'; eauto].
  - intros Hr0 k r nx He. destruct (C2 Hr0 k r nx He) as [X|X]; [now left | right; intros x Hx; apply Hm, X, Hx].
  - rewrite Es. intros k sb' r nx Hin Hl. eapply Cov_mono; [exact HMF|]. exact (M2 (k, sb') r nx Hin Hl).
Qed.

(* REBALANCE preserves the completeness invariant *)
Theorem rebalance_cov : forall d f fv n s b r0 b' s', dget d 0%N = None ->
  SDeepF fv d s b -> OwnI d n s b r0 -> pend_ids_ok s -> pend_cur s -> Cov d n s b r0 ->
  rebalance f d b s = Ok (b', s') ->
  Cov d n s' b' r0 /\ (forall x, freed_in_tx s x = true -> freed_in_tx s' x = true).
Proof.
  intros d f fv n s b r0 b' s' Hz HD HO H1 H2 HCv H.
  exact (rebalance_cov_gen d Hz f fv n s b r0 b' s' HD HO (conj H1 H2) HCv H).
Qed.

Print Assumptions rebalance_cov.
