(* Rebalance preserves what the transaction sees.

   Vocabulary: [PageView] / [NodeView] / [wf_node] / [bucket_wf] / [bucket_view] of EngineModifyFacts.
   New here:
     [Inv h d z lo hi n]   the REBALANCE INVARIANT of an overlay node: a B+tree invariant with explicit key
                           bounds [lo, hi) (separators included), the LINK between a branch node and its
                           materialised kids (every kid is resolved by exactly one entry, whose key is the kid's
                           [n_orig]; kid pages pairwise distinct), and the STRICTNESS of the committed pages
                           below ([PInv]: the separator stored in a parent equals the first key of the child page).
     [npages h d n]        all page ids named by entries below [n]   (no page has two parents: [NoDup])
     [seqs n]              all sequence numbers below [n]            (globally distinct, below [seqc s])
   Main results: [Inv_wf_node], [node_of_page_Inv], [modify_Inv], [b_modify_BInv], [try_merge_step],
   [try_merge_view], [Post_facts], [merge_tx_pending], [rebalance_kids_view], [merge_nodes_view], [rebalance_view],
   the no-panic theorems, concrete instances ([Example], [Example2]) and two counterexamples showing why the
   bounds / the empty-branch case are needed ([Cex]); see the summary at the end of the file. *)
From Coq Require Import List NArith Bool Arith Lia ZifyN ZifyNat ZifyBool Permutation.
From Coq.Strings Require Import Byte.
From Jamm Require Import Bytes Tree Cursor SearchFacts Engine EngineFacts EngineMergeFacts EngineModifyFacts.
From Jamm Require PL EngineAllocFacts.
Import ListNotations.
Import Coq.Strings.String.StringSyntax. Delimit Scope string_scope with string.
Local Open Scope list_scope. Local Open Scope nat_scope.
Arguments N.add : simpl never. Arguments N.sub : simpl never. Arguments N.mul : simpl never.
Arguments N.div : simpl never. Arguments N.ltb : simpl never. Arguments N.leb : simpl never.
Arguments N.eqb : simpl never.

(* ====================================================================== *)
(** * 0. Lists *)

Lemma Forall2_app_inv_l' : forall {A B} (R : A -> B -> Prop) a1 a2 bs,
  Forall2 R (a1 ++ a2) bs -> exists b1 b2, bs = b1 ++ b2 /\ Forall2 R a1 b1 /\ Forall2 R a2 b2.
Proof.
  intros A B R a1 a2 bs H. apply Forall2_app_inv_l in H. destruct H as (b1 & b2 & H1 & H2 & ->). eauto.
Qed.

Lemma Forall2_cons_inv_l : forall {A B} (R : A -> B -> Prop) a a2 bs,
  Forall2 R (a :: a2) bs -> exists b b2, bs = b :: b2 /\ R a b /\ Forall2 R a2 b2.
Proof. intros A B R a a2 bs H. inversion H; subst. eauto. Qed.

Lemma Forall2_weaken_r : forall {A B} (P P' : A -> B -> Prop) (Q : B -> B -> Prop) xs bs bs',
  (forall x b b', In x xs -> P x b -> Q b b' -> P' x b') ->
  Forall2 P xs bs -> Forall2 Q bs bs' -> Forall2 P' xs bs'.
Proof.
  intros A B P P' Q xs bs bs' Himp HP. revert bs'.
  induction HP as [|x b xs bs Hx HP IH]; intros bs' HQ; inversion HQ; subst; constructor.
  - eapply Himp; eauto. now left.
  - apply IH; [|assumption]. intros x0 b0 b0' Hin. apply Himp. now right.
Qed.

Lemma Forall2_impl_in : forall {A B} (P P' : A -> B -> Prop) xs bs,
  (forall x b, In x xs -> P x b -> P' x b) -> Forall2 P xs bs -> Forall2 P' xs bs.
Proof.
  intros A B P P' xs bs Himp HP. induction HP as [|x b xs bs Hx HP IH]; constructor.
  - apply Himp; [now left | exact Hx].
  - apply IH. intros x0 b0 Hin. apply Himp. now right.
Qed.

Lemma Forall2_refl_in : forall {A} (Q : A -> A -> Prop) l, (forall x, In x l -> Q x x) -> Forall2 Q l l.
Proof.
  intros A Q l H. induction l as [|x l IH]; constructor.
  - apply H. now left.
  - apply IH. intros y Hy. apply H. now right.
Qed.

Lemma in_split_nth : forall {A} (l : list A) i x, nth_error l i = Some x ->
  exists a b, l = a ++ x :: b /\ length a = i.
Proof. intros A l i x H. destruct (nth_error_split l i H) as (a & b & -> & Hl). eauto. Qed.

Lemma remove_at_mid : forall {A} (a : list A) x b, remove_at (a ++ x :: b) (length a) = a ++ b.
Proof.
  intros A a x b. replace (length a) with (length a + 0) by lia. rewrite remove_at_app. reflexivity.
Qed.

Lemma NoDup_app_l : forall {A} (a b : list A), NoDup (a ++ b) -> NoDup a.
Proof. intros A a b H. induction a as [|x a IH]; [constructor|]. cbn [app] in H. inversion H; subst.
  constructor; [|now apply IH]. intros Hin. apply H2. apply in_or_app. now left. Qed.

Lemma NoDup_app_r : forall {A} (a b : list A), NoDup (a ++ b) -> NoDup b.
Proof. intros A a b H. induction a as [|x a IH]; [exact H|]. cbn [app] in H. inversion H; subst. now apply IH. Qed.

Lemma NoDup_app_disj : forall {A} (a b : list A) x, NoDup (a ++ b) -> In x a -> In x b -> False.
Proof.
  intros A a b x H Ha Hb. induction a as [|y a IH]; [destruct Ha|]. cbn [app] in H. inversion H; subst.
  destruct Ha as [-> | Ha]; [apply H2; apply in_or_app; now right | now apply IH].
Qed.

Lemma NoDup_app_intro : forall {A} (a b : list A), NoDup a -> NoDup b ->
  (forall x, In x a -> In x b -> False) -> NoDup (a ++ b).
Proof.
  intros A a b Ha Hb Hd. induction a as [|x a IH]; [exact Hb|]. cbn [app]. inversion Ha; subst.
  constructor.
  - intros Hin. apply in_app_or in Hin. destruct Hin as [Hin | Hin]; [contradiction|].
    apply (Hd x); [now left | exact Hin].
  - apply IH; [assumption|]. intros y Hy. apply Hd. now right.
Qed.

(* a duplicate-free list stays duplicate-free when a segment shrinks *)
Lemma NoDup_shrink_mid : forall {A} (a x x' b : list A),
  NoDup (a ++ x ++ b) -> NoDup x' -> incl x' x -> NoDup (a ++ x' ++ b).
Proof.
  intros A a x x' b H Hx' Hi.
  pose proof (NoDup_app_l _ _ H) as Ha. pose proof (NoDup_app_r _ _ H) as Hxb.
  pose proof (NoDup_app_r _ _ Hxb) as Hb.
  apply NoDup_app_intro; [exact Ha | |].
  - apply NoDup_app_intro; [exact Hx' | exact Hb |]. intros y Hy1 Hy2.
    apply (NoDup_app_disj x b y Hxb); [now apply Hi | exact Hy2].
  - intros y Hy1 Hy2. apply (NoDup_app_disj a (x ++ b) y H Hy1).
    apply in_app_or in Hy2. apply in_or_app. destruct Hy2 as [Hy2 | Hy2]; [left; now apply Hi | now right].
Qed.

(* ====================================================================== *)
(** * 1. Key bounds *)

Definition le_lo (lo : option bytes) (k : bytes) : Prop :=
  match lo with Some b => bcmp b k <> Gt | None => True end.
Definition lt_hi (k : bytes) (hi : option bytes) : Prop :=
  match hi with Some b => bcmp k b = Lt | None => True end.
(* k lies in [lo, hi) *)
Definition inb (lo hi : option bytes) (k : bytes) : Prop := le_lo lo k /\ lt_hi k hi.

(* order on lower / upper bounds ([None] = unbounded) *)
Definition lo_le (lo lo' : option bytes) : Prop :=
  match lo, lo' with None, _ => True | Some a, Some b => bcmp a b <> Gt | Some _, None => False end.
Definition hi_le (hi hi' : option bytes) : Prop :=
  match hi, hi' with _, None => True | Some a, Some b => bcmp a b <> Gt | None, Some _ => False end.

Lemma bcmp_le_refl : forall a, bcmp a a <> Gt.
Proof. intros a. rewrite SearchFacts.bcmp_refl. discriminate. Qed.
Lemma bcmp_lt_le : forall a b, bcmp a b = Lt -> bcmp a b <> Gt.
Proof. intros a b H. rewrite H. discriminate. Qed.

Lemma lo_le_refl : forall lo, lo_le lo lo.
Proof. intros [b|]; cbn; [apply bcmp_le_refl | exact I]. Qed.
Lemma hi_le_refl : forall hi, hi_le hi hi.
Proof. intros [b|]; cbn; [apply bcmp_le_refl | exact I]. Qed.
Lemma lo_le_trans : forall a b c, lo_le a b -> lo_le b c -> lo_le a c.
Proof. intros [a|] [b|] [c|]; cbn; try tauto. apply bcmp_le_trans. Qed.
Lemma hi_le_trans : forall a b c, hi_le a b -> hi_le b c -> hi_le a c.
Proof. intros [a|] [b|] [c|]; cbn; try tauto. apply bcmp_le_trans. Qed.

Lemma le_lo_weaken : forall lo lo' k, lo_le lo' lo -> le_lo lo k -> le_lo lo' k.
Proof. intros [a|] [b|] k; cbn; try tauto. intros H1 H2. eapply bcmp_le_trans; eauto. Qed.
Lemma lt_hi_weaken : forall hi hi' k, hi_le hi hi' -> lt_hi k hi -> lt_hi k hi'.
Proof. intros [a|] [b|] k; cbn; try tauto. intros H1 H2. eapply bcmp_lt_le_trans; eauto. Qed.
Lemma inb_weaken : forall lo hi lo' hi' k, lo_le lo' lo -> hi_le hi hi' -> inb lo hi k -> inb lo' hi' k.
Proof. intros lo hi lo' hi' k H1 H2 [H3 H4]. split; [eapply le_lo_weaken | eapply lt_hi_weaken]; eauto. Qed.
Lemma le_lo_lo_le : forall lo k, le_lo lo k -> lo_le lo (Some k).
Proof. intros [a|] k; cbn; tauto. Qed.
Lemma lt_hi_hi_le : forall hi k, lt_hi k hi -> hi_le (Some k) hi.
Proof. intros [a|] k; cbn; [apply bcmp_lt_le | tauto]. Qed.

(* the upper bound of an entry followed by the separators [rest] *)
Definition nxt (rest : list bytes) (hi : option bytes) : option bytes :=
  match rest with [] => hi | s :: _ => Some s end.
(* bounds of the children of a branch with separators [seps] and upper bound [hi]; [f] gives the lower bound
   of the FIRST child *)
Fixpoint cbs (f : bytes -> option bytes) (seps : list bytes) (hi : option bytes)
  : list (option bytes * option bytes) :=
  match seps with [] => [] | s :: rest => (f s, nxt rest hi) :: cbs Some rest hi end.
(* child 0 of a node without lower bound has none either; otherwise it is bounded by its separator *)
Definition lo0 (lo : option bytes) : bytes -> option bytes :=
  fun s => match lo with None => None | Some _ => Some s end.
Definition cbounds (lo : option bytes) (seps : list bytes) (hi : option bytes) := cbs (lo0 lo) seps hi.

Definition fst_fun (f : bytes -> option bytes) (a : list bytes) : bytes -> option bytes :=
  match a with [] => f | _ => Some end.

Lemma cbs_length : forall seps f hi, length (cbs f seps hi) = length seps.
Proof. induction seps as [|s r IH]; intros f hi; cbn [cbs length]; [reflexivity | now rewrite IH]. Qed.

Lemma cbs_app : forall a f s b hi,
  cbs f (a ++ s :: b) hi = cbs f a (Some s) ++ cbs (fst_fun f a) (s :: b) hi.
Proof.
  induction a as [|x a IH]; intros f s b hi; [reflexivity|].
  cbn [app cbs fst_fun]. rewrite IH. f_equal.
  - f_equal. destruct a; reflexivity.
  - f_equal. destruct a; reflexivity.
Qed.

Lemma cbs_app_nil : forall a f hi, cbs f (a ++ []) hi = cbs f a hi.
Proof. intros. now rewrite app_nil_r. Qed.

(* pointwise comparison of bound pairs: the second is weaker *)
Definition brel (b b' : option bytes * option bytes) : Prop := lo_le (fst b') (fst b) /\ hi_le (snd b) (snd b').

Lemma brel_refl : forall b, brel b b.
Proof. intros b. split; [apply lo_le_refl | apply hi_le_refl]. Qed.

Lemma cbs_rel : forall seps f f' hi hi', (forall s, lo_le (f' s) (f s)) -> hi_le hi hi' ->
  Forall2 brel (cbs f seps hi) (cbs f' seps hi').
Proof.
  induction seps as [|s r IH]; intros f f' hi hi' Hf Hh; cbn [cbs]; constructor.
  - split; cbn [fst snd]; [apply Hf|]. destruct r; cbn [nxt]; [exact Hh | apply hi_le_refl].
  - apply IH; [intros; apply lo_le_refl | exact Hh].
Qed.

Lemma lo0_le_some : forall lo s, lo_le (lo0 lo s) (Some s).
Proof. intros [b|] s; cbn; [apply bcmp_le_refl | exact I]. Qed.
Lemma fst_fun_le_some : forall lo a s, lo_le (fst_fun (lo0 lo) a s) (Some s).
Proof. intros lo [|x a] s; cbn [fst_fun]; [apply lo0_le_some | apply bcmp_le_refl]. Qed.

(* every child's interval lies inside the node's interval *)
Lemma cbs_inside : forall seps f lo hi, sorted_keys seps = true -> Forall (inb lo hi) seps ->
  (forall s, le_lo lo s -> lo_le lo (f s)) ->
  Forall (fun b => lo_le lo (fst b) /\ hi_le (snd b) hi) (cbs f seps hi).
Proof.
  induction seps as [|s r IH]; intros f lo hi Hs Hb Hf; cbn [cbs]; constructor.
  - inversion Hb as [|? ? [Hlo Hhi] Hb']; subst. cbn [fst snd]. split; [now apply Hf|].
    destruct r as [|s' r']; cbn [nxt]; [apply hi_le_refl|].
    inversion Hb' as [|? ? [_ Hhi'] _]; subst. now apply lt_hi_hi_le.
  - inversion Hb; subst. apply IH; [eapply sorted_keys_tl; eauto | assumption |].
    intros s0 H0. now apply le_lo_lo_le.
Qed.

Lemma lo0_inside : forall lo s, le_lo lo s -> lo_le lo (lo0 lo s).
Proof. intros [b|] s; cbn; tauto. Qed.

(* ====================================================================== *)
(** * 2. The invariant *)

Definition okey_ok (ok : option bytes) (b : ndata) : Prop :=
  match ok with Some k => first_key b = Ok k | None => True end.

(* [PInv h d lo hi ok q]: the committed tree below page q has height <= h, is a search tree with all keys and
   separators in [lo, hi), and is STRICT: the separator of every entry is the first key of the page it points
   to (hence non-root pages are not empty); [ok] is the separator under which q itself is filed, if any *)
Fixpoint PInv (h : nat) (d : disk) (lo hi : option bytes) (ok : option bytes) (q : N) : Prop :=
  match h with O => False | S h' =>
    exists a, dget d q = Some a /\ okey_ok ok (ap_body a) /\
      match ap_body a with
      | Leaves l => sorted_keys (map lkey l) = true /\ Forall (inb lo hi) (map lkey l)
      | Branches es =>
          es <> [] /\ sorted_keys (map fst es) = true /\ NoDup (map snd es) /\
          Forall (inb lo hi) (map fst es) /\
          Forall2 (fun e b => PInv h' d (fst b) (snd b) (Some (fst e)) (snd e)) es (cbounds lo (map fst es) hi)
      end end.

(* the LINK between a branch node's entries and its materialised kids *)
Definition kids_linked (es : list (bytes * N)) (ks : list node) : Prop :=
  NoDup (map n_page ks) /\
  Forall (fun kd => exists key, In (key, n_page kd) es /\ n_orig kd = Some key) ks.

(* [Inv h d z lo hi n]; z = true tolerates an EMPTY branch node at the top (the transient state of a node all
   of whose children have just been merged away) *)
Fixpoint Inv (h : nat) (d : disk) (z : bool) (lo hi : option bytes) (n : node) : Prop :=
  match h with O => False | S h' =>
    match n with
    | Node _ _ _ _ (Leaves l) _ => sorted_keys (map lkey l) = true /\ Forall (inb lo hi) (map lkey l)
    | Node _ _ _ _ (Branches es) ks =>
        (z = false -> es <> []) /\ sorted_keys (map fst es) = true /\ NoDup (map snd es) /\
        Forall (inb lo hi) (map fst es) /\
        kids_linked es ks /\
        Forall2 (fun e b => match find_kid (snd e) ks with
                            | Some kd => Inv h' d false (fst b) (snd b) kd
                            | None => PInv h' d (fst b) (snd b) (Some (fst e)) (snd e) end)
                es (cbounds lo (map fst es) hi)
    end end.

(* the child named by entry e under kid list ks, with bounds b *)
Definition CInv (h : nat) (d : disk) (ks : list node) (e : bytes * N) (b : option bytes * option bytes) : Prop :=
  match find_kid (snd e) ks with
  | Some kd => Inv h d false (fst b) (snd b) kd
  | None => PInv h d (fst b) (snd b) (Some (fst e)) (snd e) end.

(* all page ids named by branch entries at or below a page / a node *)
Fixpoint ppages (h : nat) (d : disk) (q : N) : list N :=
  match h with O => [] | S h' =>
    match dget d q with None => [] | Some a =>
      match ap_body a with
      | Leaves _ => []
      | Branches es => map snd es ++ flat_map (fun e => ppages h' d (snd e)) es end end end.
Fixpoint npages (h : nat) (d : disk) (n : node) : list N :=
  match h with O => [] | S h' =>
    match n with
    | Node _ _ _ _ (Leaves _) _ => []
    | Node _ _ _ _ (Branches es) ks =>
        map snd es ++ flat_map (fun e => match find_kid (snd e) ks with
                                         | Some kd => npages h' d kd | None => ppages h' d (snd e) end) es
    end end.
Definition cpages (h : nat) (d : disk) (ks : list node) (q : N) : list N :=
  match find_kid q ks with Some kd => npages h d kd | None => ppages h d q end.

(* all sequence numbers at or below a node *)
Fixpoint seqs (n : node) : list N :=
  match n with Node _ _ _ sq _ ks => sq :: flat_map seqs ks end.

Lemma seqs_eq : forall n, seqs n = n_seq n :: flat_map seqs (n_kids n).
Proof. intros [p np o s dd ks]. reflexivity. Qed.

Lemma Inv_leaf_eq : forall h d z lo hi p np o s l ks,
  Inv (S h) d z lo hi (Node p np o s (Leaves l) ks) =
  (sorted_keys (map lkey l) = true /\ Forall (inb lo hi) (map lkey l)).
Proof. reflexivity. Qed.

Lemma Inv_branch_eq : forall h d z lo hi p np o s es ks,
  Inv (S h) d z lo hi (Node p np o s (Branches es) ks) =
  ((z = false -> es <> []) /\ sorted_keys (map fst es) = true /\ NoDup (map snd es) /\
   Forall (inb lo hi) (map fst es) /\ kids_linked es ks /\
   Forall2 (CInv h d ks) es (cbounds lo (map fst es) hi)).
Proof. reflexivity. Qed.

Lemma npages_branch_eq : forall h d p np o s es ks,
  npages (S h) d (Node p np o s (Branches es) ks) = map snd es ++ flat_map (fun e => cpages h d ks (snd e)) es.
Proof. reflexivity. Qed.
(* ====================================================================== *)
(** * 3. Basic properties of the invariant *)

Lemma Forall_inb_weaken : forall lo hi lo' hi' l, lo_le lo' lo -> hi_le hi hi' ->
  Forall (inb lo hi) l -> Forall (inb lo' hi') l.
Proof. intros. eapply Forall_impl; [|eassumption]. intros k Hk. eapply inb_weaken; eauto. Qed.

Lemma cbounds_rel : forall lo hi lo' hi' seps, lo_le lo' lo -> hi_le hi hi' ->
  Forall2 brel (cbounds lo seps hi) (cbounds lo' seps hi').
Proof.
  intros lo hi lo' hi' seps Hl Hh. apply cbs_rel; [|exact Hh].
  intros s. destruct lo' as [a|], lo as [b|]; cbn in *; try tauto. apply bcmp_le_refl.
Qed.

Lemma PInv_weaken : forall h d lo hi lo' hi' ok q, lo_le lo' lo -> hi_le hi hi' ->
  PInv h d lo hi ok q -> PInv h d lo' hi' ok q.
Proof.
  induction h as [|h IH]; intros d lo hi lo' hi' ok q Hl Hh H; [exact H|].
  cbn [PInv] in *. destruct H as (a & Hg & Hok & Hb). exists a. split; [exact Hg|]. split; [exact Hok|].
  destruct (ap_body a) as [l|es].
  - destruct Hb as [Hs Hf]. split; [exact Hs|]. eapply Forall_inb_weaken; eauto.
  - destruct Hb as (Hne & Hs & Hnd & Hf & HC).
    split; [exact Hne|]. split; [exact Hs|]. split; [exact Hnd|].
    split; [eapply Forall_inb_weaken; eauto|].
    eapply Forall2_weaken_r; [|exact HC|apply cbounds_rel; eassumption].
    cbn beta. intros e b b' _ HP [Hb1 Hb2]. eapply IH; eauto.
Qed.

Lemma CInv_weaken_gen : forall h d ks,
  (forall z lo hi lo' hi' n, lo_le lo' lo -> hi_le hi hi' -> Inv h d z lo hi n -> Inv h d z lo' hi' n) ->
  forall e b b', CInv h d ks e b -> brel b b' -> CInv h d ks e b'.
Proof.
  intros h d ks IH e b b' H [H1 H2]. unfold CInv in *. destruct (find_kid (snd e) ks).
  - eapply IH; eauto.
  - eapply PInv_weaken; eauto.
Qed.

Lemma Inv_weaken : forall h d z lo hi lo' hi' n, lo_le lo' lo -> hi_le hi hi' ->
  Inv h d z lo hi n -> Inv h d z lo' hi' n.
Proof.
  induction h as [|h IH]; intros d z lo hi lo' hi' n Hl Hh H; [exact H|].
  destruct n as [p np o s [l|es] ks].
  - rewrite Inv_leaf_eq in *. destruct H as [Hs Hf]. split; [exact Hs|]. eapply Forall_inb_weaken; eauto.
  - rewrite Inv_branch_eq in *. destruct H as (Hne & Hs & Hnd & Hf & Hk & HC).
    split; [exact Hne|]. split; [exact Hs|]. split; [exact Hnd|].
    split; [eapply Forall_inb_weaken; eauto|]. split; [exact Hk|].
    eapply Forall2_weaken_r; [|exact HC|apply cbounds_rel; eassumption].
    intros e b b' _ HP Hb. eapply CInv_weaken_gen; eauto.
Qed.

Lemma CInv_weaken : forall h d ks e b b', CInv h d ks e b -> brel b b' -> CInv h d ks e b'.
Proof. intros h d ks. apply CInv_weaken_gen. intros. eapply Inv_weaken; eauto. Qed.

Lemma PInv_okey_none : forall h d lo hi ok q, PInv h d lo hi ok q -> PInv h d lo hi None q.
Proof.
  destruct h as [|h]; intros d lo hi ok q H; [exact H|]. cbn [PInv] in *.
  destruct H as (a & Hg & _ & Hb). exists a. split; [exact Hg|]. split; [exact I | exact Hb].
Qed.

Lemma Inv_z_true : forall h d z lo hi n, Inv h d z lo hi n -> Inv h d true lo hi n.
Proof.
  destruct h as [|h]; intros d z lo hi n H; [exact H|]. destruct n as [p np o s [l|es] ks]; [exact H|].
  rewrite Inv_branch_eq in *. destruct H as (_ & H). split; [discriminate | exact H].
Qed.

Lemma Inv_z_false : forall h d z lo hi n, Inv h d z lo hi n -> n_data n <> Branches [] -> Inv h d false lo hi n.
Proof.
  destruct h as [|h]; intros d z lo hi n H Hne; [exact H|]. destruct n as [p np o s [l|es] ks]; [exact H|].
  rewrite Inv_branch_eq in *. destruct H as (_ & H). split; [|exact H]. intros _ E. apply Hne. now subst.
Qed.

Lemma node_of_page_Inv : forall h d lo hi ok q a sq, dget d q = Some a ->
  PInv h d lo hi ok q -> Inv h d false lo hi (node_of_page q a sq).
Proof.
  destruct h as [|h]; intros d lo hi ok q a sq Hg H; [exact H|]. cbn [PInv] in H.
  destruct H as (a' & Hg' & _ & Hb). rewrite Hg in Hg'. inversion Hg'; subst a'.
  unfold node_of_page. destruct (ap_body a) as [l|es].
  - rewrite Inv_leaf_eq. exact Hb.
  - rewrite Inv_branch_eq. destruct Hb as (Hne & Hs & Hnd & Hf & HC).
    split; [intros _; exact Hne|]. split; [exact Hs|]. split; [exact Hnd|]. split; [exact Hf|].
    split; [split; constructor|].
    eapply Forall2_impl; [|exact HC]. intros e b HP. unfold CInv. rewrite find_kid_nil. exact HP.
Qed.

Lemma node_of_page_orig : forall h d lo hi key q a sq, dget d q = Some a ->
  PInv h d lo hi (Some key) q -> n_orig (node_of_page q a sq) = Some key.
Proof.
  destruct h as [|h]; intros d lo hi key q a sq Hg H; [destruct H|]. cbn [PInv] in H.
  destruct H as (a' & Hg' & Hok & _). rewrite Hg in Hg'. inversion Hg'; subst a'.
  cbn [okey_ok] in Hok. unfold node_of_page. cbn [n_orig]. now rewrite Hok.
Qed.

Lemma node_of_page_npages : forall h d q a sq, dget d q = Some a ->
  npages h d (node_of_page q a sq) = ppages h d q.
Proof.
  destruct h as [|h]; intros d q a sq Hg; [reflexivity|]. unfold node_of_page. cbn [ppages]. rewrite Hg.
  destruct (ap_body a) as [l|es]; [reflexivity|]. rewrite npages_branch_eq. f_equal.
Qed.
(* ====================================================================== *)
(** * 4. The view lies within the bounds; the invariant implies [wf_page] / [wf_node] *)

Lemma Forall2_pair_Forall : forall {A B C} (P : A -> B -> Prop) (V : A -> C -> Prop) (Q : C -> Prop) xs bs ls,
  Forall2 P xs bs -> Forall2 V xs ls ->
  (forall x b l, In b bs -> P x b -> V x l -> Q l) -> Forall Q ls.
Proof.
  intros A B C P V Q xs bs ls HP. revert ls.
  induction HP as [|x b xs bs Hx HP IH]; intros ls HV Himp; inversion HV; subst; constructor.
  - eapply Himp; eauto. now left.
  - apply IH; [assumption|]. intros x0 b0 l0 Hin. apply Himp. now right.
Qed.

Lemma Forall_concat_intro : forall {A} (Q : A -> Prop) ls, Forall (Forall Q) ls -> Forall Q (concat ls).
Proof.
  intros A Q ls H. induction H as [|l ls Hl H IH]; cbn [concat]; [constructor|].
  apply Forall_app. split; assumption.
Qed.

Lemma Forall_map_iff : forall {A B} (f : A -> B) (Q : B -> Prop) l, Forall Q (map f l) <-> Forall (fun x => Q (f x)) l.
Proof. intros. apply Forall_map. Qed.

Lemma cbounds_inside : forall lo hi seps, sorted_keys seps = true -> Forall (inb lo hi) seps ->
  Forall (fun b => lo_le lo (fst b) /\ hi_le (snd b) hi) (cbounds lo seps hi).
Proof. intros lo hi seps Hs Hf. apply cbs_inside; [exact Hs | exact Hf | apply lo0_inside]. Qed.

Lemma PInv_view_bounds : forall h d lo hi ok q h' l, PInv h d lo hi ok q -> PageView d h' q l ->
  Forall (inb lo hi) (map lkey l).
Proof.
  induction h as [|h IH]; intros d lo hi ok q h' l H Hv; [destruct H|]. cbn [PInv] in H.
  destruct H as (a & Hg & _ & Hb).
  inversion Hv as [? ? a' l0 Hg' Hb' | ? ? a' es ls Hg' Hb' HF]; subst;
    rewrite Hg in Hg'; inversion Hg'; subst a'; rewrite Hb' in Hb.
  - apply Hb.
  - destruct Hb as (Hne & Hs & Hnd & Hf & HC). apply Forall_map_iff. apply Forall_concat_intro.
    pose proof (cbounds_inside lo hi _ Hs Hf) as Hin. rewrite Forall_forall in Hin.
    eapply Forall2_pair_Forall; [exact HC | exact HF |]. cbn beta. intros e b l1 Hb1 HP HV.
    apply Forall_map_iff. destruct (Hin b Hb1) as [H1 H2].
    eapply Forall_inb_weaken; [exact H1 | exact H2 |]. eapply IH; eauto.
Qed.

Lemma Inv_view_bounds : forall h d z lo hi n h' l, Inv h d z lo hi n -> NodeView d h' n l ->
  Forall (inb lo hi) (map lkey l).
Proof.
  induction h as [|h IH]; intros d z lo hi n h' l H Hv; [destruct H|].
  destruct n as [p np o s [l0|es] ks].
  - apply NodeView_leaf_inv in Hv. destruct Hv as [-> _]. apply H.
  - rewrite Inv_branch_eq in H. destruct H as (Hne & Hs & Hnd & Hf & Hk & HC).
    apply NodeView_branch_inv in Hv. destruct Hv as (h0 & ls & -> & -> & HF).
    apply Forall_map_iff. apply Forall_concat_intro.
    pose proof (cbounds_inside lo hi _ Hs Hf) as Hin. rewrite Forall_forall in Hin.
    eapply Forall2_pair_Forall; [exact HC | exact HF |]. cbn beta. intros e b l1 Hb1 HP HV.
    apply Forall_map_iff. destruct (Hin b Hb1) as [H1 H2].
    eapply Forall_inb_weaken; [exact H1 | exact H2 |].
    unfold CInv, ChildView in *. destruct (find_kid (snd e) ks).
    + eapply IH; eauto.
    + eapply PInv_view_bounds; eauto.
Qed.

(* what [cbs] says at index j *)
Lemma cbs_nth : forall seps f hi j b, nth_error (cbs f seps hi) j = Some b ->
  (1 <= j -> fst b = Some (nth j seps [])) /\ (S j < length seps -> snd b = Some (nth (S j) seps [])).
Proof.
  induction seps as [|s r IH]; intros f hi j b H; [destruct j; discriminate|].
  destruct j as [|j]; cbn [cbs nth_error] in H.
  - inversion H; subst b. cbn [fst snd]. split; [lia|]. intros Hl. cbn [length] in Hl.
    destruct r as [|s' r']; [cbn in Hl; lia | reflexivity].
  - destruct (IH Some hi j b H) as [H1 H2]. split.
    + intros _. destruct j as [|j].
      * destruct r as [|s' r']; cbn [cbs nth_error] in H; [discriminate|]. inversion H; subst b. reflexivity.
      * cbn [nth]. apply H1. lia.
    + intros Hl. cbn [length] in Hl. cbn [nth]. apply H2. lia.
Qed.

Lemma bounds_in_range : forall seps f hi j b l, nth_error (cbs f seps hi) j = Some b ->
  Forall (inb (fst b) (snd b)) (map lkey l) -> in_range seps j l.
Proof.
  intros seps f hi j b l Hb Hl. destruct (cbs_nth _ _ _ _ _ Hb) as [H1 H2]. apply (Forall_map_iff lkey) in Hl. split.
  - intros Hj. eapply Forall_impl; [|exact Hl]. cbn beta. intros e [He _]. rewrite (H1 Hj) in He. exact He.
  - intros Hj. eapply Forall_impl; [|exact Hl]. cbn beta. intros e [_ He]. rewrite (H2 Hj) in He. exact He.
Qed.

Lemma PInv_wf_page : forall h d lo hi ok q, PInv h d lo hi ok q -> wf_page d q.
Proof.
  induction h as [|h IH]; intros d lo hi ok q H; [destruct H|]. cbn [PInv] in H.
  destruct H as (a & Hg & _ & Hb). destruct (ap_body a) as [l|es] eqn:Eb.
  - eapply wfp_leaf; eauto. apply Hb.
  - destruct Hb as (Hne & Hs & Hnd & Hf & HC). eapply wfp_branch; eauto.
    + repeat split; assumption.
    + apply Forall_forall. intros e He. destruct (In_nth_error _ _ He) as [j Hj].
      destruct (Forall2_nth_error_l _ _ _ _ _ HC Hj) as (b & Hb & HP). eapply IH; eauto.
    + intros j e l Hj [h' Hv]. destruct (Forall2_nth_error_l _ _ _ _ _ HC Hj) as (b & Hb & HP).
      eapply bounds_in_range; [exact Hb|]. eapply PInv_view_bounds; eauto.
Qed.

Theorem Inv_wf_node : forall h d lo hi n, Inv h d false lo hi n -> wf_node d n.
Proof.
  induction h as [|h IH]; intros d lo hi n H; [destruct H|].
  destruct n as [p np o s [l|es] ks].
  - apply wfn_leaf. apply H.
  - rewrite Inv_branch_eq in H. destruct H as (Hne & Hs & Hnd & Hf & Hk & HC).
    apply wf_node_branch_intro.
    + split; [now apply Hne|]. split; assumption.
    + apply Forall_forall. intros e He. destruct (In_nth_error _ _ He) as [j Hj].
      destruct (Forall2_nth_error_l _ _ _ _ _ HC Hj) as (b & Hb & HP).
      unfold CInv, ChildWf in *. destruct (find_kid (snd e) ks).
      * eapply IH; eauto.
      * eapply PInv_wf_page; eauto.
    + intros j e l Hj [h' Hv]. destruct (Forall2_nth_error_l _ _ _ _ _ HC Hj) as (b & Hb & HP).
      eapply bounds_in_range; [exact Hb|].
      unfold CInv, ChildView in *. destruct (find_kid (snd e) ks).
      * eapply Inv_view_bounds; eauto.
      * eapply PInv_view_bounds; eauto.
Qed.
(* ====================================================================== *)
(** * 5. Sorted separators, entries, kids: auxiliary facts *)

Lemma sorted_app_cross : forall a b x y, sorted_keys (a ++ b) = true -> In x a -> In y b -> bcmp x y = Lt.
Proof.
  induction a as [|z a IH]; intros b x y Hs Hx Hy; [destruct Hx|].
  cbn [app] in Hs. destruct (sorted_keys_cons _ _ Hs) as [Hall Hs'].
  destruct Hx as [-> | Hx]; [|eapply IH; eauto].
  rewrite Forall_forall in Hall. apply Hall. apply in_or_app. now right.
Qed.

Lemma sorted_remove : forall a x b, sorted_keys (a ++ x :: b) = true -> sorted_keys (a ++ b) = true.
Proof.
  intros a x b Hs. destruct (sorted_keys_app _ _ Hs) as [Ha Hxb].
  apply sorted_keys_app_intro; [exact Ha | eapply sorted_keys_tl; eauto |].
  intros u v Hu Hv. eapply sorted_app_cross; [exact Hs | exact Hu | now right].
Qed.

(* an entry is determined by its key, and by its page *)
Lemma entry_by_key : forall (es : list (bytes * N)) k q q', sorted_keys (map fst es) = true ->
  In (k, q) es -> In (k, q') es -> q = q'.
Proof.
  intros es k q q' Hs H1 H2. apply sorted_keys_NoDup in Hs.
  pose proof (NoDup_map_inj fst es (k, q) (k, q') Hs H1 H2 eq_refl) as E. now inversion E.
Qed.
Lemma entry_by_page : forall (es : list (bytes * N)) k k' q, NoDup (map snd es) ->
  In (k, q) es -> In (k', q) es -> k = k'.
Proof.
  intros es k k' q Hs H1 H2.
  pose proof (NoDup_map_inj snd es (k, q) (k', q) Hs H1 H2 eq_refl) as E. now inversion E.
Qed.

Lemma find_kid_In : forall q ks kd, find_kid q ks = Some kd -> In kd ks /\ n_page kd = q.
Proof.
  intros q ks kd H. destruct (find_kid_split _ _ _ H) as (a & b & -> & Hp & _). split; [|exact Hp].
  apply in_or_app. right. now left.
Qed.

Lemma find_kid_None : forall q ks, find_kid q ks = None -> forall x, In x ks -> n_page x <> q.
Proof.
  unfold find_kid. intros q ks H x Hx E. pose proof (find_none _ _ H x Hx) as Hn. cbn beta in Hn. lia.
Qed.

Lemma find_kid_NoDup : forall ks k, NoDup (map n_page ks) -> In k ks -> find_kid (n_page k) ks = Some k.
Proof.
  unfold find_kid. induction ks as [|x ks IH]; intros k Hnd Hin; [destruct Hin|].
  cbn [map] in Hnd. inversion Hnd as [|? ? Hx Hnd']; subst. cbn [find].
  destruct Hin as [-> | Hin]; [now rewrite N.eqb_refl|].
  destruct (N.eqb (n_page x) (n_page k)) eqn:E; [|now apply IH].
  apply N.eqb_eq in E. exfalso. apply Hx. rewrite E. now apply in_map.
Qed.

Lemma replace_kid_id : forall ks k, find_kid (n_page k) ks = Some k -> replace_kid ks k = ks.
Proof.
  intros ks k H. destruct (find_kid_split _ _ _ H) as (a & b & -> & _ & Ha).
  apply replace_kid_hit; [reflexivity | exact Ha].
Qed.

Lemma filter_seq_split : forall a k b, NoDup (map n_seq (a ++ k :: b)) ->
  filter (not_seq (n_seq k)) (a ++ k :: b) = a ++ b.
Proof.
  intros a k b Hnd. rewrite filter_app. cbn [filter]. unfold not_seq at 2. rewrite N.eqb_refl. cbn [negb].
  rewrite map_app in Hnd. cbn [map] in Hnd.
  pose proof (NoDup_remove_2 _ _ _ Hnd) as Hk.
  rewrite !filter_not_seq_id; [reflexivity | |]; intros Hin; apply Hk; apply in_or_app; tauto.
Qed.

Lemma seqs_kids_NoDup : forall ks, NoDup (flat_map seqs ks) -> NoDup (map n_seq ks).
Proof.
  induction ks as [|x ks IH]; intros H; [constructor|]. cbn [flat_map map] in *. rewrite seqs_eq in H.
  cbn [app] in H. inversion H as [|? ? Hx Hnd]; subst. constructor.
  - intros Hin. apply Hx. apply in_or_app. right. apply in_map_iff in Hin. destruct Hin as (y & Hy & Hin).
    apply in_flat_map. exists y. split; [exact Hin|]. rewrite seqs_eq, <- Hy. now left.
  - apply IH. eapply NoDup_app_r; eauto.
Qed.

(* the kid list after [k] is filtered out by its sequence number *)
Lemma filter_seq_spec : forall ks k, NoDup (map n_seq ks) -> NoDup (map n_page ks) -> In k ks ->
  let ks0 := filter (not_seq (n_seq k)) ks in
  (forall q', q' <> n_page k -> find_kid q' ks0 = find_kid q' ks) /\
  (forall x, In x ks0 <-> In x ks /\ x <> k) /\
  NoDup (map n_page ks0) /\
  Permutation (flat_map seqs ks) (seqs k ++ flat_map seqs ks0).
Proof.
  intros ks k Hs Hp Hin ks0. destruct (in_split _ _ Hin) as (a & b & E). subst ks.
  assert (E0 : ks0 = a ++ b) by (subst ks0; now apply filter_seq_split). rewrite E0. clear E0 ks0.
  rewrite map_app in Hp. cbn [map] in Hp. pose proof (NoDup_remove_2 _ _ _ Hp) as Hk.
  split; [|split; [|split]].
  - intros q' Hq'. unfold find_kid. rewrite !find_app. cbn [find].
    assert (Ek : N.eqb (n_page k) q' = false) by lia. now rewrite Ek.
  - intros x. rewrite !in_app_iff. cbn [In]. split.
    + intros Hx. split; [tauto|]. intros ->. apply Hk. rewrite <- map_app. apply in_map. now apply in_or_app.
    + intros [[Hx | [Hx | Hx]] Hne]; [tauto | congruence | tauto].
  - rewrite map_app. eapply NoDup_remove_1; eauto.
  - rewrite !flat_map_app. cbn [flat_map]. rewrite app_assoc.
    rewrite (Permutation_app_comm (flat_map seqs a) (seqs k)). now rewrite <- app_assoc.
Qed.
(* ====================================================================== *)
(** * 6. Joining two adjacent nodes *)

Definition djoin (a b : ndata) : ndata :=
  match a, b with
  | Leaves l1, Leaves l2 => Leaves (l1 ++ l2)
  | Branches e1, Branches e2 => Branches (e1 ++ e2)
  | _, _ => a end.

Lemma Inv_dkeys : forall h d z lo hi n, Inv h d z lo hi n ->
  sorted_keys (dkeys (n_data n)) = true /\ Forall (inb lo hi) (dkeys (n_data n)).
Proof.
  destruct h as [|h]; intros d z lo hi n H; [destruct H|]. destruct n as [p np o s [l|es] ks].
  - exact H.
  - rewrite Inv_branch_eq in H. cbn [n_data dkeys]. tauto.
Qed.

Lemma adjacent_lt : forall la m hb x y, inb la (Some m) x -> inb (Some m) hb y -> bcmp x y = Lt.
Proof. intros la m hb x y [_ H1] [H2 _]. cbn in H1, H2. eapply bcmp_lt_le_trans; eauto. Qed.

Lemma merge_data_lr : forall a b md la m hb,
  sorted_keys (dkeys a) = true -> Forall (inb la (Some m)) (dkeys a) ->
  sorted_keys (dkeys b) = true -> Forall (inb (Some m) hb) (dkeys b) ->
  merge_data a b = Ok md -> md = djoin a b.
Proof.
  intros a b md la m hb Sa Fa Sb Fb H. rewrite Forall_forall in Fa, Fb.
  destruct a as [l1|e1], b as [l2|e2]; cbn [dkeys djoin] in *; try discriminate.
  - rewrite merge_data_leaves_lr in H; [now inversion H | exact Sa | exact Sb |].
    intros x y Hx Hy. eapply adjacent_lt; [apply Fa | apply Fb]; now apply in_map.
  - rewrite merge_data_branches_lr in H; [now inversion H | exact Sa | exact Sb |].
    intros x y Hx Hy. eapply adjacent_lt; [apply Fa | apply Fb]; now apply in_map.
Qed.

Lemma merge_data_rl : forall a b md la m hb,
  sorted_keys (dkeys a) = true -> Forall (inb la (Some m)) (dkeys a) ->
  sorted_keys (dkeys b) = true -> Forall (inb (Some m) hb) (dkeys b) ->
  merge_data b a = Ok md -> md = djoin a b.
Proof.
  intros a b md la m hb Sa Fa Sb Fb H. rewrite Forall_forall in Fa, Fb.
  destruct a as [l1|e1], b as [l2|e2]; cbn [dkeys djoin] in *; try discriminate.
  - rewrite merge_data_leaves_rl in H; [now inversion H | exact Sb | exact Sa |].
    intros x y Hx Hy. eapply adjacent_lt; [apply Fa | apply Fb]; now apply in_map.
  - rewrite merge_data_branches_rl in H; [now inversion H | exact Sb | exact Sa |].
    intros x y Hx Hy. eapply adjacent_lt; [apply Fa | apply Fb]; now apply in_map.
Qed.

Lemma merge_data_kind : forall a b md, merge_data a b = Ok md -> is_leaf a = is_leaf b.
Proof. intros a b md H. apply merge_data_ok_iff. eauto. Qed.

(* the kid list [kk] of the joined node resolves the pages of a's entries as ka does, those of b's as kb does *)
Definition kids_join (da db : ndata) (ka kb kk : list node) : Prop :=
  match da with Leaves _ => True | Branches _ =>
  (forall q, In q (dpages da) -> find_kid q kk = find_kid q ka) /\
  (forall q, In q (dpages db) -> find_kid q kk = find_kid q kb) /\
  NoDup (map n_page kk) /\ (forall x, In x kk -> In x ka \/ In x kb) end.

Lemma kids_linked_pages : forall es ks x, kids_linked es ks -> In x ks -> In (n_page x) (map snd es).
Proof.
  intros es ks x [_ HF] Hx. rewrite Forall_forall in HF. destruct (HF x Hx) as (key & Hin & _).
  apply in_map_iff. exists (key, n_page x). split; [reflexivity | exact Hin].
Qed.

Lemma kids_join_app : forall e1 e2 ka kb, kids_linked e1 ka -> kids_linked e2 kb ->
  (forall q, In q (map snd e1) -> In q (map snd e2) -> False) ->
  kids_join (Branches e1) (Branches e2) ka kb (ka ++ kb) /\ kids_join (Branches e1) (Branches e2) ka kb (kb ++ ka).
Proof.
  intros e1 e2 ka kb La Lb Hd. cbn [dpages kids_join].
  assert (Hnd : NoDup (map n_page (ka ++ kb))).
  { rewrite map_app. apply NoDup_app_intro; [apply La | apply Lb |].
    intros q H1 H2. apply in_map_iff in H1, H2. destruct H1 as (x & <- & Hx), H2 as (y & Hy & Hy').
    apply (Hd (n_page x)); [eapply kids_linked_pages; eauto | rewrite <- Hy; eapply kids_linked_pages; eauto]. }
  split; (split; [|split; [|split]]).
  - intros q Hq. apply find_kid_app_l. intros x Hx E. apply (Hd q Hq). rewrite <- E. eapply kids_linked_pages; eauto.
  - intros q Hq. apply find_kid_app_r. intros x Hx E. apply (Hd q); [|exact Hq]. rewrite <- E. eapply kids_linked_pages; eauto.
  - exact Hnd.
  - intros x Hx. apply in_app_or in Hx. tauto.
  - intros q Hq. apply find_kid_app_r. intros x Hx E. apply (Hd q Hq). rewrite <- E. eapply kids_linked_pages; eauto.
  - intros q Hq. apply find_kid_app_l. intros x Hx E. apply (Hd q); [|exact Hq]. rewrite <- E. eapply kids_linked_pages; eauto.
  - eapply Permutation_NoDup; [|exact Hnd]. rewrite !map_app. apply Permutation_app_comm.
  - intros x Hx. apply in_app_or in Hx. tauto.
Qed.

Lemma lo0_idem : forall lo x, lo0 (lo0 lo x) = lo0 lo.
Proof. intros [b|] x; reflexivity. Qed.

Lemma CInv_transfer : forall h d ks ks' es bs bs',
  Forall2 (CInv h d ks) es bs -> Forall2 brel bs bs' ->
  (forall e, In e es -> find_kid (snd e) ks' = find_kid (snd e) ks) ->
  Forall2 (CInv h d ks') es bs'.
Proof.
  intros h d ks ks' es bs bs' HC Hb Hf. eapply Forall2_weaken_r; [|exact HC|exact Hb].
  intros e b b' He HP Hr. pose proof (CInv_weaken _ _ _ _ _ _ HP Hr) as H. unfold CInv in *.
  now rewrite (Hf e He).
Qed.

Lemma Inv_lo_first : forall h d z a hi n fk, Inv h d z (Some a) hi n -> first_key (n_data n) = Ok fk ->
  Inv h d z (Some fk) hi n.
Proof.
  destruct h as [|h]; intros d z a hi n fk H Hfk; [destruct H|]. destruct n as [p np o s [l|es] ks]; cbn [n_data] in Hfk.
  - rewrite Inv_leaf_eq in *. destruct H as [Hs Hf]. split; [exact Hs|].
    destruct l as [|e l]; [constructor|]. cbn in Hfk. inversion Hfk; subst fk. cbn [map] in *.
    destruct (sorted_keys_cons _ _ Hs) as [Hall _]. inversion Hf as [|? ? [_ H1] Hf']; subst. constructor.
    + split; [cbn; apply bcmp_le_refl | exact H1].
    + rewrite Forall_forall in *. intros x Hx. destruct (Hf' x Hx) as [_ H2]. split; [|exact H2].
      cbn. apply bcmp_lt_le. now apply Hall.
  - rewrite Inv_branch_eq in *. destruct H as (Hne & Hs & Hnd & Hf & Hk & HC).
    split; [exact Hne|]. split; [exact Hs|]. split; [exact Hnd|]. split; [|split; [exact Hk | exact HC]].
    destruct es as [|e es]; [constructor|]. cbn in Hfk. inversion Hfk; subst fk. cbn [map] in *.
    destruct (sorted_keys_cons _ _ Hs) as [Hall _]. inversion Hf as [|? ? [_ H1] Hf']; subst. constructor.
    + split; [cbn; apply bcmp_le_refl | exact H1].
    + rewrite Forall_forall in *. intros x Hx. destruct (Hf' x Hx) as [_ H2]. split; [|exact H2].
      cbn. apply bcmp_lt_le. now apply Hall.
Qed.

Lemma Inv_height : forall h d z lo hi n, Inv h d z lo hi n -> exists h0, h = S h0.
Proof. destruct h; intros d z lo hi n H; [destruct H | eauto]. Qed.

Lemma join_Inv : forall h d la m hb A B za zb p np o s kk,
  Inv h d za la (Some m) A -> Inv h d zb (Some m) hb B ->
  n_data A <> Branches [] -> n_data B <> Branches [] ->
  lo_le la (Some m) -> hi_le (Some m) hb ->
  is_leaf (n_data A) = is_leaf (n_data B) ->
  kids_join (n_data A) (n_data B) (n_kids A) (n_kids B) kk ->
  (forall q, In q (dpages (n_data A)) -> In q (dpages (n_data B)) -> False) ->
  Inv h d false la hb (Node p np o s (djoin (n_data A) (n_data B)) kk).
Proof.
  intros h d la m hb A B za zb p np o s kk HA HB NA NB Hlm Hmh Hk HJ Hd.
  destruct (Inv_height _ _ _ _ _ _ HA) as [h0 ->].
  destruct (Inv_dkeys _ _ _ _ _ _ HA) as [SA FA]. destruct (Inv_dkeys _ _ _ _ _ _ HB) as [SB FB].
  assert (Hcross : forall x y, In x (dkeys (n_data A)) -> In y (dkeys (n_data B)) -> bcmp x y = Lt).
  { rewrite Forall_forall in FA, FB. intros x y Hx Hy. eapply adjacent_lt; [apply FA | apply FB]; assumption. }
  assert (FA' : Forall (inb la hb) (dkeys (n_data A))).
  { eapply Forall_inb_weaken; [apply lo_le_refl | exact Hmh | exact FA]. }
  assert (FB' : Forall (inb la hb) (dkeys (n_data B))).
  { eapply Forall_inb_weaken; [exact Hlm | apply hi_le_refl | exact FB]. }
  destruct A as [pa npa oa sa [lA|eA] kA], B as [pb npb ob sb [lB|eB] kB]; cbn [n_data n_kids is_leaf dkeys djoin dpages kids_join] in *;
    try discriminate.
  - rewrite Inv_leaf_eq. rewrite map_app. split.
    + apply sorted_keys_app_intro; assumption.
    + apply Forall_app. split; assumption.
  - rewrite Inv_branch_eq in HA, HB. destruct HA as (_ & _ & NdA & _ & LA & CA). destruct HB as (_ & _ & NdB & _ & LB & CB).
    destruct HJ as (J1 & J2 & J3 & J4). rewrite Inv_branch_eq.
    split; [intros _ E; apply app_eq_nil in E; destruct E as [-> _]; now apply NA|].
    split; [rewrite map_app; apply sorted_keys_app_intro; assumption|].
    split; [rewrite map_app; apply NoDup_app_intro; assumption|].
    split; [rewrite map_app; apply Forall_app; split; assumption|].
    split.
    { split; [exact J3|]. apply Forall_forall. intros x Hx. destruct LA as [_ LA], LB as [_ LB].
      rewrite Forall_forall in LA, LB. destruct (J4 x Hx) as [Hx' | Hx'].
      - destruct (LA x Hx') as (key & Hin & Ho). exists key. split; [apply in_or_app; now left | exact Ho].
      - destruct (LB x Hx') as (key & Hin & Ho). exists key. split; [apply in_or_app; now right | exact Ho]. }
    destruct eB as [|[b0 q0] eB']; [congruence|]. rewrite map_app. cbn [map fst].
    unfold cbounds. rewrite cbs_app. apply Forall2_app.
    + eapply CInv_transfer; [exact CA | |].
      * apply cbs_rel; [intros; apply lo_le_refl|]. cbn. inversion FB as [|? ? [H1 _] _]; subst. exact H1.
      * intros e He. apply J1. now apply in_map.
    + eapply CInv_transfer; [exact CB | |].
      * unfold cbounds. cbn [map fst]. apply cbs_rel; [|apply hi_le_refl]. intros s0. cbn [lo0]. apply fst_fun_le_some.
      * intros e He. apply J2. now apply in_map.
Qed.

Lemma join_view : forall d h A B lA lB p np o s kk,
  NodeView d h A lA -> NodeView d h B lB -> is_leaf (n_data A) = is_leaf (n_data B) ->
  kids_join (n_data A) (n_data B) (n_kids A) (n_kids B) kk ->
  NodeView d h (Node p np o s (djoin (n_data A) (n_data B)) kk) (lA ++ lB).
Proof.
  intros d h A B lA lB p np o s kk VA VB Hk HJ.
  destruct A as [pa npa oa sa [l1|eA] kA], B as [pb npb ob sb [l2|eB] kB]; cbn [n_data n_kids is_leaf djoin dpages kids_join] in *;
    try discriminate; [|destruct HJ as (J1 & J2 & _ & _)].
  - apply NodeView_leaf_inv in VA, VB. destruct VA as [-> [h0 ->]], VB as [-> _]. apply NV_leaf.
  - apply NodeView_branch_inv in VA, VB. destruct VA as (h0 & ls1 & -> & -> & F1), VB as (h0' & ls2 & E & -> & F2).
    inversion E; subst h0'. rewrite <- concat_app. apply NodeView_branch_intro. apply Forall2_app.
    + eapply Forall2_impl_in; [|exact F1]. intros e l He HV. unfold ChildView in *.
      rewrite J1; [exact HV | now apply in_map].
    + eapply Forall2_impl_in; [|exact F2]. intros e l He HV. unfold ChildView in *.
      rewrite J2; [exact HV | now apply in_map].
Qed.

Lemma npages_leaf : forall h d n, is_leaf (n_data n) = true -> npages h d n = [].
Proof. intros [|h] d [p np o s [l|es] ks] H; try reflexivity. discriminate. Qed.

Lemma join_npages : forall d h A B p np o s kk,
  is_leaf (n_data A) = is_leaf (n_data B) ->
  kids_join (n_data A) (n_data B) (n_kids A) (n_kids B) kk ->
  Permutation (npages h d (Node p np o s (djoin (n_data A) (n_data B)) kk)) (npages h d A ++ npages h d B).
Proof.
  intros d h A B p np o s kk Hk HJ. destruct h as [|h]; [constructor|].
  destruct A as [pa npa oa sa [l1|eA] kA], B as [pb npb ob sb [l2|eB] kB]; cbn [n_data n_kids is_leaf djoin dpages kids_join] in *;
    try discriminate; [|destruct HJ as (J1 & J2 & _ & _)].
  - constructor.
  - rewrite !npages_branch_eq. rewrite map_app, flat_map_app.
    assert (E1 : flat_map (fun e => cpages h d kk (snd e)) eA = flat_map (fun e => cpages h d kA (snd e)) eA).
    { apply flat_map_ext_in. intros e He. unfold cpages. rewrite J1; [reflexivity | now apply in_map]. }
    assert (E2 : flat_map (fun e => cpages h d kk (snd e)) eB = flat_map (fun e => cpages h d kB (snd e)) eB).
    { apply flat_map_ext_in. intros e He. unfold cpages. rewrite J2; [reflexivity | now apply in_map]. }
    rewrite E1, E2. rewrite <- !app_assoc. apply Permutation_app_head.
    rewrite !app_assoc. apply Permutation_app_tail. apply Permutation_app_comm.
Qed.

Lemma npages_dpages : forall h d n, incl (dpages (n_data n)) (npages (S h) d n).
Proof.
  intros h d [p np o s [l|es] ks]; cbn [n_data dpages]; [intros x []|].
  rewrite npages_branch_eq. intros x Hx. apply in_or_app. now left.
Qed.
(* ====================================================================== *)
(** * 7. The transaction state *)

(* everything but [pending] and [seqc] is untouched, [seqc] only grows *)
Definition tx_frame (s s' : txs) : Prop :=
  free s' = free s /\ txid s' = txid s /\ np s' = np s /\ psz s' = psz s /\ wr s' = wr s /\ flw s' = flw s /\
  (seqc s <= seqc s')%N.

Lemma tx_frame_refl : forall s, tx_frame s s.
Proof. intros s. unfold tx_frame. repeat split; lia. Qed.
Lemma tx_frame_trans : forall s1 s2 s3, tx_frame s1 s2 -> tx_frame s2 s3 -> tx_frame s1 s3.
Proof.
  intros s1 s2 s3 (A1 & A2 & A3 & A4 & A5 & A6 & A7) (B1 & B2 & B3 & B4 & B5 & B6 & B7).
  unfold tx_frame. repeat split; try congruence. lia.
Qed.

Definition bump (s : txs) : txs := snd (next_seq s).
Lemma tx_frame_bump : forall s, tx_frame s (bump s).
Proof. intros s. unfold tx_frame, bump, next_seq. cbn. repeat split; lia. Qed.
Lemma seqc_bump : forall s, seqc (bump s) = (seqc s + 1)%N.
Proof. reflexivity. Qed.

Lemma free_run_frame : forall n s p,
  free (free_run s p n) = free s /\ txid (free_run s p n) = txid s /\ np (free_run s p n) = np s /\
  psz (free_run s p n) = psz s /\ wr (free_run s p n) = wr s /\ flw (free_run s p n) = flw s /\
  seqc (free_run s p n) = seqc s.
Proof.
  induction n as [|n IH]; intros s p; cbn [free_run]; [repeat split|].
  destruct (freed_in_tx s p); [apply IH|].
  destruct (IH (upd_pending s (pend_add (txid s) p (pending s))) (p + 1)%N) as (A1 & A2 & A3 & A4 & A5 & A6 & A7).
  rewrite A1, A2, A3, A4, A5, A6, A7. repeat split.
Qed.

Lemma free_node_page_frame : forall s k, tx_frame s (free_node_page s k) /\ seqc (free_node_page s k) = seqc s.
Proof.
  intros s k. unfold free_node_page. destruct (n_page k =? 0)%N; [split; [apply tx_frame_refl | reflexivity]|].
  unfold free_pages. destruct (free_run_frame (N.to_nat (n_np k)) s (n_page k)) as (A1 & A2 & A3 & A4 & A5 & A6 & A7).
  unfold tx_frame. rewrite A1, A2, A3, A4, A5, A6, A7. repeat split. lia.
Qed.

(* the pages handed back do not depend on the sequence counter *)
Lemma free_run_pending_ext : forall n s1 s2 p, pending s1 = pending s2 -> txid s1 = txid s2 ->
  pending (free_run s1 p n) = pending (free_run s2 p n).
Proof.
  induction n as [|n IH]; intros s1 s2 p Hp Ht; cbn [free_run]; [exact Hp|].
  assert (E : freed_in_tx s1 p = freed_in_tx s2 p) by (unfold freed_in_tx; now rewrite Hp, Ht).
  rewrite E. destruct (freed_in_tx s2 p); [now apply IH|]. apply IH; cbn; [now rewrite Hp, Ht | exact Ht].
Qed.

Lemma free_node_page_bump : forall s k, pending (free_node_page (bump s) k) = pending (free_node_page s k).
Proof.
  intros s k. unfold free_node_page. destruct (n_page k =? 0)%N; [reflexivity|].
  unfold free_pages. apply free_run_pending_ext; reflexivity.
Qed.

(* the outcome of [try_merge] on the transaction state: nothing, or the page run of k is handed back
   (after a sibling was read in: with the sequence counter advanced by one) *)
Definition merge_tx (s : txs) (k : node) (s' : txs) : Prop :=
  s' = s \/ s' = free_node_page s k \/ s' = free_node_page (bump s) k.

Lemma merge_tx_frame : forall s k s', merge_tx s k s' ->
  tx_frame s s' /\ (seqc s' <= seqc s + 1)%N /\
  (pending s' = pending s \/ pending s' = pending (free_node_page s k)).
Proof.
  intros s k s' [-> | [-> | ->]].
  - split; [apply tx_frame_refl|]. split; [lia | now left].
  - destruct (free_node_page_frame s k) as [H1 H2]. split; [exact H1|]. split; [lia | now right].
  - destruct (free_node_page_frame (bump s) k) as [H1 H2]. split; [|split].
    + eapply tx_frame_trans; [apply tx_frame_bump | exact H1].
    + rewrite H2, seqc_bump. lia.
    + right. apply free_node_page_bump.
Qed.
(* ====================================================================== *)
(** * 8. [try_merge]: exact results when the sibling is read in from its page *)

Theorem try_merge_left_new : forall d par k s es ok idx kq q a md,
  needs_merging s k = true ->
  n_data par = Branches es ->
  (0 < dlen (n_data k))%N ->
  n_orig k = Some ok ->
  bsearch (map fst es) ok = (true, idx) ->
  (0 < idx)%N ->
  nthN es (idx - 1) = Some (kq, q) ->
  find_kid q (n_kids par) = None -> dget d q = Some a ->
  merge_data (n_data (node_of_page q a (seqc s))) (n_data k) = Ok md ->
  try_merge d par k s =
    Ok (set_kids (set_data par (Branches (remove_at es (N.to_nat idx))))
          (filter (not_seq (n_seq k)) (n_kids par) ++
           [set_kids (set_data (node_of_page q a (seqc s)) md) (n_kids (node_of_page q a (seqc s)) ++ n_kids k)]),
        free_node_page (bump s) k).
Proof.
  intros d par k s es ok idx kq q a md Hn Hd Hk Ho Hb Hi Hsp Hf Hg Hm. unfold try_merge. rewrite Hn. cbn [negb]. rewrite Hd.
  destruct (bsearch_true _ _ _ Hb) as [Hlt _]. unfold llen in Hlt. rewrite map_length in Hlt.
  assert (E1 : (llen es =? 1)%N = false) by (unfold llen; lia). rewrite E1. cbn [andb].
  rewrite Ho, Hb.
  assert (E2 : (0 <? dlen (n_data k))%N = true) by lia. rewrite E2.
  assert (E3 : (idx =? 0)%N = false) by lia. rewrite E3.
  rewrite Hsp, Hf, Hg. cbn [next_seq bind]. rewrite Hm. cbn [bind].
  destruct (remove_at es (N.to_nat idx)) as [|[k0 q0] rest0]; reflexivity.
Qed.

Theorem try_merge_right_new : forall d par k s e0 kq q rest ok a md fk,
  needs_merging s k = true ->
  n_data par = Branches (e0 :: (kq, q) :: rest) ->
  (0 < dlen (n_data k))%N ->
  n_orig k = Some ok ->
  bsearch (map fst (e0 :: (kq, q) :: rest)) ok = (true, 0%N) ->
  find_kid q (n_kids par) = None -> dget d q = Some a ->
  merge_data (n_data (node_of_page q a (seqc s))) (n_data k) = Ok md ->
  first_key md = Ok fk ->
  try_merge d par k s =
    Ok (set_kids (set_data par (Branches ((fk, q) :: rest)))
          (filter (not_seq (n_seq k)) (n_kids par) ++
           [set_orig (set_kids (set_data (node_of_page q a (seqc s)) md)
                               (n_kids (node_of_page q a (seqc s)) ++ n_kids k)) (Some fk)]),
        free_node_page (bump s) k).
Proof.
  intros d par k s e0 kq q rest ok a md fk Hn Hd Hk Ho Hb Hf Hg Hm Hfk. unfold try_merge. rewrite Hn. cbn [negb]. rewrite Hd.
  assert (E1 : (llen (e0 :: (kq, q) :: rest) =? 1)%N = false) by (unfold llen; cbn [length]; lia).
  rewrite E1. cbn [andb]. rewrite Ho, Hb.
  assert (E2 : (0 <? dlen (n_data k))%N = true) by lia. rewrite E2.
  change (0 =? 0)%N with true. change (nthN (e0 :: (kq, q) :: rest) 1) with (Some (kq, q)). cbv beta iota.
  rewrite Hf, Hg. cbn [next_seq bind]. rewrite Hm. cbn [bind]. rewrite Hfk. cbn [remove_at].
  unfold node_of_page. cbn [set_data set_kids set_orig n_data n_kids]. rewrite Hfk. reflexivity.
Qed.
(* ====================================================================== *)
(** * 9. The kid list after a merge *)

(* [ks1]: the kid list of the parent after k (page pk) was merged into the sibling for page q, now [sib'];
   [extra] is the fresh sequence number if the sibling was read in *)
Definition kids_after (ks : list node) (k : node) (q : N) (sib' : node) (extra : list N) (ks1 : list node) : Prop :=
  find_kid q ks1 = Some sib' /\
  (forall q', q' <> q -> q' <> n_page k -> find_kid q' ks1 = find_kid q' ks) /\
  NoDup (map n_page ks1) /\
  (forall x, In x ks1 -> x = sib' \/ (In x ks /\ x <> k)) /\
  Permutation (n_seq k :: flat_map seqs ks1) (extra ++ flat_map seqs ks).

Lemma replace_kid_perm : forall {A} (f : node -> list A) ks0 q sb sb', find_kid q ks0 = Some sb -> n_page sb' = q ->
  Permutation (f sb ++ flat_map f (replace_kid ks0 sb')) (f sb' ++ flat_map f ks0).
Proof.
  intros A f ks0 q sb sb' Hf Hp. destruct (find_kid_split _ _ _ Hf) as (a & b & -> & Hq & Ha).
  rewrite replace_kid_hit; [|congruence|intros y Hy; rewrite Hp; now apply Ha].
  rewrite !flat_map_app. cbn [flat_map]. rewrite !app_assoc.
  apply Permutation_app_tail. rewrite <- !app_assoc.
  etransitivity; [apply Permutation_app_comm|]. rewrite <- app_assoc. apply Permutation_app_swap_app.
Qed.

Lemma replace_kid_pages : forall ks0 q sb sb', find_kid q ks0 = Some sb -> n_page sb' = q ->
  map n_page (replace_kid ks0 sb') = map n_page ks0.
Proof.
  intros ks0 q sb sb' Hf Hp. destruct (find_kid_split _ _ _ Hf) as (a & b & -> & Hq & Ha).
  rewrite replace_kid_hit; [|congruence|intros y Hy; rewrite Hp; now apply Ha].
  rewrite !map_app. cbn [map]. congruence.
Qed.

Lemma replace_kid_In : forall ks0 sb' x, In x (replace_kid ks0 sb') -> x = sb' \/ In x ks0.
Proof.
  induction ks0 as [|y ks0 IH]; intros sb' x H; cbn [replace_kid] in H.
  - destruct H as [<- | []]. now left.
  - destruct (N.eqb (n_page y) (n_page sb')).
    + destruct H as [<- | H]; [now left | right; now right].
    + destruct H as [<- | H]; [right; now left|]. destruct (IH _ _ H); [now left | right; now right].
Qed.

Lemma kids_after_found : forall ks k q sib sib',
  NoDup (map n_seq ks) -> NoDup (map n_page ks) -> In k ks ->
  find_kid q ks = Some sib -> q <> n_page k ->
  n_page sib' = q -> n_seq sib' = n_seq sib -> n_kids sib' = n_kids sib ++ n_kids k ->
  kids_after ks k q sib' [] (replace_kid (filter (not_seq (n_seq k)) ks) sib').
Proof.
  intros ks k q sib sib' Hs Hp Hin Hf Hqk Hps Hss Hks.
  destruct (filter_seq_spec ks k Hs Hp Hin) as (F1 & F2 & F3 & F4). cbv zeta in *.
  set (ks0 := filter (not_seq (n_seq k)) ks) in *.
  assert (Hf0 : find_kid q ks0 = Some sib) by (rewrite F1; assumption).
  split; [|split; [|split; [|split]]].
  - rewrite <- Hps. apply find_kid_replace_same.
  - intros q' H1 H2. rewrite find_kid_replace_other by congruence. now apply F1.
  - now rewrite (replace_kid_pages _ _ _ _ Hf0 Hps).
  - intros x Hx. apply replace_kid_In in Hx. destruct Hx as [-> | Hx]; [now left | right; now apply F2].
  - cbn [app]. rewrite F4.
    pose proof (replace_kid_perm seqs ks0 q sib sib' Hf0 Hps) as HP.
    rewrite (seqs_eq sib), (seqs_eq sib'), Hss, Hks, flat_map_app in HP. cbn [app] in HP.
    apply Permutation_cons_inv in HP. rewrite <- app_assoc in HP. apply Permutation_app_inv_l in HP.
    rewrite (seqs_eq k). cbn [app]. apply perm_skip. exact HP.
Qed.

Lemma kids_after_new : forall ks k q sib' sq',
  NoDup (map n_seq ks) -> NoDup (map n_page ks) -> In k ks ->
  find_kid q ks = None -> q <> n_page k ->
  n_page sib' = q -> n_seq sib' = sq' -> n_kids sib' = [] ++ n_kids k ->
  kids_after ks k q sib' [sq'] (filter (not_seq (n_seq k)) ks ++ [sib']).
Proof.
  intros ks k q sib' sq' Hs Hp Hin Hf Hqk Hps Hss Hks.
  destruct (filter_seq_spec ks k Hs Hp Hin) as (F1 & F2 & F3 & F4). cbv zeta in *.
  set (ks0 := filter (not_seq (n_seq k)) ks) in *.
  assert (Hf0 : find_kid q ks0 = None) by (rewrite F1; assumption).
  split; [|split; [|split; [|split]]].
  - unfold find_kid in *. rewrite find_app, Hf0. cbn [find]. now rewrite Hps, N.eqb_refl.
  - intros q' H1 H2. rewrite <- (F1 q' H2). unfold find_kid. rewrite find_app.
    destruct (find (fun k0 => N.eqb (n_page k0) q') ks0); [reflexivity|]. cbn [find].
    assert (E : N.eqb (n_page sib') q' = false) by lia. now rewrite E.
  - rewrite map_app. cbn [map]. apply NoDup_app_intro; [exact F3 | repeat constructor; intros [] |].
    intros x Hx [<- | []]. apply in_map_iff in Hx. destruct Hx as (y & Hy & Hy').
    apply (find_kid_None _ _ Hf0 y Hy'). congruence.
  - intros x Hx. apply in_app_or in Hx. destruct Hx as [Hx | [<- | []]]; [right; now apply F2 | now left].
  - rewrite flat_map_app. cbn [flat_map]. rewrite app_nil_r. rewrite (seqs_eq sib'), Hss, Hks. cbn [app].
    rewrite F4, (seqs_eq k). cbn [app].
    etransitivity; [apply perm_skip; apply Permutation_app_comm|]. cbn [app].
    apply perm_swap.
Qed.
(* ====================================================================== *)
(** * 10. The parent's side of a merge *)

(* like [CInv], but the kid standing for page pk may be an empty branch node *)
Definition CInv1 (h : nat) (d : disk) (ks : list node) (pk : N) (e : bytes * N) (b : option bytes * option bytes) : Prop :=
  match find_kid (snd e) ks with
  | Some kd => Inv h d (N.eqb (snd e) pk) (fst b) (snd b) kd
  | None => PInv h d (fst b) (snd b) (Some (fst e)) (snd e) end.

(* the invariant of a branch node with entries es and kids ks, bounds [lo, hi), height <= S h, except that the
   kid for page pk may be empty *)
Definition Pre1 (h : nat) (d : disk) (lo hi : option bytes) (es : list (bytes * N)) (ks : list node) (pk : N) : Prop :=
  sorted_keys (map fst es) = true /\ NoDup (map snd es) /\ Forall (inb lo hi) (map fst es) /\
  kids_linked es ks /\ Forall2 (CInv1 h d ks pk) es (cbounds lo (map fst es) hi).

Lemma CInv1_other : forall h d ks pk e b, snd e <> pk -> CInv1 h d ks pk e b -> CInv h d ks e b.
Proof. intros h d ks pk e b Hne H. unfold CInv1, CInv in *. assert (E : N.eqb (snd e) pk = false) by lia. now rewrite E in H. Qed.

Lemma CInv_CInv1 : forall h d ks pk e b, CInv h d ks e b -> CInv1 h d ks pk e b.
Proof.
  intros h d ks pk e b H. unfold CInv1, CInv in *. destruct (find_kid (snd e) ks); [|exact H].
  destruct (N.eqb (snd e) pk); [eapply Inv_z_true; eauto | exact H].
Qed.

Lemma Inv_Pre1 : forall h d z lo hi p np o s es ks pk,
  Inv (S h) d z lo hi (Node p np o s (Branches es) ks) -> Pre1 h d lo hi es ks pk.
Proof.
  intros h d z lo hi p np o s es ks pk H. rewrite Inv_branch_eq in H. destruct H as (_ & H1 & H2 & H3 & H4 & H5).
  unfold Pre1. repeat (split; [assumption|]). eapply Forall2_impl; [|exact H5]. intros e b. apply CInv_CInv1.
Qed.

Lemma Forall2_CInv1_other : forall h d ks pk E B, ~ In pk (map snd E) ->
  Forall2 (CInv1 h d ks pk) E B -> Forall2 (CInv h d ks) E B.
Proof.
  intros h d ks pk E B Hn H. eapply Forall2_impl_in; [|exact H]. intros e b He. apply CInv1_other.
  intros Eq. apply Hn. rewrite <- Eq. now apply in_map.
Qed.

Lemma kids_join_nodes : forall h d za zb la ha lb hb A B,
  Inv h d za la ha A -> Inv h d zb lb hb B -> is_leaf (n_data A) = is_leaf (n_data B) ->
  (forall q, In q (dpages (n_data A)) -> In q (dpages (n_data B)) -> False) ->
  kids_join (n_data A) (n_data B) (n_kids A) (n_kids B) (n_kids A ++ n_kids B) /\
  kids_join (n_data A) (n_data B) (n_kids A) (n_kids B) (n_kids B ++ n_kids A).
Proof.
  intros h d za zb la ha lb hb A B HA HB Hk Hd. destruct (Inv_height _ _ _ _ _ _ HA) as [h0 ->].
  destruct A as [pa npa oa sa [lA|eA] kA], B as [pb npb ob sb [lB|eB] kB]; cbn [n_data n_kids is_leaf dpages] in *;
    try discriminate; [split; exact I|].
  rewrite Inv_branch_eq in HA, HB. apply kids_join_app; tauto.
Qed.

(* entries around the merged pair: separators strictly between *)
Lemma sorted_mid_lt : forall (a : list bytes) x y b, sorted_keys (a ++ x :: y :: b) = true -> bcmp x y = Lt.
Proof.
  intros a x y b H. apply sorted_keys_app in H. destruct H as [_ H].
  destruct (sorted_keys_cons _ _ H) as [Hall _]. now inversion Hall.
Qed.

Lemma nxt_above : forall (a : list bytes) x b lo hi, sorted_keys (a ++ x :: b) = true ->
  Forall (inb lo hi) (a ++ x :: b) -> lt_hi x (nxt b hi).
Proof.
  intros a x b lo hi Hs Hf. destruct b as [|y b]; cbn [nxt].
  - rewrite Forall_forall in Hf. apply (Hf x). apply in_or_app. right. now left.
  - cbn. eapply sorted_mid_lt; eauto.
Qed.
Section Reassemble.
  (* the parent: entries E1 ++ (ka,qa) :: (kb,qb) :: E2; one of the two adjacent children is k (page pk), the
     other the sibling (page q); afterwards a single entry (km, q) stands for the joined node M *)
  Variables (h : nat) (d : disk) (lo hi : option bytes) (p np : N) (og : option bytes) (sq : N).
  Variables (E1 E2 : list (bytes * N)) (ka kb km : bytes) (qa qb q : N) (ks ks1 : list node) (k M : node) (extra : list N).
  Let es := E1 ++ (ka, qa) :: (kb, qb) :: E2.
  Let es' := E1 ++ (km, q) :: E2.
  Let g := fst_fun (lo0 lo) (map fst E1).
  Let hk := nxt (map fst E2) hi.
  Hypothesis Hsorted : sorted_keys (map fst es) = true.
  Hypothesis Hnd : NoDup (map snd es).
  Hypothesis Hinb : Forall (inb lo hi) (map fst es).
  Hypothesis Hlinked : kids_linked es ks.
  Hypothesis Hkin : In k ks.
  Hypothesis Hq : (q = qa /\ n_page k = qb) \/ (q = qb /\ n_page k = qa).
  Hypothesis Hkm1 : bcmp ka km <> Gt \/ (E1 = [] /\ le_lo lo km).
  Hypothesis Hkm2 : bcmp km kb = Lt.
  Hypothesis HC1 : Forall2 (CInv h d ks) E1 (cbs (lo0 lo) (map fst E1) (Some ka)).
  Hypothesis HC2 : Forall2 (CInv h d ks) E2 (cbs Some (map fst E2) hi).
  Hypothesis HM : Inv h d false (g km) hk M.
  Hypothesis HMp : n_page M = q.
  Hypothesis HMo : n_orig M = Some km.
  Hypothesis Hafter : kids_after ks k q M extra ks1.

  Lemma ra_es_map : map fst es = map fst E1 ++ ka :: kb :: map fst E2.
  Proof. unfold es. rewrite map_app. reflexivity. Qed.
  Lemma ra_es'_map : map fst es' = map fst E1 ++ km :: map fst E2.
  Proof. unfold es'. rewrite map_app. reflexivity. Qed.

  Lemma ra_below : forall x, In x (map fst E1) -> bcmp x km = Lt.
  Proof.
    intros x Hx. destruct Hkm1 as [Hk1 | [HE _]]; [|rewrite HE in Hx; destruct Hx].
    eapply bcmp_lt_le_trans; [|exact Hk1].
    rewrite ra_es_map in Hsorted. eapply sorted_app_cross; [exact Hsorted | exact Hx | now left].
  Qed.
  Lemma ra_above : forall x, In x (map fst E2) -> bcmp km x = Lt.
  Proof.
    intros x Hx. eapply bcmp_lt_trans; [exact Hkm2|].
    rewrite ra_es_map in Hsorted. apply sorted_keys_app in Hsorted. destruct Hsorted as [_ H].
    apply sorted_keys_tl in H. destruct (sorted_keys_cons _ _ H) as [Hall _]. rewrite Forall_forall in Hall. now apply Hall.
  Qed.

  Lemma ra_sorted : sorted_keys (map fst es') = true.
  Proof.
    rewrite ra_es'_map. pose proof Hsorted as Hs. rewrite ra_es_map in Hs.
    destruct (sorted_keys_app _ _ Hs) as [Ha Hb].
    apply sorted_keys_app_intro; [exact Ha | |].
    - apply sorted_keys_cons_intro; [apply Forall_forall; exact ra_above|].
      apply sorted_keys_tl in Hb. now apply sorted_keys_tl in Hb.
    - intros x y Hx [<- | Hy]; [now apply ra_below|].
      eapply sorted_app_cross; [exact Hs | exact Hx | right; now right].
  Qed.

  Lemma ra_pages : q <> n_page k /\ ~ In q (map snd E1) /\ ~ In q (map snd E2) /\
                   ~ In (n_page k) (map snd E1) /\ ~ In (n_page k) (map snd E2) /\ NoDup (map snd E1 ++ map snd E2).
  Proof.
    unfold es in Hnd. rewrite map_app in Hnd. cbn [map snd] in Hnd.
    pose proof (NoDup_remove_2 _ _ _ Hnd) as H1. pose proof (NoDup_remove_1 _ _ _ Hnd) as H2.
    pose proof (NoDup_remove_2 _ _ _ H2) as H3. pose proof (NoDup_remove_1 _ _ _ H2) as H4.
    assert (Hab : qa <> qb). { intros E. apply H1. apply in_or_app. right. left. now symmetry. }
    assert (A1 : ~ In qa (map snd E1)). { intros Hi. apply H1. apply in_or_app. now left. }
    assert (A2 : ~ In qa (map snd E2)). { intros Hi. apply H1. apply in_or_app. right. now right. }
    assert (B1 : ~ In qb (map snd E1)). { intros Hi. apply H3. apply in_or_app. now left. }
    assert (B2 : ~ In qb (map snd E2)). { intros Hi. apply H3. apply in_or_app. now right. }
    destruct Hq as [[-> ->] | [-> ->]]; repeat (split; [solve [auto]|]); exact H4.
  Qed.

  Lemma ra_nd : NoDup (map snd es').
  Proof.
    destruct ra_pages as (_ & P1 & P2 & _ & _ & P5). unfold es'. rewrite map_app. cbn [map snd].
    apply NoDup_app_intro.
    - eapply NoDup_app_l; eauto.
    - constructor; [exact P2 | eapply NoDup_app_r; eauto].
    - intros x Hx [<- | Hy]; [now apply P1 | eapply NoDup_app_disj; eauto].
  Qed.

  Lemma ra_km_inb : inb lo hi km.
  Proof.
    pose proof Hinb as Hi. rewrite ra_es_map in Hi. apply Forall_app in Hi. destruct Hi as [_ H].
    apply Forall_cons_iff in H. destruct H as [[Ha _] H']. apply Forall_cons_iff in H'. destruct H' as [[_ Hb] _]. split.
    - destruct Hkm1 as [Hk1 | [_ Hk1]]; [|exact Hk1].
      destruct lo as [b|]; cbn in *; [|exact I]. eapply bcmp_le_trans; eauto.
    - destruct hi as [b|]; cbn in *; [|exact I]. eapply bcmp_lt_trans; eauto.
  Qed.

  Lemma ra_inb : Forall (inb lo hi) (map fst es').
  Proof.
    rewrite ra_es'_map. pose proof Hinb as Hi. rewrite ra_es_map in Hi. apply Forall_app in Hi. destruct Hi as [H1 H2].
    apply Forall_app. split; [exact H1|]. constructor; [exact ra_km_inb|].
    apply Forall_cons_iff in H2. destruct H2 as [_ H2]. apply Forall_cons_iff in H2. apply H2.
  Qed.

  Lemma ra_pk : find_kid (n_page k) ks = Some k.
  Proof. apply find_kid_NoDup; [apply Hlinked | exact Hkin]. Qed.

  Lemma ra_linked : kids_linked es' ks1.
  Proof.
    destruct Hafter as (A1 & A2 & A3 & A4 & _). destruct ra_pages as (P0 & _). split; [exact A3|].
    apply Forall_forall. intros x Hx.
    destruct (N.eq_dec (n_page x) q) as [Exq | Nxq].
    { assert (x = M).
      { destruct (find_kid_In _ _ _ A1) as [HMin _].
        eapply (NoDup_map_inj n_page); [exact A3 | exact Hx | exact HMin | congruence]. }
      subst x. exists km. split; [|exact HMo]. unfold es'. apply in_or_app. right. left. now rewrite HMp. }
    destruct (A4 x Hx) as [-> | [Hin Hne]]; [congruence|].
    destruct Hlinked as [Lnd LF]. rewrite Forall_forall in LF. destruct (LF x Hin) as (key & Hk & Ho).
    exists key. split; [|exact Ho].
    assert (Npk : n_page x <> n_page k).
    { intros E. apply Hne. eapply (NoDup_map_inj n_page); eauto. }
    unfold es in Hk. unfold es'. apply in_app_or in Hk. apply in_or_app.
    destruct Hk as [Hk | [Hk | [Hk | Hk]]]; [now left | | | right; now right]; inversion Hk; subst;
      destruct Hq as [[? ?] | [? ?]]; congruence.
  Qed.

  Lemma ra_find_other : forall e, In e E1 \/ In e E2 -> find_kid (snd e) ks1 = find_kid (snd e) ks.
  Proof.
    intros e He. destruct Hafter as (_ & A2 & _). destruct ra_pages as (_ & P1 & P2 & P3 & P4 & _).
    apply A2; intros E; destruct He as [He | He]; apply (in_map snd) in He; rewrite E in He; contradiction.
  Qed.

  Lemma ra_children : Forall2 (CInv h d ks1) es' (cbounds lo (map fst es') hi).
  Proof.
    rewrite ra_es'_map. unfold cbounds. rewrite cbs_app. unfold es'. apply Forall2_app.
    - destruct Hkm1 as [Hk1 | [HE _]]; [|rewrite HE; constructor].
      eapply CInv_transfer; [exact HC1 | |].
      + apply cbs_rel; [intros; apply lo_le_refl | exact Hk1].
      + intros e He. apply ra_find_other. now left.
    - cbn [cbs]. constructor.
      + unfold CInv. cbn [snd fst]. destruct Hafter as (A1 & _). rewrite A1. exact HM.
      + eapply CInv_transfer; [exact HC2 | apply Forall2_refl_in; intros; apply brel_refl |].
        intros e He. apply ra_find_other. now right.
  Qed.

  Lemma ra_Inv : Inv (S h) d true lo hi (Node p np og sq (Branches es') ks1).
  Proof.
    rewrite Inv_branch_eq. split; [discriminate|]. split; [exact ra_sorted|]. split; [exact ra_nd|].
    split; [exact ra_inb|]. split; [exact ra_linked | exact ra_children].
  Qed.

  Lemma ra_view : forall L1 la lb L2,
    Forall2 (fun e l => ChildView d h ks (snd e) l) E1 L1 ->
    Forall2 (fun e l => ChildView d h ks (snd e) l) E2 L2 ->
    NodeView d h M (la ++ lb) ->
    NodeView d (S h) (Node p np og sq (Branches es') ks1) (concat (L1 ++ la :: lb :: L2)).
  Proof.
    intros L1 la lb L2 F1 F2 VM.
    replace (concat (L1 ++ la :: lb :: L2)) with (concat (L1 ++ (la ++ lb) :: L2))
      by (rewrite !concat_app; cbn [concat]; now rewrite <- app_assoc).
    apply NodeView_branch_intro. unfold es'. apply Forall2_app; [|constructor].
    - eapply Forall2_impl_in; [|exact F1]. intros e l He HV. unfold ChildView in *.
      rewrite ra_find_other; [exact HV | now left].
    - unfold ChildView. cbn [snd]. destruct Hafter as (A1 & _). now rewrite A1.
    - eapply Forall2_impl_in; [|exact F2]. intros e l He HV. unfold ChildView in *.
      rewrite ra_find_other; [exact HV | now right].
  Qed.

  Lemma ra_npages : Permutation (npages h d M) (cpages h d ks qa ++ cpages h d ks qb) ->
    Permutation (n_page k :: npages (S h) d (Node p np og sq (Branches es') ks1))
                (npages (S h) d (Node p np og sq (Branches es) ks)).
  Proof.
    intros HP. rewrite !npages_branch_eq. unfold es, es'. rewrite !map_app, !flat_map_app. cbn [map snd flat_map].
    assert (F1 : flat_map (fun e => cpages h d ks1 (snd e)) E1 = flat_map (fun e => cpages h d ks (snd e)) E1).
    { apply flat_map_ext_in. intros e He. unfold cpages. rewrite ra_find_other; [reflexivity | now left]. }
    assert (F2 : flat_map (fun e => cpages h d ks1 (snd e)) E2 = flat_map (fun e => cpages h d ks (snd e)) E2).
    { apply flat_map_ext_in. intros e He. unfold cpages. rewrite ra_find_other; [reflexivity | now right]. }
    rewrite F1, F2. unfold cpages at 2. destruct Hafter as (A1 & _). rewrite A1.
    rewrite app_comm_cons. apply Permutation_app.
    - destruct Hq as [[-> ->] | [-> ->]].
      + etransitivity; [apply Permutation_middle|]. apply Permutation_app_head. apply perm_swap.
      + apply Permutation_middle.
    - apply Permutation_app_head. rewrite app_assoc. apply Permutation_app_tail. exact HP.
  Qed.

  Lemma ra_seqs : Permutation (n_seq k :: seqs (Node p np og sq (Branches es') ks1))
                              (extra ++ seqs (Node p np og sq (Branches es) ks)).
  Proof.
    destruct Hafter as (_ & _ & _ & _ & A5). cbn [seqs].
    etransitivity; [apply perm_swap|]. etransitivity; [apply perm_skip; exact A5|].
    apply Permutation_middle.
  Qed.
End Reassemble.
Lemma first_key_dkeys : forall dd fk, first_key dd = Ok fk -> exists rest, dkeys dd = fk :: rest.
Proof.
  intros [[|e l]|[|e es]] fk H; cbn in H; try discriminate; inversion H; subst; cbn [dkeys map]; eauto.
Qed.

Lemma first_key_djoin : forall a b, (0 < dlen a)%N -> is_leaf a = is_leaf b -> first_key (djoin a b) = first_key a.
Proof.
  intros [[|e l]|[|e es]] [l2|e2] Hl Hk; cbn in *; try discriminate; try lia; reflexivity.
Qed.

Lemma dlen_pos_nonempty : forall dd, (0 < dlen dd)%N -> dd <> Branches [].
Proof. intros dd H E. subst dd. cbn in H. lia. Qed.

Lemma perm_nodup_incl : forall {A} (x : A) l l', NoDup l -> Permutation (x :: l') l -> NoDup l' /\ incl l' l.
Proof.
  intros A x l l' Hnd HP. split.
  - apply Permutation_sym in HP. pose proof (Permutation_NoDup HP Hnd) as H. now inversion H.
  - intros y Hy. eapply Permutation_in; [exact HP | now right].
Qed.

Lemma seqs_after : forall {A} (x : A) l l' extra, NoDup l -> NoDup extra -> (forall y, In y extra -> ~ In y l) ->
  Permutation (x :: l') (extra ++ l) -> NoDup l' /\ (forall y, In y l' -> In y l \/ In y extra).
Proof.
  intros A x l l' extra Hl He Hd HP.
  assert (Hnd : NoDup (extra ++ l)).
  { apply NoDup_app_intro; [exact He | exact Hl |]. intros y H1 H2. exact (Hd y H1 H2). }
  destruct (perm_nodup_incl x _ l' Hnd HP) as [H1 H2]. split; [exact H1|].
  intros y Hy. apply H2 in Hy. apply in_app_or in Hy. tauto.
Qed.

(* The parent after k was joined with its neighbour. A, B: the two adjacent children in key order (pages qa,
   qb); M: the joined node, filed under page q (the sibling's) and key km. *)
Lemma merge_assemble : forall h d lo hi p np og sq E1 ka qa kb qb E2 ks k l q km A B za zb pM npM sM kk ks1 extra,
  sorted_keys (map fst (E1 ++ (ka, qa) :: (kb, qb) :: E2)) = true ->
  NoDup (map snd (E1 ++ (ka, qa) :: (kb, qb) :: E2)) ->
  Forall (inb lo hi) (map fst (E1 ++ (ka, qa) :: (kb, qb) :: E2)) ->
  kids_linked (E1 ++ (ka, qa) :: (kb, qb) :: E2) ks -> In k ks ->
  ((q = qa /\ n_page k = qb) \/ (q = qb /\ n_page k = qa)) ->
  Forall2 (CInv h d ks) E1 (cbs (lo0 lo) (map fst E1) (Some ka)) ->
  Forall2 (CInv h d ks) E2 (cbs Some (map fst E2) hi) ->
  Inv h d za (fst_fun (lo0 lo) (map fst E1) ka) (Some kb) A ->
  Inv h d zb (Some kb) (nxt (map fst E2) hi) B ->
  n_data A <> Branches [] -> n_data B <> Branches [] -> is_leaf (n_data A) = is_leaf (n_data B) ->
  (kk = n_kids A ++ n_kids B \/ kk = n_kids B ++ n_kids A) ->
  pM = q ->
  (km = ka \/ (E1 = [] /\ (0 < dlen (n_data A))%N /\ first_key (djoin (n_data A) (n_data B)) = Ok km)) ->
  NodeView d (S h) (Node p np og sq (Branches (E1 ++ (ka, qa) :: (kb, qb) :: E2)) ks) l ->
  (forall la, ChildView d h ks qa la -> NodeView d h A la) ->
  (forall lb, ChildView d h ks qb lb -> NodeView d h B lb) ->
  npages h d A = cpages h d ks qa -> npages h d B = cpages h d ks qb ->
  NoDup (npages (S h) d (Node p np og sq (Branches (E1 ++ (ka, qa) :: (kb, qb) :: E2)) ks)) ->
  kids_after ks k q (Node pM npM (Some km) sM (djoin (n_data A) (n_data B)) kk) extra ks1 ->
  Inv (S h) d true lo hi (Node p np og sq (Branches (E1 ++ (km, q) :: E2)) ks1) /\
  NodeView d (S h) (Node p np og sq (Branches (E1 ++ (km, q) :: E2)) ks1) l /\
  Permutation (n_page k :: npages (S h) d (Node p np og sq (Branches (E1 ++ (km, q) :: E2)) ks1))
              (npages (S h) d (Node p np og sq (Branches (E1 ++ (ka, qa) :: (kb, qb) :: E2)) ks)) /\
  Permutation (n_seq k :: seqs (Node p np og sq (Branches (E1 ++ (km, q) :: E2)) ks1))
              (extra ++ seqs (Node p np og sq (Branches (E1 ++ (ka, qa) :: (kb, qb) :: E2)) ks)).
Proof.
  intros h d lo hi p np og sq E1 ka qa kb qb E2 ks k l q km A B za zb pM npM sM kk ks1 extra
    Hs Hnd Hinb Hlk Hkin Hq HC1 HC2 HA HB NA NB Hkind Hkk HpM Hkm Hv VA VB PA PB Hnp Haft.
  set (M := Node pM npM (Some km) sM (djoin (n_data A) (n_data B)) kk) in *.
  pose proof Hs as Hs'. rewrite map_app in Hs'. cbn [map fst] in Hs'.
  pose proof Hinb as Hinb'. rewrite map_app in Hinb'. cbn [map fst] in Hinb'.
  assert (Hab : bcmp ka kb = Lt) by (eapply sorted_mid_lt; eauto).
  (* the page lists of the two children are disjoint *)
  destruct (Inv_height _ _ _ _ _ _ HA) as [h0 Eh].
  assert (Hdisj : forall x, In x (dpages (n_data A)) -> In x (dpages (n_data B)) -> False).
  { intros x H1 H2. rewrite npages_branch_eq in Hnp. apply NoDup_app_r in Hnp.
    rewrite flat_map_app in Hnp. apply NoDup_app_r in Hnp. cbn [flat_map snd] in Hnp.
    rewrite <- PA, <- PB in Hnp. rewrite app_assoc in Hnp. apply NoDup_app_l in Hnp.
    subst h. eapply NoDup_app_disj; [exact Hnp | |]; eapply npages_dpages; eauto. }
  destruct (kids_join_nodes _ _ _ _ _ _ _ _ _ _ HA HB Hkind Hdisj) as [KJ1 KJ2].
  assert (KJ : kids_join (n_data A) (n_data B) (n_kids A) (n_kids B) kk) by (destruct Hkk as [-> | ->]; assumption).
  (* bounds around the pair *)
  assert (Hlo : lo_le (fst_fun (lo0 lo) (map fst E1) ka) (Some kb)).
  { eapply lo_le_trans; [apply fst_fun_le_some|]. cbn. now apply bcmp_lt_le. }
  assert (Hhi : hi_le (Some kb) (nxt (map fst E2) hi)).
  { apply lt_hi_hi_le. apply (nxt_above (map fst E1 ++ [ka]) kb (map fst E2) lo hi); rewrite <- app_assoc; assumption. }
  pose proof (join_Inv h d _ kb _ A B za zb pM npM (Some km) sM kk HA HB NA NB Hlo Hhi Hkind KJ Hdisj) as HM0.
  fold M in HM0.
  (* key of the joined node *)
  assert (HM : Inv h d false (fst_fun (lo0 lo) (map fst E1) km) (nxt (map fst E2) hi) M /\
               (bcmp ka km <> Gt \/ (E1 = [] /\ le_lo lo km)) /\ bcmp km kb = Lt).
  { destruct Hkm as [-> | (HE & HlA & Hfk)].
    - split; [exact HM0|]. split; [left; apply bcmp_le_refl | exact Hab].
    - subst E1. cbn [map fst_fun app] in *.
      assert (Hin : inb (lo0 lo ka) (Some kb) km).
      { destruct (Inv_dkeys _ _ _ _ _ _ HA) as [_ FA]. rewrite first_key_djoin in Hfk by assumption.
        destruct (first_key_dkeys _ _ Hfk) as [rest Er]. rewrite Er in FA. now inversion FA. }
      destruct Hin as [Hin1 Hin2]. split; [|split; [right; split; [reflexivity|] | exact Hin2]].
      + destruct lo as [b|]; cbn [lo0] in *; [|exact HM0]. eapply Inv_lo_first; [exact HM0 | exact Hfk].
      + destruct lo as [b|]; cbn [lo0 le_lo] in *; [|exact I].
        inversion Hinb' as [|? ? [Hb _] _]; subst. cbn in Hb. eapply bcmp_le_trans; eauto. }
  destruct HM as (HM & Hkm1 & Hkm2).
  assert (HMp : n_page M = q) by exact HpM.
  assert (HMo : n_orig M = Some km) by reflexivity.
  (* the view *)
  apply NodeView_branch_inv in Hv. destruct Hv as (h1 & ls & Eh1 & -> & HF). inversion Eh1; subst h1.
  apply Forall2_app_inv_l' in HF. destruct HF as (L1 & Lr & -> & F1 & Fr).
  apply Forall2_cons_inv_l in Fr. destruct Fr as (la & Lr' & -> & Va & Fr).
  apply Forall2_cons_inv_l in Fr. destruct Fr as (lb & L2 & -> & Vb & F2). cbn [snd] in Va, Vb.
  split; [|split; [|split]].
  - eapply ra_Inv; eauto.
  - eapply ra_view; eauto. unfold M. apply join_view; auto.
  - eapply ra_npages; eauto. unfold M. rewrite <- PA, <- PB. now apply join_npages.
  - eapply ra_seqs; eauto.
Qed.
(* ====================================================================== *)
(** * 11. [try_merge] unfolded; the sibling *)

(* the sibling for page q: the kid if there is one, else read in from its page with a fresh sequence number *)
Definition sib_of (d : disk) (ks : list node) (q : N) (s : txs) : res (node * txs * bool) :=
  match find_kid q ks with
  | Some sb => Ok (sb, s, false)
  | None => match dget d q with None => Panic "page missing"%string | Some a => Ok (node_of_page q a (seqc s), bump s, true) end
  end.

Definition kids_merged (ks : list node) (k sib' : node) (isnew : bool) : list node :=
  let ks0 := filter (not_seq (n_seq k)) ks in if isnew then ks0 ++ [sib'] else replace_kid ks0 sib'.

Lemma try_merge_left_unfold : forall d par k s es ok idx kq q,
  needs_merging s k = true -> n_data par = Branches es -> (0 < dlen (n_data k))%N ->
  n_orig k = Some ok -> bsearch (map fst es) ok = (true, idx) -> (0 < idx)%N ->
  nthN es (idx - 1) = Some (kq, q) ->
  try_merge d par k s =
    bind (sib_of d (n_kids par) q s) (fun '(sib, s1, isnew) =>
    bind (merge_data (n_data sib) (n_data k)) (fun md =>
      Ok (set_kids (set_data par (Branches (remove_at es (N.to_nat idx))))
            (kids_merged (n_kids par) k (set_kids (set_data sib md) (n_kids sib ++ n_kids k)) isnew),
          free_node_page s1 k))).
Proof.
  intros d par k s es ok idx kq q Hn Hd Hk Ho Hb Hi Hsp. unfold try_merge. rewrite Hn. cbn [negb]. rewrite Hd.
  destruct (bsearch_true _ _ _ Hb) as [Hlt _]. unfold llen in Hlt. rewrite map_length in Hlt.
  assert (E1 : (llen es =? 1)%N = false) by (unfold llen; lia). rewrite E1. cbn [andb].
  rewrite Ho, Hb.
  assert (E2 : (0 <? dlen (n_data k))%N = true) by lia. rewrite E2.
  assert (E3 : (idx =? 0)%N = false) by lia. rewrite E3.
  rewrite Hsp. unfold sib_of, kids_merged. destruct (find_kid q (n_kids par)) as [sb|].
  - cbn [bind]. destruct (merge_data (n_data sb) (n_data k)) as [md| |]; cbn [bind]; try reflexivity.
    destruct (remove_at es (N.to_nat idx)) as [|[k0 q0] rest0]; reflexivity.
  - destruct (dget d q) as [a|]; [|reflexivity]. cbn [next_seq bind].
    destruct (merge_data (n_data (node_of_page q a (seqc s))) (n_data k)) as [md| |]; cbn [bind]; try reflexivity.
    destruct (remove_at es (N.to_nat idx)) as [|[k0 q0] rest0]; reflexivity.
Qed.

Lemma try_merge_right_unfold : forall d par k s e0 kq q rest ok,
  needs_merging s k = true -> n_data par = Branches (e0 :: (kq, q) :: rest) -> (0 < dlen (n_data k))%N ->
  n_orig k = Some ok -> bsearch (map fst (e0 :: (kq, q) :: rest)) ok = (true, 0%N) ->
  try_merge d par k s =
    bind (sib_of d (n_kids par) q s) (fun '(sib, s1, isnew) =>
    bind (merge_data (n_data sib) (n_data k)) (fun md =>
      match first_key md with
      | Ok fk => Ok (set_kids (set_data par (Branches ((fk, q) :: rest)))
            (kids_merged (n_kids par) k (set_orig (set_kids (set_data sib md) (n_kids sib ++ n_kids k)) (Some fk)) isnew),
          free_node_page s1 k)
      | _ => Ok (set_kids (set_data par (Branches ((kq, q) :: rest)))
            (kids_merged (n_kids par) k (set_kids (set_data sib md) (n_kids sib ++ n_kids k)) isnew),
          free_node_page s1 k) end)).
Proof.
  intros d par k s e0 kq q rest ok Hn Hd Hk Ho Hb. unfold try_merge. rewrite Hn. cbn [negb]. rewrite Hd.
  assert (E1 : (llen (e0 :: (kq, q) :: rest) =? 1)%N = false) by (unfold llen; cbn [length]; lia).
  rewrite E1. cbn [andb]. rewrite Ho, Hb.
  assert (E2 : (0 <? dlen (n_data k))%N = true) by lia. rewrite E2.
  change (0 =? 0)%N with true. change (nthN (e0 :: (kq, q) :: rest) 1) with (Some (kq, q)). cbv beta iota.
  unfold sib_of, kids_merged. cbn [remove_at N.to_nat]. destruct (find_kid q (n_kids par)) as [sb|].
  - cbn [bind]. destruct (merge_data (n_data sb) (n_data k)) as [md| |]; cbn [bind]; try reflexivity.
    destruct sb as [p1 np1 o1 s1 d1 ks1]. cbn [set_data set_kids set_orig n_data n_kids].
    destruct (first_key md) eqn:Efk; cbn [n_data set_data set_kids set_orig]; rewrite ?Efk; reflexivity.
  - destruct (dget d q) as [a|]; [|reflexivity]. cbn [next_seq bind].
    destruct (merge_data (n_data (node_of_page q a (seqc s))) (n_data k)) as [md| |]; cbn [bind]; try reflexivity.
    unfold node_of_page. cbn [set_data set_kids set_orig n_data n_kids].
    destruct (first_key md) eqn:Efk; cbn [n_data set_data set_kids set_orig]; rewrite ?Efk; reflexivity.
Qed.

Lemma sib_of_spec : forall h d s es ks k kq q b sib s1 isnew,
  kids_linked es ks -> NoDup (map snd es) -> NoDup (map n_seq ks) -> In k ks -> In (kq, q) es -> q <> n_page k ->
  CInv h d ks (kq, q) b ->
  sib_of d ks q s = Ok (sib, s1, isnew) ->
  Inv h d false (fst b) (snd b) sib /\
  (forall la, ChildView d h ks q la -> NodeView d h sib la) /\
  npages h d sib = cpages h d ks q /\
  n_orig sib = Some kq /\ n_page sib = q /\
  (forall sib', n_page sib' = q -> n_seq sib' = n_seq sib -> n_kids sib' = n_kids sib ++ n_kids k ->
     kids_after ks k q sib' (if isnew then [seqc s] else []) (kids_merged ks k sib' isnew)) /\
  s1 = (if isnew then bump s else s).
Proof.
  intros h d s es ks k kq q b sib s1 isnew Hlk Hnd Hsq Hkin Hin Hqk HC Hso.
  unfold sib_of in Hso. unfold CInv, ChildView, cpages in *. cbn [fst snd] in HC.
  destruct (find_kid q ks) as [sb|] eqn:Ef.
  - inversion Hso; subst sib s1 isnew. destruct (find_kid_In _ _ _ Ef) as [Hsbin Hsbp].
    split; [exact HC|]. split; [auto|]. split; [reflexivity|]. split; [|split; [exact Hsbp|split; [|reflexivity]]].
    + destruct Hlk as [_ LF]. rewrite Forall_forall in LF. destruct (LF sb Hsbin) as (key & Hk & Ho).
      rewrite Hsbp in Hk. rewrite Ho. f_equal. eapply entry_by_page; eauto.
    + intros sib' H1 H2 H3. unfold kids_merged. eapply kids_after_found; eauto. apply Hlk.
  - destruct (dget d q) as [a|] eqn:Eg; [|discriminate]. inversion Hso; subst sib s1 isnew.
    split; [eapply node_of_page_Inv; eauto|]. split; [intros la Hla; now apply node_of_page_view|].
    split; [now apply node_of_page_npages|]. split; [eapply node_of_page_orig; eauto|].
    split; [reflexivity|]. split; [|reflexivity].
    intros sib' H1 H2 H3. unfold kids_merged. eapply kids_after_new; eauto. apply Hlk.
Qed.
(* ====================================================================== *)
(** * 12. Dropping an empty child *)

Lemma cbs_remove : forall lo S1 x S2 hi, sorted_keys (S1 ++ x :: S2) = true -> lt_hi x (nxt S2 hi) ->
  Forall2 brel (cbs (lo0 lo) S1 (Some x) ++ cbs Some S2 hi) (cbs (lo0 lo) (S1 ++ S2) hi).
Proof.
  intros lo S1 x S2 hi Hs Hx. destruct S2 as [|y S2'].
  - rewrite app_nil_r. cbn [cbs]. rewrite app_nil_r. apply cbs_rel; [intros; apply lo_le_refl|].
    cbn [nxt] in Hx. now apply lt_hi_hi_le.
  - rewrite cbs_app. apply Forall2_app.
    + apply cbs_rel; [intros; apply lo_le_refl|]. cbn. apply bcmp_lt_le. eapply sorted_mid_lt; eauto.
    + apply cbs_rel; [intros; apply fst_fun_le_some | apply hi_le_refl].
Qed.

Lemma empty_view : forall d h k l, NodeView d h k l -> dlen (n_data k) = 0%N -> l = [].
Proof.
  intros d h [p np o s [l0|es] ks] l Hv Hd; cbn [n_data dlen] in Hd.
  - apply NodeView_leaf_inv in Hv. destruct Hv as [-> _]. destruct l0; [reflexivity | unfold llen in Hd; cbn in Hd; lia].
  - destruct es; [|unfold llen in Hd; cbn in Hd; lia]. apply NodeView_branch_inv in Hv.
    destruct Hv as (h0 & ls & _ & -> & HF). inversion HF. reflexivity.
Qed.

Lemma empty_npages : forall h d k, dlen (n_data k) = 0%N -> npages h d k = [].
Proof.
  intros [|h] d [p np o s [l0|es] ks] Hd; try reflexivity. cbn [n_data dlen] in Hd.
  destruct es; [reflexivity | unfold llen in Hd; cbn in Hd; lia].
Qed.

Lemma empty_assemble : forall h d lo hi p np og sq E1 ko E2 ks k l,
  sorted_keys (map fst (E1 ++ (ko, n_page k) :: E2)) = true ->
  NoDup (map snd (E1 ++ (ko, n_page k) :: E2)) ->
  Forall (inb lo hi) (map fst (E1 ++ (ko, n_page k) :: E2)) ->
  kids_linked (E1 ++ (ko, n_page k) :: E2) ks -> In k ks -> NoDup (map n_seq ks) ->
  Forall2 (CInv h d ks) E1 (cbs (lo0 lo) (map fst E1) (Some ko)) ->
  Forall2 (CInv h d ks) E2 (cbs Some (map fst E2) hi) ->
  dlen (n_data k) = 0%N ->
  NodeView d (S h) (Node p np og sq (Branches (E1 ++ (ko, n_page k) :: E2)) ks) l ->
  let ks0 := filter (not_seq (n_seq k)) ks in
  Inv (S h) d true lo hi (Node p np og sq (Branches (E1 ++ E2)) ks0) /\
  NodeView d (S h) (Node p np og sq (Branches (E1 ++ E2)) ks0) l /\
  Permutation (n_page k :: npages (S h) d (Node p np og sq (Branches (E1 ++ E2)) ks0))
              (npages (S h) d (Node p np og sq (Branches (E1 ++ (ko, n_page k) :: E2)) ks)) /\
  Permutation (seqs k ++ flat_map seqs ks0) (flat_map seqs ks).
Proof.
  intros h d lo hi p np og sq E1 ko E2 ks k l Hs Hnd Hinb Hlk Hkin Hsq HC1 HC2 Hd Hv ks0.
  destruct (filter_seq_spec ks k Hsq (proj1 Hlk) Hkin) as (F1 & F2 & F3 & F4). fold ks0 in F1, F2, F3, F4.
  pose proof Hs as Hs'. rewrite map_app in Hs'. cbn [map fst] in Hs'.
  pose proof Hinb as Hinb'. rewrite map_app in Hinb'. cbn [map fst] in Hinb'.
  pose proof Hnd as Hnd'. rewrite map_app in Hnd'. cbn [map snd] in Hnd'.
  pose proof (NoDup_remove_2 _ _ _ Hnd') as Hpk.
  assert (Hother : forall e, In e E1 \/ In e E2 -> find_kid (snd e) ks0 = find_kid (snd e) ks).
  { intros e He. apply F1. intros E. apply Hpk. rewrite <- E. apply in_or_app.
    destruct He as [He | He]; [left | right]; now apply in_map. }
  assert (Hfk : find_kid (n_page k) ks = Some k) by (apply find_kid_NoDup; [apply Hlk | exact Hkin]).
  split; [|split; [|split]].
  - rewrite Inv_branch_eq. split; [discriminate|].
    split; [rewrite map_app; eapply sorted_remove; eauto|].
    split; [rewrite map_app; eapply NoDup_remove_1; eauto|].
    split; [rewrite map_app; apply Forall_app in Hinb'; destruct Hinb' as [H1 H2]; apply Forall_app; split;
            [exact H1 | now inversion H2]|].
    split.
    + split; [exact F3|]. apply Forall_forall. intros x Hx. apply F2 in Hx. destruct Hx as [Hx Hne].
      destruct Hlk as [Lnd LF]. rewrite Forall_forall in LF. destruct (LF x Hx) as (key & Hk & Ho).
      exists key. split; [|exact Ho]. apply in_app_or in Hk. apply in_or_app.
      destruct Hk as [Hk | [Hk | Hk]]; [now left | | now right].
      exfalso. inversion Hk as [[Ek Ep]]. apply Hne. eapply (NoDup_map_inj n_page); [exact Lnd | exact Hx | exact Hkin | now symmetry].
    + rewrite map_app. unfold cbounds.
      assert (HC : Forall2 (CInv h d ks) (E1 ++ E2) (cbs (lo0 lo) (map fst E1) (Some ko) ++ cbs Some (map fst E2) hi))
        by (apply Forall2_app; assumption).
      eapply CInv_transfer; [exact HC | |].
      * apply cbs_remove; [exact Hs'|]. apply (nxt_above (map fst E1) ko (map fst E2) lo hi); assumption.
      * intros e He. apply Hother. apply in_app_or in He. exact He.
  - apply NodeView_branch_inv in Hv. destruct Hv as (h1 & ls & Eh1 & -> & HF). inversion Eh1; subst h1.
    apply Forall2_app_inv_l' in HF. destruct HF as (L1 & Lr & -> & V1 & Vr).
    apply Forall2_cons_inv_l in Vr. destruct Vr as (lk & L2 & -> & Vk & V2).
    unfold ChildView in Vk. cbn [snd] in Vk. rewrite Hfk in Vk. rewrite (empty_view _ _ _ _ Vk Hd).
    replace (concat (L1 ++ [] :: L2)) with (concat (L1 ++ L2)) by (rewrite !concat_app; reflexivity).
    apply NodeView_branch_intro. apply Forall2_app.
    + eapply Forall2_impl_in; [|exact V1]. intros e l0 He HV. unfold ChildView in *. rewrite Hother; [exact HV | now left].
    + eapply Forall2_impl_in; [|exact V2]. intros e l0 He HV. unfold ChildView in *. rewrite Hother; [exact HV | now right].
  - rewrite !npages_branch_eq. rewrite !map_app, !flat_map_app. cbn [map snd flat_map].
    assert (Ek : cpages h d ks (n_page k) = []) by (unfold cpages; rewrite Hfk; now apply empty_npages).
    rewrite Ek. cbn [app].
    assert (G1 : flat_map (fun e => cpages h d ks0 (snd e)) E1 = flat_map (fun e => cpages h d ks (snd e)) E1).
    { apply flat_map_ext_in. intros e He. unfold cpages. rewrite Hother; [reflexivity | now left]. }
    assert (G2 : flat_map (fun e => cpages h d ks0 (snd e)) E2 = flat_map (fun e => cpages h d ks (snd e)) E2).
    { apply flat_map_ext_in. intros e He. unfold cpages. rewrite Hother; [reflexivity | now right]. }
    rewrite G1, G2. rewrite app_comm_cons. apply Permutation_app_tail. apply Permutation_middle.
  - symmetry. exact F4.
Qed.
(* ====================================================================== *)
(** * 13. [try_merge] preserves the invariant and the view *)

Definition Post (h : nat) (d : disk) (s : txs) (lo hi : option bytes) (par : node) (l : list leafent)
  (k par' : node) (s' : txs) : Prop :=
  Inv (S h) d true lo hi par' /\ NodeView d (S h) par' l /\
  n_page par' = n_page par /\ n_np par' = n_np par /\ n_orig par' = n_orig par /\ n_seq par' = n_seq par /\
  NoDup (npages (S h) d par') /\ incl (npages (S h) d par') (npages (S h) d par) /\
  NoDup (seqs par') /\ (forall x, In x (seqs par') -> In x (seqs par) \/ (seqc s <= x < seqc s')%N) /\
  merge_tx s k s'.

Lemma list_rev_case : forall {A} (l : list A), l = [] \/ exists l' x, l = l' ++ [x].
Proof. intros A l. induction l as [|x l' _] using rev_ind; [now left | right; eauto]. Qed.

Lemma fst_fun_app_cons : forall f a x b, fst_fun f (a ++ x :: b) = Some.
Proof. intros f [|y a] x b; reflexivity. Qed.

Lemma bsearch_entry : forall (es : list (bytes * N)) E1 ko pk E2, es = E1 ++ (ko, pk) :: E2 ->
  sorted_keys (map fst es) = true -> bsearch (map fst es) ko = (true, N.of_nat (length E1)).
Proof.
  intros es E1 ko pk E2 -> Hs.
  assert (Hin : In ko (map fst (E1 ++ (ko, pk) :: E2))).
  { rewrite map_app. apply in_or_app. right. now left. }
  destruct (ebsearch_complete _ _ Hs Hin) as [i Hi]. rewrite Hi. f_equal.
  pose proof (ebsearch_found _ _ _ Hs Hi) as Hnth.
  assert (Hnth' : nth_error (map fst (E1 ++ (ko, pk) :: E2)) (length E1) = Some ko).
  { rewrite map_app, nth_error_app2; rewrite map_length; [|lia]. now rewrite Nat.sub_diag. }
  apply sorted_keys_NoDup in Hs. rewrite NoDup_nth_error in Hs.
  assert (N.to_nat i = length E1); [|lia]. apply Hs; [|congruence].
  apply nth_error_Some. congruence.
Qed.

Lemma Pre1_split : forall h d lo hi es ks k, Pre1 h d lo hi es ks (n_page k) -> In k ks ->
  exists E1 ko E2, es = E1 ++ (ko, n_page k) :: E2 /\ n_orig k = Some ko /\
    bsearch (map fst es) ko = (true, N.of_nat (length E1)) /\
    Forall2 (CInv h d ks) E1 (cbs (lo0 lo) (map fst E1) (Some ko)) /\
    Inv h d true (fst_fun (lo0 lo) (map fst E1) ko) (nxt (map fst E2) hi) k /\
    Forall2 (CInv h d ks) E2 (cbs Some (map fst E2) hi) /\
    find_kid (n_page k) ks = Some k.
Proof.
  intros h d lo hi es ks k (Hs & Hnd & Hinb & Hlk & HC) Hkin.
  assert (Hfk : find_kid (n_page k) ks = Some k) by (apply find_kid_NoDup; [apply Hlk | exact Hkin]).
  destruct Hlk as [Lnd LF]. rewrite Forall_forall in LF. destruct (LF k Hkin) as (ko & Hin & Ho).
  destruct (in_split _ _ Hin) as (E1 & E2 & ->). exists E1, ko, E2.
  split; [reflexivity|]. split; [exact Ho|]. split; [eapply bsearch_entry; eauto|].
  rewrite map_app in HC. cbn [map fst] in HC. unfold cbounds in HC. rewrite cbs_app in HC. cbn [cbs] in HC.
  apply Forall2_app_inv_l in HC. destruct HC as (B1 & Br & H1 & Hr & EB).
  assert (EL : length B1 = length (cbs (lo0 lo) (map fst E1) (Some ko))).
  { rewrite <- (Forall2_length _ _ _ H1), cbs_length, map_length. reflexivity. }
  apply app_eq_app in EB. destruct EB as (l2 & [[EB1 EB2] | [EB1 EB2]]).
  all: assert (l2 = []) by (apply (f_equal (@length _)) in EB1; rewrite app_length in EB1; destruct l2; [reflexivity | cbn in EB1; lia]).
  all: subst l2; rewrite app_nil_r in EB1; cbn [app] in EB2; subst B1 Br.
  all: apply Forall2_cons_inv_l in Hr; destruct Hr as (b & B2 & EB & Hk & H2); inversion EB; subst b B2.
  all: rewrite map_app in Hnd; cbn [map snd] in Hnd; pose proof (NoDup_remove_2 _ _ _ Hnd) as Hpk.
  all: (split; [|split; [|split; [|exact Hfk]]]);
    [ eapply Forall2_CInv1_other; [|exact H1]; intros Hi; apply Hpk; apply in_or_app; now left
    | unfold CInv1 in Hk; cbn [fst snd] in Hk; rewrite Hfk, N.eqb_refl in Hk; exact Hk
    | eapply Forall2_CInv1_other; [|exact H2]; intros Hi; apply Hpk; apply in_or_app; now right ].
Qed.

Lemma Pre1_Inv : forall h d lo hi p np o s es ks k, Pre1 h d lo hi es ks (n_page k) -> In k ks ->
  n_data k <> Branches [] -> Inv (S h) d true lo hi (Node p np o s (Branches es) ks).
Proof.
  intros h d lo hi p np o s es ks k HP Hkin Hne. pose proof HP as (Hs & Hnd & Hinb & Hlk & HC).
  assert (Hfk : find_kid (n_page k) ks = Some k) by (apply find_kid_NoDup; [apply Hlk | exact Hkin]).
  rewrite Inv_branch_eq. split; [discriminate|]. repeat (split; [assumption|]).
  eapply Forall2_impl; [|exact HC]. intros e b H. unfold CInv1, CInv in *.
  destruct (find_kid (snd e) ks) as [kd|] eqn:Ef; [|exact H].
  destruct (N.eqb (snd e) (n_page k)) eqn:E; [|exact H]. apply N.eqb_eq in E. rewrite E, Hfk in Ef.
  inversion Ef; subst kd. eapply Inv_z_false; eauto.
Qed.

Lemma post_noop : forall h d s lo hi par l k, Inv (S h) d true lo hi par -> NodeView d (S h) par l ->
  NoDup (npages (S h) d par) -> NoDup (seqs par) -> Post h d s lo hi par l k par s.
Proof.
  intros. unfold Post. repeat (split; [solve [auto | reflexivity | apply incl_refl]|]). now left.
Qed.

Lemma post_build : forall h d s lo hi par l k par' s' extra,
  Inv (S h) d true lo hi par' -> NodeView d (S h) par' l ->
  n_page par' = n_page par -> n_np par' = n_np par -> n_orig par' = n_orig par -> n_seq par' = n_seq par ->
  NoDup (npages (S h) d par) -> Permutation (n_page k :: npages (S h) d par') (npages (S h) d par) ->
  NoDup (seqs par) -> Forall (fun x => (x < seqc s)%N) (seqs par) ->
  Permutation (n_seq k :: seqs par') (extra ++ seqs par) ->
  NoDup extra -> (forall x, In x extra -> (seqc s <= x < seqc s')%N) ->
  merge_tx s k s' ->
  Post h d s lo hi par l k par' s'.
Proof.
  intros h d s lo hi par l k par' s' extra HI HV E1 E2 E3 E4 Hnp Hpp Hsq Hlt Hps Hex Hfr Htx.
  destruct (perm_nodup_incl _ _ _ Hnp Hpp) as [P1 P2].
  destruct (seqs_after (n_seq k) (seqs par) (seqs par') extra Hsq Hex) as [S1 S2]; [|exact Hps|].
  { intros y Hy Hin. rewrite Forall_forall in Hlt. specialize (Hlt y Hin). specialize (Hfr y Hy). lia. }
  unfold Post. repeat (split; [assumption|]). split; [|exact Htx].
  intros x Hx. destruct (S2 x Hx) as [H | H]; [now left | right; now apply Hfr].
Qed.
Lemma set_merged_eq : forall sib md kk, set_kids (set_data sib md) kk = Node (n_page sib) (n_np sib) (n_orig sib) (n_seq sib) md kk.
Proof. intros [p np o s dd ks] md kk. reflexivity. Qed.
Lemma set_merged_orig_eq : forall sib md kk o, set_orig (set_kids (set_data sib md) kk) o = Node (n_page sib) (n_np sib) o (n_seq sib) md kk.
Proof. intros [p np o s dd ks] md kk o'. reflexivity. Qed.

Lemma Inv_false_nonempty : forall h d lo hi n, Inv h d false lo hi n -> n_data n <> Branches [].
Proof.
  destruct h as [|h]; intros d lo hi n H; [destruct H|]. destruct n as [p np o s [l|es] ks]; cbn [n_data]; [discriminate|].
  rewrite Inv_branch_eq in H. destruct H as (Hne & _). intros E. inversion E. now apply Hne.
Qed.

Lemma merge_tx_of : forall s k s1 (isnew : bool), s1 = (if isnew then bump s else s) -> merge_tx s k (free_node_page s1 k).
Proof. intros s k s1 [|] ->; unfold merge_tx; tauto. Qed.

Lemma extra_fresh : forall s k s1 (isnew : bool) x, s1 = (if isnew then bump s else s) ->
  In x (if isnew then [seqc s] else []) -> (seqc s <= x < seqc (free_node_page s1 k))%N.
Proof.
  intros s k s1 [|] x -> Hx; [|destruct Hx]. destruct Hx as [<- | []].
  destruct (free_node_page_frame (bump s) k) as [_ E]. rewrite E, seqc_bump. lia.
Qed.

Lemma extra_nodup : forall (isnew : bool) (x : N), NoDup (if isnew then [x] else []).
Proof. intros [|] x; repeat constructor. intros []. Qed.

Lemma remove_at_second : forall {A} (a : list A) x y b, remove_at (a ++ x :: y :: b) (S (length a)) = a ++ x :: b.
Proof. intros A a x y b. induction a as [|z a IH]; [reflexivity|]. cbn [app length remove_at]. now rewrite IH. Qed.

Lemma step_left : forall h d s lo hi p np og sq E1 kq q ko k E2 ks l par' s',
  sorted_keys (map fst (E1 ++ (kq, q) :: (ko, n_page k) :: E2)) = true ->
  NoDup (map snd (E1 ++ (kq, q) :: (ko, n_page k) :: E2)) ->
  Forall (inb lo hi) (map fst (E1 ++ (kq, q) :: (ko, n_page k) :: E2)) ->
  kids_linked (E1 ++ (kq, q) :: (ko, n_page k) :: E2) ks -> In k ks ->
  Forall2 (CInv h d ks) (E1 ++ [(kq, q)]) (cbs (lo0 lo) (map fst (E1 ++ [(kq, q)])) (Some ko)) ->
  Inv h d true (Some ko) (nxt (map fst E2) hi) k ->
  Forall2 (CInv h d ks) E2 (cbs Some (map fst E2) hi) ->
  NodeView d (S h) (Node p np og sq (Branches (E1 ++ (kq, q) :: (ko, n_page k) :: E2)) ks) l ->
  NoDup (npages (S h) d (Node p np og sq (Branches (E1 ++ (kq, q) :: (ko, n_page k) :: E2)) ks)) ->
  NoDup (seqs (Node p np og sq (Branches (E1 ++ (kq, q) :: (ko, n_page k) :: E2)) ks)) ->
  Forall (fun x => (x < seqc s)%N) (seqs (Node p np og sq (Branches (E1 ++ (kq, q) :: (ko, n_page k) :: E2)) ks)) ->
  needs_merging s k = true -> (0 < dlen (n_data k))%N -> n_orig k = Some ko ->
  bsearch (map fst (E1 ++ (kq, q) :: (ko, n_page k) :: E2)) ko = (true, N.of_nat (S (length E1))) ->
  try_merge d (Node p np og sq (Branches (E1 ++ (kq, q) :: (ko, n_page k) :: E2)) ks) k s = Ok (par', s') ->
  Post h d s lo hi (Node p np og sq (Branches (E1 ++ (kq, q) :: (ko, n_page k) :: E2)) ks) l k par' s'.
Proof.
  intros h d s lo hi p np og sq E1 kq q ko k E2 ks l par' s' Hs Hnd Hinb Hlk Hkin HC1 Hk HC2 Hv Hnp Hsq Hlt
    Hn Hdl Ho Hb H.
  set (es := E1 ++ (kq, q) :: (ko, n_page k) :: E2) in *.
  assert (Hsp : nthN es (N.of_nat (S (length E1)) - 1) = Some (kq, q)).
  { unfold nthN, es. replace (N.to_nat (N.of_nat (S (length E1)) - 1)) with (length E1 + 0) by lia.
    rewrite nth_error_app2 by lia. replace (length E1 + 0 - length E1) with 0 by lia. reflexivity. }
  rewrite (try_merge_left_unfold d (Node p np og sq (Branches es) ks) k s es ko _ kq q Hn eq_refl Hdl Ho Hb ltac:(lia) Hsp) in H.
  cbn [n_kids] in H.
  destruct (sib_of d ks q s) as [[[sib s1] isnew]| |] eqn:Eso; cbn [bind] in H; try discriminate.
  destruct (merge_data (n_data sib) (n_data k)) as [md| |] eqn:Emd; cbn [bind] in H; try discriminate.
  inversion H; subst par' s'. clear H.
  (* the sibling *)
  rewrite map_app in HC1. cbn [map fst] in HC1. rewrite cbs_app in HC1. cbn [cbs nxt] in HC1.
  apply Forall2_app_inv_l in HC1. destruct HC1 as (B1 & Br & HC1 & Hr & EB).
  apply app_eq_app in EB. destruct EB as (l2 & [[EB1 EB2] | [EB1 EB2]]).
  all: assert (l2 = []) by (apply (f_equal (@length _)) in EB1; rewrite app_length in EB1;
         rewrite <- (Forall2_length _ _ _ HC1), cbs_length, map_length in EB1; destruct l2; [reflexivity | cbn in EB1; lia]).
  all: subst l2; rewrite app_nil_r in EB1; cbn [app] in EB2; subst B1 Br.
  all: apply Forall2_cons_inv_l in Hr; destruct Hr as (b & B2 & EB & Cs & _); inversion EB; subst b B2; clear EB.
  all: assert (Hq_in : In (kq, q) es) by (unfold es; apply in_or_app; right; now left).
  all: assert (Hqk : q <> n_page k) by
        (unfold es in Hnd; rewrite map_app in Hnd; cbn [map snd] in Hnd; apply NoDup_app_r in Hnd;
         inversion Hnd as [|? ? Hx _]; subst; intros E; apply Hx; left; now symmetry).
  all: pose proof (seqs_kids_NoDup ks ltac:(cbn [seqs] in Hsq; now inversion Hsq)) as Hsk.
  all: destruct (sib_of_spec h d s es ks k kq q _ sib s1 isnew Hlk Hnd Hsk Hkin Hq_in Hqk Cs Eso)
        as (Isib & Vsib & Psib & Osib & Pgsib & Kaft & Es1); cbn [fst snd] in Isib.
  all: destruct (Inv_dkeys _ _ _ _ _ _ Isib) as [SA FA]; destruct (Inv_dkeys _ _ _ _ _ _ Hk) as [SB FB].
  all: pose proof (merge_data_lr _ _ _ _ _ _ SA FA SB FB Emd) as Emd'; subst md.
  all: rewrite set_merged_eq, Osib, Pgsib in *.
  all: assert (Hfk : find_kid (n_page k) ks = Some k) by (apply find_kid_NoDup; [apply Hlk | exact Hkin]).
  all: destruct (merge_assemble h d lo hi p np og sq E1 kq q ko (n_page k) E2 ks k l q kq sib k false true
         q (n_np sib) (n_seq sib) (n_kids sib ++ n_kids k) (kids_merged ks k
            (Node q (n_np sib) (Some kq) (n_seq sib) (djoin (n_data sib) (n_data k)) (n_kids sib ++ n_kids k)) isnew)
         (if isnew then [seqc s] else [])) as (R1 & R2 & R3 & R4); try assumption; try reflexivity.
  all: try (left; split; reflexivity).
  all: try (now left).
  all: try (eapply Inv_false_nonempty; exact Isib).
  all: try (apply dlen_pos_nonempty; exact Hdl).
  all: try (eapply merge_data_kind; exact Emd).
  all: try (intros lb Hlb; unfold ChildView in Hlb; rewrite Hfk in Hlb; exact Hlb).
  all: try (unfold cpages; now rewrite Hfk).
  all: try (apply Kaft; reflexivity).
  all: change (Pos.to_nat (Pos.of_succ_nat (length E1))) with (N.to_nat (N.of_nat (S (length E1)))); rewrite Nat2N.id.
  all: unfold es at 2; rewrite remove_at_second.
  all: eapply (post_build h d s lo hi _ l k _ _ (if isnew then [seqc s] else [])); try eassumption; try reflexivity.
  all: try apply extra_nodup.
  all: try (intros x Hx; eapply extra_fresh; eauto).
  all: try (eapply merge_tx_of; eauto).
Qed.
Lemma first_key_pos : forall dd, (0 < dlen dd)%N -> exists fk, first_key dd = Ok fk.
Proof. intros [[|e l]|[|e es]] H; cbn in *; try lia; eauto. Qed.

Lemma step_right : forall h d s lo hi p np og sq ko k kq q rest ks l par' s',
  sorted_keys (map fst ((ko, n_page k) :: (kq, q) :: rest)) = true ->
  NoDup (map snd ((ko, n_page k) :: (kq, q) :: rest)) ->
  Forall (inb lo hi) (map fst ((ko, n_page k) :: (kq, q) :: rest)) ->
  kids_linked ((ko, n_page k) :: (kq, q) :: rest) ks -> In k ks ->
  Inv h d true (lo0 lo ko) (Some kq) k ->
  Forall2 (CInv h d ks) ((kq, q) :: rest) (cbs Some (map fst ((kq, q) :: rest)) hi) ->
  NodeView d (S h) (Node p np og sq (Branches ((ko, n_page k) :: (kq, q) :: rest)) ks) l ->
  NoDup (npages (S h) d (Node p np og sq (Branches ((ko, n_page k) :: (kq, q) :: rest)) ks)) ->
  NoDup (seqs (Node p np og sq (Branches ((ko, n_page k) :: (kq, q) :: rest)) ks)) ->
  Forall (fun x => (x < seqc s)%N) (seqs (Node p np og sq (Branches ((ko, n_page k) :: (kq, q) :: rest)) ks)) ->
  needs_merging s k = true -> (0 < dlen (n_data k))%N -> n_orig k = Some ko ->
  bsearch (map fst ((ko, n_page k) :: (kq, q) :: rest)) ko = (true, 0%N) ->
  try_merge d (Node p np og sq (Branches ((ko, n_page k) :: (kq, q) :: rest)) ks) k s = Ok (par', s') ->
  Post h d s lo hi (Node p np og sq (Branches ((ko, n_page k) :: (kq, q) :: rest)) ks) l k par' s'.
Proof.
  intros h d s lo hi p np og sq ko k kq q rest ks l par' s' Hs Hnd Hinb Hlk Hkin Hk HC2 Hv Hnp Hsq Hlt
    Hn Hdl Ho Hb H.
  set (es := (ko, n_page k) :: (kq, q) :: rest) in *.
  rewrite (try_merge_right_unfold d (Node p np og sq (Branches es) ks) k s (ko, n_page k) kq q rest ko Hn eq_refl Hdl Ho Hb) in H.
  cbn [n_kids] in H.
  destruct (sib_of d ks q s) as [[[sib s1] isnew]| |] eqn:Eso; cbn [bind] in H; try discriminate.
  destruct (merge_data (n_data sib) (n_data k)) as [md| |] eqn:Emd; cbn [bind] in H; try discriminate.
  cbn [map fst cbs] in HC2. apply Forall2_cons_inv_l in HC2. destruct HC2 as (b & B2 & EB & Cs & HC2).
  inversion EB; subst b B2; clear EB.
  assert (Hq_in : In (kq, q) es) by (right; now left).
  assert (Hqk : q <> n_page k).
  { unfold es in Hnd. cbn [map snd] in Hnd. inversion Hnd as [|? ? Hx _]; subst. intros E. apply Hx. left. exact E. }
  pose proof (seqs_kids_NoDup ks ltac:(cbn [seqs] in Hsq; now inversion Hsq)) as Hsk.
  destruct (sib_of_spec h d s es ks k kq q _ sib s1 isnew Hlk Hnd Hsk Hkin Hq_in Hqk Cs Eso)
    as (Isib & Vsib & Psib & Osib & Pgsib & Kaft & Es1); cbn [fst snd] in Isib.
  destruct (Inv_dkeys _ _ _ _ _ _ Hk) as [SA FA]; destruct (Inv_dkeys _ _ _ _ _ _ Isib) as [SB FB].
  pose proof (merge_data_rl _ _ _ _ _ _ SA FA SB FB Emd) as Emd'. subst md.
  pose proof (merge_data_kind _ _ _ Emd) as Hkind. symmetry in Hkind.
  destruct (first_key_pos _ Hdl) as [fk Hfk0].
  assert (Hfkj : first_key (djoin (n_data k) (n_data sib)) = Ok fk) by (rewrite first_key_djoin; assumption).
  rewrite Hfkj in H. inversion H; subst par' s'. clear H.
  rewrite set_merged_orig_eq, Pgsib.
  assert (Hfk : find_kid (n_page k) ks = Some k) by (apply find_kid_NoDup; [apply Hlk | exact Hkin]).
  destruct (merge_assemble h d lo hi p np og sq [] ko (n_page k) kq q rest ks k l q fk k sib true false
         q (n_np sib) (n_seq sib) (n_kids sib ++ n_kids k) (kids_merged ks k
            (Node q (n_np sib) (Some fk) (n_seq sib) (djoin (n_data k) (n_data sib)) (n_kids sib ++ n_kids k)) isnew)
         (if isnew then [seqc s] else [])) as (R1 & R2 & R3 & R4); try assumption; try reflexivity.
  all: try (right; split; reflexivity).
  all: try (now right).
  all: try (constructor; fail).
  all: try (eapply Inv_false_nonempty; exact Isib).
  all: try (apply dlen_pos_nonempty; exact Hdl).
  all: try (intros lb Hlb; unfold ChildView in Hlb; rewrite Hfk in Hlb; exact Hlb).
  all: try (unfold cpages; now rewrite Hfk).
  all: try (apply Kaft; reflexivity).
  all: try (right; repeat split; assumption).
  cbn [app] in *.
  eapply (post_build h d s lo hi _ l k _ _ (if isnew then [seqc s] else [])); try eassumption; try reflexivity.
  all: try apply extra_nodup.
  all: try (intros x Hx; eapply extra_fresh; eauto).
  all: try (eapply merge_tx_of; eauto).
Qed.
Lemma post_build_incl : forall h d s lo hi par l k par' s',
  Inv (S h) d true lo hi par' -> NodeView d (S h) par' l ->
  n_page par' = n_page par -> n_np par' = n_np par -> n_orig par' = n_orig par -> n_seq par' = n_seq par ->
  NoDup (npages (S h) d par) -> Permutation (n_page k :: npages (S h) d par') (npages (S h) d par) ->
  NoDup (seqs par') -> incl (seqs par') (seqs par) ->
  merge_tx s k s' ->
  Post h d s lo hi par l k par' s'.
Proof.
  intros h d s lo hi par l k par' s' HI HV E1 E2 E3 E4 Hnp Hpp Hsq Hin Htx.
  destruct (perm_nodup_incl _ _ _ Hnp Hpp) as [P1 P2].
  unfold Post. repeat (split; [assumption|]). split; [|exact Htx]. intros x Hx. left. now apply Hin.
Qed.

(* THE STEP. The parent satisfies the invariant except that the kid k may be an empty branch node (as left by
   [rebalance_kids] when all of k's children were merged away). *)
Theorem try_merge_step : forall h d s lo hi p np og sq es ks k l par' s',
  Pre1 h d lo hi es ks (n_page k) -> In k ks ->
  NodeView d (S h) (Node p np og sq (Branches es) ks) l ->
  NoDup (npages (S h) d (Node p np og sq (Branches es) ks)) ->
  NoDup (seqs (Node p np og sq (Branches es) ks)) ->
  Forall (fun x => (x < seqc s)%N) (seqs (Node p np og sq (Branches es) ks)) ->
  try_merge d (Node p np og sq (Branches es) ks) k s = Ok (par', s') ->
  Post h d s lo hi (Node p np og sq (Branches es) ks) l k par' s'.
Proof.
  intros h d s lo hi p np og sq es ks k l par' s' HP Hkin Hv Hnp Hsq Hlt H.
  destruct (Pre1_split _ _ _ _ _ _ _ HP Hkin) as (E1 & ko & E2 & Ees & Ho & Hb & HC1 & Hk & HC2 & Hfk).
  pose proof HP as (Hs & Hnd & Hinb & Hlk & _).
  assert (Hnoop : n_data k <> Branches [] ->
                  try_merge d (Node p np og sq (Branches es) ks) k s = Ok (Node p np og sq (Branches es) ks, s) ->
                  Post h d s lo hi (Node p np og sq (Branches es) ks) l k par' s').
  { intros Hne E. rewrite E in H. inversion H; subst par' s'. apply post_noop; try assumption.
    eapply Pre1_Inv; eauto. }
  destruct (needs_merging s k) eqn:Hn.
  2:{ apply Hnoop.
      - unfold needs_merging in Hn. apply orb_false_iff in Hn. destruct Hn as [Hn _]. intros E. rewrite E in Hn.
        cbn in Hn. discriminate.
      - rewrite try_merge_noop by exact Hn. cbn [n_kids set_kids]. now rewrite replace_kid_id. }
  destruct (0 <? dlen (n_data k))%N eqn:Hdl.
  2:{ (* empty child *)
      assert (Hd0 : dlen (n_data k) = 0%N) by lia.
      rewrite (try_merge_empty d (Node p np og sq (Branches es) ks) k s es ko _ Hd0 eq_refl Ho Hb) in H. inversion H; subst par' s'. clear H.
      cbn [set_data set_kids n_kids]. rewrite Nat2N.id. subst es. rewrite remove_at_mid.
      pose proof (seqs_kids_NoDup ks ltac:(cbn [seqs] in Hsq; now inversion Hsq)) as Hsk.
      destruct (empty_assemble h d lo hi p np og sq E1 ko E2 ks k l Hs Hnd Hinb Hlk Hkin Hsk HC1 HC2 Hd0 Hv)
        as (R1 & R2 & R3 & R4).
      assert (Hperm : Permutation (seqs (Node p np og sq (Branches (E1 ++ (ko, n_page k) :: E2)) ks))
                                  (seqs k ++ sq :: flat_map seqs (filter (not_seq (n_seq k)) ks))).
      { cbn [seqs]. rewrite <- R4. apply Permutation_middle. }
      eapply (post_build_incl h d s lo hi _ l k _ _); try eassumption; try reflexivity.
      - cbn [seqs]. eapply NoDup_app_r. eapply Permutation_NoDup; [exact Hperm | exact Hsq].
      - intros x Hx. eapply Permutation_in; [symmetry; exact Hperm|]. apply in_or_app. right. exact Hx.
      - right. now left. }
  assert (Hdl' : (0 < dlen (n_data k))%N) by lia.
  destruct (llen es =? 1)%N eqn:Hone.
  { apply Hnoop; [now apply dlen_pos_nonempty|].
    rewrite (try_merge_only_child d (Node p np og sq (Branches es) ks) k s es eq_refl ltac:(lia) Hdl').
    cbn [n_kids set_kids]. now rewrite replace_kid_id. }
  destruct (list_rev_case E1) as [-> | (E1' & [kq q] & ->)].
  - destruct E2 as [|[kq q] rest]; [subst es; unfold llen in Hone; cbn in Hone; lia|].
    cbn [app] in Ees. subst es. cbn [map fst fst_fun nxt length] in Hk, Hb.
    eapply step_right; eauto.
  - rewrite <- app_assoc in Ees. cbn [app] in Ees. subst es.
    rewrite map_app in Hk. cbn [map fst] in Hk. rewrite fst_fun_app_cons in Hk. rewrite app_length in Hb. cbn [length] in Hb.
    replace (length E1' + 1) with (S (length E1')) in Hb by lia.
    eapply step_left; eauto.
Qed.
(* the form asked for: the parent satisfies the invariant (with k in place) *)
Theorem try_merge_view : forall h d s z lo hi par es k l par' s',
  Inv (S h) d z lo hi par -> n_data par = Branches es -> In k (n_kids par) ->
  NodeView d (S h) par l ->
  NoDup (npages (S h) d par) -> NoDup (seqs par) -> Forall (fun x => (x < seqc s)%N) (seqs par) ->
  try_merge d par k s = Ok (par', s') ->
  Post h d s lo hi par l k par' s'.
Proof.
  intros h d s z lo hi [p np og sq dd ks] es k l par' s' HI Hd Hkin Hv Hnp Hsq Hlt H.
  cbn [n_data n_kids] in *. subst dd. eapply try_merge_step; eauto. eapply Inv_Pre1; eauto.
Qed.

(* what [Post] gives in the vocabulary of EngineModifyFacts / of the transaction state *)
Theorem Post_facts : forall h d s lo hi par l k par' s', Post h d s lo hi par l k par' s' ->
  NodeView d (S h) par' l /\
  (n_data par' <> Branches [] -> wf_node d par') /\
  free s' = free s /\ np s' = np s /\ wr s' = wr s /\ txid s' = txid s /\ psz s' = psz s /\ flw s' = flw s /\
  (pending s' = pending s \/ pending s' = pending (free_node_page s k)) /\
  (seqc s <= seqc s' <= seqc s + 1)%N.
Proof.
  intros h d s lo hi par l k par' s' (HI & HV & _ & _ & _ & _ & _ & _ & _ & _ & Htx).
  split; [exact HV|]. split.
  - intros Hne. eapply Inv_wf_node. eapply Inv_z_false; eauto.
  - destruct (merge_tx_frame _ _ _ Htx) as ((F1 & F2 & F3 & F4 & F5 & F6 & F7) & Hle & Hp).
    repeat (split; [assumption|]). lia.
Qed.
(* ====================================================================== *)
(** * 14. Replacing a kid by its rebalanced version *)

Lemma NoDup_replace_mid : forall {T} (A X X' B : list T) (fresh : T -> Prop),
  NoDup (A ++ X ++ B) -> NoDup X' -> (forall x, In x X' -> In x X \/ fresh x) ->
  (forall y, In y (A ++ X ++ B) -> ~ fresh y) -> NoDup (A ++ X' ++ B).
Proof.
  intros T A X X' B fresh H HX' Hin Hfr.
  pose proof (NoDup_app_l _ _ H) as HA. pose proof (NoDup_app_r _ _ H) as HXB.
  pose proof (NoDup_app_r _ _ HXB) as HB.
  apply NoDup_app_intro; [exact HA | |].
  - apply NoDup_app_intro; [exact HX' | exact HB |]. intros y Hy1 Hy2. destruct (Hin y Hy1) as [Hy | Hy].
    + eapply (NoDup_app_disj X B y); eauto.
    + apply (Hfr y); [|exact Hy]. apply in_or_app. right. apply in_or_app. now right.
  - intros y Hy1 Hy2. apply in_app_or in Hy2. destruct Hy2 as [Hy2 | Hy2].
    + destruct (Hin y Hy2) as [Hy | Hy].
      * eapply (NoDup_app_disj A (X ++ B) y); eauto. apply in_or_app. now left.
      * apply (Hfr y); [|exact Hy]. apply in_or_app. now left.
    + eapply (NoDup_app_disj A (X ++ B) y); eauto. apply in_or_app. now right.
Qed.

Lemma kid_replaced : forall h d lo hi p np og sq es ks k k1 l (fresh : N -> Prop),
  Inv (S h) d true lo hi (Node p np og sq (Branches es) ks) -> In k ks ->
  NodeView d (S h) (Node p np og sq (Branches es) ks) l ->
  NoDup (npages (S h) d (Node p np og sq (Branches es) ks)) ->
  NoDup (seqs (Node p np og sq (Branches es) ks)) ->
  n_page k1 = n_page k -> n_orig k1 = n_orig k -> n_seq k1 = n_seq k ->
  (forall lo' hi', Inv h d false lo' hi' k -> Inv h d true lo' hi' k1) ->
  (forall lk, NodeView d h k lk -> NodeView d h k1 lk) ->
  NoDup (npages h d k1) -> incl (npages h d k1) (npages h d k) ->
  NoDup (seqs k1) -> (forall x, In x (seqs k1) -> In x (seqs k) \/ fresh x) ->
  (forall y, In y (seqs (Node p np og sq (Branches es) ks)) -> ~ fresh y) ->
  let ks' := replace_kid ks k1 in
  Pre1 h d lo hi es ks' (n_page k1) /\ In k1 ks' /\
  NodeView d (S h) (Node p np og sq (Branches es) ks') l /\
  NoDup (npages (S h) d (Node p np og sq (Branches es) ks')) /\
  incl (npages (S h) d (Node p np og sq (Branches es) ks')) (npages (S h) d (Node p np og sq (Branches es) ks)) /\
  NoDup (seqs (Node p np og sq (Branches es) ks')) /\
  (forall x, In x (seqs (Node p np og sq (Branches es) ks')) -> In x (seqs (Node p np og sq (Branches es) ks)) \/ fresh x).
Proof.
  intros h d lo hi p np og sq es ks k k1 l fresh HI Hkin Hv Hnp Hsq Ep Eo Es TI TV Np1 Ip1 Ns1 Is1 Hfr ks'.
  rewrite Inv_branch_eq in HI. destruct HI as (_ & Hs & Hnd & Hinb & Hlk & HC).
  assert (Hfk : find_kid (n_page k) ks = Some k) by (apply find_kid_NoDup; [apply Hlk | exact Hkin]).
  destruct (find_kid_split _ _ _ Hfk) as (a & b & Eks & _ & Ha).
  assert (Eks' : ks' = a ++ k1 :: b).
  { unfold ks'. rewrite Eks. apply replace_kid_hit; [now symmetry|]. intros y Hy. rewrite Ep. now apply Ha. }
  destruct (replace_kid_upd ks (n_page k) k k1 Hfk Ep) as [U1 U2]. fold ks' in U1, U2.
  assert (Hin1 : In k1 ks') by (rewrite Eks'; apply in_or_app; right; now left).
  destruct Hlk as [Lnd LF]. rewrite Forall_forall in LF. destruct (LF k Hkin) as (ko & Hko & Hok).
  split; [|split; [exact Hin1|split; [|split; [|split; [|split]]]]].
  - (* Pre1 *)
    unfold Pre1. split; [exact Hs|]. split; [exact Hnd|]. split; [exact Hinb|]. split.
    + split.
      * rewrite Eks', map_app. cbn [map]. rewrite Ep. rewrite Eks, map_app in Lnd. exact Lnd.
      * apply Forall_forall. intros x Hx. rewrite Eks' in Hx. apply in_app_or in Hx.
        destruct Hx as [Hx | [<- | Hx]].
        -- apply LF. rewrite Eks. apply in_or_app. now left.
        -- exists ko. rewrite Ep, Eo. split; assumption.
        -- apply LF. rewrite Eks. apply in_or_app. right. now right.
    + eapply Forall2_impl; [|exact HC]. intros e bb H. unfold CInv, CInv1 in *. rewrite Ep.
      destruct (N.eq_dec (snd e) (n_page k)) as [E | NE].
      * rewrite E, U1, N.eqb_refl. rewrite E, Hfk in H. now apply TI.
      * rewrite (U2 _ NE). assert (E0 : N.eqb (snd e) (n_page k) = false) by lia. rewrite E0. exact H.
  - (* view *)
    apply NodeView_branch_inv in Hv. destruct Hv as (h1 & ls & Eh1 & -> & HF). inversion Eh1; subst h1.
    apply NodeView_branch_intro. eapply Forall2_impl; [|exact HF]. intros e le H. unfold ChildView in *.
    destruct (N.eq_dec (snd e) (n_page k)) as [E | NE].
    + rewrite E, U1. rewrite E, Hfk in H. now apply TV.
    + now rewrite (U2 _ NE).
  - (* npages: NoDup *)
    destruct (in_split _ _ Hko) as (E1 & E2 & Ees).
    assert (Hpk : ~ In (n_page k) (map snd E1) /\ ~ In (n_page k) (map snd E2)).
    { rewrite Ees, map_app in Hnd. cbn [map snd] in Hnd. pose proof (NoDup_remove_2 _ _ _ Hnd) as Hx.
      split; intros Hi; apply Hx; apply in_or_app; tauto. }
    assert (G : forall E : list (bytes * N), ~ In (n_page k) (map snd E) ->
                flat_map (fun e => cpages h d ks' (snd e)) E = flat_map (fun e => cpages h d ks (snd e)) E).
    { intros E HE. apply flat_map_ext_in. intros e He. unfold cpages. rewrite U2; [reflexivity|].
      intros Eq. apply HE. rewrite <- Eq. now apply in_map. }
    rewrite npages_branch_eq in *. rewrite Ees in *. rewrite !flat_map_app in *. cbn [flat_map snd] in *.
    rewrite (G E1 (proj1 Hpk)), (G E2 (proj2 Hpk)). unfold cpages at 2. rewrite U1.
    unfold cpages at 2 in Hnp. rewrite Hfk in Hnp.
    rewrite app_assoc in Hnp |- *. eapply NoDup_shrink_mid; eauto.
  - (* npages: incl *)
    destruct (in_split _ _ Hko) as (E1 & E2 & Ees).
    assert (Hpk : ~ In (n_page k) (map snd E1) /\ ~ In (n_page k) (map snd E2)).
    { rewrite Ees, map_app in Hnd. cbn [map snd] in Hnd. pose proof (NoDup_remove_2 _ _ _ Hnd) as Hx.
      split; intros Hi; apply Hx; apply in_or_app; tauto. }
    assert (G : forall E : list (bytes * N), ~ In (n_page k) (map snd E) ->
                flat_map (fun e => cpages h d ks' (snd e)) E = flat_map (fun e => cpages h d ks (snd e)) E).
    { intros E HE. apply flat_map_ext_in. intros e He. unfold cpages. rewrite U2; [reflexivity|].
      intros Eq. apply HE. rewrite <- Eq. now apply in_map. }
    rewrite !npages_branch_eq. rewrite Ees. rewrite !flat_map_app. cbn [flat_map snd].
    assert (Ek1 : cpages h d ks' (n_page k) = npages h d k1) by (unfold cpages; now rewrite U1).
    assert (Ek : cpages h d ks (n_page k) = npages h d k) by (unfold cpages; now rewrite Hfk).
    rewrite (G E1 (proj1 Hpk)), (G E2 (proj2 Hpk)), Ek1, Ek.
    intros x Hx. rewrite !in_app_iff in *. destruct Hx as [Hx | [Hx | [Hx | Hx]]]; auto.
  - (* seqs: NoDup *)
    cbn [seqs] in *. rewrite Eks' . rewrite Eks in Hsq, Hfr. rewrite !flat_map_app in *. cbn [flat_map] in *.
    rewrite app_comm_cons in Hsq, Hfr |- *. eapply NoDup_replace_mid; eauto.
  - cbn [seqs] in *. rewrite Eks'. rewrite Eks. rewrite !flat_map_app. cbn [flat_map].
    intros x [Hx | Hx]; [left; now left|]. rewrite !in_app_iff in Hx. destruct Hx as [Hx | [Hx | Hx]].
    + left. right. rewrite !in_app_iff. tauto.
    + destruct (Is1 x Hx) as [H | H]; [left; right; rewrite !in_app_iff; tauto | now right].
    + left. right. rewrite !in_app_iff. tauto.
Qed.
(* ====================================================================== *)
(** * 15. [rebalance_kids] *)

Definition RKPost (h : nat) (d : disk) (s : txs) (lo hi : option bytes) (n : node) (l : list leafent)
  (n' : node) (s' : txs) : Prop :=
  Inv h d true lo hi n' /\ NodeView d h n' l /\
  n_page n' = n_page n /\ n_np n' = n_np n /\ n_orig n' = n_orig n /\ n_seq n' = n_seq n /\
  NoDup (npages h d n') /\ incl (npages h d n') (npages h d n) /\
  NoDup (seqs n') /\ (forall x, In x (seqs n') -> In x (seqs n) \/ (seqc s <= x < seqc s')%N) /\
  tx_frame s s'.

Lemma kid_facts : forall h d lo hi p np og sq es ks k l,
  Inv (S h) d true lo hi (Node p np og sq (Branches es) ks) -> In k ks ->
  NodeView d (S h) (Node p np og sq (Branches es) ks) l ->
  NoDup (npages (S h) d (Node p np og sq (Branches es) ks)) ->
  NoDup (seqs (Node p np og sq (Branches es) ks)) ->
  (exists lk, NodeView d h k lk) /\ NoDup (npages h d k) /\ NoDup (seqs k) /\
  incl (seqs k) (seqs (Node p np og sq (Branches es) ks)) /\
  (exists lo' hi', Inv h d true lo' hi' k).
Proof.
  intros h d lo hi p np og sq es ks k l HI Hkin Hv Hnp Hsq.
  pose proof (Inv_Pre1 _ _ _ _ _ _ _ _ _ _ _ (n_page k) HI) as HP.
  destruct (Pre1_split _ _ _ _ _ _ _ HP Hkin) as (E1 & ko & E2 & Ees & Ho & Hb & HC1 & Hk & HC2 & Hfk).
  split; [|split; [|split; [|split]]].
  - apply NodeView_branch_inv in Hv. destruct Hv as (h1 & ls & Eh1 & -> & HF). inversion Eh1; subst h1.
    rewrite Ees in HF. apply Forall2_app_inv_l in HF. destruct HF as (L1 & Lr & _ & Hr & _).
    apply Forall2_cons_inv_l in Hr. destruct Hr as (lk & L2 & _ & Vk & _).
    unfold ChildView in Vk. cbn [snd] in Vk. rewrite Hfk in Vk. eauto.
  - rewrite npages_branch_eq, Ees, flat_map_app in Hnp. cbn [flat_map snd] in Hnp. unfold cpages at 2 in Hnp.
    rewrite Hfk in Hnp. apply NoDup_app_r in Hnp. apply NoDup_app_r in Hnp. eapply NoDup_app_l; eauto.
  - cbn [seqs] in Hsq. apply NoDup_cons_iff in Hsq. destruct Hsq as [_ Hsq].
    destruct (in_split _ _ Hkin) as (a & b & ->). rewrite flat_map_app in Hsq. cbn [flat_map] in Hsq.
    apply NoDup_app_r in Hsq. eapply NoDup_app_l; eauto.
  - cbn [seqs]. intros x Hx. right. apply in_flat_map. eauto.
  - eauto.
Qed.

Lemma fold_left_not_ok : forall {A B} (F : res A -> B -> res A) xs acc,
  (forall x r, (forall a, r <> Ok a) -> forall a, F r x <> Ok a) ->
  (forall a, acc <> Ok a) -> forall a, fold_left F xs acc <> Ok a.
Proof.
  intros A B F xs. induction xs as [|x xs IH]; intros acc HF Hacc a; cbn [fold_left]; [apply Hacc|].
  apply IH; [exact HF|]. apply HF. exact Hacc.
Qed.

Lemma fold_left_res_inv : forall {A B} (F : res A -> B -> res A) (P : A -> Prop) xs a0 a',
  (forall x r, (forall a, r <> Ok a) -> forall a, F r x <> Ok a) ->
  (forall x a a1, P a -> F (Ok a) x = Ok a1 -> P a1) ->
  P a0 -> fold_left F xs (Ok a0) = Ok a' -> P a'.
Proof.
  intros A B F P xs. induction xs as [|x xs IH]; intros a0 a' HF Hstep H0 H; cbn [fold_left] in H.
  - inversion H; subst. exact H0.
  - destruct (F (Ok a0) x) as [a1| |] eqn:E.
    + apply (IH a1 a' HF Hstep); [eapply Hstep; eauto | exact H].
    + exfalso. apply (fold_left_not_ok F xs (Panic msg) HF (fun a Ha => ltac:(discriminate)) a' H).
    + exfalso. apply (fold_left_not_ok F xs (Err e) HF (fun a Ha => ltac:(discriminate)) a' H).
Qed.

Lemma try_merge_branch : forall d par k s par' s', try_merge d par k s = Ok (par', s') ->
  is_leaf (n_data par) = false -> is_leaf (n_data par') = false.
Proof.
  intros d par k s par' s' H Hl. unfold try_merge in H.
  destruct (negb (needs_merging s k)).
  { inversion H; subst. destruct par; exact Hl. }
  destruct (n_data par) as [l|es] eqn:Ed; [discriminate|].
  destruct ((llen es =? 1)%N && (0 <? dlen (n_data k))%N).
  { inversion H; subst. destruct par; cbn in *. now rewrite Ed. }
  destruct (n_orig k) as [ok|]; [|discriminate].
  destruct (bsearch (map fst es) ok) as [[|] idx]; [|discriminate].
  match type of H with bind ?r _ = _ => destruct r as [[sibo s1]| |] end; cbn [bind] in H; try discriminate.
  inversion H; subst. destruct par; reflexivity.
Qed.

Definition RK_IH (f : nat) : Prop :=
  forall h d s z lo hi n l n' s',
    Inv h d z lo hi n -> is_leaf (n_data n) = false -> NodeView d h n l ->
    NoDup (npages h d n) -> NoDup (seqs n) -> Forall (fun x => (x < seqc s)%N) (seqs n) ->
    rebalance_kids f d n s = Ok (n', s') -> RKPost h d s lo hi n l n' s'.

Lemma rk_step : forall f h0 d s lo hi n l n0 s0 k k1 s1 n1 s1',
  RK_IH f ->
  Forall (fun x => (x < seqc s)%N) (seqs n) ->
  RKPost (S h0) d s lo hi n l n0 s0 -> is_leaf (n_data n0) = false ->
  In k (n_kids n0) ->
  (if is_leaf (n_data k) then Ok (k, s0) else rebalance_kids f d k s0) = Ok (k1, s1) ->
  try_merge d (set_kids n0 (replace_kid (n_kids n0) k1)) k1 s1 = Ok (n1, s1') ->
  RKPost (S h0) d s lo hi n l n1 s1' /\ is_leaf (n_data n1) = false.
Proof.
  intros f h0 d s lo hi n l n0 s0 k k1 s1 n1 s1' IH Hlt (HI & HV & P1 & P2 & P3 & P4 & Np & Ip & Ns & Is & Tx) Hlf Hkin Hk1 Hm.
  split; [|eapply try_merge_branch; [exact Hm|]; destruct n0; exact Hlf].
  destruct n0 as [p0 np0 og0 sq0 [l0|es0] ks0]; [discriminate|]. cbn [n_kids set_kids] in *.
  destruct (kid_facts _ _ _ _ _ _ _ _ _ _ _ _ HI Hkin HV Np Ns) as ((lk & Vk) & Npk & Nsk & Isk & (lo' & hi' & Ik)).
  assert (Hlt0 : forall y, In y (seqs (Node p0 np0 og0 sq0 (Branches es0) ks0)) -> (y < seqc s0)%N).
  { intros y Hy. destruct Tx as (_ & _ & _ & _ & _ & _ & Hle). rewrite Forall_forall in Hlt.
    destruct (Is y Hy) as [H | H]; [specialize (Hlt y H)|]; lia. }
  (* the rebalanced kid *)
  assert (Hk : n_page k1 = n_page k /\ n_orig k1 = n_orig k /\ n_seq k1 = n_seq k /\
               (forall lo' hi', Inv h0 d false lo' hi' k -> Inv h0 d true lo' hi' k1) /\
               (forall lk, NodeView d h0 k lk -> NodeView d h0 k1 lk) /\
               NoDup (npages h0 d k1) /\ incl (npages h0 d k1) (npages h0 d k) /\
               NoDup (seqs k1) /\ (forall x, In x (seqs k1) -> In x (seqs k) \/ (seqc s0 <= x < seqc s1)%N) /\
               tx_frame s0 s1).
  { destruct (is_leaf (n_data k)) eqn:Elf.
    - inversion Hk1; subst k1 s1. repeat (split; [reflexivity|]).
      split; [intros; eapply Inv_z_true; eauto|]. split; [auto|]. split; [exact Npk|].
      split; [apply incl_refl|]. split; [exact Nsk|]. split; [intros; now left | apply tx_frame_refl].
    - assert (Hltk : Forall (fun x => (x < seqc s0)%N) (seqs k)).
      { apply Forall_forall. intros y Hy. apply Hlt0. now apply Isk. }
      pose proof (IH h0 d s0 true lo' hi' k lk k1 s1 Ik Elf Vk Npk Nsk Hltk Hk1)
        as (_ & _ & Q1 & Q2 & Q3 & Q4 & Q5 & Q6 & Q7 & Q8 & Q9).
      repeat (split; [assumption|]).
      split; [|split; [|repeat (split; [assumption|]); assumption]].
      + intros lo2 hi2 I2. apply (IH h0 d s0 false lo2 hi2 k lk k1 s1 I2 Elf Vk Npk Nsk Hltk Hk1).
      + intros lk2 V2. pose proof (NodeView_det _ _ _ _ Vk _ _ V2) as <-.
        apply (IH h0 d s0 true lo' hi' k lk k1 s1 Ik Elf Vk Npk Nsk Hltk Hk1). }
  destruct Hk as (E1 & E2 & E3 & TI & TV & Np1 & Ip1 & Ns1 & Is1 & Tx1).
  destruct (kid_replaced h0 d lo hi p0 np0 og0 sq0 es0 ks0 k k1 l (fun x => (seqc s0 <= x < seqc s1)%N)
              HI Hkin HV Np Ns E1 E2 E3 TI TV Np1 Ip1 Ns1 Is1) as (R1 & R2 & R3 & R4 & R5 & R6 & R7).
  { intros y Hy Hf. specialize (Hlt0 y Hy). lia. }
  cbv zeta in *.
  assert (Hlt1 : Forall (fun x => (x < seqc s1)%N) (seqs (Node p0 np0 og0 sq0 (Branches es0) (replace_kid ks0 k1)))).
  { apply Forall_forall. intros y Hy. destruct Tx1 as (_ & _ & _ & _ & _ & _ & Hle).
    destruct (R7 y Hy) as [H | H]; [specialize (Hlt0 y H)|]; lia. }
  pose proof (try_merge_step h0 d s1 lo hi p0 np0 og0 sq0 es0 _ k1 l n1 s1' R1 R2 R3 R4 R6 Hlt1 Hm)
    as (T1 & T2 & T3 & T4 & T5 & T6 & T7 & T8 & T9 & T10 & T11).
  destruct (merge_tx_frame _ _ _ T11) as (Tx2 & _ & _).
  cbn [n_page n_np n_orig n_seq] in *.
  unfold RKPost. split; [exact T1|]. split; [exact T2|].
  split; [congruence|]. split; [congruence|]. split; [congruence|]. split; [congruence|].
  split; [exact T7|]. split; [eapply incl_tran; [exact T8|]; eapply incl_tran; [exact R5 | exact Ip]|].
  split; [exact T9|]. split; [|eapply tx_frame_trans; [exact Tx|]; eapply tx_frame_trans; eauto].
  intros x Hx. destruct Tx as (_ & _ & _ & _ & _ & _ & L0). destruct Tx1 as (_ & _ & _ & _ & _ & _ & L1).
  destruct Tx2 as (_ & _ & _ & _ & _ & _ & L2).
  destruct (T10 x Hx) as [H | H]; [|right; lia].
  destruct (R7 x H) as [H' | H']; [|right; lia].
  destruct (Is x H') as [H'' | H'']; [now left | right; lia].
Qed.

Theorem rebalance_kids_view : forall fuel, RK_IH fuel.
Proof.
  induction fuel as [|f IH]; intros h d s z lo hi n l n' s' HI Hlf HV Np Ns Hlt H; [discriminate|].
  cbn [rebalance_kids] in H.
  destruct (Inv_height _ _ _ _ _ _ HI) as [h0 ->].
  match type of H with fold_left ?F0 _ _ = _ => set (F := F0) in H end.
  pose (P := fun a : node * txs => RKPost (S h0) d s lo hi n l (fst a) (snd a) /\ is_leaf (n_data (fst a)) = false).
  assert (HP : P (n', s')).
  { apply (fold_left_res_inv F P (map n_seq (n_kids n)) (n, s) (n', s')); [| | |exact H].
    - intros x r Hr a. unfold F. destruct r as [a0| |]; cbn [bind]; [exfalso; eapply Hr; eauto | discriminate | discriminate].
    - intros x [n0 s0] [n1 s1] [HP0 Hlf0] E. unfold P in *. cbn [fst snd] in *. unfold F in E. cbn [bind] in E.
      destruct (find (fun k => N.eqb (n_seq k) x) (n_kids n0)) as [k|] eqn:Ef.
      + apply find_some in Ef. destruct Ef as [Hkin _].
        destruct (if is_leaf (n_data k) then Ok (k, s0) else rebalance_kids f d k s0) as [[k1 s1k]| |] eqn:Ek;
          cbn [bind] in E; try discriminate.
        eapply rk_step; eauto.
      + inversion E; subst. split; assumption.
    - unfold P. cbn [fst snd]. split; [|exact Hlf]. unfold RKPost.
      split; [eapply Inv_z_true; eauto|]. split; [exact HV|]. repeat (split; [reflexivity|]).
      split; [exact Np|]. split; [apply incl_refl|]. split; [exact Ns|].
      split; [intros; now left | apply tx_frame_refl]. }
  apply HP.
Qed.
(* ====================================================================== *)
(** * 16. [merge_nodes] *)

(* the invariant of an overlay root with its global side conditions *)
Definition RInv (h : nat) (d : disk) (s : txs) (z : bool) (n : node) : Prop :=
  Inv h d z None None n /\ NoDup (npages h d n) /\ NoDup (seqs n) /\ Forall (fun x => (x < seqc s)%N) (seqs n).

Definition BInv (h : nat) (d : disk) (s : txs) (b : bucket) : Prop :=
  match b_rootn b with
  | Some n => RInv h d s false n
  | None => PInv h d None None None (b_root_page b) /\ NoDup (ppages h d (b_root_page b))
  end.

Lemma BInv_wf : forall h d s b, BInv h d s b -> bucket_wf d b.
Proof.
  intros h d s b H. unfold BInv, bucket_wf in *. destruct (b_rootn b).
  - eapply Inv_wf_node. apply H.
  - eapply PInv_wf_page. apply H.
Qed.

Lemma PInv_dget : forall h d lo hi ok q, PInv h d lo hi ok q -> exists a, dget d q = Some a.
Proof. destruct h; intros d lo hi ok q H; [destruct H|]. cbn [PInv] in H. destruct H as (a & Hg & _). eauto. Qed.

Lemma ensure_root_RInv : forall h d s b l root s0, BInv h d s b -> BucketView d h b l ->
  ensure_root d b s = Ok (root, s0) ->
  RInv h d s0 false root /\ NodeView d h root l /\ tx_frame s s0.
Proof.
  intros h d s b l root s0 HB HV H. unfold ensure_root, BInv, BucketView in *. destruct (b_rootn b) as [n|].
  - inversion H; subst. split; [exact HB|]. split; [exact HV | apply tx_frame_refl].
  - destruct HB as [HP Hnp]. destruct (PInv_dget _ _ _ _ _ _ HP) as [a Ha]. rewrite Ha in H. cbn [next_seq] in H.
    inversion H; subst root s0. split; [|split; [now apply node_of_page_view | apply (tx_frame_bump s)]].
    unfold RInv. split; [eapply node_of_page_Inv; eauto|]. split; [now rewrite node_of_page_npages|].
    unfold node_of_page. cbn [seqs flat_map]. split; [repeat constructor; intros []|].
    repeat constructor. cbn. lia.
Qed.

Lemma Forall_lt_weaken : forall (l : list N) a b, (a <= b)%N -> Forall (fun x => (x < a)%N) l -> Forall (fun x => (x < b)%N) l.
Proof. intros l a b Hab H. eapply Forall_impl; [|exact H]. cbn. intros; lia. Qed.

(* the root after its children were rebalanced *)
Lemma root1_RInv : forall h d s0 root l root1 s1, RInv h d s0 false root -> NodeView d h root l ->
  (if is_leaf (n_data root) then Ok (root, s0) else rebalance_kids fuel0 d root s0) = Ok (root1, s1) ->
  RInv h d s1 true root1 /\ NodeView d h root1 l /\ tx_frame s0 s1.
Proof.
  intros h d s0 root l root1 s1 (HI & Hnp & Hsq & Hlt) HV H. destruct (is_leaf (n_data root)) eqn:Elf.
  - inversion H; subst. split; [|split; [exact HV | apply tx_frame_refl]].
    unfold RInv. split; [eapply Inv_z_true; eauto|]. auto.
  - pose proof (rebalance_kids_view fuel0 h d s0 false None None root l root1 s1 HI Elf HV Hnp Hsq Hlt H)
      as (R1 & R2 & _ & _ & _ & _ & R7 & _ & R9 & R10 & R11).
    split; [|split; assumption]. unfold RInv. repeat (split; [assumption|]).
    apply Forall_forall. intros x Hx. rewrite Forall_forall in Hlt. destruct R11 as (_ & _ & _ & _ & _ & _ & Hle).
    destruct (R10 x Hx) as [Hin | Hr]; [specialize (Hlt x Hin)|]; lia.
Qed.

Theorem merge_nodes_view : forall h d s b l b' s',
  BInv h d s b -> BucketView d h b l -> merge_nodes d b s = Ok (b', s') ->
  (exists h', h' <= h /\ BInv h' d s' b' /\ BucketView d h' b' l) /\
  bucket_wf d b' /\ b_next b' = b_next b /\ b_subs b' = b_subs b /\ b_dirty b' = b_dirty b /\ tx_frame s s'.
Proof.
  intros h d s b l b' s' HB HV H. unfold merge_nodes in H.
  destruct (ensure_root d b s) as [[root s0]| |] eqn:Er; cbn [bind] in H; try discriminate.
  destruct (ensure_root_RInv _ _ _ _ _ _ _ HB HV Er) as (HR & HVr & Tx0).
  destruct (if is_leaf (n_data root) then Ok (root, s0) else rebalance_kids fuel0 d root s0) as [[root1 s1]| |] eqn:E1;
    cbn [bind] in H; try discriminate.
  destruct (root1_RInv _ _ _ _ _ _ _ HR HVr E1) as ((HI & Hnp & Hsq & Hlt) & HV1 & Tx1).
  pose proof (tx_frame_trans _ _ _ Tx0 Tx1) as Tx.
  assert (Hwf : forall hh ss bb, BInv hh d ss bb -> b_next bb = b_next b -> b_subs bb = b_subs b -> b_dirty bb = b_dirty b ->
                  tx_frame s ss -> hh <= h -> BucketView d hh bb l ->
                  (exists h', h' <= h /\ BInv h' d ss bb /\ BucketView d h' bb l) /\
                  bucket_wf d bb /\ b_next bb = b_next b /\ b_subs bb = b_subs b /\ b_dirty bb = b_dirty b /\ tx_frame s ss).
  { intros hh ss bb Hbb A1 A2 A3 A4 A5 A6. split; [exists hh; auto|]. split; [eapply BInv_wf; eauto|]. auto. }
  destruct (Inv_height _ _ _ _ _ _ HI) as [h0 Eh]. subst h.
  destruct root1 as [p1 np1 og1 sq1 [l1|es1] ks1].
  - (* a leaf root stays *)
    assert (Ec : needs_merging s1 (Node p1 np1 og1 sq1 (Leaves l1) ks1) && negb (is_leaf (Leaves l1)) && (dlen (Leaves l1) =? 1)%N = false)
      by (cbn [is_leaf negb]; now rewrite andb_false_r).
    cbn [n_data] in H. rewrite Ec in H. cbn [is_leaf negb andb] in H. inversion H; subst b' s'.
    apply (Hwf (S h0)); try reflexivity; try assumption; try lia.
    unfold BInv, RInv. cbn [b_rootn]. split; [exact HI|]. auto.
  - cbn [n_data is_leaf negb dlen] in H. rewrite Inv_branch_eq in HI.
    destruct HI as (_ & Hs & Hnd & Hinb & Hlk & HC).
    destruct (needs_merging s1 (Node p1 np1 og1 sq1 (Branches es1) ks1) && true && (llen es1 =? 1)%N) eqn:Ec.
    + (* the root has a single child: the child becomes the root *)
      apply andb_true_iff in Ec. destruct Ec as [_ Ec]. apply N.eqb_eq in Ec.
      destruct es1 as [|[k0 q] [|e2 es2]]; try (unfold llen in Ec; cbn in Ec; lia). inversion H; subst b' s'. clear H.
      destruct (free_node_page_frame s1 (Node p1 np1 og1 sq1 (Branches [(k0, q)]) ks1)) as [Tx2 Esq].
      cbn [map fst cbounds cbs nxt lo0] in HC. inversion HC as [|? ? ? ? Cq _]; subst. unfold CInv in Cq. cbn [fst snd] in Cq.
      apply NodeView_branch_inv in HV1. destruct HV1 as (h1 & ls & Eh1 & -> & HF). inversion Eh1; subst h1.
      inversion HF as [|? l0 ? ? Vq HF']; subst. inversion HF'; subst. unfold ChildView in Vq. cbn [snd] in Vq.
      rewrite npages_branch_eq in Hnp. cbn [map flat_map snd app] in Hnp. rewrite app_nil_r in Hnp.
      apply NoDup_cons_iff in Hnp. destruct Hnp as [_ Hnp]. unfold cpages in Hnp.
      apply (Hwf h0); try reflexivity; try (eapply tx_frame_trans; eassumption); try lia.
      * unfold BInv, RInv. cbn [b_rootn b_root_page]. destruct (find_kid q ks1) as [kd|] eqn:Ef.
        -- destruct (find_kid_In _ _ _ Ef) as [Hkdin _]. split; [exact Cq|]. split; [exact Hnp|].
           cbn [seqs] in Hsq, Hlt. apply NoDup_cons_iff in Hsq. destruct Hsq as [_ Hsq].
           destruct (in_split _ _ Hkdin) as (a & b0 & ->). rewrite flat_map_app in Hsq, Hlt. cbn [flat_map] in Hsq, Hlt.
           split; [eapply NoDup_app_l; eapply NoDup_app_r; exact Hsq|].
           rewrite Esq. inversion Hlt as [|? ? _ Hlt']; subst. apply Forall_app in Hlt'. destruct Hlt' as [_ Hlt'].
           apply Forall_app in Hlt'. apply Hlt'.
        -- split; [eapply PInv_okey_none; exact Cq | exact Hnp].
      * unfold BucketView. cbn [b_rootn b_root_page concat]. rewrite ?app_nil_r. exact Vq.
    + destruct (llen es1 =? 0)%N eqn:E0; cbn [andb] in H; inversion H; subst b' s'; clear H.
      * (* every child was removed: an empty leaf *)
        destruct es1 as [|e1 es1]; [|unfold llen in E0; cbn in E0; lia].
        assert (ks1 = []).
        { destruct Hlk as [_ LF]. destruct ks1 as [|x ks1]; [reflexivity|]. inversion LF as [|? ? (key & [] & _) _]. }
        subst ks1. apply NodeView_branch_inv in HV1. destruct HV1 as (h1 & ls & _ & -> & HF). inversion HF; subst.
        apply (Hwf (S h0)); try reflexivity; try assumption; try lia.
        -- unfold BInv, RInv. cbn [b_rootn set_data]. split; [rewrite Inv_leaf_eq; split; [reflexivity | constructor]|].
           split; [constructor|]. split; assumption.
        -- unfold BucketView. cbn [b_rootn set_data concat]. apply NV_leaf.
      * apply (Hwf (S h0)); try reflexivity; try assumption; try lia.
        unfold BInv, RInv. cbn [b_rootn]. split; [|auto]. rewrite Inv_branch_eq.
        split; [intros _ ->; unfold llen in E0; cbn in E0; lia|]. auto.
Qed.
Corollary merge_nodes_bucket_view : forall h d s b l b' s',
  BInv h d s b -> BucketView d h b l -> h <= fuel0 -> merge_nodes d b s = Ok (b', s') ->
  bucket_view d b' l /\ bucket_wf d b' /\ b_next b' = b_next b /\ b_subs b' = b_subs b /\
  free s' = free s /\ np s' = np s /\ wr s' = wr s.
Proof.
  intros h d s b l b' s' HB HV Hh H.
  destruct (merge_nodes_view _ _ _ _ _ _ _ HB HV H) as ((h' & Hle & _ & HV') & Hwf & E1 & E2 & _ & (F1 & _ & F3 & _ & F5 & _)).
  split; [exists h'; split; [lia | exact HV']|]. repeat (split; [assumption|]). assumption.
Qed.

(* ====================================================================== *)
(** * 17. A concrete instance: the hypotheses are satisfiable and a merge really happens *)

Module Example.
Local Open Scope N_scope.
Definition kB : bytes := ["b"%byte]. Definition kC : bytes := ["c"%byte]. Definition kD : bytes := ["d"%byte].
Definition kE : bytes := ["e"%byte]. Definition kF : bytes := ["f"%byte]. Definition kG : bytes := ["g"%byte].
Definition ex_es : list (bytes * N) := [(kB, 11); (kD, 12); (kF, 13)].
(* a committed two-level tree: every separator is the first key of its child page *)
Definition ex_disk : disk :=
  [ (10, {| ap_over := 0; ap_body := Branches ex_es |});
    (11, {| ap_over := 0; ap_body := Leaves [LKv kB [x01]; LKv kC [x02]] |});
    (12, {| ap_over := 0; ap_body := Leaves [LKv kD [x03]; LKv kE [x04]] |});
    (13, {| ap_over := 0; ap_body := Leaves [LKv kF [x05]; LKv kG [x06]] |}) ].
(* the overlay after "e" was deleted: leaf 12 is materialised and holds a single entry *)
Definition ex_kid : node := Node 12 1 (Some kD) 2 (Leaves [LKv kD [x03]]) [].
Definition ex_root : node := Node 10 1 (Some kB) 1 (Branches ex_es) [ex_kid].
Definition ex_view : list leafent := [LKv kB [x01]; LKv kC [x02]; LKv kD [x03]; LKv kF [x05]; LKv kG [x06]].
Definition ex_s : txs :=
  {| free := []; pending := []; txid := 5; np := 20; psz := 4096; wr := []; flw := None; seqc := 3 |}.

Ltac solve_inb := cbn [map fst lkey]; repeat match goal with
  | |- Forall _ [] => constructor
  | |- Forall _ (_ :: _) => constructor
  | |- inb _ _ _ => split; cbn; try exact I; try discriminate; try reflexivity
  end.
Ltac solve_nodup := repeat constructor; cbn; intuition (try discriminate; try lia).

Example ex_Inv : Inv 2 ex_disk false None None ex_root.
Proof.
  unfold ex_root, ex_es. rewrite Inv_branch_eq. split; [discriminate|]. split; [reflexivity|].
  split; [solve_nodup|]. split; [solve_inb|]. split.
  - split; [solve_nodup|]. repeat constructor. exists kD. split; [cbn; tauto | reflexivity].
  - cbn [map fst cbounds cbs nxt lo0].
    apply Forall2_cons; [|apply Forall2_cons; [|apply Forall2_cons; [|apply Forall2_nil]]];
      unfold CInv; cbn [snd fst find_kid find n_page ex_kid].
    + change (12 =? 11) with false. cbn [PInv]. eexists. split; [reflexivity|]. split; [reflexivity|]. cbn [ap_body].
      split; [reflexivity | solve_inb].
    + change (12 =? 12) with true. unfold ex_kid. cbn [Inv]. split; [reflexivity | solve_inb].
    + change (12 =? 13) with false. cbn [PInv]. eexists. split; [reflexivity|]. split; [reflexivity|]. cbn [ap_body].
      split; [reflexivity | solve_inb].
Qed.

Example ex_NodeView : NodeView ex_disk 2 ex_root ex_view.
Proof.
  change ex_view with (concat [[LKv kB [x01]; LKv kC [x02]]; [LKv kD [x03]]; [LKv kF [x05]; LKv kG [x06]]]).
  unfold ex_root, ex_es. apply NodeView_branch_intro.
  apply Forall2_cons; [|apply Forall2_cons; [|apply Forall2_cons; [|apply Forall2_nil]]];
    unfold ChildView; cbn [snd find_kid find n_page ex_kid].
  - change (12 =? 11) with false. cbv iota. eapply PV_leaf; reflexivity.
  - change (12 =? 12) with true. cbv iota. apply NV_leaf.
  - change (12 =? 13) with false. cbv iota. eapply PV_leaf; reflexivity.
Qed.

Example ex_side : NoDup (npages 2 ex_disk ex_root) /\ NoDup (seqs ex_root) /\
                  Forall (fun x => (x < seqc ex_s)%N) (seqs ex_root).
Proof.
  split; [vm_compute; solve_nodup|]. split; [vm_compute; solve_nodup|].
  vm_compute. repeat constructor.
Qed.

(* the single-entry leaf 12 is merged into its left sibling, which is read in from page 11 (fresh sequence
   number 3); the entry for 12 disappears, page 12 is handed back *)
Definition ex_root' : node :=
  Node 10 1 (Some kB) 1 (Branches [(kB, 11); (kF, 13)])
       [Node 11 1 (Some kB) 3 (Leaves [LKv kB [x01]; LKv kC [x02]; LKv kD [x03]]) []].
Definition ex_s' : txs :=
  {| free := []; pending := [(5, [12])]; txid := 5; np := 20; psz := 4096; wr := []; flw := None; seqc := 4 |}.

Example ex_try_merge : try_merge ex_disk ex_root ex_kid ex_s = Ok (ex_root', ex_s').
Proof. vm_compute. reflexivity. Qed.

Example ex_try_merge_view : NodeView ex_disk 2 ex_root' ex_view /\ wf_node ex_disk ex_root'.
Proof.
  destruct ex_side as (H1 & H2 & H3).
  pose proof (try_merge_view 1 ex_disk ex_s false None None ex_root ex_es ex_kid ex_view ex_root' ex_s'
                ex_Inv eq_refl (or_introl eq_refl) ex_NodeView H1 H2 H3 ex_try_merge) as HP.
  destruct (Post_facts _ _ _ _ _ _ _ _ _ _ HP) as (V & W & _). split; [exact V|]. apply W. discriminate.
Qed.

Definition ex_bucket : bucket := Bucket 10 7 true (Some ex_root) [].
Example ex_merge_nodes : merge_nodes ex_disk ex_bucket ex_s = Ok (Bucket 10 7 true (Some ex_root') [], ex_s').
Proof. vm_compute. reflexivity. Qed.

Example ex_merge_nodes_view : bucket_view ex_disk (Bucket 10 7 true (Some ex_root') []) ex_view.
Proof.
  destruct ex_side as (H1 & H2 & H3).
  eapply (merge_nodes_bucket_view 2 ex_disk ex_s ex_bucket ex_view); [| |unfold fuel0; lia|exact ex_merge_nodes].
  - unfold BInv, RInv. cbn [b_rootn ex_bucket]. split; [exact ex_Inv|]. split; [exact H1|]. split; [exact H2 | exact H3].
  - exact ex_NodeView.
Qed.
End Example.
(* ====================================================================== *)
(** * 18. [modify] preserves the invariant (in its EXACT form: before any merge) *)

(* Before rebalance, a non-leftmost overlay branch node still starts with the separator it is filed under
   (its entries are those of its page). [modify] needs this to route a key >= lo correctly into child 0; it is
   the one ingredient that [try_merge] does not preserve (after child 0 was dropped) -- and no longer needs. *)
Fixpoint Exact (h : nat) (lo : option bytes) (n : node) : Prop :=
  match h with O => True | S h' =>
    match n with
    | Node _ _ _ _ (Leaves _) _ => True
    | Node _ _ _ _ (Branches es) ks =>
        (forall b, lo = Some b -> exists e rest, es = e :: rest /\ fst e = b) /\
        Forall2 (fun e b => match find_kid (snd e) ks with Some kd => Exact h' (fst b) kd | None => True end)
                es (cbounds lo (map fst es) None)
    end end.

Lemma Exact_branch_eq : forall h lo p np o s es ks,
  Exact (S h) lo (Node p np o s (Branches es) ks) =
  ((forall b, lo = Some b -> exists e rest, es = e :: rest /\ fst e = b) /\
   Forall2 (fun e b => match find_kid (snd e) ks with Some kd => Exact h (fst b) kd | None => True end)
           es (cbounds lo (map fst es) None)).
Proof. reflexivity. Qed.

Lemma cbs_fst_hi : forall seps f hi hi', map fst (cbs f seps hi) = map fst (cbs f seps hi').
Proof. induction seps as [|s r IH]; intros f hi hi'; cbn [cbs map fst]; [reflexivity|]. f_equal. apply IH. Qed.

Lemma cbs_nth_first : forall seps f hi b, nth_error (cbs f seps hi) 0 = Some b -> fst b = f (nth 0 seps []).
Proof. intros [|s r] f hi b H; cbn in H; [discriminate|]. inversion H; subst. reflexivity. Qed.

Lemma cbs_nth_last : forall seps f hi j b, nth_error (cbs f seps hi) j = Some b -> S j = length seps -> snd b = hi.
Proof.
  induction seps as [|s r IH]; intros f hi j b H Hl; [destruct j; discriminate|].
  destruct j as [|j]; cbn [cbs nth_error] in H.
  - inversion H; subst b. cbn [length] in Hl. destruct r; [reflexivity | cbn in Hl; lia].
  - cbn [length] in Hl. eapply IH; eauto.
Qed.

Lemma node_of_page_Exact : forall h d lo hi ok q a sq, dget d q = Some a -> PInv h d lo hi ok q ->
  (forall b, lo = Some b -> ok = Some b) -> Exact h lo (node_of_page q a sq).
Proof.
  destruct h as [|h]; intros d lo hi ok q a sq Hg HP Hlo; [exact I|]. cbn [PInv] in HP.
  destruct HP as (a' & Hg' & Hok & Hb). rewrite Hg in Hg'. inversion Hg'; subst a'.
  unfold node_of_page. destruct (ap_body a) as [l|es]; [exact I|]. rewrite Exact_branch_eq. split.
  - intros b Eb. rewrite (Hlo b Eb) in Hok. cbn [okey_ok] in Hok.
    destruct es as [|e es]; cbn in Hok; [discriminate|]. inversion Hok. eauto.
  - apply Forall2_of_nth_error; [unfold cbounds; now rewrite cbs_length, map_length|].
    intros j x y _ _. rewrite find_kid_nil. exact I.
Qed.

Lemma Forall2_impl_nth : forall {A B} (P P' : A -> B -> Prop) xs ys, Forall2 P xs ys ->
  (forall j x y, nth_error xs j = Some x -> nth_error ys j = Some y -> P x y -> P' x y) -> Forall2 P' xs ys.
Proof.
  intros A B P P' xs ys HF H. apply Forall2_of_nth_error; [eapply Forall2_length; eauto|].
  intros j x y Hx Hy. apply (H j x y Hx Hy). eapply Forall2_nth_error; eauto.
Qed.

(* the key is routed into a child whose interval contains it *)
Lemma route_inb : forall lo hi es key i ex b,
  sorted_keys (map fst es) = true -> es <> [] -> NoDup (map snd es) -> inb lo hi key ->
  (forall b0, lo = Some b0 -> exists e rest, es = e :: rest /\ fst e = b0) ->
  index_of (Branches es) key = (i, ex) ->
  nth_error (cbounds lo (map fst es) hi) (N.to_nat i) = Some b ->
  inb (fst b) (snd b) key.
Proof.
  intros lo hi es key i ex b Hs Hne Hnd [Hlo Hhi] Hex Hi Hb.
  destruct (index_of_branch es key i ex (conj Hne (conj Hs Hnd)) Hi) as (Hlen & Hbelow & Habove).
  destruct (cbs_nth _ _ _ _ _ Hb) as [B1 B2]. split.
  - destruct (N.to_nat i) as [|j] eqn:Ej.
    + rewrite (cbs_nth_first _ _ _ _ Hb). destruct lo as [b0|]; cbn [lo0 le_lo]; [|exact I].
      destruct (Hex b0 eq_refl) as (e & rest & -> & Ee). cbn [map nth]. rewrite Ee. exact Hlo.
    + rewrite B1 by lia. cbn [le_lo]. apply Hbelow; lia.
  - destruct (Nat.eq_dec (S (N.to_nat i)) (length es)) as [El | Nl].
    + rewrite (cbs_nth_last _ _ _ _ _ Hb); [exact Hhi | now rewrite map_length].
    + rewrite B2 by (rewrite map_length; lia). cbn [lt_hi]. apply SearchFacts.bcmp_lt_gt. apply Habove; lia.
Qed.

Lemma children_upd : forall h d es bs ks ks' q kd' i sep b,
  Forall2 (CInv h d ks) es bs -> kids_upd ks ks' q kd' -> NoDup (map snd es) ->
  nth_error es i = Some (sep, q) -> nth_error bs i = Some b -> Inv h d false (fst b) (snd b) kd' ->
  Forall2 (CInv h d ks') es bs.
Proof.
  intros h d es bs ks ks' q kd' i sep b HC [U1 U2] Hnd Hi Hb HI.
  eapply Forall2_impl_nth; [exact HC|]. intros j e bb Hj Hbj H. unfold CInv in *.
  destruct (N.eq_dec (snd e) q) as [E | NE].
  - assert (j = i) by (eapply (NoDup_map_nth_error snd); eauto). subst j.
    rewrite Hb in Hbj. inversion Hbj; subst bb. rewrite E, U1. exact HI.
  - now rewrite (U2 _ NE).
Qed.

Lemma exact_upd : forall h (es : list (bytes * N)) (bs : list (option bytes * option bytes)) ks ks' q kd' i sep b,
  Forall2 (fun e b => match find_kid (snd e) ks with Some kd => Exact h (fst b) kd | None => True end) es bs ->
  kids_upd ks ks' q kd' -> NoDup (map snd es) ->
  nth_error es i = Some (sep, q) -> nth_error bs i = Some b -> Exact h (fst b) kd' ->
  Forall2 (fun e b => match find_kid (snd e) ks' with Some kd => Exact h (fst b) kd | None => True end) es bs.
Proof.
  intros h es bs ks ks' q kd' i sep b HC [U1 U2] Hnd Hi Hb HI.
  eapply Forall2_impl_nth; [exact HC|]. cbn beta. intros j e bb Hj Hbj H.
  destruct (N.eq_dec (snd e) q) as [E | NE].
  - assert (j = i) by (eapply (NoDup_map_nth_error snd); eauto). subst j.
    rewrite Hb in Hbj. inversion Hbj; subst bb. rewrite E, U1. exact HI.
  - now rewrite (U2 _ NE).
Qed.

Lemma npages_upd : forall h d p np o s es ks ks',
  (forall e, In e es -> cpages h d ks' (snd e) = cpages h d ks (snd e)) ->
  npages (S h) d (Node p np o s (Branches es) ks') = npages (S h) d (Node p np o s (Branches es) ks).
Proof. intros. rewrite !npages_branch_eq. f_equal. now apply flat_map_ext_in. Qed.

Definition ModPost (h : nat) (d : disk) (s : txs) (z : bool) (lo hi : option bytes) (n n' : node) (s' : txs) : Prop :=
  Inv h d z lo hi n' /\ Exact h lo n' /\
  n_page n' = n_page n /\ n_np n' = n_np n /\ n_orig n' = n_orig n /\ n_seq n' = n_seq n /\
  npages h d n' = npages h d n /\
  NoDup (seqs n') /\ (forall x, In x (seqs n') -> In x (seqs n) \/ (seqc s <= x < seqc s')%N) /\
  same_but_seqc s s'.

Lemma cbounds_fst_nth : forall lo seps hi hi' j b b', nth_error (cbounds lo seps hi) j = Some b ->
  nth_error (cbounds lo seps hi') j = Some b' -> fst b' = fst b.
Proof.
  intros lo seps hi hi' j b b' H H'. unfold cbounds in *.
  pose proof (cbs_fst_hi seps (lo0 lo) hi hi') as E.
  apply (map_nth_error fst) in H, H'. rewrite E in H. congruence.
Qed.

Theorem modify_Inv : forall fuel h d s z lo hi n o n' s',
  Inv h d z lo hi n -> Exact h lo n -> inb lo hi (lop_key o) ->
  NoDup (seqs n) -> Forall (fun x => (x < seqc s)%N) (seqs n) ->
  modify fuel d n o s = Ok (n', s') -> ModPost h d s z lo hi n n' s'.
Proof.
  induction fuel as [|f IH]; intros h d s z lo hi n o n' s' HI HX Hk Hsq Hlt H; [discriminate|].
  destruct (Inv_height _ _ _ _ _ _ HI) as [h0 ->].
  destruct n as [p np og sq [l|es] ks].
  - (* leaf *)
    cbn [modify] in H. inversion H; subst n' s'. rewrite Inv_leaf_eq in HI. destruct HI as [Hs Hf].
    unfold ModPost. split.
    { rewrite Inv_leaf_eq. split; [now apply apply_lop_sorted|]. apply Forall_forall. intros x Hx.
      apply in_map_iff in Hx. destruct Hx as (y & <- & Hy). apply apply_lop_In in Hy. destruct Hy as [Hy | Hy].
      - rewrite Forall_forall in Hf. apply Hf. now apply in_map.
      - now rewrite Hy. }
    split; [exact I|]. repeat (split; [reflexivity|]). split; [exact Hsq|].
    split; [intros; now left | apply same_but_seqc_refl].
  - (* branch *)
    rewrite modify_branch in H. destruct (index_of (Branches es) (lop_key o)) as [i ex] eqn:Ei.
    destruct (nthN es i) as [[sep q]|] eqn:En; [|discriminate]. unfold nthN in En.
    rewrite Inv_branch_eq in HI. destruct HI as (Hne & Hs & Hnd & Hinb & [Lnd LF] & HC).
    rewrite Exact_branch_eq in HX. destruct HX as (X1 & XC).
    assert (Hne' : es <> []) by (intros ->; destruct (N.to_nat i); discriminate).
    destruct (Forall2_nth_error_l _ _ _ _ _ HC En) as (b & Hb & Cb).
    destruct (Forall2_nth_error_l _ _ _ _ _ XC En) as (bx & Hbx & Xb).
    pose proof (cbounds_fst_nth _ _ _ _ _ _ _ Hb Hbx) as Ebx.
    pose proof (route_inb lo hi es (lop_key o) i ex b Hs Hne' Hnd Hk X1 Ei Hb) as Hkb.
    unfold CInv in Cb. cbn [snd fst] in Cb, Xb.
    assert (Hin_e : In (sep, q) es) by (eapply nth_error_In; eauto).
    cbn [seqs] in Hsq, Hlt. apply NoDup_cons_iff in Hsq. destruct Hsq as [Hsq0 Hsq]. inversion Hlt as [|? ? Hlt0 Hlt']; subst.
    destruct (find_kid q ks) as [kd|] eqn:Ef.
    + (* the child is already materialised *)
      destruct (modify f d kd o s) as [[kd' s1]| |] eqn:Em; cbn [bind fst snd] in H; try discriminate.
      inversion H; subst n' s'. clear H.
      destruct (find_kid_split _ _ _ Ef) as (a & b0 & Eks & Epq & Ha).
      assert (Hsqk : NoDup (seqs kd)).
      { rewrite Eks, flat_map_app in Hsq. cbn [flat_map] in Hsq. eapply NoDup_app_l. eapply NoDup_app_r. exact Hsq. }
      assert (Hltk : Forall (fun x => (x < seqc s)%N) (seqs kd)).
      { rewrite Eks, flat_map_app in Hlt'. cbn [flat_map] in Hlt'. apply Forall_app in Hlt'. destruct Hlt' as [_ Hlt'].
        apply Forall_app in Hlt'. apply Hlt'. }
      rewrite Ebx in Xb.
      destruct (IH h0 d s false (fst b) (snd b) kd o kd' s1 Cb Xb Hkb Hsqk Hltk Em)
        as (I1 & X1' & P1 & P2 & P3 & P4 & P5 & P6 & P7 & P8).
      pose proof (replace_kid_upd ks q kd kd' Ef ltac:(congruence)) as HU.
      assert (Eks' : replace_kid ks kd' = a ++ kd' :: b0).
      { rewrite Eks. apply replace_kid_hit; [congruence|]. intros y Hy. rewrite P1, Epq. now apply Ha. }
      unfold ModPost. cbn [n_page n_np n_orig n_seq].
      split; [|split; [|repeat (split; [reflexivity|]); split; [|split; [|split; [|exact P8]]]]].
      * rewrite Inv_branch_eq. repeat (split; [assumption|]). split; [|exact (children_upd _ _ _ _ _ _ _ _ _ _ _ HC HU Hnd En Hb I1)].
        split.
        -- rewrite Eks', map_app. cbn [map]. rewrite P1. rewrite Eks, map_app in Lnd. exact Lnd.
        -- apply Forall_forall. rewrite Forall_forall in LF. intros x Hx. rewrite Eks' in Hx. apply in_app_or in Hx.
           destruct Hx as [Hx | [<- | Hx]].
           ++ apply LF. rewrite Eks. apply in_or_app. now left.
           ++ rewrite P1, P3. apply LF. rewrite Eks. apply in_or_app. right. now left.
           ++ apply LF. rewrite Eks. apply in_or_app. right. now right.
      * rewrite Exact_branch_eq. split; [exact X1|]. refine (exact_upd _ _ _ _ _ _ _ _ _ _ XC HU Hnd En Hbx _). now rewrite Ebx.
      * apply npages_upd. intros e He. unfold cpages. destruct HU as [U1 U2].
        destruct (N.eq_dec (snd e) q) as [E | NE]; [rewrite E, U1, Ef; exact P5 | now rewrite (U2 _ NE)].
      * cbn [seqs]. rewrite Eks'. rewrite Eks in Hsq, Hsq0, Hlt'. rewrite !flat_map_app in *. cbn [flat_map] in *.
        rewrite app_comm_cons. eapply (NoDup_replace_mid _ (seqs kd) _ _ (fun x => (seqc s <= x < seqc s1)%N)).
        -- cbn [app]. constructor; assumption.
        -- exact P6.
        -- exact P7.
        -- intros y Hy Hfr. cbn [app] in Hy. destruct Hy as [<- | Hy]; [lia|].
           rewrite Forall_forall in Hlt'. specialize (Hlt' y Hy). lia.
      * cbn [seqs]. rewrite Eks', Eks. rewrite !flat_map_app. cbn [flat_map].
        intros x [Hx | Hx]; [left; now left|]. rewrite !in_app_iff in Hx. destruct Hx as [Hx | [Hx | Hx]].
        -- left. right. rewrite !in_app_iff. tauto.
        -- destruct (P7 x Hx) as [Hx' | Hx']; [left; right; rewrite !in_app_iff; tauto | now right].
        -- left. right. rewrite !in_app_iff. tauto.
    + (* the child is read in from its page *)
      destruct (dget d q) as [a|] eqn:Eg; [|discriminate].
      destruct (modify f d (node_of_page q a (seqc s)) o (snd (next_seq s))) as [[kd' s1]| |] eqn:Em;
        cbn [bind fst snd] in H; try discriminate.
      inversion H; subst n' s'. clear H. fold (bump s) in Em.
      assert (Hlob : forall b0, fst b = Some b0 -> Some sep = Some b0).
      { intros b0 E0. destruct (N.to_nat i) as [|j] eqn:Ej.
        - rewrite (cbs_nth_first _ _ _ _ Hb) in E0. destruct es as [|e0 es0]; [discriminate|]. cbn [nth_error] in En.
          inversion En; subst e0. cbn [map fst nth] in E0. destruct lo; cbn [lo0] in E0; congruence.
        - destruct (cbs_nth _ _ _ _ _ Hb) as [B1 _]. rewrite B1 in E0 by lia. inversion E0 as [E0'].
          pose proof (map_nth_error fst _ _ En) as En'. cbn [fst] in En'. f_equal. try rewrite <- E0'. symmetry. exact (nth_error_nth _ _ [] En'). }
      pose proof (node_of_page_Inv _ _ _ _ _ _ _ (seqc s) Eg Cb) as I0.
      pose proof (node_of_page_Exact _ _ _ _ _ _ _ (seqc s) Eg Cb Hlob) as X0.
      assert (Hsq0' : NoDup (seqs (node_of_page q a (seqc s)))) by (unfold node_of_page; cbn; repeat constructor; intros []).
      assert (Hlt0' : Forall (fun x => (x < seqc (bump s))%N) (seqs (node_of_page q a (seqc s)))).
      { unfold node_of_page. cbn [seqs flat_map]. repeat constructor. rewrite seqc_bump. lia. }
      destruct (IH h0 d (bump s) false (fst b) (snd b) _ o kd' s1 I0 X0 Hkb Hsq0' Hlt0' Em)
        as (I1 & X1' & P1 & P2 & P3 & P4 & P5 & P6 & P7 & P8).
      rewrite (node_of_page_orig _ _ _ _ _ _ _ (seqc s) Eg Cb) in P3. cbn [n_page node_of_page] in P1.
      pose proof (app_kid_upd ks q kd' Ef P1) as HU.
      assert (Hs1 : (seqc s + 1 <= seqc s1)%N) by (destruct P8 as (_ & _ & _ & _ & _ & _ & _ & Hle); rewrite seqc_bump in Hle; exact Hle).
      assert (Hfresh : forall x, In x (seqs kd') -> (seqc s <= x < seqc s1)%N).
      { intros x Hx. destruct (P7 x Hx) as [Hx' | Hx'].
        - unfold node_of_page in Hx'. cbn [seqs flat_map] in Hx'. destruct Hx' as [<- | []]. lia.
        - rewrite seqc_bump in Hx'. lia. }
      unfold ModPost. cbn [n_page n_np n_orig n_seq].
      split; [|split; [|repeat (split; [reflexivity|]); split; [|split; [|split]]]].
      * rewrite Inv_branch_eq. repeat (split; [assumption|]). split; [|exact (children_upd _ _ _ _ _ _ _ _ _ _ _ HC HU Hnd En Hb I1)].
        split.
        -- rewrite map_app. cbn [map]. apply NoDup_app_intro; [exact Lnd | repeat constructor; intros [] |].
           intros x Hx [<- | []]. apply in_map_iff in Hx. destruct Hx as (y & Hy & Hy').
           apply (find_kid_None _ _ Ef y Hy'). congruence.
        -- apply Forall_app. split; [exact LF|]. repeat constructor. exists sep. rewrite P1. split; [exact Hin_e|].
           exact P3.
      * rewrite Exact_branch_eq. split; [exact X1|]. refine (exact_upd _ _ _ _ _ _ _ _ _ _ XC HU Hnd En Hbx _). now rewrite Ebx.
      * apply npages_upd. intros e He. unfold cpages. destruct HU as [U1 U2].
        destruct (N.eq_dec (snd e) q) as [E | NE]; [|now rewrite (U2 _ NE)].
        rewrite E, U1, Ef, P5. now apply node_of_page_npages.
      * cbn [seqs]. rewrite flat_map_app. cbn [flat_map]. rewrite app_nil_r. rewrite app_comm_cons.
        apply NoDup_app_intro; [constructor; assumption | exact P6 |].
        intros x Hx Hx'. specialize (Hfresh x Hx'). destruct Hx as [<- | Hx]; [lia|].
        rewrite Forall_forall in Hlt'. specialize (Hlt' x Hx). lia.
      * cbn [seqs]. rewrite flat_map_app. cbn [flat_map]. rewrite app_nil_r.
        intros x [Hx | Hx]; [left; now left|]. apply in_app_or in Hx. destruct Hx as [Hx | Hx]; [left; now right|].
        right. apply Hfresh. exact Hx.
      * apply (same_but_seqc_trans s (bump s) s1); [apply same_but_seqc_next | exact P8].
Qed.

(* buckets: [b_modify] (hence [b_put] / [b_delete]) keeps the invariant, in its exact form *)
Definition BExact (h : nat) (b : bucket) : Prop :=
  match b_rootn b with Some n => Exact h None n | None => True end.

Lemma ensure_root_exact : forall h d s b root s0,
  BInv h d s b -> BExact h b -> ensure_root d b s = Ok (root, s0) ->
  RInv h d s0 false root /\ Exact h None root /\ same_but_seqc s s0.
Proof.
  intros h d s b root s0 HB HX Er.
  unfold ensure_root, BInv, BExact in *. destruct (b_rootn b) as [n|].
  - inversion Er; subst. split; [exact HB|]. split; [exact HX | apply same_but_seqc_refl].
  - destruct HB as [HP Hnp]. destruct (PInv_dget _ _ _ _ _ _ HP) as [a Ha]. rewrite Ha in Er. cbn [next_seq] in Er.
    inversion Er; subst root s0. split; [|split; [|apply (same_but_seqc_next s)]].
    + unfold RInv. split; [eapply node_of_page_Inv; eauto|]. split; [now rewrite node_of_page_npages|].
      unfold node_of_page. cbn [seqs flat_map]. split; [repeat constructor; intros []|]. repeat constructor.
      cbn [seqc]. lia.
    + apply (node_of_page_Exact h d None None None _ a (seqc s) Ha HP). intros; discriminate.
Qed.

Lemma bind_ok_inv : forall {A B} (r : res A) (f : A -> res B) y, bind r f = Ok y -> exists x, r = Ok x /\ f x = Ok y.
Proof. intros A B [x| |] f y H; cbn [bind] in H; try discriminate. eauto. Qed.

Theorem b_modify_BInv : forall h d s b o b' s',
  BInv h d s b -> BExact h b -> b_modify d b o s = Ok (b', s') ->
  BInv h d s' b' /\ BExact h b' /\ same_but_seqc s s'.
Proof.
  intros h d s b o b' s' HB HX H. unfold b_modify in H.
  apply bind_ok_inv in H. destruct H as ([root s0] & Er & H).
  apply bind_ok_inv in H. destruct H as ([n' s1] & Em & H).
  inversion H; subst b' s'. clear H.
  destruct (ensure_root_exact _ _ _ _ _ _ HB HX Er) as ((HI & Hnp & Hsq & Hlt) & HXr & S0).
  destruct (modify_Inv fuel0 h d s0 false None None root o n' s1 HI HXr (conj I I) Hsq Hlt Em)
    as (I1 & X1 & _ & _ & _ & _ & P5 & P6 & P7 & P8).
  unfold BInv, BExact, RInv. cbn [b_rootn]. split; [|split; [exact X1 | eapply same_but_seqc_trans; eauto]].
  split; [exact I1|]. split; [now rewrite P5|]. split; [exact P6|].
  apply Forall_forall. intros x Hx. rewrite Forall_forall in Hlt. destruct P8 as (_ & _ & _ & _ & _ & _ & _ & Hle).
  destruct (P7 x Hx) as [Hin | Hr]; [specialize (Hlt x Hin)|]; lia.
Qed.
(* ====================================================================== *)
(** * 19. [rebalance]: the whole bucket tree *)

(* a bucket with content l, height <= fuel0, satisfying the invariant *)
Definition BGood (d : disk) (s : txs) (b : bucket) (l : list leafent) : Prop :=
  exists h, h <= fuel0 /\ BInv h d s b /\ BucketView d h b l.

(* what a transaction sees of a bucket tree: the entries of the bucket, and the same for every OPENED sub-bucket *)
Inductive bview := BV (l : list leafent) (subs : list (bytes * bview)).

Fixpoint Deep (f : nat) (d : disk) (s : txs) (b : bucket) (v : bview) : Prop :=
  match f with O => False | S f' =>
    match v with BV l vs =>
      BGood d s b l /\ Forall2 (fun x y => fst x = fst y /\ Deep f' d s (snd x) (snd y)) (b_subs b) vs
    end end.

Lemma BInv_seqc_mono : forall h d s s' b, (seqc s <= seqc s')%N -> BInv h d s b -> BInv h d s' b.
Proof.
  intros h d s s' b Hle H. unfold BInv, RInv in *. destruct (b_rootn b); [|exact H].
  destruct H as (H1 & H2 & H3 & H4). repeat (split; [assumption|]). eapply Forall_lt_weaken; eauto.
Qed.

Lemma BGood_seqc_mono : forall d s s' b l, (seqc s <= seqc s')%N -> BGood d s b l -> BGood d s' b l.
Proof. intros d s s' b l Hle (h & H1 & H2 & H3). exists h. split; [exact H1|]. split; [eapply BInv_seqc_mono; eauto | exact H3]. Qed.

Lemma Deep_seqc_mono : forall f d s s' b v, (seqc s <= seqc s')%N -> Deep f d s b v -> Deep f d s' b v.
Proof.
  induction f as [|f IH]; intros d s s' b v Hle H; [exact H|]. destruct v as [l vs]. cbn [Deep] in *.
  destruct H as [H1 H2]. split; [eapply BGood_seqc_mono; eauto|].
  eapply Forall2_impl; [|exact H2]. cbn beta. intros x y [E Hd]. split; [exact E | eapply IH; eauto].
Qed.

Lemma BGood_same_root : forall d s b b' l, b_rootn b' = b_rootn b -> b_root_page b' = b_root_page b ->
  BGood d s b l -> BGood d s b' l.
Proof.
  intros d s b b' l E1 E2 (h & H1 & H2 & H3). exists h. split; [exact H1|].
  unfold BInv, BucketView in *. rewrite E1, E2. split; assumption.
Qed.

Definition sub_rel (f : nat) (d : disk) (s : txs) (x : bytes * bucket) (y : bytes * bview) : Prop :=
  fst x = fst y /\ Deep f d s (snd x) (snd y).

Lemma subs_mono : forall f d s s' xs ys, (seqc s <= seqc s')%N ->
  Forall2 (sub_rel f d s) xs ys -> Forall2 (sub_rel f d s') xs ys.
Proof.
  intros f d s s' xs ys Hle H. eapply Forall2_impl; [|exact H]. intros x y [E Hd].
  split; [exact E | eapply Deep_seqc_mono; eauto].
Qed.

Definition RB_IH (f : nat) : Prop :=
  forall fv d s b v b' s', Deep fv d s b v -> rebalance f d b s = Ok (b', s') ->
    Deep fv d s' b' v /\ tx_frame s s' /\ b_next b' = b_next b.

Lemma rebalance_subs : forall f fv d, RB_IH f -> forall subs vs acc accvs s0 subs' s1,
  Forall2 (sub_rel fv d s0) subs vs -> Forall2 (sub_rel fv d s0) acc accvs ->
  fold_left (fun a x => bind a (fun '(l, s0) => bind (rebalance f d (snd x) s0) (fun '(b', s') => Ok (l ++ [(fst x, b')], s'))))
            subs (Ok (acc, s0)) = Ok (subs', s1) ->
  Forall2 (sub_rel fv d s1) subs' (accvs ++ vs) /\ tx_frame s0 s1.
Proof.
  intros f fv d IH. induction subs as [|x subs IHl]; intros vs acc accvs s0 subs' s1 Hs Hacc H.
  - inversion Hs; subst. cbn [fold_left] in H. inversion H; subst. rewrite app_nil_r. split; [exact Hacc | apply tx_frame_refl].
  - inversion Hs as [|? y ? vs' [Exy Hxy] Hs']; subst. cbn [fold_left bind] in H.
    destruct (rebalance f d (snd x) s0) as [[bx sx]| |] eqn:Ex; cbn [bind] in H.
    + destruct (IH fv d s0 (snd x) (snd y) bx sx Hxy Ex) as (Dx & Tx & _).
      pose proof Tx as (_ & _ & _ & _ & _ & _ & Hle).
      destruct (IHl vs' (acc ++ [(fst x, bx)]) (accvs ++ [y]) sx subs' s1) as [R1 R2].
      * eapply subs_mono; eauto.
      * apply Forall2_app; [eapply subs_mono; eauto|]. constructor; [|constructor]. split; [exact Exy | exact Dx].
      * exact H.
      * rewrite <- app_assoc in R1. cbn [app] in R1. split; [exact R1 | eapply tx_frame_trans; eauto].
    + exfalso. revert H. apply fold_left_not_ok; [|intros; discriminate].
      intros x0 r Hr a0. destruct r as [a1| |]; cbn [bind]; [exfalso; eapply Hr; eauto | discriminate | discriminate].
    + exfalso. revert H. apply fold_left_not_ok; [|intros; discriminate].
      intros x0 r Hr a0. destruct r as [a1| |]; cbn [bind]; [exfalso; eapply Hr; eauto | discriminate | discriminate].
Qed.

Theorem rebalance_view : forall f, RB_IH f.
Proof.
  induction f as [|f IH]; intros fv d s b v b' s' HD H; [discriminate|].
  destruct fv as [|fv]; [destruct HD|]. destruct v as [l vs]. cbn [Deep] in HD. destruct HD as [HG HS].
  cbn [rebalance] in H. destruct (negb (is_dirty fuel0 b)).
  { inversion H; subst. split; [cbn [Deep]; split; assumption|]. split; [apply tx_frame_refl | reflexivity]. }
  match type of H with bind ?r _ = _ => destruct r as [[subs' s1]| |] eqn:Ef end; cbn [bind] in H; try discriminate.
  destruct (rebalance_subs f fv d IH (b_subs b) vs [] [] s subs' s1 HS (Forall2_nil _) Ef) as [R1 R2]. cbn [app] in R1.
  pose proof R2 as (_ & _ & _ & _ & _ & _ & Hle1).
  assert (HG1 : BGood d s1 (Bucket (b_root_page b) (b_next b) true (b_rootn b) subs') l).
  { eapply BGood_same_root; [reflexivity | reflexivity |]. eapply BGood_seqc_mono; eauto. }
  destruct HG1 as (h & Hh & HB & HV).
  destruct (merge_nodes_view h d s1 _ l b' s' HB HV H) as ((h' & Hle & HB' & HV') & _ & En & Es & _ & Tx).
  pose proof Tx as (_ & _ & _ & _ & _ & _ & Hle2). cbn [b_next b_subs] in En, Es.
  split; [|split; [eapply tx_frame_trans; eauto | exact En]].
  cbn [Deep]. split; [exists h'; split; [lia|]; split; assumption|].
  rewrite Es. eapply subs_mono; eauto.
Qed.
(* the bucket's own view, in the vocabulary of EngineModifyFacts *)
Corollary rebalance_bucket_view : forall f fv d s b l vs b' s',
  Deep fv d s b (BV l vs) -> rebalance f d b s = Ok (b', s') ->
  bucket_view d b' l /\ bucket_wf d b' /\ b_next b' = b_next b /\
  map fst (b_subs b') = map fst vs /\
  free s' = free s /\ np s' = np s /\ wr s' = wr s /\ txid s' = txid s.
Proof.
  intros f fv d s b l vs b' s' HD H. destruct (rebalance_view f fv d s b (BV l vs) b' s' HD H) as (HD' & Tx & En).
  destruct fv as [|fv]; [destruct HD'|]. cbn [Deep] in HD'. destruct HD' as [(h & Hh & HB & HV) HS].
  split; [exists h; split; assumption|]. split; [eapply BInv_wf; eauto|]. split; [exact En|].
  destruct Tx as (F1 & F2 & F3 & _ & F5 & _). split; [|auto].
  clear -HS. induction HS as [|x y xs ys [E _] _ IH]; [reflexivity|]. cbn [map]. now rewrite E, IH.
Qed.

Module Example2.
Import Example.
Example ex_Deep : Deep 1 ex_disk ex_s ex_bucket (BV ex_view []).
Proof.
  cbn [Deep]. split; [|constructor]. exists 2. split; [unfold fuel0; lia|]. destruct ex_side as (H1 & H2 & H3). split.
  - unfold BInv, RInv. cbn [b_rootn ex_bucket]. split; [exact ex_Inv|]. split; [exact H1|]. split; [exact H2 | exact H3].
  - exact ex_NodeView.
Qed.

Example ex_rebalance : rebalance fuel0 ex_disk ex_bucket ex_s = Ok (Bucket 10 7 true (Some ex_root') [], ex_s').
Proof. vm_compute. reflexivity. Qed.

Example ex_rebalance_view : bucket_view ex_disk (Bucket 10 7 true (Some ex_root') []) ex_view.
Proof. exact (proj1 (rebalance_bucket_view _ _ _ _ _ _ _ _ _ ex_Deep ex_rebalance)). Qed.
End Example2.

(* ====================================================================== *)
(** * 21. Why the bounds are part of the invariant: [wf_node] + link alone do not suffice for branch kids

   A parent that is [wf_node], whose kids are linked to their entries ([n_orig] = the entry's key, distinct pages
   and sequence numbers, every kid resolved), but whose kid K (child 0) starts with a separator ("x") that is
   NOT the first key below it: [wf_node] does not constrain the first separator of a node. Merging K into its
   right sibling re-sorts the entries and the transaction sees the entries in a DIFFERENT order. *)
Module Cex.
Local Open Scope N_scope.
Definition ka : bytes := ["a"%byte]. Definition kb : bytes := ["b"%byte]. Definition kd : bytes := ["d"%byte].
Definition ke : bytes := ["e"%byte]. Definition kf : bytes := ["f"%byte]. Definition kg : bytes := ["g"%byte].
Definition kx : bytes := ["x"%byte].
Definition cdisk : disk :=
  [ (11, {| ap_over := 0; ap_body := Leaves [LKv ka [x01]] |});
    (21, {| ap_over := 0; ap_body := Leaves [LKv kd [x02]] |});
    (22, {| ap_over := 0; ap_body := Leaves [LKv ke [x03]] |});
    (3,  {| ap_over := 0; ap_body := Leaves [LKv kf [x04]; LKv kg [x05]] |}) ].
Definition cK : node := Node 1 1 (Some kb) 2 (Branches [(kx, 11)]) [].
Definition cS : node := Node 2 1 (Some kd) 3 (Branches [(kd, 21); (ke, 22)]) [].
Definition cpar : node := Node 10 1 (Some kb) 1 (Branches [(kb, 1); (kd, 2); (kf, 3)]) [cK; cS].
Definition cs : txs := {| free := []; pending := []; txid := 5; np := 30; psz := 4096; wr := []; flw := None; seqc := 4 |}.
Definition cpar' : node :=
  Node 10 1 (Some kb) 1 (Branches [(kd, 2); (kf, 3)])
       [Node 2 1 (Some kd) 3 (Branches [(kd, 21); (ke, 22); (kx, 11)]) []].

Example cex_try_merge : exists s', try_merge cdisk cpar cK cs = Ok (cpar', s').
Proof. eexists. vm_compute. reflexivity. Qed.

(* what the transaction sees before and after (the executable view of EngineMergeFacts) *)
Example cex_views :
  view_leaves 3 cdisk cpar  = [LKv ka [x01]; LKv kd [x02]; LKv ke [x03]; LKv kf [x04]; LKv kg [x05]] /\
  view_leaves 3 cdisk cpar' = [LKv kd [x02]; LKv ke [x03]; LKv ka [x01]; LKv kf [x04]; LKv kg [x05]].
Proof. split; vm_compute; reflexivity. Qed.

Ltac leafpv := eapply PV_leaf; reflexivity.
Lemma cK_view : NodeView cdisk 2 cK [LKv ka [x01]].
Proof.
  change [LKv ka [x01]] with (concat [[LKv ka [x01]]]). apply NodeView_branch_intro.
  apply Forall2_cons; [|apply Forall2_nil]. unfold ChildView. cbn [snd find_kid find]. leafpv.
Qed.
Lemma cS_view : NodeView cdisk 2 cS [LKv kd [x02]; LKv ke [x03]].
Proof.
  change [LKv kd [x02]; LKv ke [x03]] with (concat [[LKv kd [x02]]; [LKv ke [x03]]]). apply NodeView_branch_intro.
  apply Forall2_cons; [|apply Forall2_cons; [|apply Forall2_nil]]; unfold ChildView; cbn [snd find_kid find]; leafpv.
Qed.
Lemma cex_view_before : NodeView cdisk 3 cpar [LKv ka [x01]; LKv kd [x02]; LKv ke [x03]; LKv kf [x04]; LKv kg [x05]].
Proof.
  change [LKv ka [x01]; LKv kd [x02]; LKv ke [x03]; LKv kf [x04]; LKv kg [x05]]
    with (concat [[LKv ka [x01]]; [LKv kd [x02]; LKv ke [x03]]; [LKv kf [x04]; LKv kg [x05]]]).
  apply NodeView_branch_intro.
  apply Forall2_cons; [|apply Forall2_cons; [|apply Forall2_cons; [|apply Forall2_nil]]]; unfold ChildView; cbn [snd].
  - change (find_kid 1 [cK; cS]) with (Some cK). exact cK_view.
  - change (find_kid 2 [cK; cS]) with (Some cS). exact cS_view.
  - change (find_kid 3 [cK; cS]) with (@None node). leafpv.
Qed.
Lemma cex_view_after : NodeView cdisk 3 cpar' [LKv kd [x02]; LKv ke [x03]; LKv ka [x01]; LKv kf [x04]; LKv kg [x05]].
Proof.
  change [LKv kd [x02]; LKv ke [x03]; LKv ka [x01]; LKv kf [x04]; LKv kg [x05]]
    with (concat [concat [[LKv kd [x02]]; [LKv ke [x03]]; [LKv ka [x01]]]; [LKv kf [x04]; LKv kg [x05]]]).
  apply NodeView_branch_intro.
  apply Forall2_cons; [|apply Forall2_cons; [|apply Forall2_nil]]; unfold ChildView; cbn [snd find_kid find n_page];
    [change (2 =? 2) with true | change (2 =? 3) with false]; cbv iota.
  - apply NodeView_branch_intro.
    apply Forall2_cons; [|apply Forall2_cons; [|apply Forall2_cons; [|apply Forall2_nil]]]; unfold ChildView;
      cbn [snd find_kid find]; leafpv.
  - leafpv.
Qed.

(* the parent IS well formed in the sense of EngineModifyFacts *)
Ltac nodup_tac := repeat (constructor; [cbn; intuition (try discriminate; try lia)|]); constructor.
Ltac seps_ok_tac := split; [discriminate | split; [reflexivity | cbn [map snd]; nodup_tac]].
Ltac in_range_tac :=
  split; intros Hrng; vm_compute in Hrng; try lia;
    repeat constructor; vm_compute; (reflexivity || discriminate).
Lemma cK_wf : wf_node cdisk cK.
Proof.
  apply wf_node_branch_intro; [seps_ok_tac | |].
  - repeat constructor. unfold ChildWf. cbn [snd find_kid find]. eapply wfp_leaf; reflexivity.
  - intros j e l Hj _. destruct j as [|j]; [|destruct j; discriminate]. split; intros Hr; cbn in Hr; lia.
Qed.
Lemma cS_wf : wf_node cdisk cS.
Proof.
  apply wf_node_branch_intro; [seps_ok_tac | |].
  - repeat constructor; unfold ChildWf; cbn [snd find_kid find]; eapply wfp_leaf; reflexivity.
  - intros j e l Hj [h Hv]. unfold ChildView in Hv.
    destruct j as [|[|j]]; cbn [nth_error] in Hj; try (destruct j; discriminate); inversion Hj; subst e;
      cbn [snd find_kid find] in Hv.
    + assert (PV : PageView cdisk 1 21 [LKv kd [x02]]) by leafpv.
      rewrite (PageView_det _ _ _ _ Hv _ _ PV). in_range_tac.
    + assert (PV : PageView cdisk 1 22 [LKv ke [x03]]) by leafpv.
      rewrite (PageView_det _ _ _ _ Hv _ _ PV). in_range_tac.
Qed.
Example cex_wf : wf_node cdisk cpar.
Proof.
  apply wf_node_branch_intro; [seps_ok_tac | |].
  - apply Forall_cons; [|apply Forall_cons; [|apply Forall_cons; [|apply Forall_nil]]]; unfold ChildWf; cbn [snd].
    + change (find_kid 1 [cK; cS]) with (Some cK). exact cK_wf.
    + change (find_kid 2 [cK; cS]) with (Some cS). exact cS_wf.
    + change (find_kid 3 [cK; cS]) with (@None node). eapply wfp_leaf; reflexivity.
  - intros j e l Hj [h Hv]. unfold ChildView in Hv.
    destruct j as [|[|[|j]]]; cbn [nth_error] in Hj; try (destruct j; discriminate); inversion Hj; subst e; cbn [snd] in Hv.
    + change (find_kid 1 [cK; cS]) with (Some cK) in Hv. rewrite (NodeView_det _ _ _ _ Hv _ _ cK_view). in_range_tac.
    + change (find_kid 2 [cK; cS]) with (Some cS) in Hv. rewrite (NodeView_det _ _ _ _ Hv _ _ cS_view). in_range_tac.
    + change (find_kid 3 [cK; cS]) with (@None node) in Hv.
      assert (PV : PageView cdisk 1 3 [LKv kf [x04]; LKv kg [x05]]) by leafpv.
      rewrite (PageView_det _ _ _ _ Hv _ _ PV). in_range_tac.
Qed.
(* ... and linked: orig = entry key, pages and sequence numbers distinct, every kid resolved *)
Example cex_linked : kids_linked [(kb, 1); (kd, 2); (kf, 3)] [cK; cS] /\ NoDup (seqs cpar).
Proof.
  split; [split|].
  - cbn. nodup_tac.
  - repeat constructor; [exists kb | exists kd]; cbn; tauto.
  - vm_compute. nodup_tac.
Qed.
(* so the conclusion of [try_merge_view] fails here: the two views differ *)
Example cex_conclusion : forall l, NodeView cdisk 3 cpar l -> ~ NodeView cdisk 3 cpar' l.
Proof.
  intros l H H'. pose proof (NodeView_det _ _ _ _ H _ _ cex_view_before) as E.
  pose proof (NodeView_det _ _ _ _ H' _ _ cex_view_after) as E'. rewrite E in E'. discriminate.
Qed.

(* second correction: "wf_node d par'" fails when the only child is empty and dropped -- the parent is left as
   an empty branch node (to be dropped in turn by ITS parent, or turned into an empty leaf by merge_nodes);
   hence [Inv _ _ true] in [Post] and the side condition in [Post_facts] *)
Definition eK : node := Node 1 1 (Some kb) 2 (Leaves []) [].
Definition epar : node := Node 10 1 (Some kb) 1 (Branches [(kb, 1)]) [eK].
Example cex_empty : exists s', try_merge cdisk epar eK cs = Ok (Node 10 1 (Some kb) 1 (Branches []) [], s') /\
  ~ wf_node cdisk (Node 10 1 (Some kb) 1 (Branches []) []).
Proof.
  eexists. split; [vm_compute; reflexivity|]. intros H. apply wf_node_branch_inv in H. destruct H as ((Hne & _) & _).
  now apply Hne.
Qed.
End Cex.

(* ====================================================================== *)
(** * 22. Panics: under the invariant the only panic left is a merge of a leaf with a branch
      (excluded in trees of uniform depth, which the invariant does not record) *)

Definition kind_panic : String.string := "incompatible data types"%string.

Lemma merge_data_res : forall a b, (exists md, merge_data a b = Ok md) \/ merge_data a b = Panic kind_panic.
Proof. intros [l1|e1] [l2|e2]; cbn [merge_data]; eauto. Qed.

Lemma sib_of_ok : forall h d s ks kq q b, CInv h d ks (kq, q) b -> exists r, sib_of d ks q s = Ok r.
Proof.
  intros h d s ks kq q b HC. unfold sib_of, CInv in *. cbn [snd fst] in HC. destruct (find_kid q ks); [eauto|].
  destruct (PInv_dget _ _ _ _ _ _ HC) as [a Ha]. rewrite Ha. eauto.
Qed.

(* [try_merge] never fails with [Err], and panics only on a kind mismatch *)
Theorem try_merge_no_panic : forall h d s lo hi p np og sq es ks k,
  Pre1 h d lo hi es ks (n_page k) -> In k ks ->
  (exists r, try_merge d (Node p np og sq (Branches es) ks) k s = Ok r) \/
  try_merge d (Node p np og sq (Branches es) ks) k s = Panic kind_panic.
Proof.
  intros h d s lo hi p np og sq es ks k HP Hkin.
  destruct (Pre1_split _ _ _ _ _ _ _ HP Hkin) as (E1 & ko & E2 & Ees & Ho & Hb & HC1 & Hk & HC2 & Hfk).
  destruct (needs_merging s k) eqn:Hn; [|left; rewrite try_merge_noop by exact Hn; eauto].
  destruct (0 <? dlen (n_data k))%N eqn:Hdl.
  2:{ left. assert (Hd0 : dlen (n_data k) = 0%N) by lia.
      rewrite (try_merge_empty d (Node p np og sq (Branches es) ks) k s es ko _ Hd0 eq_refl Ho Hb). eauto. }
  assert (Hdl' : (0 < dlen (n_data k))%N) by lia.
  destruct (llen es =? 1)%N eqn:Hone.
  { left. rewrite (try_merge_only_child d (Node p np og sq (Branches es) ks) k s es eq_refl ltac:(lia) Hdl'). eauto. }
  destruct (list_rev_case E1) as [-> | (E1' & [kq q] & ->)].
  - destruct E2 as [|[kq q] rest]; [subst es; unfold llen in Hone; cbn in Hone; lia|].
    cbn [app] in Ees. subst es. cbn [length] in Hb.
    rewrite (try_merge_right_unfold d (Node p np og sq (Branches ((ko, n_page k) :: (kq, q) :: rest)) ks) k s
               (ko, n_page k) kq q rest ko Hn eq_refl Hdl' Ho Hb). cbn [n_kids].
    cbn [map fst cbs] in HC2. inversion HC2 as [|? ? ? ? Cs _]; subst.
    destruct (sib_of_ok h d s ks kq q _ Cs) as [[[sib s1] isnew] ->]. cbn [bind].
    destruct (merge_data_res (n_data sib) (n_data k)) as [[md ->] | ->]; cbn [bind]; [left | now right].
    destruct (first_key md); eauto.
  - rewrite <- app_assoc in Ees. cbn [app] in Ees. subst es.
    rewrite app_length in Hb. cbn [length] in Hb. replace (length E1' + 1) with (S (length E1')) in Hb by lia.
    assert (Hsp : nthN (E1' ++ (kq, q) :: (ko, n_page k) :: E2) (N.of_nat (S (length E1')) - 1) = Some (kq, q)).
    { unfold nthN. replace (N.to_nat (N.of_nat (S (length E1')) - 1)) with (length E1' + 0) by lia.
      rewrite nth_error_app2 by lia. replace (length E1' + 0 - length E1') with 0 by lia. reflexivity. }
    rewrite (try_merge_left_unfold d (Node p np og sq (Branches (E1' ++ (kq, q) :: (ko, n_page k) :: E2)) ks) k s _ ko _ kq q
               Hn eq_refl Hdl' Ho Hb ltac:(lia) Hsp). cbn [n_kids].
    assert (Cs : exists b, CInv h d ks (kq, q) b).
    { rewrite map_app in HC1. cbn [map fst] in HC1. rewrite cbs_app in HC1. apply Forall2_app_inv_l in HC1.
      destruct HC1 as (B1 & Br & _ & Hr & _). inversion Hr; subst. eauto. }
    destruct Cs as [b Cs].
    destruct (sib_of_ok h d s ks kq q _ Cs) as [[[sib s1] isnew] ->]. cbn [bind].
    destruct (merge_data_res (n_data sib) (n_data k)) as [[md ->] | ->]; cbn [bind]; [left; eauto | now right].
Qed.

Lemma fold_left_bad : forall {A B} (F : res A -> B -> res A) xs r,
  (forall x r, (forall a, r <> Ok a) -> F r x = r) -> (forall a, r <> Ok a) -> fold_left F xs r = r.
Proof.
  intros A B F xs. induction xs as [|x xs IH]; intros r HF Hr; cbn [fold_left]; [reflexivity|].
  rewrite (HF x r Hr). now apply IH.
Qed.

Lemma fold_left_panic_inv : forall {A B} (F : res A -> B -> res A) (P : A -> Prop) xs a0 msg,
  (forall x r, (forall a, r <> Ok a) -> F r x = r) ->
  (forall x a a1, P a -> F (Ok a) x = Ok a1 -> P a1) ->
  P a0 -> fold_left F xs (Ok a0) = Panic msg -> exists a x, P a /\ F (Ok a) x = Panic msg.
Proof.
  intros A B F P xs. induction xs as [|x xs IH]; intros a0 msg HF Hstep H0 H; cbn [fold_left] in H; [discriminate|].
  destruct (F (Ok a0) x) as [a1|m|e] eqn:E.
  - apply (IH a1 msg HF Hstep); [eapply Hstep; eauto | exact H].
  - rewrite fold_left_bad in H; [|exact HF|intros; discriminate]. inversion H; subst. eauto.
  - rewrite fold_left_bad in H; [|exact HF|intros; discriminate]. discriminate.
Qed.

(* the parent with the rebalanced kid in place: ready for [try_merge] *)
Lemma rk_prep : forall f h0 d s lo hi n l p0 np0 og0 sq0 es0 ks0 s0 k k1 s1,
  RK_IH f ->
  Forall (fun x => (x < seqc s)%N) (seqs n) ->
  RKPost (S h0) d s lo hi n l (Node p0 np0 og0 sq0 (Branches es0) ks0) s0 ->
  In k ks0 ->
  (if is_leaf (n_data k) then Ok (k, s0) else rebalance_kids f d k s0) = Ok (k1, s1) ->
  Pre1 h0 d lo hi es0 (replace_kid ks0 k1) (n_page k1) /\ In k1 (replace_kid ks0 k1).
Proof.
  intros f h0 d s lo hi n l p0 np0 og0 sq0 es0 ks0 s0 k k1 s1 IH Hlt (HI & HV & P1 & P2 & P3 & P4 & Np & Ip & Ns & Is & Tx) Hkin Hk1.
  destruct (kid_facts _ _ _ _ _ _ _ _ _ _ _ _ HI Hkin HV Np Ns) as ((lk & Vk) & Npk & Nsk & Isk & (lo' & hi' & Ik)).
  assert (Hlt0 : forall y, In y (seqs (Node p0 np0 og0 sq0 (Branches es0) ks0)) -> (y < seqc s0)%N).
  { intros y Hy. destruct Tx as (_ & _ & _ & _ & _ & _ & Hle). rewrite Forall_forall in Hlt.
    destruct (Is y Hy) as [H | H]; [specialize (Hlt y H)|]; lia. }
  assert (Hk : n_page k1 = n_page k /\ n_orig k1 = n_orig k /\ n_seq k1 = n_seq k /\
               (forall lo' hi', Inv h0 d false lo' hi' k -> Inv h0 d true lo' hi' k1) /\
               (forall lk, NodeView d h0 k lk -> NodeView d h0 k1 lk) /\
               NoDup (npages h0 d k1) /\ incl (npages h0 d k1) (npages h0 d k) /\
               NoDup (seqs k1) /\ (forall x, In x (seqs k1) -> In x (seqs k) \/ (seqc s0 <= x < seqc s1)%N)).
  { destruct (is_leaf (n_data k)) eqn:Elf.
    - inversion Hk1; subst k1 s1. repeat (split; [reflexivity|]).
      split; [intros; eapply Inv_z_true; eauto|]. split; [auto|]. split; [exact Npk|].
      split; [apply incl_refl|]. split; [exact Nsk|]. intros; now left.
    - assert (Hltk : Forall (fun x => (x < seqc s0)%N) (seqs k)).
      { apply Forall_forall. intros y Hy. apply Hlt0. now apply Isk. }
      pose proof (IH h0 d s0 true lo' hi' k lk k1 s1 Ik Elf Vk Npk Nsk Hltk Hk1)
        as (_ & _ & Q1 & Q2 & Q3 & Q4 & Q5 & Q6 & Q7 & Q8 & Q9).
      repeat (split; [assumption|]).
      split; [|split; [|repeat (split; [assumption|]); assumption]].
      + intros lo2 hi2 I2. apply (IH h0 d s0 false lo2 hi2 k lk k1 s1 I2 Elf Vk Npk Nsk Hltk Hk1).
      + intros lk2 V2. pose proof (NodeView_det _ _ _ _ Vk _ _ V2) as <-.
        apply (IH h0 d s0 true lo' hi' k lk k1 s1 Ik Elf Vk Npk Nsk Hltk Hk1). }
  destruct Hk as (E1 & E2 & E3 & TI & TV & Np1 & Ip1 & Ns1 & Is1).
  destruct (kid_replaced h0 d lo hi p0 np0 og0 sq0 es0 ks0 k k1 l (fun x => (seqc s0 <= x < seqc s1)%N)
              HI Hkin HV Np Ns E1 E2 E3 TI TV Np1 Ip1 Ns1 Is1) as (R1 & R2 & _).
  { intros y Hy Hf. specialize (Hlt0 y Hy). lia. }
  split; assumption.
Qed.

Theorem rebalance_kids_no_panic : forall fuel h d s z lo hi n l msg,
  Inv h d z lo hi n -> is_leaf (n_data n) = false -> NodeView d h n l ->
  NoDup (npages h d n) -> NoDup (seqs n) -> Forall (fun x => (x < seqc s)%N) (seqs n) ->
  rebalance_kids fuel d n s = Panic msg -> msg = kind_panic.
Proof.
  induction fuel as [|f IH]; intros h d s z lo hi n l msg HI Hlf HV Np Ns Hlt H; [discriminate|].
  cbn [rebalance_kids] in H. destruct (Inv_height _ _ _ _ _ _ HI) as [h0 ->].
  match type of H with fold_left ?F0 _ _ = _ => set (F := F0) in H end.
  pose (P := fun a : node * txs => RKPost (S h0) d s lo hi n l (fst a) (snd a) /\ is_leaf (n_data (fst a)) = false).
  assert (HF : forall x r, (forall a, r <> Ok a) -> F r x = r).
  { intros x r Hr. unfold F. destruct r as [a0| |]; cbn [bind]; [exfalso; eapply Hr; eauto | reflexivity | reflexivity]. }
  destruct (fold_left_panic_inv F P (map n_seq (n_kids n)) (n, s) msg HF) as ([n0 s0] & x & [HP0 Hlf0] & E); [| |exact H|].
  - intros x [n0 s0] [n1 s1] [HP0 Hlf0] E. unfold P in *. cbn [fst snd] in *. unfold F in E. cbn [bind] in E.
    destruct (find (fun k => N.eqb (n_seq k) x) (n_kids n0)) as [k|] eqn:Ef.
    + apply find_some in Ef. destruct Ef as [Hkin _].
      destruct (if is_leaf (n_data k) then Ok (k, s0) else rebalance_kids f d k s0) as [[k1 s1k]| |] eqn:Ek;
        cbn [bind] in E; try discriminate.
      eapply rk_step; eauto. apply rebalance_kids_view.
    + inversion E; subst. split; assumption.
  - unfold P. cbn [fst snd]. split; [|exact Hlf]. unfold RKPost.
    split; [eapply Inv_z_true; eauto|]. split; [exact HV|]. repeat (split; [reflexivity|]).
    split; [exact Np|]. split; [apply incl_refl|]. split; [exact Ns|].
    split; [intros; now left | apply tx_frame_refl].
  - cbn [fst snd] in *. unfold F in E. cbn [bind] in E.
    destruct (find (fun k => N.eqb (n_seq k) x) (n_kids n0)) as [k|] eqn:Ef; [|discriminate].
    apply find_some in Ef. destruct Ef as [Hkin _].
    destruct n0 as [p0 np0 og0 sq0 [l0|es0] ks0]; [discriminate|]. cbn [n_kids set_kids] in *.
    destruct (if is_leaf (n_data k) then Ok (k, s0) else rebalance_kids f d k s0) as [[k1 s1k]|m|e] eqn:Ek; cbn [bind] in E.
    + destruct (rk_prep f h0 d s lo hi n l p0 np0 og0 sq0 es0 ks0 s0 k k1 s1k (rebalance_kids_view f) Hlt HP0 Hkin Ek) as [R1 R2].
      destruct (try_merge_no_panic h0 d s1k lo hi p0 np0 og0 sq0 es0 _ k1 R1 R2) as [[r Hr] | Hr]; rewrite Hr in E;
        [discriminate | now inversion E].
    + inversion E; subst m. destruct (is_leaf (n_data k)) eqn:Elf; [discriminate|].
      destruct HP0 as (HI0 & HV0 & _ & _ & _ & _ & Np0 & _ & Ns0 & Is0 & Tx0).
      destruct (kid_facts _ _ _ _ _ _ _ _ _ _ _ _ HI0 Hkin HV0 Np0 Ns0) as ((lk & Vk) & Npk & Nsk & Isk & (lo' & hi' & Ik)).
      eapply (IH h0 d s0 true lo' hi' k lk msg Ik Elf Vk Npk Nsk); [|exact Ek].
      apply Forall_forall. intros y Hy. destruct Tx0 as (_ & _ & _ & _ & _ & _ & Hle). rewrite Forall_forall in Hlt.
      destruct (Is0 y (Isk y Hy)) as [Hin | Hr]; [specialize (Hlt y Hin)|]; lia.
    + discriminate.
Qed.

Theorem merge_nodes_no_panic : forall h d s b l msg,
  BInv h d s b -> BucketView d h b l -> merge_nodes d b s = Panic msg -> msg = kind_panic.
Proof.
  intros h d s b l msg HB HV H. unfold merge_nodes in H.
  assert (Her : exists r, ensure_root d b s = Ok r).
  { unfold ensure_root, BInv in *. destruct (b_rootn b); [eauto|]. destruct HB as [HP _].
    destruct (PInv_dget _ _ _ _ _ _ HP) as [a ->]. cbn [next_seq]. eauto. }
  destruct Her as [[root s0] Er]. rewrite Er in H. cbn [bind] in H.
  destruct (ensure_root_RInv _ _ _ _ _ _ _ HB HV Er) as (HR & HVr & Tx0).
  destruct (if is_leaf (n_data root) then Ok (root, s0) else rebalance_kids fuel0 d root s0) as [[root1 s1]|m|e] eqn:E1;
    cbn [bind] in H.
  - destruct (needs_merging s1 root1 && negb (is_leaf (n_data root1)) && (dlen (n_data root1) =? 1)%N) eqn:Ec.
    + apply andb_true_iff in Ec. destruct Ec as [Ec Ec1]. apply andb_true_iff in Ec. destruct Ec as [_ Ec2].
      destruct (n_data root1) as [l1|[|[k0 q] es1]]; cbn [is_leaf negb dlen] in *; try discriminate.
    + destruct (negb (is_leaf (n_data root1)) && (dlen (n_data root1) =? 0)%N); discriminate.
  - inversion H; subst m. destruct (is_leaf (n_data root)) eqn:Elf; [discriminate|].
    destruct HR as (HI & Hnp & Hsq & Hlt). eapply rebalance_kids_no_panic; eauto.
  - discriminate.
Qed.

Definition RBP_IH (f : nat) : Prop :=
  forall fv d s b v msg, Deep fv d s b v -> rebalance f d b s = Panic msg -> msg = kind_panic.

Lemma rebalance_subs_panic : forall f fv d, RBP_IH f -> forall subs vs acc s0 msg,
  Forall2 (sub_rel fv d s0) subs vs ->
  fold_left (fun a x => bind a (fun '(l, s0) => bind (rebalance f d (snd x) s0) (fun '(b', s') => Ok (l ++ [(fst x, b')], s'))))
            subs (Ok (acc, s0)) = Panic msg -> msg = kind_panic.
Proof.
  intros f fv d IHp. induction subs as [|x subs IHl]; intros vs acc s0 msg Hs H; [discriminate|].
  inversion Hs as [|? y ? vs' [Exy Hxy] Hs']; subst. cbn [fold_left bind] in H.
  assert (HF : forall (x0 : bytes * bucket) (r : res (list (bytes * bucket) * txs)), (forall a, r <> Ok a) ->
            bind r (fun '(l, s1) => bind (rebalance f d (snd x0) s1) (fun '(b', s') => Ok (l ++ [(fst x0, b')], s'))) = r).
  { intros x0 r Hr. destruct r as [a1| |]; cbn [bind]; [exfalso; eapply Hr; eauto | reflexivity | reflexivity]. }
  destruct (rebalance f d (snd x) s0) as [[bx sx]|m|e] eqn:Ex; cbn [bind] in H.
  - destruct (rebalance_view f fv d s0 (snd x) (snd y) bx sx Hxy Ex) as (_ & Tx & _).
    destruct Tx as (_ & _ & _ & _ & _ & _ & Hle).
    eapply (IHl vs' _ sx msg); [eapply subs_mono; eauto | exact H].
  - rewrite fold_left_bad in H; [|exact HF|intros; discriminate]. inversion H; subst m. eapply IHp; eauto.
  - rewrite fold_left_bad in H; [|exact HF|intros; discriminate]. discriminate.
Qed.

Theorem rebalance_no_panic : forall f, RBP_IH f.
Proof.
  induction f as [|f IH]; intros fv d s b v msg HD H; [discriminate|].
  destruct fv as [|fv]; [destruct HD|]. destruct v as [l vs]. cbn [Deep] in HD. destruct HD as [HG HS].
  cbn [rebalance] in H. destruct (negb (is_dirty fuel0 b)); [discriminate|].
  match type of H with bind ?r _ = _ => destruct r as [[subs' s1]|m|e] eqn:Ef end; cbn [bind] in H.
  - destruct (rebalance_subs f fv d (rebalance_view f) (b_subs b) vs [] [] s subs' s1 HS (Forall2_nil _) Ef) as [R1 R2].
    pose proof R2 as (_ & _ & _ & _ & _ & _ & Hle1).
    assert (HG1 : BGood d s1 (Bucket (b_root_page b) (b_next b) true (b_rootn b) subs') l).
    { eapply BGood_same_root; [reflexivity | reflexivity |]. eapply BGood_seqc_mono; eauto. }
    destruct HG1 as (h & Hh & HB & HV). eapply merge_nodes_no_panic; eauto.
  - inversion H; subst m. eapply rebalance_subs_panic; eauto.
  - discriminate.
Qed.

(* the pending pages after [try_merge], in the terms of EngineAllocFacts: nothing is lost, and what is added lies
   in the page run of k *)
Lemma merge_tx_pending : forall s k s', merge_tx s k s' -> forall x,
  (In x (PL.pend_all (pending s)) -> In x (PL.pend_all (pending s'))) /\
  (In x (PL.pend_all (pending s')) -> In x (PL.pend_all (pending s)) \/ (n_page k <= x < n_page k + n_np k)%N).
Proof.
  intros s k s' Htx x.
  assert (Hf : forall s0, pending s0 = pending s ->
    (In x (PL.pend_all (pending s)) -> In x (PL.pend_all (pending (free_node_page s0 k)))) /\
    (In x (PL.pend_all (pending (free_node_page s0 k))) -> In x (PL.pend_all (pending s)) \/ (n_page k <= x < n_page k + n_np k)%N)).
  { intros s0 E. unfold free_node_page. destruct (n_page k =? 0)%N; [rewrite E; tauto|].
    pose proof (EngineAllocFacts.engine_free_pend_all s0 (n_page k) (n_np k) x) as H. rewrite E in H. tauto. }
  destruct Htx as [-> | [-> | ->]]; [tauto | apply Hf; reflexivity | apply Hf; reflexivity].
Qed.

(* ====================================================================== *)
(** * 23. Summary and audit

   Invariant.        [Inv h d z lo hi n] (nodes) over [PInv h d lo hi ok q] (strict committed pages), plus the two
                     global side conditions [NoDup (npages h d n)] (no page has two parents) and
                     [NoDup (seqs n)], [Forall (< seqc s) (seqs n)] (sequence numbers distinct and allocated);
                     bundled as [RInv] / [BInv] (buckets) / [Deep] (bucket trees).
   Established.      [node_of_page_Inv], [node_of_page_orig], [node_of_page_Exact] (reading a strict page).
   Implies.          [Inv_wf_node], [PInv_wf_page], [BInv_wf]; [Inv_view_bounds].
   modify.           [modify_Inv], [b_modify_BInv] (with [Exact]: the state before any merge).
   try_merge.        [try_merge_step] (the kid may be an empty branch), [try_merge_view], [Post_facts]:
                     same view, invariant kept, k's page run handed back and nothing else ([merge_tx]).
   rebalance_kids.   [rebalance_kids_view].
   merge_nodes.      [merge_nodes_view], [merge_nodes_bucket_view] (root collapse and empty root included).
   rebalance.        [rebalance_view], [rebalance_bucket_view] (all opened sub-buckets).
   Non-vacuity.      [Example.ex_try_merge_view], [Example.ex_merge_nodes_view], [Example2.ex_rebalance_view].
   Necessity.        [Cex.cex_conclusion] (wf_node + link without bounds: the view changes), [Cex.cex_empty].
   Panics.           [try_merge_no_panic], [rebalance_kids_no_panic], [merge_nodes_no_panic], [rebalance_no_panic]:
                     under the invariant the only panic left is merge_data's kind mismatch. *)

Print Assumptions Inv_wf_node.
Print Assumptions node_of_page_Inv.
Print Assumptions modify_Inv.
Print Assumptions b_modify_BInv.
Print Assumptions try_merge_step.
Print Assumptions try_merge_view.
Print Assumptions Post_facts.
Print Assumptions merge_tx_pending.
Print Assumptions rebalance_kids_view.
Print Assumptions merge_nodes_view.
Print Assumptions merge_nodes_bucket_view.
Print Assumptions rebalance_view.
Print Assumptions rebalance_bucket_view.
Print Assumptions Example.ex_try_merge_view.
Print Assumptions Example.ex_merge_nodes_view.
Print Assumptions Example2.ex_rebalance_view.
Print Assumptions Cex.cex_conclusion.
Print Assumptions Cex.cex_empty.
Print Assumptions try_merge_no_panic.
Print Assumptions rebalance_kids_no_panic.
Print Assumptions merge_nodes_no_panic.
Print Assumptions rebalance_no_panic.
