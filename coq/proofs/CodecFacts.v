(* Round trip of the page codec: decode_page (encode_page ...) = Ok ..., for every padding [pad].
   No axioms; stdlib only. *)
From Coq Require Import List Arith NArith Bool Lia ZifyN ZifyBool ZifyNat.
From Coq.Strings Require Import Byte.
From Jamm Require Import Bytes Consts CLayout Meta Codec.
Import ListNotations.
Local Open Scope list_scope. Local Open Scope N_scope.

Arguments N.add : simpl never. Arguments N.mul : simpl never. Arguments N.sub : simpl never.
Arguments N.div : simpl never. Arguments N.modulo : simpl never. Arguments N.pow : simpl never.
Arguments le_enc : simpl never. Arguments padN : simpl never.

(* ------------------------------------------------------------------------------------------ *)
(* 1. Bytes facts                                                                             *)
(* ------------------------------------------------------------------------------------------ *)

Lemma byte_of_N_to_N x : Byte.to_N (byte_of_N x) = x mod 256.
Proof.
  unfold byte_of_N. destruct (Byte.of_N (x mod 256)) eqn:E.
  - apply Byte.to_of_N in E. exact E.
  - apply Byte.of_N_None_iff in E.
    assert (x mod 256 < 256) by (apply N.mod_lt; lia). lia.
Qed.

Lemma le_dec_enc n : forall x, x < 256 ^ N.of_nat n -> le_dec (le_enc n x) = x.
Proof.
  induction n as [|n IH]; intros x Hx.
  - change (N.of_nat 0) with 0 in Hx. rewrite N.pow_0_r in Hx.
    unfold le_enc, le_dec. lia.
  - unfold le_enc; fold le_enc. unfold le_dec; fold le_dec.
    rewrite byte_of_N_to_N.
    rewrite Nat2N.inj_succ, N.pow_succ_r' in Hx.
    rewrite IH.
    + pose proof (N.div_mod x 256). lia.
    + apply N.div_lt_upper_bound; lia.
Qed.

Lemma pow256_8 : 256 ^ N.of_nat 8 = 2 ^ 64. Proof. reflexivity. Qed.
Lemma pow256_1 : 256 ^ N.of_nat 1 = 256. Proof. reflexivity. Qed.

Lemma blen_nil : blen [] = 0. Proof. reflexivity. Qed.
Lemma blen_app a b : blen (a ++ b) = blen a + blen b.
Proof. unfold blen. rewrite app_length. lia. Qed.
Lemma llen_cons {A} (x : A) l : llen (x :: l) = llen l + 1.
Proof. unfold llen. cbn [length]. lia. Qed.
Lemma blen_le_enc n x : blen (le_enc n x) = N.of_nat n.
Proof.
  unfold blen. f_equal. revert x.
  induction n as [|n IH]; intros x; unfold le_enc; fold le_enc; cbn [length]; auto.
Qed.
Lemma blen_padN pad s n : blen (padN pad s n) = N.of_nat n.
Proof.
  unfold blen. f_equal. revert s.
  induction n as [|n IH]; intros s; unfold padN; fold padN; cbn [length]; auto.
Qed.

Lemma skipn_len_app {A} (a r : list A) : skipn (length a) (a ++ r) = r.
Proof. induction a as [|x a IH]; cbn [length skipn app]; auto. Qed.
Lemma firstn_len_app {A} (a r : list A) : firstn (length a) (a ++ r) = a.
Proof. induction a as [|x a IH]; cbn [length firstn app]; f_equal; auto. Qed.

(* [At buf o b]: the bytes [b] occur in [buf] at offset [o] *)
Definition At (buf : bytes) (o : N) (b : bytes) : Prop :=
  exists pre post, buf = pre ++ b ++ post /\ blen pre = o.

Lemma At_here b c : At (b ++ c) 0 b.
Proof. exists [], c. split; reflexivity. Qed.
Lemma At_app_r a c o b : At c o b -> At (a ++ c) (blen a + o) b.
Proof.
  intros (pre & post & -> & <-). exists (a ++ pre), post. split.
  - rewrite <- app_assoc. reflexivity.
  - apply blen_app.
Qed.
Lemma At_app_l a c o b : At a o b -> At (a ++ c) o b.
Proof.
  intros (pre & post & -> & <-). exists pre, (post ++ c). split; [|reflexivity].
  rewrite <- !app_assoc. reflexivity.
Qed.
Lemma At_split buf o x y : At buf o (x ++ y) -> At buf o x /\ At buf (o + blen x) y.
Proof.
  intros (pre & post & -> & <-). split.
  - exists pre, (y ++ post). rewrite <- app_assoc. auto.
  - exists (pre ++ x), post. split.
    + rewrite <- !app_assoc. reflexivity.
    + apply blen_app.
Qed.
Lemma At_bound buf o b : At buf o b -> o + blen b <= blen buf.
Proof. intros (pre & post & -> & <-). rewrite !blen_app. lia. Qed.
Lemma At_slice buf o b l : At buf o b -> l = blen b -> slice buf o l = Some b.
Proof.
  intros (pre & post & -> & <-) ->. unfold slice, blen. rewrite !Nat2N.id.
  rewrite skipn_len_app, firstn_len_app.
  replace (Nat.leb _ _) with true; auto.
  symmetry; apply Nat.leb_le. rewrite !app_length. lia.
Qed.
(* the "slice of an append" fact, in its classical form *)
Lemma slice_app_mid a b c : slice (a ++ b ++ c) (blen a) (blen b) = Some b.
Proof. apply At_slice; [|reflexivity]. exists a, c. auto. Qed.

Lemma rd_le_at buf o n x :
  At buf o (le_enc n x) -> x < 256 ^ N.of_nat n -> rd_le buf o n = Some x.
Proof.
  intros H Hx. unfold rd_le. rewrite (At_slice buf o (le_enc n x)); auto.
  - cbn [option_map]. rewrite le_dec_enc; auto.
  - rewrite blen_le_enc; auto.
Qed.

(* ------------------------------------------------------------------------------------------ *)
(* 2. Readers                                                                                 *)
(* ------------------------------------------------------------------------------------------ *)

Definition reads_buffer (rd : reader) (base : N) (buf : bytes) : Prop :=
  forall o l, o + l <= blen buf -> rd (base + o) l = slice buf o l.

Lemma rd_at rd base buf a o b l :
  reads_buffer rd base buf -> At buf o b -> a = base + o -> l = blen b -> rd a l = Some b.
Proof.
  intros Hrd Hat -> ->. rewrite Hrd.
  - apply At_slice; auto.
  - apply At_bound; auto.
Qed.
Lemma rdN_at rd base buf a o n x :
  reads_buffer rd base buf -> At buf o (le_enc n x) -> a = base + o -> x < 256 ^ N.of_nat n ->
  rdN rd a n = Ok x.
Proof.
  intros Hrd Hat Ha Hx. unfold rdN.
  rewrite (rd_at rd base buf a o (le_enc n x)); auto.
  - rewrite le_dec_enc; auto.
  - rewrite blen_le_enc; auto.
Qed.
Lemma rdN8_at rd base buf a o x :
  reads_buffer rd base buf -> At buf o (le_enc 8 x) -> a = base + o -> x < 2 ^ 64 ->
  rdN rd a 8 = Ok x.
Proof. intros. eapply rdN_at; eauto. Qed.
Lemma rdN1_at rd base buf a o x :
  reads_buffer rd base buf -> At buf o (le_enc 1 x) -> a = base + o -> x < 256 ->
  rdN rd a 1 = Ok x.
Proof. intros. eapply rdN_at; eauto. Qed.

Lemma in_run_ok P h pid buf off len o :
  blen buf <= (ph_overflow h + 1) * P -> off = pid * P + o -> o + len <= blen buf ->
  in_run P h pid off len = true.
Proof.
  intros Hroom -> Hb. unfold in_run. apply andb_true_intro; split; apply N.leb_le; lia.
Qed.

Lemma nth_error_llen {A} (l : list A) i e : nth_error l i = Some e -> N.of_nat i < llen l.
Proof.
  intros H. assert (Hn : (i < length l)%nat) by (apply nth_error_Some; congruence).
  unfold llen. lia.
Qed.

Lemma mapM_seqN {B} (f : N -> res B) (l : list B) : forall s,
  (forall i e, nth_error l i = Some e -> f (s + N.of_nat i) = Ok e) ->
  mapM f (seqN s (length l)) = Ok l.
Proof.
  induction l as [|x l IH]; intros s H; cbn [length seqN mapM].
  - reflexivity.
  - assert (E : f s = Ok x).
    { specialize (H 0%nat x eq_refl). change (N.of_nat 0) with 0 in H.
      rewrite N.add_0_r in H. exact H. }
    rewrite E. cbn [bind]. rewrite IH.
    + reflexivity.
    + intros i e Hi. specialize (H (S i) e Hi).
      replace (s + 1 + N.of_nat i) with (s + N.of_nat (S i)) by lia. exact H.
Qed.

(* ------------------------------------------------------------------------------------------ *)
(* 3. Shape and length of encode_page                                                         *)
(* ------------------------------------------------------------------------------------------ *)

Definition hdr_bytes (pad : N -> byte) (pid over : N) (b : pbody) : bytes :=
  le_enc 8 pid ++ le_enc 1 (body_type b) ++ padN pad 9 7 ++ le_enc 8 (body_count b) ++ le_enc 8 over.
Definition kv (e : lent) : bytes := lent_key e ++ lent_val e.
Definition payload_bytes (pad : N -> byte) (b : pbody) : bytes :=
  match b with
  | PLeaf l => enc_leaf_hdrs pad l (llen l) 0 payload_off ++ flat_map kv l
  | PBranch es => enc_branch_hdrs es (llen es) 0 ++ flat_map fst es
  | PFree ids => flat_map (le_enc 8) ids
  end.
Definition used_bytes pad pid over b := hdr_bytes pad pid over b ++ payload_bytes pad b.

Lemma encode_page_eq pad pid over b :
  encode_page pad pid over b =
  hdr_bytes pad pid over b ++ payload_bytes pad b ++
  padN pad (blen (used_bytes pad pid over b))
       (N.to_nat (body_size b) - length (used_bytes pad pid over b)).
Proof.
  unfold encode_page, used_bytes, hdr_bytes. destruct b; cbn [payload_bytes];
    symmetry; apply app_assoc.
Qed.

Lemma blen_hdr_bytes pad pid over b : blen (hdr_bytes pad pid over b) = 32.
Proof. unfold hdr_bytes. rewrite !blen_app, !blen_le_enc, blen_padN. reflexivity. Qed.

Lemma blen_enc_leaf_hdrs pad l : forall n doff at_,
  blen (enc_leaf_hdrs pad l n doff at_) = 32 * llen l.
Proof.
  induction l as [|e l IH]; intros n doff at_; cbn [enc_leaf_hdrs].
  - reflexivity.
  - rewrite !blen_app, !blen_le_enc, blen_padN, IH, llen_cons. lia.
Qed.
Lemma blen_enc_branch_hdrs es : forall n doff,
  blen (enc_branch_hdrs es n doff) = 24 * llen es.
Proof.
  induction es as [|[k pg] es IH]; intros n doff; cbn [enc_branch_hdrs].
  - reflexivity.
  - rewrite !blen_app, !blen_le_enc, IH, llen_cons. lia.
Qed.
Lemma blen_flat_le8 ids : blen (flat_map (le_enc 8) ids) = 8 * llen ids.
Proof.
  induction ids as [|x ids IH]; cbn [flat_map].
  - reflexivity.
  - rewrite blen_app, blen_le_enc, IH, llen_cons. lia.
Qed.
Lemma fold_leaf_size l : forall a,
  fold_left (fun acc e => acc + blen (lent_key e) + blen (lent_val e)) l a = a + blen (flat_map kv l).
Proof.
  induction l as [|e l IH]; intros a; cbn [fold_left flat_map].
  - rewrite blen_nil. lia.
  - rewrite IH. unfold kv at 2. rewrite !blen_app. lia.
Qed.
Lemma fold_branch_size (es : list (bytes * N)) : forall a,
  fold_left (fun acc e => acc + blen (fst e)) es a = a + blen (flat_map fst es).
Proof.
  induction es as [|e es IH]; intros a; cbn [fold_left flat_map].
  - rewrite blen_nil. lia.
  - rewrite IH. rewrite !blen_app. rewrite N.add_assoc. reflexivity.
Qed.

Lemma payload_size pad b : 40 + blen (payload_bytes pad b) = body_size b.
Proof.
  unfold body_size, page_hdr_size. f_equal. destruct b as [l|es|ids]; cbn [payload_bytes].
  - rewrite fold_leaf_size, blen_app, blen_enc_leaf_hdrs. reflexivity.
  - rewrite fold_branch_size, blen_app, blen_enc_branch_hdrs. reflexivity.
  - apply blen_flat_le8.
Qed.

(* exactly 8 slack bytes: the truncated subtraction in encode_page never truncates *)
Lemma used_length pad pid over b : blen (used_bytes pad pid over b) + 8 = body_size b.
Proof.
  unfold used_bytes. rewrite blen_app, blen_hdr_bytes, <- (payload_size pad b). lia.
Qed.

Lemma encode_page_length pad pid over b : blen (encode_page pad pid over b) = body_size b.
Proof.
  rewrite encode_page_eq. rewrite app_assoc. fold (used_bytes pad pid over b).
  rewrite blen_app, blen_padN.
  pose proof (used_length pad pid over b) as H. unfold blen in *. lia.
Qed.

Lemma At_hdr pad pid over b : At (encode_page pad pid over b) 0 (hdr_bytes pad pid over b).
Proof. rewrite encode_page_eq. apply At_here. Qed.
Lemma At_payload pad pid over b o x :
  At (payload_bytes pad b) o x -> At (encode_page pad pid over b) (32 + o) x.
Proof.
  intros H. rewrite encode_page_eq.
  replace (32 + o) with (blen (hdr_bytes pad pid over b) + o)
    by (rewrite blen_hdr_bytes; reflexivity).
  apply At_app_r, At_app_l, H.
Qed.

Lemma body_type_small b : body_type b < 256.
Proof. destruct b; cbn [body_type]; unfold type_leaf, type_branch, type_freelist; lia. Qed.

Lemma read_phdr_enc pad P pid over b rd :
  pid < 2 ^ 64 -> over < 2 ^ 64 -> body_count b < 2 ^ 64 ->
  reads_buffer rd (pid * P) (encode_page pad pid over b) ->
  read_phdr rd P pid = Ok (mkPhdr pid (body_type b) (body_count b) over).
Proof.
  intros Hpid Hover Hcnt Hrd.
  pose proof (At_hdr pad pid over b) as H. unfold hdr_bytes in H.
  apply At_split in H as [Hid H]. apply At_split in H as [Hty H].
  apply At_split in H as [_ H]. apply At_split in H as [Hc Ho].
  rewrite !blen_le_enc, blen_padN in *.
  unfold read_phdr, off_pg_id, off_pg_type, off_pg_count, off_pg_overflow.
  rewrite (rdN8_at rd _ _ _ _ pid Hrd Hid) by lia. cbn [bind].
  rewrite (rdN1_at rd _ _ _ _ _ Hrd Hty) by (try apply body_type_small; lia). cbn [bind].
  rewrite (rdN8_at rd _ _ _ _ _ Hrd Hc) by lia. cbn [bind].
  rewrite (rdN8_at rd _ _ _ _ _ Hrd Ho) by lia. cbn [bind].
  reflexivity.
Qed.

(* ------------------------------------------------------------------------------------------ *)
(* 4. Free list                                                                               *)
(* ------------------------------------------------------------------------------------------ *)

Definition lent_ok (e : lent) : Prop :=
  blen (lent_key e) < 2^64 /\ blen (lent_val e) < 2^64 /\
  match e with EBk _ r n => r < 2^64 /\ n < 2^64 | EKv _ _ => True end.
Definition body_ok (b : pbody) : Prop :=
  match b with
  | PLeaf l => Forall lent_ok l
  | PBranch es => Forall (fun e => blen (fst e) < 2^64 /\ snd e < 2^64) es
  | PFree ids => Forall (fun i => i < 2^64) ids
  end.

Lemma free_layout : forall ids i x,
  nth_error ids i = Some x -> At (flat_map (le_enc 8) ids) (8 * N.of_nat i) (le_enc 8 x).
Proof.
  induction ids as [|y ids IH]; intros [|i] x H; cbn [nth_error] in H; try discriminate;
    cbn [flat_map].
  - injection H as ->. replace (8 * N.of_nat 0) with 0 by lia. apply At_here.
  - replace (8 * N.of_nat (S i)) with (blen (le_enc 8 y) + 8 * N.of_nat i)
      by (rewrite blen_le_enc; lia).
    apply At_app_r, IH, H.
Qed.

Lemma body_count_bound b : body_count b <= body_size b.
Proof.
  rewrite <- (payload_size (fun _ => x00) b).
  destruct b as [l|es|ids]; cbn [body_count payload_bytes].
  - rewrite blen_app, blen_enc_leaf_hdrs. lia.
  - rewrite blen_app, blen_enc_branch_hdrs. lia.
  - rewrite blen_flat_le8. lia.
Qed.

Theorem codec_page_free pad P pid over ids rd :
  let b := PFree ids in
  pid < 2^64 -> over < 2^64 -> body_ok b -> body_size b < 2^64 ->
  body_size b <= (over + 1) * P ->
  reads_buffer rd (pid * P) (encode_page pad pid over b) ->
  decode_page rd P pid = Ok (mkPhdr pid (body_type b) (body_count b) over, b).
Proof.
  intros b Hpid Hover Hok Hsz Hroom Hrd.
  pose proof (body_count_bound b) as Hcb.
  unfold decode_page.
  rewrite (read_phdr_enc pad P pid over b rd) by (auto; lia).
  cbn [bind ph_id ph_type ph_count ph_overflow]. rewrite N.eqb_refl. cbn [negb].
  subst b. cbn [body_type body_count] in *.
  change (type_freelist =? type_leaf) with false.
  change (type_freelist =? type_branch) with false.
  change (type_freelist =? type_freelist) with true. cbv iota.
  pose proof (payload_size pad (PFree ids)) as Hps. cbn [payload_bytes] in Hps.
  rewrite blen_flat_le8 in Hps.
  destruct (N.ltb_spec ((over + 1) * P) (payload_off + llen ids * 8)) as [Hlt|_].
  { unfold payload_off in Hlt. lia. }
  replace (N.to_nat (llen ids)) with (List.length ids) by (unfold llen; lia).
  rewrite mapM_seqN; [reflexivity|].
  intros i x Hi.
  assert (Hlen : N.of_nat i < llen ids).
  { apply nth_error_llen in Hi. exact Hi. }
  eapply rdN8_at.
  - exact Hrd.
  - apply At_payload. cbn [payload_bytes]. apply free_layout, Hi.
  - unfold payload_off. lia.
  - cbn [body_ok] in Hok. rewrite Forall_forall in Hok. apply Hok.
    eapply nth_error_In, Hi.
Qed.

(* ------------------------------------------------------------------------------------------ *)
(* 5. Branch pages                                                                            *)
(* ------------------------------------------------------------------------------------------ *)

(* element i: its header sits at i*24 in the header array, with pos = (n-i)*24 + doff + d where d
   is the offset of its key in the packed key area *)
Lemma branch_layout : forall es i k pg n doff,
  nth_error es i = Some (k, pg) ->
  exists d,
    At (enc_branch_hdrs es n doff) (N.of_nat i * 24)
       (le_enc 8 pg ++ le_enc 8 (blen k) ++ le_enc 8 ((n - N.of_nat i) * 24 + doff + d))
    /\ At (flat_map fst es) d k.
Proof.
  induction es as [|[k0 pg0] es IH]; intros [|i] k pg n doff H; cbn [nth_error] in H;
    try discriminate; cbn [enc_branch_hdrs flat_map fst].
  - injection H as -> ->. exists 0. split.
    + replace (N.of_nat 0 * 24) with 0 by lia.
      replace ((n - N.of_nat 0) * 24 + doff + 0) with (n * branch_hdr + doff)
        by (unfold branch_hdr; lia).
      apply At_here.
    + apply At_here.
  - destruct (IH i k pg (n - 1) (doff + blen k0) H) as (d & Hh & Hd).
    exists (blen k0 + d). split.
    + replace (N.of_nat (S i) * 24)
        with (blen (le_enc 8 pg0 ++ le_enc 8 (blen k0) ++ le_enc 8 (n * branch_hdr + doff))
              + N.of_nat i * 24) by (rewrite !blen_app, !blen_le_enc; lia).
      replace ((n - N.of_nat (S i)) * 24 + doff + (blen k0 + d))
        with ((n - 1 - N.of_nat i) * 24 + (doff + blen k0) + d) by lia.
      apply At_app_r, Hh.
    + apply At_app_r, Hd.
Qed.

Lemma read_branch_elem_ok rd P h pid buf i k pg pos :
  reads_buffer rd (pid * P) buf -> blen buf <= (ph_overflow h + 1) * P ->
  At buf (32 + i * 24) (le_enc 8 pg ++ le_enc 8 (blen k) ++ le_enc 8 pos) ->
  At buf (32 + i * 24 + pos) k ->
  blen k < 2^64 -> pg < 2^64 -> pos < 2^64 ->
  read_branch_elem rd P h pid i = Ok (k, pg).
Proof.
  intros Hrd Hroom Hh Hk Hks Hpg Hpos.
  pose proof (At_bound _ _ _ Hh) as Bh. pose proof (At_bound _ _ _ Hk) as Bk.
  apply At_split in Hh as [Hp Hh]. apply At_split in Hh as [Hs Ho].
  rewrite ?blen_app, ?blen_le_enc in *.
  unfold read_branch_elem, payload_off, branch_hdr, bo_page, bo_ksz, bo_pos.
  rewrite (in_run_ok P h pid buf _ _ (32 + i * 24) Hroom) by lia. cbn [negb].
  rewrite (rdN8_at rd _ _ _ _ _ Hrd Hp) by lia. cbn [bind].
  rewrite (rdN8_at rd _ _ _ _ _ Hrd Hs) by lia. cbn [bind].
  rewrite (rdN8_at rd _ _ _ _ _ Hrd Ho) by lia. cbn [bind].
  rewrite (in_run_ok P h pid buf _ _ (32 + i * 24 + pos) Hroom) by lia. cbn [negb].
  rewrite (rd_at rd _ _ _ _ _ _ Hrd Hk) by (auto; lia). cbn [of_opt bind].
  reflexivity.
Qed.

(* explicit layout: element i's header and key both lie inside the encoded buffer (hence the run) *)
Lemma branch_elem_in_page pad pid over es i k pg :
  nth_error es i = Some (k, pg) ->
  exists pos,
    At (encode_page pad pid over (PBranch es)) (32 + N.of_nat i * 24)
       (le_enc 8 pg ++ le_enc 8 (blen k) ++ le_enc 8 pos) /\
    At (encode_page pad pid over (PBranch es)) (32 + N.of_nat i * 24 + pos) k /\
    32 + N.of_nat i * 24 + pos + blen k <= body_size (PBranch es).
Proof.
  intros Hi.
  pose proof (nth_error_llen _ _ _ Hi) as Hil.
  destruct (branch_layout es i k pg (llen es) 0 Hi) as (d & Hh & Hd).
  exists ((llen es - N.of_nat i) * 24 + 0 + d).
  assert (Hd' : At (encode_page pad pid over (PBranch es))
                   (32 + N.of_nat i * 24 + ((llen es - N.of_nat i) * 24 + 0 + d)) k).
  { replace (32 + N.of_nat i * 24 + ((llen es - N.of_nat i) * 24 + 0 + d))
      with (32 + (blen (enc_branch_hdrs es (llen es) 0) + d))
      by (rewrite blen_enc_branch_hdrs; lia).
    apply At_payload. cbn [payload_bytes]. apply At_app_r, Hd. }
  split; [|split].
  - apply At_payload. cbn [payload_bytes]. apply At_app_l, Hh.
  - exact Hd'.
  - rewrite <- (encode_page_length pad pid over). apply At_bound, Hd'.
Qed.

Theorem codec_page_branch pad P pid over es rd :
  let b := PBranch es in
  pid < 2^64 -> over < 2^64 -> body_ok b -> body_size b < 2^64 ->
  body_size b <= (over + 1) * P ->
  reads_buffer rd (pid * P) (encode_page pad pid over b) ->
  decode_page rd P pid = Ok (mkPhdr pid (body_type b) (body_count b) over, b).
Proof.
  intros b Hpid Hover Hok Hsz Hroom Hrd.
  pose proof (body_count_bound b) as Hcb.
  pose proof (encode_page_length pad pid over b) as Hlen.
  unfold decode_page.
  rewrite (read_phdr_enc pad P pid over b rd) by (auto; lia).
  cbn [bind ph_id ph_type ph_count ph_overflow]. rewrite N.eqb_refl. cbn [negb].
  pose proof (payload_size pad b) as Hps.
  subst b. cbn [body_type body_count] in *.
  change (type_branch =? type_leaf) with false.
  change (type_branch =? type_branch) with true. cbv iota.
  cbn [payload_bytes] in Hps. rewrite blen_app, blen_enc_branch_hdrs in Hps.
  destruct (N.ltb_spec ((over + 1) * P) (payload_off + llen es * branch_hdr)) as [Hlt|_].
  { unfold payload_off, branch_hdr in Hlt. lia. }
  replace (N.to_nat (llen es)) with (List.length es) by (unfold llen; lia).
  rewrite mapM_seqN; [reflexivity|].
  intros i [k pg] Hi.
  pose proof (nth_error_llen _ _ _ Hi) as Hil.
  destruct (branch_elem_in_page pad pid over es i k pg Hi) as (pos & Hh' & Hd' & Bd).
  replace (N.of_nat i) with (0 + N.of_nat i) in Hh', Hd', Bd by lia.
  cbn [body_ok] in Hok. rewrite Forall_forall in Hok.
  specialize (Hok (k, pg) (nth_error_In _ _ Hi)). cbn [fst snd] in Hok. destruct Hok as [Hk Hpg].
  eapply read_branch_elem_ok; eauto.
  - cbn [ph_overflow]. rewrite Hlen. exact Hroom.
  - lia.
Qed.

(* ------------------------------------------------------------------------------------------ *)
(* 6. Leaf pages                                                                              *)
(* ------------------------------------------------------------------------------------------ *)

Definition leaf_hdr_bytes (pad : N -> byte) (e : lent) (pos at_ : N) : bytes :=
  le_enc 1 (lent_type e) ++ padN pad (at_ + 1) 7 ++ le_enc 8 pos ++
  le_enc 8 (blen (lent_key e)) ++ le_enc 8 (blen (lent_val e)).

Lemma blen_leaf_hdr_bytes pad e pos at_ : blen (leaf_hdr_bytes pad e pos at_) = 32.
Proof. unfold leaf_hdr_bytes. rewrite !blen_app, !blen_le_enc, blen_padN. reflexivity. Qed.

Lemma leaf_layout pad : forall l i e n doff at_,
  nth_error l i = Some e ->
  exists d at',
    At (enc_leaf_hdrs pad l n doff at_) (N.of_nat i * 32)
       (leaf_hdr_bytes pad e ((n - N.of_nat i) * 32 + doff + d) at')
    /\ At (flat_map kv l) d (kv e).
Proof.
  induction l as [|e0 l IH]; intros [|i] e n doff at_ H; cbn [nth_error] in H;
    try discriminate; cbn [enc_leaf_hdrs flat_map].
  - injection H as ->. exists 0, at_. split.
    + replace (N.of_nat 0 * 32) with 0 by lia.
      replace ((n - N.of_nat 0) * 32 + doff + 0) with (n * leaf_hdr + doff)
        by (unfold leaf_hdr; lia).
      apply At_here.
    + apply At_here.
  - destruct (IH i e (n - 1) (doff + blen (lent_key e0) + blen (lent_val e0)) (at_ + leaf_hdr) H)
      as (d & at' & Hh & Hd).
    exists (blen (kv e0) + d), at'. split.
    + fold (leaf_hdr_bytes pad e0 (n * leaf_hdr + doff) at_).
      replace (N.of_nat (S i) * 32)
        with (blen (leaf_hdr_bytes pad e0 (n * leaf_hdr + doff) at_) + N.of_nat i * 32)
        by (rewrite blen_leaf_hdr_bytes; lia).
      replace ((n - N.of_nat (S i)) * 32 + doff + (blen (kv e0) + d))
        with ((n - 1 - N.of_nat i) * 32 + (doff + blen (lent_key e0) + blen (lent_val e0)) + d)
        by (unfold kv; rewrite blen_app; lia).
      apply At_app_r, Hh.
    + apply At_app_r, Hd.
Qed.

Lemma lent_type_small e : lent_type e < 256.
Proof. destruct e; cbn [lent_type]; unfold type_data, type_bucket; lia. Qed.

Lemma read_leaf_elem_ok pad rd P h pid buf i e pos at' :
  reads_buffer rd (pid * P) buf -> blen buf <= (ph_overflow h + 1) * P ->
  At buf (32 + i * 32) (leaf_hdr_bytes pad e pos at') ->
  At buf (32 + i * 32 + pos) (kv e) ->
  lent_ok e -> pos < 2^64 ->
  read_leaf_elem rd P h pid i = Ok e.
Proof.
  intros Hrd Hroom Hh Hd (Hks & Hvs & Hok) Hpos.
  pose proof (At_bound _ _ _ Hh) as Bh. rewrite blen_leaf_hdr_bytes in Bh.
  pose proof (At_bound _ _ _ Hd) as Bd. unfold kv in Bd, Hd. rewrite blen_app in Bd.
  unfold leaf_hdr_bytes in Hh.
  apply At_split in Hh as [Ht Hh]. apply At_split in Hh as [_ Hh].
  apply At_split in Hh as [Hp Hh]. apply At_split in Hh as [Hk Hv].
  apply At_split in Hd as [Hdk Hdv].
  rewrite ?blen_le_enc, ?blen_padN in *.
  unfold read_leaf_elem, payload_off, leaf_hdr, lo_type, lo_pos, lo_ksz, lo_vsz.
  rewrite (in_run_ok P h pid buf _ _ (32 + i * 32) Hroom) by lia. cbn [negb].
  rewrite (rdN1_at rd _ _ _ _ _ Hrd Ht) by (try apply lent_type_small; lia). cbn [bind].
  rewrite (rdN8_at rd _ _ _ _ _ Hrd Hp) by lia. cbn [bind].
  rewrite (rdN8_at rd _ _ _ _ _ Hrd Hk) by lia. cbn [bind].
  rewrite (rdN8_at rd _ _ _ _ _ Hrd Hv) by lia. cbn [bind].
  rewrite (in_run_ok P h pid buf _ _ (32 + i * 32 + pos) Hroom) by lia. cbn [negb].
  rewrite (rd_at rd _ _ _ _ _ _ Hrd Hdk) by (auto; lia). cbn [of_opt bind].
  rewrite (rd_at rd _ _ _ _ _ _ Hrd Hdv) by (auto; lia). cbn [of_opt bind].
  destruct e as [k v|k r n]; cbn [lent_type lent_key lent_val] in *.
  - change (type_data =? type_data) with true. reflexivity.
  - change (type_bucket =? type_data) with false.
    change (type_bucket =? type_bucket) with true. cbv iota.
    rewrite blen_app, !blen_le_enc.
    change (N.of_nat 8 + N.of_nat 8 =? bmeta_size) with true. cbn [negb].
    destruct Hok as [Hr Hn].
    unfold bm_root, bm_next.
    rewrite (rd_le_at _ 0 8 r) by (try apply At_here; exact Hr). cbn [of_opt bind].
    rewrite (rd_le_at _ 8 8 n); [cbn [of_opt bind]; reflexivity| |exact Hn].
    replace 8 with (blen (le_enc 8 r) + 0) at 1 by (rewrite blen_le_enc; reflexivity).
    apply At_app_r. rewrite <- (app_nil_r (le_enc 8 n)) at 1. apply At_here.
Qed.

(* explicit layout: element i's header and key/value bytes lie inside the encoded buffer *)
Lemma leaf_elem_in_page pad pid over l i e :
  nth_error l i = Some e ->
  exists pos at',
    At (encode_page pad pid over (PLeaf l)) (32 + N.of_nat i * 32) (leaf_hdr_bytes pad e pos at') /\
    At (encode_page pad pid over (PLeaf l)) (32 + N.of_nat i * 32 + pos) (kv e) /\
    32 + N.of_nat i * 32 + pos + blen (kv e) <= body_size (PLeaf l).
Proof.
  intros Hi.
  pose proof (nth_error_llen _ _ _ Hi) as Hil.
  destruct (leaf_layout pad l i e (llen l) 0 payload_off Hi) as (d & at' & Hh & Hd).
  exists ((llen l - N.of_nat i) * 32 + 0 + d), at'.
  assert (Hd' : At (encode_page pad pid over (PLeaf l))
                   (32 + N.of_nat i * 32 + ((llen l - N.of_nat i) * 32 + 0 + d)) (kv e)).
  { replace (32 + N.of_nat i * 32 + ((llen l - N.of_nat i) * 32 + 0 + d))
      with (32 + (blen (enc_leaf_hdrs pad l (llen l) 0 payload_off) + d))
      by (rewrite blen_enc_leaf_hdrs; lia).
    apply At_payload. cbn [payload_bytes]. apply At_app_r, Hd. }
  split; [|split].
  - apply At_payload. cbn [payload_bytes]. apply At_app_l, Hh.
  - exact Hd'.
  - rewrite <- (encode_page_length pad pid over). apply At_bound, Hd'.
Qed.

Theorem codec_page_leaf pad P pid over l rd :
  let b := PLeaf l in
  pid < 2^64 -> over < 2^64 -> body_ok b -> body_size b < 2^64 ->
  body_size b <= (over + 1) * P ->
  reads_buffer rd (pid * P) (encode_page pad pid over b) ->
  decode_page rd P pid = Ok (mkPhdr pid (body_type b) (body_count b) over, b).
Proof.
  intros b Hpid Hover Hok Hsz Hroom Hrd.
  pose proof (body_count_bound b) as Hcb.
  pose proof (encode_page_length pad pid over b) as Hlen.
  unfold decode_page.
  rewrite (read_phdr_enc pad P pid over b rd) by (auto; lia).
  cbn [bind ph_id ph_type ph_count ph_overflow]. rewrite N.eqb_refl. cbn [negb].
  pose proof (payload_size pad b) as Hps.
  subst b. cbn [body_type body_count] in *.
  change (type_leaf =? type_leaf) with true. cbv iota.
  cbn [payload_bytes] in Hps. rewrite blen_app, blen_enc_leaf_hdrs in Hps.
  destruct (N.ltb_spec ((over + 1) * P) (payload_off + llen l * leaf_hdr)) as [Hlt|_].
  { unfold payload_off, leaf_hdr in Hlt. lia. }
  replace (N.to_nat (llen l)) with (List.length l) by (unfold llen; lia).
  rewrite mapM_seqN; [reflexivity|].
  intros i e Hi.
  pose proof (nth_error_llen _ _ _ Hi) as Hil.
  destruct (leaf_elem_in_page pad pid over l i e Hi) as (pos & at' & Hh' & Hd' & Bd).
  replace (N.of_nat i) with (0 + N.of_nat i) in Hh', Hd', Bd by lia.
  cbn [body_ok] in Hok. rewrite Forall_forall in Hok.
  specialize (Hok e (nth_error_In _ _ Hi)).
  eapply read_leaf_elem_ok; eauto.
  - cbn [ph_overflow]. rewrite Hlen. exact Hroom.
  - lia.
Qed.

(* ------------------------------------------------------------------------------------------ *)
(* 7. The round-trip theorem                                                                  *)
(* ------------------------------------------------------------------------------------------ *)

Theorem codec_page : forall pad P pid over b rd,
  0 < P -> pid < 2^64 -> over < 2^64 -> body_ok b -> body_size b < 2^64 ->
  body_size b <= (over + 1) * P ->
  reads_buffer rd (pid * P) (encode_page pad pid over b) ->
  decode_page rd P pid = Ok (mkPhdr pid (body_type b) (body_count b) over, b).
Proof.
  intros pad P pid over b rd _ Hpid Hover Hok Hsz Hroom Hrd.
  destruct b as [l|es|ids].
  - apply (codec_page_leaf pad); assumption.
  - apply (codec_page_branch pad); assumption.
  - apply (codec_page_free pad); assumption.
Qed.

Print Assumptions encode_page_length.
Print Assumptions codec_page.
