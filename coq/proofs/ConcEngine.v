(* ConcEngine: the thread-level lock protocol (model/Conc.v, proofs/ConcFacts.v) connected to the storage engine with
   read transactions (model/EngineR.v, proofs/EngineReaders.v).

   1. [bound_agree]        the release bound a Conc writer computes when it reads the header
                           ([minl (S cur) readers]) IS the engine's [bound_k 0].
   2. [step_g], [project]  the engine history machine with the WRITER'S OWN bound on each transaction, and the
                           projection of a Conc schedule onto such a history; [sim_step] / [sim_run]: the simulation.
   3. [conc_engine_snapshots]  the thread-level theorem with contents. *)
From Coq Require Import List NArith Bool Arith Lia ZifyN ZifyNat ZifyBool Permutation.
From Coq.Strings Require Import Byte.
From Jamm Require Spec.
From Jamm Require Import Bytes Engine EngineAbs EnginePathFacts EngineRefines EngineOwnDefs EngineCow EngineR EngineReadersInv EngineReaders.
From Jamm Require EngineRBegin.
From Jamm Require Conc ConcFacts.
Import ListNotations.
Local Open Scope list_scope. Local Open Scope nat_scope.
Arguments N.add : simpl never. Arguments N.sub : simpl never. Arguments N.mul : simpl never.
Arguments N.min : simpl never. Arguments N.of_nat : simpl never.

(* ====================================================================== *)
(** * 1. The two release rules agree *)

Lemma minl_spec : forall l d,
  Conc.minl d l <= d /\ (forall x, In x l -> Conc.minl d l <= x) /\ (Conc.minl d l = d \/ In (Conc.minl d l) l).
Proof.
  intros l d. split; [apply ConcFacts.minl_le_d|]. split; [intros x Hx; now apply ConcFacts.minl_le_In|].
  unfold Conc.minl. revert d. induction l as [|y l IH]; intros d; cbn [fold_left]; [now left|].
  destruct (IH (Nat.min d y)) as [E|Hin]; [|right; now right].
  rewrite E. destruct (Nat.min_spec d y) as [[_ ->]|[_ ->]]; [now left | right; now left].
Qed.

Lemma min_reader_spec : forall k rs d,
  (min_reader k rs d <= d)%N /\ (forall r, In r rs -> (min_reader k rs d <= r_id r + k)%N) /\
  (min_reader k rs d = d \/ exists r, In r rs /\ min_reader k rs d = (r_id r + k)%N).
Proof.
  intros k rs d. induction rs as [|r rs (IH1 & IH2 & IH3)]; cbn [min_reader fold_right].
  - split; [lia|]. split; [intros r []|now left].
  - fold (min_reader k rs d). split; [lia|]. split.
    + intros r0 [->|Hr]; [lia|]. specialize (IH2 r0 Hr). lia.
    + destruct (N.min_spec (r_id r + k) (min_reader k rs d)) as [[_ E]|[_ E]]; rewrite E.
      * right. exists r. split; [now left | reflexivity].
      * destruct IH3 as [E3|(r0 & Hr0 & E3)]; [now left|]. right. exists r0. split; [now right | exact E3].
Qed.

(* THE ARITHMETIC GLUE: Conc's fold of [Nat.min] over the registered ids and the engine's fold of [N.min] over the
   open readers are the same number when the two collections have the same ids *)
Lemma minl_min_reader : forall (rs : list reader) (l : list nat) (d : nat),
  (forall x, In x (map r_id rs) <-> In x (map N.of_nat l)) ->
  N.of_nat (Conc.minl d l) = min_reader 0 rs (N.of_nat d).
Proof.
  intros rs l d Hset.
  destruct (minl_spec l d) as (A1 & A2 & A3). destruct (min_reader_spec 0 rs (N.of_nat d)) as (B1 & B2 & B3).
  apply N.le_antisymm.
  - destruct B3 as [->|(r & Hr & ->)]; [lia|].
    assert (Hin : In (r_id r) (map N.of_nat l)) by (apply Hset; now apply in_map).
    apply in_map_iff in Hin. destruct Hin as (x & Ex & Hx). specialize (A2 x Hx). lia.
  - destruct A3 as [->|Hin]; [exact B1|].
    assert (Hin' : In (N.of_nat (Conc.minl d l)) (map r_id rs)) by (apply Hset; now apply in_map).
    apply in_map_iff in Hin'. destruct Hin' as (r & Er & Hr). specialize (B2 r Hr). lia.
Qed.

(* the engine history state [h] and the Conc state [s] agree on the current tx id and on the open reader ids *)
Definition ids_agree (s : Conc.cstate) (h : hstate) : Prop :=
  d_tx (fst h) = N.of_nat (Conc.cur s) /\ Permutation (map r_id (snd h)) (map N.of_nat (Conc.readers s)).

Theorem bound_agree : forall s h, ids_agree s h ->
  N.of_nat (Conc.minl (S (Conc.cur s)) (Conc.readers s)) = bound_k 0 h.
Proof.
  intros s h [Hc Hp]. unfold bound_k. rewrite Hc.
  replace (N.of_nat (Conc.cur s) + 1)%N with (N.of_nat (S (Conc.cur s))) by lia.
  apply minl_min_reader. intros x. split; intros Hx.
  - eapply Permutation_in; [exact Hp | exact Hx].
  - eapply Permutation_in; [apply Permutation_sym; exact Hp | exact Hx].
Qed.

(* ... so the step a writer takes when it reads the header (atomic begin) applies exactly the engine's bound *)
Corollary writer_begin_bound : forall s i s' t h, ids_agree s h ->
  Conc.step true s i = Some s' -> nth_error (Conc.threads s) i = Some t -> Conc.t_pc t = Conc.WFl ->
  exists t', nth_error (Conc.threads s') i = Some t' /\ Conc.t_pc t' = Conc.WReg /\ Conc.t_hdr t' = Conc.cur s /\
    N.of_nat (Conc.t_wrel t') = N.max (N.of_nat (Conc.t_wrel t)) (bound_k 0 h).
Proof.
  intros s i s' t h Hag H Ht Hp. unfold Conc.step in H. rewrite Ht, Hp in H. injection H as <-.
  eexists. split; [cbn [Conc.upd Conc.threads]; eapply ConcFacts.nth_set_same; eauto|].
  cbn [Conc.t_pc Conc.t_hdr Conc.t_wrel]. split; [reflexivity|]. split; [reflexivity|].
  rewrite <- (bound_agree s h Hag). lia.
Qed.

(* ====================================================================== *)
(** * 2a. The engine history machine with the writer's OWN release bound *)

(* [EngineR.step_k k] recomputes the bound from the readers open at COMMIT time.  A real writer computes it when it
   BEGINS; readers may register and end before it commits.  [GTx b ops ord] carries the bound the writer applied. *)
Inductive gstep :=
| GBegin
| GEnd (i : nat)
| GTx (b : N) (ops : list op) (ord : list bytes).

Definition step_g (h : hstate) (e : gstep) : res hstate :=
  match e with
  | GBegin => Ok (fst h, snd h ++ [fst h])
  | GEnd i => Ok (fst h, remove_at (snd h) i)
  | GTx b ops ord => st' <- run_tx_r (fst h) b ops ord ;; Ok (st', snd h)
  end.
Definition run_g (h : hstate) (es : list gstep) : res hstate := fold_res step_g es h.

(* [step_k k] is the instance in which the bound is recomputed at commit time *)
Definition at_commit (k : N) (h : hstate) (e : hstep) : gstep :=
  match e with Begin_reader => GBegin | End_reader i => GEnd i | Tx ops ord => GTx (bound_k k h) ops ord end.
Lemma step_k_g : forall k h e, step_k k h e = step_g h (at_commit k h e).
Proof. intros k h [|i|ops ord]; reflexivity. Qed.

(* THE SAFE INEQUALITY for a transaction of the generalised machine: its bound is at most (id + 1) of every reader
   open when it commits, i.e. at most the tight bound [bound_k 1] *)
Definition safe_g (h : hstate) (e : gstep) : Prop :=
  match e with GTx b _ _ => forall r, In r (snd h) -> (b <= d_tx r + 1)%N | _ => True end.

Lemma safe_g_bound1 : forall h b ops ord, (b <= bound_k 1 h)%N -> safe_g h (GTx b ops ord).
Proof.
  intros h b ops ord Hb r Hr. unfold bound_k in Hb.
  pose proof (min_reader_le 1 (snd h) (d_tx (fst h) + 1)%N r Hr). unfold r_id in *. lia.
Qed.

Definition ops_ok_g (h : hstate) (e : gstep) : Prop :=
  match e with GTx _ ops _ => Forall (op_ok (d_disk (fst h))) ops | _ => True end.

(* the engine's side conditions along a history (cf. [EngineReaders.hist_ok]): every operation admissible where it
   is applied, every committed state readable.  NOTHING is assumed about the bounds *)
Fixpoint g_ok (h : hstate) (es : list gstep) : Prop :=
  match es with
  | [] => True
  | e :: es' => ops_ok_g h e /\ forall h1, step_g h e = Ok h1 -> readable (fst h1) /\ g_ok h1 es'
  end.

(* the committed transactions of a history, in commit order *)
Fixpoint txs_of (es : list gstep) : list (list op) :=
  match es with [] => [] | GTx _ ops _ :: es' => ops :: txs_of es' | _ :: es' => txs_of es' end.
Definition sem_commits (txs : list (list op)) (m : snode) : snode := fold_left (fun m ops => sem_tx ops m) txs m.

Lemma txs_of_app : forall a b, txs_of (a ++ b) = txs_of a ++ txs_of b.
Proof. induction a as [|[|i|b0 ops ord] a IH]; intros b; cbn [app txs_of]; rewrite ?IH; reflexivity. Qed.

Theorem g_inv_step : forall h e h1, HInv h -> ops_ok_g h e -> safe_g h e -> step_g h e = Ok h1 -> readable (fst h1) ->
  HInv h1 /\
  match e with
  | GTx _ ops _ => abs_db (fst h1) = sem_tx ops (abs_db (fst h)) /\ d_tx (fst h1) = (d_tx (fst h) + 1)%N /\ snd h1 = snd h
  | GBegin => h1 = (fst h, snd h ++ [fst h])
  | GEnd i => h1 = (fst h, remove_at (snd h) i)
  end.
Proof.
  intros [cur rs] e h1 [Hok HRs] Hops Hsafe Hstep Hrd. cbn [fst snd] in *.
  destruct e as [|i|b ops ord]; cbn [step_g fst snd] in Hstep.
  - inversion Hstep; subst h1. split; [|reflexivity]. split; [exact Hok|]. cbn [fst snd].
    apply Forall_app. split; [exact HRs|]. constructor; [now apply RI_begin | constructor].
  - inversion Hstep; subst h1. split; [|reflexivity]. split; [exact Hok|]. cbn [fst snd].
    rewrite Forall_forall in HRs |- *. intros r Hr. apply HRs. eapply remove_at_In; eauto.
  - apply EngineRBegin.bind_ok_inv in Hstep. destruct Hstep as (cur' & Hrun & E). inversion E; subst h1. clear E.
    cbn [fst snd ops_ok_g safe_g] in *.
    destruct (run_tx_r_refines cur b ops ord cur' Hok Hops Hrun Hrd) as [Hok' Habs].
    destruct (run_tx_r_write_set cur b ops ord cur' Hok Hops Hrun) as (_ & w & X & C).
    split; [|split; [exact Habs | split; [exact (tr_tx _ _ _ _ _ C) | reflexivity]]].
    split; [exact Hok'|]. cbn [fst snd]. rewrite Forall_forall in HRs |- *. intros r Hr.
    exact (RI_tx cur b ops ord cur' r Hok Hops Hrun (HRs r Hr) (Hsafe r Hr)).
Qed.

Theorem g_inv_run : forall es h h', HInv h -> g_ok h es -> (forall a e b h1, es = a ++ e :: b -> run_g h a = Ok h1 -> safe_g h1 e) ->
  run_g h es = Ok h' -> HInv h' /\ abs_db (fst h') = sem_commits (txs_of es) (abs_db (fst h)).
Proof.
  induction es as [|e es IH]; intros h h' Hinv Hok Hsafe Hrun; cbn [run_g fold_res] in Hrun.
  - inversion Hrun; subst. auto.
  - apply EngineRBegin.bind_ok_inv in Hrun. destruct Hrun as (h1 & H1 & H2). destruct Hok as [Hops Hnext].
    destruct (Hnext h1 H1) as [Hrd Hok1].
    assert (Hs : safe_g h e) by (apply (Hsafe [] e es h); reflexivity).
    destruct (g_inv_step h e h1 Hinv Hops Hs H1 Hrd) as [Hinv1 E1].
    assert (Hsafe1 : forall a e0 b h2, es = a ++ e0 :: b -> run_g h1 a = Ok h2 -> safe_g h2 e0).
    { intros a e0 b h2 -> Hr. apply (Hsafe (e :: a) e0 b h2); [reflexivity|]. cbn [run_g fold_res]. rewrite H1. exact Hr. }
    destruct (IH h1 h' Hinv1 Hok1 Hsafe1 H2) as [Hinv' E']. split; [exact Hinv'|]. rewrite E'.
    destruct e as [|i|b ops ord]; cbn [txs_of sem_commits fold_left]; try (subst h1; reflexivity).
    destruct E1 as (-> & _). reflexivity.
Qed.

(* ====================================================================== *)
(** * 2b. The projection of a Conc execution onto an engine history *)

(* ghost state of the projection: which thread owns each open engine reader (parallel to [snd h], in registration
   order), and the release bound each writer thread computed when it read the header *)
Record ghost := mkG { owners : list nat; wb : nat -> nat }.
Definition ghost0 : ghost := mkG [] (fun _ => 0).

Fixpoint index_of (j : nat) (l : list nat) : nat :=
  match l with [] => 0 | x :: l' => if Nat.eqb j x then 0 else S (index_of j l') end.

Section Projection.
Variable ops_of : nat -> list op * list bytes.       (* the client operations (and bucket order) of writer thread i *)

(* the engine event of the step of thread i in state s (if any), and the new ghost state *)
Definition emit (s : Conc.cstate) (g : ghost) (i : nat) : option gstep * ghost :=
  match nth_error (Conc.threads s) i with
  | None => (None, g)
  | Some t =>
    match Conc.t_pc t with
    | Conc.RFl => (Some GBegin, mkG (owners g ++ [i]) (wb g))
    | Conc.REnd => (Some (GEnd (index_of i (owners g))), mkG (remove_at (owners g) (index_of i (owners g))) (wb g))
    | Conc.WFl => (None, mkG (owners g)
                     (fun j => if Nat.eqb j i then Conc.minl (S (Conc.cur s)) (Conc.readers s) else wb g j))
    | Conc.CHeaderNext => (Some (GTx (N.of_nat (wb g i)) (fst (ops_of i)) (snd (ops_of i))), g)
    | _ => (None, g)
    end
  end.

Definition ocons {A} (o : option A) (l : list A) : list A := match o with Some x => x :: l | None => l end.

Fixpoint project (s : Conc.cstate) (g : ghost) (sched : list nat) : list gstep :=
  match sched with
  | [] => []
  | i :: r => match Conc.step true s i with
              | Some s' => ocons (fst (emit s g i)) (project s' (snd (emit s g i)) r)
              | None => project s g r
              end
  end.
Fixpoint ghost_run (s : Conc.cstate) (g : ghost) (sched : list nat) : ghost :=
  match sched with
  | [] => g
  | i :: r => match Conc.step true s i with
              | Some s' => ghost_run s' (snd (emit s g i)) r
              | None => ghost_run s g r
              end
  end.

(* ---------- the simulation relation ---------- *)

(* pcs at which a writer has computed its bound and not yet written its header *)
Definition wb_pc (p : Conc.pc) : bool :=
  match p with Conc.WReg | Conc.CGrow1 | Conc.CGrow2 | Conc.CGrow3 | Conc.CData | Conc.CHeaderNext => true | _ => false end.

(* thread j is a registered reader whose snapshot is the engine reader r *)
Definition owns (s : Conc.cstate) (j : nat) (r : reader) : Prop :=
  exists t, nth_error (Conc.threads s) j = Some t /\ Conc.reader_active (Conc.t_pc t) = true /\ r_id r = N.of_nat (Conc.t_hdr t).

Record Sim (s : Conc.cstate) (g : ghost) (h : hstate) : Prop := {
  sim_ids : ids_agree s h;                                  (* same current tx id, same multiset of reader ids *)
  sim_own : Forall2 (owns s) (owners g) (snd h);            (* open engine readers <-> registered reader threads *)
  sim_nodup : NoDup (owners g);
  sim_all : forall j t, nth_error (Conc.threads s) j = Some t -> Conc.reader_active (Conc.t_pc t) = true -> In j (owners g);
  sim_wb : forall i t, nth_error (Conc.threads s) i = Some t -> wb_pc (Conc.t_pc t) = true -> wb g i <= Conc.t_wrel t }.

(* the invariants of the repaired protocol proved in ConcFacts *)
Definition CInv (s : Conc.cstate) : Prop := ConcFacts.inv_mutex s /\ ConcFacts.inv_fresh s /\ ConcFacts.SInv s.

Lemma CInv_reachable : forall c0 ts s, Conc.initial_threads ts -> Conc.reachable true (Conc.init c0 ts) s -> CInv s.
Proof.
  intros c0 ts s Hts Hr. destruct (ConcFacts.C09_mutex_inv _ _ _ _ Hts Hr) as [IM _].
  split; [exact IM|]. split; [eapply ConcFacts.C09_fresh_writer_inv; eauto | eapply ConcFacts.C04_snapshots_inv; eauto].
Qed.
Lemma CInv_step : forall s i s', CInv s -> Conc.step true s i = Some s' -> CInv s'.
Proof.
  intros s i s' (IM & IF & HS) H. split; [eapply ConcFacts.inv_mutex_step; eauto|].
  split; [eapply ConcFacts.inv_fresh_step; eauto | eapply ConcFacts.SInv_step; eauto].
Qed.

Lemma Forall2_mono : forall {A B} (P Q : A -> B -> Prop) l1 l2, (forall a b, P a b -> Q a b) -> Forall2 P l1 l2 -> Forall2 Q l1 l2.
Proof. intros A B P Q l1 l2 HPQ H. induction H; constructor; auto. Qed.

Lemma owns_frame : forall s s' i t t' j r,
  nth_error (Conc.threads s) i = Some t -> Conc.threads s' = Conc.set_nth (Conc.threads s) i t' ->
  (Conc.reader_active (Conc.t_pc t) = true -> Conc.reader_active (Conc.t_pc t') = true /\ Conc.t_hdr t' = Conc.t_hdr t) ->
  owns s j r -> owns s' j r.
Proof.
  intros s s' i t t' j r Hi Hth Hact (tj & Hj & Ha & Hid). destruct (Nat.eq_dec j i) as [->|Hne].
  - rewrite Hi in Hj. injection Hj as <-. destruct (Hact Ha) as [Ha' Hh]. exists t'. rewrite Hth.
    split; [eapply ConcFacts.nth_set_same; eauto|]. split; [exact Ha' | now rewrite Hh].
  - exists tj. rewrite Hth, ConcFacts.nth_set_neq by exact Hne. auto.
Qed.

(* a step that neither registers nor deregisters a reader (the engine readers stay, the engine's current state may
   move to one with the matching tx id) *)
Lemma Sim_frame : forall s g h s' g' h' i t t',
  Sim s g h ->
  nth_error (Conc.threads s) i = Some t -> Conc.threads s' = Conc.set_nth (Conc.threads s) i t' ->
  Conc.readers s' = Conc.readers s -> d_tx (fst h') = N.of_nat (Conc.cur s') -> snd h' = snd h ->
  Conc.reader_active (Conc.t_pc t') = Conc.reader_active (Conc.t_pc t) ->
  (Conc.reader_active (Conc.t_pc t) = true -> Conc.t_hdr t' = Conc.t_hdr t) ->
  owners g' = owners g -> (forall j, j <> i -> wb g' j = wb g j) ->
  (wb_pc (Conc.t_pc t') = true -> wb g' i <= Conc.t_wrel t') ->
  Sim s' g' h'.
Proof.
  intros s g h s' g' h' i t t' [[Hc Hp] Hown Hnd Hall Hwb] Hi Hth Hrd Htx Hsnd Hact Hhdr Hog Hwo Hwi.
  constructor.
  - split; [exact Htx|]. rewrite Hsnd, Hrd. exact Hp.
  - rewrite Hog, Hsnd. eapply Forall2_mono; [|exact Hown]. intros j r Ho.
    eapply owns_frame; [exact Hi | exact Hth | | exact Ho]. intros Ha. split; [now rewrite Hact | auto].
  - now rewrite Hog.
  - intros j tj Hj Ha. rewrite Hog. rewrite Hth in Hj. apply ConcFacts.nth_set_inv in Hj.
    destruct Hj as [[-> ->]|[Hne Hj]]; [|exact (Hall j tj Hj Ha)]. apply (Hall i t Hi). now rewrite <- Hact.
  - intros j tj Hj Hw. rewrite Hth in Hj. apply ConcFacts.nth_set_inv in Hj.
    destruct Hj as [[-> ->]|[Hne Hj]]; [exact (Hwi Hw)|]. rewrite (Hwo j Hne). exact (Hwb j tj Hj Hw).
Qed.

(* ---------- list facts for registration / deregistration ---------- *)
Lemma remove_at_perm : forall {A} (l : list A) k x, nth_error l k = Some x -> Permutation l (x :: remove_at l k).
Proof.
  intros A l. induction l as [|y l IH]; intros [|k] x H; cbn [nth_error remove_at] in *; try discriminate.
  - injection H as ->. apply Permutation_refl.
  - eapply perm_trans; [apply perm_skip; apply (IH k x H) | apply perm_swap].
Qed.
Lemma remove1_perm : forall x l, In x l -> Permutation l (x :: Conc.remove1 x l).
Proof.
  intros x l. induction l as [|y l IH]; intros H; [destruct H|]. cbn [Conc.remove1].
  destruct (Nat.eqb_spec x y) as [->|Hne]; [apply Permutation_refl|].
  destruct H as [->|H]; [congruence|]. eapply perm_trans; [apply perm_skip; apply (IH H) | apply perm_swap].
Qed.
Lemma map_remove_at : forall {A B} (f : A -> B) l k, map f (remove_at l k) = remove_at (map f l) k.
Proof. intros A B f l. induction l as [|y l IH]; intros [|k]; cbn [map remove_at]; try reflexivity. now rewrite IH. Qed.
Lemma index_of_nth : forall j l, In j l -> nth_error l (index_of j l) = Some j.
Proof.
  intros j l. induction l as [|x l IH]; intros H; [destruct H|]. cbn [index_of].
  destruct (Nat.eqb_spec j x) as [->|Hne]; [reflexivity|]. destruct H as [->|H]; [congruence|]. cbn [nth_error]. auto.
Qed.
Lemma Forall2_remove_at : forall {A B} (P : A -> B -> Prop) l1 l2 k, Forall2 P l1 l2 -> Forall2 P (remove_at l1 k) (remove_at l2 k).
Proof.
  intros A B P l1 l2 k H. revert k. induction H as [|a b l1 l2 Hab H IH]; intros [|k]; cbn [remove_at]; try constructor; auto.
Qed.
Lemma Forall2_nth : forall {A B} (P : A -> B -> Prop) l1 l2 k a, Forall2 P l1 l2 -> nth_error l1 k = Some a ->
  exists b, nth_error l2 k = Some b /\ P a b.
Proof.
  intros A B P l1 l2 k a H. revert k. induction H as [|a0 b l1 l2 Hab H IH]; intros [|k] Hk; cbn [nth_error] in *; try discriminate.
  - injection Hk as ->. eauto.
  - auto.
Qed.
Lemma Forall2_nth_r : forall {A B} (P : A -> B -> Prop) l1 l2 k b, Forall2 P l1 l2 -> nth_error l2 k = Some b ->
  exists a, nth_error l1 k = Some a /\ P a b.
Proof.
  intros A B P l1 l2 k b H. revert k. induction H as [|a0 b0 l1 l2 Hab H IH]; intros [|k] Hk; cbn [nth_error] in *; try discriminate.
  - injection Hk as ->. eauto.
  - auto.
Qed.
Lemma Forall2_len : forall {A B} (P : A -> B -> Prop) l1 l2, Forall2 P l1 l2 -> length l1 = length l2.
Proof. intros A B P l1 l2 H. induction H; cbn [length]; congruence. Qed.
Lemma Forall2_mono_in : forall {A B} (P Q : A -> B -> Prop) l1 l2, (forall a b, In a l1 -> P a b -> Q a b) ->
  Forall2 P l1 l2 -> Forall2 Q l1 l2.
Proof.
  intros A B P Q l1 l2 HPQ H. induction H as [|a b l1 l2 Hab H IH]; constructor.
  - apply HPQ; [now left | exact Hab].
  - apply IH. intros a0 b0 Hin. apply HPQ. now right.
Qed.
Lemma remove_at_NoDup : forall {A} (l : list A) k, NoDup l -> NoDup (remove_at l k).
Proof.
  intros A l. induction l as [|y l IH]; intros [|k] H; cbn [remove_at]; try constructor; inversion H; subst; auto.
  intros Hin. apply remove_at_In in Hin. contradiction.
Qed.
Lemma remove_at_notin : forall {A} (l : list A) k x, NoDup l -> nth_error l k = Some x -> ~ In x (remove_at l k).
Proof.
  intros A l. induction l as [|y l IH]; intros [|k] x Hnd Hk; cbn [nth_error remove_at] in *; try discriminate; inversion Hnd; subst.
  - injection Hk as ->. assumption.
  - intros [->|Hin]; [apply nth_error_In in Hk; contradiction | exact (IH k x H2 Hk Hin)].
Qed.
Lemma remove_at_keeps : forall {A} (l : list A) k x y, nth_error l k = Some x -> In y l -> y <> x -> In y (remove_at l k).
Proof.
  intros A l. induction l as [|z l IH]; intros [|k] x y Hk Hin Hne; cbn [nth_error remove_at] in *; try discriminate.
  - injection Hk as ->. destruct Hin as [->|Hin]; [congruence | exact Hin].
  - destruct Hin as [->|Hin]; [now left | right; eapply IH; eauto].
Qed.
Lemma NoDup_app_single : forall {A} (l : list A) x, NoDup l -> ~ In x l -> NoDup (l ++ [x]).
Proof.
  intros A l x H Hx. induction H as [|y l Hy H IH]; cbn [app]; [constructor; [intros []|constructor]|].
  constructor; [|apply IH; intros Hin; apply Hx; now right].
  intros Hin. apply in_app_or in Hin. destruct Hin as [Hin|[->|[]]]; [contradiction | apply Hx; now left].
Qed.
Lemma owns_active : forall s o rs j, Forall2 (owns s) o rs -> In j o ->
  exists t, nth_error (Conc.threads s) j = Some t /\ Conc.reader_active (Conc.t_pc t) = true.
Proof.
  intros s o rs j H Hin. apply In_nth_error in Hin. destruct Hin as [k Hk].
  destruct (Forall2_nth _ _ _ _ _ H Hk) as (r & _ & t & Ht & Ha & _). eauto.
Qed.

(* ---------- the simulation: one Conc step = zero or one engine step ---------- *)
Ltac open_step H :=
  repeat match type of H with
         | context [match Conc.wr ?s with _ => _ end] => destruct (Conc.wr s) eqn:?
         | context [match Conc.fileM ?s with _ => _ end] => destruct (Conc.fileM s) eqn:?
         | context [match Conc.rd ?s with _ => _ end] => destruct (Conc.rd s) eqn:?
         end; try discriminate H; injection H as <-.

(* a writer's bound is safe for the readers open NOW, whenever it commits: it is below its [t_wrel], which ConcFacts
   keeps at most (id + 1) of every registered reader, readers that registered after the writer began included *)
Lemma sim_writer_safe : forall s g h i t, CInv s -> Sim s g h ->
  nth_error (Conc.threads s) i = Some t -> wb_pc (Conc.t_pc t) = true ->
  (N.of_nat (wb g i) <= bound_k 1 h)%N /\ Conc.t_hdr t = Conc.cur s.
Proof.
  intros s g h i t (IM & IF & HS) HSim Hi Hw. pose proof (sim_wb _ _ _ HSim i t Hi Hw) as Hle.
  assert (Hhw : ConcFacts.has_wrel (Conc.t_pc t) = true) by (destruct (Conc.t_pc t); try discriminate Hw; reflexivity).
  assert (Hhh : ConcFacts.holds_hdr (Conc.t_pc t) = true) by (destruct (Conc.t_pc t); try discriminate Hw; reflexivity).
  destruct (ConcFacts.si_wrel _ HS i t Hi Hhw) as [B1 B2]. split; [|exact (IF i t Hi Hhh)].
  destruct (sim_ids _ _ _ HSim) as [Hc Hp]. unfold bound_k.
  destruct (min_reader_spec 1 (snd h) (d_tx (fst h) + 1)%N) as (_ & _ & [->|(r & Hr & ->)]); [lia|].
  assert (Hin : In (r_id r) (map N.of_nat (Conc.readers s))) by (eapply Permutation_in; [exact Hp | now apply in_map]).
  apply in_map_iff in Hin. destruct Hin as (x & Ex & Hx). specialize (B2 x Hx). lia.
Qed.

Lemma sim_step : forall s g h i s', CInv s -> Sim s g h -> Conc.step true s i = Some s' ->
  match fst (emit s g i) with
  | None => Sim s' (snd (emit s g i)) h
  | Some e => safe_g h e /\ forall h', step_g h e = Ok h' ->
                (forall b ops ord, e = GTx b ops ord -> d_tx (fst h') = (d_tx (fst h) + 1)%N /\ snd h' = snd h) ->
                Sim s' (snd (emit s g i)) h'
  end.
Proof.
  intros s g h i s' HC HS H. pose proof HC as (IM & IF & HI).
  unfold emit. unfold Conc.step in H. destruct (nth_error (Conc.threads s) i) as [t|] eqn:Hi; [|discriminate H].
  destruct (Conc.t_pc t) eqn:Hpc; cbv iota beta zeta in H; cbn [fst snd]; open_step H.
  all: try (exfalso; destruct (ConcFacts.si_nohdr _ HI i t Hi) as [N1 N2]; congruence).
  all: try (eapply (Sim_frame s g h _ g h i t _ HS Hi);
            [ reflexivity | reflexivity | exact (proj1 (sim_ids _ _ _ HS)) | reflexivity
            | cbn [Conc.t_pc Conc.with_pc]; rewrite Hpc; try reflexivity; destruct (Conc.t_grows t); reflexivity
            | first [ reflexivity | intros Ha; rewrite Hpc in Ha; discriminate Ha ] | reflexivity | reflexivity
            | cbn [Conc.t_pc Conc.with_pc Conc.t_wrel];
              first [ discriminate | intros _; apply (sim_wb _ _ _ HS i t Hi); rewrite Hpc; reflexivity ] ]; fail).
  - (* RFl: the reader registers = Begin_reader *)
    split; [exact I|]. intros h' Hst _. cbn [step_g] in Hst. injection Hst as <-.
    destruct HS as [[Hc Hp] Hown Hnd Hall Hwb].
    constructor; cbn [owners wb Conc.cur Conc.readers Conc.threads fst snd].
    + unfold ids_agree. cbn [fst snd Conc.cur Conc.readers]. split; [exact Hc|]. rewrite map_app. cbn [map].
      eapply perm_trans; [apply Permutation_sym, Permutation_cons_append|]. unfold r_id at 1. rewrite Hc.
      apply perm_skip. exact Hp.
    + apply Forall2_app.
      * eapply Forall2_mono; [|exact Hown]. intros j r Ho. eapply owns_frame; [exact Hi | reflexivity | | exact Ho].
        intros Ha. rewrite Hpc in Ha. discriminate Ha.
      * constructor; [|constructor]. eexists. split; [eapply ConcFacts.nth_set_same; exact Hi|].
        cbn [Conc.t_pc Conc.with_pc Conc.t_hdr Conc.reader_active]. split; [reflexivity | exact Hc].
    + apply NoDup_app_single; [exact Hnd|]. intros Hin. destruct (owns_active s _ _ i Hown Hin) as (ti & Hti & Ha).
      rewrite Hi in Hti. injection Hti as <-. rewrite Hpc in Ha. discriminate Ha.
    + intros j tj Hj Ha. apply in_or_app. apply ConcFacts.nth_set_inv in Hj.
      destruct Hj as [[-> ->]|[Hne Hj]]; [right; now left | left; eapply Hall; eauto].
    + intros j tj Hj Hw. apply ConcFacts.nth_set_inv in Hj.
      destruct Hj as [[-> ->]|[Hne Hj]]; [discriminate Hw | eapply Hwb; eauto].
  - (* REnd: the reader deregisters = End_reader of its own index *)
    split; [exact I|]. intros h' Hst _. cbn [step_g] in Hst. injection Hst as <-.
    assert (Hin : In i (owners g)) by (apply (sim_all _ _ _ HS i t Hi); rewrite Hpc; reflexivity).
    pose proof (index_of_nth i _ Hin) as Hk. set (k := index_of i (owners g)) in *.
    destruct HS as [[Hc Hp] Hown Hnd Hall Hwb].
    destruct (Forall2_nth _ _ _ _ _ Hown Hk) as (r & Hr & tr & Htr & _ & Hid). rewrite Hi in Htr. injection Htr as <-.
    constructor; cbn [owners wb Conc.cur Conc.readers Conc.threads fst snd].
    + unfold ids_agree. cbn [fst snd Conc.cur Conc.readers]. split; [exact Hc|]. rewrite map_remove_at.
      assert (Hx : In (Conc.t_hdr t) (Conc.readers s)).
      { assert (Hx : In (r_id r) (map N.of_nat (Conc.readers s))).
        { eapply Permutation_in; [exact Hp|]. apply in_map. eapply nth_error_In; eauto. }
        apply in_map_iff in Hx. destruct Hx as (x & Ex & Hx). assert (x = Conc.t_hdr t) by lia. now subst x. }
      apply (Permutation_cons_inv (a := r_id r)).
      eapply perm_trans; [apply Permutation_sym, remove_at_perm; apply map_nth_error; exact Hr|].
      eapply perm_trans; [exact Hp|]. rewrite Hid.
      change (N.of_nat (Conc.t_hdr t) :: map N.of_nat (Conc.remove1 (Conc.t_hdr t) (Conc.readers s)))
        with (map N.of_nat (Conc.t_hdr t :: Conc.remove1 (Conc.t_hdr t) (Conc.readers s))).
      apply Permutation_map. now apply remove1_perm.
    + eapply Forall2_mono_in; [|apply Forall2_remove_at; exact Hown]. intros a b Ha (ta & Hta & Hact & Hida).
      assert (Hne : a <> i) by (intros ->; exact (remove_at_notin _ _ _ Hnd Hk Ha)).
      exists ta. cbn [Conc.threads]. rewrite ConcFacts.nth_set_neq by exact Hne. auto.
    + now apply remove_at_NoDup.
    + intros j tj Hj Ha. apply ConcFacts.nth_set_inv in Hj.
      destruct Hj as [[-> ->]|[Hne Hj]]; [discriminate Ha|]. eapply remove_at_keeps; [exact Hk | eapply Hall; eauto | exact Hne].
    + intros j tj Hj Hw. apply ConcFacts.nth_set_inv in Hj.
      destruct Hj as [[-> ->]|[Hne Hj]]; [discriminate Hw | eapply Hwb; eauto].
  - (* WFl: the writer reads the header and computes its bound (ghost [wb]) *)
    eapply (Sim_frame s g h _ _ h i t _ HS Hi);
      [ reflexivity | reflexivity | exact (proj1 (sim_ids _ _ _ HS)) | reflexivity
      | cbn [Conc.t_pc]; rewrite Hpc; reflexivity | intros Ha; rewrite Hpc in Ha; discriminate Ha | reflexivity | | ].
    + intros j Hne. cbn [wb]. apply Nat.eqb_neq in Hne. now rewrite Hne.
    + intros _. cbn [wb Conc.t_wrel]. rewrite Nat.eqb_refl. lia.
  - (* CHeaderNext: the commit = the engine transaction with the writer's own bound *)
    destruct (sim_writer_safe s g h i t HC HS Hi) as [Hb Hh]; [rewrite Hpc; reflexivity|].
    split; [apply safe_g_bound1; exact Hb|]. intros h' Hst Hd. destruct (Hd _ _ _ eq_refl) as [Hd1 Hd2].
    eapply (Sim_frame s g h _ g h' i t _ HS Hi);
      [ reflexivity | reflexivity | | exact Hd2 | cbn [Conc.t_pc Conc.with_pc]; rewrite Hpc; reflexivity
      | reflexivity | reflexivity | reflexivity | discriminate ].
    cbn [Conc.cur]. rewrite Hd1, (proj1 (sim_ids _ _ _ HS)), Hh. lia.
Qed.

(* ---------- what the engine history has done so far ---------- *)
(* from the committed state [st0] with no reader open; [done] = the committed transactions in commit order *)
Record Hist (st0 : db) (h : hstate) (done : list (list op)) : Prop := {
  hi_inv : HInv h;
  hi_tx : d_tx (fst h) = (d_tx st0 + N.of_nat (length done))%N;
  hi_abs : abs_db (fst h) = sem_commits done (abs_db st0);
  (* an open reader with id r began after exactly the first (r - id of st0) transactions *)
  hi_rd : forall r, In r (snd h) -> (d_tx st0 <= d_tx r)%N /\
            abs_db r = sem_commits (firstn (N.to_nat (d_tx r - d_tx st0)) done) (abs_db st0) }.

Lemma Hist_init : forall st0, db_okr st0 -> Hist st0 (st0, []) [].
Proof.
  intros st0 Hok. constructor; cbn [fst snd length].
  - split; [exact Hok | constructor].
  - lia.
  - reflexivity.
  - intros r [].
Qed.

Lemma Hist_step : forall st0 h done e h1, Hist st0 h done -> ops_ok_g h e -> safe_g h e -> step_g h e = Ok h1 ->
  readable (fst h1) -> Hist st0 h1 (done ++ txs_of [e]).
Proof.
  intros st0 h done e h1 [Hinv Htx Habs Hrd] Hops Hsafe Hstep Hread.
  destruct (g_inv_step h e h1 Hinv Hops Hsafe Hstep Hread) as [Hinv1 E1].
  destruct e as [|i|b ops ord]; cbn [txs_of]; rewrite ?app_nil_r.
  - subst h1. constructor; cbn [fst snd] in *; auto. intros r Hr. apply in_app_or in Hr.
    destruct Hr as [Hr|[<-|[]]]; [exact (Hrd r Hr)|]. split; [lia|].
    replace (N.to_nat (d_tx (fst h) - d_tx st0)) with (length done) by lia. rewrite firstn_all. exact Habs.
  - subst h1. constructor; cbn [fst snd] in *; auto. intros r Hr. apply Hrd. eapply remove_at_In; eauto.
  - destruct E1 as (Ea & Et & Es). constructor; auto.
    + rewrite Et, Htx, app_length. cbn [length]. lia.
    + rewrite Ea, Habs. unfold sem_commits. rewrite fold_left_app. reflexivity.
    + rewrite Es. intros r Hr. destruct (Hrd r Hr) as [Hge Hr']. split; [exact Hge|].
      destruct Hinv as [_ HRs]. rewrite Forall_forall in HRs. pose proof (ri_tx _ _ (HRs r Hr)) as Hle.
      rewrite firstn_app.
      replace (N.to_nat (d_tx r - d_tx st0) - length done) with 0 by lia. cbn [firstn]. rewrite app_nil_r. exact Hr'.
Qed.

(* THE SIMULATION ALONG A SCHEDULE.  The engine's side conditions [g_ok] say nothing about the bounds: that every
   transaction's bound is safe for the readers open when it commits is DERIVED from the protocol invariants *)
Theorem sim_run : forall st0 sched s g h done h', CInv s -> Sim s g h -> Hist st0 h done ->
  g_ok h (project s g sched) -> run_g h (project s g sched) = Ok h' ->
  Sim (Conc.run true s sched) (ghost_run s g sched) h' /\ Hist st0 h' (done ++ txs_of (project s g sched)).
Proof.
  intros st0. induction sched as [|i r IH]; intros s g h done h' HC HS HH Hok Hrun; cbn [project ghost_run Conc.run] in *.
  - cbn [run_g fold_res] in Hrun. injection Hrun as <-. cbn [txs_of]. rewrite app_nil_r. auto.
  - destruct (Conc.step true s i) as [s'|] eqn:Est; [|exact (IH s g h done h' HC HS HH Hok Hrun)].
    pose proof (sim_step s g h i s' HC HS Est) as Hsim. pose proof (CInv_step s i s' HC Est) as HC'.
    destruct (emit s g i) as [[e|] g'] eqn:Em; cbn [fst snd ocons] in *; [|exact (IH s' g' h done h' HC' Hsim HH Hok Hrun)].
    destruct Hsim as [Hsafe Hsim]. destruct Hok as [Hops Hnext]. cbn [run_g fold_res] in Hrun.
    apply EngineRBegin.bind_ok_inv in Hrun. destruct Hrun as (h1 & H1 & H2). destruct (Hnext h1 H1) as [Hread Hok1].
    pose proof (Hist_step st0 h done e h1 HH Hops Hsafe H1 Hread) as HH1.
    assert (HS1 : Sim s' g' h1).
    { apply Hsim; [exact H1|]. intros b ops ord ->.
      destruct (g_inv_step h _ h1 (hi_inv _ _ _ HH) Hops Hsafe H1 Hread) as [_ (_ & Et & Es)]. auto. }
    destruct (IH s' g' h1 _ h' HC' HS1 HH1 Hok1 H2) as [A B]. split; [exact A|].
    change (e :: project s' g' r) with ([e] ++ project s' g' r). rewrite txs_of_app, app_assoc. exact B.
Qed.

Lemma Sim_init : forall c0 ts st0, Conc.initial_threads ts -> d_tx st0 = N.of_nat c0 -> Sim (Conc.init c0 ts) ghost0 (st0, []).
Proof.
  intros c0 ts st0 Hts Htx.
  assert (Hpc : forall j t, nth_error ts j = Some t -> Conc.t_pc t = Conc.WStart \/ Conc.t_pc t = Conc.RStart)
    by (intros j t Hj; eapply ConcFacts.initial_not_in_section; eauto).
  constructor; cbn [Conc.init Conc.threads ghost0 owners wb fst snd].
  - split; [exact Htx | apply Permutation_refl].
  - constructor.
  - constructor.
  - intros j t Hj Ha. destruct (Hpc j t Hj) as [E|E]; rewrite E in Ha; discriminate Ha.
  - intros j t Hj Ha. destruct (Hpc j t Hj) as [E|E]; rewrite E in Ha; discriminate Ha.
Qed.

(* ====================================================================== *)
(** * 3. The thread-level theorem with contents *)

(* Any number of reader and writer threads, any schedule, any assignment of operations to the writer threads.  The
   projected engine history starts from a committed state [st0] (tx id c0) satisfying the engine invariant; the only
   hypotheses on it are the engine's side conditions (operations admissible, committed states readable, the run does
   not fail).  Then, in the state reached:
   - every REGISTERED READER THREAD j owns an open engine reader r (at j's index in the ghost owner list) whose id is
     the header id the thread read; every page of r's snapshot is byte-identical on the CURRENT engine disk; r's
     root, read on the current disk, means r's contents; and these are the reference contents after exactly the
     first (t_hdr - c0) committed transactions, i.e. those committed before the thread registered;
   - the current engine state satisfies the invariant, has tx id [cur], and means the reference contents after all
     committed transactions in commit order; the number of commits is cur - c0. *)
Theorem conc_engine_snapshots : forall c0 ts st0 sched h',
  Conc.initial_threads ts -> db_okr st0 -> d_tx st0 = N.of_nat c0 ->
  let s0 := Conc.init c0 ts in
  let es := project s0 ghost0 sched in
  let s := Conc.run true s0 sched in
  let g := ghost_run s0 ghost0 sched in
  g_ok (st0, []) es -> run_g (st0, []) es = Ok h' ->
  (forall j t, nth_error (Conc.threads s) j = Some t -> Conc.reader_active (Conc.t_pc t) = true ->
     exists r, nth_error (snd h') (index_of j (owners g)) = Some r /\
       d_tx r = N.of_nat (Conc.t_hdr t) /\ c0 <= Conc.t_hdr t <= Conc.cur s /\
       (forall p, In p (snap r) -> dget (d_disk (fst h')) p = dget (d_disk r) p) /\
       fpg 16 (d_disk (fst h')) (d_root r) = Rof r /\
       abs_bucket 16 (d_disk (fst h')) (d_root r) (d_next r) = abs_db r /\
       abs_db (reader_view (fst h') r) = abs_db r /\
       abs_db r = sem_commits (firstn (Conc.t_hdr t - c0) (txs_of es)) (abs_db st0)) /\
  length (snd h') = length (owners g) /\
  db_okr (fst h') /\ d_tx (fst h') = N.of_nat (Conc.cur s) /\ Conc.cur s = c0 + length (txs_of es) /\
  abs_db (fst h') = sem_commits (txs_of es) (abs_db st0).
Proof.
  intros c0 ts st0 sched h' Hts Hok0 Htx0 s0 es s g Hok Hrun.
  assert (HC0 : CInv s0) by (apply (CInv_reachable c0 ts); [exact Hts | constructor]).
  destruct (sim_run st0 sched s0 ghost0 (st0, []) [] h' HC0 (Sim_init c0 ts st0 Hts Htx0) (Hist_init st0 Hok0) Hok Hrun)
    as [HS HH].
  cbn [app] in HH. fold es s g in HS, HH. destruct HH as [[Hokr HRs] Htx Habs Hrd]. destruct HS as [[Hc Hp] Hown Hnd Hall Hwb].
  assert (Hcur : Conc.cur s = c0 + length (txs_of es)) by lia.
  split; [|split; [symmetry; eapply Forall2_len; exact Hown | auto]].
  intros j t Hj Ha. pose proof (index_of_nth j _ (Hall j t Hj Ha)) as Hk.
  destruct (Forall2_nth _ _ _ _ _ Hown Hk) as (r & Hr & tj & Htj & _ & Hid). rewrite Hj in Htj. injection Htj as <-.
  assert (Hin : In r (snd h')) by (eapply nth_error_In; eauto).
  exists r. split; [exact Hr|]. unfold r_id in Hid. split; [exact Hid|]. destruct (Hrd r Hin) as [Hge Hsem].
  rewrite Forall_forall in HRs. pose proof (ri_tx _ _ (HRs r Hin)) as Hle. split; [lia|].
  destruct (RI_frozen (fst h') r (HRs r Hin)) as (A & _ & C & _ & D & E).
  split; [exact A|]. split; [exact C|]. split; [exact D|]. split; [exact E|].
  replace (Conc.t_hdr t - c0) with (N.to_nat (d_tx r - d_tx st0)) by lia. exact Hsem.
Qed.

(* ---------- "at every point of the execution": prefixes of a schedule ---------- *)
Lemma run_app : forall a b s, Conc.run true s (a ++ b) = Conc.run true (Conc.run true s a) b.
Proof. induction a as [|i a IH]; intros b s; cbn [app Conc.run]; [reflexivity|]. destruct (Conc.step true s i); apply IH. Qed.
Lemma ghost_run_app : forall a b s g, ghost_run s g (a ++ b) = ghost_run (Conc.run true s a) (ghost_run s g a) b.
Proof. induction a as [|i a IH]; intros b s g; cbn [app Conc.run ghost_run]; [reflexivity|]. destruct (Conc.step true s i); apply IH. Qed.
Lemma project_app : forall a b s g,
  project s g (a ++ b) = project s g a ++ project (Conc.run true s a) (ghost_run s g a) b.
Proof.
  induction a as [|i a IH]; intros b s g; cbn [app Conc.run ghost_run project]; [reflexivity|].
  destruct (Conc.step true s i); [|apply IH]. rewrite IH. destruct (fst (emit s g i)); reflexivity.
Qed.
Lemma run_g_app : forall a b h h', run_g h (a ++ b) = Ok h' -> exists h1, run_g h a = Ok h1 /\ run_g h1 b = Ok h'.
Proof.
  induction a as [|e a IH]; intros b h h' H; cbn [app run_g fold_res] in *; [eauto|].
  apply EngineRBegin.bind_ok_inv in H. destruct H as (h1 & H1 & H2). destruct (IH b h1 h' H2) as (h2 & A & B).
  exists h2. rewrite H1. auto.
Qed.
Lemma g_ok_app : forall a b h, g_ok h (a ++ b) -> g_ok h a.
Proof.
  induction a as [|e a IH]; intros b h H; cbn [app g_ok] in *; [exact I|]. destruct H as [H1 H2]. split; [exact H1|].
  intros h1 Hs. destruct (H2 h1 Hs) as [Hr Hk]. split; [exact Hr | eapply IH; exact Hk].
Qed.

(* the hypotheses of [conc_engine_snapshots] for a schedule give them for every prefix: the theorem holds at
   every point of the execution *)
Corollary prefix_hyps : forall c0 ts st0 pre post h',
  let s0 := Conc.init c0 ts in
  g_ok (st0, []) (project s0 ghost0 (pre ++ post)) -> run_g (st0, []) (project s0 ghost0 (pre ++ post)) = Ok h' ->
  g_ok (st0, []) (project s0 ghost0 pre) /\ exists h1, run_g (st0, []) (project s0 ghost0 pre) = Ok h1.
Proof.
  intros c0 ts st0 pre post h' s0 Hok Hrun. rewrite project_app in Hok, Hrun.
  split; [eapply g_ok_app; exact Hok|]. destruct (run_g_app _ _ _ _ Hrun) as (h1 & H1 & _). eauto.
Qed.

(* ---------- which engine state a reader thread owns ---------- *)
Lemma index_of_app_in : forall j l l', In j l -> index_of j (l ++ l') = index_of j l.
Proof.
  intros j l l'. induction l as [|x l IH]; intros H; [destruct H|]. cbn [app index_of].
  destruct (Nat.eqb_spec j x) as [->|Hne]; [reflexivity|]. destruct H as [->|H]; [congruence|]. now rewrite IH.
Qed.
Lemma index_of_app_notin : forall j l, ~ In j l -> index_of j (l ++ [j]) = length l.
Proof.
  intros j l. induction l as [|x l IH]; intros H; cbn [app index_of length]; [now rewrite Nat.eqb_refl|].
  destruct (Nat.eqb_spec j x) as [->|Hne]; [exfalso; apply H; now left|]. rewrite IH; [reflexivity|]. intros Hin. apply H. now right.
Qed.
Lemma remove_at_lookup : forall {B} l (l2 : list B) k j, In j l -> index_of j l <> k ->
  nth_error (remove_at l2 k) (index_of j (remove_at l k)) = nth_error l2 (index_of j l).
Proof.
  intros B l. induction l as [|x l IH]; intros l2 k j Hin Hne; [destruct Hin|].
  destruct k as [|k]; cbn [remove_at index_of] in *.
  - destruct (Nat.eqb_spec j x) as [->|Hjx]; [congruence|]. destruct Hin as [->|Hin]; [congruence|].
    destruct l2 as [|b l2]; cbn [remove_at nth_error]; [now destruct (index_of j l)|reflexivity].
  - destruct (Nat.eqb_spec j x) as [->|Hjx].
    + destruct l2 as [|b l2]; reflexivity.
    + destruct Hin as [->|Hin]; [congruence|]. destruct l2 as [|b l2]; cbn [remove_at nth_error]; [reflexivity|].
      apply IH; [exact Hin | congruence].
Qed.

(* when thread i registers (its [RFl] step), the engine reader it owns from then on is the engine's CURRENT state *)
Theorem reader_registers : forall s g h i t, Sim s g h -> nth_error (Conc.threads s) i = Some t -> Conc.t_pc t = Conc.RFl ->
  fst (emit s g i) = Some GBegin /\
  forall h1, step_g h GBegin = Ok h1 -> nth_error (snd h1) (index_of i (owners (snd (emit s g i)))) = Some (fst h).
Proof.
  intros s g h i t HS Hi Hpc. unfold emit. rewrite Hi, Hpc. cbn [fst snd owners]. split; [reflexivity|].
  intros h1 Hst. cbn [step_g] in Hst. injection Hst as <-. cbn [snd].
  assert (Hni : ~ In i (owners g)).
  { intros Hin. destruct (owns_active s _ _ i (sim_own _ _ _ HS) Hin) as (ti & Hti & Ha).
    rewrite Hi in Hti. injection Hti as <-. rewrite Hpc in Ha. discriminate Ha. }
  rewrite (index_of_app_notin i _ Hni), (Forall2_len _ _ _ (sim_own _ _ _ HS)).
  rewrite nth_error_app2 by lia. now rewrite Nat.sub_diag.
Qed.

(* ... and no step other than its own [REnd] changes the engine reader a registered thread owns *)
Theorem reader_stable_step : forall s g h i j s' h1, Sim s g h -> In j (owners g) -> Conc.step true s i = Some s' ->
  (forall t, i = j -> nth_error (Conc.threads s) i = Some t -> Conc.t_pc t <> Conc.REnd) ->
  match fst (emit s g i) with None => h1 = h | Some e => step_g h e = Ok h1 end ->
  nth_error (snd h1) (index_of j (owners (snd (emit s g i)))) = nth_error (snd h) (index_of j (owners g)).
Proof.
  intros s g h i j s' h1 HS Hj Hst Hnot. unfold emit. unfold Conc.step in Hst.
  destruct (nth_error (Conc.threads s) i) as [t|] eqn:Hi; [|discriminate Hst]. clear Hst.
  destruct (Conc.t_pc t) eqn:Hpc; cbn [fst snd owners]; intros H1; try (subst h1; reflexivity).
  - cbn [step_g] in H1. injection H1 as <-. cbn [snd]. rewrite (index_of_app_in j _ _ Hj).
    apply nth_error_app1. rewrite <- (Forall2_len _ _ _ (sim_own _ _ _ HS)). apply nth_error_Some.
    rewrite (index_of_nth j _ Hj). discriminate.
  - cbn [step_g] in H1. injection H1 as <-. cbn [snd].
    assert (Hin : In i (owners g)) by (apply (sim_all _ _ _ HS i t Hi); rewrite Hpc; reflexivity).
    apply remove_at_lookup; [exact Hj|]. intros E.
    pose proof (index_of_nth j _ Hj) as A. pose proof (index_of_nth i _ Hin) as B. rewrite E, B in A. injection A as A.
    exact (Hnot t A eq_refl Hpc).
  - cbn [step_g] in H1. apply EngineRBegin.bind_ok_inv in H1. destruct H1 as (st' & _ & E). injection E as <-. reflexivity.
Qed.

End Projection.

(* ====================================================================== *)
(** * 4. The writer's bound is NOT in general the engine's [bound_k 0] AT COMMIT TIME (why [GTx] carries its own) *)

(* (a) a reader registers between the writer's header read and its commit: the writer applied cur + 1 (no reader was
   open), [step_k 0] at commit would apply cur (the new reader's id): the writer's bound is LARGER (it is [bound_k 1]) *)
Example late_reader_bound :
  let s0 := Conc.init 3 [Conc.writer0 false; Conc.reader0] in
  let sch := [0;0;0] ++ [1;1;1] ++ [0;0] in          (* writer reads the header; reader registers; writer at CHeaderNext *)
  let s := Conc.run true s0 sch in
  let g := ghost_run (fun _ => ([], [])) s0 ghost0 sch in   (* the ghost bounds do not depend on the operations *)
  option_map Conc.t_pc (nth_error (Conc.threads s) 0) = Some Conc.CHeaderNext /\
  wb g 0 = 4 /\ Conc.minl (S (Conc.cur s)) (Conc.readers s) = 3.
Proof. vm_compute. auto. Qed.

(* (b) a reader ends between the writer's header read and its commit: the writer applied the reader's id, [step_k 0]
   at commit would apply cur + 1: the writer's bound is SMALLER (more pages stay pending) *)
Example ended_reader_bound :
  let s0 := Conc.init 3 [Conc.writer0 false; Conc.reader0] in
  let sch := [1;1;1] ++ [0;0;0] ++ [1;1;1] ++ [0;0] in
  let s := Conc.run true s0 sch in
  let g := ghost_run (fun _ => ([], [])) s0 ghost0 sch in   (* the ghost bounds do not depend on the operations *)
  option_map Conc.t_pc (nth_error (Conc.threads s) 0) = Some Conc.CHeaderNext /\
  wb g 0 = 3 /\ Conc.minl (S (Conc.cur s)) (Conc.readers s) = 4.
Proof. vm_compute. auto. Qed.

Print Assumptions bound_agree.
Print Assumptions writer_begin_bound.
Print Assumptions g_inv_run.
Print Assumptions sim_step.
Print Assumptions sim_run.
Print Assumptions conc_engine_snapshots.
Print Assumptions prefix_hyps.
Print Assumptions reader_registers.
Print Assumptions reader_stable_step.
Print Assumptions late_reader_bound.
Print Assumptions ended_reader_bound.
