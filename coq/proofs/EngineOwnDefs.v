(* Shared definitions of the allocation-invariant layer (EngineAllocInv): footprints of committed bucket trees,
   the no-sharing invariant, the strengthened committed-state invariant [db_ok'], and the ownership invariant
   [OwnI] of the transaction overlay. *)
From Coq Require Import List NArith Bool Arith Lia ZifyN ZifyNat ZifyBool Permutation.
From Coq.Strings Require Import Byte.
From Jamm Require Spec.
From Jamm Require Import Bytes BytesFacts Tree Cursor SearchFacts Engine EngineAbs EngineFacts EngineMergeFacts.
From Jamm Require Import EngineModifyFacts EngineSpillFacts EnginePathFacts EngineBridgeFacts EngineRebalanceFacts.
From Jamm Require FreelistFacts EngineAllocFacts EngineSpillWfFacts.
From Jamm Require Import EngineTxInvFacts EngineSpillBucketFacts EngineRefines.
Import ListNotations.
Import Coq.Strings.String.StringSyntax. Delimit Scope string_scope with string.
Local Open Scope list_scope. Local Open Scope nat_scope.
Set Warnings "-abstract-large-number".
Arguments N.add : simpl never. Arguments N.sub : simpl never. Arguments N.mul : simpl never.
Arguments N.div : simpl never. Arguments N.ltb : simpl never. Arguments N.leb : simpl never.
Arguments N.eqb : simpl never.

(* ====================================================================== *)
(** * 1. Footprints *)

(* the page runs (head and overflow pages) of a list of head pages *)
Definition runs (d : disk) (ps : list N) : list N := flat_map (prun d) ps.

(* head pages of the bucket tree rooted at r, nested buckets included, to nesting depth n *)
Fixpoint fpg (n : nat) (d : disk) (r : N) : list N :=
  match n with
  | O => []
  | S n' => (r :: ppages fuel0 d r) ++
            flat_map (fun e => match e with LBk _ r' _ => fpg n' d r' | LKv _ _ => [] end) (page_ents fuel0 d r)
  end.

(* the pages (runs) of the tree of ONE committed bucket / of the bucket with everything nested in it;
   the root page 0 stands for "no committed bucket" (a bucket created by the running transaction) *)
Definition region (d : disk) (r0 : N) : list N :=
  if (r0 =? 0)%N then [] else runs d (r0 :: ppages fuel0 d r0).
Definition foot (d : disk) (n : nat) (r0 : N) : list N :=
  if (r0 =? 0)%N then [] else runs d (fpg n d r0).

(* the canonical allocated set of a committed state *)
Definition Rof (st : db) : list N := fpg 16 (d_disk st) (d_root st).

(* every pending batch belongs to a committed transaction: the next [begin_w] releases all of them *)
Definition pend_le (st : db) : Prop := Forall (fun b : N * list N => (fst b <= d_tx st)%N) (d_pending st).

(* the strengthened invariant of committed states: strict trees; the allocation invariant for the canonical
   set; NO SHARING: the page runs of all reachable pages and the free-list run are pairwise disjoint;
   no pending batch of a future transaction *)
Definition db_ok' (st : db) : Prop :=
  db_strict st /\ alloc_ok st (Rof st) /\ NoDup (live_of st (Rof st)) /\ pend_le st.

Lemma db_ok'_db_ok : forall st, db_ok' st -> db_ok st.
Proof. intros st (A & B & _). split; [exact A | exists (Rof st); exact B]. Qed.

(* ====================================================================== *)
(** * 2. Deciding [db_ok'] on concrete states (given strictness) *)

Fixpoint nodupb (l : list N) : bool :=
  match l with [] => true | x :: l' => negb (memb x l') && nodupb l' end.
Lemma nodupb_ok : forall l, nodupb l = true -> NoDup l.
Proof.
  induction l as [|x l IH]; intros H; [constructor|]. cbn [nodupb] in H. apply andb_true_iff in H. destruct H as [H1 H2].
  constructor; [apply memb_false; now apply negb_true_iff | now apply IH].
Qed.

Definition pend_leb (st : db) : bool := forallb (fun b : N * list N => (fst b <=? d_tx st)%N) (d_pending st).
Lemma pend_leb_ok : forall st, pend_leb st = true -> pend_le st.
Proof.
  intros st H. unfold pend_leb in H. rewrite forallb_forall in H. apply Forall_forall. intros b Hb.
  specialize (H b Hb). lia.
Qed.

Definition db_ok'b (st : db) : bool :=
  alloc_okb st (Rof st) && nodupb (live_of st (Rof st)) && pend_leb st.
Lemma db_ok'b_ok : forall st, db_strict st -> db_ok'b st = true -> db_ok' st.
Proof.
  intros st Hs H. unfold db_ok'b in H. apply andb_true_iff in H. destruct H as [H H3].
  apply andb_true_iff in H. destruct H as [H1 H2].
  split; [exact Hs|]. split; [now apply alloc_okb_ok|]. split; [now apply nodupb_ok | now apply pend_leb_ok].
Qed.

(* ====================================================================== *)
(** * 3. Ownership of the transaction overlay *)

(* the head pages an overlay bucket's own tree refers to: the page its root node was read from (if any) and
   every page named by a branch entry at or below the root (materialised or not); for a bucket whose root was
   not loaded, the committed pages of its tree *)
Definition bheads (d : disk) (b : bucket) : list N :=
  match b_rootn b with
  | Some n => (if (n_page n =? 0)%N then [] else [n_page n]) ++ npages fuel0 d n
  | None => b_root_page b :: ppages fuel0 d (b_root_page b)
  end.
Definition bown (d : disk) (b : bucket) : list N := runs d (bheads d b).

(* every materialised node that has a page carries exactly the run of that page on the committed disk *)
Inductive pg_ok (d : disk) : node -> Prop :=
| pg_ok_node : forall n,
    (n_page n <> 0%N -> exists a, dget d (n_page n) = Some a /\ n_np n = (ap_over a + 1)%N) ->
    (forall k, In k (n_kids n) -> pg_ok d k) -> pg_ok d n.
Definition bpg_ok (d : disk) (b : bucket) : Prop :=
  match b_rootn b with Some n => pg_ok d n | None => True end.

(* [OwnI d n s b r0]: the overlay bucket [b] stems from the committed bucket rooted at page [r0] (0: created by
   this transaction); [n] bounds the nesting depth below. The committed bucket is strict and has no shared page;
   the pages [b]'s own tree refers to are distinct pages of the committed tree of [r0], none handed back by this
   transaction; a nested-bucket entry of [b] either was created by this transaction (root 0) or is an entry of the
   committed bucket; the committed trees of the entries that are not opened are untouched; the opened
   sub-buckets satisfy the same, each relative to the root its entry names. *)
Fixpoint OwnI (d : disk) (n : nat) (s : txs) (b : bucket) (r0 : N) : Prop :=
  match n with
  | O => False
  | S n' =>
      (r0 = 0%N \/ sbk (S n') d r0) /\ NoDup (foot d (S n') r0) /\ bpg_ok d b /\
      exists l, bucket_view d b l /\
        NoDup (bown d b) /\
        (forall x, In x (bown d b) -> In x (region d r0) /\ freed_in_tx s x = false) /\
        (forall k r nx, In (LBk k r nx) l -> r = 0%N \/ In (LBk k r nx) (page_ents fuel0 d r0)) /\
        (forall k r nx, In (LBk k r nx) l -> sub_find k (b_subs b) = None ->
           forall x, In x (foot d n' r) -> freed_in_tx s x = false) /\
        (forall k sb, In (k, sb) (b_subs b) -> exists r nx, In (LBk k r nx) l /\ OwnI d n' s sb r)
  end.

(* a boolean rendering, for sanity checks on concrete overlays (the view is computed with [view_leaves] /
   [page_ents]; [sbk] and [pg_ok] are not checked) *)
Definition bview_of (d : disk) (b : bucket) : list leafent :=
  match b_rootn b with Some n => view_leaves fuel0 d n | None => page_ents fuel0 d (b_root_page b) end.
Definition lbk_eqb (k : bytes) (r nx : N) (e : leafent) : bool :=
  match e with LBk k' r' nx' => beq k k' && (r =? r')%N && (nx =? nx')%N | LKv _ _ => false end.
Fixpoint ownib (d : disk) (n : nat) (s : txs) (b : bucket) (r0 : N) : bool :=
  match n with
  | O => false
  | S n' =>
      let l := bview_of d b in
      nodupb (foot d (S n') r0) && nodupb (bown d b) &&
      forallb (fun x => memb x (region d r0) && negb (freed_in_tx s x)) (bown d b) &&
      forallb (fun e => match e with
                        | LKv _ _ => true
                        | LBk k r nx =>
                            ((r =? 0)%N || existsb (lbk_eqb k r nx) (page_ents fuel0 d r0)) &&
                            match sub_find k (b_subs b) with
                            | None => forallb (fun x => negb (freed_in_tx s x)) (foot d n' r)
                            | Some sb => ownib d n' s sb r
                            end
                        end) l &&
      forallb (fun x => existsb (fun e => match e with LBk k _ _ => beq k (fst x) | _ => false end) l) (b_subs b)
  end.

(* ====================================================================== *)
(** * 4. The pages written by the running transaction *)

(* the page run of the page image written for (size, data) at q: [prun] of q on the disk built by [commit] *)
Definition wrun (P : N) (q : N) (v : N * ndata) : list N := nrun q (ap_over (mk_apage P v) + 1).

(* pending pages are below the high-water mark and not free (they MAY be live: the old pages this transaction
   hands back stay in [live_of st R]) *)
Definition pend_ok0 (s : txs) : Prop :=
  forall x, In x (pend_all (pending s)) -> (x < np s)%N /\ ~ In x (free s).

(* every page run written by the transaction so far is allocated (in range, not free, not live); two written
   pages do not overlap; a run is handed back as a whole, head included *)
Record wr_ok (live : list N) (s : txs) : Prop := {
  wo_range : forall q v x, wr_get (wr s) q = Some v -> In x (wrun (psz s) q v) ->
               (2 <= x < np s)%N /\ ~ In x (free s) /\ ~ In x live;
  wo_disj : forall q1 v1 q2 v2 x, wr_get (wr s) q1 = Some v1 -> wr_get (wr s) q2 = Some v2 ->
               In x (wrun (psz s) q1 v1) -> In x (wrun (psz s) q2 v2) -> q1 = q2;
  wo_freed : forall q v x, wr_get (wr s) q = Some v -> In x (wrun (psz s) q v) ->
               freed_in_tx s x = true -> freed_in_tx s q = true }.

Lemma wr_ok_nil : forall live s, wr s = [] -> wr_ok live s.
Proof. intros live s E. constructor; intros; rewrite E in *; discriminate. Qed.

Lemma prun_written : forall w P d q v, wr_get w q = Some v -> prun (apply_wr w P d) q = wrun P q v.
Proof. intros w P d q v H. unfold prun, wrun. rewrite (dget_apply_wr_some _ _ _ _ _ H). reflexivity. Qed.

Lemma prun_unwritten : forall w P d q, wr_get w q = None -> prun (apply_wr w P d) q = prun d q.
Proof. intros w P d q H. unfold prun. rewrite (dget_apply_wr_none _ _ _ _ H). reflexivity. Qed.

(* ====================================================================== *)
(** * 5. Basic facts about footprints *)

Lemma In_runs : forall d ps x, In x (runs d ps) <-> exists q, In q ps /\ In x (prun d q).
Proof. intros d ps x. unfold runs. apply in_flat_map. Qed.

Lemma runs_app : forall d a b, runs d (a ++ b) = runs d a ++ runs d b.
Proof. intros. unfold runs. apply flat_map_app. Qed.

Lemma fpg_S : forall n d r, fpg (S n) d r = (r :: ppages fuel0 d r) ++
  flat_map (fun e => match e with LBk _ r' _ => fpg n d r' | LKv _ _ => [] end) (page_ents fuel0 d r).
Proof. reflexivity. Qed.

Lemma runs_flat_map : forall {A} d (g : A -> list N) l, runs d (flat_map g l) = flat_map (fun a => runs d (g a)) l.
Proof.
  intros A d g l. induction l as [|a l IH]; [reflexivity|]. cbn [flat_map]. rewrite runs_app, IH. reflexivity.
Qed.

(* the footprint of a committed bucket: its own tree, then the footprints of the nested buckets *)
Lemma foot_S : forall d n r0, r0 <> 0%N ->
  (forall k r nx, In (LBk k r nx) (page_ents fuel0 d r0) -> r <> 0%N) ->
  foot d (S n) r0 = region d r0 ++
    flat_map (fun e => match e with LBk _ r _ => foot d n r | LKv _ _ => [] end) (page_ents fuel0 d r0).
Proof.
  intros d n r0 Hr Hnz. unfold foot, region. destruct (N.eqb_spec r0 0) as [E|_]; [contradiction|].
  rewrite fpg_S, runs_app, runs_flat_map. f_equal. apply flat_map_ext_in. intros [k v|k r nx] He; [reflexivity|].
  destruct (N.eqb_spec r 0) as [E|_]; [exfalso; eapply Hnz; eauto | reflexivity].
Qed.

Lemma region_foot : forall d n r0 x, In x (region d r0) -> In x (foot d (S n) r0).
Proof.
  intros d n r0 x. unfold region, foot. destruct (r0 =? 0)%N; [intros []|]. rewrite fpg_S, runs_app.
  intros H. apply in_or_app. now left.
Qed.

Lemma sub_foot : forall d n r0 k r nx x, r0 <> 0%N -> In (LBk k r nx) (page_ents fuel0 d r0) ->
  In x (foot d n r) -> In x (foot d (S n) r0).
Proof.
  intros d n r0 k r nx x Hr He Hx. unfold foot in *. destruct (N.eqb_spec r0 0) as [E|_]; [contradiction|].
  destruct (r =? 0)%N; [destruct Hx|]. rewrite fpg_S, runs_app, runs_flat_map. apply in_or_app. right.
  apply in_flat_map. exists (LBk k r nx). split; [exact He | exact Hx].
Qed.

(* ====================================================================== *)
(** * 6. The batch ids of the pending list *)

(* no pending batch is filed under a transaction id beyond the running one *)
Definition pend_ids_ok (s : txs) : Prop := Forall (fun b : N * list N => (fst b <= txid s)%N) (pending s).

Lemma pend_add_ids : forall t p l (Q : N -> Prop), Q t -> Forall (fun b : N * list N => Q (fst b)) l ->
  Forall (fun b : N * list N => Q (fst b)) (pend_add t p l).
Proof.
  intros t p l Q Ht. induction l as [|[u ps] l IH]; intros H; cbn [pend_add].
  - constructor; [exact Ht | constructor].
  - inversion H as [|? ? H1 H2]; subst. destruct (u =? t)%N; [constructor; assumption|].
    destruct (t <? u)%N; [constructor; [exact Ht | exact H] | constructor; [exact H1 | now apply IH]].
Qed.

Lemma free_run_pend_ids : forall k s p, pend_ids_ok s -> pend_ids_ok (free_run s p k).
Proof.
  induction k as [|k IH]; intros s p H; cbn [free_run]; [exact H|].
  destruct (freed_in_tx s p); [now apply IH|]. apply IH. unfold pend_ids_ok in *. cbn [pending txid upd_pending].
  apply (pend_add_ids (txid s) p (pending s) (fun u => (u <= txid s)%N)); [lia | exact H].
Qed.

Lemma free_pages_pend_ids : forall s p n, pend_ids_ok s -> pend_ids_ok (free_pages s p n).
Proof. intros s p n H. unfold free_pages. now apply free_run_pend_ids. Qed.

Lemma free_node_page_pend_ids : forall s n, pend_ids_ok s -> pend_ids_ok (free_node_page s n).
Proof. intros s n H. unfold free_node_page. destruct (n_page n =? 0)%N; [exact H | now apply free_pages_pend_ids]. Qed.

Lemma pend_ids_ok_ext : forall s s', pending s' = pending s -> txid s' = txid s -> pend_ids_ok s -> pend_ids_ok s'.
Proof. intros s s' E1 E2 H. unfold pend_ids_ok in *. now rewrite E1, E2. Qed.
