(* C11 over HISTORIES at the ENGINE level, with contents.
   A process runs a write transaction on the engine state; the k-th call of the commit's I/O sequence FAILS (the failing
   call itself applied, lost or torn: [Crash.fault_image]); commit returns an error; the process does NOT crash and does
   NOT reopen: it goes on with what it has in memory.  The library publishes the transaction's free list iff the new
   header is the one now visible (Consts.publish_on_visible_header), so the process continues from the NEW engine state
   [st'] when the fault image selects the new header and from the OLD engine state [st] (untouched: the writer worked on a
   clone) when it selects the old one.  Successful commits (the whole I/O sequence applied) are interleaved freely.
   [fault_run st cd l survivors st_f cd_f].
   Soundness: after any such history the pair (engine state, abstract disk) is in the simulation [Sim], [db_inv] holds,
   and the database means the reference after exactly the VISIBLE commits, in order; never a half-applied one.
   Totality: a run exists for every step list whose transactions succeed in the model along both continuations. *)
From Coq Require Import List NArith Bool Arith Lia.
From Coq.Strings Require Import Byte.
From Jamm Require Spec Consts.
From Jamm Require Import Bytes BytesFacts Tree Cursor SearchFacts Engine EngineAbs EngineFacts EngineMergeFacts.
From Jamm Require Import EngineModifyFacts EngineSpillFacts EnginePathFacts EngineBridgeFacts EngineRebalanceFacts.
From Jamm Require Import EngineTxInvFacts EngineSpillBucketFacts EngineRefines.
From Jamm Require Import EngineOwnDefs EngineOwnWr EngineOwnOps EngineOwnReb EngineOwnSpill EngineOwnLnk EngineAllocInv.
From Jamm Require Import EngineCow EngineReopen EngineCrashHistories.
From Jamm Require PL Crash CrashFacts CrashCurrent CrashHistories.
Import ListNotations.
Arguments N.add : simpl never. Arguments N.sub : simpl never. Arguments N.mul : simpl never.
Arguments N.div : simpl never. Arguments N.ltb : simpl never. Arguments N.leb : simpl never. Arguments N.eqb : simpl never.

(* ---------- (1) the disk level: any pre-or-post image keeps the history invariant ---------- *)
Lemma pre_or_post_keeps_hist_inv : forall (d : Crash.disk) cur newh written img,
  CrashHistories.hist_inv d -> CrashFacts.commit_setting d cur newh (Crash.h_tx newh) written ->
  CrashFacts.pre_or_post d cur newh (Crash.h_tx newh) written img ->
  CrashHistories.hist_inv img /\ (Crash.select img = Some cur \/ Crash.select img = Some newh).
Proof.
  intros d cur newh written img (cur' & Hsel & Hlive) HS Hpp.
  assert (cur' = cur) by (pose proof (CrashFacts.cs_select _ _ _ _ _ HS) as E; rewrite Hsel in E; now inversion E).
  subst cur'.
  destruct Hpp as [[Hs Hi]|[Hs Hi]].
  - split; [|now left]. exists cur. split; [exact Hs|]. intros p Hp. destruct (Hlive p Hp) as (t' & Ht' & Hle).
    exists t'. split; [|exact Hle]. rewrite (Hi p Hp). exact Ht'.
  - split; [|now right]. exists newh. split; [exact Hs|]. intros p Hp. pose proof (Hi p Hp) as Hc.
    unfold CrashFacts.orig_new in Hc.
    destruct (PL.memN p written) eqn:Em.
    + exists (Crash.h_tx newh). split; [exact Hc | lia].
    + destruct (CrashFacts.cs_new _ _ _ _ _ HS p Hp) as [Hw|Hc'].
      * exfalso. assert (PL.memN p written = true) by now apply CrashFacts.memN_In'.
        congruence.
      * destruct (Hlive p Hc') as (t' & Ht' & Hle). exists t'. split; [now rewrite Hc|].
        pose proof (CrashFacts.cs_lt _ _ _ _ _ HS). lia.
Qed.

(* the analogue of CrashHistories.attempt_keeps_inv for a failing call *)
Theorem fault_keeps_hist_inv : forall (d : Crash.disk) cur newh written k f,
  CrashHistories.hist_inv d -> CrashFacts.commit_setting d cur newh (Crash.h_tx newh) written ->
  let img := Crash.fault_image (Crash.h_tx newh) newh (negb (Crash.current_slot d)) d (Crash.commit_io written) k f in
  CrashHistories.hist_inv img /\ (Crash.select img = Some cur \/ Crash.select img = Some newh).
Proof.
  intros d cur newh written k f Hd HS img.
  exact (pre_or_post_keeps_hist_inv d cur newh written img Hd HS (CrashCurrent.fault_current _ _ _ _ _ HS k f)).
Qed.

(* a commit whose whole I/O sequence was applied *)
Theorem done_keeps_hist_inv : forall (d : Crash.disk) cur newh written,
  CrashHistories.hist_inv d -> CrashFacts.commit_setting d cur newh (Crash.h_tx newh) written ->
  let ios := Crash.commit_io written in
  let img := Crash.run_prefix (Crash.h_tx newh) newh (negb (Crash.current_slot d)) d ios (List.length ios) in
  CrashHistories.hist_inv img /\ Crash.select img = Some newh.
Proof.
  intros d cur newh written Hd HS ios img.
  pose proof (CrashFacts.C02_durable_kill _ _ _ _ _ HS _ CrashCurrent.current_has_barrier) as Hdur.
  cbv zeta in Hdur. fold (Crash.commit_io written) in Hdur. fold ios in Hdur. fold img in Hdur.
  split; [|exact (proj1 Hdur)].
  exact (proj1 (pre_or_post_keeps_hist_inv d cur newh written img Hd HS (or_intror Hdur))).
Qed.

(* ---------- (2) one commit of the engine, failing at call k / completing ---------- *)
Definition fault_img (st st' : db) (w : list (N * (N * ndata))) (cd : Crash.disk) (k : nat) (f : Crash.fate) : Crash.disk :=
  Crash.fault_image (d_tx st') (eng_header st') (negb (Crash.current_slot cd)) cd
    (Crash.commit_io (tx_written st st' w)) k f.
Definition done_img (st st' : db) (w : list (N * (N * ndata))) (cd : Crash.disk) : Crash.disk :=
  Crash.run_prefix (d_tx st') (eng_header st') (negb (Crash.current_slot cd)) cd
    (Crash.commit_io (tx_written st st' w)) (List.length (Crash.commit_io (tx_written st st' w))).

Theorem engine_fault_attempt : forall st cd ops ord st' w, Sim st cd -> db_inv st ->
  Forall (op_ok (d_disk st)) ops -> run_tx st ops ord = Ok st' -> readable st' -> is_write_set st st' w ->
  db_inv st' /\ abs_db st' = sem_tx ops (abs_db st) /\
  forall k f, let img := fault_img st st' w cd k f in
    CrashHistories.hist_inv img /\
    (Crash.select img = Some (eng_header st) \/ Crash.select img = Some (eng_header st')).
Proof.
  intros st cd ops ord st' w [Hsel Hhist] Hinv Hops Hrun Hrd Hw.
  destruct (run_tx_inv _ _ _ _ Hinv Hops Hrun Hrd) as [Hinv' Habs].
  split; [exact Hinv'|]. split; [exact Habs|]. intros k f img.
  pose proof (write_set_setting _ _ _ Hw cd Hsel) as HS.
  exact (fault_keeps_hist_inv cd (eng_header st) (eng_header st') (tx_written st st' w) k f Hhist HS).
Qed.

Theorem engine_done_attempt : forall st cd ops ord st' w, Sim st cd -> db_inv st ->
  Forall (op_ok (d_disk st)) ops -> run_tx st ops ord = Ok st' -> readable st' -> is_write_set st st' w ->
  db_inv st' /\ abs_db st' = sem_tx ops (abs_db st) /\ Sim st' (done_img st st' w cd).
Proof.
  intros st cd ops ord st' w [Hsel Hhist] Hinv Hops Hrun Hrd Hw.
  destruct (run_tx_inv _ _ _ _ Hinv Hops Hrun Hrd) as [Hinv' Habs].
  split; [exact Hinv'|]. split; [exact Habs|].
  pose proof (write_set_setting _ _ _ Hw cd Hsel) as HS.
  destruct (done_keeps_hist_inv cd (eng_header st) (eng_header st') (tx_written st st' w) Hhist HS) as [Hh Hs].
  split; [exact Hs | exact Hh].
Qed.

(* what the process keeps in memory after the failed commit (the GENERATED flag decides) agrees with the header the
   image selects: the shared free list is the new one exactly when the continuation is [st'] *)
Theorem fault_memory_follows_image : forall st cd st' w k f, Sim st cd -> is_write_set st st' w ->
  let img := fault_img st st' w cd k f in
  let m := Crash.mem_after Consts.publish_on_visible_header false img (eng_header st') in
  (Crash.select img = Some (eng_header st') -> m = Crash.MemNew) /\
  (Crash.select img = Some (eng_header st) -> m = Crash.MemOld).
Proof.
  intros st cd st' w k f [Hsel _] Hw img m.
  pose proof (write_set_setting _ _ _ Hw cd Hsel) as HS.
  exact (proj2 (CrashCurrent.fault_mem_current _ _ _ _ _ HS CrashCurrent.current_publishes_on_visible k f)).
Qed.

(* ---------- (3) histories ---------- *)
Inductive outcome := Completes | Fails (k : nat) (f : Crash.fate).
Record step := mkStep { s_ops : list op; s_ord : list bytes; s_out : outcome }.

Inductive fault_run : db -> Crash.disk -> list step -> list (list op) -> db -> Crash.disk -> Prop :=
| fr_nil : forall st cd, fault_run st cd [] [] st cd
| fr_done : forall st cd s r surv st' w stf cdf,
    s_out s = Completes ->
    Forall (op_ok (d_disk st)) (s_ops s) ->
    run_tx st (s_ops s) (s_ord s) = Ok st' -> readable st' -> is_write_set st st' w ->
    fault_run st' (done_img st st' w cd) r surv stf cdf ->
    fault_run st cd (s :: r) (s_ops s :: surv) stf cdf
| fr_fail_old : forall st cd s k f r surv st' w stf cdf,
    s_out s = Fails k f ->
    Forall (op_ok (d_disk st)) (s_ops s) ->
    run_tx st (s_ops s) (s_ord s) = Ok st' -> readable st' -> is_write_set st st' w ->
    let img := fault_img st st' w cd k f in
    Crash.select img = Some (eng_header st) ->
    fault_run st img r surv stf cdf ->
    fault_run st cd (s :: r) surv stf cdf
| fr_fail_new : forall st cd s k f r surv st' w stf cdf,
    s_out s = Fails k f ->
    Forall (op_ok (d_disk st)) (s_ops s) ->
    run_tx st (s_ops s) (s_ord s) = Ok st' -> readable st' -> is_write_set st st' w ->
    let img := fault_img st st' w cd k f in
    Crash.select img = Some (eng_header st') ->
    fault_run st' img r surv stf cdf ->
    fault_run st cd (s :: r) (s_ops s :: surv) stf cdf.

(* ---------- (4) soundness ---------- *)
Theorem engine_fault_history : forall st0 cd0 l surv stf cdf,
  fault_run st0 cd0 l surv stf cdf -> Sim st0 cd0 -> db_inv st0 ->
  Sim stf cdf /\ db_inv stf /\ abs_db stf = sem_survivors surv (abs_db st0).
Proof.
  intros st0 cd0 l surv stf cdf H.
  induction H as [st cd
                 | st cd s r surv st' w stf cdf Hout Hops Hrun Hrd Hw Hrest IH
                 | st cd s k f r surv st' w stf cdf Hout Hops Hrun Hrd Hw img Hsel Hrest IH
                 | st cd s k f r surv st' w stf cdf Hout Hops Hrun Hrd Hw img Hsel Hrest IH]; intros HSim Hinv.
  - split; [exact HSim|]. split; [exact Hinv | reflexivity].
  - destruct (engine_done_attempt st cd _ _ st' w HSim Hinv Hops Hrun Hrd Hw) as (Hinv' & Habs & HSim').
    destruct (IH HSim' Hinv') as (HS & HI & HA). split; [exact HS|]. split; [exact HI|].
    rewrite HA. cbn [sem_survivors fold_left]. rewrite Habs. reflexivity.
  - destruct (engine_fault_attempt st cd _ _ st' w HSim Hinv Hops Hrun Hrd Hw) as (_ & _ & Himg).
    destruct (Himg k f) as [Hhist _]. fold img in Hhist.
    assert (HSim' : Sim st img) by (split; [exact Hsel | exact Hhist]).
    exact (IH HSim' Hinv).
  - destruct (engine_fault_attempt st cd _ _ st' w HSim Hinv Hops Hrun Hrd Hw) as (Hinv' & Habs & Himg).
    destruct (Himg k f) as [Hhist _]. fold img in Hhist.
    assert (HSim' : Sim st' img) by (split; [exact Hsel | exact Hhist]).
    destruct (IH HSim' Hinv') as (HS & HI & HA). split; [exact HS|]. split; [exact HI|].
    rewrite HA. cbn [sem_survivors fold_left]. rewrite Habs. reflexivity.
Qed.

Print Assumptions engine_fault_history.

(* ---------- totality ---------- *)
(* the side conditions: the next transaction is admissible and succeeds, with a readable result, on the state the
   process holds -- along BOTH possible continuations of a failing commit, along the one continuation of a completed one *)
Fixpoint steps_okE (st : db) (l : list step) : Prop :=
  match l with
  | [] => True
  | s :: r => Forall (op_ok (d_disk st)) (s_ops s) /\
              exists st', run_tx st (s_ops s) (s_ord s) = Ok st' /\ readable st' /\
                          match s_out s with Completes => True | Fails _ _ => steps_okE st r end /\ steps_okE st' r
  end.

Theorem fault_run_total : forall l st cd, Sim st cd -> db_inv st -> steps_okE st l ->
  exists surv stf cdf, fault_run st cd l surv stf cdf.
Proof.
  induction l as [|s r IH]; intros st cd HSim Hinv Hok.
  - exists [], st, cd. constructor.
  - destruct Hok as (Hops & st' & Hrun & Hrd & HokL & HokD).
    destruct (db_inv_facts _ Hinv) as (_ & Hokz & _).
    destruct (run_tx_has_write_set _ _ _ _ Hokz Hops Hrun Hrd) as (w & Hw).
    destruct (s_out s) as [|k f] eqn:Hout.
    + destruct (engine_done_attempt st cd _ _ st' w HSim Hinv Hops Hrun Hrd Hw) as (Hinv' & _ & HSim').
      destruct (IH _ _ HSim' Hinv' HokD) as (surv & stf & cdf & Hr).
      exists (s_ops s :: surv), stf, cdf. eapply fr_done; eauto.
    + destruct (engine_fault_attempt st cd _ _ st' w HSim Hinv Hops Hrun Hrd Hw) as (Hinv' & _ & Himg).
      destruct (Himg k f) as [Hhist [Hsel|Hsel]].
      * assert (HSim' : Sim st (fault_img st st' w cd k f)) by (split; [exact Hsel | exact Hhist]).
        destruct (IH _ _ HSim' Hinv HokL) as (surv & stf & cdf & Hr).
        exists surv, stf, cdf. eapply fr_fail_old; eauto.
      * assert (HSim' : Sim st' (fault_img st st' w cd k f)) by (split; [exact Hsel | exact Hhist]).
        destruct (IH _ _ HSim' Hinv' HokD) as (surv & stf & cdf & Hr).
        exists (s_ops s :: surv), stf, cdf. eapply fr_fail_new; eauto.
Qed.

(* both halves together *)
Corollary engine_fault_history_total : forall l st0 cd0, Sim st0 cd0 -> db_inv st0 -> steps_okE st0 l ->
  exists surv stf cdf, fault_run st0 cd0 l surv stf cdf /\
    Sim stf cdf /\ db_inv stf /\ abs_db stf = sem_survivors surv (abs_db st0).
Proof.
  intros l st0 cd0 HSim Hinv Hok. destruct (fault_run_total l st0 cd0 HSim Hinv Hok) as (surv & stf & cdf & Hr).
  exists surv, stf, cdf. split; [exact Hr | exact (engine_fault_history _ _ _ _ _ _ Hr HSim Hinv)].
Qed.

(* the survivors are a sub-list, in order, of the attempted operation lists; every completed commit is among them *)
Lemma fault_run_survivors : forall st cd l surv stf cdf, fault_run st cd l surv stf cdf ->
  sublist surv (map s_ops l).
Proof.
  intros st cd l surv stf cdf H.
  induction H; cbn [map]; [constructor | now apply sub_keep | now apply sub_skip | now apply sub_keep].
Qed.

Lemma fault_run_completed_survives : forall st cd s r surv stf cdf, fault_run st cd (s :: r) surv stf cdf ->
  s_out s = Completes -> exists surv', surv = s_ops s :: surv'.
Proof.
  intros st cd s r surv stf cdf H Hc.
  inversion H; subst; try congruence; eexists; reflexivity.
Qed.

(* with the same write set the two continuations of a failing commit exclude each other *)
Lemma old_xor_new : forall st st' w img, is_write_set st st' w ->
  Crash.select img = Some (eng_header st) -> Crash.select img = Some (eng_header st') -> False.
Proof.
  intros st st' w img Hw H1 H2. rewrite H1 in H2.
  assert (E : eng_header st = eng_header st') by (apply (f_equal (fun o => match o with Some h => h | None => eng_header st end)) in H2; exact H2).
  exact (headers_differ _ _ _ Hw E).
Qed.

Print Assumptions fault_run_total.
Print Assumptions engine_fault_history_total.
Print Assumptions fault_memory_follows_image.

(* ---------- where the failing call sits decides the outcome ---------- *)
(* a failure at a data write or at the sync before the header (k <= number of written pages): the slots are untouched,
   the old header stays selected -- the commit is lost as a whole, whatever happened to the failing write *)
Lemma fault_before_header_slots : forall t newh tgt f ps rest k (d : Crash.disk), (k <= List.length ps)%nat ->
  let img := Crash.fault_image t newh tgt d (map Crash.IoData ps ++ Crash.IoSync :: rest) k f in
  Crash.slot0 img = Crash.slot0 d /\ Crash.slot1 img = Crash.slot1 d.
Proof.
  intros t newh tgt f ps rest. induction ps as [|p ps IH]; intros k d Hk; cbn [List.length] in Hk.
  - assert (k = 0)%nat by lia. subst k. cbn. destruct f; split; reflexivity.
  - destruct k as [|k].
    + cbn. destruct f; split; reflexivity.
    + cbn [map app]. unfold Crash.fault_image. cbn [Crash.run_prefix nth_error].
      specialize (IH k (Crash.apply_io t newh tgt d (Crash.IoData p) Crash.Applied) ltac:(lia)).
      unfold Crash.fault_image in IH. cbv zeta in IH. exact IH.
Qed.

Theorem fault_before_header_is_lost : forall st st' w cd k f,
  (k <= List.length (tx_written st st' w))%nat -> Crash.select (fault_img st st' w cd k f) = Crash.select cd.
Proof.
  intros st st' w cd k f Hk. unfold fault_img. rewrite CrashCurrent.current_io_shape.
  destruct (fault_before_header_slots (d_tx st') (eng_header st') (negb (Crash.current_slot cd)) f
              (tx_written st st' w) [Crash.IoHeader; Crash.IoSync] k cd Hk) as [H0 H1].
  unfold Crash.select. rewrite H0, H1. reflexivity.
Qed.

Corollary fault_before_header_continues_old : forall st st' w cd k f, Sim st cd ->
  (k <= List.length (tx_written st st' w))%nat -> Crash.select (fault_img st st' w cd k f) = Some (eng_header st).
Proof. intros st st' w cd k f [Hsel _] Hk. rewrite fault_before_header_is_lost by exact Hk. exact Hsel. Qed.

(* a failure of the LAST call (the sync after the header) or "after the end": the image is the one of the completed
   commit, the new header is selected -- commit reported an error but the transaction IS visible *)
Lemma run_prefix_app : forall t newh tgt l r m (d : Crash.disk),
  Crash.run_prefix t newh tgt d (l ++ r) (List.length l + m) =
  Crash.run_prefix t newh tgt (Crash.run_prefix t newh tgt d l (List.length l)) r m.
Proof.
  intros t newh tgt l r m. induction l as [|o l IH]; intro d; [reflexivity|].
  cbn [app List.length Nat.add Crash.run_prefix]. apply IH.
Qed.

Lemma fault_at_last_sync : forall t newh tgt l k f (d : Crash.disk), (List.length l <= k)%nat ->
  Crash.fault_image t newh tgt d (l ++ [Crash.IoSync]) k f =
  Crash.run_prefix t newh tgt d (l ++ [Crash.IoSync]) (List.length (l ++ [Crash.IoSync])).
Proof.
  intros t newh tgt l k f d Hk. unfold Crash.fault_image.
  replace k with (List.length l + (k - List.length l))%nat by lia.
  rewrite app_length, !run_prefix_app. rewrite nth_error_app2 by lia.
  replace (List.length l + (k - List.length l) - List.length l)%nat with (k - List.length l)%nat by lia.
  destruct (k - List.length l)%nat as [|[|j]]; cbn; destruct f; reflexivity.
Qed.

Theorem fault_after_header_is_visible : forall st st' w cd k f,
  (List.length (tx_written st st' w) + 2 <= k)%nat -> fault_img st st' w cd k f = done_img st st' w cd.
Proof.
  intros st st' w cd k f Hk. unfold fault_img, done_img. rewrite CrashCurrent.current_io_shape.
  change [Crash.IoSync; Crash.IoHeader; Crash.IoSync] with ([Crash.IoSync; Crash.IoHeader] ++ [Crash.IoSync]).
  rewrite app_assoc. apply fault_at_last_sync. rewrite app_length, map_length. cbn [List.length]. lia.
Qed.

Corollary fault_after_header_continues_new : forall st cd ops ord st' w k f, Sim st cd -> db_inv st ->
  Forall (op_ok (d_disk st)) ops -> run_tx st ops ord = Ok st' -> readable st' -> is_write_set st st' w ->
  (List.length (tx_written st st' w) + 2 <= k)%nat -> Crash.select (fault_img st st' w cd k f) = Some (eng_header st').
Proof.
  intros st cd ops ord st' w k f HSim Hinv Hops Hrun Hrd Hw Hk. rewrite fault_after_header_is_visible by exact Hk.
  exact (proj1 (proj2 (proj2 (engine_done_attempt st cd ops ord st' w HSim Hinv Hops Hrun Hrd Hw)))).
Qed.

Print Assumptions fault_before_header_continues_old.
Print Assumptions fault_after_header_continues_new.

(* ---------- the premises are satisfiable ---------- *)
Module ExFault.
Import Ex3 ExCrash.
Definition run1 := Eval vm_compute in run_tx st0 (fst ExHistory.tx1) (snd ExHistory.tx1).
Definition st1 : db := match run1 with Ok st => st | _ => st0 end.
Example run1_ok : run_tx st0 (fst ExHistory.tx1) (snd ExHistory.tx1) = Ok st1.
Proof. vm_compute. reflexivity. Qed.
Example ops1_ok : Forall (op_ok (d_disk st0)) (fst ExHistory.tx1).
Proof. repeat constructor; cbn; lia. Qed.
Example st1_readable : readable st1.
Proof. apply readableb_ok. vm_compute. reflexivity. Qed.
Example st1_write_set : exists w, is_write_set st0 st1 w.
Proof.
  destruct (db_inv_facts _ inv0) as (_ & Hokz & _).
  exact (run_tx_has_write_set _ _ _ _ Hokz ops1_ok run1_ok st1_readable).
Qed.

Definition s_fail (k : nat) (f : Crash.fate) : step := mkStep (fst ExHistory.tx1) (snd ExHistory.tx1) (Fails k f).
Definition s_done : step := mkStep (fst ExHistory.tx1) (snd ExHistory.tx1) Completes.
Definition s2 (o : outcome) : step := mkStep [Put [] ka [x02]] [] o.

(* the very first call fails (whatever became of the write): the commit is lost, the process goes on from st0 *)
Example first_call_fails : forall f, exists cdf, fault_run st0 cd0 [s_fail 0 f] [] st0 cdf /\ Sim st0 cdf.
Proof.
  intro f. destruct st1_write_set as (w & Hw).
  pose proof (fault_before_header_continues_old st0 st1 w cd0 0 f sim0 ltac:(lia)) as Hsel.
  destruct (engine_fault_attempt st0 cd0 _ _ st1 w sim0 inv0 ops1_ok run1_ok st1_readable Hw) as (_ & _ & Himg).
  exists (fault_img st0 st1 w cd0 0 f). split.
  - apply (fr_fail_old st0 cd0 (s_fail 0 f) 0 f [] [] st1 w st0 _ eq_refl ops1_ok run1_ok st1_readable Hw Hsel). constructor.
  - split; [exact Hsel | exact (proj1 (Himg 0%nat f))].
Qed.

(* the same transaction fails at its first call, is retried and completes: exactly one copy of it is applied *)
Example fail_then_retry : forall f, exists cdf, fault_run st0 cd0 [s_fail 0 f; s_done] [fst ExHistory.tx1] st1 cdf /\
  Sim st1 cdf /\ abs_db st1 = sem_tx (fst ExHistory.tx1) (abs_db st0).
Proof.
  intro f. destruct st1_write_set as (w & Hw).
  pose proof (fault_before_header_continues_old st0 st1 w cd0 0 f sim0 ltac:(lia)) as Hsel.
  destruct (engine_fault_attempt st0 cd0 _ _ st1 w sim0 inv0 ops1_ok run1_ok st1_readable Hw) as (_ & _ & Himg).
  assert (HSim1 : Sim st0 (fault_img st0 st1 w cd0 0 f)) by (split; [exact Hsel | exact (proj1 (Himg 0%nat f))]).
  destruct (engine_done_attempt st0 _ _ _ st1 w HSim1 inv0 ops1_ok run1_ok st1_readable Hw) as (_ & Habs & HSim2).
  eexists. split; [|split; [exact HSim2 | exact Habs]].
  apply (fr_fail_old st0 cd0 (s_fail 0 f) 0 f [s_done] _ st1 w st1 _ eq_refl ops1_ok run1_ok st1_readable Hw Hsel).
  apply (fr_done st0 _ s_done [] [] st1 w st1 _ eq_refl ops1_ok run1_ok st1_readable Hw). constructor.
Qed.

(* the final sync fails: commit returns an error, yet the transaction is visible and the process goes on from st1 *)
Example last_sync_fails : forall f, exists k cdf, fault_run st0 cd0 [s_fail k f] [fst ExHistory.tx1] st1 cdf /\ Sim st1 cdf.
Proof.
  intro f. destruct st1_write_set as (w & Hw).
  exists (List.length (tx_written st0 st1 w) + 2)%nat.
  pose proof (fault_after_header_continues_new st0 cd0 _ _ st1 w _ f sim0 inv0 ops1_ok run1_ok st1_readable Hw (le_n _)) as Hsel.
  destruct (engine_fault_attempt st0 cd0 _ _ st1 w sim0 inv0 ops1_ok run1_ok st1_readable Hw) as (_ & _ & Himg).
  eexists. split.
  - apply (fr_fail_new st0 cd0 (s_fail _ f) _ f [] [] st1 w st1 _ eq_refl ops1_ok run1_ok st1_readable Hw Hsel). constructor.
  - split; [exact Hsel | exact (proj1 (Himg _ f))].
Qed.

(* two transactions, every position and fate of the two failures: a run exists and ends in the simulation *)
Example steps_ok0 : forall o1 o2, steps_okE st0 [mkStep (fst ExHistory.tx1) (snd ExHistory.tx1) o1; s2 o2].
Proof.
  intros o1 o2. cbn [steps_okE s2 s_ops s_ord s_out]. split; [repeat constructor; cbn; lia|].
  eexists. split; [vm_compute; reflexivity|]. split; [apply readableb_ok; vm_compute; reflexivity|].
  split.
  - destruct o1; [exact I|]. split; [repeat constructor; cbn; lia|].
    eexists. split; [vm_compute; reflexivity|]. split; [apply readableb_ok; vm_compute; reflexivity|].
    split; [destruct o2|]; exact I.
  - split; [repeat constructor; cbn; lia|].
    eexists. split; [vm_compute; reflexivity|]. split; [apply readableb_ok; vm_compute; reflexivity|].
    split; [destruct o2|]; exact I.
Qed.

Example two_faults : forall o1 o2, exists surv stf cdf,
  fault_run st0 cd0 [mkStep (fst ExHistory.tx1) (snd ExHistory.tx1) o1; s2 o2] surv stf cdf /\
  Sim stf cdf /\ db_inv stf /\ abs_db stf = sem_survivors surv (abs_db st0).
Proof. intros o1 o2. exact (engine_fault_history_total _ _ _ sim0 inv0 (steps_ok0 o1 o2)). Qed.
End ExFault.
Print Assumptions ExFault.first_call_fails.
Print Assumptions ExFault.fail_then_retry.
Print Assumptions ExFault.last_sync_fails.
Print Assumptions ExFault.two_faults.
