(* the lifetime-flow check evaluated on the GENERATED signature table of the current source *)
From Coq Require Import List String Bool.
From Jamm Require Import ApiSig ApiFlow.
Import ListNotations.
Local Open Scope string_scope.

Lemma all_anchored : forallb anchoredb api = true.
Proof. vm_compute. reflexivity. Qed.
Lemma no_unanchored : unanchored = [].
Proof. vm_compute. reflexivity. Qed.
Lemma tx_types_not_send : none_send = true.
Proof. vm_compute. reflexivity. Qed.
Lemma db_is_shareable : db_shareable = true.
Proof. vm_compute. reflexivity. Qed.
Lemma table_nonempty : 80 <= List.length api.
Proof. vm_compute. repeat constructor. Qed.

(* every value a client can obtain from a public function has its map-pointing parts bounded by the transaction
   borrow (or owns its bytes) *)
Lemma obtainable_ok : forall ty ok, obtainable (Held ty ok) -> ok = true.
Proof.
  intros ty ok H. inversion H as [f c Hf Hc Hty]; subst.
  pose proof all_anchored as A. rewrite forallb_forall in A. specialize (A f Hf).
  unfold anchoredb in A. rewrite forallb_forall in A. exact (A c Hc).
Qed.

(* the pinned signatures of BucketName::to_bytes (borrowing body) are rejected by the check: the defect it was
   written for *)
Definition pinned_to_bytes : fn_sig :=
  mkFn "BucketName" [LNamed "b"; LNamed "tx"] "ToBytes" "to_bytes" SValue [] [mkComp "Bytes" [LNamed "tx"]] [] "passthrough".
Lemma pinned_to_bytes_unanchored : anchoredb pinned_to_bytes = false.
Proof. vm_compute. reflexivity. Qed.
(* ... and a loosened get_kv (KVPair<'tx,'tx>: the anchor is no longer the transaction borrow) would be too *)
Definition loosened_get_kv : fn_sig :=
  mkFn "Bucket" [LNamed "b"; LNamed "tx"] "" "get_kv" (SRef (LNamed "a")) [] [mkComp "KVPair" [LNamed "tx"; LNamed "tx"]] [] "".
Lemma loosened_get_kv_unanchored : anchoredb loosened_get_kv = false.
Proof. vm_compute. reflexivity. Qed.
