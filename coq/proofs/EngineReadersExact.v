(* NOTHING IS LEAKED, WITH READERS: the exact page partition ([EngineNoLeakDefs.no_leak]: every page of [2, d_np) is
   live, free or pending) is kept by a writer that respects open readers, whatever its release bound; hence, along
   every history with readers, the free-list record of each committed state lists exactly its non-live pages (C10). *)
From Coq Require Import List NArith Bool Arith Lia ZifyN ZifyNat ZifyBool Permutation.
From Coq.Strings Require Import Byte.
From Jamm Require Spec.
From Jamm Require Import Bytes BytesFacts Tree Cursor SearchFacts Engine EngineAbs EngineFacts EngineMergeFacts.
From Jamm Require Import EngineModifyFacts EngineSpillFacts EnginePathFacts EngineBridgeFacts EngineRebalanceFacts.
From Jamm Require FreelistFacts EngineAllocFacts EngineSpillWfFacts.
From Jamm Require Import EngineTxInvFacts EngineSpillBucketFacts EngineRefines.
From Jamm Require Import EngineOwnDefs EngineOwnWr EngineOwnOps EngineOwnReb EngineOwnSpill EngineOwnLnk EngineAllocInv.
From Jamm Require Import EngineNoLeakDefs EngineNoLeakFree EngineNoLeakWr EngineNoLeakNode EngineNoLeakCov.
From Jamm Require Import EngineNoLeakOps EngineNoLeakReb EngineNoLeakSpill EngineNoLeak.
From Jamm Require Import EngineR EngineRSim EngineRBegin EngineReadersInv EngineReaders.
Import ListNotations.
Import Coq.Strings.String.StringSyntax. Delimit Scope string_scope with string.
Local Open Scope list_scope. Local Open Scope nat_scope.
Set Warnings "-abstract-large-number".
Arguments N.add : simpl never. Arguments N.sub : simpl never. Arguments N.mul : simpl never.
Arguments N.div : simpl never. Arguments N.ltb : simpl never. Arguments N.leb : simpl never.
Arguments N.eqb : simpl never.

(* ====================================================================== *)
(** * 1. [commit] (EngineNoLeak.commit_no_leak for any pending list) *)

(* every page of [2, np s1) is live, free or pending when the spill starts (instead of "live or free"), and
   [pend_ok0 s1] is a premise *)
Theorem commit_no_leak_r : forall st b s ord st' b1 s1 m,
  db_ok' st -> dget (d_disk st) 0%N = None ->
  rebalance fuel0 (d_disk st) b s = Ok (b1, s1) ->
  fresh_inv (live_of st (Rof st)) s1 -> wr s1 = [] ->
  pend_ids_ok s1 -> pend_ok0 s1 ->
  SReady (d_disk st) (Rof st) b1 -> OvlAbs (d_disk st) b1 m -> SReadyX (d_disk st) (Rof st) b1 ->
  OwnI (d_disk st) 16 s1 b1 (d_root st) -> Lnk (d_disk st) 16 b1 (d_root st) ->
  Cov (d_disk st) 16 s1 b1 (d_root st) ->
  (forall x, (2 <= x < np s1)%N -> In x (live_of st (Rof st)) \/ In x (free s1) \/ In x (pend_all (pending s1))) ->
  commit st b s ord = Ok st' -> readable st' -> no_leak st'.
Proof.
  intros st b s ord st' b1 s1 m (Hstrict & HA & HndL & _) Hz Hreb Hfi Hwr Hpid Hp0 HS HO HSX HOw HLk HCv Hacc H Hrd.
  set (d := d_disk st) in *. set (R := Rof st) in *. set (L := live_of st R) in *.
  pose proof HA as (_ & _ & _ & _ & _ & _ & Hroot & HCR & Hlive).
  assert (Hr0 : d_root st <> 0%N).
  { destruct (Hlive _ (R_live st _ _ Hroot)) as [Hge _]. lia. }
  assert (HkL : forall q x, In q R -> In x (prun d q) -> In x L).
  { intros q x Hq Hx. unfold L, live_of. apply in_or_app. left. apply in_flat_map. eauto. }
  assert (HfL : incl (foot d 16 (d_root st)) L) by (intros x Hx; now apply foot_live).
  rewrite commit_apply_wr in H. unfold commit_with_apply_wr in H. fold d in H. rewrite Hreb in H. cbn [bind] in H.
  apply bind_ok_inv in H. destruct H as ([[[r nx] s2] ord'] & Hsp & H).
  assert (H16 : 16 <= fuel0) by (unfold fuel0; lia).
  assert (Hu : unwritten R s1) by (intros x _; rewrite Hwr; reflexivity).
  assert (Hwl : forall q, wr_get (wr s1) q <> None -> In q L) by (intros q Hq; rewrite Hwr in Hq; now contradiction Hq).
  pose proof (RecCov_all d R L HCR Hz HkL fuel0 16 L b1 s1 ord (r, nx, s2, ord') (d_root st) m H16 Hfi
                (fun x Hx => Hx) Hu (wr_ok_nil L s1 Hwr) Hp0 Hpid HS HO HSX HOw HLk HfL Hwl HCv Hsp) as HP.
  cbn [CovPost] in HP. destruct HP as (alloc & dead & F1 & X12 & HLater).
  set (s3 := free_pages s2 (d_fl st) (d_fln st)) in H.
  destruct (tx_allocate s3 (40 + 8 * llen (all_pages s3))) as [[flp fln] s4] eqn:Hal.
  inversion H; subst st'. clear H.
  pose proof (fr_fresh _ _ _ _ _ F1) as Hfi2.
  pose proof (free_pages_frame (alloc ++ L) s2 (d_fl st) (d_fln st) Hfi2) as G1. fold s3 in G1.
  assert (Hpos : (0 < 40 + 8 * llen (all_pages s3))%N) by lia.
  pose proof (fr_fresh _ _ _ _ _ G1) as Hfi3. cbn [app] in Hfi3.
  destruct (tx_allocate_frame (alloc ++ L) s3 _ flp fln s4 Hfi3 Hpos Hal) as [G2 _].
  pose proof (frame_trans _ _ _ _ _ _ _ _ G1 G2) as G4.
  unfold readable in Hrd. cbn [d_disk d_root] in Hrd. fold (later_disk d s4) in Hrd.
  destruct (HLater s4 _ _ G4 Hrd) as [Hfoot Hwrc].
  destruct (alloc_exact _ _ _ _ _ _ Hfi3 Hpos Hal) as [Hex1 Hex2].
  destruct (free_pages_fields s2 (d_fl st) (d_fln st)) as (E1 & E2 & _). fold s3 in E1, E2.
  unfold no_leak. cbn [d_np d_free d_pending]. unfold Rof, live_of. cbn [d_disk d_root d_fl d_fln].
  fold (later_disk d s4). set (d4 := later_disk d s4) in *.
  assert (Htree : forall x, InT d 16 s4 r x ->
            In x (flat_map (prun d4) (fpg 16 d4 r) ++ nrun flp fln)) by (intros x Hx; apply in_or_app; left; exact Hx).
  assert (Hfreed4 : forall x, freed_in_tx s4 x = true -> In x (pend_all (pending s4))) by (intros x Hx; now apply freed_pend).
  assert (Hf34 : forall x, freed_in_tx s3 x = true -> freed_in_tx s4 x = true).
  { intros x Hx. apply (fr_freed _ _ _ _ _ G2). now left. }
  assert (Hacc2 : forall x, Acc s2 x ->
            In x (flat_map (prun d4) (fpg 16 d4 r) ++ nrun flp fln) \/ In x (free s4) \/ In x (pend_all (pending s4))).
  { intros x [Hx|[Hx|(q & v & Hq & Hx)]].
    - rewrite <- E1 in Hx. destruct (Hex1 x Hx) as [A|A]; [right; now left | left].
      apply in_or_app. right. now apply In_nrun.
    - right; right. apply (fr_pend _ _ _ _ _ G2). left. apply (fr_pend _ _ _ _ _ G1). now left.
    - destruct (Hwrc q v x Hq Hx) as [A|[A|A]].
      + exfalso. apply A. now rewrite Hwr.
      + right; right. now apply Hfreed4.
      + left. now apply Htree. }
  intros x Hx.
  destruct (N.lt_ge_cases x (np s1)) as [Hlt|Hge].
  - destruct (Hacc x ltac:(lia)) as [HxL|[Hxf|Hxp]].
    + unfold L, live_of in HxL. fold d R in HxL. apply in_app_or in HxL. destruct HxL as [HxL|HxL].
      * assert (Hxf : In x (foot d 16 (d_root st))).
        { unfold foot. destruct (N.eqb_spec (d_root st) 0); [contradiction | exact HxL]. }
        destruct (Hfoot x Hxf) as [A|A]; [right; right; now apply Hfreed4 | left; now apply Htree].
      * right; right. apply Hfreed4, Hf34. unfold s3. apply free_pages_freed. right. now apply In_nrun.
    + apply Hacc2. apply (xf_acc _ _ X12). now left.
    + apply Hacc2. apply (xf_acc _ _ X12). right. now left.
  - destruct (N.lt_ge_cases x (np s2)) as [Hlt2|Hge2].
    + apply Hacc2. apply (xf_new _ _ X12). lia.
    + left. apply in_or_app. right. apply In_nrun. apply Hex2. rewrite E2. lia.
Qed.

(* ====================================================================== *)
(** * 2. One transaction with readers keeps the exact partition *)

Theorem run_tx_r_no_leak : forall st b ops ord st', db_okr st -> no_leak st -> Forall (op_ok (d_disk st)) ops ->
  run_tx_r st b ops ord = Ok st' -> readable st' -> no_leak st'.
Proof.
  intros st b ops ord st' Hokr Hnl Hops Hrun Hrd.
  destruct (run_tx_r_final st b ops ord st' Hokr Hops Hrun)
    as (HLx & _ & s1 & r & nx & s4 & alloc & flp & fln & Dall & X & F).
  pose proof Hokr as [[Hok' Hz] _].
  pose proof (tf_ovl _ _ _ _ _ _ _ _ _ _ _ _ F) as (root' & s' & b1 & m & ord0 & Hreb & Hc & Hfi & Hwr & Hids & Hp0 & HS & HO & HSX & HOwn & HLnk & HCov).
  apply (commit_no_leak_r st root' s' ord0 st' b1 s1 m Hok' Hz Hreb (fresh_inv_sub _ _ _ HLx Hfi) Hwr Hids Hp0 HS HO HSX
           HOwn HLnk HCov); [|exact Hc | exact Hrd].
  intros x Hx. rewrite (tf_np1 _ _ _ _ _ _ _ _ _ _ _ _ F) in Hx. rewrite (tf_free1 _ _ _ _ _ _ _ _ _ _ _ _ F).
  destruct (kept_suffix st b) as (rel & E & _ & Hin & _).
  destruct (Hnl x Hx) as [A|[A|A]]; [now left | right; left; apply Hin; now left |].
  rewrite E, pend_all_app in A. apply in_app_or in A. destruct A as [A|A].
  - right; left. apply Hin. now right.
  - right; right. exact (tf_kept1 _ _ _ _ _ _ _ _ _ _ _ _ F x A).
Qed.

(* the invariant with the exact partition and the free-list record *)
Definition db_exactr (st : db) : Prop := db_okr st /\ no_leak st /\ flids_ok st.

Lemma db_exactr_rec : forall st, db_exactr st -> db_exact_rec st.
Proof. intros st ((Hokz & _) & Hnl & Hfl). split; [split; assumption | exact Hfl]. Qed.

Lemma init_db_exactr : forall P, (0 < P)%N -> db_exactr (init_db P).
Proof.
  intros P HP. split; [now apply init_db_okr|]. split; [exact (proj2 (init_db_exact P HP)) | apply init_db_flids].
Qed.

Lemma run_tx_r_flids : forall st b ops ord st', run_tx_r st b ops ord = Ok st' -> flids_ok st'.
Proof.
  intros st b ops ord st' H. rewrite run_tx_r_fold in H. apply bind_ok_inv in H. destruct H as ([rb s] & _ & H).
  exact (commit_flids _ _ _ _ _ H).
Qed.

(* (2, exact partition) for any release bound *)
Theorem run_tx_r_exact : forall st b ops ord st', db_exactr st -> Forall (op_ok (d_disk st)) ops ->
  run_tx_r st b ops ord = Ok st' -> readable st' -> db_exactr st' /\ abs_db st' = sem_tx ops (abs_db st).
Proof.
  intros st b ops ord st' (Hokr & Hnl & _) Hops Hrun Hrd.
  destruct (run_tx_r_refines st b ops ord st' Hokr Hops Hrun Hrd) as [Hokr' Habs]. split; [|exact Habs].
  split; [exact Hokr'|].
  split; [exact (run_tx_r_no_leak st b ops ord st' Hokr Hnl Hops Hrun Hrd) | exact (run_tx_r_flids _ _ _ _ _ Hrun)].
Qed.

(* ====================================================================== *)
(** * 3. Histories: the exact partition along every history with readers; the free-list record (C10) *)

Theorem hist_exact_run : forall k es h h', (k <= 1)%N -> HInv h -> no_leak (fst h) -> flids_ok (fst h) ->
  hist_ok k h es -> run_hist_k k h es = Ok h' -> HInv h' /\ db_exactr (fst h').
Proof.
  intros k. induction es as [|e es IH]; intros h h' Hk Hinv Hnl Hfl Hok Hrun; cbn [run_hist_k fold_res] in Hrun.
  - inversion Hrun; subst. split; [exact Hinv|]. split; [exact (proj1 Hinv) | auto].
  - apply bind_ok_inv in Hrun. destruct Hrun as (h1 & H1 & H2). destruct Hok as [Hops Hnext].
    destruct (Hnext h1 H1) as [Hrd Hok1].
    destruct (hist_inv_step k h e h1 Hk Hinv Hops H1 Hrd) as [Hinv1 _].
    assert (Hx1 : no_leak (fst h1) /\ flids_ok (fst h1)).
    { destruct h as [cur rs]. destruct e as [|i|ops ord]; cbn [step_k fst snd] in H1.
      - inversion H1; subst h1. auto.
      - inversion H1; subst h1. auto.
      - apply bind_ok_inv in H1. destruct H1 as (cur' & Hr & E). inversion E; subst h1. cbn [fst snd] in *.
        split; [exact (run_tx_r_no_leak cur _ ops ord cur' (proj1 Hinv) Hnl Hops Hr Hrd) | exact (run_tx_r_flids _ _ _ _ _ Hr)]. }
    exact (IH h1 h' Hk Hinv1 (proj1 Hx1) (proj2 Hx1) Hok1 H2).
Qed.

(* from the empty database, whatever the readers do: each committed state accounts for every page exactly once, and
   its free-list record lists exactly the pages that are not live -- nothing is lost for reuse *)
Corollary hist_exact_init : forall k P es h', (k <= 1)%N -> (0 < P)%N ->
  hist_ok k (init_db P, []) es -> run_hist_k k (init_db P, []) es = Ok h' ->
  db_exact_rec (fst h') /\
  forall x, In x (d_flids (fst h')) <-> ((2 <= x < d_np (fst h'))%N /\ ~ In x (live_of (fst h') (Rof (fst h')))).
Proof.
  intros k P es h' Hk HP Hok Hrun. destruct (init_db_exactr P HP) as (_ & Hnl & Hfl).
  destruct (hist_exact_run k es _ h' Hk (HInv_init P HP) Hnl Hfl Hok Hrun) as [_ Hx].
  pose proof (db_exactr_rec _ Hx) as Hrec. split; [exact Hrec | now apply flids_exact].
Qed.

Print Assumptions commit_no_leak_r.
Print Assumptions run_tx_r_no_leak.
Print Assumptions run_tx_r_exact.
Print Assumptions hist_exact_run.
Print Assumptions hist_exact_init.
