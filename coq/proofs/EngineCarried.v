(* CARRIED HEAD PAGES: every head page of the NEW committed tree that the transaction did not write is a head page
   of the OLD committed tree.  This discharges the hypothesis [carried] of [EngineFallback.commit_holds_new] for the
   transactions of the engine ([run_tx]).

   The page-level statement of [TreeOK] ("every page of the new tree lies in a written run or in the old footprint")
   does not give it (an old overflow page could become a head page); it is a HEAD-level fact that [spill_bucket]
   establishes: a third induction over [spill_bucket] (after [RecOwn_all] and [RecCov_all]), with the postcondition
   "in every later state of the transaction, every head page of the new tree is written or a page of [keep]". *)
From Coq Require Import List NArith Bool Arith Lia ZifyN ZifyNat ZifyBool Permutation.
From Coq.Strings Require Import Byte.
From Jamm Require Spec.
From Jamm Require Import Bytes BytesFacts Tree Cursor SearchFacts Engine EngineAbs EngineFacts EngineMergeFacts.
From Jamm Require Import EngineModifyFacts EngineSpillFacts EnginePathFacts EngineBridgeFacts EngineRebalanceFacts.
From Jamm Require FreelistFacts EngineAllocFacts EngineSpillWfFacts.
From Jamm Require Import EngineTxInvFacts EngineSpillBucketFacts EngineRefines.
From Jamm Require Import EngineOwnDefs EngineOwnWr EngineOwnOps EngineOwnReb EngineOwnSpill EngineOwnLnk EngineAllocInv.
From Jamm Require Import EngineNoLeakWr EngineNoLeakNode EngineNoLeakCov EngineNoLeakSpill EngineCow.
From Jamm Require EngineFallback.
Import ListNotations.
Import Coq.Strings.String.StringSyntax. Delimit Scope string_scope with string.
Local Open Scope list_scope. Local Open Scope nat_scope.
Set Warnings "-abstract-large-number".
Arguments N.add : simpl never. Arguments N.sub : simpl never. Arguments N.mul : simpl never.
Arguments N.div : simpl never. Arguments N.ltb : simpl never. Arguments N.leb : simpl never.
Arguments N.eqb : simpl never.

Section SpillHead.
Variables (d : disk) (keep L : list N).
Hypothesis HC : closedR d keep.
Hypothesis Hz : dget d 0%N = None.
Hypothesis HkL : forall q x, In q keep -> In x (prun d q) -> In x L.

Notation ldisk := (later_disk d).

(* every head page of the bucket tree rooted at r on the disk of the later state s is written or kept *)
Definition HeadsOK (n : nat) (s : txs) (r : N) : Prop :=
  forall h, In h (fpg n (ldisk s) r) -> wr_get (wr s) h <> None \/ In h keep.

Definition HeadPost (n : nat) (live : list N) (s : txs) (res : N * N * txs * list bytes) : Prop :=
  let '(r, _, s', _) := res in
  exists alloc dead, frame live s s' alloc dead /\
    Later live alloc s' (fun s4 => cpres n (ldisk s4) r -> HeadsOK n s4 r).

Definition RecHead (rec : bucket -> txs -> list bytes -> res (N * N * txs * list bytes)) : Prop :=
  forall n live b s ord res r0 m, n <= fuel0 ->
    fresh_inv live s -> (forall x, In x L -> In x live) -> unwritten keep s ->
    wr_ok L s -> pend_ok0 s -> pend_ids_ok s ->
    SReady d keep b -> OvlAbs d b m -> SReadyX d keep b ->
    OwnI d n s b r0 -> Lnk d n b r0 -> incl (foot d n r0) L ->
    (forall q, wr_get (wr s) q <> None -> In q live) ->
    rec b s ord = Ok res -> HeadPost n live s res.

Lemma keepL' : forall x, In x keep -> In x L.
Proof. intros x Hx. apply (HkL x x Hx). apply In_prun_self. Qed.

(* a kept committed tree on a later disk: its head pages are pages of keep *)
Lemma kept_heads : forall n s r, unwritten keep s -> In r keep -> HeadsOK n s r.
Proof.
  intros n s r Hu Hr h Hh. right.
  rewrite (fpg_kept d (ldisk s) keep HC (fun x => later_disk_kept d keep s x Hu) n r Hr) in Hh.
  exact (fpg_incl_keep d keep HC n r Hr h Hh).
Qed.

(* the bucket that is not dirty *)
Lemma head_clean : forall n live b s ord, n <= fuel0 -> fresh_inv live s -> (forall x, In x L -> In x live) ->
  unwritten keep s -> is_dirty fuel0 b = false -> In (b_root_page b) keep ->
  HeadPost n live s (b_root_page b, b_next b, s, ord).
Proof.
  intros n live b s ord Hn Hfi HLl Hu Ed Hin.
  cbn [HeadPost]. exists [], []. split; [now apply frame_refl|].
  intros s2 a2 d2 Hf2 _. cbn [app] in Hf2.
  assert (Hkl : forall x, In x keep -> In x live) by (intros x Hx; apply HLl, keepL', Hx).
  pose proof (frame_unwritten _ _ _ _ _ keep Hfi Hf2 Hkl Hu) as Hu2.
  now apply kept_heads.
Qed.

(* ---------- assembling the new tree ---------- *)
Lemma head_assemble : forall n' live s s1 A D (ms : list meta) (l : list leafent) s3 alloc dead p nx ord,
  fresh_inv live s -> (forall x, In x L -> In x live) -> unwritten keep s ->
  frame live s s1 A D ->
  Forall (fun m : meta => Later live A s1 (fun s4 => cpres n' (ldisk s4) (snd (fst m)) -> HeadsOK n' s4 (snd (fst m)))) ms ->
  frame (A ++ live) s1 s3 alloc dead ->
  (forall k r nx, In (LBk k r nx) l -> find (fun m : meta => beq (m_name m) k) ms = None -> In r keep) ->
  Later live (alloc ++ A) s3 (fun s4 => cpres (S n') (ldisk s4) p ->
     page_ents fuel0 (ldisk s4) p = map (patch ms) l /\
     (forall q, In q (p :: ppages fuel0 (ldisk s4) p) -> wr_get (wr s4) q <> None \/ In q keep)) ->
  HeadPost (S n') live s (p, nx, s3, ord).
Proof.
  intros n' live s s1 A D ms l s3 alloc dead p nx ord Hfi HLl Hunw Hfr Hms Hf3 Hunp Hown.
  cbn [HeadPost]. exists (alloc ++ A), (D ++ dead). pose proof (frame_trans _ _ _ _ _ _ _ _ Hfr Hf3) as Hf13.
  split; [exact Hf13|].
  intros s4 a2 d2 Hf4 Hc.
  destruct (Hown s4 a2 d2 Hf4 Hc) as (Epe & O1).
  assert (Hkl : forall x, In x keep -> In x live) by (intros y Hy; apply HLl, keepL', Hy).
  pose proof (frame_trans _ _ _ _ _ _ _ _ Hf13 Hf4) as Hf14.
  pose proof (frame_unwritten _ _ _ _ _ keep Hfi Hf14 Hkl Hunw) as Hu4.
  assert (Hf34 : frame (A ++ live) s1 s4 (a2 ++ alloc) (dead ++ d2)).
  { rewrite <- app_assoc in Hf4. eapply frame_trans; eauto. }
  cbn [cpres] in Hc. destruct Hc as [Hpp Hcall]. rewrite Epe in Hcall. rewrite Forall_forall in Hcall.
  intros h Hh. rewrite fpg_S in Hh. apply in_app_or in Hh. destruct Hh as [Hh|Hh]; [exact (O1 h Hh)|].
  rewrite Epe in Hh. apply in_flat_map in Hh. destruct Hh as (e' & He' & Hh).
  pose proof (Hcall e' He') as Hce. apply in_map_iff in He'. destruct He' as (e & Ee & He).
  destruct e as [k v|k r0 nx0]; [cbn [patch] in Ee; subst e'; destruct Hh|].
  cbn [patch] in Ee. destruct (find (fun m : meta => beq (m_name m) k) ms) as [[[k1 r1] nx1]|] eqn:Ef.
  - subst e'. apply find_some in Ef. destruct Ef as [Hm _]. rewrite Forall_forall in Hms.
    exact (Hms _ Hm s4 _ _ Hf34 Hce h Hh).
  - subst e'. exact (kept_heads n' s4 r0 Hu4 (Hunp k r0 nx0 He Ef) h Hh).
Qed.


(* ---------- the fold over the opened sub-buckets ---------- *)
Definition SubInvH (n' : nat) (live : list N) (s : txs) (acc : sub_acc) : Prop :=
  let '(ms, s0, _, _) := acc in
  exists A D, frame live s s0 A D /\ (forall q, wr_get (wr s0) q <> None -> In q (A ++ live)) /\
    Forall (fun m : meta => Later live A s0 (fun s4 => cpres n' (ldisk s4) (snd (fst m)) -> HeadsOK n' s4 (snd (fst m)))) ms.

Section SubFoldH.
Variables (n' : nat) (live : list N) (s : txs) (l : list leafent) (subs : list (bytes * bucket)) (r0 : N).
Variable rec : bucket -> txs -> list bytes -> res (N * N * txs * list bytes).
Hypothesis HRc : RecHead rec.
Hypothesis Hn' : n' <= fuel0.
Hypothesis Hfi : fresh_inv live s.
Hypothesis HLl : forall x, In x L -> In x live.
Hypothesis Hunw : unwritten keep s.
Hypothesis HfootL : incl (foot d (S n') r0) L.
Hypothesis Hent : forall e, In e l -> incl (efoot d n' e) (foot d (S n') r0).
Hypothesis Hent2 : forall e1 e2, In e1 l -> In e2 l -> lkey e1 <> lkey e2 -> disj (efoot d n' e1) (efoot d n' e2).
Hypothesis Hsubs : forall nm sb, In (nm, sb) subs ->
  SReady d keep sb /\ (exists ms, OvlAbs d sb ms) /\ SReadyX d keep sb /\
  exists ro nxo, In (LBk nm ro nxo) l /\ OwnI d n' s sb ro /\ Lnk d n' sb ro.

Lemma sub_step_invH : forall x acc acc', SubInvO d L n' live s l subs acc -> SubInvH n' live s acc ->
  sub_step rec acc x = Ok acc' -> SubInvH n' live s acc'.
Proof.
  intros x0 [[[ms s0] o] remaining] acc' HI HIc H.
  unfold sub_step in H. destruct o as [|nm o']; [discriminate|].
  destruct (take_sub nm remaining) as [[sb rem']|] eqn:Et; [|discriminate].
  apply bind_ok_inv in H. destruct H as ([[[r nx] s'] o''] & Hrec & H). inversion H; subst acc'. clear H.
  destruct (take_sub_inv _ _ _ _ Et) as (a & b & Erem & ->).
  destruct HI as (I1 & I2 & I4 & A & D & Aof & Hfr & Hw0 & Hp0 & Hi0 & HD & HAof & HAofd & Hall).
  destruct HIc as (A' & D' & Hfr' & Hwl0 & Hheads).
  assert (Hin_rem : In (nm, sb) remaining) by (rewrite Erem; apply in_or_app; right; now left).
  destruct (Hsubs nm sb (I2 _ Hin_rem)) as (HS & [msb Hmsb] & HSX & ro & nxo & Hlro & HOw & HLk).
  assert (Hnm_fresh : forall m, In m ms -> m_name m <> nm).
  { intros m Hm E. apply (I4 m Hm). rewrite E. apply (in_map fst _ _ Hin_rem). }
  assert (HL' : forall y, In y L -> In y (A' ++ live)) by (intros y Hy; apply in_or_app; right; now apply HLl).
  assert (HA_fresh : forall y, In y L -> ~ In y A).
  { intros y Hy Hi. apply (frame_new _ _ _ _ _ y Hfi Hfr Hi), HLl, Hy. }
  assert (HroL : incl (foot d n' ro) L) by (intros y Hy; apply HfootL, (Hent _ Hlro), Hy).
  assert (Hother : forall m ro' nxo', In m ms -> In (LBk (m_name m) ro' nxo') l -> disj (foot d n' ro) (foot d n' ro')).
  { intros m ro' nxo' Hm Hl'. apply (Hent2 (LBk nm ro nxo) (LBk (m_name m) ro' nxo') Hlro Hl'). cbn [lkey].
    intros E. exact (Hnm_fresh m Hm (eq_sym E)). }
  assert (HOw0 : OwnI d n' s0 sb ro).
  { apply (OwnI_later d Hz n' s s0 sb ro HOw). intros y Hy Hf. apply (fr_freed _ _ _ _ _ Hfr) in Hf.
    destruct Hf as [Hf|Hf]; [exact Hf|]. exfalso. destruct (HD y Hf) as [Ha|(m & ro' & nxo' & Hm & Hl' & Hy')].
    - exact (HA_fresh y (HroL y Hy) Ha).
    - exact (Hother m ro' nxo' Hm Hl' y Hy Hy'). }
  assert (Hkl : forall x, In x keep -> In x live) by (intros y Hy; apply HLl, keepL', Hy).
  pose proof (HRc n' (A' ++ live) sb s0 o' _ ro msb Hn' (fr_fresh _ _ _ _ _ Hfr') HL'
                 (frame_unwritten _ _ _ _ _ keep Hfi Hfr' Hkl Hunw) Hw0 Hp0 Hi0 HS Hmsb HSX HOw0 HLk HroL Hwl0 Hrec) as HP.
  cbn [HeadPost] in HP. destruct HP as (a1 & d1 & Hf1 & HW1).
  assert (HW1' : Later live (a1 ++ A') s' (fun s4 => cpres n' (ldisk s4) r -> HeadsOK n' s4 r)).
  { intros s2 a2 d2 Hf2. rewrite <- app_assoc in Hf2. exact (HW1 s2 a2 d2 Hf2). }
  unfold SubInvH. exists (a1 ++ A'), (D' ++ d1).
  split; [eapply frame_trans; eauto|].
  split. { intros q Hq. rewrite <- app_assoc. exact (frame_heads _ _ _ _ _ Hf1 Hwl0 q Hq). }
  apply Forall_app. split.
  - rewrite Forall_forall in Hheads. apply Forall_forall. intros m Hm.
    exact (Later_later live A' s0 s' a1 d1 _ Hf1 (Hheads m Hm)).
  - constructor; [|constructor]. cbn [m_name fst snd]. exact HW1'.
Qed.

Lemma sub_fold_invH : forall cnt acc acc', SubInvO d L n' live s l subs acc -> SubInvH n' live s acc ->
  RecOwn d keep L rec ->
  fold_res (sub_step rec) cnt acc = Ok acc' -> SubInvH n' live s acc'.
Proof.
  induction cnt as [|x cnt IH]; intros acc acc' HI HIc HR H.
  - cbn [fold_res] in H. inversion H; subst. exact HIc.
  - cbn [fold_res] in H. apply bind_ok_inv in H. destruct H as (acc1 & H1 & H2).
    apply (IH acc1 acc'); [| |exact HR | exact H2].
    + eapply (sub_step_invO d keep L Hz HkL n' live s l subs r0 rec HR Hn' Hfi HLl Hunw HfootL Hent Hent2 Hsubs); eauto.
    + eapply sub_step_invH; eauto.
Qed.
End SubFoldH.


(* ---------- the own tree of a dirty bucket ---------- *)

(* the materialised, non-empty root: every head page of the new own tree is written, or an unloaded (kept) page *)
Lemma tail_rdy_head : forall live' s2 h rn lv p s3,
  fresh_inv live' s2 -> (forall x, In x keep -> In x live') -> unwritten keep s2 ->
  Inv h d false None None rn -> Rdy d keep rn -> NodeView d h rn lv -> h <= fuel0 ->
  incl (npages h d rn) keep -> NoDup (npages h d rn) ->
  spill_root fuel0 rn s2 = Ok (p, s3) ->
  exists alloc dead, frame live' s2 s3 alloc dead /\
    forall s4 a2 d2, frame (alloc ++ live') s3 s4 a2 d2 -> pages_present fuel0 (ldisk s4) p ->
      page_ents fuel0 (ldisk s4) p = lv /\
      (forall q, In q (p :: ppages fuel0 (ldisk s4) p) -> wr_get (wr s4) q <> None \/ In q keep).
Proof.
  intros live' s2 h rn lv p s3 Hfi2 Hk1 Hu2 HI HRd HV Hh Hinc Hnp Hsp.
  pose proof (Rdy_shape_ok _ _ _ _ _ _ HI HRd) as Hsh.
  assert (Hup : forall x, In x (upages h d rn) -> In x keep).
  { intros x Hx. apply Hinc. now apply EngineSpillWfFacts.upages_incl_npages. }
  pose proof (EngineSpillWfFacts.Inv_swfh h d keep h None None rn HI Hsh Hup (le_n h)) as Hsw.
  pose proof (EngineSpillWfFacts.NoDup_npages_upages h d rn Hnp) as Hund.
  destruct (spill_root_wfw h d keep live' fuel0 rn s2 p s3 h Hfi2 Hk1 Hsw Hund Hsp)
    as (alloc & dead & good & lv0 & F1 & F2 & F3 & _ & F6 & Hfin).
  exists alloc, dead. split; [exact F1|].
  intros s4 a2 d2 Hf4 Hp.
  destruct (frame_later_ok _ _ _ _ _ good keep s4 a2 d2 Hfi2 F1 F2 Hk1 Hu2 Hf4) as [G1 G2].
  destruct (Hfin (wr s4) (psz s4) G1 G2) as (R1 & R2 & R3 & R5). cbv zeta in *. fold (later_disk d s4) in *.
  set (d4 := later_disk d s4) in *. set (H := lv0 + h) in *.
  assert (Epp : ppages fuel0 d4 p = ppages H d4 p).
  { pose proof (EngineSpillWfFacts.PInv_present _ _ _ _ _ _ R1) as Hph.
    rewrite <- (ppages_present_stable fuel0 d4 p Hp (Nat.max H fuel0) ltac:(lia)).
    apply (ppages_present_stable H d4 p Hph). lia. }
  split.
  - rewrite (NodeView_view_leaves d h rn _ HV h (le_n h)) in R5.
    eapply PageView_det; [apply page_ents_PageView; exact Hp | exact R5].
  - rewrite Epp. intros q Hq. destruct (R3 q Hq) as [[_ Hwq]|Huq]; [now left | right; now apply Hup].
Qed.

(* the root that is the empty leaf: one written page *)
Lemma tail_empty_head : forall live' s2 rn p s3,
  fresh_inv live' s2 -> n_data rn = Leaves [] -> spill_root fuel0 rn s2 = Ok (p, s3) ->
  exists alloc dead, frame live' s2 s3 alloc dead /\
    forall s4 a2 d2, frame (alloc ++ live') s3 s4 a2 d2 ->
      page_ents fuel0 (ldisk s4) p = [] /\
      (forall q, In q (p :: ppages fuel0 (ldisk s4) p) -> wr_get (wr s4) q <> None \/ In q keep).
Proof.
  intros live' s2 rn p s3 Hfi2 Hemp Hsp.
  destruct (spill_root_empty_w live' fuel0 rn s2 p s3 Hfi2 Hemp Hsp) as (np & v & F1 & Hnp & Hget & Hbody).
  exists (nrun p np), (old_pages rn). split; [exact F1|].
  intros s4 a2 d2 Hf4.
  assert (Hp_al : In p (nrun p np)) by (apply In_nrun; lia).
  assert (Hget4 : wr_get (wr s4) p = Some v).
  { rewrite (fr_wr _ _ _ _ _ Hf4); [exact Hget|]. intros Hi.
    apply (frame_new _ _ _ _ _ p (fr_fresh _ _ _ _ _ F1) Hf4 Hi). apply in_or_app. now left. }
  assert (Hg4 : dget (ldisk s4) p = Some (mk_apage (psz s4) v)) by (apply dget_apply_wr_some, Hget4).
  assert (Epp : ppages fuel0 (ldisk s4) p = []).
  { unfold fuel0. rewrite EngineSpillWfFacts.ppages_S, Hg4. cbn [mk_apage ap_body]. now rewrite Hbody. }
  split.
  - unfold fuel0. eapply page_ents_leaf; [exact Hg4 | exact Hbody].
  - rewrite Epp. intros q [<-|[]]. left. congruence.
Qed.


(* ---------- the induction step ---------- *)
Lemma RecHead_step : forall f, RecHead (spill_bucket f d) -> RecHead (spill_bucket (S f) d).
Proof.
  intros f HRc n live b s ord res r0 m Hn Hfi HLl Hu Hw Hp0 Hpid HS HO HSX HOw HLk HfL Hwl H.
  destruct res as [[[r nx] s'] ord']. rewrite spill_bucket_unfold in H.
  assert (Hkl : forall x, In x keep -> In x live) by (intros y Hy; apply HLl, keepL', Hy).
  pose proof (RecOwn_all d keep L HC Hz HkL W1a W1b W1c W1d f) as HR.
  destruct (is_dirty fuel0 b) eqn:Ed; cbn [negb] in H.
  2:{ inversion H; subst r nx s' ord'. inversion HSX as [b0 _ Hsb Hin | b0 Hd]; subst b0; [|congruence].
      eapply head_clean; eauto. }
  destruct n as [|n']; [destruct HOw|].
  inversion HS as [b0 Hd | b0 h l _ Hh HV HD Hnd Hsubs Hdisk]; subst b0; [congruence|].
  inversion HSX as [b0 Hd | b0 _ HXR HXsubs HXun]; subst b0; [congruence|].
  inversion HO as [b0 l0 ents Hbv HF]; subst b0 m.
  assert (Hbvl : bucket_view d b l) by (exists h; auto).
  assert (El : l0 = l) by (apply (bucket_view_det d b); assumption). subst l0.
  cbn [OwnI] in HOw. destruct HOw as (Hr & Hndf & Hpg & l1 & Hv1 & Hnb & Hb & He & Hun & Hsb).
  assert (El : l1 = l) by (apply (bucket_view_det d b); assumption). subst l1.
  cbn [Lnk] in HLk. destruct HLk as [_ HLk2].
  destruct (own_entries d n' r0 l Hz Hr Hndf He) as (E1 & E2 & E3 & E4).
  assert (Hsubs' : forall nm sb, In (nm, sb) (b_subs b) -> SReady d keep sb /\ exists ms, OvlAbs d sb ms).
  { intros nm sb Hin. destruct (Hsubs nm sb Hin) as [(r1 & nx1 & Hl) HSb]. split; [exact HSb|].
    eapply sub_has_meaning; eauto. }
  assert (Hsubs4 : forall nm sb, In (nm, sb) (b_subs b) ->
            SReady d keep sb /\ (exists ms, OvlAbs d sb ms) /\ SReadyX d keep sb /\
            exists ro nxo, In (LBk nm ro nxo) l /\ OwnI d n' s sb ro /\ Lnk d n' sb ro).
  { intros nm sb Hin. destruct (Hsubs' nm sb Hin) as [X1 X2]. split; [exact X1|]. split; [exact X2|].
    split; [eauto|]. destruct (Hsb nm sb Hin) as (ro & nxo & Hl & Ho). exists ro, nxo. split; [exact Hl|].
    split; [exact Ho | exact (HLk2 nm sb Hin l ro nxo Hbvl Hl)]. }
  apply bind_ok_inv in H. destruct H as ([[[metas s1] ord1] rem] & Hf1 & H).
  assert (HI0 : SubInv d live s (b_subs b) ([], s, ord, b_subs b)).
  { cbn [SubInv]. split; [exact Hnd|]. split; [auto|]. split; [constructor|]. split; [intros ? []|].
    split; [intros x Hx; now right|]. exists [], []. split; [now apply frame_refl | constructor]. }
  destruct (sub_fold_inv d keep live s (b_subs b) _ (RecOK_all d keep f) Hfi Hkl Hu Hsubs' (b_subs b) _ _ HI0 Hf1)
    as [(_ & _ & J3 & _ & J5 & A0 & D0 & Hfr0 & Hms) Hlen].
  cbn [snd] in Hlen. assert (rem = []) by (destruct rem; [reflexivity | cbn [length] in Hlen; lia]). subst rem.
  assert (Hcov : forall x, In x (b_subs b) -> In (fst x) (map m_name metas)).
  { intros x Hx. destruct (J5 x Hx) as [Hc|[]]. exact Hc. }
  assert (HI0O : SubInvO d L n' live s l (b_subs b) ([], s, ord, b_subs b)).
  { cbn [SubInvO]. split; [exact Hnd|]. split; [auto|]. split; [intros ? []|]. exists [], [], (fun _ => []).
    split; [now apply frame_refl|]. split; [exact Hw|]. split; [exact Hp0|]. split; [exact Hpid|].
    split; [intros x []|]. split; [intros k x []|]. split; [intros k1 k2 _ x []|constructor]. }
  assert (HI0H : SubInvH n' live s ([], s, ord, b_subs b)).
  { cbn [SubInvH]. exists [], []. split; [now apply frame_refl|]. split; [exact Hwl | constructor]. }
  assert (Hn' : n' <= fuel0) by lia.
  pose proof (sub_fold_invH n' live s l (b_subs b) r0 _ HRc Hn' Hfi HLl Hu HfL (fun e He => proj1 (E3 e He)) E4 Hsubs4
                (b_subs b) _ _ HI0O HI0H HR Hf1) as HIH.
  cbn [SubInvH] in HIH. destruct HIH as (A & D & Hfr & Hwl1 & Hheads).
  assert (Hunp : forall k r1 nx1, In (LBk k r1 nx1) l -> find (fun m : meta => beq (m_name m) k) metas = None ->
            In r1 keep).
  { intros k r1 nx1 Hin Hfd.
    assert (Hsf : sub_find k (b_subs b) = None).
    { destruct (sub_find k (b_subs b)) as [sb|] eqn:Hsf; [|reflexivity]. exfalso.
      pose proof (Hcov _ (sub_find_In _ _ _ Hsf)) as Hc. cbn [fst] in Hc.
      destruct (find_name metas k Hc) as (m1 & F1 & _). congruence. }
    destruct (HXun l k r1 nx1 Hbvl Hin Hsf) as [_ Hr1]. exact Hr1. }
  apply bind_ok_inv in H. destruct H as ([b1 s2] & Hf2 & H).
  assert (Hallm : forall mt, In mt metas -> exists r1 nx1, In (LBk (m_name mt) r1 nx1) l).
  { intros mt Hmt. rewrite Forall_forall in Hms. destruct (Hms mt Hmt) as (sb & _ & X1 & _).
    destruct (Hsubs _ _ X1) as [Hex _]. exact Hex. }
  assert (Hcase : (b_rootn b = None /\ metas = []) \/
                  (SRoot d keep h b /\ (metas <> [] \/ exists n, b_rootn b = Some n))).
  { unfold SRoot, DRoot in *. destruct (b_rootn b) as [n|]; [right; split; [exact HD | right; eauto]|].
    destruct metas as [|mt metas]; [left; auto|]. right. split; [|left; discriminate].
    destruct HD as [HD1 HD2]. split; [|exact HD1]. apply HD2.
    inversion Hms as [|? ? (sb & _ & X1 & _) _]; subst. intros E. rewrite E in X1. destruct X1. }
  pose proof (fr_fresh _ _ _ _ _ Hfr) as Hfi1.
  pose proof (frame_unwritten _ _ _ _ _ keep Hfi Hfr Hkl Hu) as Hu1.
  assert (Hk1 : forall x, In x keep -> In x (A ++ live)) by (intros y Hy; apply in_or_app; right; now apply Hkl).
  destruct Hcase as [[Ern ->] | [HSR Hsome]].
  - (* the promoted root that was never loaded *)
    cbn [fold_res] in Hf2. inversion Hf2; subst b1 s2. unfold spill_tail_b in H. rewrite Ern in H.
    inversion H; subst r nx s' ord'. clear H.
    unfold DRoot in HD. unfold BucketView in HV. rewrite Ern in HD, HV. destruct HD as [HD1 _].
    apply (head_assemble n' live s s1 A D [] l s1 [] [] (b_root_page b) (b_next b) ord1 Hfi HLl Hu Hfr Hheads
             (frame_refl _ _ Hfi1) Hunp).
    intros s4 a2 d2 Hf4 Hc. cbn [app] in Hf4.
    pose proof (frame_unwritten _ _ _ _ _ keep Hfi1 Hf4 Hk1 Hu1) as Hu4.
    assert (Hag : forall x, in_subtree d (b_root_page b) x -> dget (ldisk s4) x = dget d x).
    { intros x Hx. apply (later_disk_kept d keep s4 x Hu4), HD1, Hx. }
    rewrite (ppages_transfer d (ldisk s4) fuel0 _ Hag), (page_ents_transfer d (ldisk s4) fuel0 _ Hag).
    rewrite (PageView_page_ents _ _ _ _ HV fuel0 Hh), patch_nil. split; [reflexivity|].
    intros q Hq. right. apply HD1. destruct Hq as [<-|Hq]; [apply ist_self | eapply ppages_subtree; eauto].
  - destruct (meta_fold_replace d keep h metas b l s1 b1 s2 HSR HV Hh J3 Hallm Hf2) as (B1 & B2 & B3 & B4 & _ & B6).
    pose proof (meta_fold_bpg d keep h metas b l s1 b1 s2 HSR HV Hh J3 Hallm Hf2) as Ebpg.
    assert (Hrp : b_rootn b = None -> b_root_page b <> 0%N).
    { intros En E. unfold SRoot in HSR. rewrite En in HSR. destruct HSR as [HP _].
      destruct (PInv_dget _ _ _ _ _ _ HP) as [a Ha]. rewrite E in Ha. congruence. }
    destruct (meta_fold_heads d keep h metas b l s1 b1 s2 HSR HV Hh J3 Hallm Hpg Hrp Hf2) as (Ehd & Hpg1 & _).
    destruct (XRoot_bpg d keep h b HC HXR HSR) as [_ Hinc]. rewrite <- Ebpg in Hinc.
    assert (Hrn : exists rn, b_rootn b1 = Some rn).
    { destruct Hsome as [Hne | [n0 Hn0]]; [apply B3, Hne|]. destruct metas as [|mt metas]; [|apply B3; discriminate].
      rewrite (B4 eq_refl). eauto. }
    destruct Hrn as [rn Ern]. unfold spill_tail_b in H. rewrite Ern in H.
    apply bind_ok_inv in H. destruct H as ([p s3] & Hsp & H). inversion H; subst r nx s' ord'. clear H.
    pose proof (bheads_bpg d keep h b1 B1 Hh) as Ebh. rewrite Ern in Ebh.
    unfold SRoot in B1. rewrite Ern in B1. destruct B1 as [HI HRd]. unfold BucketView in B2. rewrite Ern in B2.
    unfold bpg in Hinc, Ebh. rewrite Ern in Hinc, Ebh.
    assert (Ebo : bheads d b = hdl rn ++ npages h d rn) by (unfold hdl; now rewrite <- Ehd, Ebh).
    pose proof (frame_seqc_r _ _ _ _ _ _ Hfr B6) as Hfr02. pose proof (fr_fresh _ _ _ _ _ Hfr02) as Hfi2.
    pose proof (frame_unwritten _ _ _ _ _ keep Hfi Hfr02 Hkl Hu) as Hu2.
    destruct HRd as [Hemp | HRdy].
    + assert (El : map (patch metas) l = []) by (eapply NodeView_empty_leaf; eauto).
      destruct (tail_empty_head (A ++ live) s2 rn p s3 Hfi2 Hemp Hsp) as (alloc & dead & F1 & Hlater).
      pose proof (frame_seqc_l _ _ _ _ _ _ B6 F1) as F1'.
      apply (head_assemble n' live s s1 A D metas l s3 alloc dead p (b_next b1) ord1 Hfi HLl Hu Hfr Hheads F1' Hunp).
      intros s4 a2 d2 Hf4 Hc. rewrite <- app_assoc in Hf4.
      destruct (Hlater s4 a2 d2 Hf4) as (Epe & O1). rewrite El. split; [exact Epe | exact O1].
    + assert (Hnp : NoDup (npages h d rn)).
      { unfold bown in Hnb. rewrite Ebo in Hnb. apply NoDup_runs_heads in Hnb. eapply NoDup_app_r; eauto. }
      destruct (tail_rdy_head (A ++ live) s2 h rn _ p s3 Hfi2 Hk1 Hu2 HI HRdy B2 Hh Hinc Hnp Hsp)
        as (alloc & dead & F1 & Hlater).
      pose proof (frame_seqc_l _ _ _ _ _ _ B6 F1) as F1'.
      apply (head_assemble n' live s s1 A D metas l s3 alloc dead p (b_next b1) ord1 Hfi HLl Hu Hfr Hheads F1' Hunp).
      intros s4 a2 d2 Hf4 Hc. rewrite <- app_assoc in Hf4.
      assert (Hp : pages_present fuel0 (ldisk s4) p) by (cbn [cpres] in Hc; apply Hc).
      exact (Hlater s4 a2 d2 Hf4 Hp).
Qed.

Lemma RecHead_all : forall f, RecHead (spill_bucket f d).
Proof.
  induction f as [|f IH]; [|now apply RecHead_step].
  intros n live b s ord res r0 m _ _ _ _ _ _ _ _ _ _ _ _ _ _ H. discriminate.
Qed.

End SpillHead.

(* ====================================================================== *)
(** * The commit: [EngineCow.commit_states_gen] / [run_tx_final] with the head-level clause added *)

Lemma commit_states_heads : forall st b s ord st' b1 s1 m Lx,
  db_ok' st -> dget (d_disk st) 0%N = None ->
  incl (live_of st (Rof st)) Lx -> fresh_inv Lx s1 ->
  rebalance fuel0 (d_disk st) b s = Ok (b1, s1) ->
  wr s1 = [] -> pend_ids_ok s1 ->
  (forall x, In x (pend_all (pending s1)) -> freed_in_tx s1 x = true) ->
  (forall x, freed_in_tx s1 x = true -> In x (foot (d_disk st) 16 (d_root st))) ->
  SReady (d_disk st) (Rof st) b1 -> OvlAbs (d_disk st) b1 m -> SReadyX (d_disk st) (Rof st) b1 ->
  OwnI (d_disk st) 16 s1 b1 (d_root st) -> Lnk (d_disk st) 16 b1 (d_root st) ->
  commit st b s ord = Ok st' ->
  exists r nx s4 alloc flp fln Dall,
    st' = {| d_disk := apply_wr (wr s4) (psz s4) (d_disk st); d_root := r; d_next := nx; d_np := np s4; d_fl := flp;
             d_fln := fln; d_flids := all_pages s4; d_tx := txid s4; d_free := free s4; d_pending := pending s4;
             d_psz := psz s4 |} /\
    frame Lx s1 s4 (nrun flp fln ++ alloc) Dall /\
    (forall x, In x (nrun flp fln) -> ~ In x (alloc ++ Lx)) /\
    wr_ok Lx s4 /\
    (forall q v x, wr_get (wr s4) q = Some v -> In x (wrun (psz s4) q v) -> ~ In x (nrun flp fln)) /\
    TreeOK (d_disk st) 16 alloc (foot (d_disk st) 16 (d_root st)) s4 r /\
    (cpres 16 (later_disk (d_disk st) s4) r -> HeadsOK (d_disk st) (Rof st) 16 s4 r).
Proof.
  intros st b s ord st' b1 s1 m Lx (Hstrict & HA & HndL & _) Hz HLx Hfi Hreb Hwr Hpid Hpf Hff HS HO HSX HOw HLk H.
  set (d := d_disk st) in *. set (R := Rof st) in *. set (L := live_of st R) in *.
  pose proof HA as (_ & _ & _ & _ & _ & _ & _ & HCR & Hlive).
  assert (HkL : forall q x, In q R -> In x (prun d q) -> In x Lx).
  { intros q x Hq Hx. apply HLx. unfold L, live_of. apply in_or_app. left. apply in_flat_map. eauto. }
  assert (HfL : incl (foot d 16 (d_root st)) Lx) by (intros x Hx; apply HLx; now apply foot_live).
  rewrite commit_apply_wr in H. unfold commit_with_apply_wr in H. fold d in H. rewrite Hreb in H. cbn [bind] in H.
  apply bind_ok_inv in H. destruct H as ([[[r nx] s2] ord'] & Hsp & H).
  assert (Hp0 : pend_ok0 s1).
  { intros x Hx. apply (fi_live _ _ Hfi), HfL, Hff, Hpf, Hx. }
  assert (H16 : 16 <= fuel0) by (unfold fuel0; lia).
  assert (Hu : unwritten R s1) by (intros x _; rewrite Hwr; reflexivity).
  pose proof (RecOwn_all d R Lx HCR Hz HkL W1a W1b W1c W1d fuel0 16 Lx b1 s1 ord (r, nx, s2, ord') (d_root st) m H16 Hfi
                (fun x Hx => Hx) Hu
                (wr_ok_nil Lx s1 Hwr) Hp0 Hpid HS HO HSX HOw HLk HfL Hsp) as HP.
  cbn [OwnPost] in HP. destruct HP as (alloc & dead & F1 & Hdl & W2 & P2 & I2 & HW).
  assert (Hwl : forall q, wr_get (wr s1) q <> None -> In q Lx) by (intros q Hq; rewrite Hwr in Hq; now contradiction Hq).
  pose proof (RecHead_all d R Lx HCR Hz HkL fuel0 16 Lx b1 s1 ord (r, nx, s2, ord') (d_root st) m H16 Hfi
                (fun x Hx => Hx) Hu (wr_ok_nil Lx s1 Hwr) Hp0 Hpid HS HO HSX HOw HLk HfL Hwl Hsp) as HPh.
  cbn [HeadPost] in HPh. destruct HPh as (allocH & deadH & F1H & HLaterH).
  set (s3 := free_pages s2 (d_fl st) (d_fln st)) in H.
  destruct (tx_allocate s3 (40 + 8 * llen (all_pages s3))) as [[flp fln] s4] eqn:Hal.
  inversion H; subst st'. clear H.
  pose proof (fr_fresh _ _ _ _ _ F1) as Hfi2.
  assert (HLa : forall x, In x Lx -> In x (alloc ++ Lx)) by (intros x Hx; apply in_or_app; now right).
  pose proof (free_pages_frame (alloc ++ Lx) s2 (d_fl st) (d_fln st) Hfi2) as G1. fold s3 in G1.
  assert (Hfl : forall x, In x (nrun (d_fl st) (d_fln st)) -> In x Lx).
  { intros x Hx. apply HLx. unfold L, live_of. apply in_or_app. now right. }
  destruct (W1b Lx s2 (d_fl st) (d_fln st) (fresh_inv_sub _ _ _ HLa Hfi2) W2 P2 I2 Hfl) as (W3 & P3 & I3). fold s3 in W3, P3, I3.
  assert (Hpos : (0 < 40 + 8 * llen (all_pages s3))%N) by lia.
  pose proof (fr_fresh _ _ _ _ _ G1) as Hfi3. cbn [app] in Hfi3.
  destruct (tx_allocate_frame (alloc ++ Lx) s3 _ flp fln s4 Hfi3 Hpos Hal) as [G2 G3].
  destruct (W1c Lx s3 _ flp fln s4 (fresh_inv_sub _ _ _ HLa Hfi3) W3 P3 I3 Hpos Hal) as (W4 & P4 & I4 & Hsep).
  pose proof (frame_trans _ _ _ _ _ _ _ _ G1 G2) as G4. rewrite !app_nil_r in G4.
  pose proof (frame_trans _ _ _ _ _ _ _ _ F1 G4) as F14.
  pose proof (fr_fresh _ _ _ _ _ F1H) as Hfi2H.
  pose proof (free_pages_frame (allocH ++ Lx) s2 (d_fl st) (d_fln st) Hfi2H) as G1H. fold s3 in G1H.
  pose proof (fr_fresh _ _ _ _ _ G1H) as Hfi3H. cbn [app] in Hfi3H.
  destruct (tx_allocate_frame (allocH ++ Lx) s3 _ flp fln s4 Hfi3H Hpos Hal) as [G2H _].
  pose proof (frame_trans _ _ _ _ _ _ _ _ G1H G2H) as G4H.
  exists r, nx, s4, alloc, flp, fln, (dead ++ nrun (d_fl st) (d_fln st)). fold d R L.
  split; [reflexivity|]. split; [exact F14|].
  split; [intros x Hx; apply G3; now apply In_nrun|].
  split; [exact W4|]. split; [exact Hsep|].
  split; [|exact (HLaterH s4 _ _ G4H)].
  apply (HW s4 _ _ G4); [|exact W4]. intros x Hx. split.
  - intros Hi. apply (frame_new _ _ _ _ _ x Hfi F1 Hi). now apply Hfl.
  - intros Hi. exact (foot_fl_disj st x HndL Hi Hx).
Qed.

Lemma run_tx_final_heads : forall st ops ord st', db_okz st -> Forall (op_ok (d_disk st)) ops ->
  run_tx st ops ord = Ok st' ->
  incl (live_of st (Rof st)) (held st) /\
  exists s1 r nx s4 alloc flp fln Dall,
    free s1 = free (begin_w st) /\ np s1 = d_np st /\ psz s1 = d_psz st /\ txid s1 = (d_tx st + 1)%N /\
    st' = {| d_disk := apply_wr (wr s4) (psz s4) (d_disk st); d_root := r; d_next := nx; d_np := np s4; d_fl := flp;
             d_fln := fln; d_flids := all_pages s4; d_tx := txid s4; d_free := free s4; d_pending := pending s4;
             d_psz := psz s4 |} /\
    frame (held st) s1 s4 (nrun flp fln ++ alloc) Dall /\
    (forall x, In x (nrun flp fln) -> ~ In x (alloc ++ held st)) /\
    wr_ok (held st) s4 /\
    (forall q v x, wr_get (wr s4) q = Some v -> In x (wrun (psz s4) q v) -> ~ In x (nrun flp fln)) /\
    TreeOK (d_disk st) 16 alloc (foot (d_disk st) 16 (d_root st)) s4 r /\
    (cpres 16 (later_disk (d_disk st) s4) r -> HeadsOK (d_disk st) (Rof st) 16 s4 r).
Proof.
  intros st ops ord st' [Hok' Hz] Hops Hrun.
  pose proof (db_ok'_db_ok st Hok') as Hok. pose proof Hok' as (Hdb & HA & Hnd & Hpl).
  set (R := Rof st) in *.
  destruct (run_tx_rebalance_ready st ops ord st' Hdb Hops Hrun)
    as (root' & s' & b1r & s1r & fv & v & Hf & _ & _ & Hfr & [f HSD] & Hrr & _ & _ & _ & Tx & _).
  destruct (run_tx_commit_ready st R ops ord st' Hdb HA Hops Hrun)
    as (root2 & s2' & b1 & s1 & Hf2 & Hc & Hr & _ & _ & Hfi & Hwr & HS & HO).
  rewrite Hf in Hf2. inversion Hf2; subst root2 s2'. rewrite Hrr in Hr. inversion Hr; subst b1r s1r.
  pose proof HA as (_ & _ & _ & _ & _ & _ & _ & HC & _).
  assert (HSX : SReadyX (d_disk st) R b1).
  { eapply (rebalance_SReadyX (d_disk st) R HC fuel0 f 9); eauto; [unfold fuel0; lia|]. eapply tx_ops_XDF; eauto. }
  destruct (tx_fold_own st ops root' s' Hok' Hf) as (HO1 & HF1 & HI1 & Hb0).
  pose proof (tx_frees_pend_cur _ _ Hb0 Hfr) as HPC1.
  destruct (rebalance_own_missing0 (d_disk st) fuel0 f 16 s' root' (d_root st) b1 s1 Hz HSD HO1 HI1 HPC1 Hrr) as (HO2 & HF2 & HI2 & HPC2).
  destruct Tx as (T1 & T2 & T3 & T4 & _). destruct Hfr as (F1 & F2 & F3 & F4 & _).
  destruct (begin_w_fields st) as (_ & Enp & Epsz).
  assert (Efree : free s1 = free (begin_w st)) by congruence.
  assert (Enp1 : np s1 = d_np st) by congruence.
  assert (Epsz1 : psz s1 = d_psz st) by congruence.
  assert (Etx : txid s1 = (d_tx st + 1)%N) by (rewrite T2, F2; apply begin_w_txid).
  assert (HF2' : forall x, freed_in_tx s1 x = true -> In x (foot (d_disk st) 16 (d_root st))).
  { intros x Hx. destruct (HF2 x Hx) as [A|A]; [now apply HF1 | exact A]. }
  pose proof (run_Lnk st ops root' s' b1 s1 Hok' Hops Hf Hrr) as HL.
  assert (HLx : incl (live_of st R) (held st)).
  { intros x Hx. apply In_held. destruct (fi_live _ _ Hfi x Hx) as [A B]. rewrite <- Enp1, <- Efree. auto. }
  assert (HfiX : fresh_inv (held st) s1).
  { destruct Hfi as [G1 G2 G3 G4 G5 G6]. constructor; try assumption.
    intros x Hx. apply In_held in Hx. rewrite Enp1, Efree. exact Hx. }
  split; [exact HLx|].
  destruct (commit_states_heads st root' s' ord st' b1 s1 _ (held st) Hok' Hz HLx HfiX Hrr Hwr HI2 HPC2 HF2' HS HO HSX HO2 HL Hc)
    as (r & nx & s4 & alloc & flp & fln & Dall & Est & F14 & Hfnew & W4 & Hsep & HT & HH).
  exists s1, r, nx, s4, alloc, flp, fln, Dall. repeat (split; [assumption|]). exact HH.
Qed.

(* ====================================================================== *)
(** * The write set of a transaction, with [carried] *)

Theorem run_tx_write_set_carried : forall st ops ord st', db_okz st -> Forall (op_ok (d_disk st)) ops ->
  run_tx st ops ord = Ok st' ->
  exists w, tx_cow st st' w /\
    (readable st' ->
       (forall x, In x (live_of st' (Rof st')) -> written st st' w x \/ In x (live_of st (Rof st))) /\
       EngineFallback.carried st st' w).
Proof.
  intros st ops ord st' Hok Hops Hrun.
  destruct (run_tx_final_heads st ops ord st' Hok Hops Hrun)
    as (HLx & s1 & r & nx & s4 & alloc & flp & fln & Dall & Efree & Enp & Epsz & Etx & Est & F14 & Hfnew & W4 & Hsep & HT & HH).
  assert (Ep4 : psz s4 = d_psz st) by (rewrite (fr_psz _ _ _ _ _ F14); exact Epsz).
  pose proof (fr_fresh _ _ _ _ _ F14) as Hfi4.
  destruct Hok as [(_ & HA & _) _]. pose proof (begin_w_fresh st (Rof st) HA) as Hfi0.
  assert (Hge2 : forall x, ~ In x (held st) -> (2 <= x)%N).
  { intros x Hx. destruct (not_held st x Hx) as [Hf|Hn].
    - pose proof (fi_ge2 _ _ Hfi0) as G. unfold FreelistFacts.ge2 in G. rewrite Forall_forall in G. now apply G.
    - destruct HA as (_ & G & _). lia. }
  assert (Hw : forall x, written st st' (wr s4) x ->
            ~ In x (held st) /\ (2 <= x < np s4)%N /\ ~ In x (free s4)).
  { intros x [Hx|Hx].
    - apply In_wr_pages in Hx. destruct Hx as (q & v & Hg & Hx). rewrite <- Ep4 in Hx.
      destruct (wo_range _ _ W4 q v x Hg Hx) as (R1 & R2 & R3). auto.
    - subst st'. cbn [d_fl d_fln] in Hx.
      assert (Hnh : ~ In x (held st)) by (intros Hi; apply (Hfnew x Hx); apply in_or_app; now right).
      assert (Hi4 : In x ((nrun flp fln ++ alloc) ++ held st)) by (apply in_or_app; left; apply in_or_app; now left).
      destruct (fi_live _ _ Hfi4 x Hi4) as [A1 A2]. split; [exact Hnh|]. split; [|exact A2]. split; [now apply Hge2 | exact A1]. }
  exists (wr s4). split.
  2:{ intros Hrd. split.
      2:{ intros p Hp Hg. subst st'. unfold readable in Hrd. cbn [d_disk d_root] in Hrd.
          unfold Rof at 1 in Hp. cbn [d_disk d_root] in Hp.
          destruct (HH Hrd p Hp) as [Hw'|Hk]; [contradiction | exact Hk]. }
      intros x Hx. subst st'. unfold readable in Hrd. cbn [d_disk d_root] in Hrd.
      destruct (HT Hrd) as [_ Hloc]. unfold live_of at 1 in Hx. unfold Rof at 1 in Hx.
      cbn [d_disk d_root d_fl d_fln] in Hx. apply in_app_or in Hx. destruct Hx as [Hx|Hx]; [|left; right; exact Hx].
      destruct (Hloc x Hx) as [[(q & v & _ & Hg & Hr)|Hf] _].
      - left. left. apply In_wr_pages. exists q, v. rewrite <- Ep4. auto.
      - right. now apply foot_live. }
  constructor.
  - subst st'. cbn [d_disk]. now rewrite Ep4.
  - subst st'. exact Ep4.
  - subst st'. cbn [d_tx]. rewrite (fr_txid _ _ _ _ _ F14). exact Etx.
  - subst st'. cbn [d_np]. rewrite <- Enp. exact (fr_np _ _ _ _ _ F14).
  - intros x Hx Hl. apply (proj1 (Hw x Hx)). apply HLx, Hl.
  - intros x Hx. apply not_held. apply (proj1 (Hw x Hx)).
  - intros x Hx. destruct (Hw x Hx) as (_ & A & _). subst st'. exact A.
  - intros x Hx. destruct (Hw x Hx) as (_ & _ & A). subst st'. exact A.
  - intros q1 v1 q2 v2 x G1 G2 X1 X2. rewrite <- Ep4 in X1, X2. exact (wo_disj _ _ W4 q1 v1 q2 v2 x G1 G2 X1 X2).
  - intros x Hx. apply In_wr_pages in Hx. destruct Hx as (q & v & Hg & Hx). rewrite <- Ep4 in Hx.
    subst st'. cbn [d_fl d_fln]. exact (Hsep q v x Hg Hx).
Qed.

(* ====================================================================== *)
(** * [carried] for the transactions of the engine; [commit_holds_new] without the hypothesis *)

(* ITEM 1.  The write set is the one [run_tx_write_set] builds ([wr s4], the final write set of the transaction);
   it is obtained here together with [tx_cow] because [run_tx_write_set] hides it behind an opaque existential.
   NOTE: [forall w, tx_cow st st' w -> carried st st' w] is NOT claimed: [tx_cow] only fixes the resulting disk, and
   a write set from which an entry that rewrites a stale page with its old image has been dropped yields the same
   disk while that (new, written) head page is no old head page. *)
Theorem run_tx_carried : forall st ops ord st', db_okz st -> Forall (op_ok (d_disk st)) ops ->
  run_tx st ops ord = Ok st' -> readable st' ->
  exists w, tx_cow st st' w /\ EngineFallback.carried st st' w.
Proof.
  intros st ops ord st' Hok Hops Hrun Hrd.
  destruct (run_tx_write_set_carried st ops ord st' Hok Hops Hrun) as (w & C & H).
  exists w. split; [exact C | exact (proj2 (H Hrd))].
Qed.

(* ITEM 2.  The file after a commit of the engine, as an in-place update of a file that holds st, holds st' (and
   still holds st), and has the length of st'. *)
Theorem run_tx_commit_holds : forall st ops ord st' pad P F,
  db_okz st -> Forall (op_ok (d_disk st)) ops -> run_tx st ops ord = Ok st' -> readable st' ->
  EngineFileImage.phys_ok P st -> EngineFileImage.phys_ok P st' -> EngineFileImage.tree_fits P st' ->
  List.length F = N.to_nat (d_np st * P) -> EngineFallback.holds pad P F st ->
  exists w, tx_cow st st' w /\ EngineFallback.carried st st' w /\ db_okz st' /\
    (EngineFallback.writes_fit P st w ->
     let C := EngineFallback.commit_image pad P F st st' w in
     EngineFallback.holds pad P C st' /\ EngineFallback.holds pad P C st /\
     List.length C = N.to_nat (d_np st' * P)).
Proof.
  intros st ops ord st' pad P F Hok Hops Hrun Hrd Hph Hph' Hfit' HlenF HF.
  destruct (run_tx_carried st ops ord st' Hok Hops Hrun Hrd) as (w & HC & Hcar).
  destruct (run_tx_refines' st ops ord st' Hok Hops Hrun Hrd) as [Hok' _].
  exists w. split; [exact HC|]. split; [exact Hcar|]. split; [exact Hok'|].
  intros Hwf C.
  assert (HP : (0 < P)%N).
  { pose proof Hph as (_ & _ & _ & _ & Hme). revert Hme. MetaFacts.offs. lia. }
  split; [exact (EngineFallback.commit_holds_new pad P F st st' w HP Hok Hok' Hph Hph' HC Hwf HlenF HF Hcar Hfit')|].
  split; [exact (EngineFallback.commit_holds_old pad P F st st' w HP Hok Hok' Hph Hph' HC Hwf HlenF HF)|].
  exact (EngineFallback.commit_length pad P F st st' w HP Hok' Hph' HC Hwf HlenF).
Qed.

(* the other header slot of the commit image holds the header of the previous state, which is older *)
Lemma commit_other_slot : forall pad P F st st' w, (0 < P)%N -> tx_cow st st' w ->
  List.length F = N.to_nat (d_np st * P) ->
  EngineFallback.holds pad P (EngineFallback.commit_image pad P F st st' w) st ->
  EngineFallback.other_slot_ok P (EngineFallback.commit_image pad P F st st' w) st'.
Proof.
  intros pad P F st st' w HP HC HlenF Hold. right. exists (EngineFileImage.meta_of P st).
  pose proof (EngineFallback.slots_differ P F st st' w HP HC HlenF) as Hdiff.
  pose proof (EngineFallback.slot_of_lt st) as Hs.
  replace (1 - EngineFileImage.slot_of st')%N with (EngineFileImage.slot_of st) by (rewrite Hdiff; lia).
  split; [exact (EngineFallback.h_hdr _ _ _ _ Hold)|]. split; [reflexivity|].
  change (Meta.m_tx (EngineFileImage.meta_of P st)) with (d_tx st). rewrite (tc_tx _ _ _ HC). lia.
Qed.

(* ITEM 2, for the invariant of histories: the IN-PLACE UPDATED file after a commit of the engine holds the new
   state, is accepted by the file checker, and the new state satisfies the invariant again -- so this can be
   iterated along a history, starting from [file_image] of the initial state ([EngineFallback.file_image_holds]). *)
Theorem run_tx_commit_checked : forall st ops ord st' pad P F,
  EngineReopen.db_inv st -> Forall (op_ok (d_disk st)) ops -> run_tx st ops ord = Ok st' -> readable st' ->
  EngineFileImage.phys_ok P st -> EngineFileImage.phys_ok P st' -> EngineFileImage.tree_fits P st' ->
  List.length F = N.to_nat (d_np st * P) -> EngineFallback.holds pad P F st ->
  exists w, tx_cow st st' w /\ EngineFallback.carried st st' w /\ EngineReopen.db_inv st' /\
    (EngineFallback.writes_fit P st w ->
     let C := EngineFallback.commit_image pad P F st st' w in
     EngineFallback.holds pad P C st' /\ List.length C = N.to_nat (d_np st' * P) /\
     Tree.inv_check (Codec.reader_of C) P = Codec.Ok tt /\ CheckM.check_m (Codec.reader_of C) P = Codec.Ok tt).
Proof.
  intros st ops ord st' pad P F Hinv Hops Hrun Hrd Hph Hph' Hfit' HlenF HF.
  destruct (EngineReopen.db_inv_facts st Hinv) as (_ & Hok & _).
  destruct (EngineReopen.run_tx_inv st ops ord st' Hinv Hops Hrun Hrd) as [Hinv' _].
  destruct (EngineReopen.db_inv_facts st' Hinv') as (Hrec' & _ & Hokd' & _).
  pose proof (EngineFileImage.inv_flids_NoDup st' Hinv') as Hnd'.
  destruct (run_tx_commit_holds st ops ord st' pad P F Hok Hops Hrun Hrd Hph Hph' Hfit' HlenF HF)
    as (w & HC & Hcar & Hok' & Hrest).
  exists w. split; [exact HC|]. split; [exact Hcar|]. split; [exact Hinv'|].
  intros Hwf C. destruct (Hrest Hwf) as (Hnew & Hold & Hlen). fold C in Hnew, Hold, Hlen.
  assert (HP : (0 < P)%N).
  { pose proof Hph as (_ & _ & _ & _ & Hme). revert Hme. MetaFacts.offs. lia. }
  split; [exact Hnew|]. split; [exact Hlen|].
  exact (EngineFallback.inv_check_holds st' pad P C Hrec' Hokd' Hnd' Hph' Hnew
           (commit_other_slot pad P F st st' w HP HC HlenF Hold)).
Qed.

Print Assumptions RecHead_all.
Print Assumptions run_tx_write_set_carried.
Print Assumptions run_tx_carried.
Print Assumptions run_tx_commit_holds.
Print Assumptions run_tx_commit_checked.
