(* The global half of ConcEngine.conc_engine_snapshots, quoted by props/C09.v: no commit is lost. *)
From Coq Require Import List NArith.
From Jamm Require Bytes Engine EngineAbs EngineR EngineReadersInv Conc ConcEngine.
Import ListNotations.

Theorem conc_engine_no_lost_update : forall (ops_of : nat -> list Engine.op * list Bytes.bytes) (c0 : nat)
    (ts : list Conc.thread) (st0 : Engine.db) (sched : list nat) (h' : EngineR.hstate),
  Conc.initial_threads ts -> EngineReadersInv.db_okr st0 -> Engine.d_tx st0 = N.of_nat c0 ->
  let s0 := Conc.init c0 ts in
  let es := ConcEngine.project ops_of s0 ConcEngine.ghost0 sched in
  let s := Conc.run true s0 sched in
  ConcEngine.g_ok (st0, nil) es -> ConcEngine.run_g (st0, nil) es = Engine.Ok h' ->
  EngineReadersInv.db_okr (fst h') /\ Engine.d_tx (fst h') = N.of_nat (Conc.cur s) /\
  Conc.cur s = c0 + length (ConcEngine.txs_of es) /\
  EngineAbs.abs_db (fst h') = ConcEngine.sem_commits (ConcEngine.txs_of es) (EngineAbs.abs_db st0).
Proof.
  intros ops_of c0 ts st0 sched h' Hi Hok Htx s0 es s Hg Hr.
  destruct (ConcEngine.conc_engine_snapshots ops_of c0 ts st0 sched h' Hi Hok Htx Hg Hr) as (_ & _ & A & B & C & D).
  split; [exact A|]. split; [exact B|]. split; [exact C|exact D].
Qed.
Print Assumptions conc_engine_no_lost_update.
