(* The assembly: one transaction of the engine model refines the functional semantics.

   Stage 1 (the meaning equation):
   1. [alloc_ok] / [db_alloc_ok] / [db_ok]: the allocation invariant of a committed state; [begin_w_fresh]
   2. closed page sets: [closedR], [closed_ckept]
   3. [npages] / [ppages] do not depend on the height bound ([npages_stable], [ppages_stable])
   4. [XDF]: what the operations keep of the overlay beyond (T)'s [SDeep] -- the pages it names are allocated, a
      bucket that is not dirty is an untouched copy of its entry, nesting depth <= 9 -- preserved by every operation
      ([put_xd], [del_xd], [delb_xd], [b_get_or_create_xd], [at_path_xd], [tx_fold_xd])
   5. [rebalance_OvlAbs]: rebalance preserves the meaning of the overlay                    (glue (a))
   6. [rebalance_SReady]: rebalance leaves the overlay [SReady] for keep := the allocated set (glue (b))
   7. [run_tx_meaning]                                                                       (glue (c), (d))
   8. boolean checkers [readableb], [alloc_okb] / [db_alloc_okb] with soundness
   9. examples
   Stage 2, first half:
   10. [Strict], [RecOKS_all], [commit_strict], [run_tx_strict]: the new state satisfies [db_strict]
   11. [run_tx_refines], [run_txs_refines], [run_tx_refines_stmt_holds]: refinement with the allocation invariant of the
       NEW state as a decidable side condition ([db_alloc_ok st'] is NOT proved: see the summary at the end)

   Everything is closed under the global context (see the [Print Assumptions] at the end). *)
From Coq Require Import List NArith Bool Arith Lia ZifyN ZifyNat ZifyBool Permutation.
From Coq.Strings Require Import Byte.
From Jamm Require Spec.
From Jamm Require Import Bytes BytesFacts Tree Cursor SearchFacts Engine EngineAbs EngineFacts EngineMergeFacts.
From Jamm Require Import EngineModifyFacts EngineSpillFacts EnginePathFacts EngineBridgeFacts EngineRebalanceFacts.
From Jamm Require FreelistFacts EngineAllocFacts EngineSpillWfFacts.
From Jamm Require Import EngineTxInvFacts EngineSpillBucketFacts.
Import ListNotations.
Import Coq.Strings.String.StringSyntax. Delimit Scope string_scope with string.
Local Open Scope list_scope. Local Open Scope nat_scope.
Set Warnings "-abstract-large-number".
Arguments N.add : simpl never. Arguments N.sub : simpl never. Arguments N.mul : simpl never.
Arguments N.div : simpl never. Arguments N.ltb : simpl never. Arguments N.leb : simpl never.
Arguments N.eqb : simpl never.

Notation snode := Spec.snode.
Notation SBucket := Spec.SBucket.
Notation SVal := Spec.SVal.
Notation asc := FreelistFacts.asc.
Notation ge2 := FreelistFacts.ge2.
Notation pend_all := PL.pend_all.

(* ====================================================================== *)
(** * 1. The allocation invariant of a committed state *)

(* the page run of the node stored at q (head page and overflow pages) *)
Definition prun (d : disk) (q : N) : list N :=
  match dget d q with Some a => nrun q (ap_over a + 1) | None => [q] end.

(* [R] is closed under "child of a branch page" and "root of a nested bucket" *)
Definition closedR (d : disk) (R : list N) : Prop :=
  forall q a, In q R -> dget d q = Some a ->
    match ap_body a with
    | Branches es => forall e, In e es -> In (snd e) R
    | Leaves l => forall k r nx, In (LBk k r nx) l -> In r R
    end.

(* the pages that must not be handed out: the runs of the allocated tree pages [R], and the free-list run *)
Definition live_of (st : db) (R : list N) : list N :=
  flat_map (prun (d_disk st)) R ++ nrun (d_fl st) (d_fln st).

(* [alloc_ok st R]: R contains the root and is closed (so it contains every page reachable from the root through
   branch entries and nested buckets; it MAY contain more: leaked pages are harmless here); the free ids are
   strictly ascending, >= 2, below the high-water mark; the pending ids are >= 2 and below the high-water mark;
   every page of a run of R (overflow pages included) and of the free-list run is >= 2, below the high-water
   mark, not free and not pending *)
Definition alloc_ok (st : db) (R : list N) : Prop :=
  (0 < d_psz st)%N /\ (2 <= d_np st)%N /\
  asc (d_free st) /\ ge2 (d_free st) /\ (forall x, In x (d_free st) -> (x < d_np st)%N) /\
  Forall (fun x => (2 <= x < d_np st)%N) (pend_all (d_pending st)) /\
  In (d_root st) R /\ closedR (d_disk st) R /\
  (forall x, In x (live_of st R) ->
     (2 <= x < d_np st)%N /\ ~ In x (d_free st) /\ ~ In x (pend_all (d_pending st))).

Definition db_alloc_ok (st : db) : Prop := exists R, alloc_ok st R.
Definition db_ok (st : db) : Prop := db_strict st /\ db_alloc_ok st.

(* [release]: what it returns was free or pending; ascending is kept *)
Lemma release_src : forall t pd fr fr' pd', release t fr pd = (fr', pd') -> asc fr ->
  asc fr' /\ forall x, In x fr' -> In x fr \/ In x (pend_all pd).
Proof.
  intros t. induction pd as [|[u ps] pd IH]; intros fr fr' pd' H Ha; cbn [release] in H.
  - inversion H; subst. split; [exact Ha | auto].
  - destruct (u <? t)%N.
    + apply IH in H; [|apply FreelistFacts.fold_sins_asc; exact Ha]. destruct H as [A B]. split; [exact A|].
      intros x Hx. destruct (B x Hx) as [Hf | Hp].
      * apply FreelistFacts.fold_sins_In in Hf. unfold pend_all. cbn [flat_map snd]. rewrite in_app_iff. tauto.
      * right. unfold pend_all. cbn [flat_map snd]. rewrite in_app_iff. now right.
    + inversion H; subst. split; [exact Ha | auto].
Qed.

Lemma In_prun_self : forall d q, In q (prun d q).
Proof.
  intros d q. unfold prun. destruct (dget d q); [|now left]. apply In_nrun. lia.
Qed.

Lemma R_live : forall st R q, In q R -> In q (live_of st R).
Proof.
  intros st R q H. unfold live_of. apply in_or_app. left. apply in_flat_map. exists q. split; [exact H | apply In_prun_self].
Qed.

(* the fresh writer state hands out none of the live pages *)
Theorem begin_w_fresh : forall st R, alloc_ok st R -> fresh_inv (live_of st R) (begin_w st).
Proof.
  intros st R (Hpsz & Hnp & Hasc & Hge & Hlt & Hpd & _ & _ & Hlive). unfold begin_w.
  destruct (release (d_tx st + 1) (d_free st) (d_pending st)) as [fr pd] eqn:Er.
  destruct (release_src _ _ _ _ _ Er Hasc) as [A B].
  pose proof (FreelistFacts.release_ge2 (d_tx st + 1) (d_pending st) (d_free st) fr pd Hge) as G.
  rewrite Forall_forall in Hpd.
  constructor; cbn [free np psz].
  - exact Hpsz.
  - exact Hnp.
  - exact A.
  - apply G; [|exact Er]. apply Forall_forall. intros x Hx. apply (Hpd x Hx).
  - intros x Hx. destruct (B x Hx) as [Hf | Hp]; [now apply Hlt | apply (Hpd x Hp)].
  - intros x Hx. destruct (Hlive x Hx) as (L1 & L2 & L3). split; [apply L1|].
    intros Hf. destruct (B x Hf); tauto.
Qed.

Lemma begin_w_fields : forall st, wr (begin_w st) = [] /\ np (begin_w st) = d_np st /\ psz (begin_w st) = d_psz st.
Proof.
  intros st. unfold begin_w. destruct (release (d_tx st + 1) (d_free st) (d_pending st)). cbn. auto.
Qed.

(* ====================================================================== *)
(** * 2. Closed page sets *)

Lemma closed_subtree : forall d R, closedR d R -> forall q x, in_subtree d q x -> In q R -> In x R.
Proof.
  intros d R HC q x H. induction H as [q | q a es e x Hg Hb He Hsub IH]; intros Hq; [exact Hq|].
  apply IH. specialize (HC q a Hq Hg). rewrite Hb in HC. now apply HC.
Qed.

(* an entry of the view of page r sits in a leaf page below r *)
Lemma PageView_entry_page : forall d h r l, PageView d h r l -> forall e, In e l ->
  exists q a l0, in_subtree d r q /\ dget d q = Some a /\ ap_body a = Leaves l0 /\ In e l0.
Proof.
  intros d. induction h as [|h IH]; intros r l H e He; [inversion H|].
  inversion H as [? ? a l0 Hg Hb | ? ? a es ls Hg Hb HF]; subst.
  - exists r, a, l. split; [apply ist_self|]. auto.
  - apply in_concat in He. destruct He as (lj & Hlj & He).
    destruct (In_nth_error _ _ Hlj) as [j Hj].
    assert (Hx : exists x, nth_error es j = Some x /\ PageView d h (snd x) lj).
    { clear -HF Hj. revert j Hj. induction HF as [|x y xs ys Hxy _ IHF]; intros j Hj; [destruct j; discriminate|].
      destruct j as [|j]; cbn [nth_error] in *; [inversion Hj; subst; eauto | now apply IHF]. }
    destruct Hx as (x & Hxj & Hvx). destruct (IH _ _ Hvx e He) as (q & a' & l0 & Hsub & Hg' & Hb' & Hin).
    exists q, a', l0. split; [|auto]. eapply ist_kid; eauto. eapply nth_error_In; eauto.
Qed.

Lemma closed_view_entry : forall d R h r l k r' nx, closedR d R -> In r R -> PageView d h r l ->
  In (LBk k r' nx) l -> In r' R.
Proof.
  intros d R h r l k r' nx HC Hr Hv He.
  destruct (PageView_entry_page _ _ _ _ Hv _ He) as (q & a & l0 & Hsub & Hg & Hb & Hin).
  pose proof (closed_subtree d R HC _ _ Hsub Hr) as Hq. specialize (HC q a Hq Hg). rewrite Hb in HC. eapply HC; eauto.
Qed.

(* a strict committed bucket whose root is in a closed set is kept by it, nested buckets included *)
Lemma closed_ckept : forall d R, closedR d R -> forall n r, sbk n d r -> In r R -> ckept n d R r.
Proof.
  intros d R HC. induction n as [|n IH]; intros r Hs Hr; [destruct Hs|].
  cbn [sbk] in Hs. destruct Hs as (h & l & Hh & _ & _ & Hv & HF). cbn [ckept]. split.
  - intros x Hx. eapply closed_subtree; eauto.
  - exists l. split; [eapply PageView_mono; eauto|]. rewrite Forall_forall in *. intros e He.
    specialize (HF e He). destruct e as [k v|k r' nx]; [exact I|]. apply IH; [exact HF|].
    eapply closed_view_entry; eauto.
Qed.

(* ====================================================================== *)
(** * 3. The named pages do not depend on the height bound *)

Lemma ppages_stable : forall h d lo hi ok q, PInv h d lo hi ok q -> forall h', h <= h' -> ppages h' d q = ppages h d q.
Proof.
  induction h as [|h IH]; intros d lo hi ok q H h' Hle; [destruct H|]. destruct h' as [|h']; [lia|].
  cbn [PInv] in H. destruct H as (a & Hg & _ & Hb). cbn [ppages]. rewrite Hg.
  destruct (ap_body a) as [l|es]; [reflexivity|]. destruct Hb as (_ & _ & _ & _ & HC). f_equal.
  apply flat_map_ext_in. intros e He. destruct (Forall2_In_left _ _ _ _ HC He) as (b & _ & Hb).
  apply (IH _ _ _ _ _ Hb). lia.
Qed.

Lemma npages_stable : forall h d z lo hi n, Inv h d z lo hi n -> forall h', h <= h' -> npages h' d n = npages h d n.
Proof.
  induction h as [|h IH]; intros d z lo hi n H h' Hle; [destruct H|]. destruct h' as [|h']; [lia|].
  destruct n as [p np o s [l|es] ks]; [reflexivity|]. rewrite Inv_branch_eq in H.
  destruct H as (_ & _ & _ & _ & _ & HC). rewrite !npages_branch_eq. f_equal.
  apply flat_map_ext_in. intros e He. destruct (Forall2_In_left _ _ _ _ HC He) as (b & _ & Hb).
  unfold CInv in Hb. unfold cpages. destruct (find_kid (snd e) ks) as [kd|].
  - apply (IH _ _ _ _ _ Hb). lia.
  - apply (ppages_stable _ _ _ _ _ _ Hb). lia.
Qed.

(* the pages below a strict page, as [in_subtree] sees them *)
Lemma ppages_subtree : forall h d q x, In x (ppages h d q) -> in_subtree d q x.
Proof.
  induction h as [|h IH]; intros d q x H; [destruct H|]. cbn [ppages] in H.
  destruct (dget d q) as [a|] eqn:Hg; [|destruct H]. destruct (ap_body a) as [l|es] eqn:Hb; [destruct H|].
  apply in_app_or in H. destruct H as [H|H].
  - apply in_map_iff in H. destruct H as (e & <- & He). eapply ist_kid; eauto. apply ist_self.
  - apply in_flat_map in H. destruct H as (e & He & Hx). eapply ist_kid; eauto.
Qed.

(* under a closed set, the named pages of a node are in the set as soon as those of its materialised part are *)
Lemma closed_ppages : forall d R h q, closedR d R -> In q R -> incl (ppages h d q) R.
Proof. intros d R h q HC Hq x Hx. eapply closed_subtree; eauto. eapply ppages_subtree; eauto. Qed.

(* ====================================================================== *)
(** * 4. What the operations keep of the overlay beyond [SDeep] *)

Section Overlay.
Variables (d : disk) (R : list N).
Hypothesis HCR : closedR d R.

(* the pages the bucket's own tree names are allocated *)
Definition root_in (b : bucket) : Prop :=
  match b_rootn b with Some n => incl (npages fuel0 d n) R | None => In (b_root_page b) R end.

(* the roots of the nested buckets that are not opened are allocated *)
Definition unopened_in (subs : list (bytes * bucket)) (l : list leafent) : Prop :=
  forall k k' r nx, Spec.alookup k (assoc l) = Some (LBk k' r nx) -> sub_find k subs = None -> In r R.

(* an opened bucket that is not dirty still carries the (root, next) of its entry *)
Definition linked (l : list leafent) (x : bytes * bucket) : Prop :=
  b_dirty (snd x) = false ->
  Spec.alookup (fst x) (assoc l) = Some (LBk (fst x) (b_root_page (snd x)) (b_next (snd x))).

(* [XDF f b]: for [b] and every bucket opened below it (nesting depth <= f) *)
Fixpoint XDF (f : nat) (b : bucket) : Prop :=
  match f with
  | O => False
  | S f' =>
      root_in b /\ (b_dirty b = false -> b_rootn b = None) /\
      (forall l, bucket_view d b l ->
         unopened_in (b_subs b) l /\ (b_dirty b = false -> Forall (linked l) (b_subs b))) /\
      Forall (fun x => XDF f' (snd x)) (b_subs b)
  end.

Lemma XDF_S : forall f b, XDF (S f) b =
  (root_in b /\ (b_dirty b = false -> b_rootn b = None) /\
   (forall l, bucket_view d b l ->
      unopened_in (b_subs b) l /\ (b_dirty b = false -> Forall (linked l) (b_subs b))) /\
   Forall (fun x => XDF f (snd x)) (b_subs b)).
Proof. reflexivity. Qed.

Lemma XDF_mono : forall f b, XDF f b -> forall f', f <= f' -> XDF f' b.
Proof.
  induction f as [|f IH]; intros b H f' Hle; [destruct H|]. destruct f' as [|f']; [lia|].
  cbn [XDF] in *. destruct H as (A & B & C & D). repeat (split; [assumption|]).
  eapply Forall_impl; [|exact D]. cbn beta. intros x Hx. apply (IH _ Hx). lia.
Qed.

Lemma BLoc_bucket_view : forall s b h l, BLoc d s b h l -> bucket_view d b l.
Proof. intros s b h l (Hh & _ & _ & _ & HV). exists h. auto. Qed.

(* [b_modify] names no new page *)
Lemma b_modify_root_in : forall s b h l o b' s', BLoc d s b h l -> root_in b -> b_modify d b o s = Ok (b', s') ->
  root_in b'.
Proof.
  intros s b h l o b' s' (Hh & HB & HX & _ & _) HR H. unfold b_modify in H.
  apply bind_ok_inv in H. destruct H as ([root s0] & Er & H).
  apply bind_ok_inv in H. destruct H as ([n' s1] & Em & H). inversion H; subst b' s'. clear H.
  destruct (ensure_root_exact _ _ _ _ _ _ HB HX Er) as ((HI & Hnp & Hsq & Hlt) & HXr & S0).
  destruct (modify_Inv fuel0 h d s0 false None None root o n' s1 HI HXr (conj I I) Hsq Hlt Em)
    as (I1 & _ & _ & _ & _ & _ & P5 & _).
  unfold root_in. cbn [b_rootn]. rewrite (npages_stable _ _ _ _ _ _ I1 fuel0 Hh), P5.
  unfold ensure_root, root_in, BInv in *. destruct (b_rootn b) as [n|].
  - inversion Er; subst root s0. rewrite <- (npages_stable _ _ _ _ _ _ HI fuel0 Hh). exact HR.
  - destruct (dget d (b_root_page b)) as [a|] eqn:Hg; [|discriminate]. cbn [next_seq] in Er. inversion Er; subst root s0.
    rewrite (node_of_page_npages h d _ a _ Hg). now apply closed_ppages.
Qed.

Lemma XDF_dirty : forall f b, b_dirty b = true -> root_in b ->
  (forall l, bucket_view d b l -> unopened_in (b_subs b) l) ->
  Forall (fun x => XDF f (snd x)) (b_subs b) -> XDF (S f) b.
Proof.
  intros f b Hd HR HU HS. cbn [XDF]. split; [exact HR|]. split; [intros E; congruence|]. split; [|exact HS].
  intros l Hv. split; [now apply HU | intros E; congruence].
Qed.

(* bookkeeping of the un-opened entries, as for (T)'s [SubsOk] *)
Lemma unopened_sub_put : forall subs l name sb, unopened_in subs l -> unopened_in (sub_put name sb subs) l.
Proof. intros subs l name sb H k k' r nx Hk Hs. apply sub_find_put_None in Hs. destruct Hs as [_ Hs]. eauto. Qed.

Lemma unopened_create : forall subs l l' name r nx sb, unopened_in subs l ->
  assoc l' = Spec.ainsert name (LBk name r nx) (assoc l) -> unopened_in (sub_put name sb subs) l'.
Proof.
  intros subs l l' name r nx sb H Ha k k' r0 nx0 Hk Hs. apply sub_find_put_None in Hs. destruct Hs as [Hne Hs].
  rewrite Ha, alookup_ainsert, (beq_false_ne _ _ Hne) in Hk. eauto.
Qed.

Lemma unopened_put_kv : forall subs l l' k v, unopened_in subs l ->
  assoc l' = Spec.ainsert k (LKv k v) (assoc l) -> unopened_in subs l'.
Proof.
  intros subs l l' k v H Ha k0 k' r0 nx0 Hk Hs. rewrite Ha, alookup_ainsert in Hk.
  destruct (beq k0 k); [discriminate | eauto].
Qed.

Lemma unopened_remove : forall subs subs' l l' k, unopened_in subs l -> sorted_keys (map lkey l) = true ->
  assoc l' = Spec.aremove k (assoc l) -> (forall k0, k0 <> k -> sub_find k0 subs' = sub_find k0 subs) ->
  unopened_in subs' l'.
Proof.
  intros subs subs' l l' k H Hs Ha Hother k0 k' r0 nx0 Hk Hsf.
  rewrite Ha, alookup_aremove in Hk by now rewrite assoc_keys.
  destruct (beq k0 k) eqn:E; [discriminate|]. apply (H k0 k' r0 nx0 Hk). rewrite <- Hother; [exact Hsf|].
  intros ->. rewrite EngineSpillBucketFacts.beq_refl in E. discriminate.
Qed.

(* the contract of an operation applied at the end of a path *)
Definition same_id (b b' : bucket) : Prop :=
  b_dirty b' = false -> b_dirty b = false /\ b_root_page b' = b_root_page b /\ b_next b' = b_next b.

Definition xd_pres (f : bucket -> txs -> res (bucket * txs)) : Prop :=
  forall k b s b' s', 2 <= k -> SDeep d s b -> XDF k b -> f b s = Ok (b', s') -> XDF k b' /\ same_id b b'.

Lemma same_id_refl : forall b, same_id b b.
Proof. intros b E. auto. Qed.

Lemma XDF_inv : forall f b s h l, XDF f b -> BLoc d s b h l ->
  exists f', f = S f' /\ root_in b /\ (b_dirty b = false -> b_rootn b = None) /\ unopened_in (b_subs b) l /\
    (b_dirty b = false -> Forall (linked l) (b_subs b)) /\ Forall (fun x => XDF f' (snd x)) (b_subs b).
Proof.
  intros [|f] b s h l H HL; [destruct H|]. cbn [XDF] in H. destruct H as (A & B & C & D).
  destruct (C l (BLoc_bucket_view _ _ _ _ HL)) as [C1 C2]. exists f. auto 8.
Qed.

(* the result of [b_modify] (possibly with a new counter) satisfies the invariant *)
Lemma XDF_modified : forall f s b h l o b2 s2 nx' subs', BLoc d s b h l -> root_in b ->
  b_modify d b o s = Ok (b2, s2) ->
  unopened_in subs' (apply_lop o l) -> Forall (fun x => XDF f (snd x)) subs' ->
  XDF (S f) (Bucket (b_root_page b2) nx' true (b_rootn b2) subs').
Proof.
  intros f s b h l o b2 s2 nx' subs' HL HR Hm HU HS.
  pose proof (b_modify_root_in _ _ _ _ _ _ _ HL HR Hm) as HR2.
  destruct (b_modify_BLoc _ _ _ _ _ _ _ _ HL Hm) as (HL' & _).
  apply XDF_dirty; [reflexivity | exact HR2 | | exact HS]. cbn [b_subs]. intros l' Hv'.
  assert (El : l' = apply_lop o l).
  { eapply bucket_view_det; [exact Hv'|]. eapply (bucket_view_tree d b2); [reflexivity | reflexivity |].
    eapply BLoc_bucket_view; eauto. }
  subst l'. exact HU.
Qed.

Lemma same_id_dirty : forall b b', b_dirty b' = true -> same_id b b'.
Proof. intros b b' E E'. congruence. Qed.

Theorem put_xd : forall k v, xd_pres (fun b s => soft (b, s) (b_put d b k v s)).
Proof.
  intros k v kk b s b' s' Hkk HD HX H. cbn beta in H. destruct (SDeep_inv _ _ _ HD) as (h & l & HL & HS).
  apply soft_ok_inv in H. destruct H as [H | [E _]]; [|inversion E; subst; split; [exact HX | apply same_id_refl]].
  destruct (XDF_inv _ _ _ _ _ HX HL) as (f' & -> & HR & _ & HU & _ & HF).
  unfold b_put in H. rewrite (BLoc_lookup _ _ _ _ _ k HL) in H. cbn [bind] in H.
  destruct (Spec.alookup k (assoc l)) as [[k0 v0|k0 r nx]|] eqn:Hal; cbn [is_kv] in H; try discriminate.
  - destruct (b_modify_BLoc _ _ _ _ _ _ _ _ HL H) as (_ & Ha & _ & _ & Hsb & Hd & _). cbn [aop lkey] in Ha.
    destruct b' as [r' n' dt' rn' sbs']. cbn [b_dirty b_subs] in Hd, Hsb. subst dt' sbs'.
    split; [|now apply same_id_dirty].
    apply (XDF_modified f' s b h l _ (Bucket r' n' true rn' (b_subs b)) s' n' (b_subs b) HL HR H); [|exact HF].
    eapply unopened_put_kv; eauto.
  - apply bind_ok_inv in H. destruct H as ([b2 s2] & Hm & H). inversion H; subst b' s'. clear H.
    destruct (b_modify_BLoc _ _ _ _ _ _ _ _ HL Hm) as (_ & Ha & _ & _ & Hsb & _ & _). cbn [aop lkey] in Ha.
    split; [|now apply same_id_dirty].
    apply (XDF_modified f' s b h l _ b2 s2 _ _ HL HR Hm); rewrite Hsb; [|exact HF].
    eapply unopened_put_kv; eauto.
Qed.

Theorem del_xd : forall k, xd_pres (fun b s => soft (b, s) (b_delete d b k s)).
Proof.
  intros k kk b s b' s' Hkk HD HX H. cbn beta in H. destruct (SDeep_inv _ _ _ HD) as (h & l & HL & HS).
  apply soft_ok_inv in H. destruct H as [H | [E _]]; [|inversion E; subst; split; [exact HX | apply same_id_refl]].
  destruct (XDF_inv _ _ _ _ _ HX HL) as (f' & -> & HR & _ & HU & _ & HF).
  unfold b_delete in H. rewrite (BLoc_lookup _ _ _ _ _ k HL) in H. cbn [bind] in H.
  destruct (Spec.alookup k (assoc l)) as [[k0 v0|k0 r nx]|] eqn:Hal; cbn [is_kv] in H; try discriminate.
  destruct (b_modify_BLoc _ _ _ _ _ _ _ _ HL H) as (_ & Ha & _ & _ & Hsb & Hd & _). cbn [aop] in Ha.
  destruct b' as [r' n' dt' rn' sbs']. cbn [b_dirty b_subs] in Hd, Hsb. subst dt' sbs'.
  split; [|now apply same_id_dirty].
  apply (XDF_modified f' s b h l _ (Bucket r' n' true rn' (b_subs b)) s' n' (b_subs b) HL HR H); [|exact HF].
  eapply unopened_remove; [exact HU | eapply BLoc_sorted; eauto | exact Ha | reflexivity].
Qed.

Theorem touch_xd : xd_pres (fun b s => Ok (b, s)).
Proof. intros kk b s b' s' _ _ HX H. inversion H; subst. split; [exact HX | apply same_id_refl]. Qed.

(* a freshly opened committed bucket, and a freshly created one *)
Lemma open_XDF : forall r nx, In r R -> XDF 1 (Bucket r nx false None []).
Proof.
  intros r nx Hr. cbn [XDF b_subs b_dirty b_rootn]. split; [exact Hr|]. split; [reflexivity|]. split; [|constructor].
  intros l (h & _ & Hv). unfold BucketView in Hv. cbn [b_rootn b_root_page] in Hv. split; [|intros _; constructor].
  intros k k' r0 nx0 Hk _. apply alookup_assoc_key in Hk. destruct Hk as [_ Hin]. eapply closed_view_entry; eauto.
Qed.

Lemma new_XDF : forall sq, XDF 1 (Bucket 0 0 true (Some (Node 0 0 None sq (Leaves []) [])) []).
Proof.
  intros sq. apply XDF_dirty; [reflexivity | | | constructor].
  - unfold root_in. cbn [b_rootn]. intros x [].
  - intros l (h & _ & Hv). unfold BucketView in Hv. cbn [b_rootn] in Hv. apply NodeView_leaf_inv in Hv.
    destruct Hv as [-> _]. intros k k' r nx Hk. discriminate.
Qed.

(* opening the stored bucket [name] *)
Lemma open_sub_XDF : forall f s b h l name k0 r nx, BLoc d s b h l -> XDF (S (S f)) b ->
  sub_find name (b_subs b) = None -> Spec.alookup name (assoc l) = Some (LBk k0 r nx) ->
  XDF (S (S f)) (Bucket (b_root_page b) (b_next b) (b_dirty b) (b_rootn b)
                  (sub_put name (Bucket r nx false None []) (b_subs b))).
Proof.
  intros f s b h l name k0 r nx HL HX Hsf Hal.
  destruct (XDF_inv _ _ _ _ _ HX HL) as (f' & E & HR & HN & HU & HLk & HF). inversion E; subst f'. clear E.
  destruct (alookup_assoc_key _ _ _ Hal) as [Ek _]. cbn [lkey] in Ek. subst k0.
  rewrite XDF_S. split; [exact HR|]. split; [exact HN|]. cbn [b_subs b_dirty]. split.
  - intros l' Hv'. assert (El : l' = l).
    { eapply bucket_view_det; [exact Hv'|]. eapply (bucket_view_tree d b); [reflexivity | reflexivity |].
      eapply BLoc_bucket_view; eauto. }
    subst l'. split; [now apply unopened_sub_put|]. intros Ed. apply sub_put_Forall; [now apply HLk|].
    intros _. cbn [fst snd b_root_page b_next]. exact Hal.
  - apply sub_put_Forall; [exact HF|]. apply (XDF_mono 1); [|lia]. apply open_XDF.
    exact (HU name name r nx Hal Hsf).
Qed.

Theorem b_get_or_create_xd : forall name k b s b' s', 2 <= k -> SDeep d s b -> XDF k b ->
  b_get_or_create d b name s = Ok (b', s') -> XDF k b' /\ same_id b b'.
Proof.
  intros name kk b s b' s' Hkk HD HX H. destruct (SDeep_inv _ _ _ HD) as (h & l & HL & HS).
  rewrite b_get_or_create_unfold in H. destruct (sub_find name (b_subs b)) as [sb|] eqn:Hsf.
  { inversion H; subst. split; [exact HX | apply same_id_refl]. }
  rewrite (BLoc_lookup _ _ _ _ _ name HL) in H. cbn [bind] in H.
  destruct kk as [|[|f]]; try lia.
  destruct (Spec.alookup name (assoc l)) as [[k0 v0|k0 r nx]|] eqn:Hal; try discriminate.
  - inversion H; subst b' s'. split; [eapply open_sub_XDF; eauto|]. intros E. cbn in *. auto.
  - apply bind_ok_inv in H. destruct H as ([b2 s2] & Hm & H). cbn [fst snd] in H. inversion H; subst b' s'. clear H.
    destruct (XDF_inv _ _ _ _ _ HX HL) as (f' & E & HR & _ & HU & _ & HF). inversion E; subst f'. clear E.
    assert (Hle1 : (seqc s <= seqc (snd (next_seq s)))%N) by (cbn; lia).
    pose proof (BLoc_seqc_mono _ _ _ _ _ _ Hle1 HL) as HL1.
    destruct (b_modify_BLoc _ _ _ _ _ _ _ _ HL1 Hm) as (_ & Ha & _ & _ & Hsb & _ & _). cbn [aop lkey] in Ha.
    split; [|now apply same_id_dirty].
    apply (XDF_modified (S f) _ b h l _ b2 s2 _ _ HL1 HR Hm); rewrite Hsb.
    + eapply unopened_create; eauto.
    + apply sub_put_Forall; [exact HF|]. apply (XDF_mono 1); [apply new_XDF | lia].
Qed.

(* storing the modified sub-bucket back into its parent *)
Lemma put_back_XDF : forall f s b h l name sb sb', BLoc d s b h l -> XDF (S f) b ->
  sub_find name (b_subs b) = Some sb -> XDF f sb' -> same_id sb sb' ->
  XDF (S f) (Bucket (b_root_page b) (b_next b) (b_dirty b) (b_rootn b) (sub_put name sb' (b_subs b))).
Proof.
  intros f s b h l name sb sb' HL HX Hsf HX' Hid.
  destruct (XDF_inv _ _ _ _ _ HX HL) as (f' & E & HR & HN & HU & HLk & HF). inversion E; subst f'. clear E.
  rewrite XDF_S. split; [exact HR|]. split; [exact HN|]. cbn [b_subs b_dirty]. split.
  - intros l' Hv'. assert (El : l' = l).
    { eapply bucket_view_det; [exact Hv'|]. eapply (bucket_view_tree d b); [reflexivity | reflexivity |].
      eapply BLoc_bucket_view; eauto. }
    subst l'. split; [now apply unopened_sub_put|]. intros Ed. specialize (HLk Ed).
    apply sub_put_Forall; [exact HLk|]. intros Ed'. cbn [fst snd] in *. destruct (Hid Ed') as (E1 & E2 & E3).
    rewrite Forall_forall in HLk. specialize (HLk _ (sub_find_In _ _ _ Hsf) E1). cbn [fst snd] in HLk.
    rewrite E2, E3. exact HLk.
  - apply sub_put_Forall; [exact HF | exact HX'].
Qed.

Theorem at_path_xd : forall f, xd_pres f -> forall path fuel k b s b' s', fuel + 1 <= k -> SDeep d s b -> XDF k b ->
  at_path fuel d b path f s = Ok (b', s') -> XDF k b' /\ same_id b b'.
Proof.
  intros f Hf. induction path as [|nm rest IH]; intros fuel k b s b' s' Hk HD HX H;
    (destruct fuel as [|fu]; [discriminate|]); cbn [at_path] in H.
  - eapply Hf; eauto. lia.
  - apply bind_ok_inv in H. destruct H as ([b1 s1] & Hg & H).
    destruct (b_get_or_create_pres d nm b s b1 s1 HD Hg) as [HD1 Hle1].
    destruct (b_get_or_create_xd nm k b s b1 s1 ltac:(lia) HD HX Hg) as [HX1 Hid1].
    destruct (sub_find nm (b_subs b1)) as [sb|] eqn:Hsf; [|discriminate].
    apply bind_ok_inv in H. destruct H as ([sb' s2] & Hat & H). inversion H; subst b' s'. clear H.
    destruct (SDeep_inv _ _ _ HD1) as (h1 & l1 & HL1 & _).
    destruct k as [|k]; [lia|].
    assert (HXsb : XDF k sb).
    { destruct (XDF_inv _ _ _ _ _ HX1 HL1) as (f' & E & _ & _ & _ & _ & HF). inversion E; subst f'.
      rewrite Forall_forall in HF. exact (HF _ (sub_find_In _ _ _ Hsf)). }
    destruct (IH fu k sb s1 sb' s2 ltac:(lia) (SDeep_sub _ _ _ _ _ HD1 Hsf) HXsb Hat) as [HX2 Hid2].
    split; [eapply put_back_XDF; eauto|].
    intros E. cbn [b_dirty b_root_page b_next] in *. exact (Hid1 E).
Qed.

Lemma delb_phase2_xd : forall k b0 name sb s0 b' s', SDeep d s0 b0 -> XDF k b0 ->
  sub_find name (b_subs b0) = Some sb -> delb_phase2 d b0 name s0 = Ok (b', s') -> XDF k b' /\ b_dirty b' = true.
Proof.
  intros k b0 name sb s0 b' s' HD HX Hsf H. destruct (SDeep_inv _ _ _ HD) as (h & l & HL & HS).
  pose proof HS as (Hnd & H2 & _).
  destruct (take_sub_spec name (b_subs b0) sb Hnd Hsf) as (rest & Ht & Hnone & Hother & Hnd' & Hin).
  rewrite Forall_forall in H2. destruct (H2 _ (sub_find_In _ _ _ Hsf)) as [(r & nx & Hal) _]. cbn [fst] in Hal.
  destruct (XDF_inv _ _ _ _ _ HX HL) as (f' & -> & HR & _ & HU & _ & HF).
  unfold delb_phase2 in H. rewrite Ht in H.
  apply bind_ok_inv in H. destruct H as (s1 & Hft & H).
  assert (Hle1 : (seqc s0 <= seqc s1)%N).
  { destruct (b_root_page sb =? 0)%N; [inversion Hft; lia|].
    apply free_tree_frees in Hft. destruct Hft as (_ & _ & _ & _ & _ & _ & Hle & _). exact Hle. }
  set (b1 := Bucket (b_root_page b0) (b_next b0) (b_dirty b0) (b_rootn b0) rest) in *.
  assert (HL1 : BLoc d s1 b1 h l).
  { eapply (BLoc_tree d s1 b0); [reflexivity | reflexivity |]. eapply BLoc_seqc_mono; eauto. }
  rewrite (BLoc_lookup _ _ _ _ _ name HL1), Hal in H. cbn [bind is_kv] in H.
  destruct (b_modify_BLoc _ _ _ _ _ _ _ _ HL1 H) as (_ & Ha & _ & _ & Hsb & Hd & _). cbn [aop] in Ha.
  cbn [b1 b_subs] in Hsb.
  destruct b' as [r' n' dt' rn' sbs']. cbn [b_dirty b_subs] in Hd, Hsb. subst dt' sbs'. split; [|reflexivity].
  apply (XDF_modified f' s1 b1 h l _ (Bucket r' n' true rn' rest) s' n' rest HL1 HR H).
  - eapply unopened_remove; [exact HU | eapply BLoc_sorted; eauto | exact Ha | exact Hother].
  - rewrite Forall_forall in *. intros x Hx. apply HF, Hin, Hx.
Qed.

Theorem delb_xd : forall nm, xd_pres (fun b s => soft (b, s) (b_delete_bucket d b nm s)).
Proof.
  intros nm kk b s b' s' Hkk HD HX H. cbn beta in H.
  apply soft_ok_inv in H. destruct H as [H | [E _]]; [|inversion E; subst; split; [exact HX | apply same_id_refl]].
  rewrite b_delete_bucket_unfold in H. apply bind_ok_inv in H. destruct H as ([b0 s0] & Hopen & H). cbn [fst snd] in H.
  assert (Hb0 : SDeep d s b0 /\ XDF kk b0 /\ s0 = s /\ exists sb, sub_find nm (b_subs b0) = Some sb).
  { destruct (sub_find nm (b_subs b)) as [sb|] eqn:Hsf.
    - inversion Hopen; subst. eauto.
    - destruct (SDeep_inv _ _ _ HD) as (h & l & HL & HS).
      rewrite (BLoc_lookup _ _ _ _ _ nm HL) in Hopen. cbn [bind] in Hopen.
      destruct (Spec.alookup nm (assoc l)) as [[k0 v0|k0 r nx]|] eqn:Hal; try discriminate.
      inversion Hopen; subst b0 s0. split; [eapply open_sub_SDeep; eauto|].
      destruct kk as [|[|f]]; try lia. split; [eapply open_sub_XDF; eauto|]. split; [reflexivity|].
      cbn [b_subs]. rewrite sub_find_put_same. eauto. }
  destruct Hb0 as (HD0 & HX0 & -> & sb & Hsf).
  destruct (delb_phase2_xd _ _ _ _ _ _ _ HD0 HX0 Hsf H) as [A B]. split; [exact A | now apply same_id_dirty].
Qed.

(* the steps of a transaction *)
Theorem tx_step_xd : forall o rb s rb' s' k, 9 <= k -> SDeep d s rb -> XDF k rb -> tx_step d (rb, s) o = Ok (rb', s') ->
  XDF k rb'.
Proof.
  intros o rb s rb' s' k Hk HD HX H. unfold tx_step in H.
  destruct o as [p kk v|p kk|p nm|p]; apply soft_ok_inv in H;
    (destruct H as [H | [E _]]; [|inversion E; subst; exact HX]).
  - eapply (at_path_xd _ (put_xd kk v)); eauto; lia.
  - eapply (at_path_xd _ (del_xd kk)); eauto; lia.
  - eapply (at_path_xd _ (delb_xd nm)); eauto; lia.
  - eapply (at_path_xd _ touch_xd); eauto; lia.
Qed.

Theorem tx_fold_xd : forall st ops rb s root' s' k, d_disk st = d -> 9 <= k -> SDeep d s rb -> XDF k rb ->
  tx_fold st ops (rb, s) = Ok (root', s') -> XDF k root'.
Proof.
  intros st ops rb s root' s' k Ed Hk. revert rb s. induction ops as [|o ops IH]; intros rb s HD HX H;
    unfold tx_fold in H; cbn [fold_res] in H.
  - inversion H; subst. exact HX.
  - apply bind_ok_inv in H. destruct H as ([rb1 s1] & Hst & H). rewrite Ed in Hst.
    destruct (tx_step_SDeep _ _ _ _ _ _ HD Hst) as [HD1 _].
    pose proof (tx_step_xd _ _ _ _ _ _ Hk HD HX Hst) as HX1. exact (IH rb1 s1 HD1 HX1 H).
Qed.

End Overlay.

(* what the operations of a transaction leave, from a committed state *)
Theorem tx_ops_XDF : forall st R ops root' s', db_strict st -> alloc_ok st R ->
  tx_fold st ops (root_bucket st, begin_w st) = Ok (root', s') -> XDF (d_disk st) R 9 root'.
Proof.
  intros st R ops root' s' Hdb (_ & _ & _ & _ & _ & _ & Hroot & HC & _) H.
  eapply (tx_fold_xd (d_disk st) R HC st ops (root_bucket st) (begin_w st)); eauto.
  - apply root_bucket_SDeep. exact Hdb.
  - unfold root_bucket. eapply XDF_mono; [apply open_XDF; eauto | lia].
Qed.

(* ====================================================================== *)
(** * 5. Rebalance preserves the meaning of the overlay *)

(* the fold of [rebalance] over the opened sub-buckets, generically: [J s x] is what is known of a sub-bucket in
   transaction state [s] (monotone in the sequence counter), [P x y] what one call establishes *)
Lemma rebalance_fold_gen : forall f d (J : txs -> bytes * bucket -> Prop) (P : bytes * bucket -> bytes * bucket -> Prop),
  (forall s s' x, (seqc s <= seqc s')%N -> J s x -> J s' x) ->
  (forall s x b' s', J s x -> rebalance f d (snd x) s = Ok (b', s') -> (seqc s <= seqc s')%N /\ P x (fst x, b')) ->
  forall subs acc acc0 s0 subs' s1, Forall (J s0) subs -> Forall2 P acc0 acc ->
    fold_left (fun a x => bind a (fun '(l, s0) => bind (rebalance f d (snd x) s0) (fun '(b', s') => Ok (l ++ [(fst x, b')], s'))))
              subs (Ok (acc, s0)) = Ok (subs', s1) ->
    Forall2 P (acc0 ++ subs) subs' /\ (seqc s0 <= seqc s1)%N.
Proof.
  intros f d J P Jmono Hstep. induction subs as [|x subs IHl]; intros acc acc0 s0 subs' s1 HJ Hacc H.
  - cbn [fold_left] in H. inversion H; subst. rewrite app_nil_r. split; [exact Hacc | lia].
  - inversion HJ as [|? ? Hx HJ']; subst. cbn [fold_left bind] in H.
    destruct (rebalance f d (snd x) s0) as [[bx sx]| |] eqn:Ex; cbn [bind] in H.
    + destruct (Hstep _ _ _ _ Hx Ex) as [Hle Px].
      destruct (IHl (acc ++ [(fst x, bx)]) (acc0 ++ [x]) sx subs' s1) as [R1 R2].
      * eapply Forall_impl; [|exact HJ']. intros y. now apply Jmono.
      * apply Forall2_app; [exact Hacc|]. constructor; [exact Px | constructor].
      * exact H.
      * rewrite <- app_assoc in R1. cbn [app] in R1. split; [exact R1 | lia].
    + exfalso. revert H. apply fold_left_not_ok; [|intros; discriminate].
      intros x0 r Hr a0. destruct r as [a1| |]; cbn [bind]; [exfalso; eapply Hr; eauto | discriminate | discriminate].
    + exfalso. revert H. apply fold_left_not_ok; [|intros; discriminate].
      intros x0 r Hr a0. destruct r as [a1| |]; cbn [bind]; [exfalso; eapply Hr; eauto | discriminate | discriminate].
Qed.

(* [merge_nodes] touches only the tree *)
Lemma merge_nodes_fields : forall d b s b' s', merge_nodes d b s = Ok (b', s') ->
  b_next b' = b_next b /\ b_subs b' = b_subs b /\ b_dirty b' = b_dirty b.
Proof.
  intros d b s b' s' H. unfold merge_nodes in H.
  apply bind_ok_inv in H. destruct H as ([root s0] & _ & H).
  apply bind_ok_inv in H. destruct H as ([root1 s1] & _ & H).
  destruct (needs_merging s1 root1 && negb (is_leaf (n_data root1)) && (dlen (n_data root1) =? 1)%N).
  - destruct (n_data root1) as [l1|[|[k0 q] rest]]; try discriminate. inversion H; subst. cbn. auto.
  - destruct (negb (is_leaf (n_data root1)) && (dlen (n_data root1) =? 0)%N); inversion H; subst; cbn; auto.
Qed.

(* lookups in two lists of opened buckets with the same names *)
Lemma sub_find_F2 : forall (P : bucket -> bucket -> Prop) subs subs',
  Forall2 (fun x y => fst x = fst y /\ P (snd x) (snd y)) subs subs' -> forall k,
  match sub_find k subs with
  | Some sb => exists sb', sub_find k subs' = Some sb' /\ P sb sb'
  | None => sub_find k subs' = None end.
Proof.
  intros P subs subs' H k. induction H as [|[n b] [n' b'] subs subs' [E Hp] _ IH]; [reflexivity|].
  cbn [fst snd] in E, Hp. subst n'. rewrite !sub_find_cons. destruct (beq n k); [eauto | exact IH].
Qed.

Definition ovl_same (d : disk) (b b' : bucket) : Prop := forall m, OvlAbs d b m -> OvlAbs d b' m.

(* the meaning is determined by the view, the counter, and the meanings of the opened sub-buckets *)
Lemma OvlAbs_transfer : forall d b b' l, bucket_view d b l -> bucket_view d b' l -> b_next b' = b_next b ->
  Forall2 (fun x y => fst x = fst y /\ ovl_same d (snd x) (snd y)) (b_subs b) (b_subs b') -> ovl_same d b b'.
Proof.
  intros d b b' l Hv Hv' En HS m HO. inversion HO as [b0 l0 ents Hv0 HF]; subst b0 m.
  rewrite (bucket_view_det _ _ _ _ Hv0 Hv) in HF. rewrite <- En. apply OvlAbs_intro with (l := l); [exact Hv'|].
  eapply Forall2_impl; [|exact HF]. intros e kv He.
  pose proof (sub_find_F2 _ _ _ HS) as Hfind.
  inversion He as [? k v | ? k r nx sb m' Hs Hm | ? k r nx m' Hs Hm]; subst.
  - apply OE_kv.
  - specialize (Hfind k). rewrite Hs in Hfind. destruct Hfind as (sb' & Hs' & Hp). eapply OE_sub; eauto.
  - specialize (Hfind k). rewrite Hs in Hfind. now apply OE_disk.
Qed.

Lemma BGood_bucket_view : forall d s b l, BGood d s b l -> bucket_view d b l.
Proof. intros d s b l (h & Hh & _ & Hv). exists h. auto. Qed.

Lemma Forall2_Forall_l : forall {A B} (Q : A -> B -> Prop) (J : A -> Prop) xs ys,
  Forall2 Q xs ys -> (forall x y, Q x y -> J x) -> Forall J xs.
Proof. intros A B Q J xs ys H HQ. induction H; constructor; eauto. Qed.

Theorem rebalance_OvlAbs : forall f fv d s b v b' s', Deep fv d s b v -> rebalance f d b s = Ok (b', s') ->
  ovl_same d b b'.
Proof.
  induction f as [|f IH]; intros fv d s b v b' s' HD H; [discriminate|].
  destruct (rebalance_view (S f) fv d s b v b' s' HD H) as (HD' & _ & En).
  destruct fv as [|fv]; [destruct HD|]. destruct v as [l vs]. cbn [Deep] in HD, HD'.
  destruct HD as [HG HS]. destruct HD' as [HG' _].
  cbn [rebalance] in H. destruct (negb (is_dirty fuel0 b)).
  { inversion H; subst. intros m Hm. exact Hm. }
  match type of H with bind ?r _ = _ => destruct r as [[subs' s1]| |] eqn:Ef end; cbn [bind] in H; try discriminate.
  destruct (merge_nodes_fields _ _ _ _ _ H) as (_ & Es & _). cbn [b_subs] in Es.
  destruct (rebalance_fold_gen f d (fun s0 x => exists y, Deep fv d s0 (snd x) y)
              (fun x y => fst x = fst y /\ ovl_same d (snd x) (snd y))) with (subs := b_subs b) (acc := @nil (bytes * bucket))
              (acc0 := @nil (bytes * bucket)) (s0 := s) (subs' := subs') (s1 := s1) as [R1 _].
  - intros s0 s0' x Hle [y Hy]. exists y. eapply Deep_seqc_mono; eauto.
  - intros s0 x bx sx [y Hy] Ex. destruct (rebalance_view f fv d s0 (snd x) y bx sx Hy Ex) as (_ & Tx & _).
    split; [apply (tx_frame_le _ _ Tx)|]. split; [reflexivity|]. cbn [snd]. eapply IH; eauto.
  - eapply Forall2_Forall_l; [exact HS|]. intros x y [_ Hy]. eauto.
  - constructor.
  - exact Ef.
  - cbn [app] in R1. eapply OvlAbs_transfer; [eapply BGood_bucket_view; eauto | eapply BGood_bucket_view; eauto | exact En |].
    rewrite Es. exact R1.
Qed.

(* ====================================================================== *)
(** * 6. Rebalance leaves the overlay ready for the spill *)

(** ** 6a. (B)'s [spill_ready] contains (SB)'s [Rdy] *)
Lemma spill_ready_Rdy : forall d keep lo hi n, spill_ready d keep lo hi n -> Rdy d keep n.
Proof.
  intros d keep lo hi n H. induction H as [lo hi pg npg o sq l Hne | lo hi pg npg o sq es kids Hne Hr Hnd Hk Hkid IH Hkeep].
  - now apply Rdy_leaf.
  - apply Rdy_branch; [|exact Hkeep]. intros e kd He Hf.
    destruct (EngineSpillFacts.chb_In lo hi es e He) as (l0 & h0 & Hin). eapply IH; eauto.
Qed.

Lemma root_ready_RRdy : forall d keep n, root_ready d keep n -> RRdy d keep n.
Proof. intros d keep n [E | H]; [now left | right; eapply spill_ready_Rdy; eauto]. Qed.

(** ** 6b. clean buckets *)
Lemma Forall_sbk_fuel : forall d (l : list leafent),
  Forall (fun e => match e with LBk _ r _ => exists n, sbk n d r | LKv _ _ => True end) l ->
  exists n, Forall (fun e => match e with LBk _ r _ => sbk n d r | LKv _ _ => True end) l.
Proof.
  intros d l H. induction H as [|e l He _ [n IH]]; [exists 0; constructor|].
  destruct e as [k v|k r nx].
  - exists n. constructor; [exact I | exact IH].
  - destruct He as [m Hm]. exists (Nat.max m n). constructor; [eapply sbk_mono; [exact Hm | lia]|].
    eapply Forall_impl; [|exact IH]. intros [k' v'|k' r' nx']; [auto|]. intros Hs. eapply sbk_mono; [exact Hs | lia].
Qed.

Lemma In_alookup : forall l e, sorted_keys (map lkey l) = true -> In e l -> Spec.alookup (lkey e) (assoc l) = Some e.
Proof. intros l e Hs Hin. destruct (In_nth_error _ _ Hin) as [i Hi]. eapply alookup_nth; eauto. Qed.

Lemma is_dirty_S : forall j b, is_dirty (S j) b = b_dirty b || existsb (fun x => is_dirty j (snd x)) (b_subs b).
Proof. reflexivity. Qed.

(* a bucket in which nothing is dirty (to the depth the dirty test looks) is an untouched copy of its committed
   root, and so is everything opened below it *)
Lemma clean_SClean : forall d R, closedR d R -> forall k j fv s b, k <= j -> is_dirty j b = false ->
  XDF d R k b -> SDeepF fv d s b -> SClean d R b /\ (exists n, sbk n d (b_root_page b)) /\ In (b_root_page b) R.
Proof.
  intros d R HC. induction k as [|k IH]; intros j fv s b Hkj Hd HX HD; [destruct HX|].
  destruct j as [|j]; [lia|]. destruct fv as [|fv]; [destruct HD|]. cbn [SDeepF] in HD.
  destruct HD as (h & l & HL & (Hnd & H2 & H3)).
  rewrite is_dirty_S in Hd. apply orb_false_iff in Hd. destruct Hd as [Hd1 Hd2].
  destruct (XDF_inv _ _ _ _ _ _ _ HX HL) as (f' & E & HR & HN & HU & HLk & HF). inversion E; subst f'. clear E.
  specialize (HN Hd1). specialize (HLk Hd1). pose proof (BLoc_sorted _ _ _ _ _ HL) as Hsorted.
  destruct HL as (Hh & HB & _ & _ & HV). unfold BInv, BucketView in HB, HV. unfold root_in in HR.
  rewrite HN in HB, HV, HR. destruct HB as [HP HNd].
  rewrite Forall_forall in H2, HF, HLk.
  assert (Hsub : forall x, In x (b_subs b) -> b_dirty (snd x) = false /\ SClean d R (snd x) /\
                   exists n, sbk n d (b_root_page (snd x))).
  { intros x Hx. assert (Hdx : is_dirty j (snd x) = false).
    { destruct (is_dirty j (snd x)) eqn:E; [|reflexivity].
      assert (existsb (fun y => is_dirty j (snd y)) (b_subs b) = true) by (apply existsb_exists; eauto). congruence. }
    pose proof (HF x Hx) as HXx. destruct (H2 x Hx) as [_ HDx].
    destruct (IH j fv s (snd x) ltac:(lia) Hdx HXx HDx) as (A & B & _). split; [|auto].
    destruct k as [|k']; [destruct HXx|]. destruct j as [|j']; [lia|]. rewrite is_dirty_S in Hdx.
    apply orb_false_iff in Hdx. apply Hdx. }
  assert (Hent : Forall (fun e => match e with LBk _ r _ => exists n, sbk n d r | LKv _ _ => True end) l).
  { apply Forall_forall. intros [k0 v0|k0 r nx] He; [exact I|].
    pose proof (In_alookup l _ Hsorted He) as Hal. cbn [lkey] in Hal.
    destruct (sub_find k0 (b_subs b)) as [sb|] eqn:Hsf.
    - pose proof (sub_find_In _ _ _ Hsf) as Hin. destruct (Hsub _ Hin) as (D1 & _ & D3). cbn [snd] in *.
      pose proof (HLk _ Hin D1) as Hlk. cbn [fst snd] in Hlk. rewrite Hal in Hlk. inversion Hlk; subst. exact D3.
    - eapply H3; eauto. }
  destruct (Forall_sbk_fuel _ _ Hent) as [n Hn].
  assert (Hsbk : sbk (S n) d (b_root_page b)).
  { cbn [sbk]. exists h, l. auto 6. }
  split; [|split; [eauto | exact HR]]. apply SClean_intro; [exact HN| |].
  - exists (S n). split; [now apply sbk_cwf | now apply closed_ckept].
  - intros nm sb Hin. destruct (Hsub _ Hin) as (D1 & D2 & _). cbn [snd] in *. split; [exact D2|].
    intros l0 Hv0. rewrite (PageView_det _ _ _ _ Hv0 _ _ HV).
    pose proof (HLk _ Hin D1) as Hlk. cbn [fst snd] in Hlk. apply alookup_assoc_key in Hlk. apply Hlk.
Qed.

(** ** 6c. [merge_nodes] names no new page *)
Lemma merge_nodes_root_in : forall h d R s b l b' s', closedR d R -> h <= fuel0 ->
  BInv h d s b -> BucketView d h b l -> root_in d R b -> merge_nodes d b s = Ok (b', s') -> root_in d R b'.
Proof.
  intros h d R s b l b' s' HC Hh HB HV HR H. unfold merge_nodes in H.
  apply bind_ok_inv in H. destruct H as ([root s0] & Er & H).
  apply bind_ok_inv in H. destruct H as ([root1 s1] & E1 & H).
  destruct (ensure_root_RInv _ _ _ _ _ _ _ HB HV Er) as ((HI & Hnp & Hsq & Hlt) & HVr & _).
  assert (Hroot : incl (npages h d root) R).
  { unfold ensure_root, root_in, BInv in *. destruct (b_rootn b) as [n|].
    - inversion Er; subst root s0. rewrite <- (npages_stable _ _ _ _ _ _ HI fuel0 Hh). exact HR.
    - destruct (dget d (b_root_page b)) as [a|] eqn:Hg; [|discriminate]. cbn [next_seq] in Er. inversion Er; subst root s0.
      rewrite (node_of_page_npages h d _ a _ Hg). now apply closed_ppages. }
  assert (H1 : Inv h d true None None root1 /\ incl (npages h d root1) R).
  { destruct (is_leaf (n_data root)) eqn:Elf.
    - inversion E1; subst root1 s1. split; [eapply Inv_z_true; eauto | exact Hroot].
    - pose proof (rebalance_kids_view fuel0 h d s0 false None None root l root1 s1 HI Elf HVr Hnp Hsq Hlt E1)
        as (R1 & _ & _ & _ & _ & _ & _ & R8 & _). split; [exact R1|]. intros x Hx. apply Hroot, R8, Hx. }
  destruct H1 as [HI1 Hin1]. destruct (Inv_height _ _ _ _ _ _ HI1) as [h0 Eh]. subst h.
  destruct (needs_merging s1 root1 && negb (is_leaf (n_data root1)) && (dlen (n_data root1) =? 1)%N).
  - destruct root1 as [p1 np1 og1 sq1 [l1|[|[k0 q] rest]] ks1]; cbn [n_data n_kids] in H; try discriminate.
    inversion H; subst b' s'. clear H. unfold root_in. cbn [b_rootn b_root_page].
    rewrite Inv_branch_eq in HI1. destruct HI1 as (_ & _ & _ & _ & _ & HCk).
    cbn [map fst] in HCk. inversion HCk as [|? bb ? ? Cq _]; subst. unfold CInv in Cq. cbn [snd] in Cq.
    rewrite npages_branch_eq in Hin1. cbn [map snd flat_map] in Hin1. unfold cpages in Hin1.
    destruct (find_kid q ks1) as [kd|].
    + rewrite (npages_stable _ _ _ _ _ _ Cq fuel0 ltac:(lia)). intros x Hx. apply Hin1. apply in_or_app. right.
      apply in_or_app. now left.
    + apply Hin1. apply in_or_app. left. now left.
  - destruct (negb (is_leaf (n_data root1)) && (dlen (n_data root1) =? 0)%N); inversion H; subst b' s'; clear H;
      unfold root_in; cbn [b_rootn].
    + destruct root1 as [p1 np1 og1 sq1 dd1 ks1]. cbn [set_data]. intros x [].
    + rewrite (npages_stable _ _ _ _ _ _ HI1 fuel0 Hh). exact Hin1.
Qed.

(** ** 6d. the whole bucket tree *)
Lemma Forall2_In_r : forall {A B} (Q : A -> B -> Prop) xs ys y, Forall2 Q xs ys -> In y ys -> exists x, In x xs /\ Q x y.
Proof.
  intros A B Q xs ys y H. induction H as [|x0 y0 xs ys Hq _ IH]; intros Hy; [destruct Hy|].
  destruct Hy as [->|Hy]; [exists x0; split; [now left | exact Hq]|].
  destruct (IH Hy) as (x & Hx & Hxy). exists x. split; [now right | exact Hxy].
Qed.

Lemma Forall2_map_fst : forall {A B C} (Q : A * B -> A * C -> Prop) xs ys,
  Forall2 Q xs ys -> (forall x y, Q x y -> fst x = fst y) -> map fst xs = map fst ys.
Proof. intros A B C Q xs ys H HQ. induction H as [|x y xs ys Hq _ IH]; [reflexivity|]. cbn [map]. f_equal; eauto. Qed.

Theorem rebalance_SReady : forall d R, closedR d R -> forall f fv k s b b' s', k <= fuel0 ->
  SDeepF fv d s b -> XDF d R k b -> rebalance f d b s = Ok (b', s') -> SReady d R b'.
Proof.
  intros d R HC. induction f as [|f IH]; intros fv k s b b' s' Hk HD HX H; [discriminate|].
  cbn [rebalance] in H. destruct (negb (is_dirty fuel0 b)) eqn:Edirty.
  { inversion H; subst b' s'. apply negb_true_iff in Edirty. apply SReady_clean_struct; [exact Edirty|].
    eapply (clean_SClean d R HC k fuel0); eauto. }
  destruct fv as [|fv]; [destruct HD|]. cbn [SDeepF] in HD. destruct HD as (h & l & HL & (Hnd & H2 & H3)).
  destruct (XDF_inv _ _ _ _ _ _ _ HX HL) as (k' & -> & HR & _ & HU & _ & HF).
  pose proof (BLoc_sorted _ _ _ _ _ HL) as Hsorted.
  match type of H with bind ?r _ = _ => destruct r as [[subs' s1]| |] eqn:Ef end; cbn [bind] in H; try discriminate.
  destruct (rebalance_fold_gen f d (fun s0 x => SDeepF fv d s0 (snd x) /\ XDF d R k' (snd x))
              (fun x y => fst x = fst y /\ SReady d R (snd y))) with (subs := b_subs b) (acc := @nil (bytes * bucket))
              (acc0 := @nil (bytes * bucket)) (s0 := s) (subs' := subs') (s1 := s1) as [R1 Hle1].
  - intros s0 s0' x Hle [A B]. split; [eapply SDeepF_seqc_mono; eauto | exact B].
  - intros s0 x bx sx [Dx Xx] Ex. split.
    + destruct (SDeepF_Deep _ _ _ _ Dx) as [v Hv].
      destruct (rebalance_view f fv d s0 (snd x) v bx sx Hv Ex) as (_ & Tx & _). apply (tx_frame_le _ _ Tx).
    + split; [reflexivity|]. cbn [snd]. eapply (IH fv k'); eauto. lia.
  - rewrite Forall_forall in *. intros x Hx. split; [apply (H2 x Hx) | apply (HF x Hx)].
  - constructor.
  - exact Ef.
  - cbn [app] in R1. destruct HL as (Hh & HB & _ & HK & HV).
    set (b0 := Bucket (b_root_page b) (b_next b) true (b_rootn b) subs') in *.
    assert (HB0 : BInv h d s1 b0) by (exact (BInv_seqc_mono _ _ _ _ _ Hle1 HB)).
    assert (HV0 : BucketView d h b0 l) by exact HV. assert (HK0 : BLK b0) by exact HK.
    assert (HR0 : root_in d R b0) by exact HR.
    destruct (merge_nodes_root_ready h d s1 b0 l b' s' HB0 HK0 HV0 H) as (h' & Hle & HB' & HV' & HK' & Hrdy).
    pose proof (merge_nodes_root_in h d R s1 b0 l b' s' HC Hh HB0 HV0 HR0 H) as HR'.
    destruct (merge_nodes_fields _ _ _ _ _ H) as (_ & Es & Ed). cbn [b0 b_subs b_dirty] in Es, Ed.
    pose proof (sub_find_F2 (fun _ sb' => SReady d R sb') (b_subs b) subs') as Hfind.
    apply SReady_dirty with (h := h') (l := l).
    + unfold fuel0. rewrite is_dirty_S, Ed. reflexivity.
    + lia.
    + exact HV'.
    + unfold DRoot, root_in in *. destruct (b_rootn b') as [n'|] eqn:En.
      * split; [eapply BInv_root_Inv; eauto|]. apply root_ready_RRdy. apply (Hrdy n' R eq_refl).
        rewrite <- (npages_stable _ _ _ _ _ _ (BInv_root_Inv _ _ _ _ _ HB' En) fuel0 ltac:(lia)). exact HR'.
      * split; [intros x Hx; eapply closed_subtree; eauto|]. intros _. unfold BInv in HB'. rewrite En in HB'. apply HB'.
    + rewrite Es, <- (Forall2_map_fst _ _ _ R1); [exact Hnd|]. intros x y [E _]. exact E.
    + rewrite Es. intros nm sb' Hin. destruct (Forall2_In_r _ _ _ _ R1 Hin) as (x & Hx & Ex & HSx). cbn [fst snd] in *.
      split; [|exact HSx]. rewrite Forall_forall in H2. destruct (H2 x Hx) as [(r & nx & Hal) _].
      exists r, nx. rewrite Ex in Hal. apply alookup_assoc_key in Hal. apply Hal.
    + rewrite Es. intros k0 r nx Hin Hsf.
      assert (Hsf0 : sub_find k0 (b_subs b) = None).
      { specialize (Hfind R1 k0). destruct (sub_find k0 (b_subs b)); [|reflexivity].
        destruct Hfind as (sb' & Hs' & _). congruence. }
      pose proof (In_alookup l _ Hsorted Hin) as Hal. cbn [lkey] in Hal.
      destruct (H3 _ _ _ _ Hal Hsf0) as [n Hn]. exists n. split; [now apply sbk_cwf|].
      apply closed_ckept; [exact HC | exact Hn | exact (HU _ _ _ _ Hal Hsf0)].
Qed.

(* ====================================================================== *)
(** * 7. The meaning equation for one transaction *)

(* the trees of the new state fit the reading fuels of [abs_db] (height <= 64, nesting <= 16): decidable on
   a concrete state; cannot be bounded a priori (the height of a tree is not bounded by the model) *)
Definition readable (st : db) : Prop := cpres 16 (d_disk st) (d_root st).

(* everything the layers say about a completed transaction, up to the hypotheses of (SB)'s [commit_meaning] *)
Lemma run_tx_commit_ready : forall st R ops ord st', db_strict st -> alloc_ok st R -> Forall (op_ok (d_disk st)) ops ->
  run_tx st ops ord = Ok st' ->
  exists root' s' b1 s1,
    tx_fold st ops (root_bucket st, begin_w st) = Ok (root', s') /\
    commit st root' s' ord = Ok st' /\
    rebalance fuel0 (d_disk st) root' s' = Ok (b1, s1) /\
    tx_frees (begin_w st) s' /\ tx_frame s' s1 /\
    fresh_inv (live_of st R) s1 /\ wr s1 = [] /\
    SReady (d_disk st) R b1 /\ OvlAbs (d_disk st) b1 (sem_tx ops (abs_db st)).
Proof.
  intros st R ops ord st' Hdb HA Hops Hrun.
  destruct (run_tx_rebalance_ready st ops ord st' Hdb Hops Hrun)
    as (root' & s' & b1 & s1 & fv & v & Hf & _ & Ha & Hfr & [f HSD] & Hr & D1 & _ & _ & Tx & _).
  exists root', s', b1, s1. split; [exact Hf|].
  split. { rewrite run_tx_fold, Hf in Hrun. exact Hrun. }
  split; [exact Hr|]. split; [exact Hfr|]. split; [exact Tx|].
  destruct Hfr as (F1 & _ & F3 & F4 & F5 & _). destruct Tx as (T1 & _ & T3 & T4 & T5 & _).
  destruct (begin_w_fields st) as (W1 & _).
  pose proof HA as (_ & _ & _ & _ & _ & _ & _ & HC & _).
  split. { eapply fresh_inv_ext; [| | |apply (begin_w_fresh st R HA)]; congruence. }
  split; [congruence|].
  split.
  - eapply (rebalance_SReady (d_disk st) R HC fuel0 f 9); eauto; [unfold fuel0; lia|].
    eapply tx_ops_XDF; eauto.
  - eapply rebalance_OvlAbs; eauto.
Qed.

Theorem run_tx_meaning : forall st ops ord st', db_ok st -> Forall (op_ok (d_disk st)) ops ->
  run_tx st ops ord = Ok st' -> readable st' -> abs_db st' = sem_tx ops (abs_db st).
Proof.
  intros st ops ord st' [Hdb [R HA]] Hops Hrun Hrd.
  destruct (run_tx_commit_ready st R ops ord st' Hdb HA Hops Hrun)
    as (root' & s' & b1 & s1 & _ & Hc & Hr & _ & _ & Hfi & Hwr & HS & HO).
  assert (Hk : forall x, In x R -> In x (live_of st R)) by (intros x Hx; now apply R_live).
  assert (Hu : forall x, In x R -> wr_get (wr s1) x = None) by (intros x _; rewrite Hwr; reflexivity).
  destruct (commit_meaning st root' s' ord st' b1 s1 R (live_of st R) (sem_tx ops (abs_db st)) Hr Hfi Hk Hu HS HO Hc)
    as (r & nx & s2 & ord' & alloc & dead & _ & _ & _ & _ & _ & _ & _ & _ & Habs).
  apply Habs. exact Hrd.
Qed.

(* ====================================================================== *)
(** * 8. Deciding the side conditions on concrete states *)

Fixpoint presentb (fuel : nat) (d : disk) (p : N) : bool :=
  match fuel with
  | O => false
  | S f => match dget d p with
           | None => false
           | Some a => match ap_body a with
                       | Leaves _ => true
                       | Branches es => forallb (fun e => presentb f d (snd e)) es end end
  end.

Lemma presentb_ok : forall f d p, presentb f d p = true -> pages_present f d p.
Proof.
  induction f as [|f IH]; intros d p H; [discriminate|]. cbn [presentb pages_present] in *.
  destruct (dget d p) as [a|]; [|discriminate]. destruct (ap_body a) as [l|es]; [exact I|].
  intros e He. apply IH. rewrite forallb_forall in H. now apply H.
Qed.

Fixpoint cpresb (n : nat) (d : disk) (r : N) : bool :=
  match n with
  | O => false
  | S n' => presentb fuel0 d r &&
            forallb (fun e => match e with LBk _ r' _ => cpresb n' d r' | LKv _ _ => true end) (page_ents fuel0 d r)
  end.

Lemma cpresb_ok : forall n d r, cpresb n d r = true -> cpres n d r.
Proof.
  induction n as [|n IH]; intros d r H; [discriminate|]. cbn [cpresb cpres] in *.
  apply andb_true_iff in H. destruct H as [H1 H2]. split; [now apply presentb_ok|].
  apply Forall_forall. intros e He. rewrite forallb_forall in H2. specialize (H2 e He).
  destruct e as [k v|k r' nx]; [exact I | now apply IH].
Qed.

Definition readableb (st : db) : bool := cpresb 16 (d_disk st) (d_root st).
Lemma readableb_ok : forall st, readableb st = true -> readable st.
Proof. intros st H. now apply cpresb_ok. Qed.

(* every page of the bucket tree rooted at r, nested buckets included (head pages) *)
Fixpoint reach (n : nat) (d : disk) (r : N) : list N :=
  match n with
  | O => []
  | S n' => subtree_pages fuel0 d r ++
            flat_map (fun e => match e with LBk _ r' _ => reach n' d r' | LKv _ _ => [] end) (page_ents fuel0 d r)
  end.

Definition memb (x : N) (l : list N) : bool := existsb (N.eqb x) l.
Lemma memb_In : forall x l, memb x l = true <-> In x l.
Proof.
  intros x l. unfold memb. rewrite existsb_exists. split.
  - intros (y & Hy & E). apply N.eqb_eq in E. now subst.
  - intros H. exists x. split; [exact H | apply N.eqb_refl].
Qed.
Lemma memb_false : forall x l, memb x l = false -> ~ In x l.
Proof. intros x l H Hin. apply memb_In in Hin. congruence. Qed.

Fixpoint ascb (l : list N) : bool :=
  match l with [] => true | x :: l' => forallb (N.ltb x) l' && ascb l' end.
Lemma ascb_ok : forall l, ascb l = true -> asc l.
Proof.
  induction l as [|x l IH]; intros H; [constructor|]. cbn [ascb] in H. apply andb_true_iff in H. destruct H as [H1 H2].
  constructor; [now apply IH|]. apply Forall_forall. intros y Hy. rewrite forallb_forall in H1.
  apply N.ltb_lt. now apply H1.
Qed.

Definition closedRb (d : disk) (R : list N) : bool :=
  forallb (fun q => match dget d q with
                    | None => true
                    | Some a => match ap_body a with
                                | Branches es => forallb (fun e => memb (snd e) R) es
                                | Leaves l => forallb (fun e => match e with LBk _ r _ => memb r R | LKv _ _ => true end) l
                                end end) R.
Lemma closedRb_ok : forall d R, closedRb d R = true -> closedR d R.
Proof.
  intros d R H q a Hq Hg. unfold closedRb in H. rewrite forallb_forall in H. specialize (H q Hq). rewrite Hg in H.
  destruct (ap_body a) as [l|es]; rewrite forallb_forall in H.
  - intros k r nx Hin. specialize (H _ Hin). now apply memb_In.
  - intros e He. apply memb_In. now apply H.
Qed.

Definition alloc_okb (st : db) (R : list N) : bool :=
  (0 <? d_psz st)%N && (2 <=? d_np st)%N && ascb (d_free st) && forallb (N.leb 2) (d_free st) &&
  forallb (fun x => (x <? d_np st)%N) (d_free st) &&
  forallb (fun x => (2 <=? x)%N && (x <? d_np st)%N) (pend_all (d_pending st)) &&
  memb (d_root st) R && closedRb (d_disk st) R &&
  forallb (fun x => (2 <=? x)%N && (x <? d_np st)%N && negb (memb x (d_free st)) &&
                    negb (memb x (pend_all (d_pending st)))) (live_of st R).

Lemma alloc_okb_ok : forall st R, alloc_okb st R = true -> alloc_ok st R.
Proof.
  intros st R H. unfold alloc_okb in H.
  apply andb_true_iff in H. destruct H as [H Hi]. apply andb_true_iff in H. destruct H as [H Hh].
  apply andb_true_iff in H. destruct H as [H Hg]. apply andb_true_iff in H. destruct H as [H Hf].
  apply andb_true_iff in H. destruct H as [H He]. apply andb_true_iff in H. destruct H as [H Hd].
  apply andb_true_iff in H. destruct H as [H Hc]. apply andb_true_iff in H. destruct H as [Ha Hb].
  rewrite forallb_forall in Hd, He, Hf, Hi.
  unfold alloc_ok. split; [lia|]. split; [lia|]. split; [now apply ascb_ok|].
  split. { apply Forall_forall. intros x Hx. specialize (Hd x Hx). lia. }
  split. { intros x Hx. specialize (He x Hx). lia. }
  split. { apply Forall_forall. intros x Hx. specialize (Hf x Hx). lia. }
  split; [now apply memb_In|]. split; [now apply closedRb_ok|].
  intros x Hx. specialize (Hi x Hx).
  apply andb_true_iff in Hi. destruct Hi as [Hi H4]. apply andb_true_iff in Hi. destruct Hi as [Hi H3].
  split; [lia|]. split; apply memb_false; now apply negb_true_iff.
Qed.

(* the canonical choice of R: everything reachable from the root *)
Definition db_alloc_okb (st : db) : bool := alloc_okb st (reach 16 (d_disk st) (d_root st)).
Lemma db_alloc_okb_ok : forall st, db_alloc_okb st = true -> db_alloc_ok st.
Proof. intros st H. eexists. apply alloc_okb_ok. exact H. Qed.

(* ====================================================================== *)
(** * 9. Examples *)

Example init_db_ok : forall P, (0 < P)%N -> db_ok (init_db P).
Proof.
  intros P HP. split; [apply init_db_strict|]. exists [3%N]. apply alloc_okb_ok. unfold alloc_okb.
  cbn [d_psz d_np d_free d_pending d_root d_disk init_db]. rewrite (proj2 (N.ltb_lt 0 P) HP). vm_compute. reflexivity.
Qed.

Example init_db_4096_ok : db_ok (init_db 4096).
Proof. split; [apply init_db_strict | apply db_alloc_okb_ok; vm_compute; reflexivity]. Qed.

Module Ex3R.
Import Ex3.
(* the committed state of (T)'s example: a root bucket with a nested bucket whose tree has two levels *)
Example ex3_db_ok : db_ok ex3_db.
Proof. split; [exact ex3_strict | apply db_alloc_okb_ok; vm_compute; reflexivity]. Qed.

Example ex3_reach : reach 16 (d_disk ex3_db) (d_root ex3_db) = [3; 10; 11; 12; 13]%N.
Proof. vm_compute. reflexivity. Qed.

Lemma ex3_ops_ok : Forall (op_ok (d_disk ex3_db)) ex3_ops.
Proof. repeat constructor; cbn; lia. Qed.

Definition ex3_ord : list bytes := [kn; km].
Definition ex3_run := Eval vm_compute in run_tx ex3_db ex3_ops ex3_ord.
Definition ex3_st' : db := match ex3_run with Ok st' => st' | _ => ex3_db end.
Example ex3_run_ok : run_tx ex3_db ex3_ops ex3_ord = Ok ex3_st'.
Proof. vm_compute. reflexivity. Qed.

(* [run_tx_meaning] applies: the committed result means what the functional semantics says *)
Example ex3_meaning : abs_db ex3_st' = sem_tx ex3_ops (abs_db ex3_db).
Proof.
  apply (run_tx_meaning ex3_db ex3_ops ex3_ord ex3_st' ex3_db_ok ex3_ops_ok ex3_run_ok).
  apply readableb_ok. vm_compute. reflexivity.
Qed.

(* ... and both sides compute to this *)
Example ex3_meaning_value : abs_db ex3_st' =
  SBucket 0 4 [ (ka, SVal [x08]);
                (km, SBucket 0 1 [(kc, SVal [x07])]);
                (kn, SBucket 0 6 [(kb, SVal [x01]); (kc, SVal [x02]); (kd, SVal [x03]); (kf, SVal [x05]); (kg, SVal [x06])]) ].
Proof. vm_compute. reflexivity. Qed.

(* the allocation invariant holds again in the new state (checked, not proved in general: see the summary) *)
Example ex3_st'_alloc_ok : db_alloc_ok ex3_st'.
Proof. apply db_alloc_okb_ok. vm_compute. reflexivity. Qed.
End Ex3R.

(* ====================================================================== *)
(** * 10. Stage 2, first half: the new state is strict again *)

(** ** 10a. [modify] names the same pages (no exactness needed) *)
Lemma modify_npages : forall f h d z lo hi n o s n' s', Inv h d z lo hi n -> modify f d n o s = Ok (n', s') ->
  npages h d n' = npages h d n /\ n_page n' = n_page n.
Proof.
  induction f as [|f IH]; intros h d z lo hi n o s n' s' HI H; [discriminate|].
  destruct (Inv_height _ _ _ _ _ _ HI) as [h0 ->]. destruct n as [p np og sq [l|es] ks].
  - cbn [modify] in H. inversion H; subst. split; reflexivity.
  - rewrite modify_branch in H. destruct (index_of (Branches es) (lop_key o)) as [i ex].
    destruct (nthN es i) as [[sep q]|] eqn:En; [|discriminate]. unfold nthN in En.
    rewrite Inv_branch_eq in HI. destruct HI as (_ & _ & Hnd & _ & _ & HC).
    destruct (Forall2_nth_error_l _ _ _ _ _ HC En) as (b & _ & Hc). unfold CInv in Hc. cbn [snd] in Hc.
    destruct (find_kid q ks) as [kd|] eqn:Ef.
    + apply bind_ok_inv in H. destruct H as ([kd' s1] & Em & H). cbn [fst snd] in H. inversion H; subst n' s'. clear H.
      destruct (IH _ _ _ _ _ _ _ _ _ _ Hc Em) as [P1 P2]. split; [|reflexivity].
      destruct (find_kid_In _ _ _ Ef) as [_ Hpq]. rewrite Hpq in P2.
      destruct (replace_kid_upd ks q kd kd' Ef P2) as [U1 U2].
      apply npages_upd. intros e He. unfold cpages. destruct (N.eq_dec (snd e) q) as [E|NE].
      * rewrite E, U1, Ef. exact P1.
      * now rewrite (U2 _ NE).
    + destruct (dget d q) as [a|] eqn:Hg; [|discriminate].
      apply bind_ok_inv in H. destruct H as ([kd' s1] & Em & H). cbn [fst snd] in H. inversion H; subst n' s'. clear H.
      pose proof (node_of_page_Inv _ _ _ _ _ _ _ (seqc s) Hg Hc) as I0.
      destruct (IH _ _ _ _ _ _ _ _ _ _ I0 Em) as [P1 P2]. split; [|reflexivity].
      assert (Hpq : n_page kd' = q) by (rewrite P2; reflexivity).
      destruct (app_kid_upd ks q kd' Ef Hpq) as [U1 U2].
      apply npages_upd. intros e He. unfold cpages. destruct (N.eq_dec (snd e) q) as [E|NE].
      * rewrite E, U1, Ef, P1. now apply node_of_page_npages.
      * now rewrite (U2 _ NE).
Qed.

(** ** 10b. ... hence so do [b_modify] and the parent updates of [spill_bucket] *)
Definition bpg (h : nat) (d : disk) (b : bucket) : list N :=
  match b_rootn b with Some n => npages h d n | None => ppages h d (b_root_page b) end.

Lemma b_modify_bpg : forall d keep h b o s b' s', SRoot d keep h b -> b_modify d b o s = Ok (b', s') ->
  bpg h d b' = bpg h d b.
Proof.
  intros d keep h b o s b' s' HS H. unfold b_modify in H.
  apply bind_ok_inv in H. destruct H as ([root s0] & Er & H).
  apply bind_ok_inv in H. destruct H as ([n' s1] & Em & H). inversion H; subst b' s'. clear H.
  unfold bpg. cbn [b_rootn]. unfold SRoot, ensure_root in *. destruct (b_rootn b) as [n|].
  - inversion Er; subst root s0. destruct HS as [HI _]. exact (proj1 (modify_npages _ _ _ _ _ _ _ _ _ _ _ HI Em)).
  - destruct HS as [HP _]. destruct (dget d (b_root_page b)) as [a|] eqn:Hg; [|discriminate].
    cbn [next_seq] in Er. inversion Er; subst root s0.
    pose proof (node_of_page_Inv _ _ _ _ _ _ _ (seqc s) Hg HP) as I0.
    rewrite (proj1 (modify_npages _ _ _ _ _ _ _ _ _ _ _ I0 Em)). now apply node_of_page_npages.
Qed.

Lemma meta_step_bpg : forall d keep h bb s0 m b' s', SRoot d keep h bb -> meta_step d (bb, s0) m = Ok (b', s') ->
  bpg h d b' = bpg h d bb.
Proof.
  intros d keep h bb s0 [[nm r] nx] b' s' HS H. unfold meta_step in H.
  apply bind_ok_inv in H. destruct H as (cur & _ & H). destruct cur as [e|].
  - destruct (is_kv e); [discriminate|]. eapply b_modify_bpg; eauto.
  - apply bind_ok_inv in H. destruct H as ([b2 s2] & Hm & H). inversion H; subst b' s'.
    rewrite <- (b_modify_bpg _ _ _ _ _ _ _ _ HS Hm). reflexivity.
Qed.

Lemma meta_fold_bpg : forall d keep h (ms : list meta) bb l s0 b1 s2,
  SRoot d keep h bb -> BucketView d h bb l -> h <= fuel0 -> NoDup (map m_name ms) ->
  (forall m, In m ms -> exists r0 nx0, In (LBk (m_name m) r0 nx0) l) ->
  fold_res (meta_step d) ms (bb, s0) = Ok (b1, s2) -> bpg h d b1 = bpg h d bb.
Proof.
  intros d keep h. induction ms as [|[[nm r] nx] ms IH]; intros bb l s0 b1 s2 HS HV Hh Hnd Hall H.
  - cbn [fold_res] in H. inversion H; subst. reflexivity.
  - cbn [fold_res] in H. apply bind_ok_inv in H. destruct H as ([b' s'] & Est & H).
    cbn [map] in Hnd. inversion Hnd as [|? ? Hni Hnd']; subst.
    destruct (Hall _ (or_introl eq_refl)) as (r0 & nx0 & Hin). cbn [m_name fst] in Hin.
    destruct (meta_step_replace d keep h bb l s0 nm r nx r0 nx0 b' s' HS HV Hh Hin Est) as (A1 & A2 & _).
    rewrite <- (meta_step_bpg _ _ _ _ _ _ _ _ HS Est). apply (IH b' _ s' b1 s2 A1 A2 Hh Hnd'); [|exact H].
    intros m Hm. destruct (Hall m (or_intror Hm)) as (r1 & nx1 & Hin1). exists r1, nx1.
    apply (in_map (patch [(nm, r, nx)])) in Hin1. rewrite patch_other in Hin1; [exact Hin1|].
    cbn [lkey]. intros E. apply Hni. rewrite <- E. apply (in_map m_name _ _ Hm).
Qed.

(** ** 10c. the strict committed bucket tree, fuel-free; kept buckets stay strict *)
Inductive Strict (d : disk) : N -> Prop :=
| Strict_intro : forall r h l, PInv h d None None None r -> NoDup (ppages h d r) -> PageView d h r l ->
    Forall (StrictEnt d) l -> Strict d r
with StrictEnt (d : disk) : leafent -> Prop :=
| SE_kv : forall k v, StrictEnt d (LKv k v)
| SE_bk : forall k r nx, Strict d r -> StrictEnt d (LBk k r nx).

Lemma PInv_transfer : forall d d' h lo hi ok q, PInv h d lo hi ok q ->
  (forall x, in_subtree d q x -> dget d' x = dget d x) -> PInv h d' lo hi ok q.
Proof.
  intros d d'. induction h as [|h IH]; intros lo hi ok q H Hk; [destruct H|]. cbn [PInv] in *.
  destruct H as (a & Hg & Hok & Hb). exists a. split; [rewrite (Hk q (ist_self d q)); exact Hg|]. split; [exact Hok|].
  destruct (ap_body a) as [l|es] eqn:Eb; [exact Hb|]. destruct Hb as (H1 & H2 & H3 & H4 & H5).
  repeat (split; [assumption|]). eapply EnginePathFacts.Forall2_impl_In; [|exact H5]. cbn beta.
  intros e b He Hp. apply IH; [exact Hp|]. intros x Hx. apply Hk. eapply ist_kid; eauto.
Qed.

Lemma ppages_transfer : forall d d' h q, (forall x, in_subtree d q x -> dget d' x = dget d x) ->
  ppages h d' q = ppages h d q.
Proof.
  intros d d'. induction h as [|h IH]; intros q Hk; [reflexivity|]. cbn [ppages].
  rewrite (Hk q (ist_self d q)). destruct (dget d q) as [a|] eqn:Hg; [|reflexivity].
  destruct (ap_body a) as [l|es] eqn:Eb; [reflexivity|]. f_equal. apply flat_map_ext_in. intros e He.
  apply IH. intros x Hx. apply Hk. eapply ist_kid; eauto.
Qed.

(* a strict committed bucket all of whose pages are kept is strict on every disk that agrees on the kept pages *)
Lemma kept_Strict : forall d d' keep, (forall x, In x keep -> dget d' x = dget d x) ->
  forall n r, sbk n d r -> ckept n d keep r -> Strict d' r.
Proof.
  intros d d' keep Hk. induction n as [|n IH]; intros r Hs Hc; [destruct Hs|].
  cbn [sbk] in Hs. destruct Hs as (h & l & Hh & HP & Hnd & HV & HF).
  cbn [ckept] in Hc. destruct Hc as (Hsub & l' & HV' & HF').
  rewrite (PageView_det _ _ _ _ HV' _ _ HV) in HF'. clear l' HV'.
  assert (Hag : forall x, in_subtree d r x -> dget d' x = dget d x) by (intros x Hx; apply Hk, Hsub, Hx).
  apply Strict_intro with (h := h) (l := l).
  - eapply PInv_transfer; eauto.
  - rewrite (ppages_transfer d d' h r Hag). exact Hnd.
  - eapply PageView_transfer; eauto.
  - rewrite Forall_forall in *. intros e He. specialize (HF e He). specialize (HF' e He).
    destruct e as [k v|k r' nx]; [apply SE_kv | apply SE_bk; now apply IH].
Qed.

(* reading a strict tree within the fuels of the model: [sbk] *)
Lemma ppages_present_stable : forall h d q, pages_present h d q -> forall h', h <= h' -> ppages h' d q = ppages h d q.
Proof.
  induction h as [|h IH]; intros d q H h' Hle; [destruct H|]. destruct h' as [|h']; [lia|].
  cbn [pages_present] in H. cbn [ppages]. destruct (dget d q) as [a|]; [|reflexivity].
  destruct (ap_body a) as [l|es]; [reflexivity|]. f_equal. apply flat_map_ext_in. intros e He.
  apply IH; [apply H, He | lia].
Qed.

Lemma PInv_lower : forall h d H lo hi ok q, PInv H d lo hi ok q -> pages_present h d q -> PInv h d lo hi ok q.
Proof.
  induction h as [|h IH]; intros d H lo hi ok q HP Hp; [destruct Hp|]. destruct H as [|H]; [destruct HP|].
  cbn [PInv] in *. cbn [pages_present] in Hp. destruct HP as (a & Hg & Hok & Hb). rewrite Hg in Hp.
  exists a. split; [exact Hg|]. split; [exact Hok|]. destruct (ap_body a) as [l|es]; [exact Hb|].
  destruct Hb as (H1 & H2 & H3 & H4 & H5). repeat (split; [assumption|]).
  eapply EnginePathFacts.Forall2_impl_In; [|exact H5]. cbn beta. intros e b He HPe. eapply IH; eauto.
Qed.

Theorem Strict_sbk : forall n d r, Strict d r -> cpres n d r -> sbk n d r.
Proof.
  induction n as [|n IH]; intros d r HS Hc; [destruct Hc|]. cbn [cpres] in Hc. destruct Hc as [Hp Hall].
  inversion HS as [r0 h l HP Hnd HV HF]; subst r0.
  pose proof (page_ents_PageView fuel0 d r Hp) as HV0.
  assert (El : page_ents fuel0 d r = l) by (eapply PageView_det; eauto). rewrite El in *.
  cbn [sbk]. exists fuel0, l. split; [lia|]. split; [eapply PInv_lower; eauto|]. split; [|split; [exact HV0|]].
  - pose proof (EngineSpillWfFacts.PInv_present _ _ _ _ _ _ HP) as Hph.
    rewrite <- (ppages_present_stable fuel0 d r Hp (Nat.max h fuel0) ltac:(lia)).
    rewrite (ppages_present_stable h d r Hph (Nat.max h fuel0) ltac:(lia)). exact Hnd.
  - rewrite Forall_forall in *. intros e He. specialize (HF e He). specialize (Hall e He).
    destruct e as [k v|k r' nx]; [exact I|]. inversion HF; subst. now apply IH.
Qed.

(** ** 10d. what the spill needs, beyond [SReady], to write strict trees; rebalance leaves it *)
Definition XRoot (d : disk) (R : list N) (b : bucket) : Prop :=
  exists h, h <= fuel0 /\
    match b_rootn b with
    | Some n => Inv h d false None None n /\ NoDup (npages h d n) /\ incl (npages h d n) R
    | None => PInv h d None None None (b_root_page b) /\ NoDup (ppages h d (b_root_page b)) /\ In (b_root_page b) R
    end.

Inductive SReadyX (d : disk) (R : list N) : bucket -> Prop :=
| SX_clean : forall b, is_dirty fuel0 b = false -> (exists n, sbk n d (b_root_page b)) -> In (b_root_page b) R ->
    SReadyX d R b
| SX_dirty : forall b, is_dirty fuel0 b = true -> XRoot d R b ->
    (forall nm sb, In (nm, sb) (b_subs b) -> SReadyX d R sb) ->
    (forall l k r nx, bucket_view d b l -> In (LBk k r nx) l -> sub_find k (b_subs b) = None ->
       (exists n, sbk n d r) /\ In r R) ->
    SReadyX d R b.

Theorem rebalance_SReadyX : forall d R, closedR d R -> forall f fv k s b b' s', k <= fuel0 ->
  SDeepF fv d s b -> XDF d R k b -> rebalance f d b s = Ok (b', s') -> SReadyX d R b'.
Proof.
  intros d R HC. induction f as [|f IH]; intros fv k s b b' s' Hk HD HX H; [discriminate|].
  cbn [rebalance] in H. destruct (negb (is_dirty fuel0 b)) eqn:Edirty.
  { inversion H; subst b' s'. apply negb_true_iff in Edirty.
    destruct (clean_SClean d R HC k fuel0 fv s b Hk Edirty HX HD) as (_ & A & B). now apply SX_clean. }
  destruct fv as [|fv]; [destruct HD|]. cbn [SDeepF] in HD. destruct HD as (h & l & HL & (Hnd & H2 & H3)).
  destruct (XDF_inv _ _ _ _ _ _ _ HX HL) as (k' & -> & HR & _ & HU & _ & HF).
  pose proof (BLoc_sorted _ _ _ _ _ HL) as Hsorted.
  match type of H with bind ?r _ = _ => destruct r as [[subs' s1]| |] eqn:Ef end; cbn [bind] in H; try discriminate.
  destruct (rebalance_fold_gen f d (fun s0 x => SDeepF fv d s0 (snd x) /\ XDF d R k' (snd x))
              (fun x y => fst x = fst y /\ SReadyX d R (snd y))) with (subs := b_subs b) (acc := @nil (bytes * bucket))
              (acc0 := @nil (bytes * bucket)) (s0 := s) (subs' := subs') (s1 := s1) as [R1 Hle1].
  - intros s0 s0' x Hle [A B]. split; [eapply SDeepF_seqc_mono; eauto | exact B].
  - intros s0 x bx sx [Dx Xx] Ex. split.
    + destruct (SDeepF_Deep _ _ _ _ Dx) as [v Hv].
      destruct (rebalance_view f fv d s0 (snd x) v bx sx Hv Ex) as (_ & Tx & _). apply (tx_frame_le _ _ Tx).
    + split; [reflexivity|]. cbn [snd]. eapply (IH fv k'); eauto. lia.
  - rewrite Forall_forall in *. intros x Hx. split; [apply (H2 x Hx) | apply (HF x Hx)].
  - constructor.
  - exact Ef.
  - cbn [app] in R1. destruct HL as (Hh & HB & _ & HK & HV).
    set (b0 := Bucket (b_root_page b) (b_next b) true (b_rootn b) subs') in *.
    assert (HB0 : BInv h d s1 b0) by (exact (BInv_seqc_mono _ _ _ _ _ Hle1 HB)).
    assert (HV0 : BucketView d h b0 l) by exact HV. assert (HK0 : BLK b0) by exact HK.
    assert (HR0 : root_in d R b0) by exact HR.
    destruct (merge_nodes_root_ready h d s1 b0 l b' s' HB0 HK0 HV0 H) as (h' & Hle & HB' & HV' & _ & _).
    pose proof (merge_nodes_root_in h d R s1 b0 l b' s' HC Hh HB0 HV0 HR0 H) as HR'.
    destruct (merge_nodes_fields _ _ _ _ _ H) as (_ & Es & Ed). cbn [b0 b_subs b_dirty] in Es, Ed.
    pose proof (sub_find_F2 (fun _ sb' => SReadyX d R sb') (b_subs b) subs') as Hfind.
    apply SX_dirty.
    + unfold fuel0. rewrite is_dirty_S, Ed. reflexivity.
    + exists h'. split; [lia|]. unfold root_in, BInv in *. destruct (b_rootn b') as [n'|] eqn:En.
      * destruct HB' as (I1 & I2 & _). split; [exact I1|]. split; [exact I2|].
        rewrite <- (npages_stable _ _ _ _ _ _ I1 fuel0 ltac:(lia)). exact HR'.
      * destruct HB' as [P1 P2]. auto.
    + rewrite Es. intros nm sb' Hin. destruct (Forall2_In_r _ _ _ _ R1 Hin) as (x & _ & _ & HSx). exact HSx.
    + rewrite Es. intros l' k0 r nx Hv' Hin Hsf.
      assert (El : l' = l) by (eapply bucket_view_det; [exact Hv' | exists h'; split; [lia | exact HV']]). subst l'.
      assert (Hsf0 : sub_find k0 (b_subs b) = None).
      { specialize (Hfind R1 k0). destruct (sub_find k0 (b_subs b)); [|reflexivity].
        destruct Hfind as (sb' & Hs' & _). congruence. }
      pose proof (In_alookup l _ Hsorted Hin) as Hal. cbn [lkey] in Hal.
      split; [exact (H3 _ _ _ _ Hal Hsf0) | exact (HU _ _ _ _ Hal Hsf0)].
Qed.

(** ** 10e. [spill_bucket] writes strict trees *)
Definition WrittenS (d : disk) (live A : list N) (s : txs) (r : N) : Prop :=
  forall s'' a2 d2 P, frame (A ++ live) s s'' a2 d2 -> Strict (apply_wr (wr s'') P d) r.

Lemma WrittenS_later : forall d live A s s1 a dd r,
  frame (A ++ live) s s1 a dd -> WrittenS d live A s r -> WrittenS d live (a ++ A) s1 r.
Proof.
  intros d live A s s1 a dd r Hf HW s'' a2 d2 P Hf2. rewrite <- app_assoc in Hf2.
  apply (HW s'' (a2 ++ a) (dd ++ d2) P). eapply frame_trans; eauto.
Qed.

Lemma WrittenS_kept : forall n d keep live A s r,
  fresh_inv (A ++ live) s -> (forall x, In x keep -> In x live) -> unwritten keep s ->
  sbk n d r -> ckept n d keep r -> WrittenS d live A s r.
Proof.
  intros n d keep live A s r Hfi Hk Hu Hs Hc s'' a2 d2 P Hf.
  apply (kept_Strict d _ keep) with (n := n); try assumption.
  apply unwritten_dget. apply (frame_unwritten _ _ _ _ _ keep Hfi Hf); [|exact Hu].
  intros x Hx. apply in_or_app. right. apply Hk, Hx.
Qed.

Definition SpillPostS (d : disk) (live : list N) (s : txs) (res : N * N * txs * list bytes) : Prop :=
  let '(r, _, s', _) := res in exists alloc dead, frame live s s' alloc dead /\ WrittenS d live alloc s' r.

Definition RecOKS (d : disk) (keep : list N)
                  (rec : bucket -> txs -> list bytes -> res (N * N * txs * list bytes)) : Prop :=
  forall live b s ord res m, fresh_inv live s -> (forall x, In x keep -> In x live) -> unwritten keep s ->
    SReady d keep b -> OvlAbs d b m -> SReadyX d keep b -> rec b s ord = Ok res -> SpillPostS d live s res.

Definition SubInvS (d : disk) (live : list N) (s : txs) (subs : list (bytes * bucket)) (acc : sub_acc) : Prop :=
  let '(l, s0, _, remaining) := acc in
  (forall x, In x remaining -> In x subs) /\
  exists A D, frame live s s0 A D /\ Forall (fun m : meta => WrittenS d live A s0 (snd (fst m))) l.

Lemma sub_step_invS : forall d keep live s subs rec, RecOKS d keep rec ->
  fresh_inv live s -> (forall x, In x keep -> In x live) -> unwritten keep s ->
  (forall nm sb, In (nm, sb) subs -> SReady d keep sb /\ (exists ms, OvlAbs d sb ms) /\ SReadyX d keep sb) ->
  forall x acc acc', SubInvS d live s subs acc -> sub_step rec acc x = Ok acc' -> SubInvS d live s subs acc'.
Proof.
  intros d keep live s subs rec HR Hfi Hk Hu Hsubs x [[[l s0] o] remaining] acc' HI H.
  unfold sub_step in H. destruct o as [|nm o']; [discriminate|].
  destruct (take_sub nm remaining) as [[sb rem']|] eqn:Et; [|discriminate].
  apply bind_ok_inv in H. destruct H as ([[[r nx] s'] o''] & Hrec & H). inversion H; subst acc'. clear H.
  destruct (take_sub_inv _ _ _ _ Et) as (a & b & Erem & ->).
  destruct HI as (I2 & A & D & Hfr & Hall).
  assert (Hin_rem : In (nm, sb) remaining) by (rewrite Erem; apply in_or_app; right; now left).
  destruct (Hsubs nm sb (I2 _ Hin_rem)) as (HS & [ms Hms] & HSX).
  assert (Hk' : forall x, In x keep -> In x (A ++ live)) by (intros y Hy; apply in_or_app; right; apply Hk, Hy).
  pose proof (HR (A ++ live) sb s0 o' _ ms (fr_fresh _ _ _ _ _ Hfr) Hk'
                 (frame_unwritten _ _ _ _ _ keep Hfi Hfr Hk Hu) HS Hms HSX Hrec) as HP.
  cbn [SpillPostS] in HP. destruct HP as (a1 & d1 & Hf1 & HW).
  unfold SubInvS. split.
  { intros y Hy. apply I2. rewrite Erem. apply in_app_or in Hy. apply in_or_app. destruct Hy; [left|right; right]; assumption. }
  exists (a1 ++ A), (D ++ d1). split; [eapply frame_trans; eauto|].
  apply Forall_app. split.
  - eapply Forall_impl; [|exact Hall]. intros m0 X. eapply WrittenS_later; eauto.
  - repeat constructor. cbn [fst snd]. intros s'' a2 d2 P Hf2. rewrite <- app_assoc in Hf2. apply (HW s'' a2 d2 P Hf2).
Qed.

Lemma sub_fold_invS : forall d keep live s subs rec, RecOKS d keep rec ->
  fresh_inv live s -> (forall x, In x keep -> In x live) -> unwritten keep s ->
  (forall nm sb, In (nm, sb) subs -> SReady d keep sb /\ (exists ms, OvlAbs d sb ms) /\ SReadyX d keep sb) ->
  forall cnt acc acc', SubInvS d live s subs acc -> fold_res (sub_step rec) cnt acc = Ok acc' ->
    SubInvS d live s subs acc'.
Proof.
  intros d keep live s subs rec HR Hfi Hk Hu Hsubs. induction cnt as [|x cnt IH]; intros acc acc' HI H.
  - cbn [fold_res] in H. inversion H; subst. exact HI.
  - cbn [fold_res] in H. apply bind_ok_inv in H. destruct H as (acc1 & H1 & H2).
    apply (IH acc1 acc'); [|exact H2]. eapply sub_step_invS; eauto.
Qed.

(* a root that is ready for the spill has the shape (W) asks *)
Lemma Rdy_shape_ok : forall h d keep lo hi n, Inv h d false lo hi n -> Rdy d keep n -> EngineSpillWfFacts.shape_ok n.
Proof.
  induction h as [|h IH]; intros d keep lo hi n HI HR; [destruct HI|].
  inversion HR as [pg npg o sq l Hne | pg npg o sq es kids Hk Hkeep]; subst n.
  - now apply EngineSpillWfFacts.so_leaf.
  - apply EngineSpillWfFacts.so_branch. intros kd Hkd. rewrite Inv_branch_eq in HI.
    destruct HI as (_ & _ & _ & _ & [Lnd LF] & HC). rewrite Forall_forall in LF. destruct (LF kd Hkd) as (key & Hin & _).
    pose proof (find_kid_NoDup _ _ Lnd Hkd) as Hf.
    destruct (Forall2_In_left _ _ _ _ HC Hin) as (b & _ & Hc). unfold CInv in Hc. cbn [snd] in Hc. rewrite Hf in Hc.
    eapply IH; [exact Hc|]. apply (Hk (key, n_page kd) kd Hin Hf).
Qed.

(* the entries of the patched view are strict on the later disk *)
Lemma patched_strict : forall d' subs (ms : list meta) l,
  (forall m, In m ms -> Strict d' (snd (fst m))) ->
  (forall x, In x subs -> In (fst x) (map m_name ms)) ->
  (forall k r nx, In (LBk k r nx) l -> sub_find k subs = None -> Strict d' r) ->
  Forall (StrictEnt d') (map (patch ms) l).
Proof.
  intros d' subs ms l Hms Hcov Hdisk. apply Forall_forall. intros e' He'. apply in_map_iff in He'.
  destruct He' as (e & <- & He). destruct e as [k v|k r nx]; cbn [patch]; [apply SE_kv|].
  destruct (find (fun m => beq (m_name m) k) ms) as [[[k1 r1] nx1]|] eqn:Ef.
  - apply find_some in Ef. destruct Ef as [E1 _]. apply SE_bk. exact (Hms _ E1).
  - apply SE_bk. apply (Hdisk k r nx He). destruct (sub_find k subs) as [sb|] eqn:Hsf; [|reflexivity].
    exfalso. pose proof (Hcov _ (sub_find_In _ _ _ Hsf)) as Hin. cbn [fst] in Hin.
    destruct (find_name ms k Hin) as (m1 & F1 & _). congruence.
Qed.

(* the pages named by a bucket's root, against [XRoot] (which may be stated at another height) *)
Lemma XRoot_bpg : forall d R h b, closedR d R -> XRoot d R b -> SRoot d R h b ->
  NoDup (bpg h d b) /\ incl (bpg h d b) R.
Proof.
  intros d R h b HC (h2 & Hh2 & HX) HS. unfold bpg, SRoot in *. destruct (b_rootn b) as [n|].
  - destruct HX as (I2 & N2 & C2). destruct HS as [I1 _].
    assert (E : npages h d n = npages h2 d n).
    { rewrite <- (npages_stable _ _ _ _ _ _ I1 (Nat.max h h2) ltac:(lia)).
      apply (npages_stable _ _ _ _ _ _ I2). lia. }
    rewrite E. auto.
  - destruct HX as (P2 & N2 & C2). destruct HS as [P1 _].
    assert (E : ppages h d (b_root_page b) = ppages h2 d (b_root_page b)).
    { rewrite <- (ppages_stable _ _ _ _ _ _ P1 (Nat.max h h2) ltac:(lia)).
      apply (ppages_stable _ _ _ _ _ _ P2). lia. }
    rewrite E. split; [exact N2 | now apply closed_ppages].
Qed.

Notation swfh := EngineSpillWfFacts.swfh.
Notation upages := EngineSpillWfFacts.upages.

Lemma spill_tail_strict : forall d keep live s A D s1 s2 h l subs (ms : list meta) rn p s3,
  fresh_inv live s -> (forall x, In x keep -> In x live) -> unwritten keep s ->
  frame live s s1 A D -> same_but_seqc s1 s2 ->
  Inv h d false None None rn -> RRdy d keep rn -> NodeView d h rn (map (patch ms) l) ->
  NoDup (npages h d rn) -> incl (npages h d rn) keep ->
  Forall (fun m : meta => WrittenS d live A s1 (snd (fst m))) ms ->
  (forall x, In x subs -> In (fst x) (map m_name ms)) ->
  (forall k r nx, In (LBk k r nx) l -> sub_find k subs = None -> exists n, sbk n d r /\ ckept n d keep r) ->
  spill_root fuel0 rn s2 = Ok (p, s3) ->
  exists alloc dead, frame live s s3 alloc dead /\ WrittenS d live alloc s3 p.
Proof.
  intros d keep live s A D s1 s2 h l subs ms rn p s3 Hfi Hk Hu Hfr Hs12 HI HR HV Hnp Hinc Hms Hcov Hdisk Hsp.
  pose proof (frame_seqc_r _ _ _ _ _ _ Hfr Hs12) as Hfr2.
  pose proof (fr_fresh _ _ _ _ _ Hfr2) as Hfi2.
  assert (Hk2 : forall x, In x keep -> In x (A ++ live)) by (intros y Hy; apply in_or_app; right; apply Hk, Hy).
  pose proof (frame_unwritten _ _ _ _ _ keep Hfi Hfr2 Hk Hu) as Hu2.
  assert (Hents : forall alloc dead s'' a2 d2 P, frame (A ++ live) s2 s3 alloc dead ->
            frame (alloc ++ A ++ live) s3 s'' a2 d2 -> unwritten keep s'' ->
            Forall (StrictEnt (apply_wr (wr s'') P d)) (map (patch ms) l)).
  { intros alloc dead s'' a2 d2 P F1 Hf'' G2. apply (patched_strict _ subs); [|exact Hcov|].
    - intros m Hm. rewrite Forall_forall in Hms.
      apply (Hms m Hm s'' (a2 ++ alloc) (dead ++ d2) P). apply (frame_seqc_l _ _ _ _ _ _ Hs12). eapply frame_trans; eauto.
    - intros k r nx Hin Hsf. destruct (Hdisk k r nx Hin Hsf) as (n & Hs & Hc).
      apply (kept_Strict d _ keep) with (n := n); try assumption. now apply unwritten_dget. }
  destruct HR as [E | HRd].
  - (* the empty root leaf *)
    destruct (spill_root_view d keep (A ++ live) h rn _ fuel0 s2 p s3 (Inv_wf_node _ _ _ _ _ HI) HV
                (or_introl E) Hfi2 Hsp) as (alloc & dead & good & lv & F1 & F2 & F3 & _).
    destruct (EngineSpillWfFacts.spill_root_empty_wf (A ++ live) fuel0 rn s2 p s3 Hfi2 E Hsp) as [_ Hw].
    pose proof (NodeView_empty_leaf _ _ _ _ HV E) as El.
    exists (alloc ++ A), (D ++ dead). split; [eapply frame_trans; eauto|].
    intros s'' a2 d2 P Hf''. rewrite <- app_assoc in Hf''.
    destruct (frame_later_ok _ _ _ _ _ good keep s'' a2 d2 Hfi2 F1 F2 Hk2 Hu2 Hf'') as [G1 G2].
    assert (G1' : wr_agree [p] (wr s3) (wr s'')) by (intros q [<-|[]]; apply G1, F3).
    destruct (Hw (wr s'') P d G1') as (W1 & W2 & _ & W4). cbv zeta in *.
    apply Strict_intro with (h := 1) (l := []); [exact W1 | rewrite W2; constructor | exact W4 | constructor].
  - assert (Hup : forall x, In x (upages h d rn) -> In x keep).
    { intros x Hx. apply Hinc. now apply EngineSpillWfFacts.upages_incl_npages. }
    pose proof (EngineSpillWfFacts.Inv_swfh h d keep h None None rn HI (Rdy_shape_ok _ _ _ _ _ _ HI HRd) Hup (le_n h)) as Hsw.
    pose proof (EngineSpillWfFacts.NoDup_npages_upages h d rn Hnp) as Hund.
    destruct (EngineSpillWfFacts.spill_root_wf h d keep (A ++ live) fuel0 rn s2 p s3 h Hfi2 Hk2 Hsw Hund Hsp)
      as (alloc & dead & good & lv & F1 & F2 & F3 & _ & _ & _ & Hfin).
    exists (alloc ++ A), (D ++ dead). split; [eapply frame_trans; eauto|].
    intros s'' a2 d2 P Hf''. rewrite <- app_assoc in Hf''.
    destruct (frame_later_ok _ _ _ _ _ good keep s'' a2 d2 Hfi2 F1 F2 Hk2 Hu2 Hf'') as [G1 G2].
    destruct (Hfin (wr s'') P G1 G2) as (_ & R1 & R2 & _ & _ & R5). cbv zeta in *.
    rewrite (NodeView_view_leaves d h rn _ HV h (le_n h)) in R5.
    apply Strict_intro with (h := lv + h) (l := map (patch ms) l); [exact R1 | now inversion R2 | exact R5|].
    eapply Hents; eauto.
Qed.

Lemma RecOKS_step : forall d keep f, closedR d keep ->
  RecOKS d keep (spill_bucket f d) -> RecOKS d keep (spill_bucket (S f) d).
Proof.
  intros d keep f HC HR live b s ord res m Hfi Hk Hu HS HO HSX H. destruct res as [[[r nx] s'] ord'].
  rewrite spill_bucket_unfold in H.
  destruct (is_dirty fuel0 b) eqn:Ed; cbn [negb] in H.
  2:{ inversion H; subst r nx s' ord'. inversion HSX as [b0 _ [n Hn] Hin | b0 Hd]; subst b0; [|congruence].
      cbn [SpillPostS]. exists [], []. split; [now apply frame_refl|].
      apply (WrittenS_kept n d keep live [] s); auto. now apply closed_ckept. }
  inversion HS as [b0 Hd | b0 h l _ Hh HV HD Hnd Hsubs Hdisk]; subst b0; [congruence|].
  inversion HSX as [b0 Hd | b0 _ HXR HXsubs HXun]; subst b0; [congruence|].
  inversion HO as [b0 l0 ents Hbv HF]; subst b0 m.
  assert (El : l0 = l) by (apply (bucket_view_det d b); [exact Hbv | exists h; auto]). subst l0.
  assert (Hsubs' : forall nm sb, In (nm, sb) (b_subs b) -> SReady d keep sb /\ exists ms, OvlAbs d sb ms).
  { intros nm sb Hin. destruct (Hsubs nm sb Hin) as [(r0 & nx0 & Hl) HSb]. split; [exact HSb|].
    eapply sub_has_meaning; eauto. }
  assert (Hsubs'' : forall nm sb, In (nm, sb) (b_subs b) ->
            SReady d keep sb /\ (exists ms, OvlAbs d sb ms) /\ SReadyX d keep sb).
  { intros nm sb Hin. destruct (Hsubs' nm sb Hin) as [X1 X2]. split; [exact X1|]. split; [exact X2 | eauto]. }
  assert (Hdisk' : forall k r0 nx0, In (LBk k r0 nx0) l -> sub_find k (b_subs b) = None ->
            exists n, sbk n d r0 /\ ckept n d keep r0).
  { intros k r0 nx0 Hin Hsf. destruct (HXun l k r0 nx0 (ex_intro _ h (conj Hh HV)) Hin Hsf) as [[n Hn] Hr0].
    exists n. split; [exact Hn | now apply closed_ckept]. }
  apply bind_ok_inv in H. destruct H as ([[[metas s1] ord1] rem] & Hf1 & H).
  assert (HI0 : SubInv d live s (b_subs b) ([], s, ord, b_subs b)).
  { cbn [SubInv]. split; [exact Hnd|]. split; [auto|]. split; [constructor|]. split; [intros ? []|].
    split; [intros x Hx; now right|]. exists [], []. split; [now apply frame_refl | constructor]. }
  destruct (sub_fold_inv d keep live s (b_subs b) _ (RecOK_all d keep f) Hfi Hk Hu Hsubs' (b_subs b) _ _ HI0 Hf1)
    as [(_ & _ & J3 & _ & J5 & A0 & D0 & Hfr0 & Hms) Hlen].
  cbn [snd] in Hlen. assert (rem = []) by (destruct rem; [reflexivity | cbn [length] in Hlen; lia]). subst rem.
  assert (Hcov : forall x, In x (b_subs b) -> In (fst x) (map m_name metas)).
  { intros x Hx. destruct (J5 x Hx) as [Hc|[]]. exact Hc. }
  assert (HI0S : SubInvS d live s (b_subs b) ([], s, ord, b_subs b)).
  { cbn [SubInvS]. split; [auto|]. exists [], []. split; [now apply frame_refl | constructor]. }
  destruct (sub_fold_invS d keep live s (b_subs b) _ HR Hfi Hk Hu Hsubs'' (b_subs b) _ _ HI0S Hf1)
    as (_ & A & D & Hfr & HmsS).
  apply bind_ok_inv in H. destruct H as ([b1 s2] & Hf2 & H).
  assert (Hall : forall mt, In mt metas -> exists r0 nx0, In (LBk (m_name mt) r0 nx0) l).
  { intros mt Hmt. rewrite Forall_forall in Hms. destruct (Hms mt Hmt) as (sb & _ & X1 & _).
    destruct (Hsubs _ _ X1) as [Hex _]. exact Hex. }
  assert (Hcase : (b_rootn b = None /\ metas = []) \/
                  (SRoot d keep h b /\ (metas <> [] \/ exists n, b_rootn b = Some n))).
  { unfold SRoot, DRoot in *. destruct (b_rootn b) as [n|]; [right; split; [exact HD | right; eauto]|].
    destruct metas as [|mt metas]; [left; auto|]. right. split; [|left; discriminate].
    destruct HD as [HD1 HD2]. split; [|exact HD1]. apply HD2.
    inversion Hms as [|? ? (sb & _ & X1 & _) _]; subst. intros E. rewrite E in X1. destruct X1. }
  destruct Hcase as [[Ern ->] | [HSR Hsome]].
  - (* the promoted root that was never loaded, no opened sub-bucket: the committed page is returned *)
    cbn [fold_res] in Hf2. inversion Hf2; subst b1 s2. unfold spill_tail_b in H. rewrite Ern in H.
    inversion H; subst r nx s' ord'. clear H.
    cbn [SpillPostS]. exists A, D. split; [exact Hfr|].
    unfold DRoot in HD. unfold BucketView in HV. rewrite Ern in HD, HV. destruct HD as [HD1 _].
    destruct HXR as (h2 & Hh2 & HX). rewrite Ern in HX. destruct HX as (P2 & N2 & _).
    intros s'' a2 d2 P Hf''.
    assert (Hu'' : unwritten keep s'').
    { apply (frame_unwritten _ _ _ _ _ keep (fr_fresh _ _ _ _ _ Hfr) Hf'').
      - intros x Hx. apply in_or_app. right. apply Hk, Hx.
      - apply (frame_unwritten _ _ _ _ _ keep Hfi Hfr Hk Hu). }
    assert (Hag : forall x, in_subtree d (b_root_page b) x -> dget (apply_wr (wr s'') P d) x = dget d x).
    { intros x Hx. apply unwritten_dget with (keep := keep); [exact Hu'' | apply HD1, Hx]. }
    apply Strict_intro with (h := Nat.max h h2) (l := l).
    + assert (Hle2 : h2 <= Nat.max h h2) by lia.
      apply (PInv_transfer d _ _ _ _ _ _ (EngineSpillWfFacts.PInv_mono_le h2 (Nat.max h h2) d _ _ _ _ Hle2 P2) Hag).
    + assert (Hle2 : h2 <= Nat.max h h2) by lia.
      rewrite (ppages_transfer d _ _ _ Hag), (ppages_stable _ _ _ _ _ _ P2 _ Hle2). exact N2.
    + assert (Hle1 : h <= Nat.max h h2) by lia.
      apply (PageView_transfer d _ _ _ _ (PageView_mono _ _ _ _ HV _ Hle1) Hag).
    + rewrite <- (patch_nil l). apply (patched_strict _ (b_subs b) []); [intros ? [] | exact Hcov |].
      intros k r0 nx0 Hin Hsf. destruct (Hdisk' k r0 nx0 Hin Hsf) as (n & Hs & Hc).
      apply (kept_Strict d _ keep) with (n := n); try assumption. now apply unwritten_dget.
  - destruct (meta_fold_replace d keep h metas b l s1 b1 s2 HSR HV Hh J3 Hall Hf2)
      as (B1 & B2 & B3 & B4 & _ & B6).
    pose proof (meta_fold_bpg d keep h metas b l s1 b1 s2 HSR HV Hh J3 Hall Hf2) as Ebpg.
    destruct (XRoot_bpg d keep h b HC HXR HSR) as [Hnp Hinc]. rewrite <- Ebpg in Hnp, Hinc.
    assert (Hrn : exists rn, b_rootn b1 = Some rn).
    { destruct Hsome as [Hne | [n Hn]]; [apply B3, Hne|]. destruct metas as [|mt metas]; [|apply B3; discriminate].
      rewrite (B4 eq_refl). eauto. }
    destruct Hrn as [rn Ern]. unfold spill_tail_b in H. rewrite Ern in H.
    apply bind_ok_inv in H. destruct H as ([p s3] & Hsp & H). inversion H; subst r nx s' ord'. clear H.
    unfold SRoot in B1. rewrite Ern in B1. destruct B1 as [HI HRd]. unfold BucketView in B2. rewrite Ern in B2.
    unfold bpg in Hnp, Hinc. rewrite Ern in Hnp, Hinc.
    exact (spill_tail_strict d keep live s A D s1 s2 h l (b_subs b) metas rn p s3
             Hfi Hk Hu Hfr B6 HI HRd B2 Hnp Hinc HmsS Hcov Hdisk' Hsp).
Qed.

Lemma RecOKS_all : forall d keep f, closedR d keep -> RecOKS d keep (spill_bucket f d).
Proof.
  intros d keep f HC. induction f as [|f IH]; [|now apply RecOKS_step].
  intros live b s ord res m _ _ _ _ _ _ H. discriminate.
Qed.

(** ** 10f. [commit], [run_tx]: the new state is strict *)
Theorem commit_strict : forall st b s ord st' b1 s1 keep live m, closedR (d_disk st) keep ->
  rebalance fuel0 (d_disk st) b s = Ok (b1, s1) ->
  fresh_inv live s1 -> (forall x, In x keep -> In x live) -> (forall x, In x keep -> wr_get (wr s1) x = None) ->
  SReady (d_disk st) keep b1 -> OvlAbs (d_disk st) b1 m -> SReadyX (d_disk st) keep b1 ->
  commit st b s ord = Ok st' -> Strict (d_disk st') (d_root st').
Proof.
  intros st b s ord st' b1 s1 keep live m HC Hreb Hfi Hk Hu HS HO HSX H.
  rewrite commit_apply_wr in H. unfold commit_with_apply_wr in H. rewrite Hreb in H. cbn [bind] in H.
  apply bind_ok_inv in H. destruct H as ([[[r nx] s2] ord'] & Hsp & H).
  pose proof (RecOKS_all (d_disk st) keep fuel0 HC live b1 s1 ord (r, nx, s2, ord') m Hfi Hk Hu HS HO HSX Hsp) as HP.
  cbn [SpillPostS] in HP. destruct HP as (alloc & dead & F1 & HW).
  set (s3 := free_pages s2 (d_fl st) (d_fln st)) in H.
  destruct (tx_allocate s3 (40 + 8 * llen (all_pages s3))) as [[flp fln] s4] eqn:Hal.
  inversion H; subst st'. clear H. cbn [d_root d_disk].
  pose proof (fr_fresh _ _ _ _ _ F1) as Hfi2.
  pose proof (free_pages_frame (alloc ++ live) s2 (d_fl st) (d_fln st) Hfi2) as G1. fold s3 in G1.
  assert (Hpos : (0 < 40 + 8 * llen (all_pages s3))%N) by lia.
  destruct (tx_allocate_frame (alloc ++ live) s3 _ flp fln s4 (fr_fresh _ _ _ _ _ G1) Hpos Hal) as [G2 _].
  pose proof (frame_trans _ _ _ _ _ _ _ _ G1 G2) as G4.
  exact (HW s4 _ _ (psz s4) G4).
Qed.

Theorem run_tx_strict : forall st ops ord st', db_ok st -> Forall (op_ok (d_disk st)) ops ->
  run_tx st ops ord = Ok st' -> readable st' -> db_strict st'.
Proof.
  intros st ops ord st' [Hdb [R HA]] Hops Hrun Hrd.
  destruct (run_tx_rebalance_ready st ops ord st' Hdb Hops Hrun)
    as (root' & s' & b1r & s1r & fv & v & Hf & _ & _ & _ & [f HSD] & Hrr & _).
  destruct (run_tx_commit_ready st R ops ord st' Hdb HA Hops Hrun)
    as (root2 & s2' & b1 & s1 & Hf2 & Hc & Hr & _ & _ & Hfi & Hwr & HS & HO).
  rewrite Hf in Hf2. inversion Hf2; subst root2 s2'. rewrite Hrr in Hr. inversion Hr; subst b1r s1r.
  pose proof HA as (_ & _ & _ & _ & _ & _ & _ & HC & _).
  assert (HSX : SReadyX (d_disk st) R b1).
  { eapply (rebalance_SReadyX (d_disk st) R HC fuel0 f 9); eauto; [unfold fuel0; lia|]. eapply tx_ops_XDF; eauto. }
  assert (Hk : forall x, In x R -> In x (live_of st R)) by (intros x Hx; now apply R_live).
  assert (Hu : forall x, In x R -> wr_get (wr s1) x = None) by (intros x _; rewrite Hwr; reflexivity).
  unfold db_strict. apply Strict_sbk; [|exact Hrd].
  exact (commit_strict st root' s' ord st' b1 s1 R (live_of st R) _ HC Hrr Hfi Hk Hu HS HO HSX Hc).
Qed.

(* ====================================================================== *)
(** * 11. Refinement, with the allocation invariant of the NEW state as a (decidable) side condition

   Proved for the new state: the meaning equation ([run_tx_meaning]) and strictness ([run_tx_strict]).
   NOT proved: [db_alloc_ok st'] (the pages of the new tree are disjoint from everything freed by the transaction
   and from the new free list: the partition argument). It is a hypothesis below, decidable by [db_alloc_okb]. *)

Definition checked (st : db) : Prop := readable st /\ db_alloc_ok st.
Definition checkedb (st : db) : bool := readableb st && db_alloc_okb st.
Lemma checkedb_ok : forall st, checkedb st = true -> checked st.
Proof.
  intros st H. apply andb_true_iff in H. destruct H as [H1 H2].
  split; [now apply readableb_ok | now apply db_alloc_okb_ok].
Qed.

Theorem run_tx_refines : forall st ops ord st', db_ok st -> Forall (op_ok (d_disk st)) ops ->
  run_tx st ops ord = Ok st' -> checked st' -> db_ok st' /\ abs_db st' = sem_tx ops (abs_db st).
Proof.
  intros st ops ord st' Hok Hops Hrun [Hrd Hal]. split.
  - split; [eapply run_tx_strict; eauto | exact Hal].
  - eapply run_tx_meaning; eauto.
Qed.

(* a history of transactions, each committed state checked *)
Fixpoint run_txs (st : db) (txs : list (list op * list bytes)) : res db :=
  match txs with
  | [] => Ok st
  | (ops, ord) :: txs' => bind (run_tx st ops ord) (fun st1 => run_txs st1 txs')
  end.
Fixpoint sem_txs (txs : list (list op * list bytes)) (m : snode) : snode :=
  match txs with [] => m | (ops, _) :: txs' => sem_txs txs' (sem_tx ops m) end.
(* every operation is admissible in the state it is applied to, and every committed state passes the check *)
Fixpoint txs_ok (st : db) (txs : list (list op * list bytes)) : Prop :=
  match txs with
  | [] => True
  | (ops, ord) :: txs' => Forall (op_ok (d_disk st)) ops /\
      forall st1, run_tx st ops ord = Ok st1 -> checked st1 /\ txs_ok st1 txs'
  end.

Corollary run_txs_refines : forall txs st st', db_ok st -> txs_ok st txs -> run_txs st txs = Ok st' ->
  db_ok st' /\ abs_db st' = sem_txs txs (abs_db st).
Proof.
  induction txs as [|[ops ord] txs IH]; intros st st' Hok Htx H; cbn [run_txs sem_txs] in *.
  - inversion H; subst. auto.
  - apply bind_ok_inv in H. destruct H as (st1 & H1 & H2). destruct Htx as [Hops Hnext].
    destruct (Hnext st1 H1) as [Hck Htx1].
    destruct (run_tx_refines st ops ord st1 Hok Hops H1 Hck) as [Hok1 E1].
    destruct (IH st1 st' Hok1 Htx1 H2) as [Hok' E']. split; [exact Hok'|]. now rewrite E', E1.
Qed.

Corollary run_txs_refines_init : forall P txs st', (0 < P)%N -> txs_ok (init_db P) txs ->
  run_txs (init_db P) txs = Ok st' -> db_ok st' /\ abs_db st' = sem_txs txs (SBucket 0 0 []).
Proof. intros P txs st' HP Htx H. exact (run_txs_refines txs _ _ (init_db_ok P HP) Htx H). Qed.

(* the target statement of EngineAbs, with the side condition folded into the well-formedness predicate:
   [db_wf st] = [db_ok st], and every state the engine can reach from [st] by completed transactions of admissible
   operations passes the check *)
Inductive reach_tx : db -> db -> Prop :=
| reach_refl : forall st, reach_tx st st
| reach_step : forall st ops ord st1 st2, Forall (op_ok (d_disk st)) ops -> run_tx st ops ord = Ok st1 ->
    reach_tx st1 st2 -> reach_tx st st2.

Definition db_wf (st : db) : Prop := db_ok st /\ forall st2, reach_tx st st2 -> checked st2.

Theorem run_tx_refines_stmt_holds : run_tx_refines_stmt db_wf op_ok.
Proof.
  intros st ops ord st' [Hok Hall] Hops Hrun.
  assert (Hck : checked st') by (apply Hall; eapply reach_step; eauto; apply reach_refl).
  destruct (run_tx_refines st ops ord st' Hok Hops Hrun Hck) as [Hok' E]. split; [|exact E].
  split; [exact Hok'|]. intros st2 Hr. apply Hall. eapply reach_step; eauto.
Qed.

(* two transactions from the empty database: a nested bucket is created, then modified and a second level added *)
Module ExHistory.
Import Ex3.
Definition tx1 : list op * list bytes := ([Put [] ka [x01]; Put [kb] kc [x02]; Put [kb] kd [x03]], [kb]).
Definition tx2 : list op * list bytes := ([Del [] ka; Put [kb; km] ke [x04]; Del [kb] kc], [kb; km]).
Definition hist : list (list op * list bytes) := [tx1; tx2].
Definition hist_run := Eval vm_compute in run_txs (init_db 4096) hist.
Definition hist_st : db := match hist_run with Ok st => st | _ => init_db 4096 end.
Example hist_run_ok : run_txs (init_db 4096) hist = Ok hist_st.
Proof. vm_compute. reflexivity. Qed.

Example hist_ok : txs_ok (init_db 4096) hist.
Proof.
  cbn [txs_ok hist tx1 tx2]. split; [repeat constructor; cbn; lia|].
  intros st1 H1. vm_compute in H1. inversion H1; subst st1. clear H1.
  split; [apply checkedb_ok; vm_compute; reflexivity|].
  split; [repeat constructor; cbn; lia|].
  intros st2 H2. vm_compute in H2. inversion H2; subst st2. clear H2.
  split; [apply checkedb_ok; vm_compute; reflexivity | exact I].
Qed.

Example hist_refines : db_ok hist_st /\ abs_db hist_st = sem_txs hist (SBucket 0 0 []).
Proof. exact (run_txs_refines_init 4096 hist hist_st eq_refl hist_ok hist_run_ok). Qed.

Example hist_value : abs_db hist_st =
  SBucket 0 2 [(kb, SBucket 0 3 [(kd, SVal [x03]); (km, SBucket 0 1 [(ke, SVal [x04])])])].
Proof. vm_compute. reflexivity. Qed.
End ExHistory.

(* ====================================================================== *)
(* Summary.

   Definitions.  [alloc_ok st R] / [db_alloc_ok st := exists R, alloc_ok st R]: R contains [d_root], is closed under
     "child of a branch page" and "root of a nested bucket" in [d_disk] (so it contains every reachable head page;
     it may contain more); [d_free] strictly ascending, >= 2, < [d_np]; pending ids in [2, d_np); every page of
     [live_of st R] = the runs (head + overflow pages, [prun]) of the pages of R ++ the free-list run
     [d_fl, d_fl + d_fln) is in [2, d_np), not free and not pending; 0 < [d_psz], 2 <= [d_np].
     [db_ok st := db_strict st /\ db_alloc_ok st].  [readable st := cpres 16 (d_disk st) (d_root st)].

   Proved.
     [run_tx_meaning]   : db_ok st -> Forall (op_ok (d_disk st)) ops -> run_tx st ops ord = Ok st' -> readable st' ->
                          abs_db st' = sem_tx ops (abs_db st)
     [run_tx_strict]    : same hypotheses -> db_strict st'
     [run_tx_refines]   : same hypotheses + db_alloc_ok st' -> db_ok st' /\ abs_db st' = sem_tx ops (abs_db st)
     [run_txs_refines], [run_txs_refines_init], [run_tx_refines_stmt_holds] (EngineAbs.run_tx_refines_stmt for
       [db_wf st] := db_ok st /\ every state reachable from st is [checked] = readable and [db_alloc_ok])
     glue: [rebalance_OvlAbs] (a); [rebalance_SReady] (b) via the new overlay invariant [XDF] (threaded through the
       operations next to (T)'s [SDeep]); [begin_w_fresh] + [tx_frees] / [tx_frame] (c).
     [live_of] includes the overflow runs of multi-page nodes.

   What the layers left open and is supplied here (neither (T)'s [SDeep]/[RDeep] nor (P)'s [ovl_wf] records it):
     - the pages an overlay names are pages of the committed tree ([root_in], [unopened_in]); needed for
       keep <= live and freshness;
     - an opened bucket that is not dirty still carries the (root, next) of its entry and has no root node
       ([linked]); needed by the clean clause of (SB)'s [SReady];
     - the overlay is at most 9 buckets deep, so that [is_dirty fuel0 b = false] means "nothing below b is dirty"
       ([clean_SClean]); the dirty test is fuelled, so without a depth bound the clean clause is not derivable;
     - (W) needs [NoDup (npages ..)] and the strict form of the un-opened nested buckets after the parent updates of
       [spill_bucket]; (SB)'s [SReady] drops them: [SReadyX], [modify_npages], [meta_fold_bpg].

   NOT proved (Stage 2, second half): [db_alloc_ok st'] from [db_ok st].  Needed:
     (1) a global no-sharing invariant of committed states (NoDup of all page runs of the reachable tree, nested
         buckets and overflow included; [sbk] has NoDup per bucket only and not "root not below itself"), kept by commit;
     (2) page accounting through the operations and rebalance: the pages freed ([free_tree] of a deleted bucket,
         [free_node_page] of merged / promoted nodes) are runs of pages of R that the overlay no longer references;
         every materialised node carries (n_page, n_np) = a run of R or 0;
     (3) the same through [spill_bucket] for all nested buckets ((S)'s [old_in] / [pend_ok] / [frame_pend_ok] and (W)'s
         "new pages are good or kept" give it for one [spill_root]);
     (4) then: the reachable pages of the new tree are fresh or kept-and-not-freed, hence disjoint from
         [free s4], [pending s4] (which [begin_w] of the next transaction releases) and the new free-list run
         ([commit_meaning] already gives the last one against alloc ++ live). *)
Print Assumptions run_tx_meaning.
Print Assumptions run_tx_strict.
Print Assumptions run_tx_refines.
Print Assumptions run_txs_refines_init.
Print Assumptions run_tx_refines_stmt_holds.
Print Assumptions rebalance_OvlAbs.
Print Assumptions rebalance_SReady.
Print Assumptions init_db_ok.
Print Assumptions Ex3R.ex3_meaning.
Print Assumptions ExHistory.hist_refines.
