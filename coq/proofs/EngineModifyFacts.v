(* Tree-level point operations of the write-path model [Engine] refine the reference map.

   1. [PageView] / [NodeView] / [Views]: the logical content (entry list) of a disk page / an overlay node.
   2. [wf_page] / [wf_node]: the search invariant (sorted leaves, sorted separators, distinct child pages,
      every child's keys within its separator interval -- child 0 has NO lower bound).
   3. [lookup_page_view] / [lookup_node_view]: point lookup is [Spec.alookup] in the view.
   4. [modify_view] / [modify_total] / [modify_no_panic]: [modify] is [apply_lop] on the view, keeps the
      invariant, touches only [seqc], never panics, succeeds when the fuel covers the height.
   5. Buckets: [b_lookup_view], [b_modify_view], [b_put_spec], [b_delete_spec] and corollaries.
   6. Non-vacuity example.

   Everything is closed under the global context (see the [Print Assumptions] at the end). *)
From Coq Require Import List NArith Bool Arith Lia ZifyN ZifyNat ZifyBool.
From Coq.Strings Require Import Byte.
From Jamm Require Import Bytes Tree Spec Cursor SearchFacts Engine EngineFacts.
Import ListNotations.
Import Coq.Strings.String.StringSyntax. Delimit Scope string_scope with string.
Local Open Scope list_scope. Local Open Scope nat_scope.
Arguments N.add : simpl never. Arguments N.sub : simpl never. Arguments N.mul : simpl never.
Arguments N.div : simpl never. Arguments N.ltb : simpl never. Arguments N.leb : simpl never.
Arguments N.eqb : simpl never.

(* ====================================================================== *)
(** * 0. Lists *)

Lemma Forall2_nth_error_l : forall {A B} (R : A -> B -> Prop) xs ys j x,
  Forall2 R xs ys -> nth_error xs j = Some x -> exists y, nth_error ys j = Some y /\ R x y.
Proof.
  intros A B R xs ys j x HF. revert j. induction HF as [|x0 y0 xs ys HR HF IH]; intros j Hj.
  - destruct j; discriminate.
  - destruct j as [|j]; cbn [nth_error] in *.
    + inversion Hj; subst. eauto.
    + apply IH. exact Hj.
Qed.

Lemma Forall2_nth_error : forall {A B} (R : A -> B -> Prop) xs ys j x y,
  Forall2 R xs ys -> nth_error xs j = Some x -> nth_error ys j = Some y -> R x y.
Proof.
  intros A B R xs ys j x y HF Hx Hy.
  destruct (Forall2_nth_error_l R xs ys j x HF Hx) as (y' & Hy' & HR). congruence.
Qed.

Lemma Forall2_of_nth_error : forall {A B} (R : A -> B -> Prop) xs ys,
  length xs = length ys ->
  (forall j x y, nth_error xs j = Some x -> nth_error ys j = Some y -> R x y) -> Forall2 R xs ys.
Proof.
  intros A B R. induction xs as [|x xs IH]; intros [|y ys] Hl H; cbn [length] in Hl; try discriminate.
  - constructor.
  - constructor.
    + apply (H 0); reflexivity.
    + apply IH; [lia|]. intros j x' y' Hx Hy. apply (H (S j)); assumption.
Qed.

Lemma Forall2_impl : forall {A B} (R R' : A -> B -> Prop) xs ys,
  (forall x y, R x y -> R' x y) -> Forall2 R xs ys -> Forall2 R' xs ys.
Proof. intros A B R R' xs ys H HF. induction HF; constructor; auto. Qed.

Lemma Forall2_length : forall {A B} (R : A -> B -> Prop) xs ys, Forall2 R xs ys -> length xs = length ys.
Proof. intros A B R xs ys HF. induction HF; cbn [length]; congruence. Qed.

Lemma replace_at_length : forall {A} (l : list A) i x, length (replace_at l i x) = length l.
Proof.
  intros A. induction l as [|a l IH]; intros [|i] x; cbn [replace_at length]; auto.
Qed.

Lemma replace_at_nth_same : forall {A} (l : list A) i x, i < length l ->
  nth_error (replace_at l i x) i = Some x.
Proof.
  intros A. induction l as [|a l IH]; intros [|i] x Hi; cbn [length] in Hi; try lia;
    cbn [replace_at nth_error]; [reflexivity|]. apply IH. lia.
Qed.

Lemma replace_at_nth_other : forall {A} (l : list A) i j x, i <> j ->
  nth_error (replace_at l i x) j = nth_error l j.
Proof.
  intros A. induction l as [|a l IH]; intros [|i] [|j] x Hij; cbn [replace_at nth_error]; try reflexivity;
    try congruence. apply IH. congruence.
Qed.

Lemma replace_at_split : forall {A} (l : list A) i x y, nth_error l i = Some y ->
  l = firstn i l ++ y :: skipn (S i) l /\ replace_at l i x = firstn i l ++ x :: skipn (S i) l.
Proof.
  intros A. induction l as [|a l IH]; intros [|i] x y H; cbn [nth_error] in H; try discriminate.
  - inversion H; subst. split; reflexivity.
  - destruct (IH i x y H) as [H1 H2]. cbn [replace_at firstn skipn app]. split; f_equal; assumption.
Qed.

Lemma in_concat_nth : forall {A} (ls : list (list A)) x,
  In x (concat ls) -> exists j l, nth_error ls j = Some l /\ In x l.
Proof.
  intros A ls x H. apply in_concat in H. destruct H as (l & Hl & Hx).
  apply In_nth_error in Hl. destruct Hl as [j Hj]. eauto.
Qed.

Lemma nth_error_nth_map : forall {A} (f : A -> bytes) l j e,
  nth_error l j = Some e -> nth j (map f l) [] = f e.
Proof.
  intros A f l j e H. apply (map_nth_error f) in H. now apply nth_error_nth.
Qed.

Lemma NoDup_map_nth_error : forall {A B} (f : A -> B) l i j x y,
  NoDup (map f l) -> nth_error l i = Some x -> nth_error l j = Some y -> f x = f y -> i = j.
Proof.
  intros A B f l i j x y Hnd Hi Hj Hf.
  rewrite NoDup_nth_error in Hnd. apply Hnd.
  - rewrite map_length. apply nth_error_Some. congruence.
  - rewrite (map_nth_error f _ _ Hi), (map_nth_error f _ _ Hj). congruence.
Qed.

(* ====================================================================== *)
(** * 1. Views: the logical content of a page / an overlay node *)

(* [PageView d h p l]: the tree of disk pages rooted at [p] has height at most [h] and its leaf
   entries, left to right, are [l] *)
Inductive PageView (d : disk) : nat -> N -> list leafent -> Prop :=
| PV_leaf : forall h p a l,
    dget d p = Some a -> ap_body a = Leaves l -> PageView d (S h) p l
| PV_branch : forall h p a es ls,
    dget d p = Some a -> ap_body a = Branches es ->
    Forall2 (fun e l => PageView d h (snd e) l) es ls ->
    PageView d (S h) p (concat ls).

(* the child named by a branch entry: the materialised kid with that page id if there is one
   (the FIRST such, as [find_kid] finds it), else the disk page *)
Inductive NodeView (d : disk) : nat -> node -> list leafent -> Prop :=
| NV_leaf : forall h p np og sq l ks,
    NodeView d (S h) (Node p np og sq (Leaves l) ks) l
| NV_branch : forall h p np og sq es ks ls,
    Forall2 (fun e l => (exists kd, find_kid (snd e) ks = Some kd /\ NodeView d h kd l) \/
                        (find_kid (snd e) ks = None /\ PageView d h (snd e) l)) es ls ->
    NodeView d (S h) (Node p np og sq (Branches es) ks) (concat ls).

Definition PageViews (d : disk) (p : N) (l : list leafent) : Prop := exists h, PageView d h p l.
Definition Views (d : disk) (n : node) (l : list leafent) : Prop := exists h, NodeView d h n l.
(* the view of the child for page id [q] under the kid list [ks] *)
Definition ChildView (d : disk) (h : nat) (ks : list node) (q : N) (l : list leafent) : Prop :=
  match find_kid q ks with Some kd => NodeView d h kd l | None => PageView d h q l end.
Definition ChildViews (d : disk) (ks : list node) (q : N) (l : list leafent) : Prop :=
  exists h, ChildView d h ks q l.

(* ====================================================================== *)
(** * 2. Well-formedness *)

(* separators: at least one, strictly ascending; child page ids pairwise distinct *)
Definition seps_ok (es : list (bytes * N)) : Prop :=
  es <> [] /\ sorted_keys (map fst es) = true /\ NoDup (map snd es).

(* the keys of child [j] (content [l]) lie in its separator interval:
   >= sep_j unless j = 0 (child 0 has no lower bound), < sep_{j+1} unless j is the last child *)
Definition in_range (seps : list bytes) (j : nat) (l : list leafent) : Prop :=
  (1 <= j -> Forall (fun e => bcmp (nth j seps []) (lkey e) <> Gt) l) /\
  (S j < length seps -> Forall (fun e => bcmp (lkey e) (nth (S j) seps []) = Lt) l).

Inductive wf_page (d : disk) : N -> Prop :=
| wfp_leaf : forall p a l,
    dget d p = Some a -> ap_body a = Leaves l -> sorted_keys (map lkey l) = true -> wf_page d p
| wfp_branch : forall p a es,
    dget d p = Some a -> ap_body a = Branches es -> seps_ok es ->
    Forall (fun e => wf_page d (snd e)) es ->
    (forall j e l, nth_error es j = Some e -> PageViews d (snd e) l -> in_range (map fst es) j l) ->
    wf_page d p.

Inductive wf_node (d : disk) : node -> Prop :=
| wfn_leaf : forall p np og sq l ks,
    sorted_keys (map lkey l) = true -> wf_node d (Node p np og sq (Leaves l) ks)
| wfn_branch : forall p np og sq es ks,
    seps_ok es ->
    Forall (fun e => (exists kd, find_kid (snd e) ks = Some kd /\ wf_node d kd) \/
                     (find_kid (snd e) ks = None /\ wf_page d (snd e))) es ->
    (forall j e l, nth_error es j = Some e -> ChildViews d ks (snd e) l -> in_range (map fst es) j l) ->
    wf_node d (Node p np og sq (Branches es) ks).

(* the same, as functions of [find_kid] *)
Definition ChildWf (d : disk) (ks : list node) (q : N) : Prop :=
  match find_kid q ks with Some kd => wf_node d kd | None => wf_page d q end.

Lemma child_view_iff : forall d h ks q l,
  ((exists kd, find_kid q ks = Some kd /\ NodeView d h kd l) \/ (find_kid q ks = None /\ PageView d h q l))
  <-> ChildView d h ks q l.
Proof.
  intros d h ks q l. unfold ChildView. split.
  - intros [(kd & Hk & Hv) | (Hk & Hv)]; rewrite Hk; exact Hv.
  - destruct (find_kid q ks) as [kd|]; intros H; [left; eauto | right; auto].
Qed.

Lemma child_wf_iff : forall d ks q,
  ((exists kd, find_kid q ks = Some kd /\ wf_node d kd) \/ (find_kid q ks = None /\ wf_page d q))
  <-> ChildWf d ks q.
Proof.
  intros d ks q. unfold ChildWf. split.
  - intros [(kd & Hk & Hv) | (Hk & Hv)]; rewrite Hk; exact Hv.
  - destruct (find_kid q ks) as [kd|]; intros H; [left; eauto | right; auto].
Qed.

Lemma NodeView_branch_intro : forall d h p np og sq es ks ls,
  Forall2 (fun e l => ChildView d h ks (snd e) l) es ls ->
  NodeView d (S h) (Node p np og sq (Branches es) ks) (concat ls).
Proof.
  intros d h p np og sq es ks ls HF. apply NV_branch.
  eapply Forall2_impl; [|exact HF]. cbn beta. intros e l H. now apply child_view_iff.
Qed.

Lemma NodeView_branch_inv : forall d h p np og sq es ks l,
  NodeView d h (Node p np og sq (Branches es) ks) l ->
  exists h0 ls, h = S h0 /\ l = concat ls /\ Forall2 (fun e l => ChildView d h0 ks (snd e) l) es ls.
Proof.
  intros d h p np og sq es ks l H. inversion H as [|h0 ? ? ? ? ? ? ls HF]; subst.
  exists h0, ls. split; [reflexivity|]. split; [reflexivity|].
  eapply Forall2_impl; [|exact HF]. cbn beta. intros e l H1. now apply child_view_iff.
Qed.

Lemma NodeView_leaf_inv : forall d h p np og sq l0 ks l,
  NodeView d h (Node p np og sq (Leaves l0) ks) l -> l = l0 /\ exists h0, h = S h0.
Proof. intros d h p np og sq l0 ks l H. inversion H; subst. eauto. Qed.

Lemma wf_node_branch_intro : forall d p np og sq es ks,
  seps_ok es -> Forall (fun e => ChildWf d ks (snd e)) es ->
  (forall j e l, nth_error es j = Some e -> ChildViews d ks (snd e) l -> in_range (map fst es) j l) ->
  wf_node d (Node p np og sq (Branches es) ks).
Proof.
  intros d p np og sq es ks Hs HF Hr. apply wfn_branch; [exact Hs| |exact Hr].
  eapply Forall_impl; [|exact HF]. cbn beta. intros e H. now apply child_wf_iff.
Qed.

Lemma wf_node_branch_inv : forall d p np og sq es ks,
  wf_node d (Node p np og sq (Branches es) ks) ->
  seps_ok es /\ Forall (fun e => ChildWf d ks (snd e)) es /\
  (forall j e l, nth_error es j = Some e -> ChildViews d ks (snd e) l -> in_range (map fst es) j l).
Proof.
  intros d p np og sq es ks H. inversion H as [|? ? ? ? ? ? Hs HF Hr]; subst.
  split; [exact Hs|]. split; [|exact Hr].
  eapply Forall_impl; [|exact HF]. cbn beta. intros e H1. now apply child_wf_iff.
Qed.

(* ====================================================================== *)
(** * 3. Views are functional *)

Lemma Forall2_det : forall {A B} (R R' : A -> B -> Prop) xs ys ys',
  (forall x y y', R x y -> R' x y' -> y = y') ->
  Forall2 R xs ys -> Forall2 R' xs ys' -> ys = ys'.
Proof.
  intros A B R R' xs ys ys' Hd HF. revert ys'.
  induction HF as [|x y xs ys HR HF IH]; intros ys' HF'; inversion HF'; subst; [reflexivity|].
  f_equal; eauto.
Qed.

Lemma PageView_det : forall d h p l, PageView d h p l -> forall h' l', PageView d h' p l' -> l = l'.
Proof.
  intros d. induction h as [|h IH]; intros p l H h' l' H'; [inversion H|].
  inversion H as [? ? a l0 Hg Hb | ? ? a es ls Hg Hb HF]; subst;
    inversion H' as [? ? a' l0' Hg' Hb' | ? ? a' es' ls' Hg' Hb' HF']; subst;
    rewrite Hg in Hg'; inversion Hg'; subst a'; rewrite Hb in Hb'; inversion Hb'; subst; [reflexivity|].
  f_equal. eapply Forall2_det; [|exact HF|exact HF']. cbn beta. intros e y y' Hy Hy'. eapply IH; eauto.
Qed.

Lemma NodeView_det : forall d h n l, NodeView d h n l -> forall h' l', NodeView d h' n l' -> l = l'.
Proof.
  intros d. induction h as [|h IH]; intros n l H h' l' H'; [inversion H|].
  destruct n as [p np og sq [l0|es] ks].
  - apply NodeView_leaf_inv in H, H'. destruct H as [-> _], H' as [-> _]. reflexivity.
  - apply NodeView_branch_inv in H, H'.
    destruct H as (h0 & ls & E & -> & HF), H' as (h0' & ls' & -> & -> & HF'). inversion E; subst h0.
    f_equal. eapply Forall2_det; [|exact HF|exact HF']. cbn beta. unfold ChildView.
    intros e y y' Hy Hy'. destruct (find_kid (snd e) ks) as [kd|].
    + eapply IH; eauto.
    + eapply PageView_det; eauto.
Qed.

Lemma Views_det : forall d n l l', Views d n l -> Views d n l' -> l = l'.
Proof. intros d n l l' [h H] [h' H']. eapply NodeView_det; eauto. Qed.

Lemma ChildViews_det : forall d ks q l l', ChildViews d ks q l -> ChildViews d ks q l' -> l = l'.
Proof.
  intros d ks q l l' [h H] [h' H']. unfold ChildView in *. destruct (find_kid q ks).
  - eapply NodeView_det; eauto.
  - eapply PageView_det; eauto.
Qed.

(* the height index is an upper bound *)
Lemma PageView_mono : forall d h p l, PageView d h p l -> forall h', h <= h' -> PageView d h' p l.
Proof.
  intros d. induction h as [|h IH]; intros p l H h' Hle; [inversion H|].
  destruct h' as [|h']; [lia|].
  inversion H as [? ? a l0 Hg Hb | ? ? a es ls Hg Hb HF]; subst.
  - eapply PV_leaf; eauto.
  - eapply PV_branch; eauto. eapply Forall2_impl; [|exact HF]. cbn beta. intros e y Hy.
    apply (IH _ _ Hy). lia.
Qed.

Lemma NodeView_mono : forall d h n l, NodeView d h n l -> forall h', h <= h' -> NodeView d h' n l.
Proof.
  intros d. induction h as [|h IH]; intros n l H h' Hle; [inversion H|].
  destruct h' as [|h']; [lia|].
  destruct n as [p np og sq [l0|es] ks].
  - apply NodeView_leaf_inv in H. destruct H as [-> _]. apply NV_leaf.
  - apply NodeView_branch_inv in H. destruct H as (h0 & ls & E & -> & HF). inversion E; subst h0.
    apply NodeView_branch_intro. eapply Forall2_impl; [|exact HF]. cbn beta. unfold ChildView.
    intros e y Hy. destruct (find_kid (snd e) ks).
    + apply (IH _ _ Hy). lia.
    + apply (PageView_mono _ _ _ _ Hy). lia.
Qed.

(* a page read into memory has the page's view and is well formed when the page is *)
Lemma find_kid_nil : forall q, find_kid q [] = None.
Proof. reflexivity. Qed.

Lemma node_of_page_view : forall d h q a sq l,
  dget d q = Some a -> PageView d h q l -> NodeView d h (node_of_page q a sq) l.
Proof.
  intros d h q a sq l Hg H. unfold node_of_page.
  inversion H as [? ? a' l0 Hg' Hb | ? ? a' es ls Hg' Hb HF]; subst;
    rewrite Hg in Hg'; inversion Hg'; subst a'; rewrite Hb.
  - apply NV_leaf.
  - apply NodeView_branch_intro. eapply Forall2_impl; [|exact HF]. cbn beta. intros e l H1. exact H1.
Qed.

Lemma node_of_page_wf : forall d q a sq,
  dget d q = Some a -> wf_page d q -> wf_node d (node_of_page q a sq).
Proof.
  intros d q a sq Hg H. unfold node_of_page.
  inversion H as [? a' l0 Hg' Hb Hs | ? a' es Hg' Hb Hs HF Hr]; subst;
    rewrite Hg in Hg'; inversion Hg'; subst a'; rewrite Hb.
  - now apply wfn_leaf.
  - apply wf_node_branch_intro; [exact Hs| |].
    + eapply Forall_impl; [|exact HF]. cbn beta. intros e H1. exact H1.
    + intros j e l Hj [h Hv]. eapply Hr; [exact Hj|]. exists h. exact Hv.
Qed.

(* ====================================================================== *)
(** * 4. Child selection *)

(* what [index_of] picks in a branch: the last separator <= k, or child 0 when k is below all *)
Lemma index_of_branch : forall es k i ex, seps_ok es -> index_of (Branches es) k = (i, ex) ->
  N.to_nat i < length es /\
  (forall j', 1 <= j' -> j' <= N.to_nat i -> bcmp (nth j' (map fst es) []) k <> Gt) /\
  (forall j', N.to_nat i < j' -> j' < length es -> bcmp (nth j' (map fst es) []) k = Gt).
Proof.
  intros es k i ex (Hne & Hs & _) H. unfold index_of in H. cbn [dkeys] in H.
  assert (Hlen : 0 < length es) by (destruct es; [congruence | cbn [length]; lia]).
  destruct (Engine.bsearch (map fst es) k) as [[|] i0] eqn:Eb; inversion H; subst; clear H.
  - pose proof (ebsearch_found _ _ _ Hs Eb) as Hn.
    assert (Hi : N.to_nat i < length (map fst es)) by (apply nth_error_Some; congruence).
    assert (Hk : nth (N.to_nat i) (map fst es) [] = k) by exact (nth_error_nth _ _ _ Hn).
    rewrite map_length in Hi.
    split; [exact Hi|]. split.
    + intros j' _ Hj'. destruct (Nat.eq_dec j' (N.to_nat i)) as [->|Hne'].
      * rewrite Hk, SearchFacts.bcmp_refl. discriminate.
      * pose proof (sorted_keys_nth _ Hs j' (N.to_nat i)) as Hlt. rewrite map_length in Hlt.
        rewrite Hk in Hlt. rewrite Hlt by lia. discriminate.
    + intros j' Hj1 Hj2. pose proof (sorted_keys_nth _ Hs (N.to_nat i) j') as Hlt.
      rewrite map_length, Hk in Hlt. apply SearchFacts.bcmp_lt_gt. apply Hlt. lia.
  - destruct (ebsearch_missing _ _ _ Hs Eb) as (Hi & Hlt & Hgt). rewrite map_length in Hi, Hgt.
    rewrite N2Nat.inj_pred. split; [lia|]. split.
    + intros j' Hj1 Hj2. rewrite Hlt by lia. discriminate.
    + intros j' Hj1 Hj2. apply Hgt. lia.
Qed.

Lemma in_concat_firstn : forall {A} (ls : list (list A)) j x, In x (concat (firstn j ls)) ->
  exists j' l, j' < j /\ nth_error ls j' = Some l /\ In x l.
Proof.
  intros A. induction ls as [|l0 ls IH]; intros [|j] x H; cbn [firstn concat] in H; try contradiction.
  apply in_app_or in H. destruct H as [H|H].
  - exists 0, l0. split; [lia|]. split; [reflexivity | exact H].
  - destruct (IH j x H) as (j' & l & Hj & Hn & Hx). exists (S j'), l. split; [lia|]. split; assumption.
Qed.

Lemma in_concat_skipn : forall {A} (ls : list (list A)) j x, In x (concat (skipn j ls)) ->
  exists j' l, j <= j' /\ nth_error ls j' = Some l /\ In x l.
Proof.
  intros A. induction ls as [|l0 ls IH]; intros j x H.
  - destruct j; cbn in H; contradiction.
  - destruct j as [|j].
    + cbn [skipn] in H. destruct (in_concat_nth _ _ H) as (j' & l & Hn & Hx).
      exists j', l. split; [lia|]. split; assumption.
    + cbn [skipn] in H. destruct (IH j x H) as (j' & l & Hj & Hn & Hx).
      exists (S j'), l. split; [lia|]. split; assumption.
Qed.

Definition all_lt (k : bytes) (l : list leafent) : Prop := Forall (fun e => bcmp (lkey e) k = Lt) l.
Definition all_gt (k : bytes) (l : list leafent) : Prop := Forall (fun e => bcmp k (lkey e) = Lt) l.

(* the children left of the selected one hold only keys < k, those right of it only keys > k *)
Lemma branch_sides : forall seps (ls : list (list leafent)) k j,
  sorted_keys seps = true -> length ls = length seps ->
  (forall j' l, nth_error ls j' = Some l -> in_range seps j' l) ->
  j < length seps ->
  (forall j', 1 <= j' -> j' <= j -> bcmp (nth j' seps []) k <> Gt) ->
  (forall j', j < j' -> j' < length seps -> bcmp (nth j' seps []) k = Gt) ->
  all_lt k (concat (firstn j ls)) /\ all_gt k (concat (skipn (S j) ls)).
Proof.
  intros seps ls k j Hs Hlen Hr Hj Hlo Hhi. split; apply Forall_forall; intros x Hx.
  - destruct (in_concat_firstn _ _ _ Hx) as (j' & l & Hj' & Hn & Hin).
    destruct (Hr j' l Hn) as [_ Hup]. specialize (Hup ltac:(lia)).
    rewrite Forall_forall in Hup. specialize (Hup x Hin).
    eapply bcmp_lt_le_trans; [exact Hup|]. apply Hlo; lia.
  - destruct (in_concat_skipn _ _ _ Hx) as (j' & l & Hj' & Hn & Hin).
    assert (Hj'' : j' < length seps).
    { rewrite <- Hlen. apply nth_error_Some. congruence. }
    destruct (Hr j' l Hn) as [Hdn _]. specialize (Hdn ltac:(lia)).
    rewrite Forall_forall in Hdn. specialize (Hdn x Hin).
    specialize (Hhi j' ltac:(lia) Hj''). apply SearchFacts.bcmp_lt_gt in Hhi.
    eapply bcmp_lt_le_trans; eauto.
Qed.

(* ====================================================================== *)
(** * 5. The reference operations on a concatenation *)

Section AssocApp.
  Context {A : Type}.
  Implicit Types (a b : list (bytes * A)) (k : bytes) (v : A).
  Definition klt k a : Prop := Forall (fun x => bcmp x k = Lt) (map fst a).
  Definition kgt k a : Prop := Forall (fun x => bcmp k x = Lt) (map fst a).

  Lemma alookup_app_l : forall a b k, klt k a -> Spec.alookup k (a ++ b) = Spec.alookup k b.
  Proof.
    induction a as [|[k0 v0] a IH]; intros b k H; [reflexivity|].
    inversion H as [|? ? H0 H1]; subst. cbn [app Spec.alookup].
    rewrite (bcmp_lt_gt' _ _ H0). now apply IH.
  Qed.
  Lemma alookup_app_r : forall a b k, kgt k b -> Spec.alookup k (a ++ b) = Spec.alookup k a.
  Proof.
    induction a as [|[k0 v0] a IH]; intros b k H.
    - cbn [app]. now apply alookup_below.
    - cbn [app Spec.alookup]. destruct (bcmp k k0); auto.
  Qed.
  Lemma ainsert_app_l : forall a b k v, klt k a -> Spec.ainsert k v (a ++ b) = a ++ Spec.ainsert k v b.
  Proof.
    induction a as [|[k0 v0] a IH]; intros b k v H; [reflexivity|].
    inversion H as [|? ? H0 H1]; subst. cbn [app Spec.ainsert].
    rewrite (bcmp_lt_gt' _ _ H0). f_equal. now apply IH.
  Qed.
  Lemma ainsert_app_r : forall a b k v, kgt k b -> Spec.ainsert k v (a ++ b) = Spec.ainsert k v a ++ b.
  Proof.
    induction a as [|[k0 v0] a IH]; intros b k v H.
    - cbn [app Spec.ainsert]. destruct b as [|[k1 v1] b]; [reflexivity|].
      inversion H as [|? ? H0 H1]; subst. cbn [Spec.ainsert]. cbn [fst] in H0. now rewrite H0.
    - cbn [app Spec.ainsert]. destruct (bcmp k k0); cbn [app]; try reflexivity. f_equal. now apply IH.
  Qed.
  Lemma aremove_app_l : forall a b k, klt k a -> Spec.aremove k (a ++ b) = a ++ Spec.aremove k b.
  Proof.
    induction a as [|[k0 v0] a IH]; intros b k H; [reflexivity|].
    inversion H as [|? ? H0 H1]; subst. cbn [app Spec.aremove].
    rewrite (bcmp_lt_gt' _ _ H0). f_equal. now apply IH.
  Qed.
  Lemma aremove_app_r : forall a b k, kgt k b -> Spec.aremove k (a ++ b) = Spec.aremove k a ++ b.
  Proof.
    induction a as [|[k0 v0] a IH]; intros b k H.
    - cbn [app Spec.aremove]. destruct b as [|[k1 v1] b]; [reflexivity|].
      inversion H as [|? ? H0 H1]; subst. cbn [Spec.aremove]. cbn [fst] in H0. now rewrite H0.
    - cbn [app Spec.aremove]. destruct (bcmp k k0); cbn [app]; try reflexivity. f_equal. now apply IH.
  Qed.
End AssocApp.

(* the reference reading of a leaf operation *)
Definition aop (o : lop) (m : list (bytes * leafent)) : list (bytes * leafent) :=
  match o with OpIns e => Spec.ainsert (lkey e) e m | OpDel k => Spec.aremove k m end.

Lemma assoc_inj : forall l l', assoc l = assoc l' -> l = l'.
Proof.
  intros l l' H. apply (f_equal (map snd)) in H. unfold assoc in H.
  rewrite !map_map in H. cbn [kv_of snd] in H. now rewrite !map_id in H.
Qed.

Lemma assoc_app : forall l l', assoc (l ++ l') = assoc l ++ assoc l'.
Proof. intros. apply map_app. Qed.

Theorem apply_lop_assoc : forall o l, sorted_keys (map lkey l) = true ->
  assoc (apply_lop o l) = aop o (assoc l).
Proof.
  intros [e|k] l Hs; cbn [apply_lop aop]; [now apply leaf_insert_assoc | now apply leaf_delete_assoc].
Qed.

Theorem apply_lop_sorted : forall o l, sorted_keys (map lkey l) = true ->
  sorted_keys (map lkey (apply_lop o l)) = true.
Proof.
  intros [e|k] l Hs; cbn [apply_lop]; [now apply leaf_insert_sorted | now apply leaf_delete_sorted].
Qed.

Lemma all_lt_klt : forall k l, all_lt k l -> klt k (assoc l).
Proof. intros k l H. unfold klt. rewrite assoc_keys. now apply Forall_map. Qed.
Lemma all_gt_kgt : forall k l, all_gt k l -> kgt k (assoc l).
Proof. intros k l H. unfold kgt. rewrite assoc_keys. now apply Forall_map. Qed.

Lemma aop_app : forall o a m b, all_lt (lop_key o) a -> all_gt (lop_key o) b ->
  aop o (assoc a ++ assoc m ++ assoc b) = assoc a ++ aop o (assoc m) ++ assoc b.
Proof.
  intros [e|k] a m b Ha Hb; cbn [aop lop_key] in *; apply all_lt_klt in Ha; apply all_gt_kgt in Hb.
  - rewrite ainsert_app_l by exact Ha. now rewrite ainsert_app_r by exact Hb.
  - rewrite aremove_app_l by exact Ha. now rewrite aremove_app_r by exact Hb.
Qed.

(* the leaf operation on a sorted concatenation acts on the selected piece only *)
Theorem apply_lop_app : forall o a m b,
  sorted_keys (map lkey (a ++ m ++ b)) = true ->
  all_lt (lop_key o) a -> all_gt (lop_key o) b ->
  apply_lop o (a ++ m ++ b) = a ++ apply_lop o m ++ b.
Proof.
  intros o a m b Hs Ha Hb. apply assoc_inj.
  assert (Hm : sorted_keys (map lkey m) = true).
  { rewrite !map_app in Hs. apply sorted_keys_app in Hs. destruct Hs as [_ Hs].
    apply sorted_keys_app in Hs. tauto. }
  rewrite apply_lop_assoc by exact Hs. rewrite !assoc_app. rewrite aop_app by assumption.
  now rewrite apply_lop_assoc by exact Hm.
Qed.

Theorem alookup_app_mid : forall k a m b, all_lt k a -> all_gt k b ->
  Spec.alookup k (assoc (a ++ m ++ b)) = Spec.alookup k (assoc m).
Proof.
  intros k a m b Ha Hb. rewrite !assoc_app.
  rewrite alookup_app_l by now apply all_lt_klt. now rewrite alookup_app_r by now apply all_gt_kgt.
Qed.

(* what the leaf operation can add *)
Lemma insert_at_In : forall {A} (l : list A) i x y, In y (insert_at l i x) -> y = x \/ In y l.
Proof.
  intros A. induction l as [|a l IH]; intros [|i] x y H; cbn [insert_at] in H.
  - destruct H as [<-|[]]; auto.
  - destruct H as [<-|[]]; auto.
  - destruct H as [<-|H]; auto.
  - destruct H as [<-|H]; [right; now left|]. destruct (IH i x y H); [auto | right; now right].
Qed.
Lemma replace_at_In : forall {A} (l : list A) i x y, In y (replace_at l i x) -> y = x \/ In y l.
Proof.
  intros A. induction l as [|a l IH]; intros [|i] x y H; cbn [replace_at] in H; try contradiction.
  - destruct H as [<-|H]; [auto | right; now right].
  - destruct H as [<-|H]; [right; now left|]. destruct (IH i x y H); [auto | right; now right].
Qed.
Lemma remove_at_In : forall {A} (l : list A) i y, In y (remove_at l i) -> In y l.
Proof.
  intros A. induction l as [|a l IH]; intros [|i] y H; cbn [remove_at] in H; try contradiction.
  - now right.
  - destruct H as [<-|H]; [now left | right; eauto].
Qed.

Lemma apply_lop_In : forall o l y, In y (apply_lop o l) -> In y l \/ lkey y = lop_key o.
Proof.
  intros [e|k] l y H; cbn [apply_lop lop_key] in *.
  - unfold leaf_insert in H. destruct (Engine.bsearch (map lkey l) (lkey e)) as [[|] i].
    + apply replace_at_In in H. destruct H as [->|H]; auto.
    + apply insert_at_In in H. destruct H as [->|H]; auto.
  - unfold leaf_delete in H. destruct (Engine.bsearch (map lkey l) k) as [[|] i]; auto.
    apply remove_at_In in H. auto.
Qed.

(* the modified child stays within its separator interval *)
Lemma apply_lop_in_range : forall seps j o l,
  in_range seps j l ->
  (1 <= j -> bcmp (nth j seps []) (lop_key o) <> Gt) ->
  (S j < length seps -> bcmp (nth (S j) seps []) (lop_key o) = Gt) ->
  in_range seps j (apply_lop o l).
Proof.
  intros seps j o l [Hdn Hup] Hlo Hhi. split; intros Hj; apply Forall_forall; intros y Hy;
    apply apply_lop_In in Hy; destruct Hy as [Hy|Hy].
  - specialize (Hdn Hj). rewrite Forall_forall in Hdn. now apply Hdn.
  - rewrite Hy. now apply Hlo.
  - specialize (Hup Hj). rewrite Forall_forall in Hup. now apply Hup.
  - rewrite Hy. apply SearchFacts.bcmp_lt_gt. now apply Hhi.
Qed.

(* ====================================================================== *)
(** * 6. A well-formed view is sorted; selection in a branch *)

Lemma Forall2_nth_error_r : forall {A B} (R : A -> B -> Prop) xs ys j y,
  Forall2 R xs ys -> nth_error ys j = Some y -> exists x, nth_error xs j = Some x /\ R x y.
Proof.
  intros A B R xs ys j y HF. revert j. induction HF as [|x0 y0 xs ys HR HF IH]; intros j Hj.
  - destruct j; discriminate.
  - destruct j as [|j]; cbn [nth_error] in *.
    + inversion Hj; subst. eauto.
    + apply IH. exact Hj.
Qed.

Lemma concat_split : forall {A} (ls : list (list A)) j lj x, nth_error ls j = Some lj ->
  concat ls = concat (firstn j ls) ++ lj ++ concat (skipn (S j) ls) /\
  concat (replace_at ls j x) = concat (firstn j ls) ++ x ++ concat (skipn (S j) ls).
Proof.
  intros A. induction ls as [|l0 ls IH]; intros [|j] lj x H; cbn [nth_error] in H; try discriminate.
  - inversion H; subst. split; reflexivity.
  - destruct (IH j lj x H) as [H1 H2]. cbn [replace_at firstn skipn concat].
    rewrite <- !app_assoc. split; f_equal; assumption.
Qed.

Lemma sorted_concat : forall (ls : list (list leafent)),
  (forall j l, nth_error ls j = Some l -> sorted_keys (map lkey l) = true) ->
  (forall j1 j2 l1 l2, j1 < j2 -> nth_error ls j1 = Some l1 -> nth_error ls j2 = Some l2 ->
     keys_below lkey l1 l2) ->
  sorted_keys (map lkey (concat ls)) = true.
Proof.
  induction ls as [|l0 ls IH]; intros Hs Hb; [reflexivity|]. cbn [concat].
  apply sorted_app_below.
  - apply (Hs 0). reflexivity.
  - apply IH.
    + intros j l Hj. apply (Hs (S j)). exact Hj.
    + intros j1 j2 l1 l2 Hlt H1 H2. apply (Hb (S j1) (S j2)); [lia | exact H1 | exact H2].
  - intros a b Ha Hin. destruct (in_concat_nth _ _ Hin) as (j & l & Hj & Hl).
    apply (Hb 0 (S j) l0 l); [lia | reflexivity | exact Hj | exact Ha | exact Hl].
Qed.

Lemma branch_sorted : forall seps (ls : list (list leafent)),
  sorted_keys seps = true -> length ls = length seps ->
  (forall j l, nth_error ls j = Some l -> in_range seps j l /\ sorted_keys (map lkey l) = true) ->
  sorted_keys (map lkey (concat ls)) = true.
Proof.
  intros seps ls Hs Hlen H. apply sorted_concat.
  - intros j l Hj. now apply (H j l).
  - intros j1 j2 l1 l2 Hlt H1 H2 a b Ha Hb.
    assert (Hj2 : j2 < length seps) by (rewrite <- Hlen; apply nth_error_Some; congruence).
    destruct (H _ _ H1) as [[_ Hup] _]. destruct (H _ _ H2) as [[Hdn _] _].
    specialize (Hup ltac:(lia)). specialize (Hdn ltac:(lia)). rewrite Forall_forall in Hup, Hdn.
    specialize (Hup a Ha). specialize (Hdn b Hb).
    eapply bcmp_lt_le_trans; [|exact Hdn].
    destruct (Nat.eq_dec (S j1) j2) as [<-|Hne]; [exact Hup|].
    eapply SearchFacts.bcmp_lt_trans; [exact Hup|]. apply sorted_keys_nth; [exact Hs | lia].
Qed.

(* everything [index_of] tells us about a branch whose children are in range *)
Lemma branch_select : forall es (ls : list (list leafent)) k i ex,
  seps_ok es -> length ls = length es ->
  (forall j l, nth_error ls j = Some l -> in_range (map fst es) j l) ->
  index_of (Branches es) k = (i, ex) ->
  exists e lj,
    nth_error es (N.to_nat i) = Some e /\ nth_error ls (N.to_nat i) = Some lj /\
    all_lt k (concat (firstn (N.to_nat i) ls)) /\ all_gt k (concat (skipn (S (N.to_nat i)) ls)) /\
    (1 <= N.to_nat i -> bcmp (nth (N.to_nat i) (map fst es) []) k <> Gt) /\
    (S (N.to_nat i) < length (map fst es) -> bcmp (nth (S (N.to_nat i)) (map fst es) []) k = Gt).
Proof.
  intros es ls k i ex Hok Hlen Hr Hi.
  destruct (index_of_branch es k i ex Hok Hi) as (Hj & Hlo & Hhi).
  destruct Hok as (_ & Hs & _).
  destruct (nth_error es (N.to_nat i)) as [e|] eqn:He; [|apply nth_error_None in He; lia].
  destruct (nth_error ls (N.to_nat i)) as [lj|] eqn:Hl; [|apply nth_error_None in Hl; lia].
  exists e, lj. split; [reflexivity|]. split; [reflexivity|].
  assert (Hhi' : forall j', N.to_nat i < j' -> j' < length (map fst es) ->
                 bcmp (nth j' (map fst es) []) k = Gt).
  { intros j' Hj1 Hj2. apply Hhi; [exact Hj1|]. now rewrite map_length in Hj2. }
  assert (Hlen' : length ls = length (map fst es)) by now rewrite map_length.
  assert (Hj' : N.to_nat i < length (map fst es)) by now rewrite map_length.
  destruct (branch_sides (map fst es) ls k (N.to_nat i) Hs Hlen' Hr Hj' Hlo Hhi') as [Ha Hb].
  split; [exact Ha|]. split; [exact Hb|]. split.
  - intros H1. apply Hlo; lia.
  - intros H1. apply Hhi; [lia|]. now rewrite map_length in H1.
Qed.

Lemma PageView_dget : forall d h p l, PageView d h p l -> exists a, dget d p = Some a.
Proof. intros d h p l H. inversion H; eauto. Qed.

Lemma find_kid_page : forall q ks kd, find_kid q ks = Some kd -> n_page kd = q.
Proof.
  intros q ks kd H. unfold find_kid in H. apply find_some in H. destruct H as [_ H]. lia.
Qed.

(* every child, materialised or not, can be looked at as a node *)
Lemma child_as_node : forall d h ks q l sq, ChildWf d ks q -> ChildView d h ks q l ->
  exists kd, wf_node d kd /\ NodeView d h kd l /\ n_page kd = q /\
    match find_kid q ks with Some kd0 => kd = kd0 | None => exists a, dget d q = Some a /\ kd = node_of_page q a sq end.
Proof.
  intros d h ks q l sq Hw Hv. unfold ChildWf, ChildView in *.
  destruct (find_kid q ks) as [kd|] eqn:Hk.
  - exists kd. split; [exact Hw|]. split; [exact Hv|]. split; [eapply find_kid_page; eauto | reflexivity].
  - destruct (PageView_dget _ _ _ _ Hv) as [a Ha]. exists (node_of_page q a sq).
    split; [now apply node_of_page_wf|]. split; [now apply node_of_page_view|]. split; [reflexivity|eauto].
Qed.

Theorem wf_node_sorted : forall d h n l, wf_node d n -> NodeView d h n l ->
  sorted_keys (map lkey l) = true.
Proof.
  intros d. induction h as [|h IH]; intros n l Hw Hv; [inversion Hv|].
  destruct n as [p np og sq [l0|es] ks].
  - apply NodeView_leaf_inv in Hv. destruct Hv as [-> _]. now inversion Hw.
  - apply NodeView_branch_inv in Hv. destruct Hv as (h0 & ls & E & -> & HF). inversion E; subst h0.
    apply wf_node_branch_inv in Hw. destruct Hw as (Hok & Hch & Hr).
    apply (branch_sorted (map fst es)).
    + apply Hok.
    + rewrite map_length. symmetry. eapply Forall2_length; eauto.
    + intros j l Hj. destruct (Forall2_nth_error_r _ _ _ _ _ HF Hj) as (e & He & Hc). split.
      * eapply Hr; [exact He|]. exists h. exact Hc.
      * rewrite Forall_forall in Hch. specialize (Hch e (nth_error_In _ _ He)).
        destruct (child_as_node d h ks (snd e) l 0%N Hch Hc) as (kd & Hkw & Hkv & _).
        eapply IH; eauto.
Qed.

Theorem wf_page_sorted : forall d h p l, wf_page d p -> PageView d h p l ->
  sorted_keys (map lkey l) = true.
Proof.
  intros d h p l Hw Hv. destruct (PageView_dget _ _ _ _ Hv) as [a Ha].
  apply (wf_node_sorted d h (node_of_page p a 0%N)); [now apply node_of_page_wf | now apply node_of_page_view].
Qed.

(* ====================================================================== *)
(** * 7. Point lookup *)

Lemma alookup_notin : forall {A} (m : list (bytes * A)) k, ~ In k (map fst m) -> Spec.alookup k m = None.
Proof.
  intros A. induction m as [|[k0 v0] m IH]; intros k H; [reflexivity|]. cbn [Spec.alookup].
  destruct (bcmp k k0) eqn:E; [|reflexivity|].
  - exfalso. apply H. left. symmetry. now apply bcmp_eq.
  - apply IH. intros Hin. apply H. now right.
Qed.

Lemma alookup_nth : forall l i e, sorted_keys (map lkey l) = true -> nth_error l i = Some e ->
  Spec.alookup (lkey e) (assoc l) = Some e.
Proof.
  induction l as [|a l IH]; intros i e Hs Hn; [destruct i; discriminate|].
  destruct i as [|i]; cbn [nth_error] in Hn.
  - inversion Hn; subst. cbn [assoc map kv_of Spec.alookup]. now rewrite SearchFacts.bcmp_refl.
  - pose proof (nth_error_keys_lt lkey l i e a Hs Hn) as Hlt.
    change (assoc (a :: l)) with ((lkey a, a) :: assoc l). cbn [Spec.alookup].
    rewrite (bcmp_lt_gt' _ _ Hlt). eapply IH; eauto. cbn [map] in Hs. eapply sorted_keys_tl; eauto.
Qed.

Lemma leaf_lookup_alookup : forall l k i ex, sorted_keys (map lkey l) = true ->
  index_of (Leaves l) k = (i, ex) -> (if ex then nthN l i else None) = Spec.alookup k (assoc l).
Proof.
  intros l k i ex Hs H. unfold index_of in H. cbn [dkeys] in H.
  destruct (Engine.bsearch (map lkey l) k) as [[|] i0] eqn:Eb; inversion H; subst; clear H.
  - destruct (ebsearch_found_ent l k i Hs Eb) as (e0 & Hn & Hk). unfold nthN. rewrite Hn.
    subst k. symmetry. eapply alookup_nth; eauto.
  - symmetry. apply alookup_notin. rewrite assoc_keys. eapply ebsearch_missing_notin; eauto.
Qed.

Lemma PageView_inv : forall d h p l, PageView d h p l ->
  exists h0 a, h = S h0 /\ dget d p = Some a /\
    match ap_body a with
    | Leaves l0 => l = l0
    | Branches es => exists ls, l = concat ls /\ Forall2 (fun e l => PageView d h0 (snd e) l) es ls
    end.
Proof.
  intros d h p l H. inversion H as [h0 ? a l0 Hg Hb | h0 ? a es ls Hg Hb HF]; subst;
    exists h0, a; rewrite Hb; eauto.
Qed.

Lemma wf_page_inv : forall d p, wf_page d p ->
  exists a, dget d p = Some a /\
    match ap_body a with
    | Leaves l => sorted_keys (map lkey l) = true
    | Branches es => seps_ok es /\ Forall (fun e => wf_page d (snd e)) es /\
        (forall j e l, nth_error es j = Some e -> PageViews d (snd e) l -> in_range (map fst es) j l)
    end.
Proof.
  intros d p H. inversion H as [? a l Hg Hb Hs | ? a es Hg Hb Hs HF Hr]; subst;
    exists a; rewrite Hb; auto.
Qed.

Theorem lookup_page_view_h : forall d k h p l fuel, wf_page d p -> PageView d h p l -> h <= fuel ->
  lookup_page fuel d p k = Ok (Spec.alookup k (assoc l)).
Proof.
  intros d k. induction h as [|h IH]; intros p l fuel Hw Hv Hf; [inversion Hv|].
  destruct fuel as [|fuel]; [lia|]. cbn [lookup_page].
  apply PageView_inv in Hv. destruct Hv as (h0 & a & E & Hg & Hv). inversion E; subst h0.
  apply wf_page_inv in Hw. destruct Hw as (a' & Hg' & Hw). rewrite Hg in Hg'. inversion Hg'; subst a'.
  rewrite Hg. destruct (ap_body a) as [l0|es].
  - subst l. destruct (index_of (Leaves l0) k) as [i ex] eqn:Ei. f_equal. now apply leaf_lookup_alookup.
  - destruct Hv as (ls & -> & HF). destruct Hw as (Hok & Hch & Hr).
    destruct (index_of (Branches es) k) as [i ex] eqn:Ei.
    assert (Hlen : length ls = length es) by (symmetry; eapply Forall2_length; eauto).
    destruct (branch_select es ls k i ex Hok Hlen) as (e & lj & He & Hl & Ha & Hb2 & _); [|exact Ei|].
    { intros j l Hj. destruct (Forall2_nth_error_r _ _ _ _ _ HF Hj) as (e & He & Hc).
      eapply Hr; [exact He|]. exists h. exact Hc. }
    unfold nthN. rewrite He. destruct e as [sep q].
    pose proof (Forall2_nth_error _ _ _ _ _ _ HF He Hl) as Hc. cbn [snd] in Hc.
    rewrite Forall_forall in Hch. specialize (Hch _ (nth_error_In _ _ He)). cbn [snd] in Hch.
    rewrite (IH q lj fuel Hch Hc ltac:(lia)). f_equal.
    rewrite (proj1 (concat_split ls _ lj [] Hl)). symmetry. now apply alookup_app_mid.
Qed.

Lemma lookup_node_branch : forall fuel d p np og sq es ks k,
  lookup_node fuel d (Node p np og sq (Branches es) ks) k =
  let '(i, _) := index_of (Branches es) k in
  match nthN es i with
  | None => Ok None
  | Some (_, q) => match find_kid q ks with
                   | Some kd => lookup_node fuel d kd k
                   | None => lookup_page fuel d q k end
  end.
Proof.
  intros fuel d p np og sq es ks k. cbn [lookup_node].
  destruct (index_of (Branches es) k) as [i ex]. destruct (nthN es i) as [[sep q]|]; [|reflexivity].
  unfold find_kid. induction ks as [|kd ks IH]; [reflexivity|]. cbn [find].
  destruct (N.eqb (n_page kd) q); [reflexivity | exact IH].
Qed.

Theorem lookup_node_view_h : forall d k h n l fuel, wf_node d n -> NodeView d h n l -> h <= fuel ->
  lookup_node fuel d n k = Ok (Spec.alookup k (assoc l)).
Proof.
  intros d k. induction h as [|h IH]; intros n l fuel Hw Hv Hf; [inversion Hv|].
  destruct n as [p np og sq [l0|es] ks].
  - apply NodeView_leaf_inv in Hv. destruct Hv as [-> _]. inversion Hw; subst. cbn [lookup_node].
    destruct (index_of (Leaves l0) k) as [i ex] eqn:Ei. f_equal. now apply leaf_lookup_alookup.
  - apply NodeView_branch_inv in Hv. destruct Hv as (h0 & ls & E & -> & HF). inversion E; subst h0.
    apply wf_node_branch_inv in Hw. destruct Hw as (Hok & Hch & Hr).
    rewrite lookup_node_branch. destruct (index_of (Branches es) k) as [i ex] eqn:Ei.
    assert (Hlen : length ls = length es) by (symmetry; eapply Forall2_length; eauto).
    destruct (branch_select es ls k i ex Hok Hlen) as (e & lj & He & Hl & Ha & Hb2 & _); [|exact Ei|].
    { intros j l Hj. destruct (Forall2_nth_error_r _ _ _ _ _ HF Hj) as (e & He & Hc).
      eapply Hr; [exact He|]. exists h. exact Hc. }
    unfold nthN. rewrite He. destruct e as [sep q].
    pose proof (Forall2_nth_error _ _ _ _ _ _ HF He Hl) as Hc. cbn [snd] in Hc.
    rewrite Forall_forall in Hch. specialize (Hch _ (nth_error_In _ _ He)). cbn [snd] in Hch.
    rewrite (proj1 (concat_split ls _ lj [] Hl)). rewrite alookup_app_mid by assumption.
    unfold ChildWf, ChildView in *. destruct (find_kid q ks) as [kd|].
    + apply IH; [exact Hch | exact Hc | lia].
    + apply (lookup_page_view_h d k h); [exact Hch | exact Hc | lia].
Qed.

Theorem lookup_page_view : forall d p l k, wf_page d p -> PageViews d p l ->
  exists h, forall fuel, h <= fuel -> lookup_page fuel d p k = Ok (Spec.alookup k (assoc l)).
Proof. intros d p l k Hw [h Hv]. exists h. intros fuel Hf. eapply lookup_page_view_h; eauto. Qed.

Theorem lookup_node_view : forall d n l k, wf_node d n -> Views d n l ->
  exists h, forall fuel, h <= fuel -> lookup_node fuel d n k = Ok (Spec.alookup k (assoc l)).
Proof. intros d n l k Hw [h Hv]. exists h. intros fuel Hf. eapply lookup_node_view_h; eauto. Qed.

(* ====================================================================== *)
(** * 8. [modify] *)

(* the transaction state changes in [seqc] only (and [seqc] only grows) *)
Definition same_but_seqc (s s' : txs) : Prop :=
  free s' = free s /\ pending s' = pending s /\ txid s' = txid s /\ np s' = np s /\ psz s' = psz s /\
  wr s' = wr s /\ flw s' = flw s /\ (seqc s <= seqc s')%N.

Lemma same_but_seqc_refl : forall s, same_but_seqc s s.
Proof. intros s. unfold same_but_seqc. repeat split; lia. Qed.
Lemma same_but_seqc_trans : forall s1 s2 s3, same_but_seqc s1 s2 -> same_but_seqc s2 s3 -> same_but_seqc s1 s3.
Proof.
  intros s1 s2 s3 (A1 & A2 & A3 & A4 & A5 & A6 & A7 & A8) (B1 & B2 & B3 & B4 & B5 & B6 & B7 & B8).
  unfold same_but_seqc. repeat split; try congruence. lia.
Qed.
Lemma same_but_seqc_next : forall s, same_but_seqc s (snd (next_seq s)).
Proof. intros s. unfold same_but_seqc, next_seq. cbn. repeat split; lia. Qed.

(* the kid list [ks'] differs from [ks] exactly in that page [q] now resolves to [kd'] *)
Definition kids_upd (ks ks' : list node) (q : N) (kd' : node) : Prop :=
  find_kid q ks' = Some kd' /\ forall q', q' <> q -> find_kid q' ks' = find_kid q' ks.

Lemma replace_kid_upd : forall ks q kd kd', find_kid q ks = Some kd -> n_page kd' = q ->
  kids_upd ks (replace_kid ks kd') q kd'.
Proof.
  unfold kids_upd, find_kid. induction ks as [|x ks IH]; intros q kd kd' Hf Hp; [discriminate|].
  cbn [find replace_kid] in *. rewrite Hp. destruct (N.eqb (n_page x) q) eqn:Ex.
  - cbn [find]. rewrite Hp, N.eqb_refl. split; [reflexivity|]. intros q' Hq'.
    assert (E1 : N.eqb q q' = false) by lia. assert (E2 : N.eqb (n_page x) q' = false) by lia.
    now rewrite E1, E2.
  - cbn [find]. rewrite Ex. destruct (IH q kd kd' Hf Hp) as [H1 H2]. split; [exact H1|].
    intros q' Hq'. rewrite (H2 q' Hq'). reflexivity.
Qed.

Lemma app_kid_upd : forall ks q kd', find_kid q ks = None -> n_page kd' = q ->
  kids_upd ks (ks ++ [kd']) q kd'.
Proof.
  unfold kids_upd, find_kid. intros ks q kd' Hf Hp. split.
  - rewrite find_app, Hf. cbn [find]. now rewrite Hp, N.eqb_refl.
  - intros q' Hq'. rewrite find_app. destruct (find (fun k => N.eqb (n_page k) q') ks); [reflexivity|].
    cbn [find]. rewrite Hp. assert (E : N.eqb q q' = false) by lia. now rewrite E.
Qed.

Lemma branch_update : forall d h p np og sq es ks ks' ls j sep q lj' kd',
  seps_ok es -> Forall (fun e => ChildWf d ks (snd e)) es ->
  (forall j e l, nth_error es j = Some e -> ChildViews d ks (snd e) l -> in_range (map fst es) j l) ->
  Forall2 (fun e l => ChildView d h ks (snd e) l) es ls ->
  nth_error es j = Some (sep, q) ->
  kids_upd ks ks' q kd' -> wf_node d kd' -> NodeView d h kd' lj' -> in_range (map fst es) j lj' ->
  NodeView d (S h) (Node p np og sq (Branches es) ks') (concat (replace_at ls j lj')) /\
  wf_node d (Node p np og sq (Branches es) ks').
Proof.
  intros d h p np og sq es ks ks' ls j sep q lj' kd' Hok Hch Hr HF He [Hu1 Hu2] Hkw Hkv Hkr.
  assert (Hnd : NoDup (map snd es)) by apply Hok.
  assert (Hsame : forall j' e', nth_error es j' = Some e' -> snd e' = q -> j' = j /\ e' = (sep, q)).
  { intros j' e' He' Hq. assert (j' = j) by (eapply NoDup_map_nth_error; eauto). subst j'.
    split; [reflexivity | congruence]. }
  assert (Hlen : length es = length ls) by (eapply Forall2_length; eauto).
  assert (Hj : j < length ls) by (rewrite <- Hlen; apply nth_error_Some; congruence).
  split.
  - apply NodeView_branch_intro. apply Forall2_of_nth_error; [now rewrite replace_at_length|].
    intros j' x y Hx Hy. destruct (Nat.eq_dec j' j) as [->|Hne].
    + rewrite replace_at_nth_same in Hy by exact Hj. inversion Hy; subst y.
      rewrite He in Hx. inversion Hx; subst x. cbn [snd]. unfold ChildView. now rewrite Hu1.
    + rewrite replace_at_nth_other in Hy by congruence.
      assert (Hq : snd x <> q) by (intros Hq; destruct (Hsame _ _ Hx Hq); congruence).
      pose proof (Forall2_nth_error _ _ _ _ _ _ HF Hx Hy) as Hc. cbn beta in Hc.
      unfold ChildView in *. now rewrite (Hu2 _ Hq).
  - apply wf_node_branch_intro; [exact Hok| |].
    + apply Forall_forall. intros e' Hin. destruct (In_nth_error _ _ Hin) as [j' Hj'].
      destruct (N.eq_dec (snd e') q) as [Hq|Hq].
      * destruct (Hsame _ _ Hj' Hq) as [-> ->]. cbn [snd]. unfold ChildWf. now rewrite Hu1.
      * rewrite Forall_forall in Hch. specialize (Hch e' Hin). unfold ChildWf in *. now rewrite (Hu2 _ Hq).
    + intros j' e' l He' [h' Hv']. destruct (N.eq_dec (snd e') q) as [Hq|Hq].
      * destruct (Hsame _ _ He' Hq) as [-> ->]. cbn [snd] in Hv'. unfold ChildView in Hv'.
        rewrite Hu1 in Hv'. rewrite (NodeView_det _ _ _ _ Hv' _ _ Hkv). exact Hkr.
      * eapply Hr; [exact He'|]. exists h'. unfold ChildView in *. now rewrite <- (Hu2 _ Hq).
Qed.

Lemma modify_branch : forall f d p npg og sq es ks o s,
  modify (S f) d (Node p npg og sq (Branches es) ks) o s =
  let '(i, _) := index_of (Branches es) (lop_key o) in
  match nthN es i with
  | None => Panic "CANNOT INSERT DATA INTO A BRANCH NODE"%string
  | Some (_, q) =>
      match find_kid q ks with
      | Some kd => bind (modify f d kd o s)
                     (fun r => Ok (Node p npg og sq (Branches es) (replace_kid ks (fst r)), snd r))
      | None => match dget d q with
                | None => Panic "page missing"%string
                | Some a => bind (modify f d (node_of_page q a (seqc s)) o (snd (next_seq s)))
                              (fun r => Ok (Node p npg og sq (Branches es) (ks ++ [fst r]), snd r))
                end
      end
  end.
Proof.
  intros. cbn [modify]. destruct (index_of (Branches es) (lop_key o)) as [i ex].
  destruct (nthN es i) as [[sep q]|]; [|reflexivity].
  destruct (find_kid q ks) as [kd|].
  - destruct (modify f d kd o s) as [[kd' s']| |]; reflexivity.
  - destruct (dget d q) as [a|]; [|reflexivity]. cbn [next_seq snd].
    match goal with |- context [modify f d ?n o ?s1] => destruct (modify f d n o s1) as [[kd' s']| |] end;
      reflexivity.
Qed.

(* the master statement: either the fuel ran out (and it was below the height bound), or the
   operation was applied *)
Lemma modify_master : forall d o f n s h l, wf_node d n -> NodeView d h n l ->
  (modify f d n o s = Err "fuel"%string /\ f < h) \/
  (exists n' s', modify f d n o s = Ok (n', s') /\
     NodeView d h n' (apply_lop o l) /\ wf_node d n' /\
     n_page n' = n_page n /\ n_orig n' = n_orig n /\ same_but_seqc s s').
Proof.
  intros d o. induction f as [|f IH]; intros n s h l Hw Hv.
  - left. split; [reflexivity|]. destruct h; [inversion Hv | lia].
  - pose proof (wf_node_sorted _ _ _ _ Hw Hv) as Hsorted.
    destruct n as [p np og sq [l0|es] ks].
    + right. apply NodeView_leaf_inv in Hv. destruct Hv as [-> [h0 ->]]. cbn [modify].
      eexists _, s. split; [reflexivity|]. split; [apply NV_leaf|]. split.
      * apply wfn_leaf. now apply apply_lop_sorted.
      * split; [reflexivity|]. split; [reflexivity|]. apply same_but_seqc_refl.
    + apply NodeView_branch_inv in Hv. destruct Hv as (h0 & ls & -> & -> & HF).
      apply wf_node_branch_inv in Hw. destruct Hw as (Hok & Hch & Hr).
      rewrite modify_branch. destruct (index_of (Branches es) (lop_key o)) as [i ex] eqn:Ei.
      assert (Hlen : length ls = length es) by (symmetry; eapply Forall2_length; eauto).
      destruct (branch_select es ls (lop_key o) i ex Hok Hlen) as (e & lj & He & Hl & Ha & Hb & Hlo & Hhi);
        [|exact Ei|].
      { intros j l Hj. destruct (Forall2_nth_error_r _ _ _ _ _ HF Hj) as (e & He & Hc).
        eapply Hr; [exact He|]. exists h0. exact Hc. }
      unfold nthN. rewrite He. destruct e as [sep q].
      pose proof (Forall2_nth_error _ _ _ _ _ _ HF He Hl) as Hc. cbn [snd] in Hc.
      pose proof Hch as Hch'. rewrite Forall_forall in Hch'.
      specialize (Hch' _ (nth_error_In _ _ He)). cbn [snd] in Hch'.
      assert (Hrj : in_range (map fst es) (N.to_nat i) lj).
      { eapply Hr; [exact He|]. exists h0. exact Hc. }
      destruct (concat_split ls _ lj (apply_lop o lj) Hl) as [Hsplit Hsplit'].
      assert (Happ : apply_lop o (concat ls) = concat (replace_at ls (N.to_nat i) (apply_lop o lj))).
      { rewrite Hsplit', Hsplit. rewrite Hsplit in Hsorted. now apply apply_lop_app. }
      pose proof (apply_lop_in_range _ _ o _ Hrj Hlo Hhi) as Hrj'.
      destruct (child_as_node d h0 ks q lj (seqc s) Hch' Hc) as (kd & Hkw & Hkv & Hkp & Hkd).
      destruct (find_kid q ks) as [kd0|] eqn:Hfk.
      * subst kd0.
        destruct (IH kd s h0 lj Hkw Hkv) as [[Herr Hlt] | (kd' & s' & Hm & Hv' & Hw' & Hp' & _ & Hs')].
        -- left. rewrite Herr. split; [reflexivity | lia].
        -- right. rewrite Hm. cbn [bind fst snd]. eexists _, s'. split; [reflexivity|].
           destruct (branch_update d h0 p np og sq es ks (replace_kid ks kd') ls (N.to_nat i) sep q
                       (apply_lop o lj) kd' Hok Hch Hr HF He) as [Hnv Hnw]; try assumption.
           { eapply replace_kid_upd; [exact Hfk | congruence]. }
           rewrite Happ. split; [exact Hnv|]. split; [exact Hnw|].
           split; [reflexivity|]. split; [reflexivity | exact Hs'].
      * destruct Hkd as (a & Hga & ->). rewrite Hga.
        destruct (IH (node_of_page q a (seqc s)) (snd (next_seq s)) h0 lj Hkw Hkv)
          as [[Herr Hlt] | (kd' & s' & Hm & Hv' & Hw' & Hp' & _ & Hs')].
        -- left. rewrite Herr. split; [reflexivity | lia].
        -- right. rewrite Hm. cbn [bind fst snd]. eexists _, s'. split; [reflexivity|].
           destruct (branch_update d h0 p np og sq es ks (ks ++ [kd']) ls (N.to_nat i) sep q
                       (apply_lop o lj) kd' Hok Hch Hr HF He) as [Hnv Hnw]; try assumption.
           { apply app_kid_upd; [exact Hfk | exact Hp']. }
           rewrite Happ. split; [exact Hnv|]. split; [exact Hnw|].
           split; [reflexivity|]. split; [reflexivity|].
           eapply same_but_seqc_trans; [apply same_but_seqc_next | exact Hs'].
Qed.

(* (b) the operation is applied to the view, the invariant is kept, only [seqc] moves *)
Theorem modify_view_h : forall d h n l fuel o s n' s', wf_node d n -> NodeView d h n l ->
  modify fuel d n o s = Ok (n', s') ->
  NodeView d h n' (apply_lop o l) /\ wf_node d n' /\
  sorted_keys (map lkey (apply_lop o l)) = true /\
  assoc (apply_lop o l) = aop o (assoc l) /\
  same_but_seqc s s' /\ n_page n' = n_page n /\ n_orig n' = n_orig n.
Proof.
  intros d h n l fuel o s n' s' Hw Hv Hm.
  pose proof (wf_node_sorted _ _ _ _ Hw Hv) as Hs.
  destruct (modify_master d o fuel n s h l Hw Hv) as [[Herr _] | (n1 & s1 & Hm1 & Hv1 & Hw1 & Hp & Ho & Hs1)].
  - rewrite Herr in Hm. discriminate.
  - rewrite Hm1 in Hm. inversion Hm; subst n1 s1.
    split; [exact Hv1|]. split; [exact Hw1|]. split; [now apply apply_lop_sorted|].
    split; [now apply apply_lop_assoc|]. auto.
Qed.

Theorem modify_view : forall d n l fuel o s n' s', wf_node d n -> Views d n l ->
  modify fuel d n o s = Ok (n', s') ->
  Views d n' (apply_lop o l) /\ wf_node d n' /\
  sorted_keys (map lkey (apply_lop o l)) = true /\
  assoc (apply_lop o l) = aop o (assoc l) /\
  free s' = free s /\ pending s' = pending s /\ np s' = np s /\ wr s' = wr s /\ flw s' = flw s /\
  txid s' = txid s /\ psz s' = psz s /\ (seqc s <= seqc s')%N /\
  n_page n' = n_page n /\ n_orig n' = n_orig n.
Proof.
  intros d n l fuel o s n' s' Hw [h Hv] Hm.
  destruct (modify_view_h d h n l fuel o s n' s' Hw Hv Hm)
    as (H1 & H2 & H3 & H4 & (A1 & A2 & A3 & A4 & A5 & A6 & A7 & A8) & H6 & H7).
  split; [exists h; exact H1|]. repeat (split; [assumption|]). assumption.
Qed.

(* (c) no panic on a well-formed node; the only error is "fuel", and only below the height *)
Theorem modify_no_panic : forall d n l fuel o s, wf_node d n -> Views d n l ->
  (exists n' s', modify fuel d n o s = Ok (n', s')) \/ modify fuel d n o s = Err "fuel"%string.
Proof.
  intros d n l fuel o s Hw [h Hv].
  destruct (modify_master d o fuel n s h l Hw Hv) as [[Herr _] | (n1 & s1 & Hm1 & _)]; [right | left]; eauto.
Qed.

Corollary modify_never_panics : forall d n l fuel o s msg, wf_node d n -> Views d n l ->
  modify fuel d n o s <> Panic msg.
Proof.
  intros d n l fuel o s msg Hw Hv. destruct (modify_no_panic d n l fuel o s Hw Hv) as [(n' & s' & H) | H];
    rewrite H; discriminate.
Qed.

Theorem modify_total : forall d h n l fuel o s, wf_node d n -> NodeView d h n l -> h <= fuel ->
  exists n' s', modify fuel d n o s = Ok (n', s').
Proof.
  intros d h n l fuel o s Hw Hv Hf.
  destruct (modify_master d o fuel n s h l Hw Hv) as [[_ Hlt] | (n1 & s1 & Hm1 & _)]; [lia | eauto].
Qed.

(* an error means exactly that the fuel was below the height bound *)
Theorem modify_err_fuel : forall d h n l fuel o s e, wf_node d n -> NodeView d h n l ->
  modify fuel d n o s = Err e -> e = "fuel"%string /\ fuel < h.
Proof.
  intros d h n l fuel o s e Hw Hv He.
  destruct (modify_master d o fuel n s h l Hw Hv) as [[Herr Hlt] | (n1 & s1 & Hm1 & _)].
  - rewrite Herr in He. inversion He. auto.
  - rewrite Hm1 in He. discriminate.
Qed.

(* ====================================================================== *)
(** * 9. Buckets *)

Definition bucket_wf (d : disk) (b : bucket) : Prop :=
  match b_rootn b with Some n => wf_node d n | None => wf_page d (b_root_page b) end.
(* the bucket's content, with a bound on the height of its tree *)
Definition BucketView (d : disk) (h : nat) (b : bucket) (l : list leafent) : Prop :=
  match b_rootn b with Some n => NodeView d h n l | None => PageView d h (b_root_page b) l end.
(* [b_lookup] / [b_modify] run with [fuel0]: the bucket's tree must not be higher *)
Definition bucket_view (d : disk) (b : bucket) (l : list leafent) : Prop :=
  exists h, h <= fuel0 /\ BucketView d h b l.

Theorem bucket_view_sorted : forall d h b l, bucket_wf d b -> BucketView d h b l ->
  sorted_keys (map lkey l) = true.
Proof.
  intros d h b l Hw Hv. unfold bucket_wf, BucketView in *. destruct (b_rootn b).
  - eapply wf_node_sorted; eauto.
  - eapply wf_page_sorted; eauto.
Qed.

Theorem b_lookup_view : forall d h b l k, bucket_wf d b -> BucketView d h b l -> h <= fuel0 ->
  b_lookup d b k = Ok (Spec.alookup k (assoc l)).
Proof.
  intros d h b l k Hw Hv Hf. unfold b_lookup, bucket_wf, BucketView in *. destruct (b_rootn b).
  - eapply lookup_node_view_h; eauto.
  - eapply lookup_page_view_h; eauto.
Qed.

Lemma ensure_root_view : forall d h b l s, bucket_wf d b -> BucketView d h b l ->
  exists n s1, ensure_root d b s = Ok (n, s1) /\ wf_node d n /\ NodeView d h n l /\ same_but_seqc s s1.
Proof.
  intros d h b l s Hw Hv. unfold ensure_root, bucket_wf, BucketView in *. destruct (b_rootn b) as [n|].
  - exists n, s. split; [reflexivity|]. split; [exact Hw|]. split; [exact Hv | apply same_but_seqc_refl].
  - destruct (PageView_dget _ _ _ _ Hv) as [a Ha]. rewrite Ha. cbn [next_seq].
    eexists _, _. split; [reflexivity|]. split; [now apply node_of_page_wf|].
    split; [now apply node_of_page_view | apply (same_but_seqc_next s)].
Qed.

Theorem b_modify_view : forall d h b l o s, bucket_wf d b -> BucketView d h b l -> h <= fuel0 ->
  exists b' s', b_modify d b o s = Ok (b', s') /\
    bucket_wf d b' /\ BucketView d h b' (apply_lop o l) /\
    assoc (apply_lop o l) = aop o (assoc l) /\
    sorted_keys (map lkey (apply_lop o l)) = true /\
    b_root_page b' = b_root_page b /\ b_next b' = b_next b /\ b_subs b' = b_subs b /\ b_dirty b' = true /\
    same_but_seqc s s'.
Proof.
  intros d h b l o s Hw Hv Hf.
  pose proof (bucket_view_sorted _ _ _ _ Hw Hv) as Hs.
  destruct (ensure_root_view d h b l s Hw Hv) as (n & s1 & He & Hnw & Hnv & Hs1).
  destruct (modify_master d o fuel0 n s1 h l Hnw Hnv) as [[_ Hlt] | (n' & s2 & Hm & Hv' & Hw' & _ & _ & Hs2)];
    [lia|].
  unfold b_modify. rewrite He. cbn [bind]. rewrite Hm. cbn [bind].
  eexists _, s2. split; [reflexivity|].
  unfold bucket_wf, BucketView. cbn [b_rootn b_root_page b_next b_subs b_dirty].
  split; [exact Hw'|]. split; [exact Hv'|]. split; [now apply apply_lop_assoc|].
  split; [now apply apply_lop_sorted|]. repeat (split; [reflexivity|]).
  eapply same_but_seqc_trans; eauto.
Qed.

(* the complete behaviour of [b_put], by the current binding of k *)
Theorem b_put_spec : forall d h b l k v s, bucket_wf d b -> BucketView d h b l -> h <= fuel0 ->
  match Spec.alookup k (assoc l) with
  | Some (LBk _ _ _) => b_put d b k v s = Err "IncompatibleValue"%string
  | cur =>
      exists b' s' l', b_put d b k v s = Ok (b', s') /\
        bucket_wf d b' /\ BucketView d h b' l' /\
        assoc l' = Spec.ainsert k (LKv k v) (assoc l) /\
        sorted_keys (map lkey l') = true /\
        b_next b' = (match cur with None => b_next b + 1 | Some _ => b_next b end)%N /\
        b_root_page b' = b_root_page b /\ b_subs b' = b_subs b /\ b_dirty b' = true /\
        same_but_seqc s s'
  end.
Proof.
  intros d h b l k v s Hw Hv Hf. unfold b_put. rewrite (b_lookup_view d h b l k Hw Hv Hf). cbn [bind].
  destruct (b_modify_view d h b l (OpIns (LKv k v)) s Hw Hv Hf)
    as (b' & s' & Hm & Hw' & Hv' & Ha & Hs & Hr & Hn & Hsb & Hd & Hss).
  cbn [aop lkey] in Ha.
  destruct (Spec.alookup k (assoc l)) as [[k0 v0|k0 r0 n0]|]; cbn [is_kv].
  - exists b', s', (apply_lop (OpIns (LKv k v)) l). rewrite Hm. repeat (split; [assumption || reflexivity|]).
    assumption.
  - reflexivity.
  - rewrite Hm. cbn [bind]. eexists _, s', (apply_lop (OpIns (LKv k v)) l). split; [reflexivity|].
    unfold bucket_wf, BucketView in *. cbn [b_rootn b_root_page b_next b_subs b_dirty].
    split; [exact Hw'|]. split; [exact Hv'|]. split; [exact Ha|]. split; [exact Hs|].
    split; [now rewrite Hn|]. split; [exact Hr|]. split; [exact Hsb|]. split; [reflexivity | exact Hss].
Qed.

(* ... in the form asked *)
Corollary b_put_ok : forall d h b l k v s b' s', bucket_wf d b -> BucketView d h b l -> h <= fuel0 ->
  b_put d b k v s = Ok (b', s') ->
  exists l', bucket_wf d b' /\ BucketView d h b' l' /\
    assoc l' = Spec.ainsert k (LKv k v) (assoc l) /\
    b_next b' = (match Spec.alookup k (assoc l) with None => b_next b + 1 | Some _ => b_next b end)%N /\
    same_but_seqc s s'.
Proof.
  intros d h b l k v s b' s' Hw Hv Hf Hp. pose proof (b_put_spec d h b l k v s Hw Hv Hf) as H.
  destruct (Spec.alookup k (assoc l)) as [[k0 v0|k0 r0 n0]|].
  - destruct H as (b1 & s1 & l' & Hp' & A1 & A2 & A3 & _ & A5 & _ & _ & _ & A9).
    rewrite Hp in Hp'. inversion Hp'; subst. exists l'. auto.
  - rewrite Hp in H. discriminate.
  - destruct H as (b1 & s1 & l' & Hp' & A1 & A2 & A3 & _ & A5 & _ & _ & _ & A9).
    rewrite Hp in Hp'. inversion Hp'; subst. exists l'. auto.
Qed.

Corollary b_put_incompatible : forall d h b l k v s, bucket_wf d b -> BucketView d h b l -> h <= fuel0 ->
  (b_put d b k v s = Err "IncompatibleValue"%string <->
   exists k0 r nx, Spec.alookup k (assoc l) = Some (LBk k0 r nx)).
Proof.
  intros d h b l k v s Hw Hv Hf. pose proof (b_put_spec d h b l k v s Hw Hv Hf) as H.
  destruct (Spec.alookup k (assoc l)) as [[k0 v0|k0 r0 n0]|].
  - destruct H as (b1 & s1 & l' & Hp' & _). rewrite Hp'. split; [discriminate|].
    intros (? & ? & ? & E). discriminate.
  - split; [eauto | intros _; exact H].
  - destruct H as (b1 & s1 & l' & Hp' & _). rewrite Hp'. split; [discriminate|].
    intros (? & ? & ? & E). discriminate.
Qed.

Theorem b_delete_spec : forall d h b l k s, bucket_wf d b -> BucketView d h b l -> h <= fuel0 ->
  match Spec.alookup k (assoc l) with
  | None => b_delete d b k s = Err "KeyValueMissing"%string
  | Some (LBk _ _ _) => b_delete d b k s = Err "IncompatibleValue"%string
  | Some (LKv _ _) =>
      exists b' s' l', b_delete d b k s = Ok (b', s') /\
        bucket_wf d b' /\ BucketView d h b' l' /\
        assoc l' = Spec.aremove k (assoc l) /\
        sorted_keys (map lkey l') = true /\
        b_next b' = b_next b /\ b_root_page b' = b_root_page b /\ b_subs b' = b_subs b /\
        b_dirty b' = true /\ same_but_seqc s s'
  end.
Proof.
  intros d h b l k s Hw Hv Hf. unfold b_delete. rewrite (b_lookup_view d h b l k Hw Hv Hf). cbn [bind].
  destruct (b_modify_view d h b l (OpDel k) s Hw Hv Hf)
    as (b' & s' & Hm & Hw' & Hv' & Ha & Hs & Hr & Hn & Hsb & Hd & Hss).
  cbn [aop] in Ha.
  destruct (Spec.alookup k (assoc l)) as [[k0 v0|k0 r0 n0]|]; cbn [is_kv]; try reflexivity.
  exists b', s', (apply_lop (OpDel k) l). rewrite Hm. repeat (split; [assumption || reflexivity|]).
  assumption.
Qed.

Corollary b_delete_ok : forall d h b l k s b' s', bucket_wf d b -> BucketView d h b l -> h <= fuel0 ->
  b_delete d b k s = Ok (b', s') ->
  exists l', bucket_wf d b' /\ BucketView d h b' l' /\
    assoc l' = Spec.aremove k (assoc l) /\ b_next b' = b_next b /\ same_but_seqc s s'.
Proof.
  intros d h b l k s b' s' Hw Hv Hf Hp. pose proof (b_delete_spec d h b l k s Hw Hv Hf) as H.
  destruct (Spec.alookup k (assoc l)) as [[k0 v0|k0 r0 n0]|]; try (rewrite Hp in H; discriminate).
  destruct H as (b1 & s1 & l' & Hp' & A1 & A2 & A3 & _ & A5 & _ & _ & _ & A9).
  rewrite Hp in Hp'. inversion Hp'; subst. exists l'. auto.
Qed.

Corollary b_delete_errors : forall d h b l k s, bucket_wf d b -> BucketView d h b l -> h <= fuel0 ->
  (b_delete d b k s = Err "KeyValueMissing"%string <-> Spec.alookup k (assoc l) = None) /\
  (b_delete d b k s = Err "IncompatibleValue"%string <->
   exists k0 r nx, Spec.alookup k (assoc l) = Some (LBk k0 r nx)).
Proof.
  intros d h b l k s Hw Hv Hf. pose proof (b_delete_spec d h b l k s Hw Hv Hf) as H.
  destruct (Spec.alookup k (assoc l)) as [[k0 v0|k0 r0 n0]|].
  - destruct H as (b1 & s1 & l' & Hp' & _). rewrite Hp'. split; split; try discriminate.
    intros (? & ? & ? & E). discriminate.
  - rewrite H. split; split; try discriminate; eauto.
  - rewrite H. split; split; try discriminate; auto. intros (? & ? & ? & E). discriminate.
Qed.

(* ... and with the height bound hidden in [bucket_view] *)
Theorem b_lookup_refines : forall d b l k, bucket_wf d b -> bucket_view d b l ->
  b_lookup d b k = Ok (Spec.alookup k (assoc l)).
Proof. intros d b l k Hw (h & Hf & Hv). eapply b_lookup_view; eauto. Qed.

Theorem b_put_refines : forall d b l k v s b' s', bucket_wf d b -> bucket_view d b l ->
  b_put d b k v s = Ok (b', s') ->
  exists l', bucket_wf d b' /\ bucket_view d b' l' /\
    assoc l' = Spec.ainsert k (LKv k v) (assoc l) /\
    b_next b' = (match Spec.alookup k (assoc l) with None => b_next b + 1 | Some _ => b_next b end)%N /\
    same_but_seqc s s'.
Proof.
  intros d b l k v s b' s' Hw (h & Hf & Hv) Hp.
  destruct (b_put_ok d h b l k v s b' s' Hw Hv Hf Hp) as (l' & A1 & A2 & A3 & A4 & A5).
  exists l'. split; [exact A1|]. split; [exists h; auto|]. auto.
Qed.

Theorem b_delete_refines : forall d b l k s b' s', bucket_wf d b -> bucket_view d b l ->
  b_delete d b k s = Ok (b', s') ->
  exists l', bucket_wf d b' /\ bucket_view d b' l' /\
    assoc l' = Spec.aremove k (assoc l) /\ b_next b' = b_next b /\ same_but_seqc s s'.
Proof.
  intros d b l k s b' s' Hw (h & Hf & Hv) Hp.
  destruct (b_delete_ok d h b l k s b' s' Hw Hv Hf Hp) as (l' & A1 & A2 & A3 & A4 & A5).
  exists l'. split; [exact A1|]. split; [exists h; auto|]. auto.
Qed.

(* ====================================================================== *)
(** * 10. Non-vacuity *)

Definition kE : bytes := ["e"%byte]. Definition kF : bytes := ["f"%byte]. Definition kG : bytes := ["g"%byte].

(* a three-level tree: root 10 -> leaf 11, leaf 12, branch 13 -> leaf 14 (empty), leaf 15.
   Leaf 11 is child 0 and holds "a", BELOW its separator "b". *)
Definition ex_es : list (bytes * N) := [(kB, 11%N); (kD, 12%N); (kF, 13%N)].
Definition ex_disk : disk :=
  [ (10%N, {| ap_over := 0; ap_body := Branches ex_es |});
    (11%N, {| ap_over := 0; ap_body := Leaves [LKv kA [x01]; LKv kB [x02]] |});
    (12%N, {| ap_over := 0; ap_body := Leaves [LKv kD [x04]; LKv kE [x05]] |});
    (13%N, {| ap_over := 0; ap_body := Branches [(kF, 14%N); (kG, 15%N)] |});
    (14%N, {| ap_over := 0; ap_body := Leaves [] |});
    (15%N, {| ap_over := 0; ap_body := Leaves [LBk kG 7 0] |}) ].
(* page 12 is materialised and "d" has been deleted from it: its first key is above its separator *)
Definition ex_kid12 : node := Node 12 1 (Some kD) 2 (Leaves [LKv kE [x05]]) [].
Definition ex_root : node := Node 10 1 (Some kB) 1 (Branches ex_es) [ex_kid12].
Definition ex_view : list leafent := [LKv kA [x01]; LKv kB [x02]; LKv kE [x05]; LBk kG 7 0].

Ltac nodup_tac := repeat (constructor; [cbn; intuition discriminate|]); constructor.
Ltac seps_ok_tac := split; [discriminate | split; [reflexivity | cbn [map snd]; nodup_tac]].
Ltac in_range_tac :=
  split; intros Hrng; vm_compute in Hrng; try lia;
    repeat constructor; vm_compute; (reflexivity || discriminate).

Lemma ex_pv11 : forall h, PageView ex_disk (S h) 11 [LKv kA [x01]; LKv kB [x02]].
Proof. intros h. eapply PV_leaf; reflexivity. Qed.
Lemma ex_pv12 : forall h, PageView ex_disk (S h) 12 [LKv kD [x04]; LKv kE [x05]].
Proof. intros h. eapply PV_leaf; reflexivity. Qed.
Lemma ex_pv14 : forall h, PageView ex_disk (S h) 14 [].
Proof. intros h. eapply PV_leaf; reflexivity. Qed.
Lemma ex_pv15 : forall h, PageView ex_disk (S h) 15 [LBk kG 7 0].
Proof. intros h. eapply PV_leaf; reflexivity. Qed.
Lemma ex_pv13 : PageView ex_disk 2 13 [LBk kG 7 0].
Proof.
  change [LBk kG 7 0] with (concat [[]; [LBk kG 7 0]]).
  eapply PV_branch; [reflexivity | reflexivity |].
  repeat constructor; [exact (ex_pv14 0) | exact (ex_pv15 0)].
Qed.

Lemma ex_wf11 : wf_page ex_disk 11. Proof. eapply wfp_leaf; reflexivity. Qed.
Lemma ex_wf12 : wf_page ex_disk 12. Proof. eapply wfp_leaf; reflexivity. Qed.
Lemma ex_wf14 : wf_page ex_disk 14. Proof. eapply wfp_leaf; reflexivity. Qed.
Lemma ex_wf15 : wf_page ex_disk 15. Proof. eapply wfp_leaf; reflexivity. Qed.
Lemma ex_wf13 : wf_page ex_disk 13.
Proof.
  eapply wfp_branch; [reflexivity | reflexivity | seps_ok_tac | |].
  - repeat constructor; [exact ex_wf14 | exact ex_wf15].
  - intros j e l Hj [h Hv]. destruct j as [|[|j]]; cbn [nth_error] in Hj.
    + inversion Hj; subst e. rewrite (PageView_det _ _ _ _ Hv _ _ (ex_pv14 0)). in_range_tac.
    + inversion Hj; subst e. rewrite (PageView_det _ _ _ _ Hv _ _ (ex_pv15 0)). in_range_tac.
    + destruct j; discriminate.
Qed.

Lemma ex_nv12 : NodeView ex_disk 1 ex_kid12 [LKv kE [x05]].
Proof. apply NV_leaf. Qed.

Example ex_root_view : NodeView ex_disk 3 ex_root ex_view.
Proof.
  change ex_view with (concat [[LKv kA [x01]; LKv kB [x02]]; [LKv kE [x05]]; [LBk kG 7 0]]).
  apply NodeView_branch_intro.
  apply Forall2_cons; [|apply Forall2_cons; [|apply Forall2_cons; [|apply Forall2_nil]]];
    unfold ChildView; cbn [snd].
  - change (find_kid 11%N [ex_kid12]) with (@None node). exact (ex_pv11 1).
  - change (find_kid 12%N [ex_kid12]) with (Some ex_kid12). apply NV_leaf.
  - change (find_kid 13%N [ex_kid12]) with (@None node). exact ex_pv13.
Qed.

Example ex_root_wf : wf_node ex_disk ex_root.
Proof.
  apply wf_node_branch_intro; [seps_ok_tac | |].
  - apply Forall_cons; [|apply Forall_cons; [|apply Forall_cons; [|apply Forall_nil]]];
      unfold ChildWf; cbn [snd].
    + change (find_kid 11%N [ex_kid12]) with (@None node). exact ex_wf11.
    + change (find_kid 12%N [ex_kid12]) with (Some ex_kid12). apply wfn_leaf. reflexivity.
    + change (find_kid 13%N [ex_kid12]) with (@None node). exact ex_wf13.
  - intros j e l Hj [h Hv]. unfold ChildView in Hv.
    destruct j as [|[|[|j]]]; cbn [nth_error ex_es] in Hj; try (destruct j; discriminate);
      inversion Hj; subst e; cbn [snd] in Hv.
    + change (find_kid 11%N [ex_kid12]) with (@None node) in Hv.
      rewrite (PageView_det _ _ _ _ Hv _ _ (ex_pv11 0)). in_range_tac.
    + change (find_kid 12%N [ex_kid12]) with (Some ex_kid12) in Hv.
      rewrite (NodeView_det _ _ _ _ Hv _ _ ex_nv12). in_range_tac.
    + change (find_kid 13%N [ex_kid12]) with (@None node) in Hv.
      rewrite (PageView_det _ _ _ _ Hv _ _ ex_pv13). in_range_tac.
Qed.

Definition ex_st : txs :=
  {| free := []; pending := []; txid := 1; np := 20; psz := 4096; wr := []; flw := None; seqc := 3 |}.

(* the theorems instantiated: a key below every separator goes to child 0, which is read from disk *)
Example ex_modify_low :
  exists n' s', modify 3 ex_disk ex_root (OpIns (LKv [] [x09])) ex_st = Ok (n', s') /\
    NodeView ex_disk 3 n' (LKv [] [x09] :: ex_view) /\ wf_node ex_disk n' /\ seqc s' = 4%N /\
    lookup_node 3 ex_disk n' [] = Ok (Some (LKv [] [x09])).
Proof.
  destruct (modify_total ex_disk 3 ex_root ex_view 3 (OpIns (LKv [] [x09])) ex_st ex_root_wf ex_root_view
              (le_n _)) as (n' & s' & Hm).
  exists n', s'. split; [exact Hm|].
  destruct (modify_view_h _ _ _ _ _ _ _ _ _ ex_root_wf ex_root_view Hm) as (Hv & Hw & _).
  split; [exact Hv|]. split; [exact Hw|].
  vm_compute in Hm. inversion Hm; subst. split; reflexivity.
Qed.

Example ex_lookup :
  lookup_node 3 ex_disk ex_root kE = Ok (Some (LKv kE [x05])) /\
  lookup_node 3 ex_disk ex_root kD = Ok None /\
  lookup_node 3 ex_disk ex_root kG = Ok (Some (LBk kG 7 0)) /\
  lookup_node 1 ex_disk ex_root kG = Err "fuel"%string.
Proof. repeat split; vm_compute; reflexivity. Qed.

Definition ex_bucket : bucket := Bucket 10 4 false None [].
Example ex_bucket_wf_view : bucket_wf ex_disk ex_bucket /\ BucketView ex_disk 3 ex_bucket
    [LKv kA [x01]; LKv kB [x02]; LKv kD [x04]; LKv kE [x05]; LBk kG 7 0].
Proof.
  split.
  - unfold bucket_wf. cbn [b_rootn ex_bucket b_root_page].
    eapply wfp_branch; [reflexivity | reflexivity | seps_ok_tac | |].
    + repeat constructor; [exact ex_wf11 | exact ex_wf12 | exact ex_wf13].
    + intros j e l Hj [h Hv].
      destruct j as [|[|[|j]]]; cbn [nth_error ex_es] in Hj; try (destruct j; discriminate);
        inversion Hj; subst e; cbn [snd] in Hv.
      * rewrite (PageView_det _ _ _ _ Hv _ _ (ex_pv11 0)). in_range_tac.
      * rewrite (PageView_det _ _ _ _ Hv _ _ (ex_pv12 0)). in_range_tac.
      * rewrite (PageView_det _ _ _ _ Hv _ _ ex_pv13). in_range_tac.
  - unfold BucketView. cbn [b_rootn ex_bucket b_root_page].
    change [LKv kA [x01]; LKv kB [x02]; LKv kD [x04]; LKv kE [x05]; LBk kG 7 0]
      with (concat [[LKv kA [x01]; LKv kB [x02]]; [LKv kD [x04]; LKv kE [x05]]; [LBk kG 7 0]]).
    eapply PV_branch; [reflexivity | reflexivity |].
    repeat constructor; [exact (ex_pv11 1) | exact (ex_pv12 1) | exact ex_pv13].
Qed.

Example ex_bucket_ops :
  (exists b' s', b_put ex_disk ex_bucket kC [x03] ex_st = Ok (b', s') /\ b_next b' = 5%N) /\
  (exists b' s', b_put ex_disk ex_bucket kD [x03] ex_st = Ok (b', s') /\ b_next b' = 4%N) /\
  b_put ex_disk ex_bucket kG [x03] ex_st = Err "IncompatibleValue"%string /\
  b_delete ex_disk ex_bucket kC ex_st = Err "KeyValueMissing"%string /\
  b_delete ex_disk ex_bucket kG ex_st = Err "IncompatibleValue"%string /\
  (exists b' s', b_delete ex_disk ex_bucket kD ex_st = Ok (b', s') /\ b_next b' = 4%N).
Proof. vm_compute. repeat split; eauto. Qed.

(* why the child page ids must be pairwise distinct: with two entries naming the same (empty) page,
   every other clause of the invariant holds, yet after one insert BOTH entries resolve to the
   materialised kid and the view holds the new key twice *)
Definition dup_disk : disk := [ (11%N, {| ap_over := 0; ap_body := Leaves [] |}) ].
Definition dup_root : node := Node 10 1 None 1 (Branches [(kA, 11%N); (kD, 11%N)]) [].
Example dup_pages_break :
  NodeView dup_disk 2 dup_root [] /\
  exists n' s', modify 2 dup_disk dup_root (OpIns (LKv kB [])) ex_st = Ok (n', s') /\
    NodeView dup_disk 2 n' [LKv kB []; LKv kB []] /\
    apply_lop (OpIns (LKv kB [])) [] = [LKv kB []].
Proof.
  split.
  - change (@nil leafent) with (concat [@nil leafent; @nil leafent]).
    apply NodeView_branch_intro. repeat constructor; eapply PV_leaf; reflexivity.
  - eexists _, _. split; [vm_compute; reflexivity|]. split; [|reflexivity].
    change [LKv kB []; LKv kB []] with (concat [[LKv kB []]; [LKv kB []]]).
    apply NodeView_branch_intro. repeat constructor; apply NV_leaf.
Qed.

Print Assumptions PageView_det.
Print Assumptions NodeView_det.
Print Assumptions wf_node_sorted.
Print Assumptions wf_page_sorted.
Print Assumptions lookup_page_view_h.
Print Assumptions lookup_node_view_h.
Print Assumptions lookup_page_view.
Print Assumptions lookup_node_view.
Print Assumptions modify_master.
Print Assumptions modify_view_h.
Print Assumptions modify_view.
Print Assumptions modify_no_panic.
Print Assumptions modify_never_panics.
Print Assumptions modify_total.
Print Assumptions modify_err_fuel.
Print Assumptions b_lookup_view.
Print Assumptions b_modify_view.
Print Assumptions b_put_spec.
Print Assumptions b_put_ok.
Print Assumptions b_put_incompatible.
Print Assumptions b_delete_spec.
Print Assumptions b_delete_ok.
Print Assumptions b_delete_errors.
Print Assumptions b_lookup_refines.
Print Assumptions b_put_refines.
Print Assumptions b_delete_refines.
Print Assumptions NodeView_mono.
Print Assumptions ex_root_view.
Print Assumptions ex_root_wf.
Print Assumptions ex_modify_low.
Print Assumptions ex_bucket_wf_view.
Print Assumptions ex_bucket_ops.
Print Assumptions dup_pages_break.
