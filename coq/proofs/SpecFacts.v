(* facts about the reference (spec/Spec.v) *)
From Coq Require Import List NArith Bool.
From Jamm Require Import Bytes Spec.
Import ListNotations.

Lemma read_only_refused : forall t o, t_writable t = false -> is_mutator o = true -> o <> ODump ->
  step_op t o = (t, RErr ReadOnlyTx).
Proof.
  intros t o Hw Hm Hd. unfold step_op. destruct o; try discriminate; try congruence;
    cbn [is_mutator] in *; rewrite Hw; reflexivity.
Qed.

Lemma error_no_change : forall t o t' e, step_op t o = (t', RErr e) -> t' = t.
Proof.
  intros t o t' e H. unfold step_op in H.
  destruct o; try (inversion H; fail);
  repeat match type of H with
  | (if ?c then _ else _) = _ => destruct c
  | match ?x with _ => _ end = _ => destruct x
  | (_, _) = (_, _) => inversion H; clear H
  end; try reflexivity; try discriminate.
Qed.

(* a deleted-handle panic and an orphan report change nothing either *)
Lemma panic_no_change : forall t o t', step_op t o = (t', RPanicDeleted) -> t' = t.
Proof.
  intros t o t' H. unfold step_op in H.
  destruct o; try (inversion H; fail);
  repeat match type of H with
  | (if ?c then _ else _) = _ => destruct c
  | match ?x with _ => _ end = _ => destruct x
  | (_, _) = (_, _) => inversion H; clear H
  end; try reflexivity; try discriminate.
Qed.

(* database level: commit of a read-only transaction is refused and leaves the committed state unchanged;
   dropping any transaction leaves the committed state unchanged *)
Lemma drop_no_change : forall d t, d_committed (fst (step d (CDrop t))) = d_committed d.
Proof. reflexivity. Qed.
Lemma begin_no_change : forall d t w, d_committed (fst (step d (CBegin t w))) = d_committed d.
Proof. reflexivity. Qed.
Lemma op_no_commit_change : forall d t o, d_committed (fst (step d (COp t o))) = d_committed d.
Proof. intros. cbn [step]. destruct (tlookup t (d_txs d)); [destruct (step_op s o)|]; reflexivity. Qed.
Lemma ro_commit_refused : forall d t x, tlookup t (d_txs d) = Some x -> t_writable x = false ->
  step d (CCommit t) = (mkDb (d_committed d) (tremove t (d_txs d)), RErr ReadOnlyTx).
Proof. intros d t x H Hw. cbn [step]. rewrite H, Hw. reflexivity. Qed.
