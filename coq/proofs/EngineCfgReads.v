(* C16 for reads: the page size is a performance parameter for what a transaction READS, too. Two engines configured
   with different page sizes and fed the same committed transactions answer every read of the next write transaction
   identically -- after any operations so far, at any bucket path: get, full scan, every range, and seek of a present key
   (for an absent key the property lets seek land on either neighbour, which depends on where the leaves are cut).
   Corollary of EngineTxScan.tx_reads_cursor and run_txs_refines_init'. Closed under the global context. *)
From Coq Require Import List NArith Bool.
From Jamm Require Import Bytes Spec Cursor Engine EngineAbs EnginePathFacts EngineTxInvFacts EngineRefines EngineOwnSpill EngineAllocInv
  EngineReadBridge EngineScan EngineTxScan.
Import ListNotations.
Local Open Scope N_scope.

Lemma reachable_pages_wf : forall P txs st, 0 < P -> txs_ok' (init_db P) txs -> run_txs (init_db P) txs = Ok st ->
  db_pages_wf st.
Proof.
  intros P txs st HP T R. apply db_strict_pages_wf, db_okz_strict.
  exact (proj1 (run_txs_refines_init' P txs st HP T R)).
Qed.

Theorem reads_page_size_irrelevant : forall P1 P2 txs st1 st2 ops path o x es, 0 < P1 -> 0 < P2 ->
  txs_ok' (init_db P1) txs -> txs_ok' (init_db P2) txs ->
  run_txs (init_db P1) txs = Ok st1 -> run_txs (init_db P2) txs = Ok st2 ->
  Forall (op_ok (d_disk st1)) ops -> Forall (op_ok (d_disk st2)) ops ->
  Spec.get_at path (sem_tx ops (abs_db st1)) = Some (SBucket o x es) ->
  tx_scan st1 ops path = tx_scan st2 ops path /\
  (forall k, tx_cget st1 ops path k = tx_cget st2 ops path k) /\
  (forall lo hi, tx_range st1 ops path lo hi = tx_range st2 ops path lo hi) /\
  (forall k, ref_found (SBucket o x es) k = true -> tx_seek st1 ops path k = tx_seek st2 ops path k).
Proof.
  intros P1 P2 txs st1 st2 ops path o x es H1 H2 T1 T2 R1 R2 O1 O2 Hg.
  assert (E : abs_db st1 = abs_db st2).
  { destruct (run_txs_refines_init' P1 txs st1 H1 T1 R1) as [_ E1].
    destruct (run_txs_refines_init' P2 txs st2 H2 T2 R2) as [_ E2]. now rewrite E1, E2. }
  pose proof Hg as Hg2. rewrite E in Hg2.
  destruct (tx_reads_cursor st1 ops path o x es (reachable_pages_wf P1 txs st1 H1 T1 R1) O1 Hg) as (G1 & S1 & Rg1 & K1).
  destruct (tx_reads_cursor st2 ops path o x es (reachable_pages_wf P2 txs st2 H2 T2 R2) O2 Hg2) as (G2 & S2 & Rg2 & K2).
  split; [now rewrite S1, S2|]. split; [intros k; now rewrite G1, G2|]. split; [intros lo hi; now rewrite Rg1, Rg2|].
  intros k Hf. destruct (K1 k) as (l1 & Hs1 & Hl1). destruct (K2 k) as (l2 & Hs2 & Hl2).
  rewrite Hf in Hl1, Hl2. rewrite Hs1, Hs2, Hl1, Hl2. reflexivity.
Qed.

Print Assumptions reads_page_size_irrelevant.
