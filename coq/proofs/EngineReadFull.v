(* THE FULL READ-HALF INVARIANT ON REACHABLE STATES.

   EngineReadBridge shows that the tree [tree_of] of a strict page ([PInv]) passes the read half's checker
   [Tree.wf_tree] MINUS its equal-height conjunct ([wf_tree_nh]), and that [PInv] / [db_okz] alone do not give that
   conjunct ([PInv_not_uniform], [db_okz_not_uniform]).  EngineDepth / EngineSpillDepth show that the uniform-depth
   invariant [PDp] / [dbk] / [db_depth] holds of every reachable state.  This file joins the two:

   1. [PDp_uniform]: exact height h ([PDp]) + no empty branch gives [uniform t = true] and [S (Tree.height t) = h]
      ([PDp]'s height counts a leaf as 1, [Tree.height] as 0).  Without the no-empty-branch side condition the
      statement is FALSE ([PDp_alone_not_uniform]): [PDp] lets an EMPTY branch page have any height >= 2.
   2. [PDp_PInv_wf_tree]: [PInv] + [PDp] give the full [Tree.wf_tree].
   3. [history_read_full]: [EngineReadBridge.history_read] with [Tree.wf_tree] for every bucket reached by a path.
   4. [history_bucket_wf]: the tree verdict [Tree.bucket_wf] of the file checker [Tree.inv_check] accepts the file
      image of every reachable state. *)
From Coq Require Import List NArith Bool Arith Lia ZifyN ZifyNat ZifyBool.
From Coq.Strings Require Import Byte.
From Jamm Require Spec Tree Cursor Codec CodecFacts BytesFacts.
From Jamm Require Import Bytes SearchFacts CursorFacts SeekFacts.
From Jamm Require Import Engine EngineAbs EngineFacts EngineSpillFacts EngineModifyFacts EngineBridgeFacts EngineRebalanceFacts.
From Jamm Require Import EngineTxInvFacts EngineRefines EngineOwnDefs EngineOwnSpill EngineAllocInv.
From Jamm Require Import EngineDepth EngineSpillDepth EngineReadBridge.
Import ListNotations.
Import NH.
Local Open Scope list_scope. Local Open Scope nat_scope.
Set Warnings "-abstract-large-number".
Arguments N.add : simpl never. Arguments N.sub : simpl never. Arguments N.mul : simpl never.
Arguments N.div : simpl never. Arguments N.ltb : simpl never. Arguments N.leb : simpl never.
Arguments N.eqb : simpl never.

(* ====================================================================== *)
(** * 1. Exact height gives equal leaf depth *)

(* the maximum of equal numbers *)
Lemma fold_max_const : forall (ks : list (bytes * tree)) m, ks <> [] ->
  Forall (fun kt => Tree.height (snd kt) = m) ks ->
  fold_right (fun (kt : bytes * tree) acc => Nat.max (Tree.height (snd kt)) acc) 0 ks = m.
Proof.
  induction ks as [|kt ks IH]; intros m Hne HF; [congruence|].
  pose proof (Forall_inv HF) as Hx. pose proof (Forall_inv_tail HF) as Hr. cbn beta in Hx.
  cbn [fold_right]. destruct ks as [|kt' ks'].
  - cbn [fold_right]. lia.
  - rewrite (IH m); [lia | discriminate | exact Hr].
Qed.

Lemma uniform_TB_intro : forall p o (ks : list (bytes * tree)) m,
  Forall (fun kt => uniform (snd kt) = true /\ Tree.height (snd kt) = m) ks -> uniform (TB p o ks) = true.
Proof.
  intros p o ks m HF. cbn [uniform]. apply andb_true_iff. split.
  - apply forallb_forall. rewrite Forall_forall in HF. intros kt Hin. exact (proj1 (HF kt Hin)).
  - destruct ks as [|[k c] ks']; [reflexivity|]. pose proof (proj2 (Forall_inv HF)) as Hc.
    pose proof (Forall_inv_tail HF) as Hr. cbn [snd] in Hc.
    apply forallb_forall. rewrite Forall_forall in Hr. intros kt Hin. apply Nat.eqb_eq.
    rewrite (proj2 (Hr kt Hin)). now rewrite Hc.
Qed.

(* GOAL 1.  [PDp]'s height is [Tree.height] + 1 (a leaf has [PDp]-height 1, [Tree.height] 0) *)
Theorem PDp_uniform : forall h G d q f t, PDp G h d q -> tree_of f d q = Some t ->
  no_empty_branch t = true -> uniform t = true /\ S (Tree.height t) = h.
Proof.
  induction h as [|h IH]; intros G d q f t HP Ht Hneb; [destruct HP|].
  rewrite PDp_S in HP. destruct HP as (a & Hg & Hb). destruct f as [|f]; [discriminate|].
  destruct (ap_body a) as [l|es] eqn:Eb.
  - rewrite (tree_of_leaf f d q a l Hg Eb) in Ht. inversion Ht; subst t. destruct Hb as [-> _].
    split; reflexivity.
  - destruct Hb as [Hh HF]. destruct (tree_of_branch_inv f d q a es t Hg Eb Ht) as (ks & -> & H2).
    cbn [no_empty_branch] in Hneb. apply andb_true_iff in Hneb. destruct Hneb as [Hne Hall].
    assert (Hks : ks <> []) by (destruct ks; [discriminate | discriminate]).
    assert (Hc : Forall (fun kt : bytes * tree => uniform (snd kt) = true /\ Tree.height (snd kt) = pred h) ks).
    { clear Hne Hks Ht Eb Hg. rewrite forallb_forall in Hall.
      induction H2 as [|e kt es ks [_ He] _ IH2]; constructor.
      - inversion HF as [|? ? Hx _]; subst.
        destruct (IH G d (snd e) f (snd kt) Hx He (Hall kt (or_introl eq_refl))) as [U E]. split; [exact U | lia].
      - inversion HF as [|? ? _ Hr]; subst. apply IH2; [exact Hr|]. intros x Hx. apply Hall. now right. }
    split; [eapply uniform_TB_intro; exact Hc|].
    cbn [Tree.height]. rewrite (fold_max_const ks (pred h) Hks); [lia|].
    eapply Forall_impl; [|exact Hc]. cbn beta. intros kt [_ E]. exact E.
Qed.

Corollary PDp_uniform_nh : forall h G d q f t, PDp G h d q -> tree_of f d q = Some t ->
  wf_nh t = true -> uniform t = true /\ S (Tree.height t) = h.
Proof. intros h G d q f t HP Ht Hwf. eapply PDp_uniform; eauto. now apply wf_nh_neb. Qed.

(** ** the side condition cannot be dropped: [PDp] alone allows an EMPTY branch page at any height >= 2 *)
Module EmptyBranch.
Local Open Scope N_scope.
Definition ka : bytes := ["a"%byte]. Definition kc : bytes := ["c"%byte].
(* root 3 = branch over the EMPTY branch 4 and the branch 5; 5 over branch 6; 6 over leaf 7 *)
Definition dsk : disk :=
  [ (3, {| ap_over := 0; ap_body := Branches [(ka, 4); (kc, 5)] |});
    (4, {| ap_over := 0; ap_body := Branches [] |});
    (5, {| ap_over := 0; ap_body := Branches [(kc, 6)] |});
    (6, {| ap_over := 0; ap_body := Branches [(kc, 7)] |});
    (7, {| ap_over := 0; ap_body := Leaves [LKv kc [x02]] |}) ].
Definition tr : tree :=
  TB 3 0 [(ka, TB 4 0 []); (kc, TB 5 0 [(kc, TB 6 0 [(kc, TL 7 0 [EKv kc [x02]])])])].
Definition uniform_tr := Eval vm_compute in uniform tr.          (* = false *)
Definition height_4 := Eval vm_compute in Tree.height (TB 4 0 []). (* = 1, whereas PDp says 3 *)
End EmptyBranch.

(* the statement "PDp G h d q -> tree_of f d q = Some t -> uniform t = true" is false, and so is the height relation *)
Example PDp_alone_not_uniform :
  PDp (fun _ => True) 4 EmptyBranch.dsk 3%N /\
  bucket_tree EmptyBranch.dsk 3%N = Some EmptyBranch.tr /\
  uniform EmptyBranch.tr = false /\
  PDp (fun _ => True) 3 EmptyBranch.dsk 4%N /\ tree_of 1 EmptyBranch.dsk 4%N = Some (TB 4%N 0%N []) /\
  S (Tree.height (TB 4%N 0%N [])) <> 3.
Proof.
  split; [|split; [vm_compute; reflexivity|split; [vm_compute; reflexivity|split; [|split; [vm_compute; reflexivity|cbn; lia]]]]].
  - rewrite PDp_S. eexists. split; [reflexivity|]. cbn [ap_body]. split; [discriminate|].
    constructor; [|constructor; [|constructor]]; cbn [snd]; rewrite PDp_S.
    + eexists. split; [reflexivity|]. cbn [ap_body]. split; [discriminate | constructor].
    + eexists. split; [reflexivity|]. cbn [ap_body]. split; [discriminate|]. constructor; [|constructor]. cbn [snd].
      rewrite PDp_S. eexists. split; [reflexivity|]. cbn [ap_body]. split; [discriminate|]. constructor; [|constructor].
      cbn [snd]. rewrite PDp_S. eexists. split; [reflexivity|]. cbn [ap_body]. split; [reflexivity|]. repeat constructor.
  - rewrite PDp_S. eexists. split; [reflexivity|]. cbn [ap_body]. split; [discriminate | constructor].
Qed.

(* ====================================================================== *)
(** * 2. [PInv] + [PDp] give the full read-half invariant *)

Lemma PInv_wf_tree_nh : forall h d lo hi ok q f t, PInv h d lo hi ok q -> tree_of f d q = Some t ->
  wf_tree_nh t = true.
Proof.
  intros h d lo hi ok q f t HP Ht. destruct (tree_of_PageView f d q t Ht) as (l & Hv & Hfl).
  unfold wf_tree_nh. apply andb_true_iff. split; [eapply PInv_wf_nh; eauto|].
  rewrite Hfl, map_key_ent_of. eapply wf_page_sorted; [eapply PInv_wf_page; eauto | exact Hv].
Qed.

(* GOAL 2 *)
Theorem PDp_PInv_wf_tree : forall h' d lo hi ok q G h f t, PInv h' d lo hi ok q -> PDp G h d q ->
  tree_of f d q = Some t -> Tree.wf_tree t = true /\ S (Tree.height t) = h.
Proof.
  intros h' d lo hi ok q G h f t HI HD Ht.
  pose proof (PInv_wf_tree_nh h' d lo hi ok q f t HI Ht) as Hwf.
  assert (Hnh : wf_nh t = true) by (unfold wf_tree_nh in Hwf; apply andb_true_iff in Hwf; tauto).
  destruct (PDp_uniform_nh h G d q f t HD Ht Hnh) as [Hu Hh].
  split; [now apply wf_tree_of_nh | exact Hh].
Qed.

(* the exact height is at most the bound [PInv] carries *)
Lemma PDp_PInv_le : forall h' d lo hi ok q G h, PInv h' d lo hi ok q -> PDp G h d q -> h <= h'.
Proof.
  induction h' as [|h' IH]; intros d lo hi ok q G h HI HD; [destruct HI|].
  destruct h as [|h]; [lia|]. cbn [PInv] in HI. rewrite PDp_S in HD.
  destruct HI as (a & Hg & _ & Hb). destruct HD as (a' & Hg' & Hb'). rewrite Hg in Hg'. inversion Hg'; subst a'.
  destruct (ap_body a) as [l|es].
  - destruct Hb' as [-> _]. lia.
  - destruct Hb as (Hne & _ & _ & _ & HC). destruct Hb' as [_ HF].
    destruct es as [|e es]; [congruence|]. inversion HC as [|? b ? ? Hx _]; subst.
    pose proof (Forall_inv HF) as Hy. cbn beta in Hy. specialize (IH _ _ _ _ _ _ _ Hx Hy). lia.
Qed.

(* ====================================================================== *)
(** * 3. Every bucket of a uniform-depth strict state, reached by any path *)

Definition lent_okG (G : N -> Prop) (e : lent) : Prop := match e with EBk _ r _ => G r | EKv _ _ => True end.

(* the bucket entries of the decoded tree name roots that satisfy [G] *)
Lemma PDp_flatten_ok : forall G h d q f t, PDp G h d q -> tree_of f d q = Some t -> Forall (lent_okG G) (flatten t).
Proof.
  intros G h d q f t HD Ht. destruct (tree_of_PageView f d q t Ht) as (l & Hv & Hfl). rewrite Hfl.
  pose proof (PDp_view G h d q f l HD Hv) as HF. apply Forall_forall. intros x Hx.
  apply in_map_iff in Hx. destruct Hx as (e & <- & He). rewrite Forall_forall in HF. specialize (HF e He).
  destruct e as [k v|k r nx]; exact HF.
Qed.

(* one bucket *)
Theorem bucket_full : forall n m d r, sbk n d r -> dbk m d r ->
  exists t, bucket_tree d r = Some t /\ Tree.wf_tree t = true.
Proof.
  intros [|n] [|m] d r Hs Hd; try (destruct Hs; fail); try (destruct Hd; fail).
  destruct (sbk_bucket n d r Hs) as (t & l & Ht & Hwf & _). cbn [dbk] in Hd. destruct Hd as [h Hd].
  exists t. split; [exact Ht|].
  assert (Hnh : wf_nh t = true) by (unfold wf_tree_nh in Hwf; apply andb_true_iff in Hwf; tauto).
  destruct (PDp_uniform_nh h _ d r fuel0 t Hd Ht Hnh) as [Hu _]. now apply wf_tree_of_nh.
Qed.

(* following a path ([root_at], the cursor's own descent by names) keeps both invariants *)
Lemma root_at_okd : forall path n m d r r', sbk n d r -> dbk m d r -> root_at d r path = Some r' ->
  (exists n', sbk n' d r') /\ (exists m', dbk m' d r').
Proof.
  induction path as [|nm rest IH]; intros n m d r r' Hs Hd H.
  - cbn [root_at] in H. inversion H; subst r'. eauto.
  - destruct n as [|n]; [destruct Hs|]. destruct m as [|m]; [destruct Hd|].
    destruct (sbk_bucket n d r Hs) as (t & l & Ht & Hwf & Hfl & _ & _ & HF).
    cbn [dbk] in Hd. destruct Hd as [h Hd].
    cbn [root_at] in H. rewrite Ht, (get_ent_spec_nh t nm Hwf) in H.
    destruct (find (fun e => beq (lent_key e) nm) (flatten t)) as [e|] eqn:Ef; [|discriminate].
    apply find_some in Ef. destruct Ef as [Hin _].
    destruct e as [k v|k r0 nx]; [discriminate|].
    pose proof (PDp_flatten_ok _ h d r fuel0 t Hd Ht) as HG. rewrite Forall_forall in HG.
    pose proof (HG _ Hin) as Hd0. cbn [lent_okG] in Hd0.
    rewrite Hfl in Hin. apply in_map_iff in Hin. destruct Hin as (e & Ee & He).
    rewrite Forall_forall in HF. specialize (HF e He). destruct e as [k' v'|k' r1 nx']; [discriminate|].
    cbn [ent_of] in Ee. inversion Ee; subst k' r1 nx'. exact (IH n m d r0 r' HF Hd0 H).
Qed.

(* EVERY BUCKET the engine state holds -- whatever path of names leads to it -- passes the full checker *)
Theorem state_buckets_full : forall st, db_okd st ->
  forall path r, root_at (d_disk st) (d_root st) path = Some r ->
  exists t, bucket_tree (d_disk st) r = Some t /\ Tree.wf_tree t = true.
Proof.
  intros st [Hok [m Hd]] path r H. pose proof (db_okz_strict st Hok) as Hs.
  destruct (root_at_okd path 16 m _ _ r Hs Hd H) as [[n' Hs'] [m' Hd']]. eapply bucket_full; eauto.
Qed.

(* [EngineReadBridge.state_read] with the full invariant *)
Theorem state_read_full : forall st path, db_okd st ->
  match Spec.get_at path (abs_db st) with
  | Some (Spec.SBucket o x es) =>
      exists r t, root_at (d_disk st) (d_root st) path = Some r /\ bucket_tree (d_disk st) r = Some t /\
        Tree.wf_tree t = true /\ cursor_agrees t (Spec.SBucket o x es)
  | _ => root_at (d_disk st) (d_root st) path = None
  end.
Proof.
  intros st path Hokd. pose proof (state_read st path (db_okz_strict st (proj1 Hokd))) as H.
  destruct (Spec.get_at path (abs_db st)) as [[v|o x es]|]; try exact H.
  destruct H as (r & Hr & t & Ht & Hwf & Hag). exists r, t. split; [exact Hr|]. split; [exact Ht|].
  split; [|exact Hag]. destruct (state_buckets_full st Hokd path r Hr) as (t' & Ht' & Hfull).
  rewrite Ht in Ht'. inversion Ht'; subst t'. exact Hfull.
Qed.

(* GOAL 3: any history from the empty database; [EngineReadBridge.history_read] with [Tree.wf_tree] *)
Theorem history_read_full : forall P txs st', (0 < P)%N -> txs_ok' (init_db P) txs ->
  run_txs (init_db P) txs = Engine.Ok st' ->
  forall path,
  match Spec.get_at path (sem_txs txs (Spec.SBucket 0 0 [])) with
  | Some (Spec.SBucket o x es) =>
      exists r t, root_at (d_disk st') (d_root st') path = Some r /\ bucket_tree (d_disk st') r = Some t /\
        Tree.wf_tree t = true /\ cursor_agrees t (Spec.SBucket o x es)
  | _ => root_at (d_disk st') (d_root st') path = None
  end.
Proof.
  intros P txs st' HP Htx Hrun path.
  destruct (run_txs_refines_init' P txs st' HP Htx Hrun) as [_ Habs].
  pose proof (run_txs_okd txs _ _ (init_db_okd P HP) Htx Hrun) as Hokd.
  rewrite <- Habs. exact (state_read_full st' path Hokd).
Qed.

(* ... and for every bucket the engine state holds, reference or not *)
Corollary history_buckets_full : forall P txs st', (0 < P)%N -> txs_ok' (init_db P) txs ->
  run_txs (init_db P) txs = Engine.Ok st' ->
  forall path r, root_at (d_disk st') (d_root st') path = Some r ->
  exists t, bucket_tree (d_disk st') r = Some t /\ Tree.wf_tree t = true.
Proof.
  intros P txs st' HP Htx Hrun. apply state_buckets_full.
  exact (run_txs_okd txs _ _ (init_db_okd P HP) Htx Hrun).
Qed.

(** ** on the example history of EngineRefines *)
Module FullExamples.
Import Ex3 ExHistory.

(* the nested bucket kb/km after the two-transaction history: the full checker accepts its tree, and the cursor on
   it answers as the reference does *)
Example hist_full_km : exists r t,
  root_at (d_disk hist_st) (d_root hist_st) [kb; km] = Some r /\ bucket_tree (d_disk hist_st) r = Some t /\
  Tree.wf_tree t = true /\ Cursor.get t ke = Some (Spec.IKv ke [x04]) /\
  Cursor.scan t = Cursor.CVal [Spec.IKv ke [x04]].
Proof.
  pose proof (history_read_full 4096 hist hist_st eq_refl hist_ok' hist_run_ok [kb; km]) as H.
  assert (E : Spec.get_at [kb; km] (sem_txs hist (Spec.SBucket 0 0 [])) = Some (Spec.SBucket 0 1 [(ke, Spec.SVal [x04])]))
    by (vm_compute; reflexivity).
  rewrite E in H. destruct H as (r & t & Hr & Ht & Hwf & Hget & Hscan & _). exists r, t.
  rewrite !Hget, Hscan. repeat split; auto.
Qed.

(* every bucket of [hist_st], by the theorem *)
Example hist_all_full : forall path r, root_at (d_disk hist_st) (d_root hist_st) path = Some r ->
  exists t, bucket_tree (d_disk hist_st) r = Some t /\ Tree.wf_tree t = true.
Proof. exact (history_buckets_full 4096 hist hist_st eq_refl hist_ok' hist_run_ok). Qed.

(* the same three buckets evaluated directly (no theorem) *)
Example hist_full_eval :
  option_map Tree.wf_tree (bucket_tree (d_disk hist_st) (d_root hist_st)) = Some true /\
  option_map Tree.wf_tree (bucket_tree (d_disk hist_st) 3) = Some true /\
  option_map Tree.wf_tree (bucket_tree (d_disk hist_st) 2) = Some true.
Proof. vm_compute. repeat split; reflexivity. Qed.
End FullExamples.

(* ====================================================================== *)
(** * 4. The file checker's tree verdict [Tree.bucket_wf] on the file image of a reachable state

    [Tree.bucket_wf fuel rd P np root] (the tree part of [Tree.inv_check]) builds every bucket's tree with fuel
    [N.to_nat np] (np = the number of pages of the file) and follows nested buckets with fuel [fuel]
    ([inv_check] passes [N.to_nat np] for it too).  Both fuels suffice: a tree of exact height h has h distinct head
    pages, a nesting chain of k buckets k distinct roots, all of them are among the pairwise distinct reachable
    head pages [Rof st], and those are below the high-water mark [d_np st]. *)

(* the tree is already built with fuel = the exact height *)
Lemma PDp_tree_of_exact : forall h G d q f t, PDp G h d q -> tree_of f d q = Some t -> tree_of h d q = Some t.
Proof.
  induction h as [|h IH]; intros G d q f t HP Ht; [destruct HP|].
  rewrite PDp_S in HP. destruct HP as (a & Hg & Hb). destruct f as [|f]; [discriminate|].
  destruct (ap_body a) as [l|es] eqn:Eb.
  - rewrite (tree_of_leaf f d q a l Hg Eb) in Ht. rewrite <- Ht. eapply tree_of_leaf; eauto.
  - destruct Hb as [_ HF]. destruct (tree_of_branch_inv f d q a es t Hg Eb Ht) as (ks & -> & H2).
    eapply tree_of_branch_intro; eauto. clear Ht Eb Hg.
    induction H2 as [|e kt es ks [E1 E2] _ IH2]; constructor.
    + split; [exact E1|]. eapply IH; [exact (Forall_inv HF) | exact E2].
    + apply IH2. exact (Forall_inv_tail HF).
Qed.

(* a strict tree of exact height h has at least h head pages *)
Lemma PInv_PDp_pages : forall h' d lo hi ok q G h f, PInv h' d lo hi ok q -> PDp G h d q -> h <= f ->
  h <= S (List.length (ppages f d q)).
Proof.
  induction h' as [|h' IH]; intros d lo hi ok q G h f HI HD Hf; [destruct HI|].
  destruct h as [|h]; [lia|]. destruct f as [|f]; [lia|]. cbn [PInv] in HI. rewrite PDp_S in HD.
  destruct HI as (a & Hg & _ & Hb). destruct HD as (a' & Hg' & Hb'). rewrite Hg in Hg'. inversion Hg'; subst a'.
  cbn [ppages]. rewrite Hg. destruct (ap_body a) as [l|es].
  - destruct Hb' as [-> _]. lia.
  - destruct Hb as (Hne & _ & _ & _ & HC). destruct Hb' as [_ HF].
    destruct es as [|e es]; [congruence|]. pose proof (Forall_inv HF) as Hy. cbn beta in Hy.
    inversion HC as [|? b ? bs Hx _ E1 E2]. clear E1 E2.
    specialize (IH _ _ _ _ _ _ _ f Hx Hy ltac:(lia)).
    rewrite app_length, map_length. cbn [flat_map List.length]. rewrite app_length. lia.
Qed.

(* pigeonhole on page ids *)
Lemma NoDup_N_bound : forall (l : list N) np, NoDup l -> (forall x, In x l -> (x < np)%N) ->
  List.length l <= N.to_nat np.
Proof.
  intros l np Hnd Hlt. rewrite <- (map_length N.to_nat l), <- (seq_length (N.to_nat np) 0).
  apply NoDup_incl_length.
  - apply FinFun.Injective_map_NoDup; [|exact Hnd]. intros x y E. now apply N2Nat.inj.
  - intros x Hx. apply in_map_iff in Hx. destruct Hx as (y & <- & Hy). apply in_seq. specialize (Hlt y Hy). lia.
Qed.

Lemma NoDup_flat_map_heads : forall {A} (f : A -> list A) l, (forall x, In x (f x)) -> NoDup (flat_map f l) -> NoDup l.
Proof.
  intros A f l Hf. induction l as [|a l IH]; intros H; [constructor|]. cbn [flat_map] in H. constructor.
  - intros Hin. apply (NoDup_app_disj _ _ a H (Hf a)). apply in_flat_map. exists a. split; [exact Hin | apply Hf].
  - apply IH. exact (NoDup_app_r _ _ H).
Qed.

(* the reachable head pages are pairwise distinct and below the high-water mark: there are at most [d_np st] *)
Lemma Rof_length : forall st, db_okz st -> List.length (Rof st) <= N.to_nat (d_np st).
Proof.
  intros st [(_ & Hal & Hnd & _) _]. destruct Hal as (_ & _ & _ & _ & _ & _ & _ & _ & Hlive).
  apply NoDup_N_bound.
  - apply (NoDup_flat_map_heads (prun (d_disk st))); [apply In_prun_self|]. exact (NoDup_app_l _ _ Hnd).
  - intros x Hx. apply (Hlive x). now apply R_live.
Qed.

(* sub-lists of a flat_map *)
Lemma flat_map_length_In : forall {A B} (f : A -> list B) l x, In x l -> List.length (f x) <= List.length (flat_map f l).
Proof.
  intros A B f l x. induction l as [|a l IH]; intros Hin; [destruct Hin|]. cbn [flat_map]. rewrite app_length.
  destruct Hin as [->|Hin]; [lia|]. specialize (IH Hin). lia.
Qed.

Module FileChecker.
Import Codec CodecFacts BytesLevel.

Lemma Forall2_all_true : forall {A} (f : A -> res bool) l, (forall x, In x l -> f x = Ok true) ->
  Forall2 (fun x y => f x = Ok y) l (map (fun _ => true) l).
Proof.
  intros A f l. induction l as [|a l IH]; intros H; [constructor|]. cbn [map]. constructor.
  - apply H. now left.
  - apply IH. intros x Hx. apply H. now right.
Qed.

Lemma forallb_all_true : forall {A} (l : list A), forallb (fun b : bool => b) (map (fun _ => true) l) = true.
Proof. induction l as [|a l IH]; [reflexivity | exact IH]. Qed.

(* ONE BUCKET WITH EVERYTHING NESTED IN IT: the checker's verdict is [Ok true] as soon as both fuels cover the number
   of head pages of the bucket's footprint *)
Theorem bucket_wf_ok : forall pad rd P d R np, (0 < P)%N -> closedR d R -> file_encodes pad rd P d R ->
  forall n F r m, sbk n d r -> dbk m d r -> In r R ->
    List.length (fpg n d r) <= F -> List.length (fpg n d r) <= N.to_nat np ->
    Tree.bucket_wf F rd P np r = Ok true.
Proof.
  intros pad rd P d R np HP HC HE. induction n as [|n IH]; intros F r m Hs Hd Hr HF Hnp; [destruct Hs|].
  destruct m as [|m]; [destruct Hd|]. cbn [dbk] in Hd. destruct Hd as [h Hd].
  cbn [sbk] in Hs. destruct Hs as (h' & l & Hh & HI & _ & Hv & HFs).
  rewrite fpg_S, app_length in HF, Hnp. cbn [List.length] in HF, Hnp.
  rewrite (PageView_page_ents d h' r l Hv fuel0 Hh) in HF, Hnp.
  destruct F as [|F]; [lia|].
  destruct (PageView_tree d h' r l Hv fuel0 Hh) as (t & Ht & Hfl & _).
  pose proof (PDp_PInv_le h' d None None None r _ h HI Hd) as Hle.
  pose proof (PInv_PDp_pages h' d None None None r _ h fuel0 HI Hd ltac:(lia)) as Hpg.
  pose proof (PDp_tree_of_exact h _ d r fuel0 t Hd Ht) as Hex.
  pose proof (tree_of_mono h d r t Hex (N.to_nat np) ltac:(lia)) as Hnpt.
  pose proof (build_tree_of pad rd P d R HP HC HE (N.to_nat np) r t Hr Hnpt) as Hbt.
  cbn [Tree.bucket_wf]. rewrite Hbt. cbn [bind].
  rewrite (mapM_Forall2 _ (flatten t) (map (fun _ => true) (flatten t))).
  - cbn [bind]. rewrite forallb_all_true, andb_true_r. f_equal.
    exact (proj1 (PDp_PInv_wf_tree h' d None None None r _ h fuel0 t HI Hd Ht)).
  - apply Forall2_all_true. intros x Hx. rewrite Hfl in Hx. apply in_map_iff in Hx. destruct Hx as (e & <- & He).
    destruct e as [k v|k r' nx]; cbn [ent_of]; [reflexivity|].
    pose proof (PDp_view _ h d r h' l Hd Hv) as HG. rewrite Forall_forall in HG, HFs.
    pose proof (HG _ He) as Hd'. pose proof (HFs _ He) as Hs'. cbn [ent_ok] in Hd'. cbn beta iota in Hs'.
    pose proof (closed_view_entry d R h' r l k r' nx HC Hr Hv He) as Hr'.
    pose proof (flat_map_length_In (fun e => match e with LBk _ r' _ => fpg n d r' | LKv _ _ => [] end) l _ He) as Hsub.
    cbn beta iota in Hsub. apply (IH F r' m Hs' Hd' Hr'); lia.
Qed.

(* A STATE: any file holding the bytes the model writes for the reachable pages; the fuels are the ones
   [Tree.inv_check] passes (the number of pages, for the tree height and for the nesting) *)
Theorem state_bucket_wf : forall st pad rd P, db_okd st -> (0 < P)%N ->
  file_encodes pad rd P (d_disk st) (Rof st) ->
  Tree.bucket_wf (N.to_nat (d_np st)) rd P (d_np st) (d_root st) = Ok true.
Proof.
  intros st pad rd P [Hok [m Hd]] HP HE. pose proof (db_okz_strict st Hok) as Hs.
  pose proof (Rof_length st Hok) as Hlen. destruct Hok as [(_ & Hal & _) _].
  destruct Hal as (_ & _ & _ & _ & _ & _ & Hroot & HC & _).
  exact (bucket_wf_ok pad rd P (d_disk st) (Rof st) (d_np st) HP HC HE 16 _ (d_root st) m Hs Hd Hroot Hlen Hlen).
Qed.

(* ANY HISTORY, any such file *)
Theorem history_bucket_wf_bytes : forall P0 txs st' pad rd P, (0 < P0)%N -> txs_ok' (init_db P0) txs ->
  run_txs (init_db P0) txs = Engine.Ok st' -> (0 < P)%N ->
  file_encodes pad rd P (d_disk st') (Rof st') ->
  Tree.bucket_wf (N.to_nat (d_np st')) rd P (d_np st') (d_root st') = Ok true.
Proof.
  intros P0 txs st' pad rd P HP0 Htx Hrun HP HE.
  exact (state_bucket_wf st' pad rd P (run_txs_okd txs _ _ (init_db_okd P0 HP0) Htx Hrun) HP HE).
Qed.

(* GOAL 4, closed form: the image of the reachable pages of the committed state after any history; the only
   hypothesis beyond the history is [page_fits] (8-byte fields, node within its page run) *)
Theorem history_bucket_wf : forall P0 txs st' pad P, (0 < P0)%N -> txs_ok' (init_db P0) txs ->
  run_txs (init_db P0) txs = Engine.Ok st' -> (0 < P)%N ->
  (forall p a, In p (Rof st') -> dget (d_disk st') p = Some a -> page_fits P p a) ->
  let rd := reader_of (image pad P (d_disk st') (Rof st') (zeros (N.to_nat (d_np st' * P)))) in
  Tree.bucket_wf (N.to_nat (d_np st')) rd P (d_np st') (d_root st') = Ok true.
Proof.
  intros P0 txs st' pad P HP0 Htx Hrun HP Hfit rd.
  destruct (run_txs_refines_init' P0 txs st' HP0 Htx Hrun) as [Hok _].
  exact (history_bucket_wf_bytes P0 txs st' pad rd P HP0 Htx Hrun HP (image_encodes st' pad P Hok HP Hfit)).
Qed.

(** ** on the file image of the example history *)
Import Ex3 ExHistory BytesExamples.
Example hist_file_bucket_wf :
  Tree.bucket_wf (N.to_nat (d_np hist_st)) (reader_of hist_file) 4096 (d_np hist_st) (d_root hist_st) = Ok true.
Proof. exact (history_bucket_wf 4096 hist hist_st ex_pad 4096 eq_refl hist_ok' hist_run_ok eq_refl hist_fits). Qed.

(* evaluated directly (no theorem): 8 pages of 4096 bytes, decoded, three nested buckets checked *)
Example hist_file_bucket_wf_eval :
  Tree.bucket_wf (N.to_nat (d_np hist_st)) (reader_of hist_file) 4096 (d_np hist_st) (d_root hist_st) = Ok true.
Proof. vm_compute. reflexivity. Qed.
End FileChecker.

(* ====================================================================== *)
(* Summary.
   1. [PDp_uniform] / [PDp_uniform_nh]: exact height + no empty branch (or [wf_nh]) => [uniform] and
      [S (Tree.height t) = h];  [PDp_alone_not_uniform]: the side condition is needed.
   2. [PDp_PInv_wf_tree]: [PInv] + [PDp] => [Tree.wf_tree];  [PDp_PInv_le]: exact height <= [PInv]'s bound.
   3. [bucket_full], [root_at_okd], [state_buckets_full], [state_read_full], [history_read_full],
      [history_buckets_full]: every bucket of every reachable state, reached by any path of names, has a tree
      the full checker accepts, on which the cursor agrees with the reference.
   4. [FileChecker.bucket_wf_ok], [state_bucket_wf], [history_bucket_wf_bytes], [history_bucket_wf]:
      [Tree.bucket_wf], with the fuels [Tree.inv_check] uses, returns [Ok true] on the file image.
      NOT covered: the rest of [Tree.inv_check] ([open_db] on header pages, which the image does not contain,
      and [partition_ok], the subject of EngineNoLeak). *)
Print Assumptions PDp_uniform.
Print Assumptions PDp_alone_not_uniform.
Print Assumptions PDp_PInv_wf_tree.
Print Assumptions state_buckets_full.
Print Assumptions state_read_full.
Print Assumptions history_read_full.
Print Assumptions history_buckets_full.
Print Assumptions FullExamples.hist_full_km.
Print Assumptions FileChecker.bucket_wf_ok.
Print Assumptions FileChecker.state_bucket_wf.
Print Assumptions FileChecker.history_bucket_wf_bytes.
Print Assumptions FileChecker.history_bucket_wf.
Print Assumptions FileChecker.hist_file_bucket_wf.
