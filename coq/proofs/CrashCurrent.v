(* instances of the crash theorems for the commit order the translator read from the CURRENT source
   (gen/Consts.v commit_order). These lemmas are the proof obligations that break when write_data's
   order changes (e.g. the sync between data and header is dropped). *)
From Coq Require Import List NArith String.
From Jamm Require Import Bytes Consts PL Crash CrashFacts.
Import ListNotations.

Lemma current_has_barrier : has_barrier commit_order = true.
Proof. vm_compute. reflexivity. Qed.
Lemma current_no_data_after_header : no_data_after_header commit_order = true.
Proof. vm_compute. reflexivity. Qed.
Lemma current_header_after_data : header_after_data false commit_order = true.
Proof. vm_compute. reflexivity. Qed.
Lemma current_io_shape : forall written,
  commit_io written = map IoData written ++ [IoSync; IoHeader; IoSync].
Proof. intro written. cbv [commit_io commit_io_of commit_order flat_map step_io String.eqb Ascii.eqb Bool.eqb app]. reflexivity. Qed.
Lemma current_ends_with_sync : forall written, last (commit_io written) IoHeader = IoSync.
Proof.
  intro written. rewrite current_io_shape.
  change [IoSync; IoHeader; IoSync] with ([IoSync; IoHeader] ++ [IoSync]).
  rewrite app_assoc. apply last_last.
Qed.

Theorem power_current : forall d cur newh t written, commit_setting d cur newh t written ->
  forall n fates, pre_or_post d cur newh t written
    (power_image t newh (negb (current_slot d)) d (commit_io written) n fates).
Proof.
  intros. unfold commit_io. eapply C02_power; eauto using current_has_barrier, current_no_data_after_header.
Qed.

Theorem durable_current : forall d cur newh t written, commit_setting d cur newh t written ->
  let ios := commit_io written in forall fates,
  let img := power_image t newh (negb (current_slot d)) d ios (List.length ios) fates in
  select img = Some newh /\ intact (orig_new d t written) img newh.
Proof.
  intros d cur newh t written H. unfold commit_io.
  eapply C02_durable; eauto using current_has_barrier.
  apply current_ends_with_sync.
Qed.

Theorem fault_current : forall d cur newh t written, commit_setting d cur newh t written ->
  forall k f, pre_or_post d cur newh t written
    (fault_image t newh (negb (current_slot d)) d (commit_io written) k f).
Proof.
  intros. unfold commit_io. eapply C11_disk; eauto using current_header_after_data, current_no_data_after_header.
Qed.
