(* instances of the crash theorems for the commit order the translator read from the CURRENT source
   (gen/Consts.v commit_order). These lemmas are the proof obligations that break when write_data's
   order changes (e.g. the sync between data and header is dropped). *)
From Coq Require Import List NArith String.
From Jamm Require Import Bytes Consts PL Crash CrashFacts.
Import ListNotations.

Lemma current_has_barrier : has_barrier commit_order = true.
Proof. vm_compute. reflexivity. Qed.
Lemma current_no_data_after_header : no_data_after_header commit_order = true.
Proof. vm_compute. reflexivity. Qed.
Lemma current_header_after_data : header_after_data false commit_order = true.
Proof. vm_compute. reflexivity. Qed.
Lemma current_io_shape : forall written,
  commit_io written = map IoData written ++ [IoSync; IoHeader; IoSync].
Proof. intro written. cbv [commit_io commit_io_of commit_order flat_map step_io String.eqb Ascii.eqb Bool.eqb app]. reflexivity. Qed.
Lemma current_ends_with_sync : forall written, last (commit_io written) IoHeader = IoSync.
Proof.
  intro written. rewrite current_io_shape.
  change [IoSync; IoHeader; IoSync] with ([IoSync; IoHeader] ++ [IoSync]).
  rewrite app_assoc. apply last_last.
Qed.

Theorem power_current : forall d cur newh t written, commit_setting d cur newh t written ->
  forall n fates, pre_or_post d cur newh t written
    (power_image t newh (negb (current_slot d)) d (commit_io written) n fates).
Proof.
  intros. unfold commit_io. eapply C02_power; eauto using current_has_barrier, current_no_data_after_header.
Qed.

Theorem durable_current : forall d cur newh t written, commit_setting d cur newh t written ->
  let ios := commit_io written in forall fates,
  let img := power_image t newh (negb (current_slot d)) d ios (List.length ios) fates in
  select img = Some newh /\ intact (orig_new d t written) img newh.
Proof.
  intros d cur newh t written H. unfold commit_io.
  eapply C02_durable; eauto using current_has_barrier.
  apply current_ends_with_sync.
Qed.

Theorem fault_current : forall d cur newh t written, commit_setting d cur newh t written ->
  forall k f, pre_or_post d cur newh t written
    (fault_image t newh (negb (current_slot d)) d (commit_io written) k f).
Proof.
  intros. unfold commit_io. eapply C11_disk; eauto using current_header_after_data, current_no_data_after_header.
Qed.

(* ---------- C11: the in-memory free list follows the visible header ---------- *)
Lemma mem_consistent_repaired : forall d cur newh t written, commit_setting d cur newh t written ->
  forall img, pre_or_post d cur newh t written img ->
  mem_consistent img cur newh (mem_after true false img newh).
Proof.
  intros d cur newh t written S img H.
  assert (Hne : h_tx cur <> h_tx newh).
  { destruct S as [_ Htx Hlt _ _ _]. rewrite Htx. intro E. rewrite E in Hlt. apply N.lt_irrefl in Hlt. exact Hlt. }
  unfold mem_consistent, mem_after. split; intro Hs; rewrite Hs.
  - rewrite N.eqb_refl. reflexivity.
  - destruct (N.eqb_spec (h_tx cur) (h_tx newh)) as [E|E]; [contradiction|reflexivity].
Qed.

Theorem fault_mem_current : forall d cur newh t written, commit_setting d cur newh t written ->
  publish_on_visible_header = true ->
  forall k f, let img := fault_image t newh (negb (current_slot d)) d (commit_io written) k f in
  pre_or_post d cur newh t written img /\
  mem_consistent img cur newh (mem_after publish_on_visible_header false img newh).
Proof.
  intros d cur newh t written S Hp k f img. split.
  - apply fault_current; assumption.
  - rewrite Hp. eapply mem_consistent_repaired; eauto. apply fault_current; assumption.
Qed.

Lemma current_publishes_on_visible : publish_on_visible_header = true.
Proof. reflexivity. Qed.

(* the pinned behaviour (publish only after full success) is inconsistent when the final sync fails *)
Theorem fault_mem_pinned_refuted :
  exists d cur newh t written k f, commit_setting d cur newh t written /\
    let img := fault_image t newh (negb (current_slot d)) d (commit_io written) k f in
    select img = Some newh /\ mem_after false false img newh = MemOld.
Proof.
  exists ex_d, ex_cur, ex_newh, 2%N, [4%N; 5%N], 4%nat, Applied.
  split; [exact ex_setting|]. vm_compute. split; reflexivity.
Qed.
