(* ONE TRANSACTION OF A WRITER THAT RESPECTS OPEN READERS (run_tx_r): the single-transaction theorems.

   Invariant of committed states with readers: [db_okr st] := [db_okz st] (EngineAllocInv) and [pend_inv st]:
   no page is listed twice in the pending batches, no pending page is free.  (Without readers the second part is
   not needed: [begin_w] releases every batch.  With readers a batch may stay pending over several transactions
   while older batches are released and their pages handed out again.)

   Method: [EngineRBegin.run_tx_r_decomp] runs the reader-less transaction on [hat st b] next to the transaction
   with readers; the invariants of the overlay ([OwnI], [SReady], ...) established by the existing layers for the
   reader-less run hold verbatim for the run with readers (they mention the allocator state only through
   [freed_in_tx], which ignores the batches of older transactions); the layers W1 / W2 ([RecOwn_all]) are generic
   in the pending list and in the protected set, taken here as [heldr st b] = every page below the high-water mark
   that is not free after the bounded release -- the live pages AND the pages of the batches that stay pending. *)
From Coq Require Import List NArith Bool Arith Lia ZifyN ZifyNat ZifyBool Permutation.
From Coq.Strings Require Import Byte.
From Jamm Require Spec.
From Jamm Require Import Bytes BytesFacts Tree Cursor SearchFacts Engine EngineAbs EngineFacts EngineMergeFacts.
From Jamm Require Import EngineModifyFacts EngineSpillFacts EnginePathFacts EngineBridgeFacts EngineRebalanceFacts.
From Jamm Require FreelistFacts EngineAllocFacts EngineSpillWfFacts.
From Jamm Require Import EngineTxInvFacts EngineSpillBucketFacts EngineRefines.
Import ListNotations.
Import Coq.Strings.String.StringSyntax. Delimit Scope string_scope with string.
Local Open Scope list_scope. Local Open Scope nat_scope.
Set Warnings "-abstract-large-number".
Arguments N.add : simpl never. Arguments N.sub : simpl never. Arguments N.mul : simpl never.
Arguments N.div : simpl never. Arguments N.ltb : simpl never. Arguments N.leb : simpl never.
Arguments N.eqb : simpl never.

From Jamm Require Import EngineOwnDefs EngineOwnWr EngineOwnOps EngineOwnReb EngineOwnSpill EngineOwnLnk EngineAllocInv.
From Jamm Require Import EngineNoLeakDefs EngineNoLeakCov EngineNoLeakOps EngineNoLeakReb.
From Jamm Require Import EngineCow EngineR EngineRSim EngineRBegin.

(* ====================================================================== *)
(** * 1. What the existing layers say about a reader-less transaction, up to [commit] *)

Record tx_ready (st : db) (ops : list op) (root' : bucket) (s' : txs) (b1 : bucket) (s1 : txs) : Prop := {
  rd_fresh : fresh_inv (live_of st (Rof st)) s1;
  rd_wr : wr s1 = [];
  rd_txid : txid s1 = (d_tx st + 1)%N;
  rd_free : free s1 = free (begin_w st);
  rd_np : np s1 = d_np st;
  rd_psz : psz s1 = d_psz st;
  rd_ids : pend_ids_ok s1;
  rd_cur : pend_cur s1;
  rd_foot : forall x, freed_in_tx s1 x = true -> In x (foot (d_disk st) 16 (d_root st));
  rd_S : SReady (d_disk st) (Rof st) b1;
  rd_O : OvlAbs (d_disk st) b1 (sem_tx ops (abs_db st));
  rd_SX : SReadyX (d_disk st) (Rof st) b1;
  rd_Own : OwnI (d_disk st) 16 s1 b1 (d_root st);
  rd_Lnk : Lnk (d_disk st) 16 b1 (d_root st);
  rd_Cov : Cov (d_disk st) 16 s1 b1 (d_root st) }.

Lemma run_tx_ready : forall st ops ord st', db_okz st -> Forall (op_ok (d_disk st)) ops ->
  run_tx st ops ord = Ok st' ->
  exists root' s' b1 s1,
    tx_fold st ops (root_bucket st, begin_w st) = Ok (root', s') /\
    rebalance fuel0 (d_disk st) root' s' = Ok (b1, s1) /\
    tx_ready st ops root' s' b1 s1.
Proof.
  intros st ops ord st' [Hok' Hz] Hops Hrun.
  pose proof (db_ok'_db_ok st Hok') as Hok. pose proof Hok' as (Hdb & HA & Hnd & Hpl).
  set (R := Rof st) in *.
  destruct (run_tx_rebalance_ready st ops ord st' Hdb Hops Hrun)
    as (root' & s' & b1r & s1r & fv & v & Hf & _ & _ & Hfr & [f HSD] & Hrr & _ & _ & _ & Tx & _).
  destruct (run_tx_commit_ready st R ops ord st' Hdb HA Hops Hrun)
    as (root2 & s2' & b1 & s1 & Hf2 & Hc & Hr & _ & _ & Hfi & Hwr & HS & HO).
  rewrite Hf in Hf2. inversion Hf2; subst root2 s2'. rewrite Hrr in Hr. inversion Hr; subst b1r s1r.
  pose proof HA as (_ & _ & _ & _ & _ & _ & _ & HC & _).
  assert (HSX : SReadyX (d_disk st) R b1).
  { eapply (rebalance_SReadyX (d_disk st) R HC fuel0 f 9); eauto; [unfold fuel0; lia|]. eapply tx_ops_XDF; eauto. }
  destruct (tx_fold_own st ops root' s' Hok' Hf) as (HO1 & HF1 & HI1 & Hb0).
  pose proof (tx_frees_pend_cur _ _ Hb0 Hfr) as HPC1.
  destruct (rebalance_own_missing0 (d_disk st) fuel0 f 16 s' root' (d_root st) b1 s1 Hz HSD HO1 HI1 HPC1 Hrr) as (HO2 & HF2 & HI2 & HPC2).
  destruct Tx as (T1 & T2 & T3 & T4 & _). destruct Hfr as (F1 & F2 & F3 & F4 & _).
  destruct (begin_w_fields st) as (_ & Enp & Epsz).
  pose proof (run_Lnk st ops root' s' b1 s1 Hok' Hops Hf Hrr) as HL.
  pose proof (tx_fold_cov st ops root' s' Hok' Hf) as HCv1.
  destruct (rebalance_cov (d_disk st) fuel0 f 16 s' root' (d_root st) b1 s1 Hz HSD HO1 HI1 HPC1 HCv1 Hrr) as [HCv2 _].
  exists root', s', b1, s1. split; [exact Hf|]. split; [exact Hrr|].
  constructor; try assumption; try congruence.
  - rewrite T2, F2. apply begin_w_txid.
  - intros x Hx. destruct (HF2 x Hx) as [A|A]; [now apply HF1 | exact A].
Qed.

(* ====================================================================== *)
(** * 2. The spill and free-list steps of [commit], for any pending list and any protected set *)

(* EngineCow.commit_states_gen / EngineOwnSpill.commit_states with [pend_ok0 s1] as a premise (instead of "every
   pending page was handed back by this transaction", which holds only when no batch of an older transaction is
   left) *)
Lemma commit_states_r : forall st b s ord st' b1 s1 m Lx,
  db_ok' st -> dget (d_disk st) 0%N = None ->
  incl (live_of st (Rof st)) Lx -> fresh_inv Lx s1 ->
  rebalance fuel0 (d_disk st) b s = Ok (b1, s1) ->
  wr s1 = [] -> pend_ids_ok s1 -> pend_ok0 s1 ->
  SReady (d_disk st) (Rof st) b1 -> OvlAbs (d_disk st) b1 m -> SReadyX (d_disk st) (Rof st) b1 ->
  OwnI (d_disk st) 16 s1 b1 (d_root st) -> Lnk (d_disk st) 16 b1 (d_root st) ->
  commit st b s ord = Ok st' ->
  exists r nx s4 alloc flp fln Dall,
    st' = {| d_disk := apply_wr (wr s4) (psz s4) (d_disk st); d_root := r; d_next := nx; d_np := np s4; d_fl := flp;
             d_fln := fln; d_flids := all_pages s4; d_tx := txid s4; d_free := free s4; d_pending := pending s4;
             d_psz := psz s4 |} /\
    frame Lx s1 s4 (nrun flp fln ++ alloc) Dall /\
    (forall x, In x Dall -> In x alloc \/ In x (live_of st (Rof st))) /\
    (forall x, In x alloc -> (2 <= x)%N) /\ (forall x, In x (nrun flp fln) -> (2 <= x)%N) /\
    (forall x, In x (nrun flp fln) -> ~ In x (alloc ++ Lx)) /\
    wr_ok Lx s4 /\ pend_ok0 s4 /\ pend_ids_ok s4 /\
    (forall q v x, wr_get (wr s4) q = Some v -> In x (wrun (psz s4) q v) -> ~ In x (nrun flp fln)) /\
    TreeOK (d_disk st) 16 alloc (foot (d_disk st) 16 (d_root st)) s4 r.
Proof.
  intros st b s ord st' b1 s1 m Lx (Hstrict & HA & HndL & _) Hz HLx Hfi Hreb Hwr Hpid Hp0 HS HO HSX HOw HLk H.
  set (d := d_disk st) in *. set (R := Rof st) in *. set (L := live_of st R) in *.
  pose proof HA as (_ & _ & _ & _ & _ & _ & _ & HCR & Hlive).
  assert (HkL : forall q x, In q R -> In x (prun d q) -> In x Lx).
  { intros q x Hq Hx. apply HLx. unfold L, live_of. apply in_or_app. left. apply in_flat_map. eauto. }
  assert (HfL0 : incl (foot d 16 (d_root st)) L) by (intros x Hx; now apply foot_live).
  assert (HfL : incl (foot d 16 (d_root st)) Lx) by (intros x Hx; apply HLx; now apply foot_live).
  rewrite commit_apply_wr in H. unfold commit_with_apply_wr in H. fold d in H. rewrite Hreb in H. cbn [bind] in H.
  apply bind_ok_inv in H. destruct H as ([[[r nx] s2] ord'] & Hsp & H).
  assert (H16 : 16 <= fuel0) by (unfold fuel0; lia).
  assert (Hu : unwritten R s1) by (intros x _; rewrite Hwr; reflexivity).
  pose proof (RecOwn_all d R Lx HCR Hz HkL W1a W1b W1c W1d fuel0 16 Lx b1 s1 ord (r, nx, s2, ord') (d_root st) m H16 Hfi
                (fun x Hx => Hx) Hu
                (wr_ok_nil Lx s1 Hwr) Hp0 Hpid HS HO HSX HOw HLk HfL Hsp) as HP.
  cbn [OwnPost] in HP. destruct HP as (alloc & dead & F1 & Hdl & W2 & P2 & I2 & HW).
  set (s3 := free_pages s2 (d_fl st) (d_fln st)) in H.
  destruct (tx_allocate s3 (40 + 8 * llen (all_pages s3))) as [[flp fln] s4] eqn:Hal.
  inversion H; subst st'. clear H.
  pose proof (fr_fresh _ _ _ _ _ F1) as Hfi2.
  assert (HLa : forall x, In x Lx -> In x (alloc ++ Lx)) by (intros x Hx; apply in_or_app; now right).
  pose proof (free_pages_frame (alloc ++ Lx) s2 (d_fl st) (d_fln st) Hfi2) as G1. fold s3 in G1.
  assert (Hfl0 : forall x, In x (nrun (d_fl st) (d_fln st)) -> In x L).
  { intros x Hx. unfold L, live_of. apply in_or_app. now right. }
  assert (Hfl : forall x, In x (nrun (d_fl st) (d_fln st)) -> In x Lx) by (intros x Hx; apply HLx; now apply Hfl0).
  destruct (W1b Lx s2 (d_fl st) (d_fln st) (fresh_inv_sub _ _ _ HLa Hfi2) W2 P2 I2 Hfl) as (W3 & P3 & I3). fold s3 in W3, P3, I3.
  assert (Hpos : (0 < 40 + 8 * llen (all_pages s3))%N) by lia.
  pose proof (fr_fresh _ _ _ _ _ G1) as Hfi3. cbn [app] in Hfi3.
  destruct (tx_allocate_frame (alloc ++ Lx) s3 _ flp fln s4 Hfi3 Hpos Hal) as [G2 G3].
  destruct (W1c Lx s3 _ flp fln s4 (fresh_inv_sub _ _ _ HLa Hfi3) W3 P3 I3 Hpos Hal) as (W4 & P4 & I4 & Hsep).
  pose proof (frame_trans _ _ _ _ _ _ _ _ G1 G2) as G4. rewrite !app_nil_r in G4.
  pose proof (frame_trans _ _ _ _ _ _ _ _ F1 G4) as F14.
  exists r, nx, s4, alloc, flp, fln, (dead ++ nrun (d_fl st) (d_fln st)). fold d R L.
  split; [reflexivity|]. split; [exact F14|]. split.
  { intros x Hx. apply in_app_or in Hx. destruct Hx as [Hx|Hx]; [|right; now apply Hfl0].
    destruct (Hdl x Hx) as [Ha|Hf]; [now left | right; now apply HfL0]. }
  split; [intros x Hx; exact (frame_alloc_ge2 _ _ _ _ _ x Hfi F1 Hx)|].
  split; [intros x Hx; exact (frame_alloc_ge2 _ _ _ _ _ x Hfi3 G2 Hx)|].
  split; [intros x Hx; apply G3; now apply In_nrun|].
  split; [exact W4|]. split; [exact P4|]. split; [exact I4|]. split; [exact Hsep|].
  apply (HW s4 _ _ G4); [|exact W4]. intros x Hx. split.
  - intros Hi. apply (frame_new _ _ _ _ _ x Hfi F1 Hi). now apply Hfl.
  - intros Hi. exact (foot_fl_disj st x HndL Hi Hx).
Qed.

(* ====================================================================== *)
(** * 3. The invariant of committed states with readers; the reader-less view [hat st b] *)

(* no page is listed twice in the pending batches; no pending page is free *)
Definition pend_inv (st : db) : Prop :=
  NoDup (pend_all (d_pending st)) /\ (forall x, In x (pend_all (d_pending st)) -> ~ In x (d_free st)).

Definition db_okr (st : db) : Prop := db_okz st /\ pend_inv st.

Fixpoint pend_invb_aux (l : list N) (fr : list N) : bool :=
  match l with [] => true | x :: l' => negb (memb x l') && negb (memb x fr) && pend_invb_aux l' fr end.
Definition pend_invb (st : db) : bool := pend_invb_aux (pend_all (d_pending st)) (d_free st).
Lemma pend_invb_ok : forall st, pend_invb st = true -> pend_inv st.
Proof.
  intros st. unfold pend_invb, pend_inv. generalize (pend_all (d_pending st)) as l. generalize (d_free st) as fr.
  intros fr. induction l as [|x l IH]; intros H; [split; [constructor | intros x []]|].
  cbn [pend_invb_aux] in H. apply andb_true_iff in H. destruct H as [H H3]. apply andb_true_iff in H. destruct H as [H1 H2].
  destruct (IH H3) as [A B]. apply negb_true_iff in H1, H2. split.
  - constructor; [now apply memb_false | exact A].
  - intros y [->|Hy]; [now apply memb_false | now apply B].
Qed.

Lemma init_db_okr : forall P, (0 < P)%N -> db_okr (init_db P).
Proof. intros P HP. split; [now apply init_db_okz|]. split; [constructor | intros x []]. Qed.

(* the protected set of a writer that begins with bound b: every page below the high-water mark that is not free
   after the bounded release (the live pages, the pages of the batches that stay pending, leaked pages, 0, 1) *)
Definition heldr (st : db) (b : N) : list N :=
  filter (fun x => negb (memb x (rfree st b))) (nrun 0 (d_np st)).

Lemma In_heldr : forall st b x, In x (heldr st b) <-> (x < d_np st)%N /\ ~ In x (rfree st b).
Proof.
  intros st b x. unfold heldr. rewrite filter_In, In_nrun, negb_true_iff. split.
  - intros [A B]. split; [lia|]. now apply memb_false.
  - intros [A B]. split; [lia|]. destruct (memb x (rfree st b)) eqn:E; [|reflexivity].
    exfalso. apply B. now apply memb_In.
Qed.

Lemma not_heldr : forall st b x, ~ In x (heldr st b) -> In x (rfree st b) \/ (d_np st <= x)%N.
Proof.
  intros st b x H. destruct (N.lt_ge_cases x (d_np st)) as [Hlt|Hge]; [|now right]. left.
  destruct (in_dec N.eq_dec x (rfree st b)) as [Hi|Hn]; [exact Hi|]. exfalso. apply H. apply In_heldr. auto.
Qed.

(* what the bounded release frees was free or pending *)
Lemma rfree_src : forall st b x, In x (rfree st b) -> In x (d_free st) \/ In x (pend_all (d_pending st)).
Proof.
  intros st b x Hx. destruct (kept_suffix st b) as (rel & E & _ & Hin & _). apply Hin in Hx.
  destruct Hx as [Hx|Hx]; [now left | right]. rewrite E, pend_all_app. apply in_or_app. now left.
Qed.

Lemma kept_sub : forall st b x, In x (pend_all (kept st b)) -> In x (pend_all (d_pending st)).
Proof.
  intros st b x Hx. destruct (kept_suffix st b) as (rel & E & _). rewrite E, pend_all_app. apply in_or_app. now right.
Qed.

(* with [pend_inv]: the pages that stay pending are not free after the release *)
Lemma kept_not_rfree : forall st b x, pend_inv st -> In x (pend_all (kept st b)) -> ~ In x (rfree st b).
Proof.
  intros st b x [Hnd Hnf] Hx Hf. destruct (kept_suffix st b) as (rel & E & _ & Hin & _). apply Hin in Hf.
  rewrite E, pend_all_app in Hnd, Hnf. destruct Hf as [Hf|Hf].
  - apply (Hnf x); [apply in_or_app; now right | exact Hf].
  - apply EngineSpillWfFacts.NoDup_app_iff in Hnd. destruct Hnd as (_ & _ & Hd). exact (Hd x Hf Hx).
Qed.

Lemma hat_okz : forall st b, db_okz st -> db_okz (hat st b).
Proof.
  intros st b [(Hs & HA & Hnd & Hpl) Hz]. split; [|exact Hz]. split; [exact Hs|]. split; [|split; [exact Hnd | constructor]].
  destruct HA as (Hpsz & Hnp & Hasc & Hge & Hlt & Hpd & Hroot & HC & Hlive).
  destruct (kept_suffix st b) as (rel & E & _ & Hin & Hasc').
  unfold alloc_ok. change (Rof (hat st b)) with (Rof st). change (live_of (hat st b) (Rof st)) with (live_of st (Rof st)).
  cbn [d_psz d_np d_free d_pending d_root d_disk hat].
  rewrite Forall_forall in Hpd.
  split; [exact Hpsz|]. split; [exact Hnp|]. split; [now apply Hasc'|]. split.
  { unfold FreelistFacts.ge2. apply Forall_forall. intros x Hx. destruct (rfree_src st b x Hx) as [H|H].
    - unfold FreelistFacts.ge2 in Hge. rewrite Forall_forall in Hge. now apply Hge.
    - apply (Hpd x H). }
  split. { intros x Hx. destruct (rfree_src st b x Hx) as [H|H]; [now apply Hlt | apply (Hpd x H)]. }
  split; [constructor|]. split; [exact Hroot|]. split; [exact HC|].
  intros x Hx. destruct (Hlive x Hx) as (L1 & L2 & L3). split; [exact L1|]. split; [|intros []].
  intros Hf. destruct (rfree_src st b x Hf); tauto.
Qed.

(* the last step of [commit] keeps the older batches in front *)
Lemma commit_tail_addp : forall st r nx old s2, Jt old s2 ->
  exists s4h, Jt old s4h /\ d_pending (commit_tail st r nx (addp old s2)) = old ++ pending s4h /\
    d_tx (commit_tail st r nx (addp old s2)) = txid s4h.
Proof.
  intros st r nx old s2 HJ. unfold commit_tail. rewrite (addp_freep old s2 _ _ HJ).
  pose proof (Jt_freep old s2 (d_fl st) (d_fln st) HJ) as HJ3. set (sh3 := free_pages s2 (d_fl st) (d_fln st)) in *.
  rewrite (addp_alloc old sh3 _ HJ3).
  pose proof (Jt_alloc old sh3 (40 + 8 * llen (all_pages (addp old sh3)))%N HJ3) as HJ4.
  destruct (tx_allocate sh3 (40 + 8 * llen (all_pages (addp old sh3)))%N) as [[flp fln] s4h]. cbn [fst snd] in *.
  exists s4h. split; [exact HJ4|]. cbn [d_pending d_tx]. split; reflexivity.
Qed.

(* ====================================================================== *)
(** * 4. The final allocator state of a transaction with readers *)

Record txr_final (st : db) (b : N) (st' : db) (s1 : txs) (r nx : N) (s4 : txs) (alloc : list N) (flp fln : N)
  (Dall : list N) (X : list (N * list N)) : Prop := {
  tf_free1 : free s1 = rfree st b;
  tf_np1 : np s1 = d_np st;
  tf_psz1 : psz s1 = d_psz st;
  tf_txid1 : txid s1 = (d_tx st + 1)%N;
  tf_pend1 : forall x, In x (pend_all (pending s1)) ->
               In x (pend_all (kept st b)) \/ In x (foot (d_disk st) 16 (d_root st));
  tf_kept1 : forall x, In x (pend_all (kept st b)) -> In x (pend_all (pending s1));
  tf_freed1 : forall x, freed_in_tx s1 x = true -> In x (foot (d_disk st) 16 (d_root st));
  tf_st' : st' = {| d_disk := apply_wr (wr s4) (psz s4) (d_disk st); d_root := r; d_next := nx; d_np := np s4;
                    d_fl := flp; d_fln := fln; d_flids := all_pages s4; d_tx := txid s4; d_free := free s4;
                    d_pending := pending s4; d_psz := psz s4 |};
  tf_pend4 : pending s4 = kept st b ++ X;
  tf_Xid : Forall (fun bt : N * list N => fst bt = (d_tx st + 1)%N) X;
  tf_Xnd : NoDup (pend_all X);
  tf_frame : frame (heldr st b) s1 s4 (nrun flp fln ++ alloc) Dall;
  tf_dead : forall x, In x Dall -> In x alloc \/ In x (live_of st (Rof st));
  tf_age : forall x, In x alloc -> (2 <= x)%N;
  tf_fge : forall x, In x (nrun flp fln) -> (2 <= x)%N;
  tf_fnew : forall x, In x (nrun flp fln) -> ~ In x (alloc ++ heldr st b);
  tf_wr : wr_ok (heldr st b) s4;
  tf_p0 : pend_ok0 s4;
  tf_ids : pend_ids_ok s4;
  tf_sep : forall q v x, wr_get (wr s4) q = Some v -> In x (wrun (psz s4) q v) -> ~ In x (nrun flp fln);
  tf_tree : TreeOK (d_disk st) 16 alloc (foot (d_disk st) 16 (d_root st)) s4 r;
  (* the overlay after rebalance, with the allocator state s1 of the run with readers *)
  tf_ovl : exists root' s' b1 m ord,
    rebalance fuel0 (d_disk st) root' s' = Ok (b1, s1) /\ commit st root' s' ord = Ok st' /\
    fresh_inv (heldr st b) s1 /\ wr s1 = [] /\ pend_ids_ok s1 /\ pend_ok0 s1 /\
    SReady (d_disk st) (Rof st) b1 /\ OvlAbs (d_disk st) b1 m /\ SReadyX (d_disk st) (Rof st) b1 /\
    OwnI (d_disk st) 16 s1 b1 (d_root st) /\ Lnk (d_disk st) 16 b1 (d_root st) /\ Cov (d_disk st) 16 s1 b1 (d_root st) }.

Lemma run_tx_r_final : forall st b ops ord st', db_okr st -> Forall (op_ok (d_disk st)) ops ->
  run_tx_r st b ops ord = Ok st' ->
  incl (live_of st (Rof st)) (heldr st b) /\
  (exists sth', run_tx (hat st b) ops ord = Ok sth' /\ d_disk sth' = d_disk st' /\ d_root sth' = d_root st' /\
                d_next sth' = d_next st') /\
  exists s1 r nx s4 alloc flp fln Dall X, txr_final st b st' s1 r nx s4 alloc flp fln Dall X.
Proof.
  intros st b ops ord st' [Hokz Hpi] Hops Hrun. pose proof Hokz as [Hok' Hz]. pose proof Hok' as (Hdb & HA & Hnd & Hpl).
  destruct (run_tx_r_decomp st b ops ord st' Hpl Hrun) as (root' & sh' & b1 & sh1 & r & nx & sh2 & ord' & D).
  pose proof (hat_okz st b Hokz) as Hokh.
  destruct D as [Dfh Drh Dsh Drunh DJ' DJ1 DJ2 Df Dr Ds Dc Dst].
  destruct (run_tx_ready (hat st b) ops ord _ Hokh Hops Drunh)
    as (root2 & s2' & b2 & s12 & Hf2 & Hr2 & RD).
  rewrite Dfh in Hf2. inversion Hf2; subst root2 s2'. clear Hf2.
  change (d_disk (hat st b)) with (d_disk st) in Hr2. rewrite Drh in Hr2.
  inversion Hr2; subst b2 s12. clear Hr2.
  destruct RD as [Hfih Hwr Etx Efree Enp Epsz Hidh Hcur Hfoot HS HO HSX HOwn HLnk HCov].
  change (d_disk (hat st b)) with (d_disk st) in *. change (d_root (hat st b)) with (d_root st) in *.
  change (Rof (hat st b)) with (Rof st) in *. change (live_of (hat st b) (Rof st)) with (live_of st (Rof st)) in *.
  change (d_tx (hat st b)) with (d_tx st) in *. change (d_np (hat st b)) with (d_np st) in *.
  change (d_psz (hat st b)) with (d_psz st) in *. change (abs_db (hat st b)) with (abs_db st) in *.
  rewrite begin_w_hat in Efree. cbn [free] in Efree.
  pose proof DJ1 as (HJa & HJb & HJc).
  set (old := kept st b) in *. set (s1 := addp old sh1).
  assert (HLx : incl (live_of st (Rof st)) (heldr st b)).
  { intros x Hx. apply In_heldr. destruct (fi_live _ _ Hfih x Hx) as [A B]. rewrite <- Enp, <- Efree. auto. }
  assert (Hfi : fresh_inv (heldr st b) s1).
  { destruct Hfih as [G1 G2 G3 G4 G5 G6]. constructor; try assumption.
    intros x Hx. apply In_heldr in Hx. unfold s1. rewrite addp_np, addp_free, Enp, Efree. exact Hx. }
  assert (Hids : pend_ids_ok s1).
  { unfold pend_ids_ok, s1. rewrite addp_pending, addp_txid. apply Forall_app. split.
    - eapply Forall_impl; [|exact HJa]. cbn beta. intros a Ha. lia.
    - eapply Forall_impl; [|exact HJb]. cbn beta. intros a Ha. lia. }
  assert (Hpend1 : forall x, In x (pend_all (pending s1)) -> In x (pend_all old) \/ In x (foot (d_disk st) 16 (d_root st))).
  { intros x Hx. unfold s1 in Hx. rewrite addp_pending, pend_all_app in Hx. apply in_app_or in Hx.
    destruct Hx as [Hx|Hx]; [now left | right]. apply Hfoot, Hcur, Hx. }
  assert (Hp0 : pend_ok0 s1).
  { intros x Hx. unfold s1 at 1 2. rewrite addp_np, addp_free, Enp, Efree. destruct (Hpend1 x Hx) as [Hk|Hf].
    - split; [|now apply kept_not_rfree].
      destruct HA as (_ & _ & _ & _ & _ & Hpd & _). rewrite Forall_forall in Hpd. apply (Hpd x). now apply (kept_sub st b).
    - apply In_heldr, HLx. now apply foot_live. }
  assert (HOwn1 : OwnI (d_disk st) 16 s1 b1 (d_root st)).
  { apply (OwnI_later (d_disk st) Hz 16 sh1 s1 b1 (d_root st) HOwn). intros x _ Hx. unfold s1 in Hx.
    now rewrite (freed_old old sh1 x HJa) in Hx. }
  destruct (commit_states_r st root' (addp old sh') ord st' b1 s1 _ (heldr st b) Hok' Hz HLx Hfi
              Dr Hwr Hids Hp0 HS HO HSX HOwn1 HLnk Dc)
    as (r4 & nx4 & s4 & alloc & flp & fln & Dall & Est & F14 & HD & Hage & Hfge & Hfnew & W4 & P4 & I4 & Hsep & HT).
  pose proof Dst as Est2.
  destruct (commit_tail_addp st r nx old sh2 DJ2) as (s4h & (_ & HJ4b & HJ4c) & Ep & Et).
  rewrite <- Est2 in Ep, Et.
  assert (Er : r4 = r /\ nx4 = nx).
  { rewrite Est in Est2. unfold commit_tail in Est2.
    destruct (tx_allocate _ _) as [[flp2 fln2] s42] in Est2. inversion Est2. auto. }
  destruct Er as [-> ->].
  assert (Etx4 : txid s4 = (d_tx st + 1)%N) by (rewrite (fr_txid _ _ _ _ _ F14); unfold s1; now rewrite addp_txid).
  split; [exact HLx|]. split.
  { exists (commit_tail (hat st b) r nx sh2). split; [exact Drunh|].
    rewrite Est2. unfold commit_tail. rewrite (addp_freep old sh2 _ _ DJ2).
    change (d_fl (hat st b)) with (d_fl st). change (d_fln (hat st b)) with (d_fln st). change (d_disk (hat st b)) with (d_disk st).
    set (sh3 := free_pages sh2 (d_fl st) (d_fln st)).
    unfold tx_allocate. cbn [free psz np addp upd_pending].
    destruct (fl_allocate (free sh3) _) as [[p1 f1]|]; destruct (fl_allocate (free sh3) _) as [[p2 f2]|]; cbn; auto. }
  exists s1, r, nx, s4, alloc, flp, fln, Dall, (pending s4h).
  constructor; try assumption.
  - intros x Hx. unfold s1. rewrite addp_pending, pend_all_app. apply in_or_app. now left.
  - intros x Hx. apply Hfoot. unfold s1 in Hx. now rewrite (freed_old old sh1 x HJa) in Hx.
  - rewrite Est in Ep. cbn [d_pending] in Ep. exact Ep.
  - rewrite Est in Et. cbn [d_tx] in Et. rewrite <- Et, Etx4 in HJ4b. exact HJ4b.
  - exists root', (addp old sh'), b1, (sem_tx ops (abs_db st)), ord. repeat (split; [assumption|]).
    apply (Cov_mono (d_disk st) 16 sh1 s1 b1 (d_root st)); [|exact HCov].
    intros x Hx. unfold s1. now rewrite (freed_old old sh1 x HJa).
Qed.

(* the pages that stay pending are protected *)
Lemma kept_heldr : forall st b x, db_okr st -> In x (pend_all (kept st b)) -> In x (heldr st b).
Proof.
  intros st b x [[(_ & HA & _) _] Hpi] Hx. apply In_heldr. split; [|now apply kept_not_rfree].
  destruct HA as (_ & _ & _ & _ & _ & Hpd & _). rewrite Forall_forall in Hpd. apply (Hpd x). now apply (kept_sub st b).
Qed.

(* a page of a batch filed under the running transaction's id counts as freed by it *)
Lemma own_batch_freed : forall s old X x, pending s = old ++ X -> Forall (fun bt : N * list N => fst bt = txid s) X ->
  In x (pend_all X) -> freed_in_tx s x = true.
Proof.
  intros s old X x E HX Hx. unfold freed_in_tx. rewrite E, existsb_app. apply orb_true_iff. right.
  unfold pend_all in Hx. apply in_flat_map in Hx. destruct Hx as ([u ps] & Hb & Hp). rewrite Forall_forall in HX.
  specialize (HX _ Hb). cbn [fst snd] in *. apply existsb_exists. exists (u, ps). split; [exact Hb|]. cbn [fst snd].
  apply andb_true_iff. split; [now apply N.eqb_eq|]. apply existsb_exists. exists x. split; [exact Hp | apply N.eqb_refl].
Qed.

(* ====================================================================== *)
(** * 5. The new state satisfies the invariant (EngineOwnSpill.commit_alloc_z, with batches of older transactions) *)

Lemma txr_final_okr : forall st b st' s1 r nx s4 alloc flp fln Dall X,
  db_okr st -> incl (live_of st (Rof st)) (heldr st b) ->
  txr_final st b st' s1 r nx s4 alloc flp fln Dall X ->
  readable st' -> db_strict st' -> closedR (d_disk st') (Rof st') -> db_okr st'.
Proof.
  intros st b st' s1 r nx s4 alloc flp fln Dall X Hokr HLx F Hrd Hstrict' Hcl.
  pose proof Hokr as [[Hok' Hz] [Hpnd Hpnf]]. pose proof Hok' as (_ & HA & HndL & Hpl).
  destruct F as [Efree Enp Epsz Etx Hpend1 Hkept1 Hfreed1 Est Ep4 HXid HXnd F14 HD Hage Hfge Hfnew W4 P4 I4 Hsep HT].
  set (d := d_disk st) in *. set (L := live_of st (Rof st)) in *. set (H := heldr st b) in *.
  pose proof HA as (_ & _ & _ & _ & _ & Hpd & _ & _ & Hlive). fold L in Hlive. rewrite Forall_forall in Hpd.
  assert (HfL : incl (foot d 16 (d_root st)) L) by (intros x Hx; now apply foot_live).
  assert (Etx4 : txid s4 = (d_tx st + 1)%N) by (rewrite (fr_txid _ _ _ _ _ F14); exact Etx).
  assert (HkH : forall x, In x (pend_all (kept st b)) -> In x H) by (intros x Hx; now apply kept_heldr).
  assert (HkL : forall x, In x (pend_all (kept st b)) -> ~ In x L).
  { intros x Hx Hl. apply (proj2 (proj2 (Hlive x Hl))). now apply (kept_sub st b). }
  pose proof (fr_fresh _ _ _ _ _ F14) as Hfi4.
  assert (HaH : forall x, In x (nrun flp fln ++ alloc) -> ~ In x H).
  { intros x Hx Hh. destruct (fr_src _ _ _ _ _ F14 x Hx) as [Hf|Hn].
    - apply In_heldr in Hh. rewrite Efree in Hf. tauto.
    - apply In_heldr in Hh. rewrite Enp in Hn. lia. }
  (* the pages of the own batches *)
  assert (HXsrc : forall x, In x (pend_all X) -> In x alloc \/ In x L).
  { intros x Hx. assert (Hfr : freed_in_tx s4 x = true).
    { apply (own_batch_freed s4 (kept st b) X x Ep4); [|exact Hx]. now rewrite Etx4. }
    apply (fr_freed _ _ _ _ _ F14) in Hfr. destruct Hfr as [Hfr|Hfr]; [right; apply HfL, Hfreed1, Hfr | now apply HD]. }
  assert (Hpsrc : forall x, In x (pend_all (pending s4)) -> In x (pend_all (kept st b)) \/ In x alloc \/ In x L).
  { intros x Hx. rewrite Ep4, pend_all_app in Hx. apply in_app_or in Hx. destruct Hx as [Hx|Hx]; [now left | right; now apply HXsrc]. }
  assert (HL2 : forall x, In x L -> (2 <= x)%N) by (intros x Hx; apply (Hlive x Hx)).
  subst st'. unfold readable in Hrd. unfold Rof, live_of, pend_le in *. cbn [d_disk d_root d_fl d_fln d_pending d_tx] in *.
  fold (later_disk d s4) in *. set (d4 := later_disk d s4) in *.
  destruct (HT Hrd) as [Hnd Hloc].
  assert (Htree : forall x, In x (runs d4 (fpg 16 d4 r)) ->
            ((2 <= x < np s4)%N /\ ~ In x (free s4) /\ ~ In x (pend_all (pending s4))) /\ ~ In x (nrun flp fln)).
  { intros x Hx. destruct (Hloc x Hx) as [Hl Hu].
    assert (HnX : ~ In x (pend_all X)).
    { intros Hp. rewrite (own_batch_freed s4 (kept st b) X x Ep4) in Hu; [discriminate | now rewrite Etx4 | exact Hp]. }
    destruct Hl as [(q & v & _ & Hg & Hr)|Hf].
    - destruct (wo_range _ _ W4 q v x Hg Hr) as (R1 & R2 & R3). split; [|exact (Hsep q v x Hg Hr)].
      split; [exact R1|]. split; [exact R2|]. rewrite Ep4, pend_all_app, in_app_iff. intros [Hk|Hk]; [apply R3; now apply HkH | tauto].
    - pose proof (HfL x Hf) as HxL.
      assert (Hi4 : In x ((nrun flp fln ++ alloc) ++ H)) by (apply in_or_app; right; now apply HLx).
      destruct (fi_live _ _ Hfi4 x Hi4) as [A1 A2]. split.
      + split; [split; [now apply HL2 | exact A1]|]. split; [exact A2|].
        rewrite Ep4, pend_all_app, in_app_iff. intros [Hk|Hk]; [exact (HkL x Hk HxL) | tauto].
      + intros Hi. apply (Hfnew x Hi). apply in_or_app. right. now apply HLx. }
  unfold db_okr, db_okz, db_ok', pend_inv, alloc_ok, pend_le, Rof, live_of.
  cbn [d_psz d_np d_free d_pending d_root d_disk d_fl d_fln d_tx]. fold d4.
  split; [split; [split; [exact Hstrict'|]; split; [|split]|]|].
  - split; [apply (fi_psz _ _ Hfi4)|]. split; [apply (fi_np _ _ Hfi4)|]. split; [apply (fi_asc _ _ Hfi4)|].
    split; [apply (fi_ge2 _ _ Hfi4)|]. split; [apply (fi_free_lt _ _ Hfi4)|]. split.
    { apply Forall_forall. intros x Hx. split; [|apply (P4 x Hx)].
      destruct (Hpsrc x Hx) as [Hk|[Ha|Hl]]; [|now apply Hage | now apply HL2].
      apply (Hpd x). now apply (kept_sub st b). }
    split; [rewrite fpg_S; now left|]. split; [exact Hcl|].
    intros x Hx. apply in_app_or in Hx.
    destruct Hx as [Hx|Hx]; [apply (proj1 (Htree x Hx))|].
    assert (Hi4 : In x ((nrun flp fln ++ alloc) ++ H)) by (apply in_or_app; left; apply in_or_app; now left).
    destruct (fi_live _ _ Hfi4 x Hi4) as [A1 A2]. split; [split; [now apply Hfge | exact A1]|]. split; [exact A2|].
    intros Hp. apply (Hfnew x Hx). apply in_or_app. destruct (Hpsrc x Hp) as [Hk|[Ha|Hl]]; [right; now apply HkH | now left | right; now apply HLx].
  - apply EngineSpillWfFacts.NoDup_app_iff. split; [exact Hnd|]. split; [apply NoDup_nrun|].
    intros x Hx1 Hx2. exact (proj2 (Htree x Hx1) Hx2).
  - exact I4.
  - unfold d4, later_disk. rewrite dget_apply_wr. destruct (wr_get (wr s4) 0%N) as [v|] eqn:E; [|exact Hz].
    exfalso. destruct (wo_range _ _ W4 0%N v 0%N E (In_wrun_self _ _ _)) as (R1 & _). lia.
  - split; [|intros x Hx; apply (P4 x Hx)].
    rewrite Ep4, pend_all_app. apply EngineSpillWfFacts.NoDup_app_iff. split; [|split; [exact HXnd|]].
    + destruct (kept_suffix st b) as (rel & E & _). rewrite E, pend_all_app in Hpnd.
      apply EngineSpillWfFacts.NoDup_app_iff in Hpnd. tauto.
    + intros x Hk Hx. destruct (HXsrc x Hx) as [Ha|Hl]; [|exact (HkL x Hk Hl)].
      apply (HaH x); [apply in_or_app; now right | now apply HkH].
Qed.

(* ====================================================================== *)
(** * 6. The single-transaction theorems with readers *)

(* (2) REFINEMENT for any release bound: the invariant is re-established and the new state means what the
   specification says *)
Theorem run_tx_r_refines : forall st b ops ord st', db_okr st -> Forall (op_ok (d_disk st)) ops ->
  run_tx_r st b ops ord = Ok st' -> readable st' -> db_okr st' /\ abs_db st' = sem_tx ops (abs_db st).
Proof.
  intros st b ops ord st' Hokr Hops Hrun Hrd.
  destruct (run_tx_r_final st b ops ord st' Hokr Hops Hrun)
    as (HLx & (sth' & Hrunh & Ed & Er & En) & s1 & r & nx & s4 & alloc & flp & fln & Dall & X & F).
  assert (Hrdh : readable sth') by (unfold readable in *; now rewrite Ed, Er).
  destruct (run_tx_refines' (hat st b) ops ord sth' (hat_okz st b (proj1 Hokr)) Hops Hrunh Hrdh) as [[(Hs & HA & _) _] Habs].
  assert (Hs' : db_strict st') by (unfold db_strict in *; now rewrite <- Ed, <- Er).
  assert (Hcl : closedR (d_disk st') (Rof st')).
  { destruct HA as (_ & _ & _ & _ & _ & _ & _ & HC & _). unfold Rof in *. now rewrite <- Ed, <- Er. }
  split; [exact (txr_final_okr st b st' s1 r nx s4 alloc flp fln Dall X Hokr HLx F Hrd Hs' Hcl)|].
  unfold abs_db in *. rewrite <- Ed, <- Er, <- En. exact Habs.
Qed.

(* COPY-ON-WRITE with readers.  [w] is the write set of the commit from st to st' with release bound b; [X] the
   batches the transaction files (all under its own id) *)
Record tx_cow_r (st : db) (b : N) (st' : db) (w : list (N * (N * ndata))) (X : list (N * list N)) : Prop := {
  tr_disk : d_disk st' = apply_wr w (d_psz st) (d_disk st);
  tr_psz : d_psz st' = d_psz st;
  tr_tx : d_tx st' = (d_tx st + 1)%N;
  tr_np : (d_np st <= d_np st')%N;
  (* no written page is protected: not live, not in a batch that stays pending *)
  tr_cow : forall x, written st st' w x -> ~ In x (heldr st b);
  tr_range : forall x, written st st' w x -> (2 <= x < d_np st')%N;
  tr_taken : forall x, written st st' w x -> ~ In x (d_free st');
  (* the new free list is part of the free list after the bounded release *)
  tr_free : forall x, In x (d_free st') -> In x (rfree st b);
  (* the batches that stayed pending are still there, in front; the new ones are the transaction's own *)
  tr_pend : d_pending st' = kept st b ++ X;
  tr_Xid : Forall (fun bt : N * list N => fst bt = (d_tx st + 1)%N) X;
  tr_disj : forall q1 v1 q2 v2 x, wr_get w q1 = Some v1 -> wr_get w q2 = Some v2 ->
              In x (wrun (d_psz st) q1 v1) -> In x (wrun (d_psz st) q2 v2) -> q1 = q2;
  tr_fl : forall x, In x (wr_pages (d_psz st) w) -> ~ In x (nrun (d_fl st') (d_fln st')) }.

Theorem run_tx_r_write_set : forall st b ops ord st', db_okr st -> Forall (op_ok (d_disk st)) ops ->
  run_tx_r st b ops ord = Ok st' ->
  incl (live_of st (Rof st)) (heldr st b) /\ exists w X, tx_cow_r st b st' w X.
Proof.
  intros st b ops ord st' Hokr Hops Hrun.
  destruct (run_tx_r_final st b ops ord st' Hokr Hops Hrun)
    as (HLx & _ & s1 & r & nx & s4 & alloc & flp & fln & Dall & X & F).
  split; [exact HLx|].
  destruct F as [Efree Enp Epsz Etx Hpend1 Hkept1 Hfreed1 Est Ep4 HXid HXnd F14 HD Hage Hfge Hfnew W4 P4 I4 Hsep HT].
  assert (Ep4' : psz s4 = d_psz st) by (rewrite (fr_psz _ _ _ _ _ F14); exact Epsz).
  pose proof (fr_fresh _ _ _ _ _ F14) as Hfi4.
  assert (Hw : forall x, written st st' (wr s4) x -> ~ In x (heldr st b) /\ (2 <= x < np s4)%N /\ ~ In x (free s4)).
  { intros x [Hx|Hx].
    - apply In_wr_pages in Hx. destruct Hx as (q & v & Hg & Hx). rewrite <- Ep4' in Hx.
      destruct (wo_range _ _ W4 q v x Hg Hx) as (R1 & R2 & R3). auto.
    - subst st'. cbn [d_fl d_fln] in Hx.
      assert (Hnh : ~ In x (heldr st b)) by (intros Hi; apply (Hfnew x Hx); apply in_or_app; now right).
      assert (Hi4 : In x ((nrun flp fln ++ alloc) ++ heldr st b)) by (apply in_or_app; left; apply in_or_app; now left).
      destruct (fi_live _ _ Hfi4 x Hi4) as [A1 A2]. split; [exact Hnh|]. split; [|exact A2]. split; [now apply Hfge | exact A1]. }
  exists (wr s4), X. constructor.
  - subst st'. cbn [d_disk]. now rewrite Ep4'.
  - subst st'. exact Ep4'.
  - subst st'. cbn [d_tx]. rewrite (fr_txid _ _ _ _ _ F14). exact Etx.
  - subst st'. cbn [d_np]. rewrite <- Enp. exact (fr_np _ _ _ _ _ F14).
  - intros x Hx. exact (proj1 (Hw x Hx)).
  - intros x Hx. destruct (Hw x Hx) as (_ & A & _). subst st'. exact A.
  - intros x Hx. destruct (Hw x Hx) as (_ & _ & A). subst st'. exact A.
  - intros x Hx. subst st'. cbn [d_free] in Hx. rewrite <- Efree. exact (fr_free _ _ _ _ _ F14 x Hx).
  - subst st'. exact Ep4.
  - exact HXid.
  - intros q1 v1 q2 v2 x G1 G2 X1 X2. rewrite <- Ep4' in X1, X2. exact (wo_disj _ _ W4 q1 v1 q2 v2 x G1 G2 X1 X2).
  - intros x Hx. apply In_wr_pages in Hx. destruct Hx as (q & v & Hg & Hx). rewrite <- Ep4' in Hx.
    subst st'. cbn [d_fl d_fln]. exact (Hsep q v x Hg Hx).
Qed.

(* every protected page -- below the old high-water mark and not free after the bounded release -- has the same
   image on the new disk *)
Theorem run_tx_r_protected_intact : forall st b ops ord st', db_okr st -> Forall (op_ok (d_disk st)) ops ->
  run_tx_r st b ops ord = Ok st' ->
  forall p, (p < d_np st)%N -> ~ In p (rfree st b) -> dget (d_disk st') p = dget (d_disk st) p.
Proof.
  intros st b ops ord st' Hokr Hops Hrun p Hlt Hnf.
  destruct (run_tx_r_write_set st b ops ord st' Hokr Hops Hrun) as (_ & w & X & C).
  rewrite (tr_disk _ _ _ _ _ C), dget_apply_wr. destruct (wr_get w p) as [v|] eqn:Hg; [|reflexivity].
  exfalso. apply (tr_cow _ _ _ _ _ C p); [|apply In_heldr; auto].
  left. apply In_wr_pages. exists p, v. split; [exact Hg | apply In_wrun_self].
Qed.

(* in particular (C03, one step): the snapshot that is current before the commit is intact after it *)
Corollary run_tx_r_old_snapshot_intact : forall st b ops ord st', db_okr st -> Forall (op_ok (d_disk st)) ops ->
  run_tx_r st b ops ord = Ok st' ->
  forall p, In p (live_of st (Rof st)) -> dget (d_disk st') p = dget (d_disk st) p.
Proof.
  intros st b ops ord st' Hokr Hops Hrun p Hp.
  destruct (run_tx_r_write_set st b ops ord st' Hokr Hops Hrun) as (HLx & _).
  apply HLx, In_heldr in Hp. destruct Hp as [A B]. eapply run_tx_r_protected_intact; eauto.
Qed.

(* copy-on-write in the vocabulary of EngineCow.run_tx_cow / run_tx_writes_from_free: a written page (overflow pages
   and the new free-list run included) is not live, not in a batch that stays pending, and comes from the free list
   after the bounded release or from beyond the old high-water mark *)
Corollary run_tx_r_cow : forall st b ops ord st', db_okr st -> Forall (op_ok (d_disk st)) ops ->
  run_tx_r st b ops ord = Ok st' ->
  exists w, d_disk st' = apply_wr w (d_psz st) (d_disk st) /\
    forall x, written st st' w x ->
      ~ In x (live_of st (Rof st)) /\ ~ In x (pend_all (kept st b)) /\
      (In x (rfree st b) \/ (d_np st <= x)%N) /\ (2 <= x < d_np st')%N.
Proof.
  intros st b ops ord st' Hokr Hops Hrun.
  destruct (run_tx_r_write_set st b ops ord st' Hokr Hops Hrun) as (HLx & w & X & C).
  exists w. split; [exact (tr_disk _ _ _ _ _ C)|]. intros x Hx. pose proof (tr_cow _ _ _ _ _ C x Hx) as Hn.
  split; [intros Hl; apply Hn; now apply HLx|]. split; [intros Hk; apply Hn; now apply kept_heldr|].
  split; [now apply not_heldr | exact (tr_range _ _ _ _ _ C x Hx)].
Qed.

Print Assumptions run_tx_r_refines.
Print Assumptions run_tx_r_write_set.
Print Assumptions run_tx_r_protected_intact.
Print Assumptions run_tx_r_cow.
