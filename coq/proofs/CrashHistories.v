(* C02 over HISTORIES: any number of commit attempts in a row, each cut by a power loss at any point with any fate
   for every un-synced write (a torn header included), each starting from whatever the previous crash left on disk.
   The single-commit theorems (CrashCurrent.power_current) speak about one commit from a disk that selects [cur]; here
   the invariant [hist_inv] (a header is selected; every page it needs holds what was written by its own transaction
   or an earlier one -- no garbage, nothing from a later transaction) is shown to survive every such attempt, so it holds
   after every history. The target slot of each attempt is [negb (current_slot d)] evaluated on the disk AS THE CRASH
   LEFT IT: after a torn header the invalid slot is written again, never the only valid one.
   Premise per attempt: [commit_setting] relative to the header selected at that moment (copy-on-write with respect to
   THAT header: discharged for the engine model by EngineCow for every state, in particular the reopened pre / post state).
   Closed under the global context. *)
From Coq Require Import List NArith Bool Arith Lia.
From Jamm Require Import Bytes Consts PL Crash CrashFacts CrashCurrent.
Import ListNotations.

Definition page_settled (d : disk) (h : header) (p : N) : Prop :=
  exists t', lookup_page p (pages d) = Written t' /\ (t' <= h_tx h)%N.
Definition hist_inv (d : disk) : Prop :=
  exists cur, select d = Some cur /\ forall p, In p (h_live cur) -> page_settled d cur p.

(* one attempt: what the transaction wants to commit, and where / how the power loss cuts it *)
Record attempt := mkAttempt { a_newh : header; a_written : list N; a_n : nat; a_fates : nat -> fate }.
Definition attempt_image (d : disk) (a : attempt) : disk :=
  power_image (h_tx (a_newh a)) (a_newh a) (negb (current_slot d)) d (commit_io (a_written a)) (a_n a) (a_fates a).
(* the attempt is a commit of the state the disk shows now *)
Definition attempt_ok (d : disk) (a : attempt) : Prop :=
  exists cur, commit_setting d cur (a_newh a) (h_tx (a_newh a)) (a_written a).

Lemma attempt_keeps_inv : forall d a, hist_inv d -> attempt_ok d a -> hist_inv (attempt_image d a).
Proof.
  intros d a (cur & Hsel & Hlive) (cur' & HS).
  assert (cur' = cur) by (pose proof (cs_select _ _ _ _ _ HS) as E; rewrite Hsel in E; now inversion E). subst cur'.
  destruct (power_current d cur (a_newh a) (h_tx (a_newh a)) (a_written a) HS (a_n a) (a_fates a)) as [[Hs Hi]|[Hs Hi]];
    fold (attempt_image d a) in Hs, Hi.
  - exists cur. split; [exact Hs|]. intros p Hp. destruct (Hlive p Hp) as (t' & Ht' & Hle).
    exists t'. split; [|exact Hle]. rewrite (Hi p Hp). exact Ht'.
  - exists (a_newh a). split; [exact Hs|]. intros p Hp. pose proof (Hi p Hp) as Hc. unfold orig_new in Hc.
    destruct (memN p (a_written a)) eqn:Em.
    + exists (h_tx (a_newh a)). split; [exact Hc | lia].
    + destruct (cs_new _ _ _ _ _ HS p Hp) as [Hw|Hc'].
      * exfalso. assert (memN p (a_written a) = true) by now apply memN_In'.
        congruence.
      * destruct (Hlive p Hc') as (t' & Ht' & Hle). exists t'. split; [now rewrite Hc|].
        pose proof (cs_lt _ _ _ _ _ HS). lia.
Qed.

(* histories: each attempt is made on the image the previous one left *)
Fixpoint run_attempts (d : disk) (l : list attempt) : disk :=
  match l with [] => d | a :: r => run_attempts (attempt_image d a) r end.
Fixpoint attempts_ok (d : disk) (l : list attempt) : Prop :=
  match l with [] => True | a :: r => attempt_ok d a /\ attempts_ok (attempt_image d a) r end.

Theorem crash_history_inv : forall l d, hist_inv d -> attempts_ok d l -> hist_inv (run_attempts d l).
Proof.
  induction l as [|a r IH]; intros d Hd Hok; cbn [run_attempts]; [exact Hd|].
  destruct Hok as [Ha Hr]. apply IH; [now apply attempt_keeps_inv | exact Hr].
Qed.

(* what is selected after a history is the initial header or the header of one of the attempts *)
Theorem crash_history_selects : forall l d cur0, select d = Some cur0 -> hist_inv d -> attempts_ok d l ->
  exists h, select (run_attempts d l) = Some h /\ (h = cur0 \/ In h (map a_newh l)).
Proof.
  induction l as [|a r IH]; intros d cur0 Hsel Hd Hok; cbn [run_attempts map].
  - exists cur0. split; [exact Hsel | now left].
  - destruct Hok as [Ha Hr]. pose proof (attempt_keeps_inv d a Hd Ha) as Hd'.
    destruct Ha as (cur' & HS).
    assert (cur' = cur0) by (pose proof (cs_select _ _ _ _ _ HS) as E; rewrite Hsel in E; now inversion E). subst cur'.
    destruct (power_current d cur0 (a_newh a) (h_tx (a_newh a)) (a_written a) HS (a_n a) (a_fates a)) as [[Hs _]|[Hs _]];
      fold (attempt_image d a) in Hs.
    + destruct (IH _ cur0 Hs Hd' Hr) as (h & Hh & [E|Hin]); exists h; (split; [exact Hh|]); [now left | right; now right].
    + destruct (IH _ (a_newh a) Hs Hd' Hr) as (h & Hh & [E|Hin]); exists h; (split; [exact Hh|]);
        [right; left; now symmetry | right; now right].
Qed.

(* after a torn header the next attempt writes the INVALID slot: the slot holding the only valid header is never the target *)
Theorem target_is_never_the_current_slot : forall d cur, select d = Some cur ->
  get_slot d (current_slot d) = SValid cur /\ negb (current_slot d) <> current_slot d.
Proof.
  intros d cur H. split; [now apply current_slot_holds | destruct (current_slot d); discriminate].
Qed.

(* the opposite rule -- write the slot whose raw tx id is lower, looking at the raw word and not at validity -- loses
   everything in two crashes: computed. Slot 0 holds the valid header (tx 5), slot 1 was torn by the first crash while
   carrying the raw id 6; "the lower raw id" is slot 0; the second crash tears that write too. *)
Definition ex_two : disk := mkDisk [(4%N, Written 5%N)] (SValid (mkHeader 5 [4%N])) SInvalid.
Example two_crashes_other_rule_loses_all :
  select ex_two = Some (mkHeader 5 [4%N]) /\
  select (write_slot ex_two false SInvalid) = None /\
  select (write_slot ex_two (negb (current_slot ex_two)) SInvalid) = Some (mkHeader 5 [4%N]).
Proof. vm_compute. repeat split. Qed.

(* non-vacuity: the example setting of CrashFacts satisfies the invariant and admits an attempt *)
Example hist_inv_inhabited : hist_inv ex_two.
Proof.
  exists (mkHeader 5 [4%N]). split; [reflexivity|]. intros p [<-|[]]. exists 5%N. split; [reflexivity | cbn; lia].
Qed.

Print Assumptions crash_history_inv.
Print Assumptions crash_history_selects.
Print Assumptions target_is_never_the_current_slot.
Print Assumptions two_crashes_other_rule_loses_all.

(* the rule the model uses for the target slot is the one the translator finds in write_data (tools/gen_consts.py:
   meta_page_id = (self.meta.meta_page == 0) for page id, stored slot number and file offset, self.meta taken from the
   validated selection in Tx::new) *)
Lemma header_target_pinned : header_target_other_than_current = true.
Proof. reflexivity. Qed.
