(* Combinations of the engine lemmas that the property files quote (props/*.v contain only `exact`). *)
From Coq Require Import List NArith Bool.
From Jamm Require Import Bytes Tree Engine SearchFacts EngineFacts EngineModifyFacts.
From Jamm Require Spec.
Import ListNotations.
Import Coq.Strings.String.StringSyntax. Delimit Scope string_scope with string.


(* a write transaction reads its own writes (point lookups through the overlay of materialised nodes) *)
Theorem read_own_put d b l k v s b' s' : bucket_wf d b -> bucket_view d b l -> b_put d b k v s = Ok (b', s') ->
  forall k', b_lookup d b' k' = Ok (if beq k' k then Some (LKv k v) else Spec.alookup k' (assoc l)).
Proof.
  intros Hw Hv Hp k'. destruct (b_put_refines _ _ _ _ _ _ _ _ Hw Hv Hp) as (l' & Hw' & Hv' & Ha & _).
  rewrite (b_lookup_refines _ _ _ k' Hw' Hv'), Ha. now rewrite alookup_ainsert.
Qed.

Theorem read_own_delete d b l k s b' s' : bucket_wf d b -> bucket_view d b l -> b_delete d b k s = Ok (b', s') ->
  forall k', b_lookup d b' k' = Ok (if beq k' k then None else Spec.alookup k' (assoc l)).
Proof.
  intros Hw Hv Hp k'. destruct (b_delete_refines _ _ _ _ _ _ _ Hw Hv Hp) as (l' & Hw' & Hv' & Ha & _).
  rewrite (b_lookup_refines _ _ _ k' Hw' Hv'), Ha. rewrite alookup_aremove; [reflexivity|].
  rewrite assoc_keys. destruct Hv as (h & _ & Hv). exact (bucket_view_sorted d h b l Hw Hv).
Qed.

(* a refused operation changes nothing the transaction can see: b_put / b_delete return either Ok or one of the two
   documented errors, never a panic, on a well-formed bucket *)
Theorem put_total d b l k v s : bucket_wf d b -> bucket_view d b l ->
  (exists b' s', b_put d b k v s = Ok (b', s')) \/ b_put d b k v s = Err "IncompatibleValue"%string.
Proof.
  intros Hw (h & Hf & Hv). pose proof (b_put_spec d h b l k v s Hw Hv Hf) as H.
  destruct (Spec.alookup k (assoc l)) as [[k0 v0|k0 r nx]|]; try (right; exact H);
  left; destruct H as (b' & s' & l' & H & _); eauto.
Qed.
Print Assumptions read_own_put.
Print Assumptions read_own_delete.
Print Assumptions put_total.
