(* The numeric constants that model/Engine.v writes as literals are the ones the translator reads from the source on
   every run (gen/Consts.v): a change of a threshold or of a structure size in /repo breaks these lemmas, i.e. the proof
   gate of C01 / C05, instead of leaving a stale model behind. *)
From Coq Require Import List NArith Bool String.
From Jamm Require Import Bytes Consts CLayout Engine.
Local Open Scope N_scope.

Lemma engine_constants_pinned :
  min_keys = 2 /\ merge_div = 4 /\ fill_num = 1 /\ fill_den = 2 /\ split_min_mult = 2 /\
  sizeof "Page" = 40 /\ sizeof "LeafElement" = 32 /\ sizeof "BranchElement" = 24 /\ sizeof "BucketMeta" = 16.
Proof. vm_compute. repeat split; reflexivity. Qed.

Lemma needs_merging_from_source s n :
  needs_merging s n = (dlen (n_data n) <? min_keys) || (sizeof "Page" + dsize (n_data n) <? psz s / merge_div).
Proof. reflexivity. Qed.

Lemma split_guard_from_source s d :
  (dlen d <=? min_keys * split_min_mult) || (sizeof "Page" + dsize d <? psz s) = true -> split s d = (d, nil).
Proof.
  intros H. unfold split. change (min_keys * split_min_mult) with 4 in H. change (sizeof "Page") with 40 in H.
  now rewrite H.
Qed.

Lemma split_threshold_from_source s : psz s / 2 = psz s * fill_num / fill_den.
Proof. change fill_num with 1. change fill_den with 2. now rewrite N.mul_1_r. Qed.

Lemma entry_sizes_from_source d i :
  ent_size d i = match d with
                 | Leaves l => match nth_error l i with Some e => sizeof "LeafElement" + lsize e | None => 0 end
                 | Branches es => match nth_error es i with Some e => sizeof "BranchElement" + blen (fst e) | None => 0 end end.
Proof. reflexivity. Qed.
Print Assumptions engine_constants_pinned.
Print Assumptions needs_merging_from_source.
