(* Completeness of [spill_bucket]: in every later state of the transaction, every page of the committed footprint
   of the spilled bucket and every page written for it is a page of the new tree or was handed back. *)
From Coq Require Import List NArith Bool Arith Lia ZifyN ZifyNat ZifyBool Permutation.
From Coq.Strings Require Import Byte.
From Jamm Require Spec.
From Jamm Require Import Bytes BytesFacts Tree Cursor SearchFacts Engine EngineAbs EngineFacts EngineMergeFacts.
From Jamm Require Import EngineModifyFacts EngineSpillFacts EnginePathFacts EngineBridgeFacts EngineRebalanceFacts.
From Jamm Require FreelistFacts EngineAllocFacts EngineSpillWfFacts.
From Jamm Require Import EngineTxInvFacts EngineSpillBucketFacts EngineRefines.
From Jamm Require Import EngineOwnDefs EngineOwnWr EngineOwnOps EngineOwnReb EngineOwnSpill.
From Jamm Require Import EngineNoLeakWr EngineNoLeakNode EngineNoLeakCov.
Import ListNotations.
Import Coq.Strings.String.StringSyntax. Delimit Scope string_scope with string.
Local Open Scope list_scope. Local Open Scope nat_scope.
Set Warnings "-abstract-large-number".
Arguments N.add : simpl never. Arguments N.sub : simpl never. Arguments N.mul : simpl never.
Arguments N.div : simpl never. Arguments N.ltb : simpl never. Arguments N.leb : simpl never.
Arguments N.eqb : simpl never.

Section SpillCov.
Variables (d : disk) (keep L : list N).
Hypothesis HC : closedR d keep.
Hypothesis Hz : dget d 0%N = None.
Hypothesis HkL : forall q x, In q keep -> In x (prun d q) -> In x L.

Notation ldisk := (later_disk d).

(* x is a page of the bucket tree rooted at r on the disk of the later state s *)
Definition InT (n : nat) (s : txs) (r x : N) : Prop := In x (runs (ldisk s) (fpg n (ldisk s) r)).

(* P holds in every later state of the transaction *)
Definition Later (live Atot : list N) (s' : txs) (P : txs -> Prop) : Prop :=
  forall s'' a2 d2, frame (Atot ++ live) s' s'' a2 d2 -> P s''.

Lemma Later_later : forall live Atot s s1 a dd (P : txs -> Prop),
  frame (Atot ++ live) s s1 a dd -> Later live Atot s P -> Later live (a ++ Atot) s1 P.
Proof.
  intros live Atot s s1 a dd P Hf HW s'' a2 d2 Hf2. rewrite <- app_assoc in Hf2.
  apply (HW s'' (a2 ++ a) (dd ++ d2)). eapply frame_trans; eauto.
Qed.

Lemma Later_impl : forall live Atot s (P Q : txs -> Prop), (forall s4, P s4 -> Q s4) -> Later live Atot s P -> Later live Atot s Q.
Proof. intros live Atot s P Q H HL s'' a2 d2 Hf. apply H, (HL s'' a2 d2 Hf). Qed.

Lemma InT_own : forall n s p q x, In q (p :: ppages fuel0 (ldisk s) p) -> In x (prun (ldisk s) q) -> InT (S n) s p x.
Proof.
  intros n s p q x Hq Hx. unfold InT. rewrite fpg_S, runs_app. apply in_or_app. left. apply In_runs. eauto.
Qed.

Lemma InT_entry : forall n s p k r nx x, In (LBk k r nx) (page_ents fuel0 (ldisk s) p) -> InT n s r x -> InT (S n) s p x.
Proof.
  intros n s p k r nx x He Hx. unfold InT in *. rewrite fpg_S, runs_app, runs_flat_map. apply in_or_app. right.
  apply in_flat_map. exists (LBk k r nx). split; [exact He | exact Hx].
Qed.

(* what [spill_bucket] establishes *)
Definition CovPost (n : nat) (r0 : N) (live : list N) (s : txs) (res : N * N * txs * list bytes) : Prop :=
  let '(r, _, s', _) := res in
  exists alloc dead, frame live s s' alloc dead /\ xframe s s' /\
    Later live alloc s' (fun s4 => cpres n (ldisk s4) r ->
      (forall x, In x (foot d n r0) -> freed_in_tx s4 x = true \/ InT n s4 r x) /\
      (forall q v x, wr_get (wr s') q = Some v -> In x (wrun (psz s') q v) ->
         wr_get (wr s) q <> None \/ freed_in_tx s4 x = true \/ InT n s4 r x)).

Definition RecCov (rec : bucket -> txs -> list bytes -> res (N * N * txs * list bytes)) : Prop :=
  forall n live b s ord res r0 m, n <= fuel0 ->
    fresh_inv live s -> (forall x, In x L -> In x live) -> unwritten keep s ->
    wr_ok L s -> pend_ok0 s -> pend_ids_ok s ->
    SReady d keep b -> OvlAbs d b m -> SReadyX d keep b ->
    OwnI d n s b r0 -> Lnk d n b r0 -> incl (foot d n r0) L ->
    (forall q, wr_get (wr s) q <> None -> In q live) -> Cov d n s b r0 ->
    rec b s ord = Ok res -> CovPost n r0 live s res.

Lemma keepL : forall x, In x keep -> In x L.
Proof. intros x Hx. apply (HkL x x Hx). apply In_prun_self. Qed.

(* the bucket that is not dirty *)
Lemma cov_clean : forall n live b s r0 ord, n <= fuel0 -> fresh_inv live s -> (forall x, In x L -> In x live) ->
  unwritten keep s -> is_dirty fuel0 b = false -> (exists k, sbk k d (b_root_page b)) -> In (b_root_page b) keep ->
  OwnI d n s b r0 -> Lnk d n b r0 -> CovPost n r0 live s (b_root_page b, b_next b, s, ord).
Proof.
  intros n live b s r0 ord Hn Hfi HLl Hu Ed [k Hk] Hin HOw HLk.
  destruct (clean_foot d Hz n fuel0 b r0 s Hn Ed HOw HLk) as (_ & Ep & Hf). rewrite Ep in *.
  pose proof (sbk_nz d k r0 Hz Hk) as Hnz.
  cbn [CovPost]. exists [], []. split; [now apply frame_refl|]. split; [apply xframe_refl|].
  intros s2 a2 d2 Hf2 _. cbn [app] in Hf2.
  assert (Hkl : forall x, In x keep -> In x live) by (intros x Hx; apply HLl, keepL, Hx).
  pose proof (frame_unwritten _ _ _ _ _ keep Hfi Hf2 Hkl Hu) as Hu2.
  split.
  - intros x Hx. right. unfold InT. fold (later_disk d s2). rewrite (kept_tree d keep HC n s2 r0 Hu2 Hin Hnz). exact Hx.
  - intros q v x Hq _. left. congruence.
Qed.

(* ---------- the fold over the opened sub-buckets ---------- *)
Definition SubInvC (n' : nat) (live : list N) (s : txs) (l : list leafent) (acc : sub_acc) : Prop :=
  let '(ms, s0, _, _) := acc in
  exists A D, frame live s s0 A D /\ xframe s s0 /\ (forall q, wr_get (wr s0) q <> None -> In q (A ++ live)) /\
    Forall (fun m : meta => exists ro nxo, In (LBk (m_name m) ro nxo) l /\
       Later live A s0 (fun s4 => cpres n' (ldisk s4) (snd (fst m)) ->
         forall x, In x (foot d n' ro) -> freed_in_tx s4 x = true \/ InT n' s4 (snd (fst m)) x)) ms /\
    Later live A s0 (fun s4 => (forall m, In m ms -> cpres n' (ldisk s4) (snd (fst m))) ->
       forall q v x, wr_get (wr s0) q = Some v -> In x (wrun (psz s0) q v) ->
         wr_get (wr s) q <> None \/ freed_in_tx s4 x = true \/ exists m, In m ms /\ InT n' s4 (snd (fst m)) x).

Section SubFoldC.
Variables (n' : nat) (live : list N) (s : txs) (l : list leafent) (subs : list (bytes * bucket)) (r0 : N).
Variable rec : bucket -> txs -> list bytes -> res (N * N * txs * list bytes).
Hypothesis HRc : RecCov rec.
Hypothesis Hn' : n' <= fuel0.
Hypothesis Hfi : fresh_inv live s.
Hypothesis HLl : forall x, In x L -> In x live.
Hypothesis Hunw : unwritten keep s.
Hypothesis HfootL : incl (foot d (S n') r0) L.
Hypothesis Hent : forall e, In e l -> incl (efoot d n' e) (foot d (S n') r0).
Hypothesis Hent2 : forall e1 e2, In e1 l -> In e2 l -> lkey e1 <> lkey e2 -> disj (efoot d n' e1) (efoot d n' e2).
Hypothesis Hsubs : forall nm sb, In (nm, sb) subs ->
  SReady d keep sb /\ (exists ms, OvlAbs d sb ms) /\ SReadyX d keep sb /\
  exists ro nxo, In (LBk nm ro nxo) l /\ OwnI d n' s sb ro /\ Lnk d n' sb ro /\ Cov d n' s sb ro.

Lemma sub_step_invC : forall x acc acc', SubInvO d L n' live s l subs acc -> SubInvC n' live s l acc ->
  sub_step rec acc x = Ok acc' -> SubInvC n' live s l acc'.
Proof.
  intros x0 [[[ms s0] o] remaining] acc' HI HIc H.
  unfold sub_step in H. destruct o as [|nm o']; [discriminate|].
  destruct (take_sub nm remaining) as [[sb rem']|] eqn:Et; [|discriminate].
  apply bind_ok_inv in H. destruct H as ([[[r nx] s'] o''] & Hrec & H). inversion H; subst acc'. clear H.
  destruct (take_sub_inv _ _ _ _ Et) as (a & b & Erem & ->).
  destruct HI as (I1 & I2 & I4 & A & D & Aof & Hfr & Hw0 & Hp0 & Hi0 & HD & HAof & HAofd & Hall).
  destruct HIc as (A' & D' & Hfr' & X0 & Hwl0 & Hfoot & Hwrc).
  assert (Hin_rem : In (nm, sb) remaining) by (rewrite Erem; apply in_or_app; right; now left).
  destruct (Hsubs nm sb (I2 _ Hin_rem)) as (HS & [msb Hmsb] & HSX & ro & nxo & Hlro & HOw & HLk & HCv).
  assert (Hnm_fresh : forall m, In m ms -> m_name m <> nm).
  { intros m Hm E. apply (I4 m Hm). rewrite E. apply (in_map fst _ _ Hin_rem). }
  assert (HL' : forall y, In y L -> In y (A' ++ live)) by (intros y Hy; apply in_or_app; right; now apply HLl).
  assert (HA_fresh : forall y, In y L -> ~ In y A).
  { intros y Hy Hi. apply (frame_new _ _ _ _ _ y Hfi Hfr Hi), HLl, Hy. }
  assert (HroL : incl (foot d n' ro) L) by (intros y Hy; apply HfootL, (Hent _ Hlro), Hy).
  assert (Hother : forall m ro' nxo', In m ms -> In (LBk (m_name m) ro' nxo') l -> disj (foot d n' ro) (foot d n' ro')).
  { intros m ro' nxo' Hm Hl'. apply (Hent2 (LBk nm ro nxo) (LBk (m_name m) ro' nxo') Hlro Hl'). cbn [lkey].
    intros E. exact (Hnm_fresh m Hm (eq_sym E)). }
  assert (HOw0 : OwnI d n' s0 sb ro).
  { apply (OwnI_later d Hz n' s s0 sb ro HOw). intros y Hy Hf. apply (fr_freed _ _ _ _ _ Hfr) in Hf.
    destruct Hf as [Hf|Hf]; [exact Hf|]. exfalso. destruct (HD y Hf) as [Ha|(m & ro' & nxo' & Hm & Hl' & Hy')].
    - exact (HA_fresh y (HroL y Hy) Ha).
    - exact (Hother m ro' nxo' Hm Hl' y Hy Hy'). }
  assert (Hkl : forall x, In x keep -> In x live) by (intros y Hy; apply HLl, keepL, Hy).
  assert (HCv0 : Cov d n' s0 sb ro) by (apply (Cov_mono d n' s s0 sb ro (xf_freed _ _ X0) HCv)).
  pose proof (HRc n' (A' ++ live) sb s0 o' _ ro msb Hn' (fr_fresh _ _ _ _ _ Hfr') HL'
                 (frame_unwritten _ _ _ _ _ keep Hfi Hfr' Hkl Hunw) Hw0 Hp0 Hi0 HS Hmsb HSX HOw0 HLk HroL Hwl0 HCv0 Hrec) as HP.
  cbn [CovPost] in HP. destruct HP as (a1 & d1 & Hf1 & X1 & HW1).
  assert (HW1' : Later live (a1 ++ A') s' (fun s4 => cpres n' (ldisk s4) r ->
      (forall x, In x (foot d n' ro) -> freed_in_tx s4 x = true \/ InT n' s4 r x) /\
      (forall q v x, wr_get (wr s') q = Some v -> In x (wrun (psz s') q v) ->
         wr_get (wr s0) q <> None \/ freed_in_tx s4 x = true \/ InT n' s4 r x))).
  { intros s2 a2 d2 Hf2. rewrite <- app_assoc in Hf2. exact (HW1 s2 a2 d2 Hf2). }
  unfold SubInvC. exists (a1 ++ A'), (D' ++ d1).
  split; [eapply frame_trans; eauto|]. split; [eapply xframe_trans; eauto|].
  split. { intros q Hq. rewrite <- app_assoc. exact (frame_heads _ _ _ _ _ Hf1 Hwl0 q Hq). }
  split.
  - apply Forall_app. split.
    + rewrite Forall_forall in Hfoot. apply Forall_forall. intros m Hm. destruct (Hfoot m Hm) as (ro' & nxo' & Hl' & HWm).
      exists ro', nxo'. split; [exact Hl'|]. exact (Later_later live A' s0 s' a1 d1 _ Hf1 HWm).
    + repeat constructor. exists ro, nxo. cbn [m_name fst snd]. split; [exact Hlro|].
      eapply Later_impl; [|exact HW1']. cbn beta. intros s4 HP Hc. exact (proj1 (HP Hc)).
  - pose proof (Later_later live A' s0 s' a1 d1 _ Hf1 Hwrc) as Hold.
    intros s4 a2 d2 Hf4 Hcp q v x Hq Hx.
    assert (Hcr : cpres n' (ldisk s4) r) by (apply (Hcp (nm, r, nx)); apply in_or_app; right; now left).
    destruct (HW1' s4 a2 d2 Hf4 Hcr) as [_ Hwr].
    destruct (Hwr q v x Hq Hx) as [B|[B|B]].
    + destruct (wr_get (wr s0) q) as [v'|] eqn:Ev; [|congruence].
      assert (v' = v) by (pose proof (xf_wr _ _ X1 _ _ Ev) as E'; congruence). subst v'.
      rewrite (xf_psz _ _ X1) in Hx.
      destruct (Hold s4 a2 d2 Hf4 (fun m Hm => Hcp m (in_or_app _ _ _ (or_introl Hm))) q v x Ev Hx) as [C|[C|(m & Hm & C)]].
      * now left.
      * right; now left.
      * right; right. exists m. split; [apply in_or_app; now left | exact C].
    + right; now left.
    + right; right. exists (nm, r, nx). split; [apply in_or_app; right; now left | exact B].
Qed.

Lemma sub_fold_invC : forall cnt acc acc', SubInvO d L n' live s l subs acc -> SubInvC n' live s l acc ->
  RecOwn d keep L rec ->
  (forall nm sb, In (nm, sb) subs ->
     SReady d keep sb /\ (exists ms, OvlAbs d sb ms) /\ SReadyX d keep sb /\
     exists ro nxo, In (LBk nm ro nxo) l /\ OwnI d n' s sb ro /\ Lnk d n' sb ro) ->
  fold_res (sub_step rec) cnt acc = Ok acc' -> SubInvC n' live s l acc'.
Proof.
  induction cnt as [|x cnt IH]; intros acc acc' HI HIc HR Hsubs4 H.
  - cbn [fold_res] in H. inversion H; subst. exact HIc.
  - cbn [fold_res] in H. apply bind_ok_inv in H. destruct H as (acc1 & H1 & H2).
    apply (IH acc1 acc'); [| |exact HR | exact Hsubs4 | exact H2].
    + eapply (sub_step_invO d keep L Hz HkL n' live s l subs r0 rec HR Hn' Hfi HLl Hunw HfootL Hent Hent2 Hsubs4); eauto.
    + eapply sub_step_invC; eauto.
Qed.
End SubFoldC.

(* ---------- assembling the new tree ---------- *)

(* the head pages of a strict committed bucket are not page 0 *)
Lemma heads_nz : forall n r0 q, sbk (S n) d r0 -> In q (r0 :: ppages fuel0 d r0) -> q <> 0%N.
Proof.
  intros n r0 q Hs Hq. destruct (sbk_inv _ _ _ Hs) as (h & Hh & HP & _).
  assert (Hsub : in_subtree d r0 q) by (destruct Hq as [<-|Hq]; [apply ist_self | eapply ppages_subtree; eauto]).
  destruct (PInv_subtree_present _ _ _ _ _ _ HP q Hsub) as [a Ha]. intros ->. congruence.
Qed.

Lemma patch_meta : forall (ms : list meta) (l : list leafent) m ro nxo, NoDup (map m_name ms) -> In m ms ->
  In (LBk (m_name m) ro nxo) l -> In (LBk (m_name m) (snd (fst m)) (snd m)) (map (patch ms) l).
Proof.
  intros ms l m ro nxo Hnd Hm Hl. apply in_map_iff. exists (LBk (m_name m) ro nxo). split; [|exact Hl].
  cbn [patch]. destruct (find_name ms (m_name m) (in_map m_name _ _ Hm)) as (m1 & F1 & F2 & F3).
  rewrite F1. assert (m1 = m) by (eapply (NoDup_map_inj m_name ms); eauto). subst m1.
  destruct m as [[nm r] nx]. reflexivity.
Qed.

Lemma cov_assemble : forall n' live s s1 A D (ms : list meta) (l : list leafent) r0 b s3 alloc dead p nx ord,
  fresh_inv live s -> (forall x, In x L -> In x live) -> unwritten keep s ->
  frame live s s1 A D -> (forall q, wr_get (wr s1) q <> None -> In q (A ++ live)) ->
  Forall (fun m : meta => exists ro nxo, In (LBk (m_name m) ro nxo) l /\
     Later live A s1 (fun s4 => cpres n' (ldisk s4) (snd (fst m)) ->
       forall x, In x (foot d n' ro) -> freed_in_tx s4 x = true \/ InT n' s4 (snd (fst m)) x)) ms ->
  Later live A s1 (fun s4 => (forall m, In m ms -> cpres n' (ldisk s4) (snd (fst m))) ->
     forall q v x, wr_get (wr s1) q = Some v -> In x (wrun (psz s1) q v) ->
       wr_get (wr s) q <> None \/ freed_in_tx s4 x = true \/ exists m, In m ms /\ InT n' s4 (snd (fst m)) x) ->
  frame (A ++ live) s1 s3 alloc dead -> xframe s s3 ->
  sorted_keys (map lkey l) = true ->
  (r0 = 0%N \/ sbk (S n') d r0) ->
  (r0 <> 0%N -> forall q, In q (r0 :: ppages fuel0 d r0) -> In q (bheads d b) \/ gone d s q) ->
  (r0 <> 0%N -> forall k r nx, In (LBk k r nx) (page_ents fuel0 d r0) ->
     In (LBk k r nx) l \/ forall x, In x (foot d n' r) -> freed_in_tx s x = true) ->
  (forall k r nx, In (LBk k r nx) l -> find (fun m : meta => beq (m_name m) k) ms = None -> In r keep /\ r <> 0%N) ->
  (forall m, In m ms -> exists ro nxo, In (LBk (m_name m) ro nxo) l) -> NoDup (map m_name ms) ->
  Later live (alloc ++ A) s3 (fun s4 => cpres (S n') (ldisk s4) p ->
     page_ents fuel0 (ldisk s4) p = map (patch ms) l /\
     (forall q, In q (bheads d b) -> q <> 0%N ->
        gone d s4 q \/ (In q (p :: ppages fuel0 (ldisk s4) p) /\ prun (ldisk s4) q = prun d q)) /\
     (forall q v x, wr_get (wr s3) q = Some v -> In x (wrun (psz s3) q v) ->
        wr_get (wr s1) q <> None \/ freed_in_tx s4 x = true \/
        (In q (p :: ppages fuel0 (ldisk s4) p) /\ In x (prun (ldisk s4) q)))) ->
  CovPost (S n') r0 live s (p, nx, s3, ord).
Proof.
  intros n' live s s1 A D ms l r0 b s3 alloc dead p nx ord Hfi HLl Hunw Hfr Hwl1 Hfoot Hwrc Hf3 X Hsorted Hr C1 C2
    Hunp Hnamed Hndm Hown.
  cbn [CovPost]. exists (alloc ++ A), (D ++ dead). pose proof (frame_trans _ _ _ _ _ _ _ _ Hfr Hf3) as Hf13.
  split; [exact Hf13|]. split; [exact X|].
  intros s4 a2 d2 Hf4 Hc.
  destruct (Hown s4 a2 d2 Hf4 Hc) as (Epe & O1 & O2).
  assert (Hkl : forall x, In x keep -> In x live) by (intros y Hy; apply HLl, keepL, Hy).
  pose proof (frame_trans _ _ _ _ _ _ _ _ Hf13 Hf4) as Hf14.
  pose proof (frame_unwritten _ _ _ _ _ keep Hfi Hf14 Hkl Hunw) as Hu4.
  assert (Hf34 : frame (A ++ live) s1 s4 (a2 ++ alloc) (dead ++ d2)).
  { rewrite <- app_assoc in Hf4. eapply frame_trans; eauto. }
  assert (Hfr34 : forall x, freed_in_tx s3 x = true -> freed_in_tx s4 x = true).
  { intros x Hx. apply (fr_freed _ _ _ _ _ Hf4). now left. }
  assert (Hfr04 : forall x, freed_in_tx s x = true -> freed_in_tx s4 x = true).
  { intros x Hx. apply Hfr34, (xf_freed _ _ X), Hx. }
  cbn [cpres] in Hc. destruct Hc as [Hpp Hcall]. rewrite Epe in Hcall. rewrite Forall_forall in Hcall.
  assert (Hcm : forall m, In m ms -> cpres n' (ldisk s4) (snd (fst m))).
  { intros m Hm. destruct (Hnamed m Hm) as (ro & nxo & Hl).
    exact (Hcall _ (patch_meta ms l m ro nxo Hndm Hm Hl)). }
  assert (Hvia : forall m x, In m ms -> InT n' s4 (snd (fst m)) x -> InT (S n') s4 p x).
  { intros m x Hm Hx. destruct (Hnamed m Hm) as (ro & nxo & Hl).
    eapply InT_entry; [rewrite Epe; exact (patch_meta ms l m ro nxo Hndm Hm Hl) | exact Hx]. }
  split.
  - intros x Hx. pose proof (foot_nonzero _ _ _ _ Hx) as Hr0. destruct Hr as [Hr|Hs]; [contradiction|].
    rewrite (foot_split d n' r0 Hz Hs) in Hx. apply in_app_or in Hx. destruct Hx as [Hx|Hx].
    + unfold region in Hx. destruct (N.eqb_spec r0 0) as [E|_]; [contradiction|]. apply In_runs in Hx.
      destruct Hx as (q & Hq & Hx). destruct (C1 Hr0 q Hq) as [Hb|Hg]; [|left; apply Hfr04, Hg, Hx].
      destruct (O1 q Hb (heads_nz n' r0 q Hs Hq)) as [Hg|[Hin Ep]]; [left; apply Hg, Hx|].
      right. eapply InT_own; [exact Hin | rewrite Ep; exact Hx].
    + apply in_flat_map in Hx. destruct Hx as ([k v|k r nx0] & He & Hx); [destruct Hx|]. cbn [efoot] in Hx.
      destruct (C2 Hr0 k r nx0 He) as [Hl|Hg]; [|left; apply Hfr04, Hg, Hx].
      destruct (find (fun m : meta => beq (m_name m) k) ms) as [m|] eqn:Ef.
      * apply find_some in Ef. destruct Ef as [Hm Hb]. apply beq_true_iff in Hb.
        rewrite Forall_forall in Hfoot. destruct (Hfoot m Hm) as (ro & nxo & Hl' & HW).
        assert (E : LBk (m_name m) ro nxo = LBk k r nx0) by (eapply key_unique; eauto). inversion E; subst ro nxo.
        destruct (HW s4 _ _ Hf34 (Hcm m Hm) x Hx) as [G|G]; [now left | right; eapply Hvia; eauto].
      * destruct (Hunp k r nx0 Hl Ef) as [Hk Hnz]. right.
        eapply (InT_entry n' s4 p k r nx0); [rewrite Epe; apply in_map_iff; exists (LBk k r nx0); split; [|exact Hl]|].
        -- cbn [patch]. now rewrite Ef.
        -- unfold InT. rewrite (kept_tree d keep HC n' s4 r Hu4 Hk Hnz). exact Hx.
  - intros q v x Hq Hx. destruct (O2 q v x Hq Hx) as [B|[B|[B1 B2]]].
    + destruct (wr_get (wr s1) q) as [v'|] eqn:Ev; [|congruence].
      assert (v' = v).
      { pose proof (frame_wr_mono _ _ _ _ _ (fr_fresh _ _ _ _ _ Hfr) Hf3 Hwl1 q v' Ev) as E'. congruence. }
      subst v'. rewrite (fr_psz _ _ _ _ _ Hf3) in Hx.
      destruct (Hwrc s4 _ _ Hf34 Hcm q v x Ev Hx) as [G|[G|(m & Hm & G)]]; [now left | right; now left|].
      right; right. eapply Hvia; eauto.
    + right; now left.
    + right; right. eapply InT_own; eauto.
Qed.

(* ---------- the own tree of a dirty bucket: the three cases of the tail of [spill_bucket] ---------- *)

(* pages of a kept subtree on a later disk *)
Lemma kept_subtree : forall s4 u q, unwritten keep s4 -> In u keep -> in_subtree d u q ->
  in_subtree (ldisk s4) u q /\ In q keep /\ prun (ldisk s4) q = prun d q.
Proof.
  intros s4 u q Hu Hk Hs.
  assert (Hq : In q keep) by (eapply closed_subtree; eauto).
  split; [|split; [exact Hq|]].
  - apply (subtree_transfer d); [|exact Hs]. intros y Hy. apply (later_disk_kept d keep s4 y Hu).
    eapply closed_subtree; eauto.
  - unfold prun. now rewrite (later_disk_kept d keep s4 q Hu Hq).
Qed.

(* the materialised, non-empty root *)
Lemma tail_rdy_cov : forall live' s2 h rn lv p s3,
  fresh_inv live' s2 -> (forall x, In x keep -> In x live') -> unwritten keep s2 ->
  (forall q, wr_get (wr s2) q <> None -> In q live') ->
  Inv h d false None None rn -> Rdy d keep rn -> NodeView d h rn lv -> h <= fuel0 ->
  incl (npages h d rn) keep -> pg_ok d rn -> NoDup (npages h d rn) ->
  spill_root fuel0 rn s2 = Ok (p, s3) ->
  exists alloc dead, frame live' s2 s3 alloc dead /\ xframe s2 s3 /\
    forall s4 a2 d2, frame (alloc ++ live') s3 s4 a2 d2 -> pages_present fuel0 (ldisk s4) p ->
      page_ents fuel0 (ldisk s4) p = lv /\
      (forall q, In q (hdl rn ++ npages h d rn) -> q <> 0%N ->
         gone d s4 q \/ (In q (p :: ppages fuel0 (ldisk s4) p) /\ prun (ldisk s4) q = prun d q)) /\
      (forall q v x, wr_get (wr s3) q = Some v -> In x (wrun (psz s3) q v) ->
         wr_get (wr s2) q <> None \/ freed_in_tx s4 x = true \/
         (In q (p :: ppages fuel0 (ldisk s4) p) /\ In x (prun (ldisk s4) q))).
Proof.
  intros live' s2 h rn lv p s3 Hfi2 Hk1 Hu2 Hwl2 HI HRd HV Hh Hinc Hpg Hnp Hsp.
  pose proof (Rdy_shape_ok _ _ _ _ _ _ HI HRd) as Hsh.
  assert (Hup : forall x, In x (upages h d rn) -> In x keep).
  { intros x Hx. apply Hinc. now apply EngineSpillWfFacts.upages_incl_npages. }
  pose proof (EngineSpillWfFacts.Inv_swfh h d keep h None None rn HI Hsh Hup (le_n h)) as Hsw.
  pose proof (EngineSpillWfFacts.NoDup_npages_upages h d rn Hnp) as Hund.
  destruct (spill_root_wfw h d keep live' fuel0 rn s2 p s3 h Hfi2 Hk1 Hsw Hund Hsp)
    as (alloc & dead & good & lv0 & F1 & F2 & F3 & _ & F6 & Hfin).
  destruct (spill_root_cov h d keep live' fuel0 rn s2 p s3 h Hfi2 Hk1 Hwl2 Hsw Hund Hsp) as (X & Hold & Huh & Hwr).
  exists alloc, dead. split; [exact F1|]. split; [exact X|].
  intros s4 a2 d2 Hf4 Hp.
  destruct (frame_later_ok _ _ _ _ _ good keep s4 a2 d2 Hfi2 F1 F2 Hk1 Hu2 Hf4) as [G1 G2].
  destruct (Hfin (wr s4) (psz s4) G1 G2) as (R1 & R2 & R3 & R5). cbv zeta in *. fold (later_disk d s4) in *.
  assert (Hu4 : unwritten keep s4) by exact G2.
  pose proof (frame_wr_mono _ _ _ _ _ (fr_fresh _ _ _ _ _ F1) Hf4 (frame_heads _ _ _ _ _ F1 Hwl2)) as Hmono.
  assert (Hfr34 : forall x, freed_in_tx s3 x = true -> freed_in_tx s4 x = true).
  { intros x Hx. apply (fr_freed _ _ _ _ _ Hf4). now left. }
  assert (Hreach : forall q, wsub (wr s3) p q -> in_subtree (ldisk s4) p q).
  { intros q Hw. unfold later_disk. apply wsub_subtree. eapply wsub_mono; [exact Hmono | exact Hw]. }
  split; [|split].
  - rewrite (NodeView_view_leaves d h rn _ HV h (le_n h)) in R5.
    eapply PageView_det; [apply page_ents_PageView; exact Hp | exact R5].
  - intros q Hq Hnz.
    assert (Hcase : In q (mpages rn) \/ exists u, uhead rn u /\ in_subtree d u q).
    { apply in_app_or in Hq. destruct Hq as [Hq|Hq].
      - left. rewrite mpages_eq. apply in_or_app. left. exact Hq.
      - destruct (npages_split h d rn q Hq) as [E|[Hm|Hu]]; [contradiction | | now right].
        left. rewrite mpages_eq. apply in_or_app. now right. }
    destruct Hcase as [Hm|(u & Hu & Hs)].
    + left. intros x Hx. apply Hfr34, Hold. eapply mpages_oldruns; eauto.
    + right. pose proof (uhead_keep h d keep h None None rn Hsw u Hu) as Huk.
      destruct (kept_subtree s4 u q Hu4 Huk Hs) as (Hs4 & _ & Ep). split; [|exact Ep].
      apply present_subtree; [exact Hp|]. eapply subtree_trans; [apply Hreach, Huh, Hu | exact Hs4].
  - intros q v x Hq Hx. destruct (Hwr q v x Hq Hx) as [B|[B|B]]; [now left | right; left; now apply Hfr34|].
    right; right. split; [apply present_subtree; [exact Hp | apply Hreach, B]|].
    unfold later_disk. rewrite (prun_written _ _ _ _ _ (Hmono q v Hq)).
    now rewrite (fr_psz _ _ _ _ _ Hf4).
Qed.

(* the root that is the empty leaf *)
Lemma tail_empty_cov : forall live' s2 h rn p s3,
  fresh_inv live' s2 -> (forall q, wr_get (wr s2) q <> None -> In q live') ->
  n_data rn = Leaves [] -> pg_ok d rn -> NodeView d h rn [] ->
  spill_root fuel0 rn s2 = Ok (p, s3) ->
  exists alloc dead, frame live' s2 s3 alloc dead /\ xframe s2 s3 /\
    forall s4 a2 d2, frame (alloc ++ live') s3 s4 a2 d2 ->
      page_ents fuel0 (ldisk s4) p = [] /\
      (forall q, In q (hdl rn ++ npages h d rn) -> q <> 0%N -> gone d s4 q) /\
      (forall q v x, wr_get (wr s3) q = Some v -> In x (wrun (psz s3) q v) ->
         wr_get (wr s2) q <> None \/ (In q (p :: ppages fuel0 (ldisk s4) p) /\ In x (prun (ldisk s4) q))).
Proof.
  intros live' s2 h rn p s3 Hfi2 Hwl2 Hemp Hpg HV Hsp.
  destruct (spill_root_empty_w live' fuel0 rn s2 p s3 Hfi2 Hemp Hsp) as (np & v0 & F1 & Hnp & Hget & Hbody).
  destruct (spill_root_empty_cov live' fuel0 rn s2 p s3 Hfi2 Hwl2 Hemp Hsp) as (X & Hold & Hnew).
  exists (nrun p np), (old_pages rn). split; [exact F1|]. split; [exact X|].
  intros s4 a2 d2 Hf4.
  pose proof (frame_wr_mono _ _ _ _ _ (fr_fresh _ _ _ _ _ F1) Hf4 (frame_heads _ _ _ _ _ F1 Hwl2)) as Hmono.
  assert (Hg4 : dget (ldisk s4) p = Some (mk_apage (psz s4) v0)) by (apply dget_apply_wr_some, Hmono, Hget).
  split; [|split].
  - unfold fuel0. eapply page_ents_leaf; [exact Hg4 | exact Hbody].
  - intros q Hq Hnz x Hx. apply (fr_freed _ _ _ _ _ Hf4). left. apply Hold.
    rewrite npages_leaf, app_nil_r in Hq by (now rewrite Hemp). unfold hdl in Hq.
    destruct (N.eqb_spec (n_page rn) 0) as [E|E]; [destruct Hq|]. destruct Hq as [<-|[]].
    inversion Hpg as [n0 Hp1 _]; subst n0. destruct (Hp1 E) as (a & Hg & Enp).
    unfold prun in Hx. rewrite Hg in Hx. apply In_nrun in Hx. split; [exact E | lia].
  - intros q v x Hq Hx. destruct (Hnew q ltac:(congruence)) as [B| ->]; [now left | right].
    split; [now left|]. unfold later_disk. rewrite (prun_written _ _ _ _ _ (Hmono p v Hq)).
    now rewrite (fr_psz _ _ _ _ _ Hf4).
Qed.

(* ---------- the induction step ---------- *)
Lemma RecCov_step : forall f, RecCov (spill_bucket f d) -> RecCov (spill_bucket (S f) d).
Proof.
  intros f HRc n live b s ord res r0 m Hn Hfi HLl Hu Hw Hp0 Hpid HS HO HSX HOw HLk HfL Hwl HCv H.
  destruct res as [[[r nx] s'] ord']. rewrite spill_bucket_unfold in H.
  assert (Hkl : forall x, In x keep -> In x live) by (intros y Hy; apply HLl, keepL, Hy).
  pose proof (RecOwn_all d keep L HC Hz HkL W1a W1b W1c W1d f) as HR.
  destruct (is_dirty fuel0 b) eqn:Ed; cbn [negb] in H.
  2:{ inversion H; subst r nx s' ord'. inversion HSX as [b0 _ Hsb Hin | b0 Hd]; subst b0; [|congruence].
      eapply cov_clean; eauto. }
  destruct n as [|n']; [destruct HOw|].
  inversion HS as [b0 Hd | b0 h l _ Hh HV HD Hnd Hsubs Hdisk]; subst b0; [congruence|].
  inversion HSX as [b0 Hd | b0 _ HXR HXsubs HXun]; subst b0; [congruence|].
  inversion HO as [b0 l0 ents Hbv HF]; subst b0 m.
  assert (Hbvl : bucket_view d b l) by (exists h; auto).
  assert (El : l0 = l) by (apply (bucket_view_det d b); assumption). subst l0.
  cbn [OwnI] in HOw. destruct HOw as (Hr & Hndf & Hpg & l1 & Hv1 & Hnb & Hb & He & Hun & Hsb).
  assert (El : l1 = l) by (apply (bucket_view_det d b); assumption). subst l1.
  cbn [Lnk] in HLk. destruct HLk as [_ HLk2].
  rewrite Cov_S in HCv. destruct (HCv l Hbvl) as (C1 & C2 & C3).
  destruct (own_entries d n' r0 l Hz Hr Hndf He) as (E1 & E2 & E3 & E4).
  pose proof (XRoot_sorted d keep b h l HXR HV) as Hsorted.
  assert (Hsubs' : forall nm sb, In (nm, sb) (b_subs b) -> SReady d keep sb /\ exists ms, OvlAbs d sb ms).
  { intros nm sb Hin. destruct (Hsubs nm sb Hin) as [(r1 & nx1 & Hl) HSb]. split; [exact HSb|].
    eapply sub_has_meaning; eauto. }
  assert (Hsubs4 : forall nm sb, In (nm, sb) (b_subs b) ->
            SReady d keep sb /\ (exists ms, OvlAbs d sb ms) /\ SReadyX d keep sb /\
            exists ro nxo, In (LBk nm ro nxo) l /\ OwnI d n' s sb ro /\ Lnk d n' sb ro).
  { intros nm sb Hin. destruct (Hsubs' nm sb Hin) as [X1 X2]. split; [exact X1|]. split; [exact X2|].
    split; [eauto|]. destruct (Hsb nm sb Hin) as (ro & nxo & Hl & Ho). exists ro, nxo. split; [exact Hl|].
    split; [exact Ho | exact (HLk2 nm sb Hin l ro nxo Hbvl Hl)]. }
  assert (Hsubs5 : forall nm sb, In (nm, sb) (b_subs b) ->
            SReady d keep sb /\ (exists ms, OvlAbs d sb ms) /\ SReadyX d keep sb /\
            exists ro nxo, In (LBk nm ro nxo) l /\ OwnI d n' s sb ro /\ Lnk d n' sb ro /\ Cov d n' s sb ro).
  { intros nm sb Hin. destruct (Hsubs4 nm sb Hin) as (X1 & X2 & X3 & ro & nxo & Hl & Ho & Hk).
    split; [exact X1|]. split; [exact X2|]. split; [exact X3|]. exists ro, nxo. repeat (split; [assumption|]).
    exact (C3 nm sb ro nxo Hin Hl). }
  apply bind_ok_inv in H. destruct H as ([[[metas s1] ord1] rem] & Hf1 & H).
  assert (HI0 : SubInv d live s (b_subs b) ([], s, ord, b_subs b)).
  { cbn [SubInv]. split; [exact Hnd|]. split; [auto|]. split; [constructor|]. split; [intros ? []|].
    split; [intros x Hx; now right|]. exists [], []. split; [now apply frame_refl | constructor]. }
  destruct (sub_fold_inv d keep live s (b_subs b) _ (RecOK_all d keep f) Hfi Hkl Hu Hsubs' (b_subs b) _ _ HI0 Hf1)
    as [(_ & _ & J3 & _ & J5 & A0 & D0 & Hfr0 & Hms) Hlen].
  cbn [snd] in Hlen. assert (rem = []) by (destruct rem; [reflexivity | cbn [length] in Hlen; lia]). subst rem.
  assert (Hcov : forall x, In x (b_subs b) -> In (fst x) (map m_name metas)).
  { intros x Hx. destruct (J5 x Hx) as [Hc|[]]. exact Hc. }
  assert (HI0O : SubInvO d L n' live s l (b_subs b) ([], s, ord, b_subs b)).
  { cbn [SubInvO]. split; [exact Hnd|]. split; [auto|]. split; [intros ? []|]. exists [], [], (fun _ => []).
    split; [now apply frame_refl|]. split; [exact Hw|]. split; [exact Hp0|]. split; [exact Hpid|].
    split; [intros x []|]. split; [intros k x []|]. split; [intros k1 k2 _ x []|constructor]. }
  assert (HI0C : SubInvC n' live s l ([], s, ord, b_subs b)).
  { cbn [SubInvC]. exists [], []. split; [now apply frame_refl|]. split; [apply xframe_refl|].
    split; [exact Hwl|]. split; [constructor|]. intros s4 a2 d2 _ _ q v x Hq _. left. congruence. }
  assert (Hn' : n' <= fuel0) by lia.
  pose proof (sub_fold_invC n' live s l (b_subs b) r0 _ HRc Hn' Hfi HLl Hu HfL (fun e He => proj1 (E3 e He)) E4 Hsubs5
                (b_subs b) _ _ HI0O HI0C HR Hsubs4 Hf1) as HIC.
  cbn [SubInvC] in HIC. destruct HIC as (A & D & Hfr & X01 & Hwl1 & Hfoot & Hwrc).
  assert (Hunp : forall k r1 nx1, In (LBk k r1 nx1) l -> find (fun m : meta => beq (m_name m) k) metas = None ->
            In r1 keep /\ r1 <> 0%N).
  { intros k r1 nx1 Hin Hfd.
    assert (Hsf : sub_find k (b_subs b) = None).
    { destruct (sub_find k (b_subs b)) as [sb|] eqn:Hsf; [|reflexivity]. exfalso.
      pose proof (Hcov _ (sub_find_In _ _ _ Hsf)) as Hc. cbn [fst] in Hc.
      destruct (find_name metas k Hc) as (m1 & F1 & _). congruence. }
    destruct (HXun l k r1 nx1 Hbvl Hin Hsf) as [[k0 Hk0] Hr1]. split; [exact Hr1 | eapply sbk_nz; eauto]. }
  apply bind_ok_inv in H. destruct H as ([b1 s2] & Hf2 & H).
  assert (Hallm : forall mt, In mt metas -> exists r1 nx1, In (LBk (m_name mt) r1 nx1) l).
  { intros mt Hmt. rewrite Forall_forall in Hms. destruct (Hms mt Hmt) as (sb & _ & X1 & _).
    destruct (Hsubs _ _ X1) as [Hex _]. exact Hex. }
  assert (Hcase : (b_rootn b = None /\ metas = []) \/
                  (SRoot d keep h b /\ (metas <> [] \/ exists n, b_rootn b = Some n))).
  { unfold SRoot, DRoot in *. destruct (b_rootn b) as [n|]; [right; split; [exact HD | right; eauto]|].
    destruct metas as [|mt metas]; [left; auto|]. right. split; [|left; discriminate].
    destruct HD as [HD1 HD2]. split; [|exact HD1]. apply HD2.
    inversion Hms as [|? ? (sb & _ & X1 & _) _]; subst. intros E. rewrite E in X1. destruct X1. }
  pose proof (fr_fresh _ _ _ _ _ Hfr) as Hfi1.
  pose proof (frame_unwritten _ _ _ _ _ keep Hfi Hfr Hkl Hu) as Hu1.
  assert (Hk1 : forall x, In x keep -> In x (A ++ live)) by (intros y Hy; apply in_or_app; right; now apply Hkl).
  destruct Hcase as [[Ern ->] | [HSR Hsome]].
  - (* the promoted root that was never loaded *)
    cbn [fold_res] in Hf2. inversion Hf2; subst b1 s2. unfold spill_tail_b in H. rewrite Ern in H.
    inversion H; subst r nx s' ord'. clear H.
    unfold DRoot in HD. unfold BucketView in HV. rewrite Ern in HD, HV. destruct HD as [HD1 _].
    apply (cov_assemble n' live s s1 A D [] l r0 b s1 [] [] (b_root_page b) (b_next b) ord1 Hfi HLl Hu Hfr Hwl1 Hfoot Hwrc
             (frame_refl _ _ Hfi1) X01 Hsorted Hr C1 C2 Hunp Hallm J3).
    intros s4 a2 d2 Hf4 Hc. cbn [app] in Hf4.
    pose proof (frame_unwritten _ _ _ _ _ keep Hfi1 Hf4 Hk1 Hu1) as Hu4.
    assert (Hag : forall x, in_subtree d (b_root_page b) x -> dget (ldisk s4) x = dget d x).
    { intros x Hx. apply (later_disk_kept d keep s4 x Hu4), HD1, Hx. }
    rewrite (ppages_transfer d (ldisk s4) fuel0 _ Hag), (page_ents_transfer d (ldisk s4) fuel0 _ Hag).
    rewrite (PageView_page_ents _ _ _ _ HV fuel0 Hh), patch_nil. split; [reflexivity|]. split.
    + intros q Hq _. right. unfold bheads in Hq. rewrite Ern in Hq. split; [exact Hq|].
      assert (Hs : in_subtree d (b_root_page b) q) by (destruct Hq as [<-|Hq]; [apply ist_self | eapply ppages_subtree; eauto]).
      unfold prun. now rewrite (Hag q Hs).
    + intros q v x Hq _. left. congruence.
  - destruct (meta_fold_replace d keep h metas b l s1 b1 s2 HSR HV Hh J3 Hallm Hf2) as (B1 & B2 & B3 & B4 & _ & B6).
    pose proof (meta_fold_bpg d keep h metas b l s1 b1 s2 HSR HV Hh J3 Hallm Hf2) as Ebpg.
    assert (Hrp : b_rootn b = None -> b_root_page b <> 0%N).
    { intros En E. unfold SRoot in HSR. rewrite En in HSR. destruct HSR as [HP _].
      destruct (PInv_dget _ _ _ _ _ _ HP) as [a Ha]. rewrite E in Ha. congruence. }
    destruct (meta_fold_heads d keep h metas b l s1 b1 s2 HSR HV Hh J3 Hallm Hpg Hrp Hf2) as (Ehd & Hpg1 & _).
    destruct (XRoot_bpg d keep h b HC HXR HSR) as [_ Hinc]. rewrite <- Ebpg in Hinc.
    assert (Hrn : exists rn, b_rootn b1 = Some rn).
    { destruct Hsome as [Hne | [n0 Hn0]]; [apply B3, Hne|]. destruct metas as [|mt metas]; [|apply B3; discriminate].
      rewrite (B4 eq_refl). eauto. }
    destruct Hrn as [rn Ern]. unfold spill_tail_b in H. rewrite Ern in H.
    apply bind_ok_inv in H. destruct H as ([p s3] & Hsp & H). inversion H; subst r nx s' ord'. clear H.
    pose proof (bheads_bpg d keep h b1 B1 Hh) as Ebh. rewrite Ern in Ebh.
    unfold SRoot in B1. rewrite Ern in B1. destruct B1 as [HI HRd]. unfold BucketView in B2. rewrite Ern in B2.
    unfold bpg in Hinc, Ebh. rewrite Ern in Hinc, Ebh. unfold bpg_ok in Hpg1. rewrite Ern in Hpg1.
    assert (Ebo : bheads d b = hdl rn ++ npages h d rn) by (unfold hdl; now rewrite <- Ehd, Ebh).
    pose proof (frame_seqc_r _ _ _ _ _ _ Hfr B6) as Hfr02. pose proof (fr_fresh _ _ _ _ _ Hfr02) as Hfi2.
    pose proof (frame_unwritten _ _ _ _ _ keep Hfi Hfr02 Hkl Hu) as Hu2.
    assert (Ewr2 : wr s2 = wr s1) by (destruct B6 as (_ & _ & _ & _ & _ & E & _); exact E).
    assert (Hwl2 : forall q, wr_get (wr s2) q <> None -> In q (A ++ live)) by (rewrite Ewr2; exact Hwl1).
    destruct HRd as [Hemp | HRdy].
    + assert (El : map (patch metas) l = []) by (eapply NodeView_empty_leaf; eauto).
      rewrite El in B2.
      destruct (tail_empty_cov (A ++ live) s2 h rn p s3 Hfi2 Hwl2 Hemp Hpg1 B2 Hsp) as (alloc & dead & F1 & X23 & Hlater).
      pose proof (frame_seqc_l _ _ _ _ _ _ B6 F1) as F1'.
      apply (cov_assemble n' live s s1 A D metas l r0 b s3 alloc dead p (b_next b1) ord1 Hfi HLl Hu Hfr Hwl1 Hfoot Hwrc
               F1' (xframe_trans _ _ _ X01 (xframe_trans _ _ _ (xframe_seqc _ _ B6) X23)) Hsorted Hr C1 C2 Hunp Hallm J3).
      intros s4 a2 d2 Hf4 Hc. rewrite <- app_assoc in Hf4.
      destruct (Hlater s4 a2 d2 Hf4) as (Epe & O1 & O2). rewrite El. split; [exact Epe|]. split.
      * intros q Hq Hnz. left. apply O1; [now rewrite <- Ebo | exact Hnz].
      * intros q v x Hq Hx. destruct (O2 q v x Hq Hx) as [G|G]; [left; now rewrite <- Ewr2 | right; now right].
    + assert (Hnp : NoDup (npages h d rn)).
      { unfold bown in Hnb. rewrite Ebo in Hnb. apply NoDup_runs_heads in Hnb. eapply NoDup_app_r; eauto. }
      destruct (tail_rdy_cov (A ++ live) s2 h rn _ p s3 Hfi2 Hk1 Hu2 Hwl2 HI HRdy B2 Hh Hinc Hpg1 Hnp Hsp)
        as (alloc & dead & F1 & X23 & Hlater).
      pose proof (frame_seqc_l _ _ _ _ _ _ B6 F1) as F1'.
      apply (cov_assemble n' live s s1 A D metas l r0 b s3 alloc dead p (b_next b1) ord1 Hfi HLl Hu Hfr Hwl1 Hfoot Hwrc
               F1' (xframe_trans _ _ _ X01 (xframe_trans _ _ _ (xframe_seqc _ _ B6) X23)) Hsorted Hr C1 C2 Hunp Hallm J3).
      intros s4 a2 d2 Hf4 Hc. rewrite <- app_assoc in Hf4.
      assert (Hp : pages_present fuel0 (ldisk s4) p) by (cbn [cpres] in Hc; apply Hc).
      destruct (Hlater s4 a2 d2 Hf4 Hp) as (Epe & O1 & O2). split; [exact Epe|]. split.
      * intros q Hq Hnz. apply O1; [now rewrite <- Ebo | exact Hnz].
      * intros q v x Hq Hx. destruct (O2 q v x Hq Hx) as [G|G]; [left; now rewrite <- Ewr2 | now right].
Qed.

Lemma RecCov_all : forall f, RecCov (spill_bucket f d).
Proof.
  induction f as [|f IH]; [|now apply RecCov_step].
  intros n live b s ord res r0 m _ _ _ _ _ _ _ _ _ _ _ _ _ _ _ H. discriminate.
Qed.

End SpillCov.

Print Assumptions RecCov_all.
