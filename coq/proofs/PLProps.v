(* Multi-step properties of the page-lifecycle machine (model/PL.v), on top of proofs/PLFacts.v:
   A. C03 over a whole history: a registered reader's snapshot is frozen for its whole life;
   B. C06 over small patterns / any commit-free run: abandoned work leaves no trace;
   C. C05 in numeric form (page counting) and the C10 plateau (bounded file growth);
   D. tx and np are monotone (the file never shrinks).
   No axioms; stdlib only. *)
From Coq Require Import List NArith Bool Lia ZifyN ZifyBool Permutation.
From Jamm Require Import PL PLFacts.
Import ListNotations.
Local Open Scope list_scope. Local Open Scope N_scope.

Arguments N.add : simpl never. Arguments N.sub : simpl never. Arguments N.min : simpl never.
Arguments N.ltb : simpl never. Arguments N.leb : simpl never. Arguments N.eqb : simpl never.
Arguments N.max : simpl never. Arguments N.mul : simpl never.

(* ------------------------------------------------------------------------------------------ *)
(* runs                                                                                       *)
(* ------------------------------------------------------------------------------------------ *)

Lemma accept_all_app es1 : forall s es2,
  accept_all s (es1 ++ es2) =
  match accept_all s es1 with Some s1 => accept_all s1 es2 | None => None end.
Proof.
  induction es1 as [|e es1 IH]; intros s es2; cbn [app accept_all]; [reflexivity|].
  destruct (accept s e) as [s1|]; [apply IH | reflexivity].
Qed.

Lemma accept_all_cons s e es s' :
  accept_all s (e :: es) = Some s' -> exists s1, accept s e = Some s1 /\ accept_all s1 es = Some s'.
Proof.
  cbn [accept_all]. destruct (accept s e) as [s1|]; [|discriminate]. intros H. exists s1. tauto.
Qed.

(* ------------------------------------------------------------------------------------------ *)
(* A. C03, multi-step                                                                         *)
(* ------------------------------------------------------------------------------------------ *)

Definition writes_of (es : list event) : list N :=
  flat_map (fun e => match e with ECommit w _ _ _ _ _ => w | _ => [] end) es.

Definition ev_writes (e : event) : list N :=
  match e with ECommit w _ _ _ _ _ => w | _ => [] end.

Lemma writes_of_cons e es : writes_of (e :: es) = ev_writes e ++ writes_of es.
Proof. reflexivity. Qed.

Definition keeps_ev (r : N) (e : event) : Prop :=
  match e with EEndR x => x <> r | EReopen _ => False | _ => True end.

Definition keeps_reader (r : N) (es : list event) : Prop :=
  Forall (fun e => match e with EEndR x => x <> r | EReopen _ => False | _ => True end) es.

Lemma remove_reader_keeps x rl : forall l l',
  remove_reader x l = Some l' -> fst rl <> x -> In rl l -> In rl l'.
Proof.
  induction l as [|a l IH]; intros l' H Hne Hin; cbn [remove_reader] in H; [discriminate|].
  destruct (fst a =? x) eqn:E.
  - inversion H; subst. destruct Hin as [Hin|Hin]; [|exact Hin].
    subst. apply N.eqb_eq in E. contradiction.
  - destruct (remove_reader x l) as [l''|] eqn:E'; [|discriminate]. inversion H; subst.
    destruct Hin as [Hin|Hin]; [left; exact Hin | right; exact (IH l'' eq_refl Hne Hin)].
Qed.

(* one step: the reader stays registered and the event does not write into its snapshot *)
Lemma reader_step s e s1 r L :
  PLInv s -> In (r, L) (readers s) -> accept s e = Some s1 -> keeps_ev r e ->
  (forall x, In x (ev_writes e) -> ~ In x L) /\ In (r, L) (readers s1).
Proof.
  intros Hinv Hr Hacc Hk. destruct e; cbn [ev_writes keeps_ev] in *.
  - split; [intros x []|]. cbn [accept] in Hacc. inversion Hacc; subst. cbn [readers]. right. exact Hr.
  - split; [intros x []|]. cbn [accept] in Hacc.
    destruct (remove_reader snap (readers s)) as [rs|] eqn:E; [|discriminate].
    inversion Hacc; subst. cbn [readers].
    apply (remove_reader_keeps snap (r, L) _ _ E); [cbn [fst]; congruence | exact Hr].
  - split; [intros x []|]. apply accept_BeginW_same in Hacc. subst. exact Hr.
  - split.
    + intros x Hx.
      exact (snapshot_never_written _ _ _ _ _ _ _ _ Hinv Hacc r L Hr x Hx).
    + rewrite (readers_Commit _ _ _ _ _ _ _ _ Hacc). exact Hr.
  - split; [intros x []|]. inversion Hacc; subst. exact Hr.
  - destruct Hk.
Qed.

Theorem reader_frozen : forall es s s' r L,
  PLInv s -> In (r, L) (readers s) -> accept_all s es = Some s' -> keeps_reader r es ->
  (forall x, In x (writes_of es) -> ~ In x L) /\ In (r, L) (readers s') /\ PLInv s'.
Proof.
  induction es as [|e es IH]; intros s s' r L Hinv Hr Hacc Hk.
  - cbn [accept_all] in Hacc. inversion Hacc; subst. split; [intros x []|]. split; assumption.
  - apply accept_all_cons in Hacc. destruct Hacc as [s1 [H1 H2]].
    inversion Hk as [|? ? Hke Hkes]; subst.
    destruct (reader_step s e s1 r L Hinv Hr H1 Hke) as [Hw Hr1].
    pose proof (accept_inv _ _ _ Hinv H1) as Hinv1.
    destruct (IH s1 s' r L Hinv1 Hr1 H2 Hkes) as [Hws [Hr' Hinv']].
    split; [|split; assumption].
    intros x Hx. rewrite writes_of_cons in Hx.
    apply in_app_or in Hx. destruct Hx as [Hx|Hx]; [exact (Hw x Hx) | exact (Hws x Hx)].
Qed.
Print Assumptions reader_frozen.

(* from the initial state: the reader registered by an EBeginR after the prefix es1 *)
Corollary reader_frozen_from_init es1 es2 s1 s' :
  accept_all init_pl es1 = Some s1 ->
  accept_all init_pl (es1 ++ EBeginR :: es2) = Some s' ->
  keeps_reader (tx s1) es2 ->
  (forall x, In x (writes_of es2) -> ~ In x (live s1)) /\
  In (tx s1, live s1) (readers s') /\ PLInv s'.
Proof.
  intros H1 H Hk. rewrite accept_all_app, H1 in H. cbn [accept_all accept] in H.
  pose proof (reachable_inv es1 s1 H1) as Hinv1.
  set (s2 := mkPl (live s1) (free s1) (pend s1) (np s1) (tx s1) ((tx s1, live s1) :: readers s1)) in *.
  assert (Hinv2 : PLInv s2) by (apply (accept_inv s1 EBeginR s2 Hinv1); reflexivity).
  apply (reader_frozen es2 s2 s' (tx s1) (live s1) Hinv2); [left; reflexivity | exact H | exact Hk].
Qed.

(* the same without naming the intermediate state in the hypotheses *)
Corollary reader_frozen_from_init' es1 es2 s' :
  accept_all init_pl (es1 ++ EBeginR :: es2) = Some s' ->
  exists s1, accept_all init_pl es1 = Some s1 /\ PLInv s1 /\
    (keeps_reader (tx s1) es2 ->
     (forall x, In x (writes_of es2) -> ~ In x (live s1)) /\
     In (tx s1, live s1) (readers s') /\ PLInv s').
Proof.
  intros H. pose proof H as H'. rewrite accept_all_app in H'.
  destruct (accept_all init_pl es1) as [s1|] eqn:H1; [|discriminate].
  exists s1. split; [reflexivity|]. split; [exact (reachable_inv es1 s1 H1)|].
  intros Hk. exact (reader_frozen_from_init es1 es2 s1 s' H1 H Hk).
Qed.
Print Assumptions reader_frozen_from_init.
Print Assumptions reader_frozen_from_init'.

(* ------------------------------------------------------------------------------------------ *)
(* B. C06, multi-step: abandoned work leaves no trace                                         *)
(* ------------------------------------------------------------------------------------------ *)

Lemma pl_eta s : mkPl (live s) (free s) (pend s) (np s) (tx s) (readers s) = s.
Proof. destruct s. reflexivity. Qed.

Theorem begin_rollback_same s f p s' : accept_all s [EBeginW f p; ERollback] = Some s' -> s' = s.
Proof.
  intros H. apply accept_all_cons in H. destruct H as [s1 [H1 H2]].
  apply accept_BeginW_same in H1. subst s1. cbn in H2. inversion H2. reflexivity.
Qed.

Lemma accept_BeginR_EndR s : accept_all s [EBeginR; EEndR (tx s)] = Some s.
Proof.
  cbn [accept_all accept readers remove_reader fst tx live free pend np].
  rewrite N.eqb_refl. rewrite pl_eta. reflexivity.
Qed.

Theorem reader_begin_end_same s s' : accept_all s [EBeginR; EEndR (tx s)] = Some s' -> s' = s.
Proof. rewrite accept_BeginR_EndR. intros H. inversion H. reflexivity. Qed.

(* a reader that comes and goes while a write transaction is abandoned *)
Theorem begin_reader_rollback_same s f p s' :
  accept_all s [EBeginW f p; EBeginR; EEndR (tx s); ERollback] = Some s' -> s' = s.
Proof.
  intros H. apply accept_all_cons in H. destruct H as [s1 [H1 H2]].
  apply accept_BeginW_same in H1. subst s1.
  change [EBeginR; EEndR (tx s); ERollback] with ([EBeginR; EEndR (tx s)] ++ [ERollback]) in H2.
  rewrite accept_all_app, accept_BeginR_EndR in H2. cbn in H2. inversion H2. reflexivity.
Qed.

Theorem reader_around_rollback_same s f p s' :
  accept_all s [EBeginR; EBeginW f p; ERollback; EEndR (tx s)] = Some s' -> s' = s.
Proof.
  intros H. apply accept_all_cons in H. destruct H as [s1 [H1 H2]].
  cbn [accept] in H1. inversion H1; subst s1; clear H1.
  apply accept_all_cons in H2. destruct H2 as [s2 [H2 H3]].
  apply accept_BeginW_same in H2. subst s2.
  apply accept_all_cons in H3. destruct H3 as [s3 [H3 H4]]. cbn [accept] in H3. inversion H3; subst s3; clear H3.
  cbn [accept_all accept readers remove_reader fst tx live free pend np] in H4.
  rewrite N.eqb_refl in H4. rewrite pl_eta in H4. inversion H4. reflexivity.
Qed.

Theorem begin_rollback_reader_same s f p s' :
  accept_all s [EBeginW f p; ERollback; EBeginR; EEndR (tx s)] = Some s' -> s' = s.
Proof.
  intros H. change [EBeginW f p; ERollback; EBeginR; EEndR (tx s)]
    with ([EBeginW f p; ERollback] ++ [EBeginR; EEndR (tx s)]) in H.
  rewrite accept_all_app in H.
  destruct (accept_all s [EBeginW f p; ERollback]) as [s1|] eqn:E; [|discriminate].
  apply begin_rollback_same in E. subst s1. exact (reader_begin_end_same s s' H).
Qed.

(* in general: a run without ECommit / EReopen does not change the database part of the state *)
Definition same_db (s s' : pl) : Prop :=
  live s' = live s /\ free s' = free s /\ pend s' = pend s /\ np s' = np s /\ tx s' = tx s.

Definition no_commit (e : event) : Prop :=
  match e with ECommit _ _ _ _ _ _ => False | EReopen _ => False | _ => True end.

Lemma no_commit_step s e s' : no_commit e -> accept s e = Some s' -> same_db s s'.
Proof.
  unfold same_db. intros Hn H. destruct e; cbn [no_commit] in Hn; try contradiction.
  - cbn [accept] in H. inversion H; subst. cbn. repeat split.
  - cbn [accept] in H. destruct (remove_reader snap (readers s)); [|discriminate].
    inversion H; subst. cbn. repeat split.
  - apply accept_BeginW_same in H. subst. repeat split.
  - inversion H; subst. repeat split.
Qed.

Lemma no_commit_step' s e s' : accept s e = Some s' -> no_commit e -> same_db s s'.
Proof. intros H Hn. exact (no_commit_step s e s' Hn H). Qed.

Theorem no_commit_same_db : forall es s s',
  Forall no_commit es -> accept_all s es = Some s' -> same_db s s'.
Proof.
  induction es as [|e es IH]; intros s s' Hn H.
  - cbn in H. inversion H; subst. unfold same_db. repeat split.
  - apply accept_all_cons in H. destruct H as [s1 [H1 H2]]. inversion Hn as [|? ? Hne Hnes]; subst.
    pose proof (no_commit_step s e s1 Hne H1) as [A1 [A2 [A3 [A4 A5]]]].
    pose proof (IH s1 s' Hnes H2) as [B1 [B2 [B3 [B4 B5]]]].
    unfold same_db. repeat split; congruence.
Qed.
Print Assumptions begin_rollback_same.
Print Assumptions reader_begin_end_same.
Print Assumptions begin_reader_rollback_same.
Print Assumptions reader_around_rollback_same.
Print Assumptions begin_rollback_reader_same.
Print Assumptions no_commit_same_db.

(* ------------------------------------------------------------------------------------------ *)
(* D. tx and np are monotone                                                                  *)
(* ------------------------------------------------------------------------------------------ *)

Theorem commit_tx_np s w nf npd l' np' tx' s' :
  accept s (ECommit w nf npd l' np' tx') = Some s' ->
  tx s' = tx s + 1 /\ tx s' = tx' /\ np s <= np s' /\ np s' = np'.
Proof.
  intros H. apply accept_commit_inv in H. destruct H as [t [f1 [p1 [Hwv [Hok ->]]]]].
  pose proof (commit_ok_facts _ _ _ _ _ _ _ _ _ _ Hwv Hok) as Hc.
  apply writer_view_eq in Hwv. destruct Hwv as [Ht _]. cbn [tx np].
  pose proof (cf_np _ _ _ _ _ _ _ _ _ _ _ _ Hc). pose proof (cf_tx _ _ _ _ _ _ _ _ _ _ _ _ Hc).
  repeat split; lia.
Qed.

Theorem accept_mono s e s' : accept s e = Some s' -> tx s <= tx s' /\ np s <= np s'.
Proof.
  intros H. destruct e.
  - destruct (no_commit_step' s _ s' H I) as [_ [_ [_ [A B]]]]. lia.
  - destruct (no_commit_step' s _ s' H I) as [_ [_ [_ [A B]]]]. lia.
  - destruct (no_commit_step' s _ s' H I) as [_ [_ [_ [A B]]]]. lia.
  - apply commit_tx_np in H. lia.
  - destruct (no_commit_step' s _ s' H I) as [_ [_ [_ [A B]]]]. lia.
  - apply accept_reopen_inv in H. destruct H as [_ [_ ->]]. cbn [tx np]. lia.
Qed.

Theorem accept_all_mono : forall es s s', accept_all s es = Some s' -> tx s <= tx s' /\ np s <= np s'.
Proof.
  induction es as [|e es IH]; intros s s' H.
  - cbn in H. inversion H; subst. lia.
  - apply accept_all_cons in H. destruct H as [s1 [H1 H2]].
    apply accept_mono in H1. apply IH in H2. lia.
Qed.
Print Assumptions commit_tx_np.
Print Assumptions accept_all_mono.

(* ------------------------------------------------------------------------------------------ *)
(* C. counting pages                                                                          *)
(* ------------------------------------------------------------------------------------------ *)

Definition card (l : list N) : N := N.of_nat (length l).

Lemma card_nil : card [] = 0.
Proof. reflexivity. Qed.

Lemma card_app a b : card (a ++ b) = card a + card b.
Proof. unfold card. rewrite app_length. lia. Qed.

Lemma range_go_length n : forall lo, length (range_go n lo) = n.
Proof. induction n as [|n IH]; intros lo; cbn [range_go length]; [reflexivity | rewrite IH; reflexivity]. Qed.

Lemma rangeN_length lo hi : length (rangeN lo hi) = N.to_nat (hi - lo).
Proof. rewrite rangeN_go. apply range_go_length. Qed.

(* a duplicate-free list whose members are exactly [lo, hi) has hi - lo elements *)
Lemma NoDup_range_card l lo hi :
  NoDup l -> (forall x, In x l <-> lo <= x < hi) -> card l = hi - lo.
Proof.
  intros Hnd Hin. unfold card.
  assert (P : Permutation l (rangeN lo hi)).
  { apply NoDup_Permutation; [exact Hnd | apply rangeN_NoDup|].
    intros x. rewrite Hin, rangeN_In. reflexivity. }
  rewrite (Permutation_length P), rangeN_length. lia.
Qed.

Lemma NoDup_incl_card a b : NoDup a -> incl a b -> card a <= card b.
Proof. intros Hnd Hi. unfold card. pose proof (NoDup_incl_length Hnd Hi). lia. Qed.

(* C05 in numeric form: every page of [2, np) is counted exactly once *)
Theorem page_count s :
  PLInv s -> np s = 2 + card (live s) + card (free s) + card (pend_all (pend s)).
Proof.
  intros [H1 [H2 [H3 _]]].
  pose proof (NoDup_range_card (all_pages s) 2 (np s) H2 H3) as H.
  unfold all_pages in H. rewrite !card_app in H. lia.
Qed.
Print Assumptions page_count.

Corollary reachable_page_count es s :
  accept_all init_pl es = Some s -> np s = 2 + card (live s) + card (free s) + card (pend_all (pend s)).
Proof. intros H. apply page_count. exact (reachable_inv es s H). Qed.

(* splitting a list along membership in another one *)
Lemma card_split a b : card a = card (filter (fun x => memN x b) a) + card (diffN a b).
Proof.
  unfold card, diffN. induction a as [|x a IH]; cbn [filter]; [reflexivity|].
  destruct (memN x b); cbn [negb length]; lia.
Qed.

Lemma NoDup_filter' {A} (f : A -> bool) l : NoDup l -> NoDup (filter f l).
Proof.
  induction l as [|x l IH]; intros H; cbn [filter]; [constructor|].
  inversion H; subst. destruct (f x); [|auto]. constructor; [|auto].
  intros Hx. apply filter_In in Hx. tauto.
Qed.

Lemma card_le_split a b : NoDup a -> card a <= card b + card (diffN a b).
Proof.
  intros Hnd. rewrite (card_split a b).
  assert (card (filter (fun x => memN x b) a) <= card b); [|lia].
  apply NoDup_incl_card; [apply NoDup_filter'; exact Hnd|].
  intros x Hx. apply filter_In in Hx. apply memN_In. tauto.
Qed.

(* ------------------------------------------------------------------------------------------ *)
(* C. the C10 plateau                                                                         *)
(* ------------------------------------------------------------------------------------------ *)

(* The commit contract says alloc is included in free1 + [np, np'); that the file grows only when
   the writer's free list is exhausted is a property of the allocator (FreelistFacts.alloc_complete /
   tx_allocate_spec, single-page allocations).  It is an explicit hypothesis here:
   if the file grew, nothing is left in the published free list. *)
Definition grows_only_when_empty (s : pl) (e : event) : Prop :=
  match e with ECommit w nf npd l' np' tx' => np s < np' -> nf = [] | _ => True end.

(* the coordinator's formulation ("every page that was free at begin was allocated") is the same
   thing for an accepted commit, where new_free is a subset of free1 *)
Lemma exhausted_iff (f1 nf : list N) : incl nf f1 -> (incl f1 (diffN f1 nf) <-> nf = []).
Proof.
  intros Hsub. split.
  - intros H. destruct nf as [|x nf]; [reflexivity|]. exfalso.
    assert (Hx : In x (x :: nf)) by (left; reflexivity).
    pose proof (H x (Hsub x Hx)) as Hd. apply diffN_In in Hd. tauto.
  - intros -> x Hx. apply diffN_In. split; [exact Hx | intros []].
Qed.

Lemma grows_only_when_empty_alt s w nf npd l' np' tx' s' :
  accept s (ECommit w nf npd l' np' tx') = Some s' ->
  (grows_only_when_empty s (ECommit w nf npd l' np' tx') <->
   (np s < np' -> forall t f1 p1, writer_view s = (t, f1, p1) -> incl f1 (diffN f1 nf))).
Proof.
  intros H. apply accept_commit_inv in H. destruct H as [t [f1 [p1 [Hwv [Hok _]]]]].
  pose proof (commit_ok_facts _ _ _ _ _ _ _ _ _ _ Hwv Hok) as Hc.
  pose proof (cf_nf_f1 _ _ _ _ _ _ _ _ _ _ _ _ Hc) as Hsub. cbn [grows_only_when_empty]. split.
  - intros Hg Hlt t0 f0 p0 Hwv0. rewrite Hwv in Hwv0. inversion Hwv0; subst.
    apply exhausted_iff; [exact Hsub | exact (Hg Hlt)].
  - intros Hg Hlt. apply (exhausted_iff f1 nf Hsub). exact (Hg Hlt t f1 p1 Hwv).
Qed.

(* the pages this commit freed, and among them the "scratch" ones: allocated and freed by the
   same transaction (never part of the previous snapshot) *)
Definition freed_by (s : pl) (npd : pending) : list N := commit_freed (tx s + 1) npd.
Definition scratch (s : pl) (npd : pending) : list N := diffN (freed_by s npd) (live s).

(* shape of the state after a commit made while no reader is registered *)
Theorem commit_no_readers s w nf npd l' np' tx' s' :
  PLInv s -> readers s = [] -> accept s (ECommit w nf npd l' np' tx') = Some s' ->
  live s' = l' /\ free s' = nf /\ np s' = np' /\ readers s' = [] /\
  pend_all (pend s') = freed_by s npd /\
  (forall u ps, In (u, ps) (pend s') -> u = tx s' /\ ps = freed_by s npd) /\
  NoDup (freed_by s npd) /\
  np s' = 2 + card (live s') + card (free s') + card (freed_by s npd).
Proof.
  intros Hinv Hr H. pose proof (accept_inv _ _ _ Hinv H) as Hinv'.
  pose proof (page_count s' Hinv') as Hcnt.
  apply accept_commit_inv in H. destruct H as [t [f1 [p1 [Hwv [Hok Hs']]]]].
  pose proof (commit_ok_facts _ _ _ _ _ _ _ _ _ _ Hwv Hok) as Hc.
  pose proof (release_no_readers s t f1 p1 Hinv Hr Hwv) as Hp1.
  pose proof (writer_view_eq _ _ _ _ Hwv) as [Ht _].
  unfold freed_by. rewrite <- Ht. subst p1. subst s'. cbn [live free pend np tx readers] in *.
  rewrite pend_all_snoc in Hcnt. cbn [pend_all flat_map app] in Hcnt.
  repeat split; try assumption.
  - rewrite pend_all_snoc. reflexivity.
  - apply In_snoc_pend in H. destruct H as [[]|[H _]]. exact H.
  - apply In_snoc_pend in H. destruct H as [[]|[_ H]]. exact H.
  - exact (cf_nd_freed _ _ _ _ _ _ _ _ _ _ _ _ Hc).
Qed.
Print Assumptions commit_no_readers.

(* one step of the plateau: a commit with no reader registered either does not grow the file, or
   (allocator hypothesis) leaves the free list empty, and then the file holds exactly the new live
   set and the pages this commit freed: at most the two snapshots plus the scratch pages *)
Theorem commit_growth_bound s w nf npd l' np' tx' s' :
  PLInv s -> readers s = [] -> accept s (ECommit w nf npd l' np' tx') = Some s' ->
  grows_only_when_empty s (ECommit w nf npd l' np' tx') ->
  np s' = np s \/
  (np s < np s' /\ free s' = [] /\
   np s' = 2 + card (live s') + card (freed_by s npd) /\
   np s' <= 2 + card (live s') + card (live s) + card (scratch s npd)).
Proof.
  intros Hinv Hr H Hg.
  destruct (commit_no_readers _ _ _ _ _ _ _ _ Hinv Hr H) as [E1 [E2 [E3 [_ [_ [_ [Hnd Hcnt]]]]]]].
  pose proof (commit_tx_np _ _ _ _ _ _ _ _ H) as [_ [_ [Hle _]]].
  destruct (N.eq_dec (np s') (np s)) as [Heq|Hne]; [left; exact Heq | right].
  assert (Hlt : np s < np') by lia. cbn [grows_only_when_empty] in Hg. specialize (Hg Hlt).
  assert (Hf : free s' = []) by congruence. rewrite Hf, card_nil in Hcnt.
  split; [lia|]. split; [exact Hf|]. split; [lia|].
  pose proof (card_le_split (freed_by s npd) (live s) Hnd) as Hsp. unfold scratch. lia.
Qed.
Print Assumptions commit_growth_bound.

(* exactness: pages freed by the commit that belonged to the old snapshot are exactly the old live
   pages that are not live any more, so with no scratch pages
   np s' = 2 + |live s'| + |live s \ live s'| *)
Theorem commit_growth_exact s w nf npd l' np' tx' s' :
  PLInv s -> readers s = [] -> accept s (ECommit w nf npd l' np' tx') = Some s' ->
  grows_only_when_empty s (ECommit w nf npd l' np' tx') -> np s < np s' ->
  scratch s npd = [] ->
  np s' = 2 + card (live s') + card (diffN (live s) (live s')).
Proof.
  intros Hinv Hr H Hg Hlt Hsc.
  destruct (commit_growth_bound _ _ _ _ _ _ _ _ Hinv Hr H Hg) as [Heq|[_ [_ [Hcnt _]]]]; [lia|].
  destruct (commit_no_readers _ _ _ _ _ _ _ _ Hinv Hr H) as [E1 [_ [_ [_ [_ [_ [Hnd _]]]]]]].
  pose proof (proj1 (PLInv_facts s) Hinv) as F.
  apply accept_commit_inv in H. destruct H as [t [f1 [p1 [Hwv [Hok _]]]]].
  pose proof (commit_ok_facts _ _ _ _ _ _ _ _ _ _ Hwv Hok) as Hc.
  pose proof (writer_view_eq _ _ _ _ Hwv) as [Ht _].
  assert (Hfr : freed_by s npd = commit_freed t npd) by (unfold freed_by; congruence).
  assert (Hsub : forall x, In x (freed_by s npd) -> In x (live s)).
  { intros x Hx. destruct (in_dec N.eq_dec x (live s)) as [Hl|Hl]; [exact Hl|]. exfalso.
    assert (Hd : In x (scratch s npd)) by (apply diffN_In; tauto). rewrite Hsc in Hd. exact Hd. }
  assert (P : Permutation (freed_by s npd) (diffN (live s) (live s'))).
  { apply NoDup_Permutation; [exact Hnd | apply NoDup_filter'; exact (if_nd_live s F)|].
    intros x. rewrite diffN_In, E1, Hfr. split.
    - intros Hx. split; [apply Hsub; rewrite Hfr; exact Hx|].
      intros Hl'. exact (cf_live'_freed _ _ _ _ _ _ _ _ _ _ _ _ Hc x Hl' Hx).
    - intros [Hl Hnl']. destruct (in_dec N.eq_dec x (commit_freed t npd)) as [Hf|Hf]; [exact Hf|].
      exfalso. exact (Hnl' (cf_kept _ _ _ _ _ _ _ _ _ _ _ _ Hc x Hl Hf)). }
  unfold card in *. rewrite <- (Permutation_length P). exact Hcnt.
Qed.
Print Assumptions commit_growth_exact.

(* the plateau over a run.  [run_ok P s es]: P holds of every (state, event) pair met along the run *)
Fixpoint run_ok (P : pl -> event -> Prop) (s : pl) (es : list event) : Prop :=
  match es with
  | [] => True
  | e :: es' => P s e /\ match accept s e with Some s1 => run_ok P s1 es' | None => True end
  end.

(* per-commit hypotheses: no reader is ever registered (no EBeginR), growth only on an empty free
   list, at most K scratch pages per commit, at most M live pages before and after each commit *)
Definition plateau_hyp (M K : N) (s : pl) (e : event) : Prop :=
  e <> EBeginR /\
  grows_only_when_empty s e /\
  match e with
  | ECommit w nf npd l' np' tx' => card (live s) <= M /\ card l' <= M /\ card (scratch s npd) <= K
  | _ => True
  end.

Lemma no_beginR_readers s e s' : readers s = [] -> e <> EBeginR -> accept s e = Some s' -> readers s' = [].
Proof.
  intros Hr Hne H. destruct e.
  - congruence.
  - cbn [accept] in H. rewrite Hr in H. cbn in H. discriminate.
  - apply accept_BeginW_same in H. congruence.
  - rewrite (readers_Commit _ _ _ _ _ _ _ _ H). exact Hr.
  - inversion H; subst. exact Hr.
  - apply accept_reopen_inv in H. destruct H as [_ [_ ->]]. reflexivity.
Qed.

Lemma plateau_step M K s e s' :
  PLInv s -> readers s = [] -> accept s e = Some s' -> plateau_hyp M K s e ->
  np s' <= N.max (np s) (2 + 2 * M + K).
Proof.
  intros Hinv Hr H [Hne [Hg Hb]]. destruct e.
  - congruence.
  - destruct (no_commit_step' s _ s' H I) as [_ [_ [_ [A _]]]]. lia.
  - destruct (no_commit_step' s _ s' H I) as [_ [_ [_ [A _]]]]. lia.
  - destruct Hb as [B1 [B2 B3]].
    destruct (commit_no_readers _ _ _ _ _ _ _ _ Hinv Hr H) as [E1 _].
    destruct (commit_growth_bound _ _ _ _ _ _ _ _ Hinv Hr H Hg) as [Heq|[_ [_ [_ Hle]]]]; [lia|].
    rewrite E1 in Hle. lia.
  - destruct (no_commit_step' s _ s' H I) as [_ [_ [_ [A _]]]]. lia.
  - apply accept_reopen_inv in H. destruct H as [_ [_ ->]]. cbn [np]. lia.
Qed.

Theorem plateau M K : forall es s s',
  PLInv s -> readers s = [] -> accept_all s es = Some s' -> run_ok (plateau_hyp M K) s es ->
  np s' <= N.max (np s) (2 + 2 * M + K).
Proof.
  induction es as [|e es IH]; intros s s' Hinv Hr H Hok.
  - cbn in H. inversion H; subst. lia.
  - apply accept_all_cons in H. destruct H as [s1 [H1 H2]].
    cbn [run_ok] in Hok. rewrite H1 in Hok. destruct Hok as [Hp Hok].
    pose proof (plateau_step M K s e s1 Hinv Hr H1 Hp) as Hstep.
    pose proof (accept_inv _ _ _ Hinv H1) as Hinv1.
    pose proof (no_beginR_readers s e s1 Hr (proj1 Hp) H1) as Hr1.
    pose proof (IH s1 s' Hinv1 Hr1 H2 Hok). lia.
Qed.
Print Assumptions plateau.

(* from the initial state (np = 4, live = 2 pages) *)
Corollary plateau_from_init M K es s' :
  accept_all init_pl es = Some s' -> run_ok (plateau_hyp M K) init_pl es ->
  np s' <= N.max 4 (2 + 2 * M + K).
Proof. intros H Hok. exact (plateau M K es init_pl s' init_inv eq_refl H Hok). Qed.
Print Assumptions plateau_from_init.

(* non-vacuity: a run of three commits that satisfies the hypotheses with M = 2, K = 0
   (tx 1 grows on an empty free list; tx 2 and tx 3 reuse released pages, the file stays at 6 pages) *)
Definition run_plateau : list event :=
  [ EBeginW [] [];
    ECommit [4; 5] [] [(1, [2; 3])] [4; 5] 6 1;
    EBeginW [2; 3] [];
    ECommit [2; 3] [] [(2, [4; 5])] [2; 3] 6 2;
    ERollback;
    ECommit [4; 5] [] [(3, [2; 3])] [4; 5] 6 3 ].

Example run_plateau_accepted :
  accept_all init_pl run_plateau = Some (mkPl [4; 5] [] [(3, [2; 3])] 6 3 []).
Proof. vm_compute. reflexivity. Qed.

Example run_plateau_ok : run_ok (plateau_hyp 2 0) init_pl run_plateau.
Proof.
  cbn [run_plateau run_ok].
  repeat (match goal with
          | |- _ /\ _ => split
          | |- context [accept ?s ?e] => let r := eval vm_compute in (accept s e) in change (accept s e) with r; cbv iota beta
          | |- plateau_hyp _ _ _ _ => unfold plateau_hyp
          | |- _ <> _ => discriminate
          | |- grows_only_when_empty _ _ => cbn [grows_only_when_empty np]; try (intros _; reflexivity); try exact I
          | |- True => exact I
          | |- _ <= _ => vm_compute; discriminate
          end).
Qed.

Example run_plateau_bound : np (mkPl [4; 5] [] [(3, [2; 3])] 6 3 []) <= N.max 4 (2 + 2 * 2 + 0).
Proof. exact (plateau_from_init 2 0 run_plateau _ run_plateau_accepted run_plateau_ok). Qed.
