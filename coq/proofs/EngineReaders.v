(* SNAPSHOT ISOLATION AND PAGE REUSE FOR THE ENGINE MODEL WITH READ TRANSACTIONS (properties C03 / C10).

   Histories (model/EngineR.v): a state is the current committed state and the list of open readers, each
   recording the committed state it began on; steps [Begin_reader | End_reader i | Tx ops ord]; a writer begins
   with the release bound  min over the open readers of (reader id + k),  or its own id when no reader is open
   ([step_k k]; k = 0 is the library: tx.rs releases below [open_ro_txs[0]]).

   Proved for k <= 1 (so for the library's k = 0 and for the tight bound k = 1):
     [hist_inv_run]          the history invariant [HInv] is kept by every history
     [snapshot_isolation]    every open reader: each page of its snapshot (every page of every run reachable from
                             its header, and its free-list run) has on the CURRENT disk the image it had when the
                             reader began; its tree, read on the current disk, means what it meant then
     [run_hist_refines]      the current state means what the specification says
     [reuse_when_no_reader]  (C10) with no reader open the writer is the reader-less one: every pending batch is
                             released, every pending page is allocatable
   Refuted for k = 2: [ExReaders.k2_breaks_reader] (a reader's snapshot page is overwritten). *)
From Coq Require Import List NArith Bool Arith Lia ZifyN ZifyNat ZifyBool Permutation.
From Coq.Strings Require Import Byte.
From Jamm Require Spec.
From Jamm Require Import Bytes BytesFacts Tree Cursor SearchFacts Engine EngineAbs EngineFacts EngineMergeFacts.
From Jamm Require Import EngineModifyFacts EngineSpillFacts EnginePathFacts EngineBridgeFacts EngineRebalanceFacts.
From Jamm Require FreelistFacts EngineAllocFacts EngineSpillWfFacts.
From Jamm Require Import EngineTxInvFacts EngineSpillBucketFacts EngineRefines.
Import ListNotations.
Import Coq.Strings.String.StringSyntax. Delimit Scope string_scope with string.
Local Open Scope list_scope. Local Open Scope nat_scope.
Set Warnings "-abstract-large-number".
Arguments N.add : simpl never. Arguments N.sub : simpl never. Arguments N.mul : simpl never.
Arguments N.div : simpl never. Arguments N.ltb : simpl never. Arguments N.leb : simpl never.
Arguments N.eqb : simpl never.

From Jamm Require Import EngineOwnDefs EngineOwnWr EngineOwnOps EngineOwnReb EngineOwnSpill EngineOwnLnk EngineAllocInv.
From Jamm Require Import EngineCow EngineR EngineRSim EngineRBegin EngineReadersInv.

(* ====================================================================== *)
(** * 1. The invariant of an open reader *)

(* the pages of the reader's snapshot: every page of every run reachable from its header, and its free-list run *)
Definition snap (r : reader) : list N := live_of r (Rof r).

(* [RI cur r]: the reader r (which began on a state satisfying the invariant, not after [cur]) finds each page of
   its snapshot unchanged on the current disk; the page is below the high-water mark, not free, and not in a
   pending batch with id <= the reader's id (the only batches a safe bound releases) *)
Record RI (cur : db) (r : reader) : Prop := {
  ri_ok : db_okr r;
  ri_tx : (d_tx r <= d_tx cur)%N;
  ri_same : forall p, In p (snap r) -> dget (d_disk cur) p = dget (d_disk r) p;
  ri_np : forall p, In p (snap r) -> (p < d_np cur)%N;
  ri_free : forall p, In p (snap r) -> ~ In p (d_free cur);
  ri_pend : forall p u ps, In p (snap r) -> In (u, ps) (d_pending cur) -> (u <= d_tx r)%N -> ~ In p ps }.

Definition HInv (h : hstate) : Prop := db_okr (fst h) /\ Forall (RI (fst h)) (snd h).

Lemma RI_begin : forall cur, db_okr cur -> RI cur cur.
Proof.
  intros cur Hok. pose proof Hok as [[(_ & HA & _) _] _]. destruct HA as (_ & _ & _ & _ & _ & _ & _ & _ & Hlive).
  constructor; [exact Hok | lia | reflexivity | | |].
  - intros p Hp. apply (Hlive p Hp).
  - intros p Hp. apply (Hlive p Hp).
  - intros p u ps Hp Hb _ Hin. apply (proj2 (proj2 (Hlive p Hp))). unfold pend_all. apply in_flat_map. exists (u, ps). auto.
Qed.

Lemma remove_at_In : forall {A} (l : list A) i x, In x (remove_at l i) -> In x l.
Proof.
  intros A l. induction l as [|y l IH]; intros i x H; destruct i; cbn [remove_at] in H; try (destruct H; fail).
  - now right.
  - destruct H as [->|H]; [now left | right; eapply IH; eauto].
Qed.

(* the bound of [step_k k] is at most (reader id + k) for every open reader *)
Lemma min_reader_le : forall k rs dflt r, In r rs -> (min_reader k rs dflt <= r_id r + k)%N.
Proof.
  intros k rs dflt r. induction rs as [|r0 rs IH]; intros H; [destruct H|]. cbn [min_reader fold_right].
  destruct H as [->|H]; [lia|]. specialize (IH H). unfold min_reader in IH. lia.
Qed.
Lemma min_reader_nil : forall k dflt, min_reader k [] dflt = dflt.
Proof. reflexivity. Qed.

(* ====================================================================== *)
(** * 2. A transaction whose release bound respects the reader keeps the reader's invariant *)

(* THE SAFE INEQUALITY: bound <= reader id + 1.  ([release bound] frees the batches with id < bound; the pages of
   the reader's snapshot are handed back by transactions with id >= reader id + 1.) *)
Lemma snap_not_released : forall cur b r p, RI cur r -> (b <= d_tx r + 1)%N -> In p (snap r) -> ~ In p (rfree cur b).
Proof.
  intros cur b r p HR Hb Hp Hf. destruct (kept_suffix cur b) as (rel & E & Hrel & Hin & _). apply Hin in Hf.
  destruct Hf as [Hf|Hf]; [exact (ri_free _ _ HR p Hp Hf)|].
  unfold pend_all in Hf. apply in_flat_map in Hf. destruct Hf as ([u ps] & Hbt & Hps). cbn [snd] in Hps.
  rewrite Forall_forall in Hrel. specialize (Hrel _ Hbt). cbn [fst] in Hrel. unfold rbound in Hrel.
  apply (ri_pend _ _ HR p u ps Hp); [rewrite E; apply in_or_app; now left | lia | exact Hps].
Qed.

Theorem RI_tx : forall cur b ops ord cur' r, db_okr cur -> Forall (op_ok (d_disk cur)) ops ->
  run_tx_r cur b ops ord = Ok cur' -> RI cur r -> (b <= d_tx r + 1)%N -> RI cur' r.
Proof.
  intros cur b ops ord cur' r Hok Hops Hrun HR Hb.
  destruct (run_tx_r_write_set cur b ops ord cur' Hok Hops Hrun) as (_ & w & X & C).
  constructor.
  - exact (ri_ok _ _ HR).
  - rewrite (tr_tx _ _ _ _ _ C). pose proof (ri_tx _ _ HR). lia.
  - intros p Hp. rewrite <- (ri_same _ _ HR p Hp).
    apply (run_tx_r_protected_intact cur b ops ord cur' Hok Hops Hrun p (ri_np _ _ HR p Hp)).
    now apply (snap_not_released cur b r p HR Hb).
  - intros p Hp. pose proof (ri_np _ _ HR p Hp). pose proof (tr_np _ _ _ _ _ C). lia.
  - intros p Hp Hf. apply (snap_not_released cur b r p HR Hb Hp). exact (tr_free _ _ _ _ _ C p Hf).
  - intros p u ps Hp Hbt Hu. rewrite (tr_pend _ _ _ _ _ C) in Hbt. apply in_app_or in Hbt. destruct Hbt as [Hbt|Hbt].
    + destruct (kept_suffix cur b) as (rel & E & _). apply (ri_pend _ _ HR p u ps Hp); [|exact Hu].
      rewrite E. apply in_or_app. now right.
    + pose proof (tr_Xid _ _ _ _ _ C) as HX. rewrite Forall_forall in HX. specialize (HX _ Hbt). cbn [fst] in HX.
      pose proof (ri_tx _ _ HR). lia.
Qed.

(* ====================================================================== *)
(** * 3. Histories *)

(* every operation admissible where it is applied, every committed state readable (cf. EngineAllocInv.txs_ok') *)
Fixpoint hist_ok (k : N) (h : hstate) (es : list hstep) : Prop :=
  match es with
  | [] => True
  | e :: es' =>
      match e with Tx ops _ => Forall (op_ok (d_disk (fst h))) ops | _ => True end /\
      forall h1, step_k k h e = Ok h1 -> readable (fst h1) /\ hist_ok k h1 es'
  end.

(* the meaning of a history: the transactions in order (readers do not change it) *)
Fixpoint sem_hist (es : list hstep) (m : snode) : snode :=
  match es with
  | [] => m
  | Tx ops _ :: es' => sem_hist es' (sem_tx ops m)
  | _ :: es' => sem_hist es' m
  end.

Theorem hist_inv_step : forall k h e h1, (k <= 1)%N -> HInv h ->
  match e with Tx ops _ => Forall (op_ok (d_disk (fst h))) ops | _ => True end ->
  step_k k h e = Ok h1 -> readable (fst h1) ->
  HInv h1 /\ abs_db (fst h1) = sem_hist [e] (abs_db (fst h)).
Proof.
  intros k [cur rs] e h1 Hk [Hok HRs] Hops Hstep Hrd. cbn [fst snd] in *. destruct e as [|i|ops ord]; cbn [step_k fst snd] in Hstep.
  - inversion Hstep; subst h1. cbn [fst snd sem_hist]. split; [|reflexivity]. split; [exact Hok|].
    apply Forall_app. split; [exact HRs|]. constructor; [now apply RI_begin | constructor].
  - inversion Hstep; subst h1. cbn [fst snd sem_hist]. split; [|reflexivity]. split; [exact Hok|].
    rewrite Forall_forall in HRs |- *. intros r Hr. apply HRs. eapply remove_at_In; eauto.
  - apply bind_ok_inv in Hstep. destruct Hstep as (cur' & Hrun & E). inversion E; subst h1. clear E. cbn [fst snd sem_hist] in *.
    destruct (run_tx_r_refines cur _ ops ord cur' Hok Hops Hrun Hrd) as [Hok' Habs]. split; [|exact Habs].
    split; [exact Hok'|]. cbn [fst snd]. rewrite Forall_forall in HRs |- *. intros r Hr.
    apply (RI_tx cur _ ops ord cur' r Hok Hops Hrun (HRs r Hr)).
    unfold bound_k. cbn [fst snd]. pose proof (min_reader_le k rs (d_tx cur + 1)%N r Hr). unfold r_id in *. lia.
Qed.

Theorem hist_inv_run : forall k es h h', (k <= 1)%N -> HInv h -> hist_ok k h es -> run_hist_k k h es = Ok h' ->
  HInv h' /\ abs_db (fst h') = sem_hist es (abs_db (fst h)).
Proof.
  intros k. induction es as [|e es IH]; intros h h' Hk Hinv Hok Hrun; cbn [run_hist_k fold_res] in Hrun.
  - inversion Hrun; subst. auto.
  - apply bind_ok_inv in Hrun. destruct Hrun as (h1 & H1 & H2). destruct Hok as [Hops Hnext].
    destruct (Hnext h1 H1) as [Hrd Hok1].
    destruct (hist_inv_step k h e h1 Hk Hinv Hops H1 Hrd) as [Hinv1 E1].
    destruct (IH h1 h' Hk Hinv1 Hok1 H2) as [Hinv' E']. split; [exact Hinv'|]. rewrite E'.
    destruct e; cbn [sem_hist] in *; now rewrite E1.
Qed.

(* ====================================================================== *)
(** * 4. SNAPSHOT ISOLATION (C03 for the engine, any number of transactions, any number of readers) *)

(* what the invariant of an open reader gives: its pages, its page set, its meaning on the current disk *)
Lemma RI_frozen : forall cur r, RI cur r ->
  (forall p, In p (snap r) -> dget (d_disk cur) p = dget (d_disk r) p) /\
  (forall p, In p (Rof r) -> dget (d_disk cur) p = dget (d_disk r) p) /\
  fpg 16 (d_disk cur) (d_root r) = Rof r /\
  runs (d_disk cur) (fpg 16 (d_disk cur) (d_root r)) = runs (d_disk r) (Rof r) /\
  abs_bucket 16 (d_disk cur) (d_root r) (d_next r) = abs_db r /\
  abs_db (reader_view cur r) = abs_db r.
Proof.
  intros cur r HR. pose proof (ri_ok _ _ HR) as [[(_ & HA & _) _] _].
  destruct HA as (_ & _ & _ & _ & _ & _ & Hroot & HC & _).
  assert (Hag : forall p, In p (Rof r) -> dget (d_disk cur) p = dget (d_disk r) p).
  { intros p Hp. apply (ri_same _ _ HR). unfold snap. now apply R_live. }
  split; [exact (ri_same _ _ HR)|]. split; [exact Hag|].
  split; [exact (fpg_kept (d_disk r) (d_disk cur) (Rof r) HC Hag 16 (d_root r) Hroot)|].
  split; [exact (runs_fpg_kept (d_disk r) (d_disk cur) (Rof r) HC Hag 16 (d_root r) Hroot)|].
  split; exact (abs_bucket_kept (d_disk r) (d_disk cur) (Rof r) HC Hag 16 (d_root r) (d_next r) Hroot).
Qed.

(* THE THEOREM.  After any history (with the library's release bound k = 0, or the tight one k = 1), for every
   reader that is still open: every page of its snapshot is unchanged on the current disk, and its header read on
   the current disk yields the contents frozen when it began; the current state means what the specification says *)
Theorem snapshot_isolation : forall k es h h', (k <= 1)%N -> HInv h -> hist_ok k h es -> run_hist_k k h es = Ok h' ->
  (forall r, In r (snd h') ->
     (forall p, In p (snap r) -> dget (d_disk (fst h')) p = dget (d_disk r) p) /\
     (forall p, In p (Rof r) -> dget (d_disk (fst h')) p = dget (d_disk r) p) /\
     fpg 16 (d_disk (fst h')) (d_root r) = Rof r /\
     abs_bucket 16 (d_disk (fst h')) (d_root r) (d_next r) = abs_db r /\
     abs_db (reader_view (fst h') r) = abs_db r) /\
  db_okr (fst h') /\ abs_db (fst h') = sem_hist es (abs_db (fst h)).
Proof.
  intros k es h h' Hk Hinv Hok Hrun. destruct (hist_inv_run k es h h' Hk Hinv Hok Hrun) as [[Hokr HRs] Habs].
  split; [|split; [exact Hokr | exact Habs]]. intros r Hr. rewrite Forall_forall in HRs.
  destruct (RI_frozen (fst h') r (HRs r Hr)) as (A & B & C & _ & D & E). auto.
Qed.

Lemma HInv_init : forall P, (0 < P)%N -> HInv (init_db P, []).
Proof. intros P HP. split; [now apply init_db_okr | constructor]. Qed.

Corollary snapshot_isolation_init : forall k P es h', (k <= 1)%N -> (0 < P)%N ->
  hist_ok k (init_db P, []) es -> run_hist_k k (init_db P, []) es = Ok h' ->
  (forall r, In r (snd h') ->
     (forall p, In p (snap r) -> dget (d_disk (fst h')) p = dget (d_disk r) p) /\
     abs_bucket 16 (d_disk (fst h')) (d_root r) (d_next r) = abs_db r) /\
  db_okr (fst h') /\ abs_db (fst h') = sem_hist es (SBucket 0 0 []).
Proof.
  intros k P es h' Hk HP Hok Hrun.
  destruct (snapshot_isolation k es _ h' Hk (HInv_init P HP) Hok Hrun) as (A & B & C).
  split; [|split; [exact B | exact C]]. intros r Hr. destruct (A r Hr) as (A1 & _ & _ & A4 & _). auto.
Qed.

(* a reader that begins on a state satisfying the invariant and stays open over any number of transactions (other
   readers may come and go: here none do) reads its frozen contents after them *)
Corollary reader_frozen : forall k st txs cur rs, (k <= 1)%N -> db_okr st ->
  hist_ok k (st, [st]) (map (fun t : list op * list bytes => Tx (fst t) (snd t)) txs) ->
  run_hist_k k (st, [st]) (map (fun t : list op * list bytes => Tx (fst t) (snd t)) txs) = Ok (cur, rs) ->
  rs = [st] /\
  (forall p, In p (snap st) -> dget (d_disk cur) p = dget (d_disk st) p) /\
  abs_bucket 16 (d_disk cur) (d_root st) (d_next st) = abs_db st.
Proof.
  intros k st txs cur rs Hk Hok Hh Hrun.
  assert (Hrs : rs = [st]).
  { assert (G : forall (l : list (list op * list bytes)) h h', run_hist_k k h (map (fun t => Tx (fst t) (snd t)) l) = Ok h' -> snd h' = snd h).
    { induction l as [|t l IH]; intros h h' H; cbn [map run_hist_k fold_res] in H; [inversion H; reflexivity|].
      apply bind_ok_inv in H. destruct H as (h1 & H1 & H2). cbn [step_k] in H1. apply bind_ok_inv in H1.
      destruct H1 as (st1 & _ & E). inversion E; subst h1. rewrite (IH _ _ H2). reflexivity. }
    exact (G txs _ _ Hrun). }
  split; [exact Hrs|].
  assert (Hinv : HInv (st, [st])) by (split; [exact Hok | constructor; [now apply RI_begin | constructor]]).
  destruct (snapshot_isolation k _ _ _ Hk Hinv Hh Hrun) as (A & _). cbn [fst snd] in A.
  destruct (A st) as (A1 & _ & _ & A4 & _); [rewrite Hrs; now left|]. auto.
Qed.

(* ====================================================================== *)
(** * 5. REUSE (C10): with no reader open the writer is the reader-less one and releases every batch *)

From Jamm Require EngineNoLeakDefs EngineNoLeak.

Theorem reuse_when_no_reader : forall k cur ops ord, db_okr cur ->
  bound_k k (cur, []) = (d_tx cur + 1)%N /\
  step_k k (cur, []) (Tx ops ord) = bind (run_tx cur ops ord) (fun st' => Ok (st', [])) /\
  begin_w_r cur (bound_k k (cur, [])) = begin_w cur /\
  pending (begin_w cur) = [] /\
  (forall x, In x (d_free cur) \/ In x (pend_all (d_pending cur)) -> In x (free (begin_w cur))).
Proof.
  intros k cur ops ord [[(_ & _ & _ & Hpl) _] _].
  assert (Eb : bound_k k (cur, []) = (d_tx cur + 1)%N) by reflexivity.
  split; [exact Eb|]. split.
  { cbn [step_k fst snd]. rewrite Eb. rewrite run_tx_r_none by lia. reflexivity. }
  split; [rewrite Eb; apply begin_w_r_none; lia|]. split; [now apply begin_w_pending|].
  intros x Hx. unfold begin_w. destruct (release (d_tx cur + 1) (d_free cur) (d_pending cur)) as [fr pd] eqn:Er. cbn [free].
  eapply EngineNoLeak.release_complete; [|exact Er | exact Hx].
  eapply Forall_impl; [|exact Hpl]. cbn beta. intros bt Hb. lia.
Qed.

(* ... so, from a state with the exact page partition, the reader-less theorems apply to that transaction: the new
   state has the exact partition again and its free-list record lists exactly the non-live pages *)
Corollary reuse_exact : forall k cur ops ord st' rs', EngineNoLeakDefs.db_exact cur ->
  Forall (op_ok (d_disk cur)) ops -> step_k k (cur, []) (Tx ops ord) = Ok (st', rs') -> readable st' ->
  rs' = [] /\ EngineNoLeak.db_exact_rec st' /\
  forall x, In x (d_flids st') <-> ((2 <= x < d_np st')%N /\ ~ In x (live_of st' (Rof st'))).
Proof.
  intros k cur ops ord st' rs' Hex Hops Hstep Hrd. cbn [step_k fst snd] in Hstep.
  change (bound_k k (cur, [])) with (d_tx cur + 1)%N in Hstep. rewrite run_tx_r_none in Hstep by lia.
  apply bind_ok_inv in Hstep. destruct Hstep as (st1 & Hrun & E). inversion E; subst st1 rs'. split; [reflexivity|].
  pose proof (EngineNoLeak.run_tx_exact_rec cur ops ord st' Hex Hops Hrun Hrd) as Hrec. split; [exact Hrec|].
  now apply EngineNoLeak.flids_exact.
Qed.

Print Assumptions RI_tx.
Print Assumptions hist_inv_run.
Print Assumptions snapshot_isolation.
Print Assumptions snapshot_isolation_init.
Print Assumptions reader_frozen.
Print Assumptions reuse_when_no_reader.
Print Assumptions reuse_exact.
