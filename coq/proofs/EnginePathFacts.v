(* The in-transaction, path-addressed operations of the write-path model [Engine] on the OVERLAY of nested buckets
   refine the functional semantics [EngineAbs.sem_at] / [sem_op] / [sem_tx].

   1. [cwf] / [CAbs]: a committed (on-disk) nested bucket is well formed / has the meaning [abs_bucket n ...];
      [OvlAbs d b m]: the overlay bucket [b] means [m]; [ovl_wf d b]: the matching well-formedness.
   2. [b_get_or_create_refines].
   3. [at_path_refines] (contract [op_refines]).
   4. [put_refines], [del_refines], [touch_refines], [delb_refines] (the last under [free_tree_ok]).
   5. [ops_refine]: the fold inside [run_tx] (for operations whose path is shorter than at_path's fuel 8);
      [OvlAbs_det]: the meaning is unique.
   6. Examples on a state with a nested bucket on disk and one created in the transaction; the counterexample
      [long_path_no_effect] / [run_tx_refines_stmt_false]: a path of 8 names has no effect in the model.
   Everything is closed under the global context (see the [Print Assumptions] at the end). *)
From Coq Require Import List NArith Bool Arith Lia ZifyN ZifyNat ZifyBool.
From Coq.Strings Require Import Byte.
From Jamm Require Import Bytes Tree Spec Cursor SearchFacts Engine EngineFacts EngineModifyFacts EngineAbs.
Import ListNotations.
Import Coq.Strings.String.StringSyntax. Delimit Scope string_scope with string.
Local Open Scope list_scope. Local Open Scope nat_scope.
Set Warnings "-abstract-large-number".
Arguments N.add : simpl never. Arguments N.sub : simpl never. Arguments N.mul : simpl never.
Arguments N.div : simpl never. Arguments N.ltb : simpl never. Arguments N.leb : simpl never.
Arguments N.eqb : simpl never.

(* ====================================================================== *)
(** * 0. Association lists *)

Lemma assoc_map_snd : forall l, map snd (assoc l) = l.
Proof. intros l. unfold assoc. rewrite map_map. cbn [kv_of snd]. apply map_id. Qed.

Lemma bcmp_eq_ne : forall a b, bcmp a b = Gt \/ bcmp a b = Lt -> a <> b.
Proof. intros a b H E. subst b. rewrite SearchFacts.bcmp_refl in H. destruct H; discriminate. Qed.

Section AssocMore.
  Context {A : Type}.
  Implicit Types (m : list (bytes * A)) (k : bytes) (v : A).

  Lemma ainsert_same : forall m k v, Spec.alookup k m = Some v -> Spec.ainsert k v m = m.
  Proof.
    induction m as [|[k0 v0] m IH]; intros k v H; [discriminate|]. cbn [Spec.alookup Spec.ainsert] in *.
    destruct (bcmp k k0) eqn:E.
    - apply bcmp_eq in E. subst k0. inversion H; subst. reflexivity.
    - discriminate.
    - f_equal. now apply IH.
  Qed.

  Lemma ainsert_ainsert : forall m k v v0, Spec.ainsert k v (Spec.ainsert k v0 m) = Spec.ainsert k v m.
  Proof.
    induction m as [|[k0 w0] m IH]; intros k v v0; cbn [Spec.ainsert].
    - now rewrite SearchFacts.bcmp_refl.
    - destruct (bcmp k k0) eqn:E; cbn [Spec.ainsert].
      + now rewrite SearchFacts.bcmp_refl.
      + now rewrite SearchFacts.bcmp_refl.
      + rewrite E. f_equal. apply IH.
  Qed.

  Lemma alookup_key_in : forall m k v, Spec.alookup k m = Some v -> In (k, v) m.
  Proof.
    induction m as [|[k0 v0] m IH]; intros k v H; [discriminate|]. cbn [Spec.alookup] in H.
    destruct (bcmp k k0) eqn:E; try discriminate.
    - apply bcmp_eq in E. subst k0. inversion H; subst. now left.
    - right. now apply IH.
  Qed.
End AssocMore.

Lemma alookup_assoc_key : forall l k e, Spec.alookup k (assoc l) = Some e -> lkey e = k /\ In e l.
Proof.
  intros l k e H. apply alookup_key_in in H. unfold assoc in H. apply in_map_iff in H.
  destruct H as (e0 & E & Hin). unfold kv_of in E. inversion E; subst. auto.
Qed.

(* all keys of a sorted list whose head is >= k differ from k beyond the head *)
Lemma sorted_tail_ne : forall (l : list leafent) a k,
  sorted_keys (a :: map lkey l) = true -> bcmp k a <> Gt -> forall e, In e l -> lkey e <> k.
Proof.
  intros l a k Hs Hk e Hin E. destruct (sorted_keys_cons _ _ Hs) as [Hall _].
  rewrite Forall_forall in Hall. specialize (Hall (lkey e) (in_map lkey _ _ Hin)). rewrite E in Hall.
  apply Hk. now apply SearchFacts.bcmp_lt_gt.
Qed.

Lemma Forall2_impl_In : forall {X Y} (R R' : X -> Y -> Prop) xs ys,
  (forall x y, In x xs -> R x y -> R' x y) -> Forall2 R xs ys -> Forall2 R' xs ys.
Proof.
  intros X Y R R' xs ys H HF. induction HF as [|x y xs ys HR HF IH]; constructor.
  - apply H; [now left | exact HR].
  - apply IH. intros x' y' Hin. apply H. now right.
Qed.

(* a relation between stored entries and reference entries that keeps the key *)
Section KeyedRel.
  Variables R1 R2 : leafent -> bytes * snode -> Prop.
  Hypothesis key1 : forall e kv, R1 e kv -> fst kv = lkey e.

  Lemma F2_alookup : forall l ents k, Forall2 R1 l ents ->
    match Spec.alookup k (assoc l) with
    | Some e => exists x, Spec.alookup k ents = Some x /\ R1 e (k, x)
    | None => Spec.alookup k ents = None
    end.
  Proof.
    intros l ents k HF. induction HF as [|e [k' x] l ents HR HF IH]; [reflexivity|].
    pose proof (key1 _ _ HR) as Hk. cbn [fst] in Hk. subst k'.
    change (assoc (e :: l)) with ((lkey e, e) :: assoc l). cbn [Spec.alookup].
    destruct (bcmp k (lkey e)) eqn:E.
    - apply bcmp_eq in E. subst k. eauto.
    - reflexivity.
    - exact IH.
  Qed.

  Lemma F2_ainsert : forall l ents k e' x, sorted_keys (map lkey l) = true -> Forall2 R1 l ents ->
    (forall e kv, In e l -> lkey e <> k -> R1 e kv -> R2 e kv) -> R2 e' (k, x) ->
    Forall2 R2 (map snd (Spec.ainsert k e' (assoc l))) (Spec.ainsert k x ents).
  Proof.
    intros l ents k e' x Hs HF. induction HF as [|e [k0 x0] l ents HR HF IH]; intros Himp He'.
    - cbn. constructor; [exact He' | constructor].
    - pose proof (key1 _ _ HR) as Hk. cbn [fst] in Hk. subst k0.
      change (assoc (e :: l)) with ((lkey e, e) :: assoc l). cbn [Spec.ainsert]. cbn [map] in Hs.
      destruct (bcmp k (lkey e)) eqn:E; cbn [map snd].
      + rewrite assoc_map_snd. constructor; [exact He'|]. eapply Forall2_impl_In; [|exact HF]. intros e1 kv1 Hin H1.
        apply Himp; [now right | | exact H1].
        eapply sorted_tail_ne; [exact Hs | rewrite E; discriminate | exact Hin].
      + constructor; [exact He'|]. constructor.
        * apply Himp; [now left | | exact HR]. intros E'. rewrite E', SearchFacts.bcmp_refl in E. discriminate.
        * rewrite assoc_map_snd. eapply Forall2_impl_In; [|exact HF]. intros e1 kv1 Hin H1.
          apply Himp; [now right | | exact H1].
          eapply sorted_tail_ne; [exact Hs | rewrite E; discriminate | exact Hin].
      + constructor.
        * apply Himp; [now left | | exact HR]. intros E'. rewrite E', SearchFacts.bcmp_refl in E. discriminate.
        * apply IH; [eapply sorted_keys_tl; eauto | | exact He'].
          intros e1 kv1 Hin. apply Himp. now right.
  Qed.

  Lemma F2_aremove : forall l ents k, sorted_keys (map lkey l) = true -> Forall2 R1 l ents ->
    (forall e kv, In e l -> lkey e <> k -> R1 e kv -> R2 e kv) ->
    Forall2 R2 (map snd (Spec.aremove k (assoc l))) (Spec.aremove k ents).
  Proof.
    intros l ents k Hs HF. induction HF as [|e [k0 x0] l ents HR HF IH]; intros Himp.
    - constructor.
    - pose proof (key1 _ _ HR) as Hk. cbn [fst] in Hk. subst k0.
      change (assoc (e :: l)) with ((lkey e, e) :: assoc l). cbn [Spec.aremove]. cbn [map] in Hs.
      destruct (bcmp k (lkey e)) eqn:E; cbn [map snd].
      + rewrite assoc_map_snd. eapply Forall2_impl_In; [|exact HF]. intros e1 kv1 Hin H1.
        apply Himp; [now right | | exact H1].
        eapply sorted_tail_ne; [exact Hs | rewrite E; discriminate | exact Hin].
      + rewrite assoc_map_snd. constructor.
        * apply Himp; [now left | | exact HR]. intros E'. rewrite E', SearchFacts.bcmp_refl in E. discriminate.
        * eapply Forall2_impl_In; [|exact HF]. intros e1 kv1 Hin H1.
          apply Himp; [now right | | exact H1].
          eapply sorted_tail_ne; [exact Hs | rewrite E; discriminate | exact Hin].
      + constructor.
        * apply Himp; [now left | | exact HR]. intros E'. rewrite E', SearchFacts.bcmp_refl in E. discriminate.
        * apply IH; [eapply sorted_keys_tl; eauto|]. intros e1 kv1 Hin. apply Himp. now right.
  Qed.
End KeyedRel.

(* ====================================================================== *)
(** * 1. Committed nested buckets *)

(* [cwf n d r]: the bucket tree rooted at page [r] is well formed (search invariant, height <= fuel0), and so is
   every bucket nested in it, to a nesting depth < n (the bucket itself counts 1) *)
Fixpoint cwf (n : nat) (d : disk) (r : N) : Prop :=
  match n with
  | O => False
  | S n' => wf_page d r /\ exists l, PageView d fuel0 r l /\
      Forall (fun e => match e with LBk _ r' _ => cwf n' d r' | LKv _ _ => True end) l
  end.

(* the meaning of the committed bucket stored as (root, next): [EngineAbs.abs_bucket], at any nesting fuel that
   covers the bucket's nesting depth (see [abs_bucket_stable]: the value does not depend on the choice) *)
Definition CAbs (d : disk) (r nx : N) (m : snode) : Prop := exists n, cwf n d r /\ m = abs_bucket n d r nx.

(* committed-state well-formedness: every bucket root reachable from d_root is a well-formed tree of height
   <= fuel0, nesting depth <= 16 (the nesting fuel of abs_db) *)
Definition db_pages_wf (st : db) : Prop := cwf 16 (d_disk st) (d_root st).

Lemma flat_map_concat_F2 : forall {X Y} (F : X -> list Y) xs ls,
  Forall2 (fun x l => F x = l) xs ls -> flat_map F xs = concat ls.
Proof. intros X Y F xs ls HF. induction HF; cbn [flat_map concat]; congruence. Qed.

Lemma page_ents_view : forall d h p l, PageView d h p l -> forall f, h <= f -> page_ents f d p = l.
Proof.
  intros d. induction h as [|h IH]; intros p l H f Hf; [inversion H|].
  destruct f as [|f]; [lia|]. cbn [page_ents].
  inversion H as [? ? a l0 Hg Hb | ? ? a es ls Hg Hb HF]; subst; rewrite Hg, Hb; [reflexivity|].
  apply flat_map_concat_F2. eapply Forall2_impl; [|exact HF]. cbn beta. intros e y Hy. apply (IH _ _ Hy). lia.
Qed.

Definition ent_abs (n : nat) (d : disk) (e : leafent) : bytes * snode :=
  match e with LKv k v => (k, SVal v) | LBk k r nx => (k, abs_bucket n d r nx) end.

Lemma abs_bucket_S : forall n d r nx,
  abs_bucket (S n) d r nx = SBucket 0 nx (map (ent_abs n d) (page_ents 64 d r)).
Proof. reflexivity. Qed.

Lemma cwf_abs_bucket : forall n d r nx l, cwf (S n) d r -> PageView d fuel0 r l ->
  abs_bucket (S n) d r nx = SBucket 0 nx (map (ent_abs n d) l).
Proof.
  intros n d r nx l _ Hv. rewrite abs_bucket_S. f_equal. f_equal.
  apply (page_ents_view d fuel0 r l Hv). unfold fuel0. lia.
Qed.

(* the nesting fuel is an upper bound: more of it changes neither the predicate nor the meaning *)
Lemma cwf_mono_stable : forall n d r, cwf n d r -> forall n', n <= n' ->
  cwf n' d r /\ forall nx, abs_bucket n' d r nx = abs_bucket n d r nx.
Proof.
  induction n as [|n IH]; intros d r H n' Hle; [destruct H|].
  destruct n' as [|n']; [lia|]. destruct H as (Hw & l & Hv & Hall).
  assert (Hch : Forall (fun e => match e with LBk _ r' _ => cwf n' d r' | LKv _ _ => True end) l /\
                map (ent_abs n' d) l = map (ent_abs n d) l).
  { clear Hv. induction Hall as [|e l He Hall IHl]; [split; [constructor | reflexivity]|].
    destruct IHl as [I1 I2]. destruct e as [k v|k r' nx'].
    - split; [constructor; auto|]. cbn [map ent_abs]. now rewrite I2.
    - destruct (IH d r' He n' ltac:(lia)) as [J1 J2].
      split; [constructor; auto|]. cbn [map ent_abs]. now rewrite I2, J2. }
  destruct Hch as [H1 H2]. split.
  - split; [exact Hw|]. exists l. auto.
  - intros nx. rewrite (cwf_abs_bucket n' d r nx l), (cwf_abs_bucket n d r nx l); try assumption.
    + now rewrite H2.
    + split; [exact Hw|]. exists l. auto.
    + split; [exact Hw|]. exists l. auto.
Qed.

Corollary cwf_mono : forall n n' d r, cwf n d r -> n <= n' -> cwf n' d r.
Proof. intros n n' d r H Hle. now apply (cwf_mono_stable n d r H n' Hle). Qed.

Corollary abs_bucket_stable : forall n n' d r nx, cwf n d r -> n <= n' ->
  abs_bucket n' d r nx = abs_bucket n d r nx.
Proof. intros n n' d r nx H Hle. now apply (cwf_mono_stable n d r H n' Hle). Qed.

(* hence the committed meaning is a function of (root, next), and under a depth bound it IS abs_bucket *)
Theorem CAbs_det : forall d r nx m m', CAbs d r nx m -> CAbs d r nx m' -> m = m'.
Proof.
  intros d r nx m m' (n & Hn & ->) (n' & Hn' & ->).
  destruct (Nat.le_ge_cases n n') as [Hle|Hle].
  - symmetry. now apply abs_bucket_stable.
  - now apply abs_bucket_stable.
Qed.

Theorem CAbs_abs_bucket : forall d r nx m n, CAbs d r nx m -> cwf n d r -> m = abs_bucket n d r nx.
Proof. intros d r nx m n H Hn. apply (CAbs_det d r nx); [exact H | exists n; auto]. Qed.

(* ====================================================================== *)
(** * 2. The overlay: meaning and well-formedness *)

(* [OvlAbs d b m]: the overlay bucket [b] (its possibly materialised tree, and the sub-buckets opened in this
   transaction, which override the stored (root, next) of their entry) means [m] *)
Inductive OvlAbs (d : disk) : bucket -> snode -> Prop :=
| OvlAbs_intro : forall b l ents,
    bucket_view d b l -> Forall2 (OvlEnt d (b_subs b)) l ents ->
    OvlAbs d b (SBucket 0 (b_next b) ents)
with OvlEnt (d : disk) : list (bytes * bucket) -> leafent -> bytes * snode -> Prop :=
| OE_kv : forall subs k v, OvlEnt d subs (LKv k v) (k, SVal v)
| OE_sub : forall subs k r nx sb m,
    sub_find k subs = Some sb -> OvlAbs d sb m -> OvlEnt d subs (LBk k r nx) (k, m)
| OE_disk : forall subs k r nx m,
    sub_find k subs = None -> CAbs d r nx m -> OvlEnt d subs (LBk k r nx) (k, m).

(* [ovl_wf d b]: the tree satisfies the search invariant; the opened sub-buckets have distinct names, each names a
   bucket entry of the view, and is well formed in turn; the root page is 0 (created in this transaction) or a
   committed well-formed bucket root.  (The committed buckets NOT opened are covered by [CAbs] inside [OvlAbs].) *)
Inductive ovl_wf (d : disk) : bucket -> Prop :=
| ovl_wf_intro : forall b l,
    bucket_wf d b -> bucket_view d b l ->
    NoDup (map fst (b_subs b)) ->
    Forall (fun x => (exists r nx, Spec.alookup (fst x) (assoc l) = Some (LBk (fst x) r nx)) /\ ovl_wf d (snd x))
           (b_subs b) ->
    (b_root_page b = 0%N \/ exists n, cwf n d (b_root_page b)) ->
    ovl_wf d b.

Lemma OvlEnt_key : forall d subs e kv, OvlEnt d subs e kv -> fst kv = lkey e.
Proof. intros d subs e kv H. inversion H; reflexivity. Qed.

Lemma OvlAbs_bucket : forall d b m, OvlAbs d b m -> exists ents, m = SBucket 0 (b_next b) ents.
Proof. intros d b m H. inversion H; subst. eauto. Qed.

Lemma CAbs_bucket : forall d r nx m, CAbs d r nx m -> exists ents, m = SBucket 0 nx ents.
Proof.
  intros d r nx m (n & Hn & ->). destruct n as [|n]; [destruct Hn|]. rewrite abs_bucket_S. eauto.
Qed.

Lemma OvlEnt_bk_bucket : forall d subs k r nx kv, OvlEnt d subs (LBk k r nx) kv ->
  exists o x es, snd kv = SBucket o x es.
Proof.
  intros d subs k r nx kv H. inversion H as [| ? ? ? ? sb m Hs Hm | ? ? ? ? m Hs Hm]; subst; cbn [snd].
  - destruct (OvlAbs_bucket _ _ _ Hm) as [es ->]. eauto.
  - destruct (CAbs_bucket _ _ _ _ Hm) as [es ->]. eauto.
Qed.

(* the view of a bucket is unique *)
Lemma bucket_view_det : forall d b l l', bucket_view d b l -> bucket_view d b l' -> l = l'.
Proof.
  intros d b l l' (h & _ & H) (h' & _ & H'). unfold BucketView in *. destruct (b_rootn b).
  - eapply NodeView_det; eauto.
  - eapply PageView_det; eauto.
Qed.

Lemma bucket_view_sorted' : forall d b l, bucket_wf d b -> bucket_view d b l -> sorted_keys (map lkey l) = true.
Proof. intros d b l Hw (h & _ & Hv). eapply bucket_view_sorted; eauto. Qed.

(* only the tree part of a bucket matters for [bucket_wf] / [bucket_view] *)
Lemma bucket_wf_tree : forall d b b', b_root_page b' = b_root_page b -> b_rootn b' = b_rootn b ->
  bucket_wf d b -> bucket_wf d b'.
Proof. intros d b b' H1 H2 H. unfold bucket_wf in *. now rewrite H1, H2. Qed.
Lemma bucket_view_tree : forall d b b' l, b_root_page b' = b_root_page b -> b_rootn b' = b_rootn b ->
  bucket_view d b l -> bucket_view d b' l.
Proof. intros d b b' l H1 H2 (h & Hh & H). exists h. split; [exact Hh|]. unfold BucketView in *. now rewrite H1, H2. Qed.

(* ---------- the list of opened sub-buckets ---------- *)
Lemma sub_find_In : forall name subs sb, sub_find name subs = Some sb -> In (name, sb) subs.
Proof.
  intros name subs sb H. unfold sub_find in H.
  destruct (find (fun x => beq (fst x) name) subs) as [[n' b']|] eqn:E; [|discriminate].
  cbn in H. inversion H; subst. apply find_some in E. destruct E as [Hin Hb]. cbn [fst] in Hb.
  apply beq_true in Hb. now subst.
Qed.

Lemma sub_find_None_In : forall name subs x, sub_find name subs = None -> In x subs -> fst x <> name.
Proof.
  intros name subs x H Hin E. unfold sub_find in H.
  destruct (find (fun x => beq (fst x) name) subs) eqn:Ef; [discriminate|].
  pose proof (find_none _ _ Ef x Hin) as Hb. cbn beta in Hb. rewrite E, beq_refl in Hb. discriminate.
Qed.

Lemma sub_find_cons : forall name n' b' r,
  sub_find name ((n', b') :: r) = if beq n' name then Some b' else sub_find name r.
Proof. intros. unfold sub_find. cbn [find fst]. destruct (beq n' name); reflexivity. Qed.

Lemma NoDup_In_sub_find : forall subs name sb, NoDup (map fst subs) -> In (name, sb) subs ->
  sub_find name subs = Some sb.
Proof.
  induction subs as [|[n' b'] subs IH]; intros name sb Hnd Hin; [destruct Hin|].
  cbn [map fst] in Hnd. inversion Hnd as [|? ? Hni Hnd']; subst. rewrite sub_find_cons.
  destruct Hin as [E|Hin].
  - inversion E; subst. now rewrite beq_refl.
  - destruct (beq n' name) eqn:Eb.
    + apply beq_true in Eb. subst n'. exfalso. apply Hni. apply (in_map fst) in Hin. exact Hin.
    + now apply IH.
Qed.

Lemma sub_find_put_same : forall name b subs, sub_find name (sub_put name b subs) = Some b.
Proof.
  intros name b. induction subs as [|[n' b'] r IH]; cbn [sub_put].
  - rewrite sub_find_cons. now rewrite beq_refl.
  - destruct (beq n' name) eqn:E; rewrite sub_find_cons.
    + now rewrite beq_refl.
    + now rewrite E.
Qed.

Lemma sub_find_put_other : forall name b subs k, k <> name -> sub_find k (sub_put name b subs) = sub_find k subs.
Proof.
  intros name b subs k Hk. induction subs as [|[n' b'] r IH]; cbn [sub_put].
  - rewrite sub_find_cons. destruct (beq name k) eqn:E; [apply beq_true in E; congruence | reflexivity].
  - destruct (beq n' name) eqn:E; rewrite !sub_find_cons.
    + apply beq_true in E. subst n'.
      destruct (beq name k) eqn:E'; [apply beq_true in E'; congruence | reflexivity].
    + now rewrite IH.
Qed.

Lemma sub_put_keys_In : forall name b subs k, In k (map fst (sub_put name b subs)) -> k = name \/ In k (map fst subs).
Proof.
  intros name b. induction subs as [|[n' b'] r IH]; intros k H; cbn [sub_put] in H.
  - destruct H as [<-|[]]. now left.
  - destruct (beq n' name) eqn:E; cbn [map fst] in *.
    + destruct H as [<-|H]; [now left | right; now right].
    + destruct H as [<-|H]; [right; now left|]. destruct (IH k H); [now left | right; now right].
Qed.

Lemma sub_put_NoDup : forall name b subs, NoDup (map fst subs) -> NoDup (map fst (sub_put name b subs)).
Proof.
  intros name b. induction subs as [|[n' b'] r IH]; intros Hnd; cbn [sub_put].
  - cbn. constructor; [intros [] | constructor].
  - cbn [map fst] in Hnd. inversion Hnd as [|? ? Hni Hnd']; subst.
    destruct (beq n' name) eqn:E; cbn [map fst].
    + apply beq_true in E. subst n'. constructor; assumption.
    + constructor; [|now apply IH]. intros Hin. apply sub_put_keys_In in Hin. destruct Hin as [->|Hin].
      * rewrite beq_refl in E. discriminate.
      * now apply Hni.
Qed.

Lemma sub_put_Forall : forall (P : bytes * bucket -> Prop) name b subs,
  Forall P subs -> P (name, b) -> Forall P (sub_put name b subs).
Proof.
  intros P name b. induction subs as [|[n' b'] r IH]; intros HF Hp; cbn [sub_put].
  - constructor; [exact Hp | constructor].
  - inversion HF; subst. destruct (beq n' name); constructor; auto.
Qed.

(* [take_sub] removes the (unique) binding that [sub_find] finds *)
Lemma take_sub_spec : forall name subs sb, NoDup (map fst subs) -> sub_find name subs = Some sb ->
  exists rest, take_sub name subs = Some (sb, rest) /\ sub_find name rest = None /\
    (forall k, k <> name -> sub_find k rest = sub_find k subs) /\
    NoDup (map fst rest) /\ (forall x, In x rest -> In x subs).
Proof.
  intros name. induction subs as [|[n' b'] r IH]; intros sb Hnd Hf; [discriminate|].
  cbn [map fst] in Hnd. inversion Hnd as [|? ? Hni Hnd']; subst. rewrite sub_find_cons in Hf. cbn [take_sub].
  destruct (beq n' name) eqn:E.
  - inversion Hf; subst b'. apply beq_true in E. subst n'. exists r. split; [reflexivity|]. split.
    + destruct (sub_find name r) as [sb'|] eqn:Es; [|reflexivity]. exfalso. apply Hni.
      apply sub_find_In in Es. apply (in_map fst) in Es. exact Es.
    + split.
      * intros k Hk. rewrite sub_find_cons. destruct (beq name k) eqn:E'; [apply beq_true in E'; congruence | reflexivity].
      * split; [exact Hnd' | intros x Hx; now right].
  - destruct (IH sb Hnd' Hf) as (rest & Ht & Hn & Ho & Hnd2 & Hin). rewrite Ht.
    exists ((n', b') :: rest). split; [reflexivity|]. split.
    + rewrite sub_find_cons, E. exact Hn.
    + split.
      * intros k Hk. rewrite !sub_find_cons. destruct (beq n' k); [reflexivity | now apply Ho].
      * split.
        -- cbn [map fst]. constructor; [|exact Hnd2]. intros Hi. apply Hni. apply in_map_iff in Hi.
           destruct Hi as (x & Ex & Hx). apply in_map_iff. exists x. split; [exact Ex | now apply Hin].
        -- intros x [<-|Hx]; [now left | right; now apply Hin].
Qed.

(* ---------- inversion / construction helpers ---------- *)
Lemma OvlEnt_kv_inv : forall d subs k v k' x, OvlEnt d subs (LKv k v) (k', x) -> k' = k /\ x = SVal v.
Proof. intros d subs k v k' x H. inversion H; subst. auto. Qed.

Lemma OvlEnt_bk_inv : forall d subs k r nx k' x, OvlEnt d subs (LBk k r nx) (k', x) ->
  k' = k /\ ((exists sb, sub_find k subs = Some sb /\ OvlAbs d sb x) \/ (sub_find k subs = None /\ CAbs d r nx x)).
Proof. intros d subs k r nx k' x H. inversion H; subst; split; eauto. Qed.

Lemma OvlEnt_subs_change : forall d subs subs' e kv,
  sub_find (lkey e) subs' = sub_find (lkey e) subs -> OvlEnt d subs e kv -> OvlEnt d subs' e kv.
Proof.
  intros d subs subs' e kv Hf H. inversion H as [| ? ? ? ? sb m Hs Hm | ? ? ? ? m Hs Hm]; subst; cbn [lkey] in Hf.
  - constructor.
  - eapply OE_sub; [|exact Hm]. congruence.
  - eapply OE_disk; [|exact Hm]. congruence.
Qed.

Lemma beq_false_ne : forall a b, a <> b -> beq a b = false.
Proof. intros a b H. destruct (beq a b) eqn:E; [apply beq_true in E; contradiction | reflexivity]. Qed.

(* both readings of an overlay bucket, over the same view *)
Lemma ovl_both : forall d b m, ovl_wf d b -> OvlAbs d b m ->
  exists l ents, m = SBucket 0 (b_next b) ents /\ bucket_wf d b /\ bucket_view d b l /\
    sorted_keys (map lkey l) = true /\ NoDup (map fst (b_subs b)) /\
    Forall (fun x => (exists r nx, Spec.alookup (fst x) (assoc l) = Some (LBk (fst x) r nx)) /\ ovl_wf d (snd x))
           (b_subs b) /\
    Forall2 (OvlEnt d (b_subs b)) l ents /\
    (b_root_page b = 0%N \/ exists n, cwf n d (b_root_page b)).
Proof.
  intros d b m Hw Ha. inversion Hw as [? l Hbw Hbv Hnd Hsubs Hroot]; subst.
  inversion Ha as [? l' ents Hbv' HF]; subst.
  rewrite <- (bucket_view_det d b l l' Hbv Hbv') in HF.
  exists l, ents. split; [reflexivity|]. split; [exact Hbw|]. split; [exact Hbv|].
  split; [eapply bucket_view_sorted'; eauto|]. auto.
Qed.

(* a committed bucket, opened *)
Lemma open_committed : forall d r nx m, CAbs d r nx m ->
  ovl_wf d (Bucket r nx false None []) /\ OvlAbs d (Bucket r nx false None []) m.
Proof.
  intros d r nx m (n & Hn & ->). destruct n as [|n]; [destruct Hn|].
  pose proof Hn as (Hw & l & Hv & Hall).
  assert (Hbv : bucket_view d (Bucket r nx false None []) l).
  { exists fuel0. split; [apply le_n|]. exact Hv. }
  split.
  - apply (ovl_wf_intro d _ l); [exact Hw | exact Hbv | constructor | constructor |].
    right. exists (S n). exact Hn.
  - rewrite (cwf_abs_bucket n d r nx l Hn Hv).
    apply (OvlAbs_intro d (Bucket r nx false None []) l (map (ent_abs n d) l) Hbv). cbn [b_subs].
    clear Hv Hbv. induction Hall as [|e l He Hall IH]; cbn [map]; constructor; [|exact IH].
    destruct e as [k v|k r' nx']; cbn [ent_abs]; [constructor|].
    apply OE_disk; [reflexivity|]. exists n. auto.
Qed.

(* a bucket created in this transaction *)
Lemma new_bucket_meaning : forall d sq,
  ovl_wf d (Bucket 0 0 true (Some (Node 0 0 None sq (Leaves []) [])) []) /\
  OvlAbs d (Bucket 0 0 true (Some (Node 0 0 None sq (Leaves []) [])) []) (SBucket 0 0 []).
Proof.
  intros d sq.
  assert (Hbv : bucket_view d (Bucket 0 0 true (Some (Node 0 0 None sq (Leaves []) [])) []) []).
  { exists 1. split; [unfold fuel0; lia|]. apply NV_leaf. }
  split.
  - apply (ovl_wf_intro d _ []); [apply wfn_leaf; reflexivity | exact Hbv | constructor | constructor | now left].
  - apply (OvlAbs_intro d (Bucket 0 0 true (Some (Node 0 0 None sq (Leaves []) [])) []) [] [] Hbv). constructor.
Qed.

(* the meaning and well-formedness of an opened sub-bucket *)
Lemma sub_meaning : forall d b m name sb, ovl_wf d b -> OvlAbs d b m -> sub_find name (b_subs b) = Some sb ->
  exists c, Spec.alookup name (Spec.b_ents m) = Some c /\ OvlAbs d sb c /\ ovl_wf d sb.
Proof.
  intros d b m name sb Hw Ha Hsf.
  destruct (ovl_both d b m Hw Ha) as (l & ents & -> & Hbw & Hbv & Hs & Hnd & Hsubs & HF & Hroot).
  rewrite Forall_forall in Hsubs. destruct (Hsubs _ (sub_find_In _ _ _ Hsf)) as [(r & nx & Hal) Hwsb].
  cbn [fst snd] in *.
  pose proof (F2_alookup _ (OvlEnt_key d (b_subs b)) l ents name HF) as Hlk. rewrite Hal in Hlk.
  destruct Hlk as (x & Hx & He). apply OvlEnt_bk_inv in He.
  destruct He as [_ [(sb' & Hsf' & Hab) | (Hsf' & _)]]; [|congruence].
  rewrite Hsf in Hsf'. inversion Hsf'; subst sb'. exists x. cbn [Spec.b_ents]. auto.
Qed.

(* opening the stored bucket [name] changes neither the meaning nor the well-formedness *)
Lemma open_sub_spec : forall d b m name r nx l, ovl_wf d b -> OvlAbs d b m -> bucket_view d b l ->
  sub_find name (b_subs b) = None -> Spec.alookup name (assoc l) = Some (LBk name r nx) ->
  ovl_wf d (Bucket (b_root_page b) (b_next b) (b_dirty b) (b_rootn b)
              (sub_put name (Bucket r nx false None []) (b_subs b))) /\
  OvlAbs d (Bucket (b_root_page b) (b_next b) (b_dirty b) (b_rootn b)
              (sub_put name (Bucket r nx false None []) (b_subs b))) m.
Proof.
  intros d b m name r nx l0 Hw Ha Hbv0 Hsf Hal.
  destruct (ovl_both d b m Hw Ha) as (l & ents & -> & Hbw & Hbv & Hs & Hnd & Hsubs & HF & Hroot).
  rewrite (bucket_view_det d b l0 l Hbv0 Hbv) in Hal. clear l0 Hbv0.
  pose proof (F2_alookup _ (OvlEnt_key d (b_subs b)) l ents name HF) as Hlk. rewrite Hal in Hlk.
  destruct Hlk as (x & Hx & He). apply OvlEnt_bk_inv in He.
  destruct He as [_ [(sb' & Hsf' & _) | (_ & Hc)]]; [congruence|].
  destruct (open_committed d r nx x Hc) as [Hw0 Ha0].
  set (b0 := Bucket (b_root_page b) (b_next b) (b_dirty b) (b_rootn b)
               (sub_put name (Bucket r nx false None []) (b_subs b))).
  split.
  - apply (ovl_wf_intro d b0 l).
    + apply (bucket_wf_tree d b); auto.
    + apply (bucket_view_tree d b); auto.
    + cbn [b0 b_subs]. now apply sub_put_NoDup.
    + cbn [b0 b_subs]. apply sub_put_Forall; [exact Hsubs|]. cbn [fst snd]. split; eauto.
    + exact Hroot.
  - apply (OvlAbs_intro d b0 l ents); [apply (bucket_view_tree d b); auto|]. cbn [b0 b_subs].
    pose proof (F2_ainsert (OvlEnt d (b_subs b)) (OvlEnt d (sub_put name (Bucket r nx false None []) (b_subs b)))
                  (OvlEnt_key d (b_subs b)) l ents name (LBk name r nx) x Hs HF) as H.
    rewrite (ainsert_same _ _ _ Hal), (ainsert_same _ _ _ Hx), assoc_map_snd in H. apply H.
    + intros e kv _ Hk. apply OvlEnt_subs_change. now apply sub_find_put_other.
    + eapply OE_sub; [apply sub_find_put_same | exact Ha0].
Qed.

(* ====================================================================== *)
(** * 3. [b_get_or_create] *)

Lemma b_get_or_create_unfold : forall d b name s,
  b_get_or_create d b name s =
  match sub_find name (b_subs b) with
  | Some _ => Ok (b, s)
  | None =>
      bind (b_lookup d b name) (fun cur =>
        match cur with
        | Some (LBk _ r nx) =>
            Ok (Bucket (b_root_page b) (b_next b) (b_dirty b) (b_rootn b)
                  (sub_put name (Bucket r nx false None []) (b_subs b)), s)
        | Some (LKv _ _) => Err "IncompatibleValue"%string
        | None =>
            bind (b_modify d b (OpIns (LBk name 0 0)) (snd (next_seq s))) (fun r =>
              Ok (Bucket (b_root_page (fst r)) (b_next (fst r) + 1) true (b_rootn (fst r))
                    (sub_put name (Bucket 0 0 true (Some (Node 0 0 None (seqc s) (Leaves []) [])) [])
                       (b_subs (fst r))), snd r))
        end)
  end.
Proof.
  intros d b name s. unfold b_get_or_create. destruct (sub_find name (b_subs b)); [reflexivity|].
  destruct (b_lookup d b name) as [[[k v|k r nx]|]| |]; cbn [bind]; try reflexivity.
  unfold new_bucket, next_seq. cbn [snd].
  match goal with |- context [b_modify d b ?o ?s1] => destruct (b_modify d b o s1) as [[b' s']| |] end; reflexivity.
Qed.

Theorem b_get_or_create_refines : forall d b m name s, ovl_wf d b -> OvlAbs d b m ->
  match Spec.alookup name (Spec.b_ents m) with
  | Some (SVal _) => b_get_or_create d b name s = Err "IncompatibleValue"%string
  | Some (SBucket _ _ _) =>
      exists b' s' sb, b_get_or_create d b name s = Ok (b', s') /\ sub_find name (b_subs b') = Some sb /\
        ovl_wf d b' /\ OvlAbs d b' m /\ same_but_seqc s s'
  | None =>
      exists b' s' sb, b_get_or_create d b name s = Ok (b', s') /\ sub_find name (b_subs b') = Some sb /\
        ovl_wf d b' /\
        OvlAbs d b' (set_ents m (Spec.b_next m + 1) (Spec.ainsert name (SBucket 0 0 []) (Spec.b_ents m))) /\
        same_but_seqc s s'
  end.
Proof.
  intros d b m name s Hw Ha.
  destruct (ovl_both d b m Hw Ha) as (l & ents & Em & Hbw & Hbv & Hs & Hnd & Hsubs & HF & Hroot).
  pose proof (F2_alookup _ (OvlEnt_key d (b_subs b)) l ents name HF) as Hlk.
  pose proof (b_lookup_refines d b l name Hbw Hbv) as Hlook.
  rewrite b_get_or_create_unfold.
  destruct (sub_find name (b_subs b)) as [sb|] eqn:Hsf.
  - (* already opened *)
    destruct (sub_meaning d b m name sb Hw Ha Hsf) as (c & Hc & Hac & Hwc). rewrite Hc.
    destruct (OvlAbs_bucket _ _ _ Hac) as [es ->]. exists b, s, sb.
    split; [reflexivity|]. split; [exact Hsf|]. split; [exact Hw|]. split; [exact Ha | apply same_but_seqc_refl].
  - rewrite Hlook. cbn [bind]. subst m. cbn [Spec.b_ents Spec.b_next set_ents Spec.b_oid].
    destruct (Spec.alookup name (assoc l)) as [[k v|k r nx]|] eqn:Hal.
    + (* a plain value *)
      destruct Hlk as (x & Hx & He). apply OvlEnt_kv_inv in He. destruct He as [_ ->]. rewrite Hx. reflexivity.
    + (* a stored bucket: open it *)
      destruct (alookup_assoc_key _ _ _ Hal) as [Ek _]. cbn [lkey] in Ek. subst k.
      destruct Hlk as (x & Hx & He). destruct (OvlEnt_bk_bucket _ _ _ _ _ _ He) as (o & nx' & es & Ex).
      cbn [snd] in Ex. subst x. rewrite Hx.
      destruct (open_sub_spec d b _ name r nx l Hw Ha Hbv Hsf Hal) as [Hw' Ha'].
      eexists _, s, _. split; [reflexivity|]. cbn [b_subs]. split; [apply sub_find_put_same|].
      split; [exact Hw'|]. split; [exact Ha' | apply same_but_seqc_refl].
    + (* absent: create *)
      rewrite Hlk. destruct Hbv as (h & Hh & Hv).
      destruct (b_modify_view d h b l (OpIns (LBk name 0 0)) (snd (next_seq s)) Hbw Hv Hh)
        as (b2 & s2 & Hm & Hw2 & Hv2 & Ha2 & Hs2 & Hr2 & Hn2 & Hsb2 & Hd2 & Hss2).
      cbn [aop lkey] in Ha2. rewrite Hm. cbn [bind fst snd].
      destruct (new_bucket_meaning d (seqc s)) as [Hwn Han].
      set (nb := Bucket 0 0 true (Some (Node 0 0 None (seqc s) (Leaves []) [])) []) in *.
      set (l2 := apply_lop (OpIns (LBk name 0 0)) l) in *.
      assert (Hbv2 : bucket_view d b2 l2) by (exists h; auto).
      eexists _, s2, _. split; [reflexivity|]. cbn [b_subs]. split; [apply sub_find_put_same|].
      rewrite Hsb2.
      split; [|split].
      * apply (ovl_wf_intro d _ l2).
        -- apply (bucket_wf_tree d b2); auto.
        -- apply (bucket_view_tree d b2); auto.
        -- cbn [b_subs]. now apply sub_put_NoDup.
        -- cbn [b_subs]. apply sub_put_Forall.
           ++ rewrite Forall_forall in Hsubs |- *. intros x Hx. destruct (Hsubs x Hx) as [(r & nx & Hrx) Hwx].
              split; [|exact Hwx]. exists r, nx. rewrite Ha2, alookup_ainsert.
              rewrite beq_false_ne; [exact Hrx|]. eapply sub_find_None_In; eauto.
           ++ cbn [fst snd]. split; [|exact Hwn]. exists 0%N, 0%N. rewrite Ha2, alookup_ainsert. now rewrite beq_refl.
        -- cbn [b_root_page]. rewrite Hr2. exact Hroot.
      * rewrite <- Hn2.
        apply (OvlAbs_intro d (Bucket (b_root_page b2) (b_next b2 + 1) true (b_rootn b2) (sub_put name nb (b_subs b)))
                 l2 (Spec.ainsert name (SBucket 0 0 []) ents)); [apply (bucket_view_tree d b2); auto|].
        cbn [b_subs]. replace l2 with (map snd (Spec.ainsert name (LBk name 0 0) (assoc l)))
          by (rewrite <- Ha2; apply assoc_map_snd).
        apply (F2_ainsert (OvlEnt d (b_subs b))); [apply OvlEnt_key | exact Hs | exact HF | |].
        -- intros e kv _ Hk. apply OvlEnt_subs_change. now apply sub_find_put_other.
        -- eapply OE_sub; [apply sub_find_put_same | exact Han].
      * eapply same_but_seqc_trans; [apply same_but_seqc_next | exact Hss2].
Qed.

(* ====================================================================== *)
(** * 4. [at_path] *)

(* the contract of the operation applied at the end of the path: on every well-formed overlay bucket it returns Ok
   (run_tx wraps the final operation in [soft], so it never returns Err), the result is well formed and means
   [g m]; [T] is what it may do to the transaction state *)
Definition op_refines (d : disk) (T : txs -> txs -> Prop)
    (f : bucket -> txs -> res (bucket * txs)) (g : snode -> snode) : Prop :=
  forall b m s, ovl_wf d b -> OvlAbs d b m ->
    exists b' s', f b s = Ok (b', s') /\ ovl_wf d b' /\ OvlAbs d b' (g m) /\ T s s'.

(* storing the modified sub-bucket back into its parent *)
Lemma put_back : forall d b m name sb sb' c', ovl_wf d b -> OvlAbs d b m ->
  sub_find name (b_subs b) = Some sb -> ovl_wf d sb' -> OvlAbs d sb' c' ->
  ovl_wf d (Bucket (b_root_page b) (b_next b) (b_dirty b) (b_rootn b) (sub_put name sb' (b_subs b))) /\
  OvlAbs d (Bucket (b_root_page b) (b_next b) (b_dirty b) (b_rootn b) (sub_put name sb' (b_subs b)))
    (set_ents m (Spec.b_next m) (Spec.ainsert name c' (Spec.b_ents m))).
Proof.
  intros d b m name sb sb' c' Hw Ha Hsf Hw' Ha'.
  destruct (ovl_both d b m Hw Ha) as (l & ents & -> & Hbw & Hbv & Hs & Hnd & Hsubs & HF & Hroot).
  cbn [Spec.b_ents Spec.b_next set_ents Spec.b_oid].
  pose proof Hsubs as Hsubs'. rewrite Forall_forall in Hsubs'.
  destruct (Hsubs' _ (sub_find_In _ _ _ Hsf)) as [(r & nx & Hal) _]. cbn [fst] in Hal.
  set (b2 := Bucket (b_root_page b) (b_next b) (b_dirty b) (b_rootn b) (sub_put name sb' (b_subs b))).
  split.
  - apply (ovl_wf_intro d b2 l).
    + apply (bucket_wf_tree d b); auto.
    + apply (bucket_view_tree d b); auto.
    + cbn [b2 b_subs]. now apply sub_put_NoDup.
    + cbn [b2 b_subs]. apply sub_put_Forall; [exact Hsubs|]. cbn [fst snd]. split; eauto.
    + exact Hroot.
  - apply (OvlAbs_intro d b2 l (Spec.ainsert name c' ents)); [apply (bucket_view_tree d b); auto|].
    cbn [b2 b_subs].
    pose proof (F2_ainsert (OvlEnt d (b_subs b)) (OvlEnt d (sub_put name sb' (b_subs b)))
                  (OvlEnt_key d (b_subs b)) l ents name (LBk name r nx) c' Hs HF) as H.
    rewrite (ainsert_same _ _ _ Hal), assoc_map_snd in H. apply H.
    + intros e kv _ Hk. apply OvlEnt_subs_change. now apply sub_find_put_other.
    + eapply OE_sub; [apply sub_find_put_same | exact Ha'].
Qed.

Theorem at_path_refines : forall d T f g, op_refines d T f g ->
  forall path fuel b m s, length path < fuel -> ovl_wf d b -> OvlAbs d b m ->
  match sem_at path g m with
  | Some m' => exists b' s' s1, at_path fuel d b path f s = Ok (b', s') /\
                 ovl_wf d b' /\ OvlAbs d b' m' /\ same_but_seqc s s1 /\ T s1 s'
  | None => at_path fuel d b path f s = Err "IncompatibleValue"%string
  end.
Proof.
  intros d T f g Hfg. induction path as [|nm rest IH]; intros fuel b m s Hfuel Hw Ha;
    (destruct fuel as [|fu]; [cbn [length] in Hfuel; lia|]); cbn [at_path sem_at].
  - destruct (Hfg b m s Hw Ha) as (b' & s' & Hf & Hw' & Ha' & HT).
    exists b', s', s. split; [exact Hf|]. split; [exact Hw'|]. split; [exact Ha'|].
    split; [apply same_but_seqc_refl | exact HT].
  - cbn [length] in Hfuel. pose proof (b_get_or_create_refines d b m nm s Hw Ha) as Hg.
    destruct (Spec.alookup nm (Spec.b_ents m)) as [[v|o nx es]|] eqn:Hal.
    + rewrite Hg. reflexivity.
    + destruct Hg as (b1 & s1 & sb & Hg & Hsf & Hw1 & Ha1 & Hss). rewrite Hg. cbn [bind]. rewrite Hsf.
      destruct (sub_meaning d b1 m nm sb Hw1 Ha1 Hsf) as (c & Hc & Hac & Hwc).
      rewrite Hal in Hc. inversion Hc; subst c.
      specialize (IH fu sb (SBucket o nx es) s1 ltac:(lia) Hwc Hac).
      destruct (sem_at rest g (SBucket o nx es)) as [c'|].
      * destruct IH as (sb' & s2 & s1' & Hat & Hw' & Ha' & Hss' & HT). rewrite Hat. cbn [bind].
        destruct (put_back d b1 m nm sb sb' c' Hw1 Ha1 Hsf Hw' Ha') as [Hw2 Ha2].
        eexists _, s2, s1'. split; [reflexivity|]. split; [exact Hw2|]. split; [exact Ha2|].
        split; [eapply same_but_seqc_trans; eauto | exact HT].
      * rewrite IH. reflexivity.
    + destruct Hg as (b1 & s1 & sb & Hg & Hsf & Hw1 & Ha1 & Hss). rewrite Hg. cbn [bind]. rewrite Hsf.
      destruct (sub_meaning d b1 _ nm sb Hw1 Ha1 Hsf) as (c & Hc & Hac & Hwc).
      destruct (OvlAbs_bucket _ _ _ Ha) as [ents Em]. subst m.
      cbn [Spec.b_ents Spec.b_next set_ents Spec.b_oid] in *.
      rewrite alookup_ainsert, beq_refl in Hc. inversion Hc; subst c.
      specialize (IH fu sb (SBucket 0 0 []) s1 ltac:(lia) Hwc Hac).
      destruct (sem_at rest g (SBucket 0 0 [])) as [c'|].
      * destruct IH as (sb' & s2 & s1' & Hat & Hw' & Ha' & Hss' & HT). rewrite Hat. cbn [bind].
        destruct (put_back d b1 _ nm sb sb' c' Hw1 Ha1 Hsf Hw' Ha') as [Hw2 Ha2].
        cbn [Spec.b_ents Spec.b_next set_ents Spec.b_oid] in Ha2. rewrite ainsert_ainsert in Ha2.
        eexists _, s2, s1'. split; [reflexivity|]. split; [exact Hw2|]. split; [exact Ha2|].
        split; [eapply same_but_seqc_trans; eauto | exact HT].
      * rewrite IH. reflexivity.
Qed.

(* ====================================================================== *)
(** * 5. The final operations *)

(* a change of the tree that keeps the bucket entries named by the opened sub-buckets *)
Lemma wf_view_change : forall d b b' l l', ovl_wf d b -> bucket_view d b l ->
  bucket_wf d b' -> bucket_view d b' l' -> b_subs b' = b_subs b -> b_root_page b' = b_root_page b ->
  (forall x r nx, In x (b_subs b) -> Spec.alookup (fst x) (assoc l) = Some (LBk (fst x) r nx) ->
                  Spec.alookup (fst x) (assoc l') = Some (LBk (fst x) r nx)) ->
  ovl_wf d b'.
Proof.
  intros d b b' l l' Hw Hbv Hbw' Hbv' Hsb Hr Hkeep.
  inversion Hw as [? l0 Hbw Hbv0 Hnd Hsubs Hroot]; subst.
  rewrite <- (bucket_view_det d b l l0 Hbv Hbv0) in Hsubs.
  apply (ovl_wf_intro d b' l'); [exact Hbw' | exact Hbv' | now rewrite Hsb | | now rewrite Hr].
  rewrite Hsb. rewrite Forall_forall in Hsubs |- *. intros x Hx.
  destruct (Hsubs x Hx) as [(r & nx & Hal) Hwx]. split; [|exact Hwx]. exists r, nx. now apply Hkeep.
Qed.

Lemma put_result : forall d b b' l l' ents k v, ovl_wf d b -> bucket_view d b l ->
  sorted_keys (map lkey l) = true -> Forall2 (OvlEnt d (b_subs b)) l ents ->
  (forall k0 r nx, Spec.alookup k (assoc l) <> Some (LBk k0 r nx)) ->
  bucket_wf d b' -> bucket_view d b' l' -> assoc l' = Spec.ainsert k (LKv k v) (assoc l) ->
  b_subs b' = b_subs b -> b_root_page b' = b_root_page b ->
  ovl_wf d b' /\ OvlAbs d b' (SBucket 0 (b_next b') (Spec.ainsert k (SVal v) ents)).
Proof.
  intros d b b' l l' ents k v Hw Hbv Hs HF Hnb Hbw' Hbv' Ha Hsb Hr. split.
  - apply (wf_view_change d b b' l l'); auto. intros x r nx _ Hal. rewrite Ha, alookup_ainsert.
    destruct (beq (fst x) k) eqn:E; [|exact Hal]. apply beq_true in E. rewrite E in Hal. now apply Hnb in Hal.
  - apply (OvlAbs_intro d b' l' _ Hbv'). rewrite Hsb.
    replace l' with (map snd (Spec.ainsert k (LKv k v) (assoc l))) by (rewrite <- Ha; apply assoc_map_snd).
    apply (F2_ainsert (OvlEnt d (b_subs b))); [apply OvlEnt_key | exact Hs | exact HF | auto | constructor].
Qed.

Theorem put_refines : forall d k v,
  op_refines d same_but_seqc (fun b s => soft (b, s) (b_put d b k v s)) (sem_put k v).
Proof.
  intros d k v b m s Hw Ha. cbn beta.
  destruct (ovl_both d b m Hw Ha) as (l & ents & -> & Hbw & Hbv & Hs & Hnd & Hsubs & HF & Hroot).
  pose proof (F2_alookup _ (OvlEnt_key d (b_subs b)) l ents k HF) as Hlk.
  pose proof Hbv as (h & Hh & Hv). pose proof (b_put_spec d h b l k v s Hbw Hv Hh) as Hp.
  unfold sem_put. cbn [Spec.b_ents Spec.b_next set_ents Spec.b_oid].
  destruct (Spec.alookup k (assoc l)) as [[k0 v0|k0 r nx]|] eqn:Hal.
  - destruct Hlk as (x & Hx & He). apply OvlEnt_kv_inv in He. destruct He as [_ ->]. rewrite Hx.
    destruct Hp as (b' & s' & l' & Hput & Hbw' & Hv' & Ha' & _ & Hn' & Hr' & Hsb' & _ & Hss).
    rewrite Hput. cbn [soft]. exists b', s'. split; [reflexivity|].
    destruct (put_result d b b' l l' ents k v Hw Hbv Hs HF) as [H1 H2]; auto.
    { intros ? ? ?. rewrite Hal. discriminate. } { exists h; auto. }
    rewrite Hn' in H2. auto.
  - destruct Hlk as (x & Hx & He). destruct (OvlEnt_bk_bucket _ _ _ _ _ _ He) as (o & nx' & es & Ex).
    cbn [snd] in Ex. subst x. rewrite Hx, Hp. cbn [soft]. exists b, s.
    split; [reflexivity|]. split; [exact Hw|]. split; [exact Ha | apply same_but_seqc_refl].
  - rewrite Hlk.
    destruct Hp as (b' & s' & l' & Hput & Hbw' & Hv' & Ha' & _ & Hn' & Hr' & Hsb' & _ & Hss).
    rewrite Hput. cbn [soft]. exists b', s'. split; [reflexivity|].
    destruct (put_result d b b' l l' ents k v Hw Hbv Hs HF) as [H1 H2]; auto.
    { intros ? ? ?. rewrite Hal. discriminate. } { exists h; auto. }
    rewrite Hn' in H2. auto.
Qed.

Theorem del_refines : forall d k,
  op_refines d same_but_seqc (fun b s => soft (b, s) (b_delete d b k s)) (sem_del k).
Proof.
  intros d k b m s Hw Ha. cbn beta.
  destruct (ovl_both d b m Hw Ha) as (l & ents & -> & Hbw & Hbv & Hs & Hnd & Hsubs & HF & Hroot).
  pose proof (F2_alookup _ (OvlEnt_key d (b_subs b)) l ents k HF) as Hlk.
  pose proof Hbv as (h & Hh & Hv). pose proof (b_delete_spec d h b l k s Hbw Hv Hh) as Hp.
  unfold sem_del. cbn [Spec.b_ents Spec.b_next set_ents Spec.b_oid].
  destruct (Spec.alookup k (assoc l)) as [[k0 v0|k0 r nx]|] eqn:Hal.
  - destruct Hlk as (x & Hx & He). apply OvlEnt_kv_inv in He. destruct He as [_ ->]. rewrite Hx.
    destruct Hp as (b' & s' & l' & Hdel & Hbw' & Hv' & Ha' & _ & Hn' & Hr' & Hsb' & _ & Hss).
    rewrite Hdel. cbn [soft]. exists b', s'. split; [reflexivity|].
    assert (Hbv' : bucket_view d b' l') by (exists h; auto).
    split; [|split; [|exact Hss]].
    + apply (wf_view_change d b b' l l'); auto. intros x r nx _ Hx'. rewrite Ha', alookup_aremove.
      * destruct (beq (fst x) k) eqn:E; [|exact Hx']. apply beq_true in E. rewrite E in Hx'. congruence.
      * now rewrite assoc_keys.
    + rewrite <- Hn'. apply (OvlAbs_intro d b' l' _ Hbv'). rewrite Hsb'.
      replace l' with (map snd (Spec.aremove k (assoc l))) by (rewrite <- Ha'; apply assoc_map_snd).
      apply (F2_aremove (OvlEnt d (b_subs b))); [apply OvlEnt_key | exact Hs | exact HF | auto].
  - destruct Hlk as (x & Hx & He). destruct (OvlEnt_bk_bucket _ _ _ _ _ _ He) as (o & nx' & es & Ex).
    cbn [snd] in Ex. subst x. rewrite Hx, Hp. cbn [soft]. exists b, s.
    split; [reflexivity|]. split; [exact Hw|]. split; [exact Ha | apply same_but_seqc_refl].
  - rewrite Hlk, Hp. cbn [soft]. exists b, s.
    split; [reflexivity|]. split; [exact Hw|]. split; [exact Ha | apply same_but_seqc_refl].
Qed.

Theorem touch_refines : forall d, op_refines d same_but_seqc (fun b s => Ok (b, s)) (fun m => m).
Proof.
  intros d b m s Hw Ha. exists b, s. split; [reflexivity|]. split; [exact Hw|]. split; [exact Ha|].
  apply same_but_seqc_refl.
Qed.

(* ---------- delete_bucket: the transaction state ---------- *)
(* page p is recorded as freed by transaction t *)
Definition pmem (t p : N) (pd : list (N * list N)) : Prop := exists ps, In (t, ps) pd /\ In p ps.

(* what delete_bucket may do to the transaction state: [free], [np], [wr] (and txid, psz, flw) are unchanged,
   [seqc] grows, [pending] grows, and only under the current transaction id *)
Definition tx_frees (s s' : txs) : Prop :=
  free s' = free s /\ txid s' = txid s /\ np s' = np s /\ psz s' = psz s /\ wr s' = wr s /\ flw s' = flw s /\
  (seqc s <= seqc s')%N /\
  (forall t p, pmem t p (pending s) -> pmem t p (pending s')) /\
  (forall t p, pmem t p (pending s') -> pmem t p (pending s) \/ t = txid s).

Lemma tx_frees_refl : forall s, tx_frees s s.
Proof. intros s. unfold tx_frees. repeat split; auto. lia. Qed.

Lemma tx_frees_trans : forall s1 s2 s3, tx_frees s1 s2 -> tx_frees s2 s3 -> tx_frees s1 s3.
Proof.
  intros s1 s2 s3 (A1 & A2 & A3 & A4 & A5 & A6 & A7 & A8 & A9) (B1 & B2 & B3 & B4 & B5 & B6 & B7 & B8 & B9).
  unfold tx_frees. repeat split; try congruence; [lia | auto |].
  intros t p H. destruct (B9 t p H) as [H'|H']; [auto | right; congruence].
Qed.

Lemma same_but_seqc_frees : forall s s', same_but_seqc s s' -> tx_frees s s'.
Proof.
  intros s s' (A1 & A2 & A3 & A4 & A5 & A6 & A7 & A8). unfold tx_frees. rewrite A2.
  repeat split; auto.
Qed.

Lemma pend_add_mem : forall t p l u q, pmem u q (pend_add t p l) <-> pmem u q l \/ (u = t /\ q = p).
Proof.
  intros t p. induction l as [|[u0 ps0] l IH]; intros u q; cbn [pend_add].
  - split.
    + intros (ps & [E|[]] & Hq). inversion E; subst. destruct Hq as [<-|[]]. now right.
    + intros [(ps & [] & _) | [-> ->]]. exists [p]. split; now left.
  - destruct (N.eqb_spec u0 t) as [E0|E0].
    + subst u0. split.
      * intros (ps & [E|Hin] & Hq).
        -- inversion E; subst. apply in_app_or in Hq. destruct Hq as [Hq|[<-|[]]].
           ++ left. exists ps0. split; [now left | exact Hq].
           ++ now right.
        -- left. exists ps. split; [now right | exact Hq].
      * intros [(ps & [E|Hin] & Hq) | [-> ->]].
        -- inversion E; subst. exists (ps ++ [p]). split; [now left | apply in_or_app; now left].
        -- exists ps. split; [now right | exact Hq].
        -- exists (ps0 ++ [p]). split; [now left | apply in_or_app; right; now left].
    + destruct (t <? u0)%N.
      * split.
        -- intros (ps & [E|Hin] & Hq).
           ++ inversion E; subst. destruct Hq as [<-|[]]. now right.
           ++ left. exists ps. auto.
        -- intros [(ps & Hin & Hq) | [-> ->]].
           ++ exists ps. split; [now right | exact Hq].
           ++ exists [p]. split; now left.
      * split.
        -- intros (ps & [E|Hin] & Hq).
           ++ inversion E; subst. left. exists ps. split; [now left | exact Hq].
           ++ destruct (proj1 (IH u q)) as [(ps' & H1 & H2) | H]; [exists ps; auto | | now right].
              left. exists ps'. split; [now right | exact H2].
        -- intros [(ps & [E|Hin] & Hq) | H].
           ++ inversion E; subst. exists ps. split; [now left | exact Hq].
           ++ destruct (proj2 (IH u q)) as (ps' & H1 & H2); [left; exists ps; auto|].
              exists ps'. split; [now right | exact H2].
           ++ destruct (proj2 (IH u q)) as (ps' & H1 & H2); [now right|].
              exists ps'. split; [now right | exact H2].
Qed.

Lemma free_run_frees : forall n s p, tx_frees s (free_run s p n).
Proof.
  induction n as [|n IH]; intros s p; cbn [free_run]; [apply tx_frees_refl|].
  destruct (freed_in_tx s p); [apply IH|].
  eapply tx_frees_trans; [|apply IH]. unfold tx_frees, upd_pending. cbn.
  repeat split; auto; [lia | |].
  - intros t q H. apply pend_add_mem. now left.
  - intros t q H. apply pend_add_mem in H. destruct H as [H|[-> _]]; auto.
Qed.

Lemma free_tree_frees : forall fuel d stack s s1, free_tree fuel d stack s = Ok s1 -> tx_frees s s1.
Proof.
  induction fuel as [|f IH]; intros d stack s s1 H; cbn [free_tree] in H; [discriminate|].
  destruct stack as [|p rest]; [inversion H; apply tx_frees_refl|].
  destruct (dget d p) as [a|]; [|discriminate].
  eapply tx_frees_trans; [|eapply IH; exact H]. apply free_run_frees.
Qed.

(* the walk over the deleted bucket's committed pages completes (it has fuel 100000: this bounds the number of
   pages of a bucket that can be deleted; see [free_tree_cost_ok] for a sufficient condition) *)
Definition free_tree_ok (d : disk) : Prop :=
  forall n r s, cwf n d r -> exists s1, free_tree 100000 d [r] s = Ok s1.

(* delete_bucket once the bucket is opened *)
Definition delb_phase2 (d : disk) (b0 : bucket) (name : bytes) (s0 : txs) : res (bucket * txs) :=
  match take_sub name (b_subs b0) with
  | None => Panic "unreachable"%string
  | Some (sb, rest) =>
      bind (if (b_root_page sb =? 0)%N then Ok s0 else free_tree 100000 d [b_root_page sb] s0) (fun s1 =>
        bind (b_lookup d (Bucket (b_root_page b0) (b_next b0) (b_dirty b0) (b_rootn b0) rest) name) (fun cur =>
          match cur with
          | Some e => if is_kv e then Err "IncompatibleValue"%string
                      else b_modify d (Bucket (b_root_page b0) (b_next b0) (b_dirty b0) (b_rootn b0) rest) (OpDel name) s1
          | None => Panic "Did not find data for bucket we already deleted"%string
          end))
  end.

Lemma b_delete_bucket_unfold : forall d b name s,
  b_delete_bucket d b name s =
  bind (match sub_find name (b_subs b) with
        | Some _ => Ok (b, s)
        | None => bind (b_lookup d b name) (fun cur =>
            match cur with
            | Some (LBk _ r nx) =>
                Ok (Bucket (b_root_page b) (b_next b) (b_dirty b) (b_rootn b)
                      (sub_put name (Bucket r nx false None []) (b_subs b)), s)
            | Some (LKv _ _) => Err "IncompatibleValue"%string
            | None => Err "BucketMissing"%string
            end)
        end) (fun p => delb_phase2 d (fst p) name (snd p)).
Proof.
  intros d b name s. unfold b_delete_bucket, delb_phase2.
  match goal with |- bind ?X _ = _ => destruct X as [[b0 s0]| |] end; reflexivity.
Qed.

Lemma delb_phase2_spec : forall d b0 m name sb s0, free_tree_ok d -> ovl_wf d b0 -> OvlAbs d b0 m ->
  sub_find name (b_subs b0) = Some sb ->
  exists b' s', delb_phase2 d b0 name s0 = Ok (b', s') /\ ovl_wf d b' /\ OvlAbs d b' (sem_delb name m) /\
    tx_frees s0 s'.
Proof.
  intros d b0 m name sb s0 Hft Hw Ha Hsf.
  destruct (sub_meaning d b0 m name sb Hw Ha Hsf) as (c & Hc & Hac & Hwc).
  destruct (OvlAbs_bucket _ _ _ Hac) as [esc Ec]. subst c.
  destruct (ovl_both d b0 m Hw Ha) as (l & ents & -> & Hbw & Hbv & Hs & Hnd & Hsubs & HF & Hroot).
  unfold sem_delb. rewrite Hc. cbn [Spec.b_ents Spec.b_next set_ents Spec.b_oid].
  destruct (take_sub_spec name (b_subs b0) sb Hnd Hsf) as (rest & Ht & Hnone & Hother & Hnd' & Hin).
  rewrite Forall_forall in Hsubs.
  destruct (Hsubs _ (sub_find_In _ _ _ Hsf)) as [(r & nx & Hal) _]. cbn [fst] in Hal.
  unfold delb_phase2. rewrite Ht.
  (* the page walk *)
  assert (Hs1 : exists s1, (if (b_root_page sb =? 0)%N then Ok s0 else free_tree 100000 d [b_root_page sb] s0) = Ok s1
                          /\ tx_frees s0 s1).
  { destruct (N.eqb_spec (b_root_page sb) 0) as [E|E].
    - exists s0. split; [reflexivity | apply tx_frees_refl].
    - inversion Hwc as [? ? _ _ _ _ Hrsb]; subst. destruct Hrsb as [E0|[n Hn]]; [contradiction|].
      destruct (Hft n _ s0 Hn) as [s1 H1]. exists s1. split; [exact H1 | eapply free_tree_frees; eauto]. }
  destruct Hs1 as (s1 & -> & Hfr). cbn [bind].
  set (b1 := Bucket (b_root_page b0) (b_next b0) (b_dirty b0) (b_rootn b0) rest).
  assert (Hbw1 : bucket_wf d b1) by (apply (bucket_wf_tree d b0); auto).
  assert (Hbv1 : bucket_view d b1 l) by (apply (bucket_view_tree d b0); auto).
  rewrite (b_lookup_refines d b1 l name Hbw1 Hbv1), Hal. cbn [bind is_kv].
  destruct Hbv1 as (h & Hh & Hv1).
  destruct (b_modify_view d h b1 l (OpDel name) s1 Hbw1 Hv1 Hh)
    as (b2 & s2 & Hm & Hw2 & Hv2 & Ha2 & Hs2 & Hr2 & Hn2 & Hsb2 & Hd2 & Hss2).
  cbn [aop] in Ha2. set (l2 := apply_lop (OpDel name) l) in *.
  assert (Hbv2 : bucket_view d b2 l2) by (exists h; auto).
  exists b2, s2. split; [exact Hm|]. cbn [b1 b_subs b_next b_root_page] in Hsb2, Hn2, Hr2.
  split; [|split].
  - apply (ovl_wf_intro d b2 l2); [exact Hw2 | exact Hbv2 | now rewrite Hsb2 | | now rewrite Hr2].
    rewrite Hsb2. apply Forall_forall. intros x Hx. destruct (Hsubs x (Hin x Hx)) as [(r' & nx' & Hal') Hwx].
    split; [|exact Hwx]. exists r', nx'. rewrite Ha2, alookup_aremove by now rewrite assoc_keys.
    rewrite beq_false_ne; [exact Hal'|]. eapply sub_find_None_In; eauto.
  - rewrite <- Hn2. apply (OvlAbs_intro d b2 l2 _ Hbv2). rewrite Hsb2.
    replace l2 with (map snd (Spec.aremove name (assoc l))) by (rewrite <- Ha2; apply assoc_map_snd).
    apply (F2_aremove (OvlEnt d (b_subs b0))); [apply OvlEnt_key | exact Hs | exact HF |].
    intros e kv _ Hk. apply OvlEnt_subs_change. now apply Hother.
  - eapply tx_frees_trans; [exact Hfr | now apply same_but_seqc_frees].
Qed.

Theorem delb_refines : forall d nm, free_tree_ok d ->
  op_refines d tx_frees (fun b s => soft (b, s) (b_delete_bucket d b nm s)) (sem_delb nm).
Proof.
  intros d nm Hft b m s Hw Ha. cbn beta. rewrite b_delete_bucket_unfold.
  destruct (sub_find nm (b_subs b)) as [sb|] eqn:Hsf.
  - cbn [bind fst snd].
    destruct (delb_phase2_spec d b m nm sb s Hft Hw Ha Hsf) as (b' & s' & H1 & H2 & H3 & H4).
    rewrite H1. cbn [soft]. eauto 6.
  - destruct (ovl_both d b m Hw Ha) as (l & ents & Em & Hbw & Hbv & Hs & Hnd & Hsubs & HF & Hroot).
    pose proof (F2_alookup _ (OvlEnt_key d (b_subs b)) l ents nm HF) as Hlk.
    rewrite (b_lookup_refines d b l nm Hbw Hbv). cbn [bind].
    destruct (Spec.alookup nm (assoc l)) as [[k v|k r nx]|] eqn:Hal.
    + destruct Hlk as (x & Hx & He). apply OvlEnt_kv_inv in He. destruct He as [_ ->].
      cbn [bind soft]. exists b, s. unfold sem_delb. subst m. cbn [Spec.b_ents]. rewrite Hx.
      split; [reflexivity|]. split; [exact Hw|]. split; [exact Ha | apply tx_frees_refl].
    + destruct (alookup_assoc_key _ _ _ Hal) as [Ek _]. cbn [lkey] in Ek. subst k.
      destruct (open_sub_spec d b m nm r nx l Hw Ha Hbv Hsf Hal) as [Hw0 Ha0]. cbn [bind fst snd].
      destruct (delb_phase2_spec d _ m nm (Bucket r nx false None []) s Hft Hw0 Ha0) as (b' & s' & H1 & H2 & H3 & H4).
      { cbn [b_subs]. apply sub_find_put_same. }
      rewrite H1. cbn [soft]. eauto 6.
    + cbn [bind soft]. exists b, s. unfold sem_delb. subst m. cbn [Spec.b_ents]. rewrite Hlk.
      split; [reflexivity|]. split; [exact Hw|]. split; [exact Ha | apply tx_frees_refl].
Qed.

(* ---------- a sufficient condition for [free_tree_ok]: fewer than 100000 pages ---------- *)
Definition ft_kids (a : apage) : list N :=
  match ap_body a with
  | Branches es => map snd es
  | Leaves l => flat_map (fun e => match e with LBk _ r _ => [r] | _ => [] end) l
  end.
Fixpoint sum_opt (l : list (option nat)) : option nat :=
  match l with
  | [] => Some 0
  | x :: l' => match x, sum_opt l' with Some a, Some b => Some (a + b) | _, _ => None end
  end.
(* the number of pages [free_tree] visits from page p (nested buckets included; a page reachable twice counts twice) *)
Fixpoint tree_cost (fuel : nat) (d : disk) (p : N) : option nat :=
  match fuel with
  | O => None
  | S f => match dget d p with
           | None => None
           | Some a => option_map S (sum_opt (map (tree_cost f d) (rev (ft_kids a))))
           end
  end.

Lemma free_tree_step : forall f d p rest s a, dget d p = Some a ->
  free_tree (S f) d (p :: rest) s = free_tree f d (rev (ft_kids a) ++ rest) (free_pages s p (ap_over a + 1)).
Proof. intros f d p rest s a H. cbn [free_tree]. rewrite H. reflexivity. Qed.

Lemma free_tree_cost : forall f d p c, tree_cost f d p = Some c ->
  forall fuel' rest s, exists s', free_tree (c + fuel') d (p :: rest) s = free_tree fuel' d rest s'.
Proof.
  induction f as [|f IH]; intros d p c H fuel' rest s; cbn [tree_cost] in H; [discriminate|].
  destruct (dget d p) as [a|] eqn:Hg; [|discriminate].
  destruct (sum_opt (map (tree_cost f d) (rev (ft_kids a)))) as [c0|] eqn:Hc; [|discriminate].
  cbn [option_map] in H. inversion H; subst c. cbn [Nat.add]. rewrite (free_tree_step _ _ _ _ _ _ Hg).
  generalize (free_pages s p (ap_over a + 1)). clear H Hg s.
  revert c0 Hc. generalize (rev (ft_kids a)). intros st.
  induction st as [|q st IHst]; intros c0 Hc s; cbn [map sum_opt] in Hc.
  - inversion Hc; subst c0. exists s. reflexivity.
  - destruct (tree_cost f d q) as [cq|] eqn:Hq; [|discriminate].
    destruct (sum_opt (map (tree_cost f d) st)) as [cs|] eqn:Hs; [|discriminate].
    inversion Hc; subst c0. cbn [app]. rewrite <- Nat.add_assoc.
    destruct (IH d q cq Hq (cs + fuel') (st ++ rest) s) as [s1 H1]. rewrite H1. apply (IHst cs eq_refl).
Qed.

Definition free_tree_cost_ok (d : disk) : Prop :=
  forall n r, cwf n d r -> exists f c, tree_cost f d r = Some c /\ c < 100000.

Theorem free_tree_cost_ok_ok : forall d, free_tree_cost_ok d -> free_tree_ok d.
Proof.
  intros d H n r s Hn. destruct (H n r Hn) as (f & c & Hc & Hlt). revert Hlt. generalize 100000. intros F Hlt.
  replace F with (c + S (F - c - 1)) by lia.
  destruct (free_tree_cost f d r c Hc (S (F - c - 1)) [] s) as [s' H']. rewrite H'. exists s'. reflexivity.
Qed.

(* ====================================================================== *)
(** * 6. The operation fold of [run_tx] *)

Definition tx_step (d : disk) (acc : bucket * txs) (o : Engine.op) : res (bucket * txs) :=
  let '(rb, s) := acc in
  match o with
  | Put p k v => soft (rb, s) (at_path 8 d rb p (fun b s => soft (b, s) (b_put d b k v s)) s)
  | Del p k => soft (rb, s) (at_path 8 d rb p (fun b s => soft (b, s) (b_delete d b k s)) s)
  | DelB p nm => soft (rb, s) (at_path 8 d rb p (fun b s => soft (b, s) (b_delete_bucket d b nm s)) s)
  | Touch p => soft (rb, s) (at_path 8 d rb p (fun b s => Ok (b, s)) s)
  end.
Definition tx_fold (st : db) (ops : list Engine.op) (acc : bucket * txs) : res (bucket * txs) :=
  fold_res (tx_step (d_disk st)) ops acc.

(* this IS the fold inside run_tx *)
Lemma run_tx_fold : forall st ops ord,
  run_tx st ops ord =
  bind (tx_fold st ops (root_bucket st, begin_w st)) (fun p => commit st (fst p) (snd p) ord).
Proof.
  intros st ops ord. unfold run_tx, tx_fold, tx_step.
  match goal with |- bind ?X _ = bind ?Y _ => change Y with X; destruct X as [[r s]| |] end; reflexivity.
Qed.

(* the path must be shorter than at_path's fuel (8); delete_bucket needs the page walk to complete *)
Definition op_ok (d : disk) (o : Engine.op) : Prop :=
  length (op_path o) < 8 /\ match o with DelB _ _ => free_tree_ok d | _ => True end.

Lemma soft_at_path : forall d T f g p rb m s, op_refines d T f g -> (forall s s', T s s' -> tx_frees s s') ->
  length p < 8 -> ovl_wf d rb -> OvlAbs d rb m ->
  exists rb' s', soft (rb, s) (at_path 8 d rb p f s) = Ok (rb', s') /\ ovl_wf d rb' /\
    OvlAbs d rb' (match sem_at p g m with Some r => r | None => m end) /\ tx_frees s s'.
Proof.
  intros d T f g p rb m s Hfg HT Hp Hw Ha.
  pose proof (at_path_refines d T f g Hfg p 8 rb m s Hp Hw Ha) as H.
  destruct (sem_at p g m) as [m'|].
  - destruct H as (b' & s' & s1 & Hat & Hw' & Ha' & Hss & Hts). rewrite Hat. cbn [soft].
    exists b', s'. split; [reflexivity|]. split; [exact Hw'|]. split; [exact Ha'|].
    eapply tx_frees_trans; [apply same_but_seqc_frees; exact Hss | now apply HT].
  - rewrite H. cbn [soft]. exists rb, s. split; [reflexivity|]. split; [exact Hw|]. split; [exact Ha|].
    apply tx_frees_refl.
Qed.

Theorem tx_step_refines : forall d o rb m s, op_ok d o -> ovl_wf d rb -> OvlAbs d rb m ->
  exists rb' s', tx_step d (rb, s) o = Ok (rb', s') /\ ovl_wf d rb' /\ OvlAbs d rb' (sem_op o m) /\ tx_frees s s'.
Proof.
  intros d o rb m s [Hp Hft] Hw Ha. unfold sem_op.
  destruct o as [p k v|p k|p nm|p]; cbn [tx_step op_path op_fun] in *.
  - apply (soft_at_path d same_but_seqc); auto using put_refines, same_but_seqc_frees.
  - apply (soft_at_path d same_but_seqc); auto using del_refines, same_but_seqc_frees.
  - apply (soft_at_path d tx_frees); auto using delb_refines.
  - apply (soft_at_path d same_but_seqc _ (fun m => m)); auto using touch_refines, same_but_seqc_frees.
Qed.

Theorem ops_refine_gen : forall st ops rb m s, Forall (op_ok (d_disk st)) ops ->
  ovl_wf (d_disk st) rb -> OvlAbs (d_disk st) rb m ->
  exists root' s', tx_fold st ops (rb, s) = Ok (root', s') /\
    ovl_wf (d_disk st) root' /\ OvlAbs (d_disk st) root' (sem_tx ops m) /\ tx_frees s s'.
Proof.
  intros st. induction ops as [|o ops IH]; intros rb m s Hok Hw Ha.
  - exists rb, s. split; [reflexivity|]. split; [exact Hw|]. split; [exact Ha | apply tx_frees_refl].
  - inversion Hok as [|? ? Ho Hok']; subst. unfold tx_fold, sem_tx. cbn [fold_res fold_left].
    destruct (tx_step_refines (d_disk st) o rb m s Ho Hw Ha) as (rb1 & s1 & Hst & Hw1 & Ha1 & Hf1).
    rewrite Hst. cbn [bind].
    destruct (IH rb1 (sem_op o m) s1 Hok' Hw1 Ha1) as (root' & s' & Hfold & Hw' & Ha' & Hf').
    exists root', s'. split; [exact Hfold|]. split; [exact Hw'|]. split; [exact Ha'|].
    eapply tx_frees_trans; eauto.
Qed.

(* the root bucket of a fresh write transaction means the committed state *)
Theorem root_bucket_meaning : forall st, db_pages_wf st ->
  ovl_wf (d_disk st) (root_bucket st) /\ OvlAbs (d_disk st) (root_bucket st) (abs_db st).
Proof.
  intros st H. unfold root_bucket, abs_db. apply open_committed. exists 16. split; [exact H | reflexivity].
Qed.

Theorem ops_refine : forall st ops, db_pages_wf st -> Forall (op_ok (d_disk st)) ops ->
  exists root' s', tx_fold st ops (root_bucket st, begin_w st) = Ok (root', s') /\
    ovl_wf (d_disk st) root' /\ OvlAbs (d_disk st) root' (sem_tx ops (abs_db st)) /\
    tx_frees (begin_w st) s'.
Proof.
  intros st ops Hdb Hok. destruct (root_bucket_meaning st Hdb) as [Hw Ha]. now apply ops_refine_gen.
Qed.

(* ... in terms of run_tx: the operation phase never fails, and what is committed means sem_tx *)
Corollary run_tx_ops : forall st ops ord, db_pages_wf st -> Forall (op_ok (d_disk st)) ops ->
  exists root' s', run_tx st ops ord = commit st root' s' ord /\
    ovl_wf (d_disk st) root' /\ OvlAbs (d_disk st) root' (sem_tx ops (abs_db st)) /\
    tx_frees (begin_w st) s'.
Proof.
  intros st ops ord Hdb Hok. destruct (ops_refine st ops Hdb Hok) as (root' & s' & Hf & H).
  exists root', s'. split; [|exact H]. rewrite run_tx_fold, Hf. reflexivity.
Qed.

(* ====================================================================== *)
(** * 6b. The meaning of an overlay bucket is unique *)

Fixpoint bdepth (b : bucket) : nat :=
  match b with
  | Bucket _ _ _ _ subs =>
      S ((fix go (l : list (bytes * bucket)) : nat :=
            match l with [] => 0 | x :: l' => Nat.max (bdepth (snd x)) (go l') end) subs)
  end.

Lemma bdepth_sub : forall b x, In x (b_subs b) -> bdepth (snd x) < bdepth b.
Proof.
  intros [r n dt rn subs] x Hin. cbn [b_subs] in Hin. cbn [bdepth].
  induction subs as [|y subs IH]; [destruct Hin|].
  destruct Hin as [->|Hin]; [lia|]. specialize (IH Hin). lia.
Qed.

Theorem OvlAbs_det : forall d b m m', OvlAbs d b m -> OvlAbs d b m' -> m = m'.
Proof.
  intros d b. remember (bdepth b) as n eqn:En. assert (Hn : bdepth b <= n) by lia. clear En.
  revert b Hn. induction n as [|n IH]; intros b Hn m m' H H'.
  - destruct b; cbn [bdepth] in Hn; lia.
  - inversion H as [? l ents Hv HF]; subst. inversion H' as [? l' ents' Hv' HF']; subst.
    rewrite <- (bucket_view_det d b l l' Hv Hv') in HF'. f_equal.
    clear H H' Hv Hv'. revert ents' HF'.
    induction HF as [|e kv l ents HR HF IHF]; intros ents' HF'; inversion HF' as [|? kv' ? ents0 HR' HF0]; subst;
      [reflexivity|]. f_equal; [|now apply IHF].
    destruct e as [k v|k r nx]; destruct kv as [k1 x1], kv' as [k2 x2].
    + apply OvlEnt_kv_inv in HR, HR'. destruct HR as [-> ->], HR' as [-> ->]. reflexivity.
    + apply OvlEnt_bk_inv in HR, HR'.
      destruct HR as [-> [(sb & Hs & Hm) | (Hs & Hm)]], HR' as [-> [(sb' & Hs' & Hm') | (Hs' & Hm')]]; try congruence.
      * rewrite Hs in Hs'. inversion Hs'; subst sb'. f_equal. apply (IH sb); [|exact Hm | exact Hm'].
        pose proof (bdepth_sub b _ (sub_find_In _ _ _ Hs)) as Hlt. cbn [snd] in Hlt. lia.
      * f_equal. eapply CAbs_det; eauto.
Qed.

(* ====================================================================== *)
(** * 7. Non-vacuity, and where the stated target fails *)

Lemma cwf_leaf : forall n d r a l, dget d r = Some a -> ap_body a = Leaves l ->
  sorted_keys (map lkey l) = true ->
  Forall (fun e => match e with LBk _ r' _ => cwf n d r' | LKv _ _ => True end) l -> cwf (S n) d r.
Proof.
  intros n d r a l Hg Hb Hs Hall. split; [eapply wfp_leaf; eauto|]. exists l.
  split; [unfold fuel0; eapply PV_leaf; eauto | exact Hall].
Qed.

(* a committed state: root page 3 holds "a" and the nested bucket "b" (root page 4, which holds "e") *)
Definition ex2_disk : disk :=
  [ (3%N, {| ap_over := 0; ap_body := Leaves [LKv kA [x01]; LBk kB 4 1] |});
    (4%N, {| ap_over := 0; ap_body := Leaves [LKv kE [x02]] |}) ].
Definition ex2_db : db :=
  {| d_disk := ex2_disk; d_root := 3; d_next := 2; d_np := 5; d_fl := 2; d_fln := 1; d_flids := [];
     d_tx := 1; d_free := []; d_pending := []; d_psz := 4096 |}.

Example ex2_db_wf : db_pages_wf ex2_db.
Proof.
  unfold db_pages_wf. cbn [d_disk d_root ex2_db].
  eapply cwf_leaf; [reflexivity | reflexivity | reflexivity |].
  constructor; [exact I|]. constructor; [|constructor].
  eapply cwf_leaf; [reflexivity | reflexivity | reflexivity |]. constructor; [exact I | constructor].
Qed.

Lemma ex2_dget : forall r a, dget ex2_disk r = Some a -> r = 3%N \/ r = 4%N.
Proof.
  intros r a H. unfold dget, ex2_disk in H. cbn [find fst] in H.
  destruct (N.eqb_spec 3 r); [now left|]. destruct (N.eqb_spec 4 r); [now right | discriminate].
Qed.

Example ex2_free_tree_ok : free_tree_ok ex2_disk.
Proof.
  apply free_tree_cost_ok_ok. intros n r Hn. destruct n as [|n]; [destruct Hn|]. destruct Hn as (Hw & _).
  apply wf_page_inv in Hw. destruct Hw as (a & Hg & _).
  destruct (ex2_dget _ _ Hg) as [-> | ->].
  - exists 3, 2. split; [vm_compute; reflexivity | apply Nat.ltb_lt; vm_compute; reflexivity].
  - exists 3, 1. split; [vm_compute; reflexivity | apply Nat.ltb_lt; vm_compute; reflexivity].
Qed.

(* the overlay after  put c/d := 03 (creates bucket "c")  and  put b/f := 04 (opens the stored bucket "b") *)
Definition ex2_ops0 : list Engine.op := [Put [kC] kD [x03]; Put [kB] kF [x04]].
Definition ex2_root1 : bucket :=
  Eval vm_compute in
    match tx_fold ex2_db ex2_ops0 (root_bucket ex2_db, begin_w ex2_db) with Ok (r, _) => r | _ => root_bucket ex2_db end.
Definition ex2_s1 : txs :=
  Eval vm_compute in
    match tx_fold ex2_db ex2_ops0 (root_bucket ex2_db, begin_w ex2_db) with Ok (_, s) => s | _ => begin_w ex2_db end.
Definition ex2_m1 : snode := Eval vm_compute in sem_tx ex2_ops0 (abs_db ex2_db).

Lemma ex2_ops0_ok : Forall (op_ok ex2_disk) ex2_ops0.
Proof. repeat constructor; cbn; lia. Qed.

(* the hypotheses of all theorems hold of this overlay: one nested bucket from disk (opened and modified),
   one created in the transaction *)
Example ex2_root1_ok :
  ovl_wf ex2_disk ex2_root1 /\ OvlAbs ex2_disk ex2_root1 ex2_m1 /\
  ex2_m1 = SBucket 0 3 [(kA, SVal [x01]); (kB, SBucket 0 2 [(kE, SVal [x02]); (kF, SVal [x04])]);
                        (kC, SBucket 0 1 [(kD, SVal [x03])])] /\
  map fst (b_subs ex2_root1) = [kC; kB] /\
  option_map b_root_page (sub_find kC (b_subs ex2_root1)) = Some 0%N /\
  option_map b_root_page (sub_find kB (b_subs ex2_root1)) = Some 4%N.
Proof.
  destruct (ops_refine ex2_db ex2_ops0 ex2_db_wf ex2_ops0_ok) as (root' & s' & Hf & Hw & Ha & _).
  vm_compute in Hf. inversion Hf; subst root' s'.
  split; [exact Hw|]. split; [exact Ha|]. repeat split; reflexivity.
Qed.

Ltac reduce_scrutinee H :=
  match type of H with
  | match ?X with _ => _ end => let v := eval vm_compute in X in change X with v in H; cbv beta iota in H
  end.

Example ex2_get_or_create :
  (* "c": created in this transaction, already open *)
  (exists b' s' sb, b_get_or_create ex2_disk ex2_root1 kC ex2_s1 = Ok (b', s') /\ sub_find kC (b_subs b') = Some sb /\
     ovl_wf ex2_disk b' /\ OvlAbs ex2_disk b' ex2_m1 /\ same_but_seqc ex2_s1 s') /\
  (* "a": a plain value *)
  b_get_or_create ex2_disk ex2_root1 kA ex2_s1 = Err "IncompatibleValue"%string /\
  (* "g": absent, created *)
  (exists b' s' sb, b_get_or_create ex2_disk ex2_root1 kG ex2_s1 = Ok (b', s') /\ sub_find kG (b_subs b') = Some sb /\
     ovl_wf ex2_disk b' /\
     OvlAbs ex2_disk b' (set_ents ex2_m1 4 (Spec.ainsert kG (SBucket 0 0 []) (Spec.b_ents ex2_m1))) /\
     same_but_seqc ex2_s1 s') /\
  (* "b" in a fresh transaction: stored on disk, opened by the call *)
  (exists b' s' sb, b_get_or_create ex2_disk (root_bucket ex2_db) kB (begin_w ex2_db) = Ok (b', s') /\
     sub_find kB (b_subs b') = Some sb /\ ovl_wf ex2_disk b' /\ OvlAbs ex2_disk b' (abs_db ex2_db) /\
     same_but_seqc (begin_w ex2_db) s').
Proof.
  destruct ex2_root1_ok as (Hw & Ha & _). destruct (root_bucket_meaning ex2_db ex2_db_wf) as [Hw0 Ha0].
  pose proof (b_get_or_create_refines ex2_disk ex2_root1 ex2_m1 kC ex2_s1 Hw Ha) as H1. reduce_scrutinee H1.
  pose proof (b_get_or_create_refines ex2_disk ex2_root1 ex2_m1 kA ex2_s1 Hw Ha) as H2. reduce_scrutinee H2.
  pose proof (b_get_or_create_refines ex2_disk ex2_root1 ex2_m1 kG ex2_s1 Hw Ha) as H3. reduce_scrutinee H3.
  pose proof (b_get_or_create_refines ex2_disk (root_bucket ex2_db) (abs_db ex2_db) kB (begin_w ex2_db) Hw0 Ha0) as H4.
  reduce_scrutinee H4.
  split; [exact H1|]. split; [exact H2|]. split; [exact H3 | exact H4].
Qed.

Example ex2_at_path :
  (* put b/g/a := 05 : "b" is open, "g" is created inside it *)
  (exists b' s' m', sem_at [kB; kG] (sem_put kA [x05]) ex2_m1 = Some m' /\
     at_path 8 ex2_disk ex2_root1 [kB; kG] (fun b s => soft (b, s) (b_put ex2_disk b kA [x05] s)) ex2_s1 = Ok (b', s') /\
     ovl_wf ex2_disk b' /\ OvlAbs ex2_disk b' m' /\
     Spec.get_at [kB; kG; kA] m' = Some (SVal [x05])) /\
  (* a path through the plain value "a" *)
  sem_at [kA; kB] (sem_put kA [x05]) ex2_m1 = None /\
  at_path 8 ex2_disk ex2_root1 [kA; kB] (fun b s => soft (b, s) (b_put ex2_disk b kA [x05] s)) ex2_s1
    = Err "IncompatibleValue"%string.
Proof.
  destruct ex2_root1_ok as (Hw & Ha & _).
  pose proof (at_path_refines ex2_disk _ _ _ (put_refines ex2_disk kA [x05]) [kB; kG] 8 ex2_root1 ex2_m1 ex2_s1
                ltac:(cbn; lia) Hw Ha) as H1.
  pose proof (at_path_refines ex2_disk _ _ _ (put_refines ex2_disk kA [x05]) [kA; kB] 8 ex2_root1 ex2_m1 ex2_s1
                ltac:(cbn; lia) Hw Ha) as H2.
  split; [|split; [vm_compute; reflexivity|]].
  - destruct (sem_at [kB; kG] (sem_put kA [x05]) ex2_m1) as [m'|] eqn:E; [|vm_compute in E; discriminate].
    destruct H1 as (b' & s' & s1 & Hat & Hw' & Ha' & _). exists b', s', m'.
    split; [reflexivity|]. split; [exact Hat|]. split; [exact Hw'|]. split; [exact Ha'|].
    vm_compute in E. inversion E. vm_compute. reflexivity.
  - reduce_scrutinee H2. exact H2.
Qed.

Example ex2_final_ops :
  (exists b' s', soft (ex2_root1, ex2_s1) (b_put ex2_disk ex2_root1 kD [x06] ex2_s1) = Ok (b', s') /\
     ovl_wf ex2_disk b' /\ OvlAbs ex2_disk b' (sem_put kD [x06] ex2_m1) /\ same_but_seqc ex2_s1 s') /\
  (exists b' s', soft (ex2_root1, ex2_s1) (b_delete ex2_disk ex2_root1 kA ex2_s1) = Ok (b', s') /\
     ovl_wf ex2_disk b' /\ OvlAbs ex2_disk b' (sem_del kA ex2_m1) /\ same_but_seqc ex2_s1 s') /\
  (exists b' s', soft (ex2_root1, ex2_s1) (b_delete_bucket ex2_disk ex2_root1 kB ex2_s1) = Ok (b', s') /\
     ovl_wf ex2_disk b' /\ OvlAbs ex2_disk b' (sem_delb kB ex2_m1) /\ tx_frees ex2_s1 s' /\
     sem_delb kB ex2_m1 = SBucket 0 3 [(kA, SVal [x01]); (kC, SBucket 0 1 [(kD, SVal [x03])])] /\
     pending s' = [(2%N, [4%N])]).
Proof.
  destruct ex2_root1_ok as (Hw & Ha & _).
  split; [exact (put_refines ex2_disk kD [x06] ex2_root1 ex2_m1 ex2_s1 Hw Ha)|].
  split; [exact (del_refines ex2_disk kA ex2_root1 ex2_m1 ex2_s1 Hw Ha)|].
  destruct (delb_refines ex2_disk kB ex2_free_tree_ok ex2_root1 ex2_m1 ex2_s1 Hw Ha) as (b' & s' & H1 & H2 & H3 & H4).
  exists b', s'. split; [exact H1|]. split; [exact H2|]. split; [exact H3|]. split; [exact H4|].
  split; [vm_compute; reflexivity|]. vm_compute in H1. inversion H1. reflexivity.
Qed.

(* all four kinds of operation, on stored, opened, created and deleted-then-recreated buckets *)
Definition ex2_ops : list Engine.op :=
  ex2_ops0 ++ [Del [] kA; DelB [] kB; Touch [kG; kG]; Put [kA] kA [x07]; Put [kC; kD] kA [x08]; Del [kC] kG;
               DelB [kG] kG; Put [kB; kB] kB [x09]].
Definition ex2_m2 : snode := Eval vm_compute in sem_tx ex2_ops (abs_db ex2_db).

Example ex2_ops_refine :
  exists root' s', tx_fold ex2_db ex2_ops (root_bucket ex2_db, begin_w ex2_db) = Ok (root', s') /\
    ovl_wf ex2_disk root' /\ OvlAbs ex2_disk root' ex2_m2 /\ tx_frees (begin_w ex2_db) s' /\
    ex2_m2 = SBucket 0 6
      [(kA, SBucket 0 1 [(kA, SVal [x07])]);
       (kB, SBucket 0 1 [(kB, SBucket 0 1 [(kB, SVal [x09])])]);
       (kC, SBucket 0 1 [(kD, SVal [x03])]);
       (kG, SBucket 0 1 [])].
Proof.
  destruct (ops_refine ex2_db ex2_ops ex2_db_wf) as (root' & s' & H1 & H2 & H3 & H4).
  { repeat constructor; cbn; try lia; exact ex2_free_tree_ok. }
  exists root', s'. split; [exact H1|]. split; [exact H2|]. split; [exact H3|]. split; [exact H4 | reflexivity].
Qed.

Example init_db_wf : forall P, db_pages_wf (init_db P).
Proof.
  intros P. unfold db_pages_wf. cbn [d_disk d_root init_db].
  eapply cwf_leaf; [reflexivity | reflexivity | reflexivity | constructor].
Qed.

(* ---------- the path-length restriction in [op_ok] is necessary ---------- *)
(* at_path runs with fuel 8: on a path of 8 names it creates the 8 buckets and then returns Err "fuel", which the
   outer [soft] of run_tx turns into "no effect"; sem_op creates the buckets and performs the put *)
Definition ex_p8 : list bytes := repeat kA 8.

Example long_path_no_effect :
  tx_fold (init_db 4096) [Put ex_p8 kB [x01]] (root_bucket (init_db 4096), begin_w (init_db 4096))
    = Ok (root_bucket (init_db 4096), begin_w (init_db 4096)) /\
  at_path 8 (d_disk (init_db 4096)) (root_bucket (init_db 4096)) ex_p8
    (fun b s => soft (b, s) (b_put (d_disk (init_db 4096)) b kB [x01] s)) (begin_w (init_db 4096)) = Err "fuel"%string /\
  sem_tx [Put ex_p8 kB [x01]] (abs_db (init_db 4096)) <> abs_db (init_db 4096) /\
  Spec.get_at (ex_p8 ++ [kB]) (sem_tx [Put ex_p8 kB [x01]] (abs_db (init_db 4096))) = Some (SVal [x01]).
Proof.
  split; [vm_compute; reflexivity|]. split; [vm_compute; reflexivity|].
  split; [vm_compute; discriminate | vm_compute; reflexivity].
Qed.

(* hence the tier-B target as stated in EngineAbs (all operation lists) fails for every predicate that holds of the
   empty database: it needs the restriction to paths shorter than 8 (or at_path needs fuel > length path) *)
Theorem run_tx_refines_stmt_false : forall db_wf : db -> Prop,
  db_wf (init_db 4096) -> ~ run_tx_refines_unrestricted_stmt db_wf.
Proof.
  intros db_wf H0 H.
  destruct (run_tx (init_db 4096) [Put ex_p8 kB [x01]] []) as [st'| |] eqn:E; try (vm_compute in E; discriminate).
  destruct (H _ _ _ _ H0 E) as [_ Habs]. vm_compute in E. inversion E; subst st'.
  vm_compute in Habs. discriminate.
Qed.

Print Assumptions CAbs_det.
Print Assumptions abs_bucket_stable.
Print Assumptions open_committed.
Print Assumptions sub_meaning.
Print Assumptions b_get_or_create_refines.
Print Assumptions put_back.
Print Assumptions at_path_refines.
Print Assumptions put_refines.
Print Assumptions del_refines.
Print Assumptions touch_refines.
Print Assumptions free_tree_frees.
Print Assumptions free_tree_cost_ok_ok.
Print Assumptions delb_refines.
Print Assumptions tx_step_refines.
Print Assumptions ops_refine_gen.
Print Assumptions root_bucket_meaning.
Print Assumptions ops_refine.
Print Assumptions run_tx_ops.
Print Assumptions OvlAbs_det.
Print Assumptions ex2_db_wf.
Print Assumptions ex2_free_tree_ok.
Print Assumptions ex2_root1_ok.
Print Assumptions ex2_get_or_create.
Print Assumptions ex2_at_path.
Print Assumptions ex2_final_ops.
Print Assumptions ex2_ops_refine.
Print Assumptions long_path_no_effect.
Print Assumptions run_tx_refines_stmt_false.
