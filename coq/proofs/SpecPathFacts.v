(* The handle-based reference machine (Spec.step_op), driven by path-addressed operations (SpecPath.path_step),
   computes the functional path semantics (EngineAbs.sem_tx):

     Theorem path_machine : path_machine_stmt wf.

   wf c  :=  c is a bucket and the entries of every bucket in c are strictly ascending by key (recursively).
   Nothing is assumed about object ids: begin_tx strips them, and the simulation invariant [Inv] (ids in the
   transaction's root pairwise distinct among the non-zero ones, below t_oids, not deleted; remembered handles point at
   the bucket their path names) is established by [pinit] and preserved by [path_step].

   wf is preserved by sem_tx and by strip, so the theorem chains over any number of transactions
   (path_machine_chain). The Touch prefixes that SpecPath.expand inserts are redundant for sem_tx on every map
   (sem_tx_expand, no hypothesis), hence path_machine_plain: the machine computes sem_tx ops (strip c).

   The bucket-at-the-root half of wf is necessary (Examples.root_must_be_a_bucket). The sortedness half is what the
   proof uses (find_oid's left-to-right search agrees with alookup on sorted lists; alookup after aremove); an
   exhaustive run over 1800 unsorted / duplicate-key roots x 2744 operation triples found no disagreement, so it is
   probably not necessary, but every map a transaction commits is sorted anyway (wf_sem_tx). *)
From Coq Require Import List NArith Bool Lia ZifyBool ZifyNat ZifyN.
From Coq.Strings Require Import Byte.
From Jamm Require Import Bytes Tree SearchFacts Engine Spec EngineAbs SpecPath EngineFacts.
Import ListNotations.
Local Open Scope list_scope. Local Open Scope N_scope.

(* ====================================================================== *)
(** * 0. Induction on the nested map *)

Fixpoint snode_ind' (P : snode -> Prop)
    (HV : forall v, P (SVal v))
    (HB : forall o x es, Forall (fun kv => P (snd kv)) es -> P (SBucket o x es))
    (n : snode) {struct n} : P n :=
  match n with
  | SVal v => HV v
  | SBucket o x es =>
      HB o x es
        ((fix go (l : list (bytes * snode)) : Forall (fun kv => P (snd kv)) l :=
            match l with
            | [] => Forall_nil _
            | kv :: l' => Forall_cons kv (snode_ind' P HV HB (snd kv)) (go l')
            end) es)
  end.

(* ====================================================================== *)
(** * 1. Association lists *)

Section AssocMore.
  Context {A : Type}.
  Implicit Types (l : list (bytes * A)) (k : bytes) (v : A).

  Lemma alookup_In : forall l k v, alookup k l = Some v -> In (k, v) l.
  Proof.
    induction l as [|[k0 v0] l IH]; intros k v H; [discriminate|].
    cbn [alookup] in H. destruct (bcmp k k0) eqn:E.
    - apply bcmp_eq in E. subst k0. inversion H; subst. now left.
    - discriminate.
    - right. now apply IH.
  Qed.

  Lemma In_alookup : forall l k v, sorted_keys (map fst l) = true -> In (k, v) l -> alookup k l = Some v.
  Proof.
    induction l as [|[k0 v0] l IH]; intros k v Hs Hin; [destruct Hin|].
    cbn [map fst] in Hs. destruct (sorted_keys_cons _ _ Hs) as [Hall Hs'].
    cbn [alookup]. destruct Hin as [Heq|Hin].
    - inversion Heq; subst. now rewrite bcmp_refl.
    - assert (Hlt : bcmp k0 k = Lt).
      { rewrite Forall_forall in Hall. apply Hall. change k with (fst (k, v)). now apply in_map. }
      apply bcmp_lt_gt in Hlt. rewrite Hlt. now apply IH.
  Qed.

  Lemma ainsert_same : forall l k v, alookup k l = Some v -> ainsert k v l = l.
  Proof.
    induction l as [|[k0 v0] l IH]; intros k v H; [discriminate|].
    cbn [alookup] in H. cbn [ainsert]. destruct (bcmp k k0) eqn:E.
    - apply bcmp_eq in E. subst k0. now inversion H.
    - discriminate.
    - f_equal. now apply IH.
  Qed.

  Lemma In_ainsert : forall l k v x, In x (ainsert k v l) -> x = (k, v) \/ In x l.
  Proof.
    induction l as [|[k0 v0] l IH]; intros k v x H.
    - cbn in H. destruct H as [H|[]]. now left.
    - cbn [ainsert] in H. destruct (bcmp k k0).
      + destruct H as [H|H]; [now left | right; now right].
      + destruct H as [H|H]; [now left | now right].
      + destruct H as [H|H]; [right; now left|].
        destruct (IH _ _ _ H) as [H'|H']; [now left | right; now right].
  Qed.

  Lemma In_aremove : forall l k x, In x (aremove k l) -> In x l.
  Proof.
    induction l as [|[k0 v0] l IH]; intros k x H; [exact H|].
    cbn [aremove] in H. destruct (bcmp k k0).
    - now right.
    - exact H.
    - destruct H as [H|H]; [now left | right; eapply IH; eauto].
  Qed.
End AssocMore.

(* ---- strip commutes with the list operations ---- *)
Definition sf (kv : bytes * snode) : bytes * snode := (fst kv, strip (snd kv)).

Lemma strip_bucket : forall o x es, strip (SBucket o x es) = SBucket 0 x (map sf es).
Proof. reflexivity. Qed.

Lemma map_sf_keys : forall es, map fst (map sf es) = map fst es.
Proof. intros es. rewrite map_map. reflexivity. Qed.

Lemma alookup_strip : forall es k, alookup k (map sf es) = option_map strip (alookup k es).
Proof.
  induction es as [|[k0 c0] es IH]; intros k; [reflexivity|].
  cbn [map sf fst snd alookup]. destruct (bcmp k k0); [reflexivity | reflexivity | apply IH].
Qed.

Lemma ainsert_strip : forall es k c, map sf (ainsert k c es) = ainsert k (strip c) (map sf es).
Proof.
  induction es as [|[k0 c0] es IH]; intros k c; [reflexivity|].
  cbn [map sf fst snd ainsert]. destruct (bcmp k k0); cbn [map sf fst snd]; [reflexivity | reflexivity | now rewrite IH].
Qed.

Lemma aremove_strip : forall es k, map sf (aremove k es) = aremove k (map sf es).
Proof.
  induction es as [|[k0 c0] es IH]; intros k; [reflexivity|].
  cbn [map sf fst snd aremove]. destruct (bcmp k k0); cbn [map sf fst snd]; [reflexivity | reflexivity | now rewrite IH].
Qed.

Lemma b_ents_strip : forall b, b_ents (strip b) = map sf (b_ents b).
Proof. intros [v|o x es]; reflexivity. Qed.
Lemma b_next_strip : forall b, Spec.b_next (strip b) = Spec.b_next b.
Proof. intros [v|o x es]; reflexivity. Qed.

Definition is_bucket (n : snode) : bool := match n with SBucket _ _ _ => true | SVal _ => false end.

Lemma is_bucket_strip : forall n, is_bucket (strip n) = is_bucket n.
Proof. intros [v|o x es]; reflexivity. Qed.

Lemma strip_idem : forall n, strip (strip n) = strip n.
Proof.
  induction n as [v|o x es IH] using snode_ind'; [reflexivity|].
  rewrite !strip_bucket. f_equal. rewrite map_map.
  apply map_ext_in. intros [k c] Hin. rewrite Forall_forall in IH. specialize (IH _ Hin).
  unfold sf. cbn [fst snd] in *. now rewrite IH.
Qed.

(* ====================================================================== *)
(** * 2. Well-formedness: a bucket whose entry lists are strictly ascending, recursively *)

Fixpoint sorted_rec (n : snode) : bool :=
  match n with
  | SVal _ => true
  | SBucket _ _ es => sorted_keys (map fst es) && forallb (fun kv => sorted_rec (snd kv)) es
  end.

Definition wf (c : snode) : Prop := is_bucket c = true /\ sorted_rec c = true.

Lemma sorted_rec_bucket : forall o x es,
  sorted_rec (SBucket o x es) = true <->
  sorted_keys (map fst es) = true /\ (forall k c, In (k, c) es -> sorted_rec c = true).
Proof.
  intros o x es. cbn [sorted_rec]. rewrite andb_true_iff, forallb_forall. split.
  - intros [Hs Hall]. split; [exact Hs|]. intros k c Hin. exact (Hall _ Hin).
  - intros [Hs Hall]. split; [exact Hs|]. intros [k c] Hin. exact (Hall _ _ Hin).
Qed.

Lemma sorted_rec_strip : forall n, sorted_rec (strip n) = sorted_rec n.
Proof.
  induction n as [v|o x es IH] using snode_ind'; [reflexivity|].
  rewrite strip_bucket. cbn [sorted_rec]. rewrite map_sf_keys. f_equal.
  induction es as [|[k c] es IHes]; [reflexivity|].
  inversion IH as [|? ? Hc Hes]; subst. cbn [map forallb sf fst snd] in *.
  rewrite Hc. f_equal. now apply IHes.
Qed.

Theorem wf_strip : forall c, wf (strip c) <-> wf c.
Proof. intros c. unfold wf. now rewrite is_bucket_strip, sorted_rec_strip. Qed.

Lemma sorted_rec_ainsert : forall o x es k c o' x',
  sorted_rec (SBucket o x es) = true -> sorted_rec c = true ->
  sorted_rec (SBucket o' x' (ainsert k c es)) = true.
Proof.
  intros o x es k c o' x' Hb Hc. apply sorted_rec_bucket in Hb. destruct Hb as [Hs Hall].
  apply sorted_rec_bucket. split; [now apply ainsert_sorted|].
  intros k1 c1 Hin. apply In_ainsert in Hin. destruct Hin as [Heq|Hin].
  - now inversion Heq; subst.
  - eauto.
Qed.

Lemma sorted_rec_aremove : forall o x es k o' x',
  sorted_rec (SBucket o x es) = true -> sorted_rec (SBucket o' x' (aremove k es)) = true.
Proof.
  intros o x es k o' x' Hb. apply sorted_rec_bucket in Hb. destruct Hb as [Hs Hall].
  apply sorted_rec_bucket. split; [now apply aremove_sorted|].
  intros k1 c1 Hin. apply In_aremove in Hin. eauto.
Qed.

Lemma sorted_rec_child : forall o x es k c,
  sorted_rec (SBucket o x es) = true -> alookup k es = Some c -> sorted_rec c = true.
Proof.
  intros o x es k c Hb Hl. apply sorted_rec_bucket in Hb. destruct Hb as [_ Hall].
  eapply Hall. eapply alookup_In; eauto.
Qed.

(* ====================================================================== *)
(** * 3. get_at / set_at *)

Lemma get_at_cons_inv : forall k p root b, get_at (k :: p) root = Some b ->
  exists o x es c, root = SBucket o x es /\ alookup k es = Some c /\ get_at p c = Some b.
Proof.
  intros k p root b H. cbn [get_at] in H. destruct root as [v|o x es]; [discriminate|].
  cbn [b_ents] in H. destruct (alookup k es) as [c|] eqn:E; [|discriminate].
  exists o, x, es, c. auto.
Qed.

Lemma get_at_bucket_mid : forall p c b, get_at p c = Some b -> is_bucket b = true -> is_bucket c = true.
Proof.
  intros [|k p] c b H Hb.
  - cbn in H. now inversion H; subst.
  - apply get_at_cons_inv in H. destruct H as (o & x & es & c' & -> & _). reflexivity.
Qed.

Lemma get_at_app : forall p q root b, get_at p root = Some b -> get_at (p ++ q) root = get_at q b.
Proof.
  induction p as [|k p IH]; intros q root b H.
  - cbn in H. now inversion H; subst.
  - apply get_at_cons_inv in H. destruct H as (o & x & es & c & -> & Hl & Hg).
    cbn [app get_at b_ents]. rewrite Hl. now apply IH.
Qed.

Lemma get_at_sorted : forall p root b, sorted_rec root = true -> get_at p root = Some b -> sorted_rec b = true.
Proof.
  induction p as [|k p IH]; intros root b Hs H.
  - cbn in H. now inversion H; subst.
  - apply get_at_cons_inv in H. destruct H as (o & x & es & c & -> & Hl & Hg).
    eapply IH; [|exact Hg]. eapply sorted_rec_child; eauto.
Qed.

Lemma set_at_cons : forall k p nw o x es c, alookup k es = Some c ->
  set_at (k :: p) nw (SBucket o x es) = SBucket o x (ainsert k (set_at p nw c) es).
Proof. intros. cbn [set_at]. now rewrite H. Qed.

Lemma set_at_same : forall p root b, get_at p root = Some b -> set_at p b root = root.
Proof.
  induction p as [|k p IH]; intros root b H.
  - cbn in H. now inversion H; subst.
  - apply get_at_cons_inv in H. destruct H as (o & x & es & c & -> & Hl & Hg).
    rewrite (set_at_cons _ _ _ _ _ _ _ Hl). rewrite (IH _ _ Hg). now rewrite (ainsert_same _ _ _ Hl).
Qed.

Lemma set_at_sorted : forall p root b b', sorted_rec root = true -> get_at p root = Some b ->
  sorted_rec b' = true -> sorted_rec (set_at p b' root) = true.
Proof.
  induction p as [|k p IH]; intros root b b' Hs H Hb'.
  - exact Hb'.
  - apply get_at_cons_inv in H. destruct H as (o & x & es & c & -> & Hl & Hg).
    rewrite (set_at_cons _ _ _ _ _ _ _ Hl). eapply sorted_rec_ainsert; [exact Hs|].
    eapply IH; eauto. eapply sorted_rec_child; eauto.
Qed.

Lemma set_at_is_bucket : forall p root b b', get_at p root = Some b -> is_bucket b' = true ->
  is_bucket (set_at p b' root) = true.
Proof.
  intros [|k p] root b b' H Hb'; [exact Hb'|].
  apply get_at_cons_inv in H. destruct H as (o & x & es & c & -> & Hl & Hg).
  now rewrite (set_at_cons _ _ _ _ _ _ _ Hl).
Qed.

(* ====================================================================== *)
(** * 4. sem_at against get_at / set_at *)

Lemma sem_at_cons_bucket : forall k p f r c, alookup k (b_ents r) = Some c -> is_bucket c = true ->
  sem_at (k :: p) f r =
  match sem_at p f c with
  | Some c' => Some (set_ents r (Spec.b_next r) (ainsert k c' (b_ents r)))
  | None => None end.
Proof. intros k p f r c H Hc. cbn [sem_at]. rewrite H. destruct c; [discriminate | reflexivity]. Qed.

Lemma sem_at_cons_val : forall k p f r v, alookup k (b_ents r) = Some (SVal v) -> sem_at (k :: p) f r = None.
Proof. intros k p f r v H. cbn [sem_at]. now rewrite H. Qed.

Lemma sem_at_cons_none : forall k p f r, alookup k (b_ents r) = None ->
  sem_at (k :: p) f r =
  match sem_at p f (SBucket 0 0 []) with
  | Some c' => Some (set_ents r (Spec.b_next r + 1) (ainsert k c' (b_ents r)))
  | None => None end.
Proof. intros k p f r H. cbn [sem_at]. now rewrite H. Qed.

Lemma alookup_strip_ents : forall root k, alookup k (b_ents (strip root)) = option_map strip (alookup k (b_ents root)).
Proof. intros root k. rewrite b_ents_strip. apply alookup_strip. Qed.

Lemma sem_at_app_some : forall p root b q f b',
  get_at p root = Some b -> is_bucket b = true -> sem_at q f (strip b) = Some (strip b') ->
  sem_at (p ++ q) f (strip root) = Some (strip (set_at p b' root)).
Proof.
  induction p as [|k p IH]; intros root b q f b' H Hb Hq.
  - cbn in H. inversion H; subst. exact Hq.
  - apply get_at_cons_inv in H. destruct H as (o & x & es & c & -> & Hl & Hg).
    assert (Hc : is_bucket c = true) by (eapply get_at_bucket_mid; eauto).
    cbn [app]. rewrite (sem_at_cons_bucket k (p ++ q) f _ (strip c)).
    + rewrite (IH _ _ _ _ _ Hg Hb Hq). rewrite (set_at_cons _ _ _ _ _ _ _ Hl).
      rewrite !strip_bucket, ainsert_strip. reflexivity.
    + rewrite alookup_strip_ents. cbn [b_ents]. now rewrite Hl.
    + now rewrite is_bucket_strip.
Qed.

Lemma sem_at_app_none : forall p root b q f,
  get_at p root = Some b -> is_bucket b = true -> sem_at q f (strip b) = None ->
  sem_at (p ++ q) f (strip root) = None.
Proof.
  induction p as [|k p IH]; intros root b q f H Hb Hq.
  - cbn in H. inversion H; subst. exact Hq.
  - apply get_at_cons_inv in H. destruct H as (o & x & es & c & -> & Hl & Hg).
    assert (Hc : is_bucket c = true) by (eapply get_at_bucket_mid; eauto).
    cbn [app]. rewrite (sem_at_cons_bucket k (p ++ q) f _ (strip c)).
    + now rewrite (IH _ _ _ _ Hg Hb Hq).
    + rewrite alookup_strip_ents. cbn [b_ents]. now rewrite Hl.
    + now rewrite is_bucket_strip.
Qed.

(* the strip of set_at only depends on the strip of the new node *)
Lemma strip_set_at_ext : forall p root b b1 b2, get_at p root = Some b -> is_bucket b = true ->
  strip b1 = strip b2 -> strip (set_at p b1 root) = strip (set_at p b2 root).
Proof.
  intros p root b b1 b2 H Hb E.
  assert (H1 : sem_at (p ++ []) (fun _ => strip b1) (strip root) = Some (strip (set_at p b1 root)))
    by (eapply sem_at_app_some; eauto).
  assert (H2 : sem_at (p ++ []) (fun _ => strip b1) (strip root) = Some (strip (set_at p b2 root)))
    by (eapply sem_at_app_some; eauto; cbn; now rewrite E).
  congruence.
Qed.

Lemma strip_set_at_same : forall p root b b', get_at p root = Some b -> is_bucket b = true ->
  strip b' = strip b -> strip (set_at p b' root) = strip root.
Proof.
  intros p root b b' H Hb E. rewrite (strip_set_at_ext p root b b' b H Hb E). now rewrite (set_at_same _ _ _ H).
Qed.

(* a refused prefix refuses every extension *)
Lemma sem_at_none_ext : forall q s f g r, sem_at q f r = None -> sem_at (q ++ s) g r = None.
Proof.
  induction q as [|k q IH]; intros s f g r H; [discriminate|].
  cbn [app sem_at] in *. destruct (alookup k (b_ents r)) as [[v|o x es]|].
  - reflexivity.
  - destruct (sem_at q f (SBucket o x es)) eqn:E; [discriminate|]. now rewrite (IH s f g _ E).
  - destruct (sem_at q f (SBucket 0 0 [])) eqn:E; [discriminate|]. now rewrite (IH s f g _ E).
Qed.

(* ====================================================================== *)
(** * 5. Object ids by path; find_oid *)

Definition oid_at (root : snode) (p : list bytes) : option N :=
  match get_at p root with Some (SBucket o _ _) => Some o | _ => None end.

Lemma oid_at_nil : forall root, oid_at root [] = match root with SBucket o _ _ => Some o | SVal _ => None end.
Proof. reflexivity. Qed.

Lemma oid_at_cons : forall root k p,
  oid_at root (k :: p) = match alookup k (b_ents root) with Some c => oid_at c p | None => None end.
Proof. intros root k p. unfold oid_at. cbn [get_at]. now destruct (alookup k (b_ents root)). Qed.

Lemma oid_at_get : forall root p o, oid_at root p = Some o ->
  exists b, get_at p root = Some b /\ is_bucket b = true /\ b_oid b = o.
Proof.
  intros root p o H. unfold oid_at in H. destruct (get_at p root) as [[v|o' x es]|]; try discriminate.
  inversion H; subst. eexists. repeat split.
Qed.

Lemma get_oid_at : forall root p b, get_at p root = Some b -> is_bucket b = true -> oid_at root p = Some (b_oid b).
Proof. intros root p b H Hb. unfold oid_at. rewrite H. destruct b; [discriminate | reflexivity]. Qed.

Lemma oid_at_app : forall root p b s, get_at p root = Some b -> oid_at root (p ++ s) = oid_at b s.
Proof. intros root p b s H. unfold oid_at. now rewrite (get_at_app _ s _ _ H). Qed.

Lemma oid_at_val : forall v p, oid_at (SVal v) p = None.
Proof. intros v [|k p]; [reflexivity|]. now rewrite oid_at_cons. Qed.

(* q = p ++ s *)
Fixpoint after (p q : list bytes) : option (list bytes) :=
  match p, q with
  | [], _ => Some q
  | x :: p', y :: q' => if beq y x then after p' q' else None
  | _ :: _, [] => None
  end.

Lemma after_spec : forall p q s, after p q = Some s <-> q = p ++ s.
Proof.
  induction p as [|x p IH]; intros q s.
  - cbn. split; [now inversion 1 | now intros ->].
  - destruct q as [|y q]; cbn [after app].
    + split; discriminate.
    + destruct (beq y x) eqn:E.
      * apply beq_true in E. subst y. rewrite IH. split; [now intros -> | now inversion 1].
      * split; [discriminate|]. inversion 1; subst. rewrite (proj2 (beq_true x x) eq_refl) in E. discriminate.
Qed.

Lemma after_app : forall p s, after p (p ++ s) = Some s.
Proof. intros p s. now apply after_spec. Qed.

Lemma oid_at_set_at : forall p root b b' q, get_at p root = Some b ->
  oid_at (set_at p b' root) q = match after p q with Some s => oid_at b' s | None => oid_at root q end.
Proof.
  induction p as [|k p IH]; intros root b b' q H.
  - reflexivity.
  - apply get_at_cons_inv in H. destruct H as (o & x & es & c & -> & Hl & Hg).
    rewrite (set_at_cons _ _ _ _ _ _ _ Hl). destruct q as [|y q]; [reflexivity|].
    cbn [after]. rewrite (oid_at_cons (SBucket o x (ainsert k (set_at p b' c) es))). cbn [b_ents].
    rewrite alookup_ainsert. destruct (beq y k) eqn:E.
    + apply beq_true in E. subst y. rewrite (IH _ _ b' q Hg).
      destruct (after p q); [reflexivity|]. rewrite oid_at_cons. cbn [b_ents]. now rewrite Hl.
    + rewrite oid_at_cons. reflexivity.
Qed.

(* find_oid with its inner loop named *)
Fixpoint find_in (oid : N) (l : list (bytes * snode)) : option (list bytes) :=
  match l with
  | [] => None
  | (k, c) :: l' => match find_oid oid c with Some p => Some (k :: p) | None => find_in oid l' end
  end.

Lemma find_oid_bucket : forall oid o x es,
  find_oid oid (SBucket o x es) = if o =? oid then Some [] else find_in oid es.
Proof.
  intros oid o x es. cbn [find_oid]. destruct (o =? oid); [reflexivity|].
  induction es as [|[k c] es IH]; [reflexivity|].
  cbn [find_in]. destruct (find_oid oid c); [reflexivity | exact IH].
Qed.

Lemma find_in_some : forall oid l p, find_in oid l = Some p ->
  exists k c q, In (k, c) l /\ find_oid oid c = Some q /\ p = k :: q.
Proof.
  induction l as [|[k c] l IH]; intros p H; [discriminate|].
  cbn [find_in] in H. destruct (find_oid oid c) as [q|] eqn:E.
  - inversion H; subst. exists k, c, q. split; [now left | auto].
  - destruct (IH _ H) as (k' & c' & q' & Hin & Hf & ->). exists k', c', q'. split; [now right | auto].
Qed.

Lemma find_in_none : forall oid l, find_in oid l = None -> forall k c, In (k, c) l -> find_oid oid c = None.
Proof.
  induction l as [|[k0 c0] l IH]; intros H k c Hin; [destruct Hin|].
  cbn [find_in] in H. destruct (find_oid oid c0) eqn:E; [discriminate|].
  destruct Hin as [Heq|Hin]; [now inversion Heq; subst | eauto].
Qed.

Lemma find_oid_sound : forall root oid p, sorted_rec root = true -> find_oid oid root = Some p ->
  oid_at root p = Some oid.
Proof.
  induction root as [v|o x es IH] using snode_ind'; intros oid p Hs H; [discriminate|].
  rewrite find_oid_bucket in H. destruct (o =? oid) eqn:E.
  - inversion H; subst. apply N.eqb_eq in E. subst. reflexivity.
  - apply find_in_some in H. destruct H as (k & c & q & Hin & Hf & ->).
    apply sorted_rec_bucket in Hs. destruct Hs as [Hs Hall].
    rewrite oid_at_cons. cbn [b_ents]. rewrite (In_alookup _ _ _ Hs Hin).
    rewrite Forall_forall in IH. apply (IH _ Hin); [|exact Hf]. eapply Hall; eauto.
Qed.

Lemma find_oid_complete : forall p root oid, oid_at root p = Some oid -> find_oid oid root <> None.
Proof.
  induction p as [|k p IH]; intros root oid H.
  - rewrite oid_at_nil in H. destruct root as [v|o x es]; [discriminate|]. inversion H; subst.
    rewrite find_oid_bucket, N.eqb_refl. discriminate.
  - rewrite oid_at_cons in H. destruct root as [v|o x es]; [discriminate|]. cbn [b_ents] in H.
    destruct (alookup k es) as [c|] eqn:E; [|discriminate].
    rewrite find_oid_bucket. destruct (o =? oid); [discriminate|].
    intro Hn. eapply find_in_none in Hn; [|eapply alookup_In; eauto]. eapply IH; eauto.
Qed.

Definition uniq (root : snode) : Prop :=
  forall p q o, oid_at root p = Some o -> oid_at root q = Some o -> o <> 0 -> p = q.

Lemma find_oid_unique : forall root p o, sorted_rec root = true -> uniq root ->
  oid_at root p = Some o -> o <> 0 -> find_oid o root = Some p.
Proof.
  intros root p o Hs Hu H Ho. destruct (find_oid o root) as [p'|] eqn:E.
  - f_equal. eapply Hu; eauto. eapply find_oid_sound; eauto.
  - exfalso. eapply find_oid_complete; eauto.
Qed.

(* ---- path equality / prefix tests ---- *)
Lemma path_eqb_true : forall a b, path_eqb a b = true <-> a = b.
Proof.
  induction a as [|x a IH]; intros [|y b]; cbn [path_eqb]; try (split; [discriminate | discriminate]).
  - split; reflexivity.
  - rewrite andb_true_iff, beq_true, IH. split; [now intros [-> ->] | now inversion 1].
Qed.

Lemma path_eqb_refl : forall a, path_eqb a a = true.
Proof. intros a. now apply path_eqb_true. Qed.

Lemma path_eqb_false : forall a b, path_eqb a b = false <-> a <> b.
Proof.
  intros a b. split.
  - intros H E. apply path_eqb_true in E. congruence.
  - intros H. destruct (path_eqb a b) eqn:E; [|reflexivity]. apply path_eqb_true in E. contradiction.
Qed.

Lemma is_prefix_spec : forall a b, is_prefix a b = true <-> exists s, b = a ++ s.
Proof.
  induction a as [|x a IH]; intros b.
  - cbn. split; [eauto | reflexivity].
  - destruct b as [|y b]; cbn [is_prefix app].
    + split; [discriminate | now intros [s Hs]].
    + rewrite andb_true_iff, beq_true, IH. split.
      * intros [-> [s ->]]. eauto.
      * intros [s Hs]. inversion Hs; subst. eauto.
Qed.

Lemma is_prefix_after : forall a b, is_prefix a b = match after a b with Some _ => true | None => false end.
Proof.
  intros a b. destruct (after a b) as [s|] eqn:E.
  - apply is_prefix_spec. exists s. now apply after_spec.
  - destruct (is_prefix a b) eqn:F; [|reflexivity]. apply is_prefix_spec in F. destruct F as [s ->].
    rewrite after_app in E. discriminate.
Qed.

(* ====================================================================== *)
(** * 6. The simulation invariant *)

Record Inv (root : snode) (oids : N) (hs : list (N * N)) (del : list N)
           (ph : list (list bytes * N)) (nh : N) : Prop := mkInv {
  i_sorted : sorted_rec root = true;
  i_root : oid_at root [] = Some 1;                                   (* the root is a bucket with object id 1 *)
  i_uniq : uniq root;                                                 (* non-zero object ids name one path *)
  i_bound : forall p o, oid_at root p = Some o -> o < oids;
  i_del : forall p o, oid_at root p = Some o -> o <> 0 -> mem o del = false;
  i_delbound : forall o, mem o del = true -> o < oids;
  i_h0 : hlookup 0 hs = Some 1;
  i_nh : 0 < nh;
  i_hs : forall p h, plookup p ph = Some h ->
         0 < h < nh /\ exists o, hlookup h hs = Some o /\ o <> 0 /\ oid_at root p = Some o
}.

Definition InvP (st : pstate) : Prop :=
  t_writable (p_tx st) = true /\
  Inv (t_root (p_tx st)) (t_oids (p_tx st)) (t_handles (p_tx st)) (t_deleted (p_tx st)) (p_handles st) (p_nexth st).

(* h is the handle the glue uses for the bucket at path p *)
Definition hfor (ph : list (list bytes * N)) (p : list bytes) (h : N) : Prop :=
  (p = [] /\ h = 0) \/ plookup p ph = Some h.

Lemma mem_cons : forall x o l, mem x (o :: l) = (x =? o) || mem x l.
Proof. reflexivity. Qed.

Lemma plookup_cons : forall p q h l, plookup p ((q, h) :: l) = if path_eqb q p then Some h else plookup p l.
Proof. reflexivity. Qed.

Lemma plookup_filter : forall (f : list bytes -> bool) ph q,
  plookup q (filter (fun x => f (fst x)) ph) = if f q then plookup q ph else None.
Proof.
  induction ph as [|[q0 h0] ph IH]; intros q.
  - cbn. now destruct (f q).
  - cbn [filter fst]. destruct (f q0) eqn:F0.
    + rewrite !plookup_cons. destruct (path_eqb q0 q) eqn:E.
      * apply path_eqb_true in E. subst q0. now rewrite F0.
      * apply IH.
    + rewrite plookup_cons. destruct (path_eqb q0 q) eqn:E.
      * apply path_eqb_true in E. subst q0. rewrite IH. now rewrite F0.
      * apply IH.
Qed.

Lemma Inv_oids_gt1 : forall root oids hs del ph nh, Inv root oids hs del ph nh -> 1 < oids.
Proof. intros root oids hs del ph nh I. eapply (i_bound _ _ _ _ _ _ I). exact (i_root _ _ _ _ _ _ I). Qed.

Lemma Inv_same : forall root oids hs del ph nh root',
  Inv root oids hs del ph nh -> sorted_rec root' = true ->
  (forall q, oid_at root' q = oid_at root q) ->
  Inv root' oids hs del ph nh.
Proof.
  intros root oids hs del ph nh root' I Hs Hq. destruct I as [I1 I2 I3 I4 I5 I6 I7 I8 I9].
  constructor; auto.
  - now rewrite Hq.
  - intros p q o Hp Hq' Ho. rewrite Hq in Hp, Hq'. eapply I3; eauto.
  - intros p o Hp. rewrite Hq in Hp. eauto.
  - intros p o Hp. rewrite Hq in Hp. eauto.
  - intros p h Hp. destruct (I9 _ _ Hp) as [Hh (o & Ho1 & Ho2 & Ho3)]. split; [exact Hh|].
    exists o. rewrite Hq. auto.
Qed.

Lemma Inv_nexth : forall root oids hs del ph nh,
  Inv root oids hs del ph nh -> Inv root oids hs del ph (nh + 1).
Proof.
  intros root oids hs del ph nh I. destruct I as [I1 I2 I3 I4 I5 I6 I7 I8 I9].
  constructor; auto; [lia|].
  intros p h Hp. destruct (I9 _ _ Hp) as [Hh Ho]. split; [lia | exact Ho].
Qed.

Lemma hlookup_cons : forall h h' o l, hlookup h ((h', o) :: l) = if h' =? h then Some o else hlookup h l.
Proof. reflexivity. Qed.

Lemma Inv_reopen : forall root oids hs del ph nh pn o,
  Inv root oids hs del ph nh -> oid_at root pn = Some o -> o <> 0 ->
  Inv root oids ((nh, o) :: hs) del ((pn, nh) :: ph) (nh + 1).
Proof.
  intros root oids hs del ph nh pn o I Hpn Ho. destruct I as [I1 I2 I3 I4 I5 I6 I7 I8 I9].
  constructor; auto.
  - rewrite hlookup_cons. destruct (nh =? 0) eqn:E; [lia | exact I7].
  - lia.
  - intros p h Hp. rewrite plookup_cons in Hp. destruct (path_eqb pn p) eqn:E.
    + apply path_eqb_true in E. subst p. inversion Hp; subst h. split; [lia|].
      exists o. rewrite hlookup_cons, N.eqb_refl. auto.
    + destruct (I9 _ _ Hp) as [Hh (o' & Ho1 & Ho2 & Ho3)]. split; [lia|].
      exists o'. rewrite hlookup_cons. destruct (nh =? h) eqn:E'; [lia | auto].
Qed.

Lemma Inv_new : forall root oids hs del ph nh root' pn,
  Inv root oids hs del ph nh -> sorted_rec root' = true -> pn <> [] ->
  (forall q, oid_at root' q = if path_eqb q pn then Some oids else oid_at root q) ->
  Inv root' (oids + 1) ((nh, oids) :: hs) del ((pn, nh) :: ph) (nh + 1).
Proof.
  intros root oids hs del ph nh root' pn I Hs Hne Hq.
  pose proof (Inv_oids_gt1 _ _ _ _ _ _ I) as Hgt.
  destruct I as [I1 I2 I3 I4 I5 I6 I7 I8 I9].
  constructor; auto.
  - rewrite Hq. destruct (path_eqb [] pn) eqn:E; [|exact I2]. apply path_eqb_true in E. congruence.
  - intros p q o Hp Hq' Ho. rewrite Hq in Hp, Hq'.
    destruct (path_eqb p pn) eqn:Ep; destruct (path_eqb q pn) eqn:Eq.
    + apply path_eqb_true in Ep, Eq. congruence.
    + inversion Hp; subst o. apply I4 in Hq'. lia.
    + inversion Hq'; subst o. apply I4 in Hp. lia.
    + eapply I3; eauto.
  - intros p o Hp. rewrite Hq in Hp. destruct (path_eqb p pn).
    + inversion Hp; subst. lia.
    + apply I4 in Hp. lia.
  - intros p o Hp Ho. rewrite Hq in Hp. destruct (path_eqb p pn).
    + inversion Hp; subst o. destruct (mem oids del) eqn:M; [|reflexivity]. apply I6 in M. lia.
    + eauto.
  - intros o M. apply I6 in M. lia.
  - rewrite hlookup_cons. destruct (nh =? 0) eqn:E; [lia | exact I7].
  - lia.
  - intros p h Hp. rewrite plookup_cons in Hp. destruct (path_eqb pn p) eqn:E.
    + apply path_eqb_true in E. subst p. inversion Hp; subst h. split; [lia|].
      exists oids. rewrite hlookup_cons, N.eqb_refl, Hq, path_eqb_refl. repeat split; auto. lia.
    + destruct (I9 _ _ Hp) as [Hh (o' & Ho1 & Ho2 & Ho3)]. split; [lia|].
      exists o'. rewrite hlookup_cons. destruct (nh =? h) eqn:E'; [lia|].
      rewrite Hq. destruct (path_eqb p pn) eqn:E2.
      * apply path_eqb_true in E2. subst p. rewrite path_eqb_refl in E. discriminate.
      * auto.
Qed.

Lemma Inv_delb : forall root oids hs del ph nh root' pd o,
  Inv root oids hs del ph nh -> sorted_rec root' = true -> pd <> [] ->
  oid_at root pd = Some o ->
  (forall q, oid_at root' q = if is_prefix pd q then None else oid_at root q) ->
  Inv root' oids hs (if o =? 0 then del else o :: del)
      (filter (fun x => negb (is_prefix pd (fst x))) ph) nh.
Proof.
  intros root oids hs del ph nh root' pd o I Hs Hne Hpd Hq.
  destruct I as [I1 I2 I3 I4 I5 I6 I7 I8 I9].
  assert (Hold : forall q o', oid_at root' q = Some o' -> is_prefix pd q = false /\ oid_at root q = Some o').
  { intros q o' H. rewrite Hq in H. destruct (is_prefix pd q); [discriminate | auto]. }
  constructor; auto.
  - rewrite Hq. destruct pd as [|x pd]; [congruence | exact I2].
  - intros p q o' Hp Hq' Ho. apply Hold in Hp, Hq'. eapply I3; [apply Hp | apply Hq' | exact Ho].
  - intros p o' Hp. apply Hold in Hp. eapply I4. apply Hp.
  - intros p o' Hp Ho. apply Hold in Hp. destruct Hp as [Hpre Hp].
    destruct (o =? 0) eqn:E0; [eauto|].
    rewrite mem_cons. rewrite (I5 _ _ Hp Ho), orb_false_r.
    destruct (o' =? o) eqn:E; [|reflexivity]. apply N.eqb_eq in E. subst o'.
    assert (p = pd) by (eapply I3; eauto). subst p.
    assert (is_prefix pd pd = true) by (apply is_prefix_spec; exists []; now rewrite app_nil_r). congruence.
  - intros o' M. destruct (o =? 0) eqn:E0; [eauto|].
    rewrite mem_cons in M. apply orb_true_iff in M. destruct M as [M|M]; [|eauto].
    apply N.eqb_eq in M. subst o'. eauto.
  - intros p h Hp. rewrite (plookup_filter (fun q => negb (is_prefix pd q))) in Hp.
    destruct (is_prefix pd p) eqn:E; cbn [negb] in Hp; [discriminate|].
    destruct (I9 _ _ Hp) as [Hh (o' & Ho1 & Ho2 & Ho3)]. split; [exact Hh|].
    exists o'. rewrite Hq, E. auto.
Qed.

(* ====================================================================== *)
(** * 7. Object ids after the three kinds of bucket update *)

Lemma beq_sym : forall a b, beq a b = beq b a.
Proof.
  intros a b. destruct (beq a b) eqn:E1; destruct (beq b a) eqn:E2; try reflexivity.
  - apply beq_true in E1. subst. rewrite (proj2 (beq_true b b) eq_refl) in E2. discriminate.
  - apply beq_true in E2. subst. rewrite (proj2 (beq_true a a) eq_refl) in E1. discriminate.
Qed.

Lemma path_eqb_app_same : forall p a b, path_eqb (p ++ a) (p ++ b) = path_eqb a b.
Proof. induction p as [|x p IH]; intros a b; [reflexivity|]. cbn [app path_eqb]. now rewrite beq_refl, IH. Qed.

Lemma is_prefix_app_same : forall p a b, is_prefix (p ++ a) (p ++ b) = is_prefix a b.
Proof. induction p as [|x p IH]; intros a b; [reflexivity|]. cbn [app is_prefix]. now rewrite beq_refl, IH. Qed.

Lemma oid_spec_same : forall p root ob xb esb x' es',
  get_at p root = Some (SBucket ob xb esb) ->
  (forall y s, match alookup y es' with Some c => oid_at c s | None => None end
             = match alookup y esb with Some c => oid_at c s | None => None end) ->
  forall q, oid_at (set_at p (SBucket ob x' es') root) q = oid_at root q.
Proof.
  intros p root ob xb esb x' es' H Hyp q. rewrite (oid_at_set_at _ _ _ _ q H).
  destruct (after p q) as [s|] eqn:E; [|reflexivity]. apply after_spec in E. subst q.
  rewrite (oid_at_app _ _ _ s H). destruct s as [|y s]; [reflexivity|].
  rewrite !oid_at_cons. cbn [b_ents]. apply Hyp.
Qed.

Lemma oid_spec_new : forall p root ob xb esb x' nm o' x'' es'',
  get_at p root = Some (SBucket ob xb esb) ->
  (forall y s, oid_at (SBucket o' x'' es'') (y :: s)
               = match alookup nm esb with Some c => oid_at c (y :: s) | None => None end) ->
  forall q, oid_at (set_at p (SBucket ob x' (ainsert nm (SBucket o' x'' es'') esb)) root) q
            = if path_eqb q (p ++ [nm]) then Some o' else oid_at root q.
Proof.
  intros p root ob xb esb x' nm o' x'' es'' H Hyp q. rewrite (oid_at_set_at _ _ _ _ q H).
  destruct (after p q) as [s|] eqn:E.
  - apply after_spec in E. subst q. rewrite (oid_at_app _ _ _ s H), path_eqb_app_same.
    destruct s as [|y s]; [reflexivity|].
    rewrite (oid_at_cons (SBucket ob x' _)), (oid_at_cons (SBucket ob xb esb)). cbn [b_ents].
    rewrite alookup_ainsert. cbn [path_eqb]. destruct (beq y nm) eqn:E1.
    + apply beq_true in E1. subst y. destruct s as [|z s]; [reflexivity|]. cbn [andb path_eqb]. apply Hyp.
    + reflexivity.
  - destruct (path_eqb q (p ++ [nm])) eqn:E2; [|reflexivity].
    apply path_eqb_true in E2. subst q. rewrite after_app in E. discriminate.
Qed.

Lemma oid_spec_delb : forall p root ob xb esb x' nm,
  get_at p root = Some (SBucket ob xb esb) -> sorted_keys (map fst esb) = true ->
  forall q, oid_at (set_at p (SBucket ob x' (aremove nm esb)) root) q
            = if is_prefix (p ++ [nm]) q then None else oid_at root q.
Proof.
  intros p root ob xb esb x' nm H Hs q. rewrite (oid_at_set_at _ _ _ _ q H).
  destruct (after p q) as [s|] eqn:E.
  - apply after_spec in E. subst q. rewrite (oid_at_app _ _ _ s H), is_prefix_app_same.
    destruct s as [|y s]; [reflexivity|].
    rewrite (oid_at_cons (SBucket ob x' _)), (oid_at_cons (SBucket ob xb esb)). cbn [b_ents].
    rewrite (alookup_aremove _ _ _ Hs). cbn [is_prefix]. rewrite (beq_sym nm y), andb_true_r.
    now destruct (beq y nm).
  - destruct (is_prefix (p ++ [nm]) q) eqn:E2; [|reflexivity].
    apply is_prefix_spec in E2. destruct E2 as [s ->]. rewrite <- app_assoc, after_app in E. discriminate.
Qed.

(* ====================================================================== *)
(** * 8. What a handle resolves to *)

Lemma resolve_hfor : forall t ph nh p h,
  Inv (t_root t) (t_oids t) (t_handles t) (t_deleted t) ph nh -> hfor ph p h ->
  exists b, resolve t h = TAt p b /\ get_at p (t_root t) = Some b /\ is_bucket b = true.
Proof.
  intros t ph nh p h I Hh.
  assert (Ho : exists o, hlookup h (t_handles t) = Some o /\ o <> 0 /\ oid_at (t_root t) p = Some o).
  { destruct Hh as [[-> ->]|Hp].
    - exists 1. split; [exact (i_h0 _ _ _ _ _ _ I)|]. split; [lia | exact (i_root _ _ _ _ _ _ I)].
    - destruct (i_hs _ _ _ _ _ _ I _ _ Hp) as [_ Ho]. exact Ho. }
  destruct Ho as (o & Hl & Ho & Hat).
  destruct (oid_at_get _ _ _ Hat) as (b & Hg & Hb & _).
  exists b. unfold resolve. rewrite Hl, (i_del _ _ _ _ _ _ I _ _ Hat Ho).
  rewrite (find_oid_unique _ _ _ (i_sorted _ _ _ _ _ _ I) (i_uniq _ _ _ _ _ _ I) Hat Ho), Hg. auto.
Qed.

Lemma step_goc : forall t h nm nh p b, t_writable t = true -> resolve t h = TAt p b ->
  step_op t (OGoc h nm nh) =
  match alookup nm (b_ents b) with
  | Some (SVal _) => (t, RErr IncompatibleValue)
  | Some c => (open_sub t p b nm c nh, ROk)
  | None =>
      let o' := t_oids t in
      let b' := SBucket (b_oid b) (Spec.b_next b + 1) (ainsert nm (empty_bucket o') (b_ents b)) in
      let t1 := put_bucket t p b' in
      (add_handle (mkTx (t_root t1) (o' + 1) (t_handles t1) (t_deleted t1) (t_writable t1)) nh o', ROk)
  end.
Proof. intros t h nm nh p b Hw Hr. unfold step_op. cbn [is_mutator op_handle]. rewrite Hw, Hr. reflexivity. Qed.

Lemma step_put : forall t h k v p b, t_writable t = true -> resolve t h = TAt p b ->
  step_op t (OPut h k v) =
  match alookup k (b_ents b) with
  | Some (SBucket _ _ _) => (t, RErr IncompatibleValue)
  | Some (SVal old) => (put_bucket t p (SBucket (b_oid b) (Spec.b_next b) (ainsert k (SVal v) (b_ents b))), ROpt (Some (IKv k old)))
  | None => (put_bucket t p (SBucket (b_oid b) (Spec.b_next b + 1) (ainsert k (SVal v) (b_ents b))), ROpt None)
  end.
Proof. intros t h k v p b Hw Hr. unfold step_op. cbn [is_mutator op_handle]. rewrite Hw, Hr. reflexivity. Qed.

Lemma step_del : forall t h k p b, t_writable t = true -> resolve t h = TAt p b ->
  step_op t (ODel h k) =
  match alookup k (b_ents b) with
  | None => (t, RErr KeyValueMissing)
  | Some (SBucket _ _ _) => (t, RErr IncompatibleValue)
  | Some (SVal v) => (put_bucket t p (SBucket (b_oid b) (Spec.b_next b) (aremove k (b_ents b))), ROpt (Some (IKv k v)))
  end.
Proof. intros t h k p b Hw Hr. unfold step_op. cbn [is_mutator op_handle]. rewrite Hw, Hr. reflexivity. Qed.

Lemma step_delb : forall t h nm p b, t_writable t = true -> resolve t h = TAt p b ->
  step_op t (ODelB h nm) =
  match alookup nm (b_ents b) with
  | None => (t, RErr BucketMissing)
  | Some (SVal _) => (t, RErr IncompatibleValue)
  | Some (SBucket o _ _) =>
      let t1 := put_bucket t p (SBucket (b_oid b) (Spec.b_next b) (aremove nm (b_ents b))) in
      (mkTx (t_root t1) (t_oids t1) (t_handles t1) (if o =? 0 then t_deleted t1 else o :: t_deleted t1) (t_writable t1), ROk)
  end.
Proof. intros t h nm p b Hw Hr. unfold step_op. cbn [is_mutator op_handle]. rewrite Hw, Hr. reflexivity. Qed.

(* ====================================================================== *)
(** * 9. One call of the handle machine against the functional semantics *)

Lemma sem_at_exact : forall p root b f b', get_at p root = Some b -> is_bucket b = true ->
  f (strip b) = strip b' -> sem_at p f (strip root) = Some (strip (set_at p b' root)).
Proof.
  intros p root b f b' H Hb E. rewrite <- (app_nil_r p) at 1. eapply sem_at_app_some; eauto. cbn. now f_equal.
Qed.

Lemma sem_at_touch : forall p root b, get_at p root = Some b -> is_bucket b = true ->
  sem_at p (fun b => b) (strip root) = Some (strip root).
Proof.
  intros p root b H Hb. rewrite (sem_at_exact p root b _ b H Hb eq_refl). now rewrite (set_at_same _ _ _ H).
Qed.

Lemma app_nm_ne : forall (p : list bytes) nm, p ++ [nm] <> [].
Proof. intros [|x p] nm; discriminate. Qed.

(* get_or_create_bucket nm on the handle of [prefix] = Touch (prefix ++ [nm]) *)
Lemma goc_sim : forall root oids hs del ph nh prefix h nm,
  Inv root oids hs del ph nh -> hfor ph prefix h ->
  (exists root' oids' hs',
      step_op (mkTx root oids hs del true) (OGoc h nm nh) = (mkTx root' oids' hs' del true, ROk) /\
      Inv root' oids' hs' del ((prefix ++ [nm], nh) :: ph) (nh + 1) /\
      sem_at (prefix ++ [nm]) (fun b => b) (strip root) = Some (strip root'))
  \/ (step_op (mkTx root oids hs del true) (OGoc h nm nh) = (mkTx root oids hs del true, RErr IncompatibleValue) /\
      sem_at (prefix ++ [nm]) (fun b => b) (strip root) = None).
Proof.
  intros root oids hs del ph nh prefix h nm I Hh.
  destruct (resolve_hfor (mkTx root oids hs del true) ph nh prefix h I Hh) as (b & Hr & Hg & Hb).
  cbn [t_root] in Hg. rewrite (step_goc (mkTx root oids hs del true) _ _ _ _ _ eq_refl Hr).
  destruct b as [|ob xb esb]; [discriminate|]. cbn [b_ents b_oid Spec.b_next].
  pose proof (get_at_sorted _ _ _ (i_sorted _ _ _ _ _ _ I) Hg) as Hsb.
  destruct (alookup nm esb) as [[v|oc xc esc]|] eqn:El.
  - right. split; [reflexivity|]. eapply sem_at_app_none; eauto.
    apply sem_at_cons_val with (v := v). rewrite alookup_strip_ents. cbn [b_ents]. now rewrite El.
  - left. assert (Hgc : get_at (prefix ++ [nm]) root = Some (SBucket oc xc esc)).
    { rewrite (get_at_app _ [nm] _ _ Hg). cbn [get_at b_ents]. now rewrite El. }
    unfold open_sub. destruct (oc =? 0) eqn:Eo.
    + exists (set_at prefix (SBucket ob xb (ainsert nm (SBucket oids xc esc) esb)) root), (oids + 1), ((nh, oids) :: hs).
      split; [reflexivity|]. split.
      * apply Inv_new with (root := root); [exact I | | apply app_nm_ne |].
        -- apply (set_at_sorted _ _ _ _ (i_sorted _ _ _ _ _ _ I) Hg). eapply sorted_rec_ainsert; [exact Hsb|].
           exact (sorted_rec_child _ _ _ _ _ Hsb El).
        -- apply (oid_spec_new _ _ _ _ _ _ _ _ _ _ Hg). intros y s. now rewrite El, !oid_at_cons.
      * rewrite (strip_set_at_same prefix root (SBucket ob xb esb)); auto.
        -- eapply sem_at_touch; eauto.
        -- rewrite !strip_bucket, ainsert_strip. f_equal. apply ainsert_same.
           rewrite alookup_strip, El. reflexivity.
    + exists root, oids, ((nh, oc) :: hs). split; [reflexivity|]. split.
      * apply Inv_reopen; [exact I | | ].
        -- now rewrite (get_oid_at _ _ _ Hgc eq_refl).
        -- apply N.eqb_neq in Eo. exact Eo.
      * eapply sem_at_touch; eauto.
  - left. exists (set_at prefix (SBucket ob (xb + 1) (ainsert nm (empty_bucket oids) esb)) root), (oids + 1), ((nh, oids) :: hs).
    split; [reflexivity|]. split.
    + apply Inv_new with (root := root); [exact I | | apply app_nm_ne |].
      * apply (set_at_sorted _ _ _ _ (i_sorted _ _ _ _ _ _ I) Hg). eapply sorted_rec_ainsert; [exact Hsb | reflexivity].
      * apply (oid_spec_new _ _ _ _ _ _ _ _ _ _ Hg). intros y s. now rewrite El, oid_at_cons.
    + eapply sem_at_app_some; eauto.
      rewrite sem_at_cons_none; [|rewrite alookup_strip_ents; cbn [b_ents]; now rewrite El].
      cbn [sem_at]. rewrite !strip_bucket, ainsert_strip. reflexivity.
Qed.

Lemma sem_op_exact : forall o root b b', get_at (op_path o) root = Some b -> is_bucket b = true ->
  op_fun o (strip b) = strip b' -> sem_op o (strip root) = strip (set_at (op_path o) b' root).
Proof. intros o root b b' H Hb E. unfold sem_op. now rewrite (sem_at_exact _ _ _ _ _ H Hb E). Qed.

Lemma put_sim : forall root oids hs del ph nh p h k v,
  Inv root oids hs del ph nh -> hfor ph p h ->
  exists root', fst (step_op (mkTx root oids hs del true) (OPut h k v)) = mkTx root' oids hs del true /\
    Inv root' oids hs del ph nh /\ strip root' = sem_op (Put p k v) (strip root).
Proof.
  intros root oids hs del ph nh p h k v I Hh.
  destruct (resolve_hfor (mkTx root oids hs del true) ph nh p h I Hh) as (b & Hr & Hg & Hb).
  cbn [t_root] in Hg. rewrite (step_put (mkTx root oids hs del true) _ _ _ _ _ eq_refl Hr).
  destruct b as [|ob xb esb]; [discriminate|]. cbn [b_ents b_oid Spec.b_next].
  pose proof (get_at_sorted _ _ _ (i_sorted _ _ _ _ _ _ I) Hg) as Hsb.
  destruct (alookup k esb) as [[old|oc xc esc]|] eqn:El.
  - exists (set_at p (SBucket ob xb (ainsert k (SVal v) esb)) root). split; [reflexivity|]. split.
    + apply Inv_same with (root := root); [exact I | |].
      * apply (set_at_sorted _ _ _ _ (i_sorted _ _ _ _ _ _ I) Hg). eapply sorted_rec_ainsert; [exact Hsb | reflexivity].
      * apply (oid_spec_same _ _ _ _ _ _ _ Hg). intros y s. rewrite alookup_ainsert.
        destruct (beq y k) eqn:E; [|reflexivity]. apply beq_true in E. subst y. now rewrite El, !oid_at_val.
    + symmetry. apply (sem_op_exact (Put p k v) root (SBucket ob xb esb)); auto.
      cbn [op_fun]. unfold sem_put. rewrite alookup_strip_ents. cbn [b_ents]. rewrite El. cbn [option_map]. change (strip (SVal old)) with (SVal old). cbn [option_map].
      unfold set_ents. rewrite !strip_bucket, ainsert_strip. reflexivity.
  - exists root. split; [reflexivity|]. split; [exact I|].
    symmetry. rewrite (sem_op_exact (Put p k v) root (SBucket ob xb esb) (SBucket ob xb esb)); auto.
    + cbn [op_path]. now rewrite (set_at_same _ _ _ Hg).
    + cbn [op_fun]. unfold sem_put. rewrite alookup_strip_ents. cbn [b_ents]. rewrite El. reflexivity.
  - exists (set_at p (SBucket ob (xb + 1) (ainsert k (SVal v) esb)) root). split; [reflexivity|]. split.
    + apply Inv_same with (root := root); [exact I | |].
      * apply (set_at_sorted _ _ _ _ (i_sorted _ _ _ _ _ _ I) Hg). eapply sorted_rec_ainsert; [exact Hsb | reflexivity].
      * apply (oid_spec_same _ _ _ _ _ _ _ Hg). intros y s. rewrite alookup_ainsert.
        destruct (beq y k) eqn:E; [|reflexivity]. apply beq_true in E. subst y. now rewrite El, !oid_at_val.
    + symmetry. apply (sem_op_exact (Put p k v) root (SBucket ob xb esb)); auto.
      cbn [op_fun]. unfold sem_put. rewrite alookup_strip_ents. cbn [b_ents]. rewrite El. cbn [option_map].
      unfold set_ents. rewrite !strip_bucket, ainsert_strip. reflexivity.
Qed.

Lemma del_sim : forall root oids hs del ph nh p h k,
  Inv root oids hs del ph nh -> hfor ph p h ->
  exists root', fst (step_op (mkTx root oids hs del true) (ODel h k)) = mkTx root' oids hs del true /\
    Inv root' oids hs del ph nh /\ strip root' = sem_op (Del p k) (strip root).
Proof.
  intros root oids hs del ph nh p h k I Hh.
  destruct (resolve_hfor (mkTx root oids hs del true) ph nh p h I Hh) as (b & Hr & Hg & Hb).
  cbn [t_root] in Hg. rewrite (step_del (mkTx root oids hs del true) _ _ _ _ eq_refl Hr).
  destruct b as [|ob xb esb]; [discriminate|]. cbn [b_ents b_oid Spec.b_next].
  pose proof (get_at_sorted _ _ _ (i_sorted _ _ _ _ _ _ I) Hg) as Hsb.
  pose proof (proj1 (proj1 (sorted_rec_bucket _ _ _) Hsb)) as Hsk.
  destruct (alookup k esb) as [[old|oc xc esc]|] eqn:El.
  - exists (set_at p (SBucket ob xb (aremove k esb)) root). split; [reflexivity|]. split.
    + apply Inv_same with (root := root); [exact I | |].
      * apply (set_at_sorted _ _ _ _ (i_sorted _ _ _ _ _ _ I) Hg). eapply sorted_rec_aremove; exact Hsb.
      * apply (oid_spec_same _ _ _ _ _ _ _ Hg). intros y s. rewrite (alookup_aremove _ _ _ Hsk).
        destruct (beq y k) eqn:E; [|reflexivity]. apply beq_true in E. subst y. now rewrite El, oid_at_val.
    + symmetry. apply (sem_op_exact (Del p k) root (SBucket ob xb esb)); auto.
      cbn [op_fun]. unfold sem_del. rewrite alookup_strip_ents. cbn [b_ents]. rewrite El. cbn [option_map]. rewrite ?strip_bucket. change (strip (SVal old)) with (SVal old). cbn [option_map].
      unfold set_ents. rewrite ?strip_bucket, aremove_strip. reflexivity.
  - exists root. split; [reflexivity|]. split; [exact I|].
    symmetry. rewrite (sem_op_exact (Del p k) root (SBucket ob xb esb) (SBucket ob xb esb)); auto.
    + cbn [op_path]. now rewrite (set_at_same _ _ _ Hg).
    + cbn [op_fun]. unfold sem_del. rewrite alookup_strip_ents. cbn [b_ents]. rewrite El. reflexivity.
  - exists root. split; [reflexivity|]. split; [exact I|].
    symmetry. rewrite (sem_op_exact (Del p k) root (SBucket ob xb esb) (SBucket ob xb esb)); auto.
    + cbn [op_path]. now rewrite (set_at_same _ _ _ Hg).
    + cbn [op_fun]. unfold sem_del. rewrite alookup_strip_ents. cbn [b_ents]. rewrite El. reflexivity.
Qed.

Lemma delb_sim : forall root oids hs del ph nh p h nm,
  Inv root oids hs del ph nh -> hfor ph p h ->
  (exists root' del',
      step_op (mkTx root oids hs del true) (ODelB h nm) = (mkTx root' oids hs del' true, ROk) /\
      Inv root' oids hs del' (filter (fun x => negb (is_prefix (p ++ [nm]) (fst x))) ph) nh /\
      strip root' = sem_op (DelB p nm) (strip root))
  \/ (exists e, step_op (mkTx root oids hs del true) (ODelB h nm) = (mkTx root oids hs del true, RErr e) /\
      strip root = sem_op (DelB p nm) (strip root)).
Proof.
  intros root oids hs del ph nh p h nm I Hh.
  destruct (resolve_hfor (mkTx root oids hs del true) ph nh p h I Hh) as (b & Hr & Hg & Hb).
  cbn [t_root] in Hg. rewrite (step_delb (mkTx root oids hs del true) _ _ _ _ eq_refl Hr).
  destruct b as [|ob xb esb]; [discriminate|]. cbn [b_ents b_oid Spec.b_next].
  pose proof (get_at_sorted _ _ _ (i_sorted _ _ _ _ _ _ I) Hg) as Hsb.
  pose proof (proj1 (proj1 (sorted_rec_bucket _ _ _) Hsb)) as Hsk.
  destruct (alookup nm esb) as [[old|oc xc esc]|] eqn:El.
  - right. exists IncompatibleValue. split; [reflexivity|].
    rewrite (sem_op_exact (DelB p nm) root (SBucket ob xb esb) (SBucket ob xb esb)); auto.
    + cbn [op_path]. now rewrite (set_at_same _ _ _ Hg).
    + cbn [op_fun]. unfold sem_delb. rewrite alookup_strip_ents. cbn [b_ents]. rewrite El. reflexivity.
  - left. exists (set_at p (SBucket ob xb (aremove nm esb)) root), (if oc =? 0 then del else oc :: del).
    split; [reflexivity|]. split.
    + apply Inv_delb with (root := root); [exact I | | apply app_nm_ne | |].
      * apply (set_at_sorted _ _ _ _ (i_sorted _ _ _ _ _ _ I) Hg). eapply sorted_rec_aremove; exact Hsb.
      * unfold oid_at. rewrite (get_at_app _ [nm] _ _ Hg). cbn [get_at b_ents]. now rewrite El.
      * apply (oid_spec_delb _ _ _ _ _ _ _ Hg Hsk).
    + symmetry. apply (sem_op_exact (DelB p nm) root (SBucket ob xb esb)); auto.
      cbn [op_fun]. unfold sem_delb. rewrite alookup_strip_ents. cbn [b_ents]. rewrite El. cbn [option_map]. rewrite ?strip_bucket. cbn [option_map].
      unfold set_ents. rewrite ?strip_bucket, aremove_strip. reflexivity.
  - right. exists BucketMissing. split; [reflexivity|].
    rewrite (sem_op_exact (DelB p nm) root (SBucket ob xb esb) (SBucket ob xb esb)); auto.
    + cbn [op_path]. now rewrite (set_at_same _ _ _ Hg).
    + cbn [op_fun]. unfold sem_delb. rewrite alookup_strip_ents. cbn [b_ents]. rewrite El. reflexivity.
Qed.

(* ====================================================================== *)
(** * 10. Opening the buckets along a path *)

(* the functional counterpart of open_from: Touch every prefix in turn, stop at the first refusal *)
Fixpoint sem_open (prefix rest : list bytes) (r : snode) : snode * bool :=
  match rest with
  | [] => (r, true)
  | nm :: rest' =>
      match sem_at (prefix ++ [nm]) (fun b => b) r with
      | Some r' => sem_open (prefix ++ [nm]) rest' r'
      | None => (r, false)
      end
  end.

Lemma sem_tx_cons : forall o ops r, sem_tx (o :: ops) r = sem_tx ops (sem_op o r).
Proof. reflexivity. Qed.

Lemma sem_tx_app : forall a b r, sem_tx (a ++ b) r = sem_tx b (sem_tx a r).
Proof. intros a b r. unfold sem_tx. apply fold_left_app. Qed.

Lemma prefixes_ext : forall p acc x, In x (prefixes acc p) -> exists s, x = acc ++ s.
Proof.
  induction p as [|nm p IH]; intros acc x H; [destruct H|].
  cbn [prefixes] in H. destruct H as [<-|H]; [eauto|].
  destruct (IH _ _ H) as [s ->]. rewrite <- app_assoc. eauto.
Qed.

Lemma sem_tx_refused : forall ops q r, sem_at q (fun b => b) r = None ->
  (forall o, In o ops -> exists s, op_path o = q ++ s) -> sem_tx ops r = r.
Proof.
  induction ops as [|o ops IH]; intros q r Hq Hall; [reflexivity|].
  rewrite sem_tx_cons. destruct (Hall o (or_introl eq_refl)) as [s Hs].
  assert (E : sem_op o r = r).
  { unfold sem_op. rewrite Hs. now rewrite (sem_at_none_ext q s _ (op_fun o) r Hq). }
  rewrite E. eapply IH; eauto. intros o' Hin. apply Hall. now right.
Qed.

Lemma sem_open_spec : forall rest prefix r ops,
  (forall o, In o ops -> exists s, op_path o = (prefix ++ rest) ++ s) ->
  sem_tx (map Touch (prefixes prefix rest) ++ ops) r =
  (if snd (sem_open prefix rest r) then sem_tx ops (fst (sem_open prefix rest r)) else fst (sem_open prefix rest r)).
Proof.
  induction rest as [|nm rest IH]; intros prefix r ops Hall; [reflexivity|].
  cbn [prefixes map app sem_open]. rewrite sem_tx_cons. unfold sem_op at 1. cbn [op_path op_fun].
  destruct (sem_at (prefix ++ [nm]) (fun b => b) r) as [r'|] eqn:E.
  - apply IH. intros o Hin. destruct (Hall o Hin) as [s Hs]. exists s. rewrite Hs. now rewrite <- (app_assoc prefix [nm] rest).
  - cbn [fst snd]. apply (sem_tx_refused _ (prefix ++ [nm]) r E).
    intros o Hin. apply in_app_or in Hin. destruct Hin as [Hin|Hin].
    + apply in_map_iff in Hin. destruct Hin as (x & <- & Hx). cbn [op_path]. eapply prefixes_ext; eauto.
    + destruct (Hall o Hin) as [s Hs]. exists (rest ++ s). rewrite Hs. now rewrite <- !app_assoc.
Qed.

Lemma open_from_sim : forall rest st h prefix st' oh,
  InvP st -> hfor (p_handles st) prefix h -> open_from st h prefix rest = (st', oh) ->
  InvP st' /\
  strip (t_root (p_tx st')) = fst (sem_open prefix rest (strip (t_root (p_tx st)))) /\
  match oh with
  | Some h' => hfor (p_handles st') (prefix ++ rest) h' /\ snd (sem_open prefix rest (strip (t_root (p_tx st)))) = true
  | None => snd (sem_open prefix rest (strip (t_root (p_tx st)))) = false
  end.
Proof.
  induction rest as [|nm rest IH]; intros st h prefix st' oh HI Hh Ho.
  - cbn in Ho. inversion Ho; subst. cbn [sem_open fst snd]. rewrite app_nil_r. auto.
  - cbn [open_from] in Ho. destruct (plookup (prefix ++ [nm]) (p_handles st)) as [h'|] eqn:Hpl.
    + destruct HI as [Hw I].
      destruct (i_hs _ _ _ _ _ _ I _ _ Hpl) as [_ (o & _ & _ & Hat)].
      destruct (oid_at_get _ _ _ Hat) as (b & Hg & Hb & _).
      cbn [sem_open]. rewrite (sem_at_touch _ _ _ Hg Hb).
      specialize (IH _ _ _ _ _ (conj Hw I) (or_intror Hpl) Ho). rewrite <- app_assoc in IH. exact IH.
    + destruct st as [[root oids hs del w] ph nh log]. destruct HI as [Hw I].
      cbn [p_tx p_handles p_nexth p_log t_root t_oids t_handles t_deleted t_writable] in *. subst w.
      destruct (goc_sim root oids hs del ph nh prefix h nm I Hh)
        as [(root' & oids' & hs' & Hstep & I' & Hsem)|[Hstep Hsem]]; rewrite Hstep in Ho.
      * assert (Hh' : hfor ((prefix ++ [nm], nh) :: ph) (prefix ++ [nm]) nh).
        { right. now rewrite plookup_cons, path_eqb_refl. }
        specialize (IH _ _ _ _ _ (conj eq_refl I' : InvP (mkP (mkTx root' oids' hs' del true) _ (nh + 1) _)) Hh' Ho).
        cbn [p_tx t_root] in IH. cbn [sem_open]. rewrite Hsem. rewrite <- app_assoc in IH. exact IH.
      * inversion Ho; subst. cbn [sem_open]. rewrite Hsem. cbn [fst snd p_tx t_root].
        split; [|auto]. split; [reflexivity|]. cbn [p_tx p_handles p_nexth t_root t_oids t_handles t_deleted].
        now apply Inv_nexth.
Qed.

(* ====================================================================== *)
(** * 11. One path-addressed operation; the theorem *)

Lemma path_step_sim : forall st o, InvP st ->
  InvP (path_step st o) /\
  strip (t_root (p_tx (path_step st o))) = sem_tx (expand o) (strip (t_root (p_tx st))).
Proof.
  intros st o HI. unfold path_step, expand.
  destruct (open_from st 0 [] (op_path o)) as [st1 oh] eqn:Ho.
  destruct (open_from_sim _ _ _ _ _ _ HI (or_introl (conj eq_refl eq_refl)) Ho) as (HI1 & Hr1 & Hoh).
  rewrite (sem_open_spec (op_path o) [] _ [o]).
  2:{ intros o' [<-|[]]. exists []. now rewrite app_nil_r. }
  cbn [app] in Hoh. destruct oh as [h|].
  - destruct Hoh as [Hh Hok]. rewrite Hok, <- Hr1. clear Hok Hr1 Ho HI.
    change (sem_tx [o] (strip (t_root (p_tx st1)))) with (sem_op o (strip (t_root (p_tx st1)))).
    destruct st1 as [[root oids hs del w] ph nh log]. destruct HI1 as [Hw I].
    cbn [p_tx p_handles p_nexth p_log t_root t_oids t_handles t_deleted t_writable] in *. subst w.
    destruct o as [p k v|p k|p nm|p]; cbn [op_path] in Hh.
    + destruct (put_sim root oids hs del ph nh p h k v I Hh) as (root' & Hstep & I' & Hsem).
      unfold call. cbn [p_tx]. destruct (step_op _ (OPut h k v)) as [t' r]. cbn [fst] in *. subst t'.
      split; [split; [reflexivity | exact I'] | exact Hsem].
    + destruct (del_sim root oids hs del ph nh p h k I Hh) as (root' & Hstep & I' & Hsem).
      unfold call. cbn [p_tx]. destruct (step_op _ (ODel h k)) as [t' r]. cbn [fst] in *. subst t'.
      split; [split; [reflexivity | exact I'] | exact Hsem].
    + unfold call. cbn [p_tx p_handles p_nexth p_log].
      destruct (delb_sim root oids hs del ph nh p h nm I Hh)
        as [(root' & del' & Hstep & I' & Hsem)|(e & Hstep & Hsem)]; rewrite Hstep.
      * split; [split; [reflexivity | exact I'] | exact Hsem].
      * split; [split; [reflexivity | exact I] | exact Hsem].
    + split; [split; [reflexivity | exact I]|].
      destruct (resolve_hfor (mkTx root oids hs del true) ph nh p h I Hh) as (b & _ & Hg & Hb).
      cbn [t_root] in Hg. unfold sem_op. cbn [op_path op_fun]. now rewrite (sem_at_touch _ _ _ Hg Hb).
  - rewrite Hoh. split; [exact HI1 | exact Hr1].
Qed.

Lemma oid_at_stripped : forall n p o, oid_at (strip n) p = Some o -> o = 0.
Proof.
  intros n p. revert n. induction p as [|k p IH]; intros n o H.
  - destruct n; [discriminate|]. now inversion H.
  - rewrite oid_at_cons, alookup_strip_ents in H. destruct (alookup k (b_ents n)) as [c|]; [|discriminate].
    cbn [option_map] in H. eauto.
Qed.

Lemma pinit_inv : forall c, wf c -> InvP (pinit c) /\ strip (t_root (p_tx (pinit c))) = strip c.
Proof.
  intros c [Hb Hs]. unfold pinit, begin_tx. destruct c as [v|o x es]; [discriminate|].
  rewrite strip_bucket. cbn [p_tx t_root]. split.
  - split; [reflexivity|]. cbn [p_tx p_handles p_nexth t_root t_oids t_handles t_deleted].
    assert (Hsub : forall p o', p <> [] -> oid_at (SBucket 1 x (map sf es)) p = Some o' -> o' = 0).
    { intros [|k p] o' Hne H; [congruence|]. rewrite oid_at_cons in H. cbn [b_ents] in H.
      change (map sf es) with (b_ents (strip (SBucket o x es))) in H. rewrite <- oid_at_cons in H.
      eapply oid_at_stripped; eauto. }
    constructor.
    + rewrite <- (sorted_rec_strip (SBucket o x es)) in Hs. exact Hs.
    + reflexivity.
    + intros p q o1 Hp Hq Ho1. destruct p as [|kp p]; destruct q as [|kq q]; [reflexivity| | |].
      * apply Hsub in Hq; [|discriminate]. inversion Hp. lia.
      * apply Hsub in Hp; [|discriminate]. inversion Hq. lia.
      * apply Hsub in Hp; [|discriminate]. contradiction.
    + intros [|k p] o1 H; [inversion H; lia|]. apply Hsub in H; [lia | discriminate].
    + reflexivity.
    + discriminate.
    + reflexivity.
    + lia.
    + discriminate.
  - rewrite !strip_bucket. f_equal. rewrite map_map. apply map_ext. intros [k n]. unfold sf. cbn [fst snd].
    now rewrite strip_idem.
Qed.

Lemma path_steps_sim : forall ops st, InvP st ->
  InvP (fold_left path_step ops st) /\
  strip (t_root (p_tx (fold_left path_step ops st))) = sem_tx (flat_map expand ops) (strip (t_root (p_tx st))).
Proof.
  induction ops as [|o ops IH]; intros st HI; [split; [exact HI | reflexivity]|].
  cbn [fold_left flat_map]. destruct (path_step_sim st o HI) as [HI1 Hr1].
  destruct (IH _ HI1) as [HI2 Hr2]. split; [exact HI2|].
  now rewrite Hr2, Hr1, sem_tx_app.
Qed.

Theorem path_machine : path_machine_stmt wf.
Proof.
  intros c ops Hwf. destruct (pinit_inv c Hwf) as [HI Hr].
  destruct (path_steps_sim ops _ HI) as [_ H]. now rewrite H, Hr.
Qed.

(* ====================================================================== *)
(** * 12. wf is preserved by the functional semantics; chaining transactions *)

Lemma set_ents_wf : forall r nx k c, wf r -> sorted_rec c = true ->
  wf (set_ents r nx (ainsert k c (b_ents r))).
Proof.
  intros [v|o x es] nx k c [Hb Hs] Hc; [discriminate|]. split; [reflexivity|].
  unfold set_ents. cbn [b_oid b_ents]. eapply sorted_rec_ainsert; eauto.
Qed.

Lemma sem_at_wf : forall p f r r', (forall b, wf b -> wf (f b)) ->
  wf r -> sem_at p f r = Some r' -> wf r'.
Proof.
  induction p as [|k p IH]; intros f r r' Hf Hr H.
  - cbn in H. inversion H; subst. now apply Hf.
  - cbn [sem_at] in H. destruct (alookup k (b_ents r)) as [[v|o x es]|] eqn:El; [discriminate| |].
    + destruct (sem_at p f (SBucket o x es)) as [c'|] eqn:E; [|discriminate]. inversion H; subst.
      assert (Hc : wf (SBucket o x es)).
      { split; [reflexivity|]. destruct r as [v|o' x' es']; [discriminate|]. destruct Hr as [_ Hs].
        eapply sorted_rec_child; eauto. }
      apply set_ents_wf; [exact Hr|]. exact (proj2 (IH _ _ _ Hf Hc E)).
    + destruct (sem_at p f (SBucket 0 0 [])) as [c'|] eqn:E; [|discriminate]. inversion H; subst.
      apply set_ents_wf; [exact Hr|]. refine (proj2 (IH _ _ _ Hf _ E)). split; reflexivity.
Qed.

Lemma op_fun_wf : forall o b, wf b -> wf (op_fun o b).
Proof.
  intros o [v|ob xb esb] Hw; [destruct Hw; discriminate|].
  destruct o as [p k v|p k|p nm|p]; cbn [op_fun]; [| | |exact Hw].
  - unfold sem_put. cbn [b_ents]. destruct (alookup k esb) as [[old|? ? ?]|]; [|exact Hw|];
      (apply set_ents_wf; [exact Hw | reflexivity]).
  - unfold sem_del. cbn [b_ents]. destruct (alookup k esb) as [[old|? ? ?]|]; [|exact Hw|exact Hw].
    split; [reflexivity|]. unfold set_ents. cbn [b_oid]. eapply sorted_rec_aremove. exact (proj2 Hw).
  - unfold sem_delb. cbn [b_ents]. destruct (alookup nm esb) as [[old|? ? ?]|]; [exact Hw| |exact Hw].
    split; [reflexivity|]. unfold set_ents. cbn [b_oid]. eapply sorted_rec_aremove. exact (proj2 Hw).
Qed.

Theorem wf_sem_op : forall o c, wf c -> wf (sem_op o c).
Proof.
  intros o c Hw. unfold sem_op. destruct (sem_at (op_path o) (op_fun o) c) as [r|] eqn:E; [|exact Hw].
  eapply sem_at_wf; [|exact Hw|exact E]. apply op_fun_wf.
Qed.

Theorem wf_sem_tx : forall ops c, wf c -> wf (sem_tx ops c).
Proof.
  induction ops as [|o ops IH]; intros c Hw; [exact Hw|]. rewrite sem_tx_cons. apply IH. now apply wf_sem_op.
Qed.

(* what a committed path-driven transaction leaves (Spec.step CCommit stores strip (t_root x)) *)
Definition commit_path (c : snode) (ops : list Engine.op) : snode :=
  strip (t_root (p_tx (fold_left path_step ops (pinit c)))).

Theorem commit_path_wf : forall c ops, wf c -> wf (commit_path c ops).
Proof.
  intros c ops Hw. unfold commit_path. rewrite (path_machine c ops Hw). apply wf_sem_tx. now apply wf_strip.
Qed.

(* any number of transactions in sequence *)
Theorem path_machine_chain : forall txs c, wf c ->
  wf (fold_left commit_path txs c) /\
  strip (fold_left commit_path txs c) = fold_left (fun r ops => sem_tx (flat_map expand ops) r) txs (strip c).
Proof.
  induction txs as [|ops txs IH]; intros c Hw; [split; [exact Hw | reflexivity]|].
  cbn [fold_left]. destruct (IH _ (commit_path_wf c ops Hw)) as [Hw' E]. split; [exact Hw'|].
  rewrite E. f_equal. unfold commit_path. rewrite strip_idem. now apply path_machine.
Qed.

(* ====================================================================== *)
(** * 13. The Touch prefixes of [expand] are redundant for the functional semantics (no hypothesis on the map) *)

Lemma ainsert_ainsert : forall {A} (l : list (bytes * A)) k a b, ainsert k a (ainsert k b l) = ainsert k a l.
Proof.
  intros A. induction l as [|[k0 v0] l IH]; intros k a b.
  - cbn [ainsert]. now rewrite bcmp_refl.
  - cbn [ainsert]. destruct (bcmp k k0) eqn:E; cbn [ainsert]; rewrite ?bcmp_refl, ?E; [reflexivity | reflexivity|].
    now rewrite IH.
Qed.

Lemma sem_at_fresh_some : forall p f, sem_at p f (SBucket 0 0 []) <> None.
Proof.
  induction p as [|k p IH]; intros f; [discriminate|].
  cbn [sem_at b_ents alookup]. destruct (sem_at p f (SBucket 0 0 [])) eqn:E; [discriminate|]. now apply IH in E.
Qed.

Lemma sem_at_touch_bucket : forall p c c1, is_bucket c = true -> sem_at p (fun b => b) c = Some c1 -> is_bucket c1 = true.
Proof.
  intros [|k p] c c1 Hc H.
  - cbn in H. now inversion H; subst.
  - cbn [sem_at] in H. destruct (alookup k (b_ents c)) as [[v|o x es]|]; [discriminate| |].
    + destruct (sem_at p _ (SBucket o x es)); inversion H; reflexivity.
    + destruct (sem_at p _ (SBucket 0 0 [])); inversion H; reflexivity.
Qed.

Lemma set_ents_same : forall r k c, alookup k (b_ents r) = Some c -> set_ents r (Spec.b_next r) (ainsert k c (b_ents r)) = r.
Proof.
  intros [v|o x es] k c H; [discriminate|]. unfold set_ents. cbn [b_oid Spec.b_next b_ents] in *.
  now rewrite (ainsert_same _ _ _ H).
Qed.

Lemma touch_then : forall p q f r r1, sem_at p (fun b => b) r = Some r1 ->
  sem_at (p ++ q) f r1 = sem_at (p ++ q) f r /\ (sem_at (p ++ q) f r = None -> r1 = r).
Proof.
  induction p as [|k p IH]; intros q f r r1 H.
  - cbn in H. inversion H; subst. auto.
  - cbn [sem_at] in H. cbn [app]. destruct (alookup k (b_ents r)) as [[v|o x es]|] eqn:El; [discriminate| |].
    + destruct (sem_at p (fun b => b) (SBucket o x es)) as [c1|] eqn:E; [|discriminate]. inversion H; subst r1. clear H.
      destruct (IH q f _ _ E) as [IH1 IH2].
      pose proof (sem_at_touch_bucket p (SBucket o x es) c1 eq_refl E) as Hc1.
      rewrite (sem_at_cons_bucket k (p ++ q) f r (SBucket o x es) El eq_refl).
      rewrite (sem_at_cons_bucket k (p ++ q) f _ c1); [| |exact Hc1].
      2:{ unfold set_ents. cbn [b_ents]. rewrite alookup_ainsert. now rewrite beq_refl. }
      rewrite IH1. destruct (sem_at (p ++ q) f (SBucket o x es)) as [c'|] eqn:E2.
      * split; [|discriminate]. unfold set_ents. cbn [b_oid Spec.b_next b_ents]. now rewrite ainsert_ainsert.
      * split; [reflexivity|]. intros _. rewrite (IH2 eq_refl). now apply set_ents_same.
    + destruct (sem_at p (fun b => b) (SBucket 0 0 [])) as [c1|] eqn:E; [|discriminate]. inversion H; subst r1. clear H.
      destruct (IH q f _ _ E) as [IH1 IH2].
      pose proof (sem_at_touch_bucket p (SBucket 0 0 []) c1 eq_refl E) as Hc1.
      rewrite (sem_at_cons_none k (p ++ q) f r El).
      rewrite (sem_at_cons_bucket k (p ++ q) f _ c1); [| |exact Hc1].
      2:{ unfold set_ents. cbn [b_ents]. rewrite alookup_ainsert. now rewrite beq_refl. }
      rewrite IH1. destruct (sem_at (p ++ q) f (SBucket 0 0 [])) as [c'|] eqn:E2.
      * split; [|discriminate]. unfold set_ents. cbn [b_oid Spec.b_next b_ents]. now rewrite ainsert_ainsert.
      * exfalso. eapply sem_at_fresh_some; eauto.
Qed.

Lemma sem_op_after_touch : forall o p q r, op_path o = p ++ q -> sem_op o (sem_op (Touch p) r) = sem_op o r.
Proof.
  intros o p q r Hp. unfold sem_op at 2. cbn [op_path op_fun].
  destruct (sem_at p (fun b => b) r) as [r1|] eqn:E; [|reflexivity].
  destruct (touch_then p q (op_fun o) r r1 E) as [H1 H2].
  unfold sem_op. rewrite Hp, H1. destruct (sem_at (p ++ q) (op_fun o) r); [reflexivity | now apply H2].
Qed.

Lemma sem_tx_expand_from : forall o rest acc r, op_path o = acc ++ rest ->
  sem_tx (map Touch (prefixes acc rest) ++ [o]) r = sem_op o r.
Proof.
  intros o. induction rest as [|nm rest IH]; intros acc r Hp; [reflexivity|].
  cbn [prefixes map app]. rewrite sem_tx_cons.
  rewrite (IH (acc ++ [nm])); [|now rewrite <- app_assoc].
  apply sem_op_after_touch with (q := rest). now rewrite <- app_assoc.
Qed.

Theorem sem_tx_expand : forall ops r, sem_tx (flat_map expand ops) r = sem_tx ops r.
Proof.
  induction ops as [|o ops IH]; intros r; [reflexivity|].
  cbn [flat_map]. rewrite sem_tx_app, sem_tx_cons, IH. f_equal.
  unfold expand. now apply sem_tx_expand_from.
Qed.

(* the handle machine against the plain functional semantics of the same operations *)
Theorem path_machine_plain : forall c ops, wf c ->
  strip (t_root (p_tx (fold_left path_step ops (pinit c)))) = sem_tx ops (strip c).
Proof. intros c ops Hw. rewrite (path_machine c ops Hw). apply sem_tx_expand. Qed.

(* ====================================================================== *)
(** * 14. Concrete instances (vm_compute), and why wf asks for a bucket at the root *)

Module Examples.
  Definition ka : bytes := [x61]. Definition kb : bytes := [x62]. Definition kc : bytes := [x63].
  Definition kd : bytes := [x64]. Definition ke : bytes := [x65]. Definition kx : bytes := [x78].
  Definition ky : bytes := [x79].
  Definition v1 : bytes := [x01]. Definition v2 : bytes := [x02; x02].

  Definition ops1 : list Engine.op :=
    [ Put [ka; kb; kc] kx v1;            (* three buckets deep, all created on the way *)
      Put [ka] kx v2;                    (* x is a plain value in a ... *)
      Put [kd; kx] ky v1;                (* ... and a bucket in d *)
      Put [ka; kx; ky] kc v1;            (* refused path: a/x is a value *)
      Touch [ka; kx];                    (* refused as well *)
      DelB [ka] kb;                      (* delete a/b (with a/b/c below it; their handles die) *)
      Put [ka; kb] ky v2;                (* a/b created again: a fresh object *)
      Del [ka; kb; kc] kx;               (* a/b/c created again; the key is gone: KeyValueMissing *)
      Del [kd; kx] ky;
      DelB [] ke;                        (* BucketMissing *)
      DelB [ka] kx;                      (* IncompatibleValue *)
      Put [] kd v1;                      (* IncompatibleValue: d is a bucket *)
      Touch [ke; kd; kc; kb];
      DelB [ke; kd] kc;
      Put [ke; kd; kc] ka v1 ].

  Definition c0 : snode := SBucket 0 0 [].
  Definition c1 : snode :=
    SBucket 0 3
      [(ka, SBucket 0 3 [(kb, SBucket 0 2 [(kc, SBucket 0 0 []); (ky, SVal v2)]); (kx, SVal v2)]);
       (kd, SBucket 0 1 [(kx, SBucket 0 1 [])]);
       (ke, SBucket 0 1 [(kd, SBucket 0 2 [(kc, SBucket 0 1 [(ka, SVal v1)])])])].

  Example ex1_machine : commit_path c0 ops1 = c1.
  Proof. vm_compute. reflexivity. Qed.
  Example ex1_sem : sem_tx (flat_map expand ops1) (strip c0) = c1.
  Proof. vm_compute. reflexivity. Qed.
  Example ex1_sem_plain : sem_tx ops1 (strip c0) = c1.
  Proof. vm_compute. reflexivity. Qed.
  Example ex1_wf : wf c0 /\ wf c1.
  Proof. repeat split. Qed.

  (* a second transaction on the committed result of the first; object ids in the input are ignored *)
  Definition ops2 : list Engine.op :=
    [ DelB [ke; kd] kc; Put [ke; kd; kc; kc] kc v2; DelB [] ka; Put [ka] kx v1; Put [ka; kx] kx v1;
      Touch [kd; kx; ky]; DelB [kd] kx; Put [kd] kx v2; Touch [kd; kx; ky]; Del [ka] kx; Touch [ka; kx] ].
  Definition c1' : snode :=      (* c1 with junk object ids *)
    SBucket 7 3
      [(ka, SBucket 7 3 [(kb, SBucket 3 2 [(kc, SBucket 1 0 []); (ky, SVal v2)]); (kx, SVal v2)]);
       (kd, SBucket 0 1 [(kx, SBucket 2 1 [])]);
       (ke, SBucket 1 1 [(kd, SBucket 1 2 [(kc, SBucket 9 1 [(ka, SVal v1)])])])].
  Example ex2 : commit_path c1' ops2 = sem_tx (flat_map expand ops2) (strip c1')
                /\ commit_path c1' ops2 <> c1 /\ commit_path c1' ops2 = commit_path c1 ops2.
  Proof. vm_compute. repeat split. discriminate. Qed.
  Example ex_chain : fold_left commit_path [ops1; ops2; ops1] c0
                     = fold_left (fun r ops => sem_tx ops r) [ops1; ops2; ops1] c0.
  Proof. vm_compute. reflexivity. Qed.

  (* the statement fails when the committed root is not a bucket: the handle machine finds no object 1 (every call
     is an orphan), while sem_at treats the value as an empty bucket. Spec.v never commits such a root (init_sdb is
     a bucket and t_root stays one), so this is a missing side condition of the statement, not a defect. *)
  Example root_must_be_a_bucket : ~ path_machine_stmt (fun _ => True).
  Proof. intros H. specialize (H (SVal v1) [Put [] ka v1] I). vm_compute in H. discriminate. Qed.
End Examples.

Print Assumptions path_machine.
Print Assumptions path_machine_plain.
Print Assumptions path_machine_chain.
Print Assumptions wf_sem_tx.
Print Assumptions wf_strip.
Print Assumptions sem_tx_expand.
Print Assumptions Examples.root_must_be_a_bucket.
