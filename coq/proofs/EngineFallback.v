(* FALLBACK TO THE PREVIOUS HEADER, END TO END (property C12 together with copy-on-write).

   [commit_image pad P F st st' w] is the file after the commit that leads from st to st' with write set w, as an
   UPDATE of the previous file F: the page runs of w, the new free-list run and the new header (slot d_tx st' mod 2)
   are spliced into F (extended with zeros when the file grows); every other byte is a byte of F.

   [holds pad P G st] : the bytes G contain the state st -- the encoding of every reachable tree page, the free-list
   page run, and a header slot [d_tx st mod 2] that reads back as [meta_of P st].

   1. [commit_holds_new]  : the commit image of a file that holds st holds st'.
      [commit_holds_old]  : ... and STILL holds st (copy-on-write, free-list run included).
   2. [open_holds]        : [Tree.open_db] on a file that holds st whose other slot is invalid or older returns
                            st's header, free ids and free-list run.    [inv_check_holds] : the checker accepts it.
   3. [fallback_open], [fallback_damage], [fallback_reads], [fallback_inv_check] : overwrite / damage the current
      header page of the commit image: open_db returns the PREVIOUS header, the previous contents read back, and
      the file checker accepts the previous state. *)
From Coq Require Import List NArith Bool Arith Lia ZifyN ZifyNat ZifyBool Permutation Sorted.
From Coq.Strings Require Import Byte.
From Jamm Require Spec Tree Cursor Codec CodecFacts BytesFacts Meta MetaFacts OldMeta CheckM CheckFacts Consts.
From Jamm Require Import Bytes.
From Jamm Require Import Engine EngineAbs EngineFacts EngineSpillFacts EngineModifyFacts EngineBridgeFacts EngineRebalanceFacts.
From Jamm Require Import EnginePathFacts EngineTxInvFacts EngineRefines EngineOwnDefs EngineOwnSpill EngineAllocInv EngineCow.
From Jamm Require Import EngineDepth EngineSpillDepth EngineReadBridge EngineReadFull.
From Jamm Require Import EngineNoLeakDefs EngineNoLeak EngineReopen EngineFileImage.
Import ListNotations.
Local Open Scope list_scope. Local Open Scope N_scope.
Set Warnings "-abstract-large-number".
Arguments N.add : simpl never. Arguments N.sub : simpl never. Arguments N.mul : simpl never.
Arguments N.div : simpl never. Arguments N.ltb : simpl never. Arguments N.leb : simpl never.
Arguments N.eqb : simpl never. Arguments N.modulo : simpl never. Arguments N.pow : simpl never.

Import BytesLevel.

(* ====================================================================== *)
(** * 0. Intervals and slices *)

(* two non-empty page intervals without a common page are apart *)
Lemma intervals_apart : forall a n b m, 0 < n -> 0 < m ->
  (forall x, a <= x < a + n -> b <= x < b + m -> False) -> a + n <= b \/ b + m <= a.
Proof.
  intros a n b m Hn Hm H. pose proof (H a) as Ha. pose proof (H b) as Hb.
  destruct (N.le_gt_cases a b) as [L|L].
  - left. apply N.le_ngt. intros C. apply Hb; lia.
  - right. apply N.le_ngt. intros C. apply Ha; lia.
Qed.

(* byte ranges of apart page intervals are apart *)
Lemma bytes_apart : forall P a n b m o l len, o + l <= n * P -> len <= m * P ->
  a + n <= b \/ b + m <= a ->
  (a * P + o) + l <= b * P \/ b * P + len <= a * P + o.
Proof. intros P a n b m o l len H1 H2 [H|H]; [left | right]; nia. Qed.

Lemma slice_app_l : forall (F Z : bytes) off l, (N.to_nat off + N.to_nat l <= List.length F)%nat ->
  slice (F ++ Z) off l = slice F off l.
Proof.
  intros F Z off l H. rewrite BytesFacts.slice_some by (rewrite app_length; lia).
  rewrite BytesFacts.slice_some by lia. f_equal. apply BytesFacts.nth_error_ext'. intros i.
  rewrite !BytesFacts.nth_error_firstn'. destruct (Nat.ltb_spec i (N.to_nat l)) as [L|L]; [|reflexivity].
  rewrite !BytesFacts.nth_error_skipn'. apply nth_error_app1. lia.
Qed.

(* [image] away from the pages it writes *)
Lemma image_frame : forall pad P d R z off l,
  (forall p a, In p R -> dget d p = Some a ->
     (N.to_nat (p * P) + List.length (page_bytes pad p a) <= List.length z)%nat /\
     (off + l <= p * P \/ p * P + blen (page_bytes pad p a) <= off)) ->
  List.length (image pad P d R z) = List.length z /\ slice (image pad P d R z) off l = slice z off l.
Proof.
  intros pad P d R z off l. induction R as [|q R IH]; intros H; [split; reflexivity|].
  cbn [image fold_right]. fold (image pad P d R z).
  destruct (IH (fun p a Hp => H p a (or_intror Hp))) as [IHlen IHs].
  destruct (dget d q) as [aq|] eqn:Hq; [|split; assumption].
  destruct (H q aq (or_introl eq_refl) Hq) as [Hfit Hap].
  split.
  - rewrite BytesFacts.splice_length by (rewrite IHlen; exact Hfit). exact IHlen.
  - rewrite BytesFacts.slice_splice_other; [exact IHs | rewrite IHlen; exact Hfit | exact Hap].
Qed.

Lemma wr_get_in : forall w q, In q (map fst w) -> exists v, wr_get w q = Some v.
Proof.
  intros w q H. unfold wr_get. destruct (find (fun x => fst x =? q) w) as [e|] eqn:E; [exists (snd e); reflexivity|].
  exfalso. apply in_map_iff in H. destruct H as (e & He & Hin).
  pose proof (find_none _ _ E e Hin) as Hn. cbn beta in Hn. rewrite He, N.eqb_refl in Hn. discriminate.
Qed.

(* ====================================================================== *)
(** * 1. A file that holds a state; the file after a commit *)

(* the bytes G contain the state st: its tree pages, its free-list page run, and a header in slot [d_tx st mod 2]
   that the reader decodes as [meta_of P st].  Nothing is said about the rest of G (the other slot, free pages). *)
Record holds (pad : N -> byte) (P : N) (G : bytes) (st : db) : Prop := {
  h_tree : file_encodes pad (Codec.reader_of G) P (d_disk st) (Rof st);
  h_fl : CodecFacts.reads_buffer (Codec.reader_of G) (d_fl st * P) (fl_bytes pad st);
  h_hdr : Meta.read_slot true (Tree.read_header_page (Codec.reader_of G) P (slot_of st)) = Meta.SlotValid (meta_of P st) }.

(* the head pages of a write set, each once *)
Definition wheads (w : list (N * (N * ndata))) : list N := nodup N.eq_dec (map fst w).

(* THE FILE AFTER THE COMMIT st -> st' with write set w, as an update of the previous file F *)
Definition commit_image (pad : N -> byte) (P : N) (F : bytes) (st st' : db) (w : list (N * (N * ndata))) : bytes :=
  let Z := F ++ zeros (N.to_nat ((d_np st' - d_np st) * P)) in
  let T := image pad P (d_disk st') (wheads w) Z in
  splice (splice T (d_fl st' * P) (fl_bytes pad st')) (slot_of st' * P) (meta_page P st').

(* every page of the write set respects the physical limits (decidable; for the pages of the write set that are
   reachable in st' this is [tree_fits P st']) *)
Definition writes_fit (P : N) (st : db) (w : list (N * (N * ndata))) : Prop :=
  forall q v, wr_get w q = Some v -> page_fits P q (mk_apage (d_psz st) v).

(* the file image of EngineFileImage holds its state *)
Theorem file_image_holds : forall st pad P other, db_okz st -> 0 < P -> tree_fits P st -> phys_ok P st ->
  List.length other = N.to_nat P ->
  holds pad P (file_image pad P st other) st /\ List.length (file_image pad P st other) = N.to_nat (d_np st * P).
Proof.
  intros st pad P other Hok HP Hfit Hph Hlen. split; [constructor|].
  - now apply image_encodes_tree.
  - now apply image_reads_fl.
  - rewrite (image_hdr_slot st pad P other Hok HP Hfit Hph Hlen). exact (image_slot_valid st P other Hok HP Hph Hlen).
  - now apply image_length.
Qed.

Lemma slot_of_lt : forall st, slot_of st < 2.
Proof. intros st. unfold slot_of. apply N.mod_lt. lia. Qed.

Section Commit.
Variables (pad : N -> byte) (P : N) (F : bytes) (st st' : db) (w : list (N * (N * ndata))).
Hypothesis HP : 0 < P.
Hypothesis Hok : db_okz st.
Hypothesis Hok' : db_okz st'.
Hypothesis Hph : phys_ok P st.
Hypothesis Hph' : phys_ok P st'.
Hypothesis HC : tx_cow st st' w.
Hypothesis Hwf : writes_fit P st w.
Hypothesis HlenF : List.length F = N.to_nat (d_np st * P).

Let Z := F ++ zeros (N.to_nat ((d_np st' - d_np st) * P)).
Let T := image pad P (d_disk st') (wheads w) Z.
Let T1 := splice T (d_fl st' * P) (fl_bytes pad st').
Let C := commit_image pad P F st st' w.
Let LF := okz_layout st Hok.
Let LF' := okz_layout st' Hok'.

Lemma Z_length : List.length Z = N.to_nat (d_np st' * P).
Proof. unfold Z. rewrite app_length, BytesFacts.zeros_length, HlenF. pose proof (tc_np _ _ _ HC). nia. Qed.

(* a head of the write set: its page on the new disk, its run *)
Lemma whead_page : forall q, In q (wheads w) -> exists v, wr_get w q = Some v /\
  dget (d_disk st') q = Some (mk_apage (d_psz st) v) /\ prun (d_disk st') q = wrun (d_psz st) q v.
Proof.
  intros q Hq. unfold wheads in Hq. apply nodup_In in Hq. destruct (wr_get_in w q Hq) as [v Hv]. exists v.
  split; [exact Hv|]. rewrite (tc_disk _ _ _ HC). split; [now apply dget_apply_wr_some | now apply prun_written].
Qed.

Lemma whead_fits : forall p a, In p (wheads w) -> dget (d_disk st') p = Some a -> page_fits P p a.
Proof.
  intros p a Hp Hg. destruct (whead_page p Hp) as (v & Hv & Hd & _). rewrite Hd in Hg. inversion Hg; subst a. now apply Hwf.
Qed.

Lemma whead_written : forall p a x, In p (wheads w) -> dget (d_disk st') p = Some a -> p <= x < p + (ap_over a + 1) ->
  In x (wr_pages (d_psz st) w).
Proof.
  intros p a x Hp Hg Hx. destruct (whead_page p Hp) as (v & Hv & Hd & Hr). apply In_wr_pages. exists p, v. split; [exact Hv|].
  rewrite <- Hr, (prun_some _ p a Hg). now apply In_nrun.
Qed.

(* the new free-list run *)
Lemma fl'_bounds : 1 <= d_fln st' /\ 2 <= d_fl st' /\ d_fl st' + d_fln st' <= d_np st' /\
  blen (fl_bytes pad st') <= d_fln st' * P.
Proof.
  destruct (fl_run_bounds st' P (zeros (N.to_nat P)) Hok' HP Hph' (BytesFacts.zeros_length _)) as (A & B & D).
  repeat split; try assumption.
  rewrite fl_bytes_len. destruct Hph' as (_ & _ & _ & Hsz & _). exact Hsz.
Qed.

(* the tree pages of the write set in T *)
Lemma T_spec : List.length T = N.to_nat (d_np st' * P) /\
  forall p a, In p (wheads w) -> dget (d_disk st') p = Some a -> forall o l, o + l <= blen (page_bytes pad p a) ->
    slice T (p * P + o) l = slice (page_bytes pad p a) o l.
Proof.
  assert (Hnd : NoDup (flat_map (prun (d_disk st')) (wheads w))).
  { apply (NoDup_runs_intro (d_disk st') (wheads w)); [apply NoDup_nodup|].
    intros x y Hx Hy Hne z Hz1 Hz2. apply Hne.
    destruct (whead_page x Hx) as (vx & Gx & _ & Rx). destruct (whead_page y Hy) as (vy & Gy & _ & Ry).
    rewrite Rx in Hz1. rewrite Ry in Hz2. exact (tc_disj _ _ _ HC x vx y vy z Gx Gy Hz1 Hz2). }
  destruct (image_spec pad P (d_disk st') (d_np st') HP (wheads w) Z Z_length Hnd whead_fits) as [Hlen Hrd].
  { intros x Hx. apply in_flat_map in Hx. destruct Hx as (q & Hq & Hx).
    destruct (whead_page q Hq) as (v & Gv & _ & Rv). rewrite Rv in Hx.
    apply (tc_range _ _ _ HC x). left. apply In_wr_pages. eauto. }
  split; [|exact Hrd]. unfold T. rewrite Hlen. exact Z_length.
Qed.

(* a page range no page of which is in the write set: T has the bytes of Z there *)
Lemma T_frame : forall x0 n o l, 0 < n -> o + l <= n * P ->
  (forall x, x0 <= x < x0 + n -> ~ In x (wr_pages (d_psz st) w)) ->
  slice T (x0 * P + o) l = slice Z (x0 * P + o) l.
Proof.
  intros x0 n o l Hn Hol Hnw. unfold T. apply image_frame. intros p a Hp Hg.
  destruct (whead_fits p a Hp Hg) as (_ & _ & _ & _ & Hroom).
  pose proof (CodecFacts.encode_page_length pad p (ap_over a) (body_of a)) as Hlp. fold (page_bytes pad p a) in Hlp.
  assert (Hlast : p + ap_over a < d_np st').
  { apply (tc_range _ _ _ HC). left. apply (whead_written p a _ Hp Hg). lia. }
  split.
  - rewrite Z_length. unfold blen in Hlp. nia.
  - rewrite Hlp. apply (bytes_apart P x0 n p (ap_over a + 1) o l _ Hol Hroom).
    apply intervals_apart; [exact Hn | lia |]. intros x Hx1 Hx2. apply (Hnw x Hx1). exact (whead_written p a x Hp Hg Hx2).
Qed.

Lemma T1_fit : (N.to_nat (d_fl st' * P) + List.length (fl_bytes pad st') <= List.length T)%nat.
Proof. destruct fl'_bounds as (A & B & D & E). rewrite (proj1 T_spec). unfold blen in E. nia. Qed.
Lemma T1_length : List.length T1 = N.to_nat (d_np st' * P).
Proof. unfold T1. rewrite BytesFacts.splice_length by exact T1_fit. exact (proj1 T_spec). Qed.
Lemma mp'_length : List.length (meta_page P st') = N.to_nat P.
Proof. destruct Hph' as (_ & _ & _ & _ & Hme). unfold meta_page. now apply MetaFacts.encode_length. Qed.
Lemma slot'_lt : slot_of st' < 2.
Proof. unfold slot_of. apply N.mod_lt. lia. Qed.
Lemma C_fit : (N.to_nat (slot_of st' * P) + List.length (meta_page P st') <= List.length T1)%nat.
Proof. rewrite T1_length, mp'_length. pose proof slot'_lt. pose proof (lf_np st' LF'). nia. Qed.
Lemma C_eq : C = splice T1 (slot_of st' * P) (meta_page P st').
Proof. reflexivity. Qed.

Theorem commit_length : List.length C = N.to_nat (d_np st' * P).
Proof. rewrite C_eq, BytesFacts.splice_length by exact C_fit. exact T1_length. Qed.

(* the two header slots differ *)
Lemma slots_differ : slot_of st' = 1 - slot_of st.
Proof.
  unfold slot_of. rewrite (tc_tx _ _ _ HC).
  pose proof (N.mod_lt (d_tx st) 2 ltac:(lia)) as H1. pose proof (N.mod_lt (d_tx st + 1) 2 ltac:(lia)) as H2.
  pose proof (N.div_mod (d_tx st) 2 ltac:(lia)) as E1. pose proof (N.div_mod (d_tx st + 1) 2 ltac:(lia)) as E2. lia.
Qed.

(* FRAME: a page range of the old file that contains neither the new header slot nor a written page keeps its bytes *)
Lemma C_frame : forall x0 n o l, 0 < n -> o + l <= n * P -> x0 + n <= d_np st ->
  (forall x, x0 <= x < x0 + n -> x <> slot_of st' /\ ~ written st st' w x) ->
  slice C (x0 * P + o) l = slice F (x0 * P + o) l.
Proof.
  intros x0 n o l Hn Hol Hin Hnw. destruct fl'_bounds as (A & B & D & E).
  rewrite C_eq. rewrite BytesFacts.slice_splice_other; [| exact C_fit |].
  2:{ apply (bytes_apart P x0 n (slot_of st') 1 o l _ Hol); [rewrite mp'_length; lia|].
      apply intervals_apart; [exact Hn | lia |]. intros x Hx1 Hx2. apply (proj1 (Hnw x Hx1)). lia. }
  unfold T1. rewrite BytesFacts.slice_splice_other; [| exact T1_fit |].
  2:{ apply (bytes_apart P x0 n (d_fl st') (d_fln st') o l _ Hol E).
      apply intervals_apart; [exact Hn | lia |]. intros x Hx1 Hx2. apply (proj2 (Hnw x Hx1)). right. now apply In_nrun. }
  rewrite (T_frame x0 n o l Hn Hol).
  2:{ intros x Hx Hw. apply (proj2 (Hnw x Hx)). now left. }
  unfold Z. apply slice_app_l. rewrite HlenF. nia.
Qed.

(* the pages of the write set *)
Lemma C_tree_hit : forall p a, In p (wheads w) -> dget (d_disk st') p = Some a ->
  CodecFacts.reads_buffer (Codec.reader_of C) (p * P) (page_bytes pad p a).
Proof.
  intros p a Hp Hg o l Hol. unfold Codec.reader_of. destruct fl'_bounds as (A & B & D & E).
  destruct (whead_fits p a Hp Hg) as (_ & _ & _ & _ & Hroom).
  pose proof (CodecFacts.encode_page_length pad p (ap_over a) (body_of a)) as Hlp. fold (page_bytes pad p a) in Hlp.
  assert (Hol' : o + l <= (ap_over a + 1) * P) by lia.
  rewrite C_eq. rewrite BytesFacts.slice_splice_other; [| exact C_fit |].
  2:{ apply (bytes_apart P p (ap_over a + 1) (slot_of st') 1 o l _ Hol'); [rewrite mp'_length; lia|].
      apply intervals_apart; [lia | lia |]. intros x Hx1 Hx2.
      pose proof (tc_range _ _ _ HC x (or_introl (whead_written p a x Hp Hg Hx1))). pose proof slot'_lt. lia. }
  unfold T1. rewrite BytesFacts.slice_splice_other; [| exact T1_fit |].
  2:{ apply (bytes_apart P p (ap_over a + 1) (d_fl st') (d_fln st') o l _ Hol' E).
      apply intervals_apart; [lia | lia |]. intros x Hx1 Hx2.
      apply (tc_fl _ _ _ HC x (whead_written p a x Hp Hg Hx1)). now apply In_nrun. }
  exact (proj2 T_spec p a Hp Hg o l Hol).
Qed.

(* the new free-list run *)
Lemma C_fl_hit : CodecFacts.reads_buffer (Codec.reader_of C) (d_fl st' * P) (fl_bytes pad st').
Proof.
  intros o l Hol. unfold Codec.reader_of. destruct fl'_bounds as (A & B & D & E).
  assert (Hol' : o + l <= d_fln st' * P) by lia.
  rewrite C_eq. rewrite BytesFacts.slice_splice_other; [| exact C_fit |].
  2:{ apply (bytes_apart P (d_fl st') (d_fln st') (slot_of st') 1 o l _ Hol'); [rewrite mp'_length; lia|].
      pose proof slot'_lt. right. lia. }
  unfold T1. apply slice_splice_inside; [exact T1_fit | exact Hol].
Qed.

(* the new header page *)
Lemma C_hdr_hit : forall o l, o + l <= P -> slice C (slot_of st' * P + o) l = slice (meta_page P st') o l.
Proof.
  intros o l Hol. rewrite C_eq. apply slice_splice_inside; [exact C_fit|]. unfold blen. rewrite mp'_length. lia.
Qed.

(** ** the commit image still holds the PREVIOUS state (copy-on-write) *)
Hypothesis HF : holds pad P F st.

Lemma live_not_touched : forall x, In x (live_of st (Rof st)) -> x <> slot_of st' /\ ~ written st st' w x.
Proof.
  intros x Hx. split; [|intros Hw; exact (tc_cow _ _ _ HC x Hw Hx)].
  pose proof (lf_live st LF x Hx). pose proof slot'_lt. lia.
Qed.

(* the previous header page is untouched *)
Lemma commit_keeps_old_header : forall o l, o + l <= P ->
  slice C (slot_of st * P + o) l = slice F (slot_of st * P + o) l.
Proof.
  intros o l Hol. apply (C_frame (slot_of st) 1 o l); [lia | lia | |].
  - pose proof (lf_np st LF). pose proof (slot_of_lt st). lia.
  - intros x Hx. assert (x = slot_of st) by lia. subst x. pose proof (slot_of_lt st) as Hs. split.
    + rewrite slots_differ. lia.
    + intros Hw. pose proof (tc_range _ _ _ HC _ Hw). lia.
Qed.

Theorem commit_holds_old : holds pad P C st.
Proof.
  constructor.
  - intros p a Hp Hg. destruct (h_tree _ _ _ _ HF p a Hp Hg) as [Hfit Hrd]. split; [exact Hfit|].
    intros o l Hol. rewrite <- (Hrd o l Hol). unfold Codec.reader_of.
    destruct Hfit as (_ & _ & _ & _ & Hroom).
    pose proof (CodecFacts.encode_page_length pad p (ap_over a) (body_of a)) as Hlp. fold (page_bytes pad p a) in Hlp.
    assert (Hrun : forall x, p <= x < p + (ap_over a + 1) -> In x (live_of st (Rof st))).
    { intros x Hx. apply in_or_app. left. apply In_runs. exists p. split; [exact Hp|]. rewrite (prun_some _ p a Hg). now apply In_nrun. }
    apply (C_frame p (ap_over a + 1) o l); [lia | lia | |].
    + pose proof (lf_live st LF (p + ap_over a) (Hrun (p + ap_over a) ltac:(lia))). lia.
    + intros x Hx. apply live_not_touched. now apply Hrun.
  - intros o l Hol. rewrite <- (h_fl _ _ _ _ HF o l Hol). unfold Codec.reader_of.
    destruct (fl_run_bounds st P (zeros (N.to_nat P)) Hok HP Hph (BytesFacts.zeros_length _)) as (A & B & D).
    assert (E : blen (fl_bytes pad st) <= d_fln st * P).
    { rewrite fl_bytes_len. destruct Hph as (_ & _ & _ & Hsz & _). exact Hsz. }
    apply (C_frame (d_fl st) (d_fln st) o l); [lia | lia | lia |].
    intros x Hx. apply live_not_touched. apply in_or_app. right. now apply In_nrun.
  - rewrite <- (h_hdr _ _ _ _ HF). f_equal. unfold Tree.read_header_page, Codec.reader_of.
    pose proof (commit_keeps_old_header 0 (N.min P 256) ltac:(lia)) as E. rewrite !N.add_0_r in E. now rewrite E.
Qed.

(** ** the commit image holds the NEW state *)

(* every head page of the new tree that the commit did not write is a head page of the old tree (copy-on-write
   carries unchanged nodes over).  Decidable; true for the engine's commit, but not among the exported facts of
   [tx_cow] (which speak of pages, not head pages) -- kept as a hypothesis here and evaluated in the example. *)
Definition carried : Prop := forall p, In p (Rof st') -> wr_get w p = None -> In p (Rof st).

Lemma C_hdr_new : Tree.read_header_page (Codec.reader_of C) P (slot_of st') = hdr_prefix P (meta_page P st').
Proof.
  unfold Tree.read_header_page, Codec.reader_of.
  pose proof (C_hdr_hit 0 (N.min P 256) ltac:(lia)) as E. rewrite N.add_0_r in E. rewrite E.
  rewrite slice_whole_prefix by (rewrite mp'_length; lia). reflexivity.
Qed.

Theorem commit_holds_new : carried -> tree_fits P st' -> holds pad P C st'.
Proof.
  intros Hcar Hfit'. constructor.
  - intros p a Hp Hg. split; [now apply Hfit'|]. destruct (wr_get w p) as [v|] eqn:Hv.
    + apply C_tree_hit; [|exact Hg]. unfold wheads. apply nodup_In. exact (wr_get_head w p v Hv).
    + pose proof (Hcar p Hp Hv) as Hp0. rewrite (tc_disk _ _ _ HC), (dget_apply_wr_none w _ _ p Hv) in Hg.
      exact (proj2 (h_tree _ _ _ _ commit_holds_old p a Hp0 Hg)).
  - exact C_fl_hit.
  - rewrite C_hdr_new. exact (image_slot_valid st' P (zeros (N.to_nat P)) Hok' HP Hph' (BytesFacts.zeros_length _)).
Qed.
End Commit.

(* ====================================================================== *)
(** * 2. Opening and checking a file that holds a state *)

(* the other header slot, as the reader decodes it: invalid, or a valid header of an older transaction *)
Definition other_slot_ok (P : N) (G : bytes) (st : db) : Prop :=
  let so := Meta.read_slot true (Tree.read_header_page (Codec.reader_of G) P (1 - slot_of st)) in
  so = Meta.SlotInvalid \/ exists m', so = Meta.SlotValid m' /\ Meta.m_psz m' = P /\ Meta.m_tx m' < d_tx st.

Lemma open_meta_parts : forall st P G,
  Meta.read_slot true (Tree.read_header_page (Codec.reader_of G) P (slot_of st)) = Meta.SlotValid (meta_of P st) ->
  other_slot_ok P G st ->
  Tree.open_meta (Codec.reader_of G) P = Meta.SelMeta (meta_of P st).
Proof.
  intros st P G Ha Hso. unfold Tree.open_meta, OldMeta.select_any. change Consts.meta_checks_page_type with true.
  pose proof (slot_of_lt st) as Hs. unfold other_slot_ok in Hso. cbv zeta in Hso.
  assert (Hsel : Meta.select_slots P (Meta.read_slot true (Tree.read_header_page (Codec.reader_of G) P 0))
                   (Meta.read_slot true (Tree.read_header_page (Codec.reader_of G) P 1)) = Meta.SelMeta (meta_of P st)).
  { pose proof (select_newer P (meta_of P st) (Meta.read_slot true (Tree.read_header_page (Codec.reader_of G) P (1 - slot_of st)))
                  (slot_of st) Hs eq_refl Hso) as Hn.
    destruct (N.eqb_spec (slot_of st) 0) as [E|E].
    - rewrite E in Ha, Hn. change (1 - 0) with 1 in Hn. rewrite Ha. exact Hn.
    - assert (E1 : slot_of st = 1) by lia. rewrite E1 in Ha, Hn. change (1 - 1) with 0 in Hn. rewrite Ha. exact Hn. }
  rewrite Hsel. reflexivity.
Qed.

(* OPENING: the header, the recorded free ids, the free-list run of the state the file holds *)
(* only the header slot and the free-list run matter *)
Theorem open_parts : forall st pad P G, db_okz st -> 0 < P -> phys_ok P st ->
  Forall (fun i => i < 2^64) (d_flids st) ->
  CodecFacts.reads_buffer (Codec.reader_of G) (d_fl st * P) (fl_bytes pad st) ->
  Meta.read_slot true (Tree.read_header_page (Codec.reader_of G) P (slot_of st)) = Meta.SlotValid (meta_of P st) ->
  other_slot_ok P G st ->
  Tree.open_db (Codec.reader_of G) P =
    Codec.Ok (Tree.mkOpened (meta_of P st) (d_flids st) (Codec.seqN (d_fl st) (N.to_nat (d_fln st)))).
Proof.
  intros st pad P G Hok HP Hph Hids Hfl Hhd Hso. unfold Tree.open_db. rewrite (open_meta_parts st P G Hhd Hso).
  change (Meta.m_fl (meta_of P st)) with (d_fl st).
  destruct (fl_run_bounds st P (zeros (N.to_nat P)) Hok HP Hph (BytesFacts.zeros_length _)) as (H1 & H2 & H3).
  destruct (np_bounds st P (zeros (N.to_nat P)) Hok HP Hph (BytesFacts.zeros_length _)) as [HP64 Hnp64].
  destruct Hph as (Hsz & _ & _ & Hflsz & _).
  rewrite (CodecFacts.codec_page_free pad P (d_fl st) (d_fln st - 1) (d_flids st) (Codec.reader_of G)).
  - cbn [Codec.bind Codec.ph_overflow]. replace (d_fln st - 1 + 1) with (d_fln st) by lia. reflexivity.
  - lia.
  - lia.
  - exact Hids.
  - unfold Codec.body_size. change Meta.page_hdr_size with 40. nia.
  - unfold Codec.body_size. change Meta.page_hdr_size with 40. replace (d_fln st - 1 + 1) with (d_fln st) by lia. exact Hflsz.
  - exact Hfl.
Qed.

Theorem open_holds : forall st pad P G, db_okz st -> 0 < P -> phys_ok P st ->
  Forall (fun i => i < 2^64) (d_flids st) -> holds pad P G st -> other_slot_ok P G st ->
  Tree.open_db (Codec.reader_of G) P =
    Codec.Ok (Tree.mkOpened (meta_of P st) (d_flids st) (Codec.seqN (d_fl st) (N.to_nat (d_fln st)))).
Proof.
  intros st pad P G Hok HP Hph Hids HH Hso.
  exact (open_parts st pad P G Hok HP Hph Hids (h_fl _ _ _ _ HH) (h_hdr _ _ _ _ HH) Hso).
Qed.

(* CHECKING: the file checker accepts every file that holds a state of the invariant -- whatever the bytes of
   the pages the state does not use, whatever the length of the file *)
Theorem inv_check_holds : forall st pad P G,
  db_exact_rec st -> db_okd st -> NoDup (d_flids st) -> phys_ok P st ->
  holds pad P G st -> other_slot_ok P G st ->
  Tree.inv_check (Codec.reader_of G) P = Codec.Ok tt /\ CheckM.check_m (Codec.reader_of G) P = Codec.Ok tt.
Proof.
  intros st pad P G Hrec Hokd Hnd Hph HH Hso. pose proof (proj1 Hokd) as Hok.
  assert (HP : 0 < P). { destruct Hph as (_ & _ & _ & _ & Hme). revert Hme. MetaFacts.offs. lia. }
  assert (Hids : Forall (fun i => i < 2^64) (d_flids st)).
  { apply Forall_forall. intros x Hx. apply (flids_exact st Hrec) in Hx. destruct Hph as (Hsz & _). nia. }
  pose proof (np_ge_4 st P Hok Hph) as H4. pose proof (h_tree _ _ _ _ HH) as HE.
  assert (Hinv : Tree.inv_check (Codec.reader_of G) P = Codec.Ok tt).
  { unfold Tree.inv_check. rewrite (open_holds st pad P G Hok HP Hph Hids HH Hso).
    cbn [Codec.bind Tree.o_meta Tree.o_free Tree.o_flrun].
    change (Meta.m_np (meta_of P st)) with (d_np st). change (Meta.m_root (meta_of P st)) with (d_root st).
    destruct (N.ltb_spec (d_np st) 4) as [L|_]; [lia|].
    destruct (state_bucket_pages st pad _ P Hokd HP HE) as (reach & Hr & Hperm). rewrite Hr. cbn [Codec.bind].
    rewrite (FileChecker.state_bucket_wf st pad _ P Hokd HP HE). cbn [Codec.bind negb].
    rewrite perm_partition_ok; [reflexivity|]. rewrite seqN_nrun.
    eapply Permutation_trans; [apply Permutation_app_tail; exact Hperm | now apply exact_perm]. }
  split; [exact Hinv | now apply CheckFacts.inv_check_implies_check_m].
Qed.

(* ====================================================================== *)
(** * 3. Overwriting a header page *)

Lemma splice_page_frame : forall (G : bytes) P s pg' off l, List.length pg' = N.to_nat P ->
  (N.to_nat ((s + 1) * P) <= List.length G)%nat -> off + l <= s * P \/ (s + 1) * P <= off ->
  slice (splice G (s * P) pg') off l = slice G off l.
Proof.
  intros G P s pg' off l Hl HG Hap. apply BytesFacts.slice_splice_other; [rewrite Hl; lia|]. rewrite Hl. lia.
Qed.

Lemma splice_page_read : forall (G : bytes) P s pg', 0 < P -> List.length pg' = N.to_nat P ->
  (N.to_nat ((s + 1) * P) <= List.length G)%nat ->
  Tree.read_header_page (Codec.reader_of (splice G (s * P) pg')) P s = hdr_prefix P pg'.
Proof.
  intros G P s pg' HP Hl HG. unfold Tree.read_header_page, Codec.reader_of.
  assert (E : slice (splice G (s * P) pg') (s * P + 0) (N.min P 256) = slice pg' 0 (N.min P 256)).
  { apply slice_splice_inside; [rewrite Hl; lia | unfold blen; rewrite Hl; lia]. }
  rewrite N.add_0_r in E. rewrite E.
  rewrite slice_whole_prefix by (rewrite Hl; lia). reflexivity.
Qed.

Lemma splice_page_read_other : forall (G : bytes) P s s' pg', List.length pg' = N.to_nat P ->
  (N.to_nat ((s + 1) * P) <= List.length G)%nat -> s' <> s ->
  Tree.read_header_page (Codec.reader_of (splice G (s * P) pg')) P s' = Tree.read_header_page (Codec.reader_of G) P s'.
Proof.
  intros G P s s' pg' Hl HG Hne. unfold Tree.read_header_page, Codec.reader_of.
  rewrite (splice_page_frame G P s pg' (s' * P) (N.min P 256) Hl HG); [reflexivity|]. nia.
Qed.

(* overwriting the OTHER header page: the file still holds the state *)
Theorem holds_overwrite_other : forall st pad P G pg', db_okz st -> 0 < P -> phys_ok P st -> holds pad P G st ->
  List.length pg' = N.to_nat P -> (N.to_nat (2 * P) <= List.length G)%nat ->
  holds pad P (splice G ((1 - slot_of st) * P) pg') st.
Proof.
  intros st pad P G pg' Hok HP Hph HH Hl HG. pose proof (slot_of_lt st) as Hs. pose proof (okz_layout st Hok) as LF.
  assert (HG' : (N.to_nat ((1 - slot_of st + 1) * P) <= List.length G)%nat) by nia.
  constructor.
  - intros p a Hp Hg. destruct (h_tree _ _ _ _ HH p a Hp Hg) as [Hfit Hrd]. split; [exact Hfit|].
    intros o l Hol. rewrite <- (Hrd o l Hol). unfold Codec.reader_of. apply splice_page_frame; [exact Hl | exact HG' |].
    assert (2 <= p).
    { apply (lf_live st LF). apply in_or_app. left. apply In_runs. exists p. split; [exact Hp | apply In_prun_self]. }
    right. nia.
  - intros o l Hol. rewrite <- (h_fl _ _ _ _ HH o l Hol). unfold Codec.reader_of. apply splice_page_frame; [exact Hl | exact HG' |].
    destruct (fl_run_bounds st P (zeros (N.to_nat P)) Hok HP Hph (BytesFacts.zeros_length _)) as (A & B & D). right. nia.
  - rewrite splice_page_read_other; [exact (h_hdr _ _ _ _ HH) | exact Hl | exact HG' | lia].
Qed.

(* ====================================================================== *)
(** * 4. FALLBACK: the current header of the commit image is overwritten / damaged *)

(* the file after the commit with the page of the CURRENT header (slot d_tx st' mod 2) replaced by pg' *)
Definition damaged_image (pad : N -> byte) (P : N) (F : bytes) (st st' : db) (w : list (N * (N * ndata))) (pg' : bytes) : bytes :=
  splice (commit_image pad P F st st' w) (slot_of st' * P) pg'.

Definition opened_of (P : N) (st : db) : Tree.opened :=
  Tree.mkOpened (meta_of P st) (d_flids st) (Codec.seqN (d_fl st) (N.to_nat (d_fln st))).

Section Fallback.
Variables (pad : N -> byte) (P : N) (F : bytes) (st st' : db) (w : list (N * (N * ndata))).
Hypothesis HP : 0 < P.
Hypothesis Hok : db_okz st.
Hypothesis Hok' : db_okz st'.
Hypothesis Hph : phys_ok P st.
Hypothesis Hph' : phys_ok P st'.
Hypothesis HC : tx_cow st st' w.
Hypothesis Hwf : writes_fit P st w.
Hypothesis HlenF : List.length F = N.to_nat (d_np st * P).
Hypothesis HF : holds pad P F st.

Let C := commit_image pad P F st st' w.
Let Hdiff := slots_differ P F st st' w HP HC HlenF.
Let HlenC := commit_length pad P F st st' w HP Hok' Hph' HC Hwf HlenF.
Let HoldC := commit_holds_old pad P F st st' w HP Hok Hok' Hph Hph' HC Hwf HlenF HF.

Lemma C_len2 : (N.to_nat (2 * P) <= List.length C)%nat.
Proof. unfold C. rewrite HlenC. pose proof (lf_np st' (okz_layout st' Hok')). nia. Qed.

Lemma read_prefix : forall pg', List.length pg' = N.to_nat P ->
  Meta.read_slot true (hdr_prefix P pg') = Meta.read_slot true pg'.
Proof.
  intros pg' Hl. unfold hdr_prefix. pose proof Hph' as (_ & _ & _ & _ & Hme).
  apply read_slot_prefix; revert Hme; MetaFacts.offs; lia.
Qed.

(* COPY-ON-WRITE + C12: whatever is written over the current header page, the file still holds the PREVIOUS state:
   its tree pages, its free-list run and its header are bytes of the old file *)
Theorem fallback_holds : forall pg', List.length pg' = N.to_nat P ->
  holds pad P (damaged_image pad P F st st' w pg') st.
Proof.
  intros pg' Hl. unfold damaged_image. rewrite Hdiff.
  exact (holds_overwrite_other st pad P C pg' Hok HP Hph HoldC Hl C_len2).
Qed.

Lemma damaged_cur_slot : forall pg', List.length pg' = N.to_nat P ->
  Meta.read_slot true (Tree.read_header_page (Codec.reader_of (damaged_image pad P F st st' w pg')) P (slot_of st')) =
  Meta.read_slot true pg'.
Proof.
  intros pg' Hl. unfold damaged_image. rewrite splice_page_read; [now apply read_prefix | exact HP | exact Hl |].
  pose proof C_len2. pose proof (slot_of_lt st'). fold C. nia.
Qed.

(* the current header reads INVALID: open returns the previous header, the previous free ids, the previous run *)
Theorem fallback_open : forall pg', List.length pg' = N.to_nat P -> Forall (fun i => i < 2^64) (d_flids st) ->
  Meta.read_slot true pg' = Meta.SlotInvalid ->
  Tree.open_db (Codec.reader_of (damaged_image pad P F st st' w pg')) P = Codec.Ok (opened_of P st).
Proof.
  intros pg' Hl Hids Hinv. apply (open_holds st pad P _ Hok HP Hph Hids (fallback_holds pg' Hl)).
  left. rewrite <- Hdiff, (damaged_cur_slot pg' Hl). exact Hinv.
Qed.

(* ... and the whole previous database reads back from the bytes: every bucket answers the reference's contents *)
Theorem fallback_reads : forall pg', List.length pg' = N.to_nat P ->
  let rd := Codec.reader_of (damaged_image pad P F st st' w pg') in
  forall path,
  match Spec.get_at path (abs_db st) with
  | Some (Spec.SBucket o x es) =>
      exists r t, root_at_b rd P (d_root st) path = Some r /\ Tree.build_tree fuel0 rd P r = Codec.Ok t /\
        NH.wf_tree_nh t = true /\ cursor_agrees t (Spec.SBucket o x es)
  | _ => root_at_b rd P (d_root st) path = None
  end.
Proof.
  intros pg' Hl rd path. exact (state_read_bytes st pad rd P Hok HP (h_tree _ _ _ _ (fallback_holds pg' Hl)) path).
Qed.

(* ... and the file checker accepts the file as the previous database: the pages the lost transaction wrote are,
   for the previous header, free pages or pages beyond its page count *)
Theorem fallback_inv_check : forall pg', List.length pg' = N.to_nat P ->
  db_exact_rec st -> db_okd st -> NoDup (d_flids st) -> Meta.read_slot true pg' = Meta.SlotInvalid ->
  let rd := Codec.reader_of (damaged_image pad P F st st' w pg') in
  Tree.inv_check rd P = Codec.Ok tt /\ CheckM.check_m rd P = Codec.Ok tt.
Proof.
  intros pg' Hl Hrec Hokd Hnd Hinv rd. apply (inv_check_holds st pad P _ Hrec Hokd Hnd Hph (fallback_holds pg' Hl)).
  left. rewrite <- Hdiff, (damaged_cur_slot pg' Hl). exact Hinv.
Qed.

(** ** when the current header still reads as st''s header, open returns st' *)
Lemma cur_valid_open : forall G, Forall (fun i => i < 2^64) (d_flids st') ->
  CodecFacts.reads_buffer (Codec.reader_of G) (d_fl st' * P) (fl_bytes pad st') ->
  Meta.read_slot true (Tree.read_header_page (Codec.reader_of G) P (slot_of st')) = Meta.SlotValid (meta_of P st') ->
  holds pad P G st ->
  Tree.open_db (Codec.reader_of G) P = Codec.Ok (opened_of P st').
Proof.
  intros G Hids Hfl Hhd HH. apply (open_parts st' pad P G Hok' HP Hph' Hids Hfl Hhd).
  right. exists (meta_of P st). pose proof (slot_of_lt st) as Hs.
  replace (1 - slot_of st') with (slot_of st) by (rewrite Hdiff; lia).
  split; [exact (h_hdr _ _ _ _ HH)|]. split; [reflexivity|].
  change (Meta.m_tx (meta_of P st)) with (d_tx st). rewrite (tc_tx _ _ _ HC). lia.
Qed.

(* ITEM 2: the commit image opens as st' (its other slot holds the valid, older header of st) *)
Theorem commit_open : Forall (fun i => i < 2^64) (d_flids st') ->
  Tree.open_db (Codec.reader_of C) P = Codec.Ok (opened_of P st').
Proof.
  intros Hids. apply (cur_valid_open C Hids).
  - exact (C_fl_hit pad P F st st' w HP Hok' Hph' HC Hwf HlenF).
  - unfold C. rewrite (C_hdr_new pad P F st st' w HP Hok' Hph' HC Hwf HlenF).
    exact (image_slot_valid st' P (zeros (N.to_nat P)) Hok' HP Hph' (BytesFacts.zeros_length _)).
  - exact HoldC.
Qed.

Theorem still_current_open : forall pg', List.length pg' = N.to_nat P -> Forall (fun i => i < 2^64) (d_flids st') ->
  Meta.read_slot true pg' = Meta.SlotValid (meta_of P st') ->
  Tree.open_db (Codec.reader_of (damaged_image pad P F st st' w pg')) P = Codec.Ok (opened_of P st').
Proof.
  intros pg' Hl Hids Hv. apply (cur_valid_open _ Hids).
  - intros o l Hol. rewrite <- (C_fl_hit pad P F st st' w HP Hok' Hph' HC Hwf HlenF o l Hol).
    unfold damaged_image, Codec.reader_of. apply splice_page_frame; [exact Hl | |].
    + pose proof C_len2. pose proof (slot_of_lt st'). fold C. nia.
    + destruct (fl_run_bounds st' P (zeros (N.to_nat P)) Hok' HP Hph' (BytesFacts.zeros_length _)) as (A & B & D).
      pose proof (slot_of_lt st'). right. nia.
  - rewrite (damaged_cur_slot pg' Hl). exact Hv.
  - exact (fallback_holds pg' Hl).
Qed.

(* C12 END TO END: any change of ONE BYTE of the current header page of the file after a commit.
   Either the byte matters ([Meta.significant]): the header is invalid and open returns the PREVIOUS header with the
   previous free ids and free-list run; or it does not (padding): open returns the current header as before. *)
Theorem fallback_damage : forall off b, off < P ->
  nth_error (meta_page P st') (N.to_nat off) <> Some b ->
  Forall (fun i => i < 2^64) (d_flids st) -> Forall (fun i => i < 2^64) (d_flids st') ->
  let G := damaged_image pad P F st st' w (Meta.damage (meta_page P st') off b) in
  Tree.open_db (Codec.reader_of G) P =
    Codec.Ok (if Meta.significant true off then opened_of P st else opened_of P st').
Proof.
  intros off b Hoff Hb Hids Hids' G. pose proof Hph' as (_ & _ & _ & _ & Hme).
  pose proof (meta_of_wf st' P (zeros (N.to_nat P)) Hok' HP Hph' (BytesFacts.zeros_length _)) as Hwfm.
  assert (Hl0 : List.length (meta_page P st') = N.to_nat P) by (unfold meta_page; now apply MetaFacts.encode_length).
  assert (Hl : List.length (Meta.damage (meta_page P st') off b) = N.to_nat P).
  { rewrite MetaFacts.damage_length; [exact Hl0 | lia]. }
  pose proof (MetaFacts.damage_one_byte true P _ off b Hwfm Hme Hoff Hb) as Hd. cbv zeta in Hd.
  fold (meta_of P st') in Hd. fold (meta_page P st') in Hd.
  destruct (Meta.significant true off) eqn:Sg.
  - exact (fallback_open _ Hl Hids Hd).
  - rewrite (MetaFacts.significant_true_type off Sg) in Hd. exact (still_current_open _ Hl Hids' Hd).
Qed.
End Fallback.

(* ====================================================================== *)
(** * 5. From a transaction of the engine *)

Lemma flids_small : forall st P, db_exact_rec st -> phys_ok P st -> Forall (fun i => i < 2^64) (d_flids st).
Proof.
  intros st P Hrec Hph. apply Forall_forall. intros x Hx. apply (flids_exact st Hrec) in Hx. destruct Hph as (Hsz & Hr).
  destruct Hr as (_ & _ & _ & Hme). assert (0 < P) by (revert Hme; MetaFacts.offs; lia). nia.
Qed.

(* a significant byte of the encoded header changed: the page has the same length and reads as invalid *)
Lemma damage_invalid : forall st' P off b, db_okz st' -> phys_ok P st' -> off < P ->
  nth_error (meta_page P st') (N.to_nat off) <> Some b -> Meta.significant true off = true ->
  List.length (Meta.damage (meta_page P st') off b) = N.to_nat P /\
  Meta.read_slot true (Meta.damage (meta_page P st') off b) = Meta.SlotInvalid.
Proof.
  intros st' P off b Hok' Hph' Hoff Hb Sg. pose proof Hph' as (_ & _ & _ & _ & Hme).
  assert (HP : 0 < P) by (revert Hme; MetaFacts.offs; lia).
  pose proof (meta_of_wf st' P (zeros (N.to_nat P)) Hok' HP Hph' (BytesFacts.zeros_length _)) as Hwfm.
  assert (Hl0 : List.length (meta_page P st') = N.to_nat P) by (unfold meta_page; now apply MetaFacts.encode_length).
  split; [rewrite MetaFacts.damage_length; [exact Hl0 | lia]|].
  pose proof (MetaFacts.damage_one_byte true P _ off b Hwfm Hme Hoff Hb) as Hd. cbv zeta in Hd.
  fold (meta_of P st') in Hd. fold (meta_page P st') in Hd. now rewrite Sg in Hd.
Qed.

(* THE END-TO-END STATEMENT.  st satisfies the invariant of histories; a transaction leads to st'; F is the complete
   file image of st (any page in its other slot); the commit updates F in place (copy-on-write); afterwards the page
   of the CURRENT header is replaced by anything that does not read as a valid header.  Then the file opens as the
   PREVIOUS state, is accepted by the file checker as the previous state, and reads back the previous contents. *)
Theorem run_tx_fallback : forall st ops ord st' pad P other,
  db_inv st -> Forall (op_ok (d_disk st)) ops -> run_tx st ops ord = Ok st' -> readable st' ->
  tree_fits P st -> phys_ok P st -> phys_ok P st' -> List.length other = N.to_nat P ->
  exists w, tx_cow st st' w /\
    (writes_fit P st w ->
     forall pg', List.length pg' = N.to_nat P -> Meta.read_slot true pg' = Meta.SlotInvalid ->
     let rd := Codec.reader_of (damaged_image pad P (file_image pad P st other) st st' w pg') in
     Tree.open_db rd P = Codec.Ok (opened_of P st) /\
     Tree.inv_check rd P = Codec.Ok tt /\ CheckM.check_m rd P = Codec.Ok tt /\
     forall path,
       match Spec.get_at path (abs_db st) with
       | Some (Spec.SBucket o x es) =>
           exists r t, root_at_b rd P (d_root st) path = Some r /\ Tree.build_tree fuel0 rd P r = Codec.Ok t /\
             NH.wf_tree_nh t = true /\ cursor_agrees t (Spec.SBucket o x es)
       | _ => root_at_b rd P (d_root st) path = None
       end).
Proof.
  intros st ops ord st' pad P other Hinv Hops Hrun Hrd Hfit Hph Hph' Hlo.
  destruct (db_inv_facts st Hinv) as (Hrec & Hok & Hokd & _). pose proof (inv_flids_NoDup st Hinv) as Hnd.
  destruct (run_tx_refines' st ops ord st' Hok Hops Hrun Hrd) as [Hok' _].
  destruct (run_tx_write_set st ops ord st' Hok Hops Hrun) as [w HC]. exists w. split; [exact HC|].
  intros Hwf pg' Hl Hbad rd. pose proof Hph as (_ & _ & _ & _ & Hme).
  assert (HP : 0 < P) by (revert Hme; MetaFacts.offs; lia).
  destruct (file_image_holds st pad P other Hok HP Hfit Hph Hlo) as [HF HlenF].
  split; [exact (fallback_open pad P _ st st' w HP Hok Hok' Hph Hph' HC Hwf HlenF HF pg' Hl (flids_small st P Hrec Hph) Hbad)|].
  destruct (fallback_inv_check pad P _ st st' w HP Hok Hok' Hph Hph' HC Hwf HlenF HF pg' Hl Hrec Hokd Hnd Hbad) as [A B].
  split; [exact A|]. split; [exact B|].
  exact (fallback_reads pad P _ st st' w HP Hok Hok' Hph Hph' HC Hwf HlenF HF pg' Hl).
Qed.

(* ====================================================================== *)
(** * 6. The example history, evaluated: two transactions from [init_db 4096] *)
Module FallbackExample.
Import BytesExamples ExHistory ExCow Ex3.
(* only the head pages of the write set enter [commit_image]; the second transaction wrote the runs of 7, 3, 2 *)
Definition wex : list (N * (N * ndata)) := map (fun q => (q, (0, Leaves []))) [7; 3; 2].
(* the file after the first transaction (its other slot still holds a header of [init_file]) *)
Definition F1 : bytes := file_image ex_pad 4096 hist_st1 (Meta.encode_meta_page 4096 (Meta.init_meta 4096 0)).
(* the second commit as an update of F1; then ONE byte of the current header (the low byte of tx_id) is changed *)
Definition C2 : bytes := commit_image ex_pad 4096 F1 hist_st1 hist_st wex.
Definition G2 : bytes :=
  damaged_image ex_pad 4096 F1 hist_st1 hist_st wex (Meta.damage (meta_page 4096 hist_st) Meta.o_tx "255"%byte).

Example sizes : (blen F1, blen C2, blen G2, slot_of hist_st, Meta.significant true Meta.o_tx) = (28672, 36864, 36864, 0, true).
Proof. vm_compute. reflexivity. Qed.
(* undamaged: the current header (tx 2), its free ids and free-list run *)
Example C2_opens_current : Tree.open_db (Codec.reader_of C2) 4096 = Codec.Ok (opened_of 4096 hist_st).
Proof. vm_compute. reflexivity. Qed.
(* damaged: the PREVIOUS header (tx 1) with the previous free ids [2;3] -- the very pages the lost transaction
   overwrote, free for the previous header -- and the previous free-list run [6] *)
Example G2_opens_previous : Tree.open_db (Codec.reader_of G2) 4096 = Codec.Ok (opened_of 4096 hist_st1).
Proof. vm_compute. reflexivity. Qed.
Example G2_previous_fields : (d_tx hist_st1, d_flids hist_st1, d_fl hist_st1, d_fln hist_st1, d_np hist_st1, d_np hist_st) = (1, [2; 3], 6, 1, 7, 9).
Proof. vm_compute. reflexivity. Qed.
(* the checker accepts the damaged file (as the previous database) and the undamaged one *)
Example G2_checked : Tree.inv_check (Codec.reader_of G2) 4096 = Codec.Ok tt /\ CheckM.check_m (Codec.reader_of G2) 4096 = Codec.Ok tt /\
  Tree.inv_check (Codec.reader_of C2) 4096 = Codec.Ok tt.
Proof. vm_compute. repeat split; reflexivity. Qed.
(* the previous contents read back: key a (deleted by the lost transaction) is there again *)
Example G2_reads_previous :
  match Tree.build_tree fuel0 (Codec.reader_of G2) 4096 (d_root hist_st1) with
  | Codec.Ok t => Cursor.get t ka = Some (Spec.IKv ka [x01]) /\ Cursor.scan t = Cursor.CVal [Spec.IKv ka [x01]; Spec.IBk kb]
  | _ => False end /\
  match Tree.build_tree fuel0 (Codec.reader_of C2) 4096 (d_root hist_st) with
  | Codec.Ok t => Cursor.get t ka = None /\ Cursor.scan t = Cursor.CVal [Spec.IBk kb]
  | _ => False end.
Proof. vm_compute. repeat split; reflexivity. Qed.
(* the hypothesis [carried] of [commit_holds_new] holds here: unwritten heads of the new tree are old heads *)
Example hist_carried :
  forallb (fun p => match wr_get wex p with Some _ => true | None => memb p (Rof hist_st1) end) (Rof hist_st) = true.
Proof. vm_compute. reflexivity. Qed.
End FallbackExample.

Print Assumptions file_image_holds.
Print Assumptions commit_length.
Print Assumptions commit_holds_old.
Print Assumptions commit_holds_new.
Print Assumptions commit_keeps_old_header.
Print Assumptions open_holds.
Print Assumptions inv_check_holds.
Print Assumptions commit_open.
Print Assumptions fallback_holds.
Print Assumptions fallback_open.
Print Assumptions fallback_reads.
Print Assumptions fallback_inv_check.
Print Assumptions still_current_open.
Print Assumptions fallback_damage.
Print Assumptions damage_invalid.
Print Assumptions run_tx_fallback.
