(* Corollaries of the refinement theorem quoted by props/C05.v and props/C16.v. *)
From Coq Require Import List NArith.
From Jamm Require Import Bytes Engine EngineAbs EnginePathFacts EngineTxInvFacts EngineRefines EngineOwnDefs EngineOwnSpill EngineAllocInv.
From Jamm Require Spec.
Import ListNotations.
Local Open Scope N_scope.

(* the page size is a performance parameter: two engines configured with different page sizes, fed the same transactions,
   commit the same contents (both equal the reference's) *)
Theorem page_size_irrelevant : forall P1 P2 txs st1 st2, 0 < P1 -> 0 < P2 ->
  txs_ok' (init_db P1) txs -> txs_ok' (init_db P2) txs ->
  run_txs (init_db P1) txs = Ok st1 -> run_txs (init_db P2) txs = Ok st2 ->
  abs_db st1 = abs_db st2.
Proof.
  intros P1 P2 txs st1 st2 H1 H2 T1 T2 R1 R2.
  destruct (run_txs_refines_init' P1 txs st1 H1 T1 R1) as [_ E1].
  destruct (run_txs_refines_init' P2 txs st2 H2 T2 R2) as [_ E2].
  now rewrite E1, E2.
Qed.

(* every state a history of transactions reaches satisfies the strict tree invariant (sorted keys inside their separators'
   intervals, separator = first key of the page, no page named twice inside a bucket) and the allocation invariant *)
Theorem reachable_states_ok : forall P txs st', 0 < P -> txs_ok' (init_db P) txs ->
  run_txs (init_db P) txs = Ok st' ->
  db_strict st' /\ alloc_ok st' (Rof st') /\ NoDup (live_of st' (Rof st')) /\ pend_le st'.
Proof. intros P txs st' HP T R. exact (proj1 (proj1 (run_txs_refines_init' P txs st' HP T R))). Qed.
Print Assumptions page_size_irrelevant.
Print Assumptions reachable_states_ok.
