(* Facts about the byte-string model (model/Bytes.v): fixed-width integer codecs,
   the lexicographic order, and slice / splice algebra. *)
From Coq Require Import List NArith Bool Lia ZifyN ZifyBool Arith.
From Coq.Strings Require Import Byte.
From Jamm Require Import Bytes.
Import ListNotations.
Open Scope N_scope.

Arguments N.add : simpl never.
Arguments N.mul : simpl never.
Arguments N.sub : simpl never.
Arguments N.div : simpl never.
Arguments N.modulo : simpl never.
Arguments N.pow : simpl never.

(* ------------------------------------------------------------------ *)
(** * bytes <-> N *)

Lemma to_N_lt b : Byte.to_N b < 256.
Proof. pose proof (Byte.to_N_bounded b). lia. Qed.

Lemma to_N_inj x y : Byte.to_N x = Byte.to_N y -> x = y.
Proof.
  intros H. pose proof (Byte.of_to_N x) as Hx. rewrite H, Byte.of_to_N in Hx. congruence.
Qed.

Lemma to_N_byte_of_N x : Byte.to_N (byte_of_N x) = x mod 256.
Proof.
  unfold byte_of_N. destruct (Byte.of_N (x mod 256)) as [b|] eqn:E.
  - now apply Byte.to_of_N.
  - apply Byte.of_N_None_iff in E. pose proof (N.mod_upper_bound x 256). lia.
Qed.

Lemma byte_of_N_to_N b : byte_of_N (Byte.to_N b) = b.
Proof.
  unfold byte_of_N. rewrite N.mod_small by apply to_N_lt. now rewrite Byte.of_to_N.
Qed.

Lemma byte_of_N_mod x : byte_of_N (x mod 256) = byte_of_N x.
Proof. unfold byte_of_N. rewrite N.mod_mod by lia. reflexivity. Qed.

Lemma pow256_succ n : 256 ^ N.of_nat (S n) = 256 * 256 ^ N.of_nat n.
Proof. rewrite Nat2N.inj_succ, N.pow_succ_r'. reflexivity. Qed.

Lemma pow256_pos n : 0 < 256 ^ N.of_nat n.
Proof. apply N.neq_0_lt_0, N.pow_nonzero. lia. Qed.

(* ------------------------------------------------------------------ *)
(** * little endian *)

Lemma le_enc_length n x : length (le_enc n x) = n.
Proof. revert x. induction n as [|n IH]; intros x; cbn [le_enc length]; [reflexivity|]. now rewrite IH. Qed.

Lemma le_dec_enc n x : le_dec (le_enc n x) = x mod 256 ^ N.of_nat n.
Proof.
  revert x. induction n as [|n IH]; intros x.
  - cbn [le_enc le_dec N.of_nat]. rewrite N.pow_0_r, N.mod_1_r. reflexivity.
  - cbn [le_enc le_dec]. rewrite IH, to_N_byte_of_N, pow256_succ.
    pose proof (pow256_pos n).
    rewrite N.mod_mul_r by lia. reflexivity.
Qed.

Lemma le_dec_enc_small n x : x < 256 ^ N.of_nat n -> le_dec (le_enc n x) = x.
Proof. intros H. rewrite le_dec_enc. now apply N.mod_small. Qed.

Lemma le_enc_dec b : le_enc (length b) (le_dec b) = b.
Proof.
  induction b as [|x b IH]; [reflexivity|].
  cbn [length le_enc le_dec]. f_equal.
  - rewrite <- byte_of_N_mod.
    replace ((Byte.to_N x + 256 * le_dec b) mod 256) with (Byte.to_N x).
    + apply byte_of_N_to_N.
    + pose proof (to_N_lt x). rewrite N.mul_comm, N.mod_add by lia. rewrite N.mod_small; lia.
  - replace ((Byte.to_N x + 256 * le_dec b) / 256) with (le_dec b); [exact IH|].
    pose proof (to_N_lt x). rewrite N.mul_comm, N.div_add by lia. rewrite N.div_small; lia.
Qed.

Lemma le_dec_bound b : le_dec b < 256 ^ N.of_nat (length b).
Proof.
  induction b as [|x b IH].
  - cbn. lia.
  - cbn [length le_dec]. rewrite pow256_succ. pose proof (to_N_lt x). lia.
Qed.

Lemma le_enc_inj n x y :
  x < 256 ^ N.of_nat n -> y < 256 ^ N.of_nat n -> le_enc n x = le_enc n y -> x = y.
Proof.
  intros Hx Hy E. apply (f_equal le_dec) in E. now rewrite !le_dec_enc_small in E.
Qed.

Lemma le_dec_inj a b : length a = length b -> le_dec a = le_dec b -> a = b.
Proof.
  intros HL E. rewrite <- (le_enc_dec a), <- (le_enc_dec b), HL, E. reflexivity.
Qed.

(* ------------------------------------------------------------------ *)
(** * big endian *)

Lemma be_enc_length n x : length (be_enc n x) = n.
Proof. unfold be_enc. now rewrite rev_length, le_enc_length. Qed.

Lemma be_dec_enc n x : be_dec (be_enc n x) = x mod 256 ^ N.of_nat n.
Proof. unfold be_dec, be_enc. now rewrite rev_involutive, le_dec_enc. Qed.

Lemma be_dec_enc_small n x : x < 256 ^ N.of_nat n -> be_dec (be_enc n x) = x.
Proof. intros H. rewrite be_dec_enc. now apply N.mod_small. Qed.

Lemma be_enc_dec b : be_enc (length b) (be_dec b) = b.
Proof.
  unfold be_enc, be_dec. rewrite <- (rev_length b), le_enc_dec. apply rev_involutive.
Qed.

Lemma be_dec_bound b : be_dec b < 256 ^ N.of_nat (length b).
Proof. unfold be_dec. rewrite <- (rev_length b). apply le_dec_bound. Qed.

Lemma be_enc_le_dec l : be_enc (length l) (le_dec l) = rev l.
Proof. unfold be_enc. now rewrite le_enc_dec. Qed.

(* ------------------------------------------------------------------ *)
(** * bcmp is a strict total order compatible with equality *)

Lemma bcmp_refl a : bcmp a a = Eq.
Proof. induction a as [|x a IH]; cbn [bcmp]; [reflexivity|]. now rewrite N.compare_refl. Qed.

Lemma bcmp_eq_iff a b : bcmp a b = Eq <-> a = b.
Proof.
  split.
  - revert b. induction a as [|x a IH]; intros [|y b]; cbn [bcmp]; try discriminate; [reflexivity|].
    destruct (N.compare_spec (Byte.to_N x) (Byte.to_N y)) as [E|E|E]; try discriminate.
    intros H. apply to_N_inj in E. apply IH in H. congruence.
  - intros ->. apply bcmp_refl.
Qed.

Lemma bcmp_antisym a b : bcmp a b = CompOpp (bcmp b a).
Proof.
  revert b. induction a as [|x a IH]; intros [|y b]; cbn [bcmp]; try reflexivity.
  rewrite (N.compare_antisym (Byte.to_N x) (Byte.to_N y)).
  destruct (N.compare (Byte.to_N x) (Byte.to_N y)); cbn [CompOpp]; auto.
Qed.

Lemma bcmp_lt_trans a b c : bcmp a b = Lt -> bcmp b c = Lt -> bcmp a c = Lt.
Proof.
  revert b c. induction a as [|x a IH]; intros [|y b] [|z c]; cbn [bcmp]; try discriminate; try reflexivity.
  destruct (N.compare_spec (Byte.to_N x) (Byte.to_N y)) as [E1|E1|E1];
  destruct (N.compare_spec (Byte.to_N y) (Byte.to_N z)) as [E2|E2|E2];
  destruct (N.compare_spec (Byte.to_N x) (Byte.to_N z)) as [E3|E3|E3];
    try discriminate; try lia; try reflexivity.
  apply IH.
Qed.

Lemma bcmp_gt_lt a b : bcmp a b = Gt <-> bcmp b a = Lt.
Proof. rewrite (bcmp_antisym a b). destruct (bcmp b a); cbn; split; congruence. Qed.

Lemma bcmp_total a b : bcmp a b = Lt \/ a = b \/ bcmp b a = Lt.
Proof.
  destruct (bcmp a b) eqn:E; [right; left; now apply bcmp_eq_iff | now left | right; right; now apply bcmp_gt_lt].
Qed.

Lemma bcmp_lt_irrefl a : bcmp a a <> Lt.
Proof. rewrite bcmp_refl. discriminate. Qed.

Lemma beq_true_iff a b : beq a b = true <-> a = b.
Proof. unfold beq. rewrite <- bcmp_eq_iff. destruct (bcmp a b); split; congruence. Qed.

(* ------------------------------------------------------------------ *)
(** * nth_error toolkit *)

Lemma nth_error_ext' {A} (l l' : list A) :
  (forall i, nth_error l i = nth_error l' i) -> l = l'.
Proof.
  revert l'. induction l as [|x l IH]; intros [|y l'] H.
  - reflexivity.
  - specialize (H O). discriminate.
  - specialize (H O). discriminate.
  - f_equal.
    + specialize (H O). cbn in H. congruence.
    + apply IH. intros i. exact (H (S i)).
Qed.

Lemma nth_error_skipn' {A} (l : list A) n i : nth_error (skipn n l) i = nth_error l (n + i).
Proof.
  revert l. induction n as [|n IH]; intros l; [reflexivity|].
  destruct l as [|x l]; cbn [skipn plus nth_error].
  - now destruct i.
  - apply IH.
Qed.

Lemma nth_error_firstn' {A} (l : list A) n i :
  nth_error (firstn n l) i = if Nat.ltb i n then nth_error l i else None.
Proof.
  revert l i. induction n as [|n IH]; intros l i.
  - cbn [firstn]. now destruct i.
  - destruct l as [|x l]; cbn [firstn].
    + destruct i; cbn [nth_error]; match goal with |- context[if ?c then _ else _] => destruct c end; reflexivity.
    + destruct i as [|i]; [reflexivity|]. cbn [nth_error]. rewrite IH.
      change (Nat.ltb (S i) (S n)) with (Nat.ltb i n). reflexivity.
Qed.

Lemma nth_error_None_ge {A} (l : list A) i : (length l <= i)%nat -> nth_error l i = None.
Proof. apply nth_error_None. Qed.

(* ------------------------------------------------------------------ *)
(** * slice / splice *)

Lemma zeros_length n : length (zeros n) = n.
Proof. apply repeat_length. Qed.

Lemma splice_length z o v :
  (N.to_nat o + length v <= length z)%nat -> length (splice z o v) = length z.
Proof.
  intros H. unfold splice. rewrite !app_length, firstn_length, skipn_length. lia.
Qed.

Lemma nth_error_splice z o v i :
  (N.to_nat o + length v <= length z)%nat ->
  nth_error (splice z o v) i =
    if Nat.ltb i (N.to_nat o) then nth_error z i
    else if Nat.ltb i (N.to_nat o + length v) then nth_error v (i - N.to_nat o)
    else nth_error z i.
Proof.
  intros H. unfold splice.
  destruct (Nat.ltb_spec i (N.to_nat o)) as [L1|L1].
  - rewrite nth_error_app1 by (rewrite firstn_length; lia).
    rewrite nth_error_firstn'. destruct (Nat.ltb_spec i (N.to_nat o)); [reflexivity|lia].
  - rewrite nth_error_app2 by (rewrite firstn_length; lia).
    rewrite firstn_length, Nat.min_l by lia.
    destruct (Nat.ltb_spec i (N.to_nat o + length v)) as [L2|L2].
    + rewrite nth_error_app1 by lia. reflexivity.
    + rewrite nth_error_app2 by lia. rewrite nth_error_skipn'. f_equal. lia.
Qed.

Lemma slice_some b o n :
  (N.to_nat o + N.to_nat n <= length b)%nat ->
  slice b o n = Some (firstn (N.to_nat n) (skipn (N.to_nat o) b)).
Proof.
  intros H. unfold slice. destruct (Nat.leb_spec (N.to_nat o + N.to_nat n) (length b)); [reflexivity|lia].
Qed.

Lemma slice_inv b o n s :
  slice b o n = Some s ->
  (N.to_nat o + N.to_nat n <= length b)%nat /\ s = firstn (N.to_nat n) (skipn (N.to_nat o) b).
Proof.
  unfold slice. destruct (Nat.leb_spec (N.to_nat o + N.to_nat n) (length b)); [|discriminate].
  intros E. injection E as <-. split; [assumption|reflexivity].
Qed.

Lemma slice_length b o n s : slice b o n = Some s -> length s = N.to_nat n.
Proof.
  intros H. apply slice_inv in H as [H ->]. rewrite firstn_length, skipn_length. lia.
Qed.

Lemma nth_error_slice b o n s i :
  slice b o n = Some s -> (i < N.to_nat n)%nat -> nth_error s i = nth_error b (N.to_nat o + i).
Proof.
  intros H Hi. apply slice_inv in H as [H ->].
  rewrite nth_error_firstn', nth_error_skipn'.
  destruct (Nat.ltb_spec i (N.to_nat n)); [reflexivity|lia].
Qed.

(* the byte at an absolute offset inside a slice *)
Lemma nth_error_in_slice b o n s off :
  slice b o n = Some s -> o <= off -> off < o + n ->
  nth_error b (N.to_nat off) = nth_error s (N.to_nat (off - o)).
Proof.
  intros H H1 H2. rewrite (nth_error_slice b o n s _ H) by lia. f_equal. lia.
Qed.

(* two byte strings of which equal-length windows agree pointwise have equal slices *)
Lemma slice_ext b b' o n :
  length b = length b' ->
  (forall i, (i < N.to_nat n)%nat -> nth_error b (N.to_nat o + i) = nth_error b' (N.to_nat o + i)) ->
  slice b o n = slice b' o n.
Proof.
  intros HL H. unfold slice. rewrite <- HL.
  destruct (Nat.leb _ _); [|reflexivity]. f_equal.
  apply nth_error_ext'. intros i. rewrite !nth_error_firstn', !nth_error_skipn'.
  destruct (Nat.ltb_spec i (N.to_nat n)); [now apply H|reflexivity].
Qed.

(* reading back what was just written *)
Lemma slice_splice_same z o v :
  (N.to_nat o + length v <= length z)%nat ->
  slice (splice z o v) o (N.of_nat (length v)) = Some v.
Proof.
  intros H. rewrite slice_some by (rewrite splice_length by assumption; lia).
  f_equal. apply nth_error_ext'. intros i.
  rewrite nth_error_firstn', nth_error_skipn', nth_error_splice by assumption.
  rewrite Nat2N.id.
  destruct (Nat.ltb_spec i (length v)) as [L|L].
  - destruct (Nat.ltb_spec (N.to_nat o + i) (N.to_nat o)); [lia|].
    destruct (Nat.ltb_spec (N.to_nat o + i) (N.to_nat o + length v)); [|lia].
    f_equal. lia.
  - symmetry. apply nth_error_None. lia.
Qed.

(* reading a window disjoint from what was written *)
Lemma slice_splice_other z o v o' n :
  (N.to_nat o + length v <= length z)%nat ->
  o' + n <= o \/ o + N.of_nat (length v) <= o' ->
  slice (splice z o v) o' n = slice z o' n.
Proof.
  intros H D. apply slice_ext; [now apply splice_length|].
  intros i Hi. rewrite nth_error_splice by assumption.
  destruct (Nat.ltb_spec (N.to_nat o' + i) (N.to_nat o)); [reflexivity|].
  destruct (Nat.ltb_spec (N.to_nat o' + i) (N.to_nat o + length v)); [lia|reflexivity].
Qed.

Lemma rd_le_splice_same z o v :
  (N.to_nat o + length v <= length z)%nat ->
  rd_le (splice z o v) o (length v) = Some (le_dec v).
Proof. intros H. unfold rd_le. now rewrite slice_splice_same. Qed.

Lemma rd_le_splice_other z o v o' n :
  (N.to_nat o + length v <= length z)%nat ->
  o' + N.of_nat n <= o \/ o + N.of_nat (length v) <= o' ->
  rd_le (splice z o v) o' n = rd_le z o' n.
Proof. intros H D. unfold rd_le. now rewrite slice_splice_other. Qed.

(* a window that contains the written range sees the write at the shifted position *)
Lemma slice_splice_inside z o v o' n s :
  (N.to_nat o + length v <= length z)%nat ->
  slice z o' n = Some s ->
  o' <= o -> o + N.of_nat (length v) <= o' + n ->
  slice (splice z o v) o' n = Some (splice s (o - o') v).
Proof.
  intros H Hs H1 H2.
  pose proof (slice_length _ _ _ _ Hs) as Ls.
  pose proof (slice_inv _ _ _ _ Hs) as [Hb _].
  rewrite slice_some by (rewrite splice_length by assumption; lia).
  f_equal. apply nth_error_ext'. intros i.
  rewrite nth_error_firstn', nth_error_skipn', nth_error_splice by assumption.
  rewrite (nth_error_splice s) by lia.
  destruct (Nat.ltb_spec i (N.to_nat n)) as [L|L].
  - rewrite (nth_error_slice _ _ _ _ i Hs L).
    destruct (Nat.ltb_spec (N.to_nat o' + i) (N.to_nat o));
    destruct (Nat.ltb_spec i (N.to_nat (o - o'))); try lia; [reflexivity|].
    destruct (Nat.ltb_spec (N.to_nat o' + i) (N.to_nat o + length v));
    destruct (Nat.ltb_spec i (N.to_nat (o - o') + length v)); try lia; [|reflexivity].
    f_equal. lia.
  - destruct (Nat.ltb_spec i (N.to_nat (o - o'))); [lia|].
    destruct (Nat.ltb_spec i (N.to_nat (o - o') + length v)); [lia|].
    symmetry. apply nth_error_None. lia.
Qed.

(* ------------------------------------------------------------------ *)
(** * a sequence of writes *)

Definition put (z : bytes) (ov : N * bytes) : bytes := splice z (fst ov) (snd ov).
Definition puts (l : list (N * bytes)) (z : bytes) : bytes := fold_left put l z.
Definition fits (L : nat) (ov : N * bytes) : Prop := (N.to_nat (fst ov) + length (snd ov) <= L)%nat.
Definition apart (o n : N) (ov : N * bytes) : Prop :=
  o + n <= fst ov \/ fst ov + N.of_nat (length (snd ov)) <= o.

Lemma puts_length l z : Forall (fits (length z)) l -> length (puts l z) = length z.
Proof.
  revert z. induction l as [|ov l IH]; intros z H; [reflexivity|].
  inversion H as [|? ? H1 H2]; subst. cbn [puts fold_left].
  change (fold_left put l (put z ov)) with (puts l (put z ov)).
  assert (HL : length (put z ov) = length z) by (apply splice_length; exact H1).
  rewrite IH; [exact HL|]. now rewrite HL.
Qed.

Lemma slice_puts_other l z o n :
  Forall (fits (length z)) l -> Forall (apart o n) l -> slice (puts l z) o n = slice z o n.
Proof.
  revert z. induction l as [|ov l IH]; intros z H D; [reflexivity|].
  inversion H as [|? ? H1 H2]; subst. inversion D as [|? ? D1 D2]; subst.
  cbn [puts fold_left]. change (fold_left put l (put z ov)) with (puts l (put z ov)).
  assert (HL : length (put z ov) = length z) by (apply splice_length; exact H1).
  rewrite IH; [|now rewrite HL|assumption].
  apply slice_splice_other; [exact H1|]. destruct D1; [left|right]; assumption.
Qed.

Lemma Forall_skipn {A} (P : A -> Prop) l n : Forall P l -> Forall P (skipn n l).
Proof.
  revert l. induction n as [|n IH]; intros l H; [exact H|].
  destruct l; [constructor|]. inversion H; subst. cbn [skipn]. now apply IH.
Qed.

Lemma Forall_firstn {A} (P : A -> Prop) l n : Forall P l -> Forall P (firstn n l).
Proof.
  revert l. induction n as [|n IH]; intros l H; [constructor|].
  destruct l; [constructor|]. inversion H; subst. cbn [firstn]. constructor; auto.
Qed.

(* the j-th write can be read back when all later writes are apart from it *)
Lemma slice_puts_nth l z j o v :
  Forall (fits (length z)) l ->
  nth_error l j = Some (o, v) ->
  Forall (apart o (N.of_nat (length v))) (skipn (S j) l) ->
  slice (puts l z) o (N.of_nat (length v)) = Some v.
Proof.
  intros HF Hj HD.
  assert (Hsplit : l = firstn j l ++ (o, v) :: skipn (S j) l).
  { clear HF HD. revert l Hj. induction j as [|j IH]; intros [|x l] Hj; try discriminate.
    - cbn in Hj. injection Hj as ->. reflexivity.
    - cbn [firstn skipn app]. f_equal. now apply IH. }
  rewrite Hsplit. unfold puts. rewrite fold_left_app. cbn [fold_left].
  fold (puts (firstn j l) z). set (z1 := puts (firstn j l) z).
  assert (L1 : length z1 = length z) by (apply puts_length, Forall_firstn, HF).
  assert (Hov : fits (length z) (o, v)).
  { rewrite Forall_forall in HF. apply HF. eapply nth_error_In; eassumption. }
  unfold fits in Hov; cbn [fst snd] in Hov.
  change (fold_left put (skipn (S j) l) (put z1 (o, v))) with (puts (skipn (S j) l) (put z1 (o, v))).
  assert (L2 : length (put z1 (o, v)) = length z) by (unfold put; cbn [fst snd]; rewrite splice_length; lia).
  rewrite slice_puts_other; [| rewrite L2; now apply Forall_skipn | exact HD].
  apply slice_splice_same. lia.
Qed.

(* ------------------------------------------------------------------ *)
(** * single-byte overwrite *)

Lemma splice1_split l k b x :
  nth_error l k = Some x ->
  l = firstn k l ++ x :: skipn (S k) l /\
  splice l (N.of_nat k) [b] = firstn k l ++ b :: skipn (S k) l.
Proof.
  intros H. split.
  - revert l H. induction k as [|k IH]; intros [|y l] H; try discriminate.
    + cbn in H. injection H as ->. reflexivity.
    + cbn [firstn skipn app]. f_equal. now apply IH.
  - unfold splice. rewrite Nat2N.id. cbn [length app]. now rewrite Nat.add_1_r.
Qed.

Print Assumptions le_enc_length.
Print Assumptions le_dec_enc.
Print Assumptions le_enc_dec.
Print Assumptions le_dec_bound.
Print Assumptions be_dec_enc.
Print Assumptions be_enc_length.
Print Assumptions le_enc_inj.
Print Assumptions bcmp_eq_iff.
Print Assumptions bcmp_lt_trans.
Print Assumptions bcmp_antisym.
Print Assumptions slice_puts_nth.
Print Assumptions slice_splice_inside.
