(* THE COMPLETE FILE IMAGE OF AN ENGINE STATE, AND THE FILE CHECKER ON IT.

   EngineReadBridge.BytesLevel.image writes the TREE pages of a state into a buffer.  Here the rest of the file is
   added: the header page (Meta.encode_meta_page of the state's meta record, checksummed, in slot [d_tx mod 2]), some
   content [other] in the other slot (invalid, or a valid header of an OLDER transaction), and the free-list page run
   (Codec.encode_page of [PFree (d_flids st)] with overflow [d_fln - 1] at page [d_fl]).  Then:

   1. [open_image]      : Tree.open_db on the image returns that meta, [d_flids st], and the run [d_fl, d_fl + d_fln).
   2. [bucket_pages_image] : Tree.bucket_pages returns a permutation of [runs (d_disk st) (Rof st)];
      [partition_image] : Tree.partition_ok holds (from [db_exact_rec]).
   3. [inv_check_image] : Tree.inv_check = Ok tt, [check_m_image] : CheckM.check_m = Ok tt.
   4. [history_inv_check], [hops_inv_check] : for every state reached from [init_db]. *)
From Coq Require Import List NArith Bool Arith Lia ZifyN ZifyNat ZifyBool Permutation Sorted.
From Coq.Strings Require Import Byte.
From Jamm Require Spec Tree Cursor Codec CodecFacts BytesFacts Meta MetaFacts OldMeta CheckM CheckFacts Consts.
From Jamm Require Import Bytes.
From Jamm Require Import Engine EngineAbs EngineFacts EngineSpillFacts EngineModifyFacts EngineBridgeFacts EngineRebalanceFacts.
From Jamm Require Import EngineTxInvFacts EngineRefines EngineOwnDefs EngineOwnSpill EngineAllocInv.
From Jamm Require Import EngineDepth EngineSpillDepth EngineReadBridge EngineReadFull.
From Jamm Require Import EngineNoLeakDefs EngineNoLeak EngineReopen.
Import ListNotations.
Local Open Scope list_scope. Local Open Scope N_scope.
Set Warnings "-abstract-large-number".
Arguments N.add : simpl never. Arguments N.sub : simpl never. Arguments N.mul : simpl never.
Arguments N.div : simpl never. Arguments N.ltb : simpl never. Arguments N.leb : simpl never.
Arguments N.eqb : simpl never. Arguments N.modulo : simpl never. Arguments N.pow : simpl never.

Import BytesLevel.

(* ====================================================================== *)
(** * 1. The image *)

(* the header record of a state; the slot number is [d_tx mod 2] (db.rs: meta page id = tx_id % 2) *)
Definition slot_of (st : db) : N := d_tx st mod 2.
Definition meta_of (P : N) (st : db) : Meta.meta :=
  Meta.with_hash (Meta.mkMeta (slot_of st) Consts.magic Consts.version P (d_root st) (d_next st) (d_np st) (d_fl st) (d_tx st) 0).
Definition meta_page (P : N) (st : db) : bytes := Meta.encode_meta_page P (meta_of P st).

(* the free-list page run: the recorded ids, overflow count = run length - 1 *)
Definition fl_bytes (pad : N -> byte) (st : db) : bytes :=
  Codec.encode_page pad (d_fl st) (d_fln st - 1) (Codec.PFree (d_flids st)).

(* the whole file: tree pages, then the free-list run, then the two header slots; [other] = the bytes of the other
   header slot *)
Definition tree_image (pad : N -> byte) (P : N) (st : db) : bytes :=
  image pad P (d_disk st) (Rof st) (zeros (N.to_nat (d_np st * P))).
Definition file_image (pad : N -> byte) (P : N) (st : db) (other : bytes) : bytes :=
  splice (splice (splice (tree_image pad P st) (d_fl st * P) (fl_bytes pad st))
                 (slot_of st * P) (meta_page P st))
         ((1 - slot_of st) * P) other.

(* what the file checker reads of a header page *)
Definition hdr_prefix (P : N) (pg : bytes) : bytes := firstn (N.to_nat (N.min P 256)) pg.

(* the other slot: a page of P bytes which is not a valid header, or a valid header of an older transaction with the
   same page size *)
Definition other_ok (P : N) (st : db) (other : bytes) : Prop :=
  List.length other = N.to_nat P /\
  (Meta.read_slot true (hdr_prefix P other) = Meta.SlotInvalid \/
   exists m', Meta.read_slot true (hdr_prefix P other) = Meta.SlotValid m' /\ Meta.m_psz m' = P /\ Meta.m_tx m' < d_tx st).

(* the physical limits the abstract engine cannot know (all decidable): the file size fits 64 bits, so do the
   bucket sequence and the transaction id; the free-list record fits its page run; a header fits a page *)
Definition phys_ok (P : N) (st : db) : Prop :=
  d_np st * P < 2^64 /\ d_next st < 2^64 /\ d_tx st < 2^64 /\
  40 + 8 * llen (d_flids st) <= d_fln st * P /\ Meta.meta_end <= P.
Definition tree_fits (P : N) (st : db) : Prop :=
  forall p a, In p (Rof st) -> dget (d_disk st) p = Some a -> page_fits P p a.

(** ** the statement is true on the example history (evaluated, no theorem) *)
Module ImageExample.
Import ExHistory BytesExamples.
Definition hist_image : bytes := file_image ex_pad 4096 hist_st (zeros 4096).
Definition hist_inv_check := Eval vm_compute in Tree.inv_check (Codec.reader_of hist_image) 4096.
Example hist_inv_check_ok : Tree.inv_check (Codec.reader_of hist_image) 4096 = Codec.Ok tt.
Proof. vm_compute. reflexivity. Qed.
Example hist_check_m_ok : CheckM.check_m (Codec.reader_of hist_image) 4096 = Codec.Ok tt.
Proof. vm_compute. reflexivity. Qed.
(* the file [init_file] writes: both headers valid with tx 0, differing in meta_page only *)
Definition init_image : bytes :=
  file_image ex_pad 4096 (init_db 4096) (Meta.encode_meta_page 4096 (Meta.init_meta 4096 1)).
Example init_inv_check_ok : Tree.inv_check (Codec.reader_of init_image) 4096 = Codec.Ok tt.
Proof. vm_compute. reflexivity. Qed.
End ImageExample.

(* ====================================================================== *)
(** * 2. Reading the layers of the image *)

(* a buffer of np pages with a run written at page f (f >= 2), and the two header pages *)
Definition lay (T : bytes) (P f : N) (fb : bytes) (s : N) (mp other : bytes) : bytes :=
  splice (splice (splice T (f * P) fb) (s * P) mp) ((1 - s) * P) other.

Section Lay.
Variables (T : bytes) (P np f : N) (fb : bytes) (s : N) (mp other : bytes).
Hypothesis HP : 0 < P.
Hypothesis HT : List.length T = N.to_nat (np * P).
Hypothesis Hnp : 2 <= np.
Hypothesis Hf : 2 <= f.
Hypothesis Hfb : f * P + blen fb <= np * P.
Hypothesis Hs : s < 2.
Hypothesis Hmp : List.length mp = N.to_nat P.
Hypothesis Hother : List.length other = N.to_nat P.

Let L1 := splice T (f * P) fb.
Let L2 := splice L1 (s * P) mp.

Lemma lay_len1 : List.length L1 = N.to_nat (np * P).
Proof. unfold L1. rewrite BytesFacts.splice_length; [exact HT|]. unfold blen in Hfb. lia. Qed.
Lemma lay_fit2 : (N.to_nat (s * P) + List.length mp <= List.length L1)%nat.
Proof. rewrite lay_len1, Hmp. nia. Qed.
Lemma lay_len2 : List.length L2 = N.to_nat (np * P).
Proof. unfold L2. rewrite BytesFacts.splice_length; [exact lay_len1 | exact lay_fit2]. Qed.
Lemma lay_fit3 : (N.to_nat ((1 - s) * P) + List.length other <= List.length L2)%nat.
Proof. rewrite lay_len2, Hother. nia. Qed.
Lemma lay_length : List.length (lay T P f fb s mp other) = N.to_nat (np * P).
Proof. unfold lay. fold L1. fold L2. rewrite BytesFacts.splice_length; [exact lay_len2 | exact lay_fit3]. Qed.

(* beyond the headers and away from the run: the underlying buffer *)
Lemma lay_far : forall off l, 2 * P <= off -> (off + l <= f * P \/ f * P + blen fb <= off) ->
  slice (lay T P f fb s mp other) off l = slice T off l.
Proof.
  intros off l H2 Hd. unfold lay. fold L1. fold L2.
  rewrite BytesFacts.slice_splice_other; [| exact lay_fit3 | right; rewrite Hother; nia].
  unfold L2. rewrite BytesFacts.slice_splice_other; [| exact lay_fit2 | right; rewrite Hmp; nia].
  unfold L1. apply BytesFacts.slice_splice_other; [unfold blen in Hfb; lia|]. unfold blen in Hd. exact Hd.
Qed.

(* inside the run *)
Lemma lay_run : forall o l, o + l <= blen fb -> slice (lay T P f fb s mp other) (f * P + o) l = slice fb o l.
Proof.
  intros o l Hol. unfold lay. fold L1. fold L2.
  rewrite BytesFacts.slice_splice_other; [| exact lay_fit3 | right; rewrite Hother; nia].
  unfold L2. rewrite BytesFacts.slice_splice_other; [| exact lay_fit2 | right; rewrite Hmp; nia].
  unfold L1. apply slice_splice_inside; [unfold blen in Hfb; lia | exact Hol].
Qed.

(* the state's header slot *)
Lemma lay_slot : forall o l, o + l <= P -> slice (lay T P f fb s mp other) (s * P + o) l = slice mp o l.
Proof.
  intros o l Hol. unfold lay. fold L1. fold L2.
  rewrite BytesFacts.slice_splice_other; [| exact lay_fit3 | rewrite Hother; nia].
  unfold L2. apply slice_splice_inside; [exact lay_fit2 | unfold blen; lia].
Qed.

(* the other header slot *)
Lemma lay_other : forall o l, o + l <= P -> slice (lay T P f fb s mp other) ((1 - s) * P + o) l = slice other o l.
Proof.
  intros o l Hol. unfold lay. fold L1. fold L2.
  apply slice_splice_inside; [exact lay_fit3 | unfold blen; lia].
Qed.
End Lay.

(* ====================================================================== *)
(** * 3. The header: the checker reads a prefix of the header page *)

Lemma slice_firstn : forall (b : bytes) k o n, (N.to_nat o + N.to_nat n <= k)%nat -> (k <= List.length b)%nat ->
  slice (firstn k b) o n = slice b o n.
Proof.
  intros b k o n H1 H2.
  rewrite BytesFacts.slice_some by (rewrite firstn_length; lia).
  rewrite BytesFacts.slice_some by lia. f_equal. apply BytesFacts.nth_error_ext'. intros i.
  rewrite !BytesFacts.nth_error_firstn'. destruct (Nat.ltb_spec i (N.to_nat n)) as [L|L]; [|reflexivity].
  rewrite !BytesFacts.nth_error_skipn', BytesFacts.nth_error_firstn'.
  destruct (Nat.ltb_spec (N.to_nat o + i) k); [reflexivity | lia].
Qed.

Lemma read_slot_prefix : forall ct (pg : bytes) k, (N.to_nat Meta.meta_end <= k)%nat -> (k <= List.length pg)%nat ->
  Meta.read_slot ct (firstn k pg) = Meta.read_slot ct pg.
Proof.
  intros ct pg k H1 H2. unfold Meta.read_slot, Meta.page_type_of, Meta.decode_meta, rd_le.
  change (N.to_nat Meta.meta_end) with 104%nat in H1.
  rewrite !slice_firstn by (try exact H2; MetaFacts.offs; lia). reflexivity.
Qed.

Lemma slice_whole_prefix : forall (b : bytes) n, (N.to_nat n <= List.length b)%nat -> slice b 0 n = Some (firstn (N.to_nat n) b).
Proof. intros b n H. rewrite BytesFacts.slice_some by lia. reflexivity. Qed.

(* selection: the state's header in its slot, the other slot invalid or older *)
Lemma select_newer : forall P (m : Meta.meta) (so : Meta.slot) (s : N), s < 2 -> Meta.m_psz m = P ->
  (so = Meta.SlotInvalid \/ exists m', so = Meta.SlotValid m' /\ Meta.m_psz m' = P /\ Meta.m_tx m' < Meta.m_tx m) ->
  Meta.select_slots P (if s =? 0 then Meta.SlotValid m else so) (if s =? 0 then so else Meta.SlotValid m) = Meta.SelMeta m.
Proof.
  intros P m so s Hs Hp Hso. destruct (N.eqb_spec s 0) as [E|E].
  - destruct Hso as [->|(m' & -> & Hp' & Ht)]; cbn [Meta.select_slots].
    + rewrite Hp, N.eqb_refl. reflexivity.
    + rewrite Hp, Hp', N.eqb_refl. cbn [negb]. destruct (N.ltb_spec (Meta.m_tx m') (Meta.m_tx m)); [reflexivity | lia].
  - destruct Hso as [->|(m' & -> & Hp' & Ht)]; cbn [Meta.select_slots].
    + rewrite Hp, N.eqb_refl. reflexivity.
    + rewrite Hp, Hp', N.eqb_refl. cbn [negb]. destruct (N.ltb_spec (Meta.m_tx m) (Meta.m_tx m')); [lia | reflexivity].
Qed.

(* ====================================================================== *)
(** * 4. Where things are in the image of a state *)

Record layout_facts (st : db) : Prop := {
  lf_np : 2 <= d_np st;
  lf_root : In (d_root st) (Rof st);
  lf_closed : closedR (d_disk st) (Rof st);
  lf_nodup : NoDup (runs (d_disk st) (Rof st) ++ nrun (d_fl st) (d_fln st));
  lf_live : forall x, In x (runs (d_disk st) (Rof st) ++ nrun (d_fl st) (d_fln st)) -> 2 <= x < d_np st }.

Lemma okz_layout : forall st, db_okz st -> layout_facts st.
Proof.
  intros st [(_ & Hal & Hnd & _) _]. destruct Hal as (_ & Hnp & _ & _ & _ & _ & Hroot & HC & Hlive).
  constructor; auto. intros x Hx. exact (proj1 (Hlive x Hx)).
Qed.

Lemma fl_bytes_len : forall pad st, blen (fl_bytes pad st) = 40 + 8 * llen (d_flids st).
Proof. intros pad st. unfold fl_bytes. rewrite CodecFacts.encode_page_length. reflexivity. Qed.

Section StateImage.
Variables (st : db) (pad : N -> byte) (P : N) (other : bytes).
Hypothesis Hok : db_okz st.
Hypothesis HP : 0 < P.
Hypothesis Hfit : tree_fits P st.
Hypothesis Hph : phys_ok P st.
Hypothesis Hother : List.length other = N.to_nat P.

Let F := file_image pad P st other.
Let LF := okz_layout st Hok.

Lemma fl_run_bounds : 1 <= d_fln st /\ 2 <= d_fl st /\ d_fl st + d_fln st <= d_np st.
Proof.
  destruct Hph as (_ & _ & _ & Hsz & _).
  assert (H1 : 1 <= d_fln st) by nia. split; [exact H1|].
  pose proof (lf_live st LF (d_fl st)) as Ha. pose proof (lf_live st LF (d_fl st + d_fln st - 1)) as Hb.
  assert (In (d_fl st) (runs (d_disk st) (Rof st) ++ nrun (d_fl st) (d_fln st))) by (apply in_or_app; right; apply In_nrun; lia).
  assert (In (d_fl st + d_fln st - 1) (runs (d_disk st) (Rof st) ++ nrun (d_fl st) (d_fln st))) by (apply in_or_app; right; apply In_nrun; lia).
  specialize (Ha ltac:(assumption)). specialize (Hb ltac:(assumption)). lia.
Qed.

Lemma tree_image_spec :
  List.length (tree_image pad P st) = N.to_nat (d_np st * P) /\
  forall p a, In p (Rof st) -> dget (d_disk st) p = Some a -> forall o l, o + l <= blen (page_bytes pad p a) ->
    slice (tree_image pad P st) (p * P + o) l = slice (page_bytes pad p a) o l.
Proof.
  destruct (image_spec pad P (d_disk st) (d_np st) HP (Rof st) (zeros (N.to_nat (d_np st * P)))
              (BytesFacts.zeros_length _) (NoDup_app_l _ _ (lf_nodup st LF)) Hfit) as [Hlen Hrd].
  { intros x Hx. apply (lf_live st LF x). apply in_or_app. now left. }
  split; [|exact Hrd]. unfold tree_image. rewrite Hlen. apply BytesFacts.zeros_length.
Qed.

Lemma meta_page_len : List.length (meta_page P st) = N.to_nat P.
Proof. destruct Hph as (_ & _ & _ & _ & Hme). unfold meta_page. now apply MetaFacts.encode_length. Qed.

Lemma slot_lt : slot_of st < 2.
Proof. unfold slot_of. apply N.mod_lt. lia. Qed.

Lemma fl_fits_file : d_fl st * P + blen (fl_bytes pad st) <= d_np st * P.
Proof.
  destruct fl_run_bounds as (H1 & H2 & H3). destruct Hph as (_ & _ & _ & Hsz & _). rewrite fl_bytes_len. nia.
Qed.

Lemma image_length : List.length F = N.to_nat (d_np st * P).
Proof.
  destruct fl_run_bounds as (H1 & H2 & H3).
  exact (lay_length _ P (d_np st) (d_fl st) _ (slot_of st) _ other HP (proj1 tree_image_spec) (lf_np st LF) H2
           fl_fits_file slot_lt meta_page_len Hother).
Qed.

(* the free-list run *)
Lemma image_reads_fl : CodecFacts.reads_buffer (Codec.reader_of F) (d_fl st * P) (fl_bytes pad st).
Proof.
  destruct fl_run_bounds as (H1 & H2 & H3). intros o l Hol. unfold Codec.reader_of.
  exact (lay_run _ P (d_np st) (d_fl st) _ (slot_of st) _ other HP (proj1 tree_image_spec) (lf_np st LF) H2
           fl_fits_file slot_lt meta_page_len Hother o l Hol).
Qed.

(* the tree pages *)
Lemma image_encodes_tree : file_encodes pad (Codec.reader_of F) P (d_disk st) (Rof st).
Proof.
  destruct fl_run_bounds as (H1 & H2 & H3). destruct tree_image_spec as [HlenT HrdT].
  intros p a Hp Hg. split; [now apply Hfit|]. intros o l Hol. unfold Codec.reader_of.
  rewrite <- (HrdT p a Hp Hg o l Hol).
  destruct (Hfit p a Hp Hg) as (_ & _ & _ & _ & Hroom).
  pose proof (CodecFacts.encode_page_length pad p (ap_over a) (body_of a)) as Hlp. fold (page_bytes pad p a) in Hlp.
  assert (Hrun : forall x, p <= x < p + (ap_over a + 1) -> In x (runs (d_disk st) (Rof st))).
  { intros x Hx. apply In_runs. exists p. split; [exact Hp|]. rewrite (prun_some _ p a Hg). now apply In_nrun. }
  assert (Hp2 : 2 <= p). { apply (lf_live st LF p). apply in_or_app. left. apply Hrun. lia. }
  assert (Hdis : forall x, p <= x < p + (ap_over a + 1) -> d_fl st <= x < d_fl st + d_fln st -> False).
  { intros x Hx1 Hx2. apply (EngineRebalanceFacts.NoDup_app_disj _ _ x (lf_nodup st LF)); [now apply Hrun | now apply In_nrun]. }
  destruct Hph as (_ & _ & _ & Hsz & _). pose proof (fl_bytes_len pad st) as Hfl.
  apply (lay_far _ P (d_np st) (d_fl st) _ (slot_of st) _ other HP HlenT (lf_np st LF) H2 fl_fits_file slot_lt meta_page_len Hother).
  - nia.
  - rewrite Hlp in Hol. destruct (N.le_gt_cases p (d_fl st)) as [Hc|Hc].
    + left. assert (p + (ap_over a + 1) <= d_fl st) by (apply N.le_ngt; intros Hc'; apply (Hdis (d_fl st)); lia). nia.
    + right. assert (d_fl st + d_fln st <= p) by (apply N.le_ngt; intros Hc'; apply (Hdis p); lia). nia.
Qed.

(* the two header pages, as the checker reads them *)
Lemma file_image_lay : file_image pad P st other =
  lay (tree_image pad P st) P (d_fl st) (fl_bytes pad st) (slot_of st) (meta_page P st) other.
Proof. reflexivity. Qed.
Lemma min_hdr : (N.to_nat Meta.meta_end <= N.to_nat (N.min P 256))%nat /\ N.min P 256 <= P.
Proof. destruct Hph as (_ & _ & _ & _ & Hme). revert Hme. MetaFacts.offs. lia. Qed.

Lemma image_hdr_slot : Tree.read_header_page (Codec.reader_of F) P (slot_of st) = hdr_prefix P (meta_page P st).
Proof.
  destruct fl_run_bounds as (H1 & H2 & H3). destruct min_hdr as [_ Hm].
  unfold Tree.read_header_page, Codec.reader_of, F. rewrite file_image_lay. rewrite <- (N.add_0_r (slot_of st * P)).
  rewrite (lay_slot _ P (d_np st) (d_fl st) _ (slot_of st) _ other HP (proj1 tree_image_spec) (lf_np st LF) H2
           fl_fits_file slot_lt meta_page_len Hother 0 (N.min P 256)) by lia.
  rewrite slice_whole_prefix by (rewrite meta_page_len; lia). reflexivity.
Qed.

Lemma image_hdr_other : Tree.read_header_page (Codec.reader_of F) P (1 - slot_of st) = hdr_prefix P other.
Proof.
  destruct fl_run_bounds as (H1 & H2 & H3). destruct min_hdr as [_ Hm].
  unfold Tree.read_header_page, Codec.reader_of, F. rewrite file_image_lay. rewrite <- (N.add_0_r ((1 - slot_of st) * P)).
  rewrite (lay_other _ P (d_np st) (d_fl st) _ (slot_of st) _ other HP (proj1 tree_image_spec) (lf_np st LF) H2
           fl_fits_file slot_lt meta_page_len Hother 0 (N.min P 256)) by lia.
  rewrite slice_whole_prefix by (rewrite Hother; lia). reflexivity.
Qed.

Lemma np_bounds : P < 2^64 /\ d_np st < 2^64.
Proof. destruct Hph as (Hsz & _). pose proof (lf_np st LF). split; nia. Qed.

Lemma meta_of_wf : Meta.meta_wf (Meta.mkMeta (slot_of st) Consts.magic Consts.version P (d_root st) (d_next st) (d_np st) (d_fl st) (d_tx st) 0).
Proof.
  destruct Hph as (Hsz & Hnx & Htx & _ & _). destruct np_bounds as [HP64 Hnp64]. destruct fl_run_bounds as (H1 & H2 & H3).
  pose proof slot_lt as Hs.
  assert (Hr : d_root st < d_np st).
  { apply (lf_live st LF). apply in_or_app. left. apply In_runs. exists (d_root st). split; [exact (lf_root st LF) | apply In_prun_self]. }
  unfold Meta.meta_wf. cbn [Meta.m_page Meta.m_magic Meta.m_version Meta.m_psz Meta.m_root Meta.m_next Meta.m_np Meta.m_fl Meta.m_tx Meta.m_hash].
  assert (E32 : 2^32 = 4294967296) by reflexivity. rewrite E32.
  repeat split; try assumption; try reflexivity; lia.
Qed.

Lemma image_slot_valid : Meta.read_slot true (hdr_prefix P (meta_page P st)) = Meta.SlotValid (meta_of P st).
Proof.
  destruct Hph as (_ & _ & _ & _ & Hme). destruct min_hdr as [Hm1 Hm2]. unfold hdr_prefix.
  rewrite read_slot_prefix by (try rewrite meta_page_len; lia).
  unfold meta_page, meta_of. apply MetaFacts.read_slot_encode; [exact meta_of_wf | exact Hme].
Qed.

(* THE HEADER: the checker selects the state's header *)
Lemma open_meta_image : other_ok P st other -> Tree.open_meta (Codec.reader_of F) P = Meta.SelMeta (meta_of P st).
Proof.
  intros [_ Hso]. unfold Tree.open_meta, OldMeta.select_any. change Consts.meta_checks_page_type with true.
  pose proof slot_lt as Hs. pose proof image_hdr_slot as Ha. pose proof image_hdr_other as Hb.
  assert (Hsel : Meta.select_slots P (Meta.read_slot true (Tree.read_header_page (Codec.reader_of F) P 0))
                   (Meta.read_slot true (Tree.read_header_page (Codec.reader_of F) P 1)) = Meta.SelMeta (meta_of P st)).
  { pose proof (select_newer P (meta_of P st) (Meta.read_slot true (hdr_prefix P other)) (slot_of st) Hs eq_refl) as Hn.
    destruct (N.eqb_spec (slot_of st) 0) as [E|E].
    - rewrite E in Ha, Hb. change (1 - 0) with 1 in Hb. rewrite Ha, Hb, image_slot_valid. apply Hn. exact Hso.
    - assert (E1 : slot_of st = 1) by lia. rewrite E1 in Ha, Hb. change (1 - 1) with 0 in Hb.
      rewrite Ha, Hb, image_slot_valid. apply Hn. exact Hso. }
  rewrite Hsel. reflexivity.
Qed.

(* OPENING THE FILE: the header, the recorded free ids, the free-list run *)
Theorem open_image_sec : other_ok P st other -> Forall (fun i => i < 2^64) (d_flids st) ->
  Tree.open_db (Codec.reader_of F) P =
    Codec.Ok (Tree.mkOpened (meta_of P st) (d_flids st) (Codec.seqN (d_fl st) (N.to_nat (d_fln st)))).
Proof.
  intros Hso Hids. unfold Tree.open_db. rewrite (open_meta_image Hso).
  change (Meta.m_fl (meta_of P st)) with (d_fl st).
  destruct fl_run_bounds as (H1 & H2 & H3). destruct np_bounds as [HP64 Hnp64]. destruct Hph as (Hsz & _ & _ & Hflsz & _).
  rewrite (CodecFacts.codec_page_free pad P (d_fl st) (d_fln st - 1) (d_flids st) (Codec.reader_of F)).
  - cbn [Codec.bind Codec.ph_overflow]. replace (d_fln st - 1 + 1) with (d_fln st) by lia. reflexivity.
  - lia.
  - lia.
  - exact Hids.
  - unfold Codec.body_size. change Meta.page_hdr_size with 40. nia.
  - unfold Codec.body_size. change Meta.page_hdr_size with 40. replace (d_fln st - 1 + 1) with (d_fln st) by lia. exact Hflsz.
  - exact image_reads_fl.
Qed.
End StateImage.

Theorem open_image : forall st pad P other, db_okz st -> 0 < P -> tree_fits P st -> phys_ok P st ->
  other_ok P st other -> Forall (fun i => i < 2^64) (d_flids st) ->
  Tree.open_db (Codec.reader_of (file_image pad P st other)) P =
    Codec.Ok (Tree.mkOpened (meta_of P st) (d_flids st) (Codec.seqN (d_fl st) (N.to_nat (d_fln st)))).
Proof. intros st pad P other Hok HP Hfit Hph Hso Hids. exact (open_image_sec st pad P other Hok HP Hfit Hph (proj1 Hso) Hso Hids). Qed.

(* ====================================================================== *)
(** * 5. The pages the checker reaches *)

Lemma seqN_map : forall k s, Codec.seqN s k = map (fun i => s + N.of_nat i) (seq 0 k).
Proof.
  induction k as [|k IH]; intros s; [reflexivity|]. cbn [Codec.seqN seq map]. f_equal; [lia|].
  rewrite IH, <- seq_shift, map_map. apply map_ext. intros i. lia.
Qed.
Lemma seqN_nrun : forall s n, Codec.seqN s (N.to_nat n) = nrun s n.
Proof. intros s n. unfold nrun. apply seqN_map. Qed.

Lemma perm_app4 : forall (a b c e : list N), Permutation ((a ++ c) ++ (b ++ e)) ((a ++ b) ++ (c ++ e)).
Proof.
  intros a b c e. rewrite <- !app_assoc. apply Permutation_app_head. rewrite !app_assoc.
  apply Permutation_app_tail. apply Permutation_app_comm.
Qed.

(* the pages of the decoded tree = the runs of the head pages below (and including) the root page *)
Lemma tree_pages_perm : forall f d p t, tree_of f d p = Some t ->
  Permutation (Tree.tree_pages t) (runs d (p :: ppages f d p)).
Proof.
  unfold runs. induction f as [|f IH]; intros d p t Ht; [discriminate|].
  pose proof Ht as Ht0. cbn [tree_of] in Ht. destruct (dget d p) as [a|] eqn:Hg; [|discriminate].
  cbn [ppages]. rewrite Hg. cbn [flat_map]. rewrite (prun_some d p a Hg).
  destruct (ap_body a) as [l|es] eqn:Hb.
  - inversion Ht; subst t. cbn [Tree.tree_pages]. rewrite seqN_nrun. cbn [flat_map]. rewrite app_nil_r. apply Permutation_refl.
  - destruct (tree_of_branch_inv f d p a es t Hg Hb Ht0) as (ks & -> & HF). cbn [Tree.tree_pages]. rewrite seqN_nrun.
    apply Permutation_app_head. rewrite flat_map_app. clear Ht Ht0 Hb Hg.
    induction HF as [|e kt es ks [_ E2] _ IHF]; [apply Permutation_refl|].
    cbn [flat_map map]. rewrite flat_map_app.
    eapply Permutation_trans; [apply Permutation_app; [exact (IH d (snd e) (snd kt) E2) | exact IHF]|].
    cbn [flat_map]. apply perm_app4.
Qed.

Lemma mapM_concat_perm : forall (g : Codec.lent -> Codec.res (list N)) (h : leafent -> list N) l,
  (forall e, In e l -> exists ys, g (ent_of e) = Codec.Ok ys /\ Permutation ys (h e)) ->
  exists subs, Codec.mapM g (map ent_of l) = Codec.Ok subs /\ Permutation (List.concat subs) (flat_map h l).
Proof.
  intros g h. induction l as [|e l IH]; intros H.
  - exists []. split; [reflexivity | apply Permutation_refl].
  - destruct (H e (or_introl eq_refl)) as (ys & Hy & Hp). destruct (IH (fun x Hx => H x (or_intror Hx))) as (subs & Hs & Hps).
    exists (ys :: subs). cbn [map Codec.mapM]. rewrite Hy. cbn [Codec.bind]. rewrite Hs. cbn [Codec.bind].
    split; [reflexivity|]. cbn [List.concat flat_map]. now apply Permutation_app.
Qed.

(* ONE BUCKET WITH EVERYTHING NESTED IN IT: the checker's page walk returns the runs of the bucket's footprint *)
Theorem bucket_pages_ok : forall pad rd P d R np, 0 < P -> closedR d R -> file_encodes pad rd P d R ->
  forall n F r m, sbk n d r -> dbk m d r -> In r R ->
    (List.length (fpg n d r) <= F)%nat -> (List.length (fpg n d r) <= N.to_nat np)%nat ->
    exists reach, Tree.bucket_pages F rd P np r = Codec.Ok reach /\ Permutation reach (runs d (fpg n d r)).
Proof.
  intros pad rd P d R np HP HC HE. induction n as [|n IH]; intros F r m Hs Hd Hr HF Hnp; [destruct Hs|].
  destruct m as [|m]; [destruct Hd|]. cbn [dbk] in Hd. destruct Hd as [h Hd].
  cbn [sbk] in Hs. destruct Hs as (h' & l & Hh & HI & _ & Hv & HFs).
  rewrite fpg_S, runs_app. rewrite fpg_S, app_length in HF, Hnp. cbn [List.length] in HF, Hnp.
  rewrite (PageView_page_ents d h' r l Hv fuel0 Hh) in HF, Hnp |- *.
  destruct F as [|F]; [lia|].
  destruct (PageView_tree d h' r l Hv fuel0 Hh) as (t & Ht & Hfl & _).
  pose proof (PDp_PInv_le h' d None None None r _ h HI Hd) as Hle.
  pose proof (PInv_PDp_pages h' d None None None r _ h fuel0 HI Hd ltac:(lia)) as Hpg.
  pose proof (PDp_tree_of_exact h _ d r fuel0 t Hd Ht) as Hex.
  pose proof (tree_of_mono h d r t Hex (N.to_nat np) ltac:(lia)) as Hnpt.
  pose proof (build_tree_of pad rd P d R HP HC HE (N.to_nat np) r t Hr Hnpt) as Hbt.
  cbn [Tree.bucket_pages]. rewrite Hbt. cbn [Codec.bind]. rewrite Hfl, runs_flat_map.
  destruct (mapM_concat_perm
              (fun e => match e with Codec.EKv _ _ => Codec.Ok [] | Codec.EBk _ r0 _ => Tree.bucket_pages F rd P np r0 end)
              (fun e => runs d (match e with LBk _ r' _ => fpg n d r' | LKv _ _ => [] end)) l) as (subs & Hsubs & Hperm).
  - intros e He. destruct e as [k v|k r' nx]; cbn [ent_of]; [exists []; split; [reflexivity | apply Permutation_refl]|].
    pose proof (PDp_view _ h d r h' l Hd Hv) as HG. rewrite Forall_forall in HG, HFs.
    pose proof (HG _ He) as Hd'. pose proof (HFs _ He) as Hs'. cbn [ent_ok] in Hd'. cbn beta iota in Hs'.
    pose proof (closed_view_entry d R h' r l k r' nx HC Hr Hv He) as Hr'.
    pose proof (flat_map_length_In (fun e => match e with LBk _ r' _ => fpg n d r' | LKv _ _ => [] end) l _ He) as Hsub.
    cbn beta iota in Hsub. apply (IH F r' m Hs' Hd' Hr'); lia.
  - rewrite Hsubs. cbn [Codec.bind]. eexists. split; [reflexivity|].
    apply Permutation_app; [exact (tree_pages_perm fuel0 d r t Ht) | exact Hperm].
Qed.

(* A STATE: the walk from the root returns the runs of the reachable pages *)
Theorem state_bucket_pages : forall st pad rd P, db_okd st -> 0 < P ->
  file_encodes pad rd P (d_disk st) (Rof st) ->
  exists reach, Tree.bucket_pages (N.to_nat (d_np st)) rd P (d_np st) (d_root st) = Codec.Ok reach /\
    Permutation reach (runs (d_disk st) (Rof st)).
Proof.
  intros st pad rd P [Hok [m Hd]] HP HE. pose proof (db_okz_strict st Hok) as Hs.
  pose proof (Rof_length st Hok) as Hlen. destruct Hok as [(_ & Hal & _) _].
  destruct Hal as (_ & _ & _ & _ & _ & _ & Hroot & HC & _).
  exact (bucket_pages_ok pad rd P (d_disk st) (Rof st) (d_np st) HP HC HE 16 _ (d_root st) m Hs Hd Hroot Hlen Hlen).
Qed.

(* ====================================================================== *)
(** * 6. The partition check: the converse of [CheckFacts.partition_ok_perm] *)

Lemma insert_sorted_ss : forall x l, StronglySorted N.le l -> StronglySorted N.le (Tree.insert_sorted x l).
Proof.
  intros x l. induction l as [|a l IH]; intros H; cbn [Tree.insert_sorted].
  - constructor; constructor.
  - inversion H as [|? ? Hl Ha]; subst. destruct (N.leb_spec x a) as [L|L].
    + constructor; [exact H|]. constructor; [exact L|]. rewrite Forall_forall in Ha |- *. intros y Hy. specialize (Ha y Hy). lia.
    + constructor; [now apply IH|]. rewrite Forall_forall in Ha |- *. intros y Hy.
      apply (Permutation_in _ (CheckFacts.insert_sorted_perm x l)) in Hy. destruct Hy as [<-|Hy]; [lia | now apply Ha].
Qed.

Lemma sortN_ss : forall l, StronglySorted N.le (Tree.sortN l).
Proof.
  intros l. unfold Tree.sortN.
  assert (G : forall l acc, StronglySorted N.le acc ->
              StronglySorted N.le (fold_left (fun acc x => Tree.insert_sorted x acc) l acc)).
  { clear l. induction l as [|x l IH]; intros acc Ha; cbn [fold_left]; [exact Ha|]. apply IH. now apply insert_sorted_ss. }
  apply G. constructor.
Qed.

Lemma seqN_ss : forall n s, StronglySorted N.le (Codec.seqN s n).
Proof.
  induction n as [|n IH]; intros s; cbn [Codec.seqN]; constructor; [apply IH|].
  rewrite Forall_forall. intros y Hy. apply CheckFacts.in_seqN in Hy. lia.
Qed.

Lemma ss_perm_eq : forall a b : list N, StronglySorted N.le a -> StronglySorted N.le b -> Permutation a b -> a = b.
Proof.
  induction a as [|x a IH]; intros b Ha Hb Hp.
  - apply Permutation_nil in Hp. now subst.
  - destruct b as [|y b]; [apply Permutation_sym, Permutation_nil in Hp; discriminate|].
    inversion Ha as [|? ? Ha' Hx]; subst. inversion Hb as [|? ? Hb' Hy]; subst.
    rewrite Forall_forall in Hx, Hy.
    assert (E : x = y).
    { assert (Hxin : In x (y :: b)) by (apply (Permutation_in _ Hp); now left).
      assert (Hyin : In y (x :: a)) by (apply (Permutation_in _ (Permutation_sym Hp)); now left).
      destruct Hxin as [E|Hxin]; [now symmetry|]. destruct Hyin as [E|Hyin]; [exact E|].
      specialize (Hx y Hyin). specialize (Hy x Hxin). lia. }
    subst y. f_equal. apply IH; auto. now apply Permutation_cons_inv in Hp.
Qed.

Theorem perm_partition_ok : forall np reach flrun free,
  Permutation (reach ++ flrun ++ free) (Codec.seqN 2 (N.to_nat (np - 2))) ->
  Tree.partition_ok np reach flrun free = true.
Proof.
  intros np reach flrun free Hp. unfold Tree.partition_ok.
  rewrite (ss_perm_eq _ _ (sortN_ss _) (seqN_ss _ _) (Permutation_trans (CheckFacts.sortN_perm _) Hp)).
  apply CheckFacts.eq_listN_refl.
Qed.

(* NoDup + same elements = permutation of [2, np) *)
Lemma exact_perm : forall st, db_exact_rec st -> NoDup (d_flids st) ->
  Permutation (runs (d_disk st) (Rof st) ++ nrun (d_fl st) (d_fln st) ++ d_flids st) (Codec.seqN 2 (N.to_nat (d_np st - 2))).
Proof.
  intros st Hrec Hnd. pose proof (flids_exact st Hrec) as Hex. destruct Hrec as [[Hok _] _].
  pose proof (okz_layout st Hok) as LF. rewrite app_assoc.
  apply NoDup_Permutation; [| apply CheckFacts.seqN_NoDup |].
  - apply EngineReopen.NoDup_app_disj; [exact (lf_nodup st LF) | exact Hnd |].
    intros x Hx Hl. apply Hex in Hx. destruct Hx as [_ Hx]. apply Hx. exact Hl.
  - intros x. rewrite CheckFacts.in_seqN. split.
    + intros Hx. apply in_app_or in Hx. destruct Hx as [Hx|Hx].
      * pose proof (lf_live st LF x Hx). lia.
      * apply Hex in Hx. lia.
    + intros Hx. destruct (in_dec N.eq_dec x (live_of st (Rof st))) as [Hl|Hl].
      * apply in_or_app. left. exact Hl.
      * apply in_or_app. right. apply Hex. split; [lia | exact Hl].
Qed.

(* ====================================================================== *)
(** * 7. The file checker accepts the image *)

(* the high-water mark is at least 4: the root page and the free-list page are two different pages of [2, np) *)
Lemma np_ge_4 : forall st P, db_okz st -> phys_ok P st -> 4 <= d_np st.
Proof.
  intros st P Hok Hph. pose proof (okz_layout st Hok) as LF. destruct Hph as (_ & _ & _ & Hsz & _).
  assert (H1 : 1 <= d_fln st) by nia.
  assert (Hr : In (d_root st) (runs (d_disk st) (Rof st))).
  { apply In_runs. exists (d_root st). split; [exact (lf_root st LF) | apply In_prun_self]. }
  assert (Hf : In (d_fl st) (nrun (d_fl st) (d_fln st))) by (apply In_nrun; lia).
  pose proof (lf_live st LF (d_root st) (in_or_app _ _ _ (or_introl Hr))) as Br.
  pose proof (lf_live st LF (d_fl st) (in_or_app _ _ _ (or_intror Hf))) as Bf.
  assert (d_root st <> d_fl st).
  { intros E. apply (EngineRebalanceFacts.NoDup_app_disj _ _ (d_fl st) (lf_nodup st LF)); [now rewrite <- E | exact Hf]. }
  lia.
Qed.

Theorem inv_check_image : forall st pad P other,
  db_exact_rec st -> db_okd st -> NoDup (d_flids st) ->
  tree_fits P st -> phys_ok P st -> other_ok P st other ->
  Tree.inv_check (Codec.reader_of (file_image pad P st other)) P = Codec.Ok tt.
Proof.
  intros st pad P other Hrec Hokd Hnd Hfit Hph Hso. pose proof (proj1 Hokd) as Hok.
  assert (HP : 0 < P). { destruct Hph as (_ & _ & _ & _ & Hme). revert Hme. MetaFacts.offs. lia. }
  assert (Hids : Forall (fun i => i < 2^64) (d_flids st)).
  { apply Forall_forall. intros x Hx. apply (flids_exact st Hrec) in Hx. destruct Hph as (Hsz & _). nia. }
  pose proof (np_ge_4 st P Hok Hph) as H4.
  pose proof (image_encodes_tree st pad P other Hok HP Hfit Hph (proj1 Hso)) as HE.
  unfold Tree.inv_check. rewrite (open_image st pad P other Hok HP Hfit Hph Hso Hids).
  cbn [Codec.bind Tree.o_meta Tree.o_free Tree.o_flrun].
  change (Meta.m_np (meta_of P st)) with (d_np st). change (Meta.m_root (meta_of P st)) with (d_root st).
  destruct (N.ltb_spec (d_np st) 4) as [L|_]; [lia|].
  destruct (state_bucket_pages st pad _ P Hokd HP HE) as (reach & Hr & Hperm). rewrite Hr. cbn [Codec.bind].
  rewrite (FileChecker.state_bucket_wf st pad _ P Hokd HP HE). cbn [Codec.bind negb].
  rewrite perm_partition_ok; [reflexivity|]. rewrite seqN_nrun.
  eapply Permutation_trans; [apply Permutation_app_tail; exact Hperm | now apply exact_perm].
Qed.

(* the library's own consistency check (DB::check, strict mode) accepts it too *)
Theorem check_m_image : forall st pad P other,
  db_exact_rec st -> db_okd st -> NoDup (d_flids st) ->
  tree_fits P st -> phys_ok P st -> other_ok P st other ->
  CheckM.check_m (Codec.reader_of (file_image pad P st other)) P = Codec.Ok tt.
Proof. intros. apply CheckFacts.inv_check_implies_check_m. now apply inv_check_image. Qed.

(* from the invariant of histories ([EngineReopen.db_inv] = exact partition + record + [pend_inv] + uniform depth) *)
Lemma inv_flids_NoDup : forall st, db_inv st -> NoDup (d_flids st).
Proof.
  intros st Hinv. destruct (db_inv_facts st Hinv) as (_ & Hok & _ & [_ Hpi] & _ & Hfl).
  destruct Hok as [(_ & Hal & _) _]. destruct Hal as (_ & _ & Hasc & _). now apply flids_NoDup.
Qed.

Theorem inv_check_inv : forall st pad P other, db_inv st ->
  tree_fits P st -> phys_ok P st -> other_ok P st other ->
  Tree.inv_check (Codec.reader_of (file_image pad P st other)) P = Codec.Ok tt /\
  CheckM.check_m (Codec.reader_of (file_image pad P st other)) P = Codec.Ok tt.
Proof.
  intros st pad P other Hinv Hfit Hph Hso. destruct (db_inv_facts st Hinv) as (Hrec & _ & Hokd & _).
  pose proof (inv_flids_NoDup st Hinv) as Hnd.
  split; [now apply inv_check_image | now apply check_m_image].
Qed.

(* ANY HISTORY of transactions, closes and reopens from the empty database *)
Theorem hops_inv_check : forall P0 hs st' pad P other, 0 < P0 -> hops_ok (init_db P0) hs ->
  run_hops (init_db P0) hs = Engine.Ok st' ->
  tree_fits P st' -> phys_ok P st' -> other_ok P st' other ->
  Tree.inv_check (Codec.reader_of (file_image pad P st' other)) P = Codec.Ok tt /\
  CheckM.check_m (Codec.reader_of (file_image pad P st' other)) P = Codec.Ok tt.
Proof.
  intros P0 hs st' pad P other HP0 Hok Hrun Hfit Hph Hso.
  destruct (run_hops_inv hs _ st' (init_db_inv P0 HP0) Hok Hrun) as [Hinv _]. now apply inv_check_inv.
Qed.

Lemma hops_ok_txs : forall txs st, txs_ok' st txs -> hops_ok st (hops_of txs).
Proof.
  induction txs as [|[ops ord] txs IH]; intros st H; [exact I|]. cbn [hops_of map hops_ok fst snd step_hop].
  destruct H as [Hops Hn]. split; [exact Hops|]. intros st1 H1. destruct (Hn st1 H1) as [Hrd Hok]. split; [exact Hrd | now apply IH].
Qed.

(* ANY HISTORY of transactions from the empty database *)
Theorem history_inv_check : forall P0 txs st' pad P other, 0 < P0 -> txs_ok' (init_db P0) txs ->
  run_txs (init_db P0) txs = Engine.Ok st' ->
  tree_fits P st' -> phys_ok P st' -> other_ok P st' other ->
  Tree.inv_check (Codec.reader_of (file_image pad P st' other)) P = Codec.Ok tt /\
  CheckM.check_m (Codec.reader_of (file_image pad P st' other)) P = Codec.Ok tt.
Proof.
  intros P0 txs st' pad P other HP0 Htx Hrun. apply (hops_inv_check P0 (hops_of txs)); [exact HP0 | now apply hops_ok_txs |].
  now rewrite run_hops_txs.
Qed.

(* ====================================================================== *)
(** * 8. Instances of the hypotheses, the example, and what cannot be dropped *)

(* the other slot holding the checksummed header of an OLDER transaction (what commit leaves there) *)
Lemma other_ok_older : forall P st m', Meta.meta_wf m' -> Meta.meta_end <= P -> Meta.m_psz m' = P -> Meta.m_tx m' < d_tx st ->
  other_ok P st (Meta.encode_meta_page P (Meta.with_hash m')).
Proof.
  intros P st m' Hwf Hme Hp Ht. pose proof (MetaFacts.encode_length P (Meta.with_hash m') Hme) as Hlen.
  split; [exact Hlen|]. right. exists (Meta.with_hash m'). split; [|split; [exact Hp | exact Ht]].
  unfold hdr_prefix. rewrite read_slot_prefix; [now apply MetaFacts.read_slot_encode | |]; revert Hme; MetaFacts.offs; lia.
Qed.

(* [phys_ok] is decidable *)
Definition phys_okb (P : N) (st : db) : bool :=
  (d_np st * P <? 2^64) && (d_next st <? 2^64) && (d_tx st <? 2^64) &&
  (40 + 8 * llen (d_flids st) <=? d_fln st * P) && (Meta.meta_end <=? P).
Lemma phys_okb_ok : forall P st, phys_okb P st = true -> phys_ok P st.
Proof.
  intros P st H. unfold phys_okb in H. repeat (apply andb_true_iff in H; destruct H as [H ?]).
  repeat match goal with Hx : (_ <? _) = true |- _ => apply N.ltb_lt in Hx | Hx : (_ <=? _) = true |- _ => apply N.leb_le in Hx end.
  unfold phys_ok. auto.
Qed.

Module ImageTheoremExample.
Import ExHistory BytesExamples ImageExample.
(* through the theorem: the two-transaction history, zero page in the other slot *)
Example hist_image_checked :
  Tree.inv_check (Codec.reader_of hist_image) 4096 = Codec.Ok tt /\ CheckM.check_m (Codec.reader_of hist_image) 4096 = Codec.Ok tt.
Proof.
  apply (history_inv_check 4096 hist hist_st ex_pad 4096 (zeros 4096) eq_refl hist_ok' hist_run_ok hist_fits).
  - apply phys_okb_ok. vm_compute. reflexivity.
  - split; [reflexivity|]. left. vm_compute. reflexivity.
Qed.
End ImageTheoremExample.

(* [NoDup (d_flids st)] cannot be dropped: [db_exact_rec] and [db_okd] do not give it.  [EngineReopen.cex_db] (page 4
   both free and pending, recorded twice) satisfies both, and the checker rejects its image *)
Module NeedNoDup.
Import BytesExamples.
Import Coq.Strings.String.
Example cex_okd : db_exact_rec cex_db /\ db_okd cex_db.
Proof.
  split; [exact cex_exact_rec|]. split; [exact (proj1 (proj1 cex_exact_rec))|].
  exact (proj2 (init_db_okd 4096 eq_refl)).
Qed.
Definition cex_verdict := Eval vm_compute in Tree.inv_check (Codec.reader_of (file_image ex_pad 4096 cex_db (zeros 4096))) 4096.
Example cex_rejected : cex_verdict =
  Codec.Bad "pages below the high-water mark are not partitioned into reachable / free-list run / free"%string.
Proof. reflexivity. Qed.
End NeedNoDup.

Print Assumptions open_image.
Print Assumptions state_bucket_pages.
Print Assumptions perm_partition_ok.
Print Assumptions exact_perm.
Print Assumptions inv_check_image.
Print Assumptions check_m_image.
Print Assumptions inv_check_inv.
Print Assumptions hops_inv_check.
Print Assumptions history_inv_check.
Print Assumptions other_ok_older.
Print Assumptions ImageTheoremExample.hist_image_checked.
Print Assumptions NeedNoDup.cex_okd.

(* ====================================================================== *)
(** * 9. The other slot may also hold a header of the SAME transaction with the same contents

   This is the file [init_file] writes: both headers valid with tx 0, differing in [meta_page] only (the checker then
   selects slot 1).  The header selected need not be [meta_of P st], but it agrees with the state on every field the
   checker uses. *)
Definition meta_agrees (P : N) (st : db) (m : Meta.meta) : Prop :=
  Meta.m_psz m = P /\ Meta.m_root m = d_root st /\ Meta.m_next m = d_next st /\ Meta.m_np m = d_np st /\
  Meta.m_fl m = d_fl st /\ Meta.m_tx m = d_tx st.
Definition other_ok2 (P : N) (st : db) (other : bytes) : Prop :=
  List.length other = N.to_nat P /\
  (Meta.read_slot true (hdr_prefix P other) = Meta.SlotInvalid \/
   exists m', Meta.read_slot true (hdr_prefix P other) = Meta.SlotValid m' /\ Meta.m_psz m' = P /\
              (Meta.m_tx m' < d_tx st \/ meta_agrees P st m')).

Lemma other_ok_ok2 : forall P st other, other_ok P st other -> other_ok2 P st other.
Proof. intros P st other [H1 [H|(m' & A & B & C)]]; split; auto. right. exists m'. auto. Qed.

Lemma select_agree : forall P (Q : Meta.meta -> Prop) (m : Meta.meta) (so : Meta.slot) (s : N), s < 2 -> Meta.m_psz m = P -> Q m ->
  (so = Meta.SlotInvalid \/ exists m', so = Meta.SlotValid m' /\ Meta.m_psz m' = P /\ (Meta.m_tx m' < Meta.m_tx m \/ Q m')) ->
  exists m2, Meta.select_slots P (if s =? 0 then Meta.SlotValid m else so) (if s =? 0 then so else Meta.SlotValid m) = Meta.SelMeta m2 /\ Q m2.
Proof.
  intros P Q m so s Hs Hp Hq Hso. destruct (N.eqb_spec s 0) as [E|E].
  - destruct Hso as [->|(m' & -> & Hp' & Ht)]; cbn [Meta.select_slots].
    + rewrite Hp, N.eqb_refl. eauto.
    + rewrite Hp, Hp', N.eqb_refl. cbn [negb]. destruct (N.ltb_spec (Meta.m_tx m') (Meta.m_tx m)); [eauto|].
      exists m'. split; [reflexivity|]. destruct Ht as [Ht|Ht]; [lia | exact Ht].
  - destruct Hso as [->|(m' & -> & Hp' & Ht)]; cbn [Meta.select_slots].
    + rewrite Hp, N.eqb_refl. eauto.
    + rewrite Hp, Hp', N.eqb_refl. cbn [negb]. destruct (N.ltb_spec (Meta.m_tx m) (Meta.m_tx m')); [|eauto].
      exists m'. split; [reflexivity|]. destruct Ht as [Ht|Ht]; [lia | exact Ht].
Qed.

Lemma meta_of_agrees : forall P st, meta_agrees P st (meta_of P st).
Proof. intros P st. unfold meta_agrees. repeat split; reflexivity. Qed.

Lemma open_meta_image2 : forall st pad P other, db_okz st -> 0 < P -> tree_fits P st -> phys_ok P st -> other_ok2 P st other ->
  exists m, Tree.open_meta (Codec.reader_of (file_image pad P st other)) P = Meta.SelMeta m /\ meta_agrees P st m.
Proof.
  intros st pad P other Hok HP Hfit Hph [Hlen Hso]. unfold Tree.open_meta, OldMeta.select_any.
  change Consts.meta_checks_page_type with true.
  assert (Hs : slot_of st < 2) by (unfold slot_of; apply N.mod_lt; lia). pose proof (image_hdr_slot st pad P other Hok HP Hfit Hph Hlen) as Ha.
  pose proof (image_hdr_other st pad P other Hok HP Hfit Hph Hlen) as Hb.
  pose proof (image_slot_valid st P other Hok HP Hph Hlen) as Hv.
  destruct (select_agree P (meta_agrees P st) (meta_of P st) (Meta.read_slot true (hdr_prefix P other)) (slot_of st) Hs eq_refl
              (meta_of_agrees P st) Hso) as (m2 & Hsel & Hag).
  exists m2. split; [|exact Hag].
  destruct (N.eqb_spec (slot_of st) 0) as [E|E].
  - rewrite E in Ha, Hb. change (1 - 0) with 1 in Hb. rewrite Ha, Hb, Hv, Hsel. reflexivity.
  - assert (E1 : slot_of st = 1) by lia. rewrite E1 in Ha, Hb. change (1 - 1) with 0 in Hb.
    rewrite Ha, Hb, Hv, Hsel. reflexivity.
Qed.

Theorem open_image2 : forall st pad P other, db_okz st -> 0 < P -> tree_fits P st -> phys_ok P st ->
  other_ok2 P st other -> Forall (fun i => i < 2^64) (d_flids st) ->
  exists m, meta_agrees P st m /\
    Tree.open_db (Codec.reader_of (file_image pad P st other)) P =
      Codec.Ok (Tree.mkOpened m (d_flids st) (Codec.seqN (d_fl st) (N.to_nat (d_fln st)))).
Proof.
  intros st pad P other Hok HP Hfit Hph Hso Hids.
  destruct (open_meta_image2 st pad P other Hok HP Hfit Hph Hso) as (m & Hm & Hag). exists m. split; [exact Hag|].
  destruct Hag as (_ & _ & _ & _ & Hfl & _). unfold Tree.open_db. rewrite Hm, Hfl.
  destruct (fl_run_bounds st P other Hok HP Hph (proj1 Hso)) as (H1 & H2 & H3). destruct (np_bounds st P other Hok HP Hph (proj1 Hso)) as [HP64 Hnp64].
  pose proof (image_reads_fl st pad P other Hok HP Hfit Hph (proj1 Hso)) as Hrd.
  destruct Hph as (Hsz & _ & _ & Hflsz & _).
  rewrite (CodecFacts.codec_page_free pad P (d_fl st) (d_fln st - 1) (d_flids st) _).
  - cbn [Codec.bind Codec.ph_overflow]. replace (d_fln st - 1 + 1) with (d_fln st) by lia. reflexivity.
  - lia.
  - lia.
  - exact Hids.
  - unfold Codec.body_size. change Meta.page_hdr_size with 40. nia.
  - unfold Codec.body_size. change Meta.page_hdr_size with 40. replace (d_fln st - 1 + 1) with (d_fln st) by lia. exact Hflsz.
  - exact Hrd.
Qed.

Theorem inv_check_image2 : forall st pad P other,
  db_exact_rec st -> db_okd st -> NoDup (d_flids st) ->
  tree_fits P st -> phys_ok P st -> other_ok2 P st other ->
  Tree.inv_check (Codec.reader_of (file_image pad P st other)) P = Codec.Ok tt /\
  CheckM.check_m (Codec.reader_of (file_image pad P st other)) P = Codec.Ok tt.
Proof.
  intros st pad P other Hrec Hokd Hnd Hfit Hph Hso. pose proof (proj1 Hokd) as Hok.
  assert (HP : 0 < P). { destruct Hph as (_ & _ & _ & _ & Hme). revert Hme. MetaFacts.offs. lia. }
  assert (Hids : Forall (fun i => i < 2^64) (d_flids st)).
  { apply Forall_forall. intros x Hx. apply (flids_exact st Hrec) in Hx. destruct Hph as (Hsz & _). nia. }
  pose proof (np_ge_4 st P Hok Hph) as H4.
  pose proof (image_encodes_tree st pad P other Hok HP Hfit Hph (proj1 Hso)) as HE.
  assert (Hinv : Tree.inv_check (Codec.reader_of (file_image pad P st other)) P = Codec.Ok tt).
  { destruct (open_image2 st pad P other Hok HP Hfit Hph Hso Hids) as (m & (_ & Hroot & _ & Hnp & _ & _) & Hopen).
    unfold Tree.inv_check. rewrite Hopen. cbn [Codec.bind Tree.o_meta Tree.o_free Tree.o_flrun]. rewrite Hnp, Hroot.
    destruct (N.ltb_spec (d_np st) 4) as [L|_]; [lia|].
    destruct (state_bucket_pages st pad _ P Hokd HP HE) as (reach & Hr & Hperm). rewrite Hr. cbn [Codec.bind].
    rewrite (FileChecker.state_bucket_wf st pad _ P Hokd HP HE). cbn [Codec.bind negb].
    rewrite perm_partition_ok; [reflexivity|]. rewrite seqN_nrun.
    eapply Permutation_trans; [apply Permutation_app_tail; exact Hperm | now apply exact_perm]. }
  split; [exact Hinv | now apply CheckFacts.inv_check_implies_check_m].
Qed.

(* the file [init_file] writes, for every page size that holds a header *)
Theorem init_file_checked : forall pad P, Meta.meta_end <= P -> 4 * P < 2^64 ->
  let F := file_image pad P (init_db P) (Meta.encode_meta_page P (Meta.init_meta P 1)) in
  Tree.inv_check (Codec.reader_of F) P = Codec.Ok tt /\ CheckM.check_m (Codec.reader_of F) P = Codec.Ok tt.
Proof.
  intros pad P Hme H64 F.
  assert (HP : 0 < P) by (revert Hme; MetaFacts.offs; lia).
  destruct (db_inv_facts _ (init_db_inv P HP)) as (Hrec & _ & Hokd & _).
  apply inv_check_image2; auto.
  - constructor.
  - intros p a Hp Hg. cbn in Hp. destruct Hp as [<-|[]]. cbn in Hg. inversion Hg; subst a.
    unfold page_fits, body_of. cbn [ap_over ap_body map CodecFacts.body_ok Codec.body_size fold_left].
    change Meta.page_hdr_size with 40. change Codec.leaf_hdr with 32. change (llen (@nil Codec.lent)) with 0.
    revert Hme. MetaFacts.offs. intros Hme. assert (E64 : 2^64 = 18446744073709551616) by reflexivity. rewrite E64 in *. repeat split; try lia; [apply Forall_nil|]. change (Codec.body_size (Codec.PLeaf [])) with 40. lia.
  - unfold phys_ok. cbn [init_db d_np d_next d_tx d_flids d_fln]. change (llen (@nil N)) with 0.
    revert Hme. MetaFacts.offs. intros Hme. repeat split; lia.
  - assert (Hwf : Meta.meta_wf (Meta.mkMeta 1 Consts.magic Consts.version P 3 0 4 2 0 0)).
    { unfold Meta.meta_wf. cbn [Meta.m_page Meta.m_magic Meta.m_version Meta.m_psz Meta.m_root Meta.m_next Meta.m_np Meta.m_fl Meta.m_tx Meta.m_hash].
      repeat split; try reflexivity. lia. }
    split; [now apply MetaFacts.encode_length|]. right. exists (Meta.init_meta P 1). split.
    + unfold hdr_prefix. rewrite read_slot_prefix.
      * unfold Meta.init_meta. now apply MetaFacts.read_slot_encode.
      * revert Hme. MetaFacts.offs. lia.
      * rewrite MetaFacts.encode_length by exact Hme. lia.
    + split; [reflexivity|]. right. unfold meta_agrees. repeat split; reflexivity.
Qed.

Print Assumptions open_image2.
Print Assumptions inv_check_image2.
Print Assumptions init_file_checked.
