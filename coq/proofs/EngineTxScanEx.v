(* An instance of the theorems of EngineTxScan, by computation: the hypotheses are satisfiable and the conclusion is
   not trivial. The committed state [exS_st] is what [init_db 1024] becomes after one transaction (six 300-byte
   values: the root bucket's tree is a branch over three leaves; a nested bucket "g"). The running transaction
   [exS_ops] deletes both keys of the middle leaf (the overlay keeps the EMPTY LEAF until commit), overwrites a key,
   writes into the stored nested bucket, creates a bucket inside it, and has one put refused. *)
From Coq Require Import List NArith Bool Arith Lia.
From Coq.Strings Require Import Byte.
From Jamm Require Import Bytes Tree Spec Cursor Engine EngineFacts EngineModifyFacts EngineAbs EnginePathFacts.
From Jamm Require Import EngineTxInvFacts EngineRefines EngineOwnSpill EngineAllocInv EngineReadBridge EngineScan EngineTxScan.
Import ListNotations.
Import Coq.Strings.String.StringSyntax. Delimit Scope string_scope with string.
Local Open Scope list_scope. Local Open Scope nat_scope.
Set Warnings "-abstract-large-number".

Definition big (b : byte) : bytes := repeat b 300.
Definition exS_tx0 : list op * list bytes :=
  ([Put [] kA (big x01); Put [] kB (big x02); Put [] kC (big x03); Put [] kD (big x04); Put [] kE (big x05);
    Put [] kF (big x06); Put [kG] kA [x07]], [kG]).
Definition exS_run := Eval vm_compute in run_txs (init_db 1024) [exS_tx0].
Definition exS_st : db := match exS_run with Ok st => st | _ => init_db 1024 end.

Example exS_run_ok : run_txs (init_db 1024) [exS_tx0] = Ok exS_st.
Proof. vm_compute. reflexivity. Qed.

Example exS_hist_ok : txs_ok' (init_db 1024) [exS_tx0].
Proof.
  cbn [txs_ok' exS_tx0]. split; [repeat constructor; cbn; lia|].
  intros st1 H1. vm_compute in H1. inversion H1; subst st1. clear H1.
  split; [apply readableb_ok; vm_compute; reflexivity | exact I].
Qed.

(* a reachable state: the invariant of the theorems holds of it by [run_txs_refines_init'] *)
Example exS_pages_wf : db_pages_wf exS_st.
Proof.
  apply db_strict_pages_wf, db_okz_strict.
  exact (proj1 (run_txs_refines_init' 1024 [exS_tx0] exS_st eq_refl exS_hist_ok exS_run_ok)).
Qed.

(* the committed root bucket: branch page 9 over the leaves 6 [a b], 7 [c d], 8 [e f g] *)
Example exS_shape :
  d_root exS_st = 9%N /\
  option_map ap_body (dget (d_disk exS_st) 9) = Some (Branches [(kA, 6%N); (kC, 7%N); (kE, 8%N)]) /\
  option_map (fun a => match ap_body a with Leaves l => map lkey l | _ => [] end) (dget (d_disk exS_st) 7) = Some [kC; kD].
Proof. vm_compute. repeat split; reflexivity. Qed.

Definition exS_ops : list op :=
  [Del [] kC; Del [] kD;            (* empties leaf 7 *)
   Put [] kE [x09];                 (* overwrite *)
   Put [kG] kB [x08];               (* into the stored nested bucket *)
   Put [kG; kC] kA [x01];           (* creates g/c *)
   Put [kB] kA [x01]].              (* refused: "b" is a plain value *)

Example exS_ops_ok : Forall (op_ok (d_disk exS_st)) exS_ops.
Proof. repeat constructor; cbn; lia. Qed.

(* the overlay tree of the root bucket has an empty leaf in the middle *)
Example exS_empty_leaf :
  match tx_state exS_st exS_ops with
  | Ok (rb, _) =>
      match ovl_tree (d_disk exS_st) rb [] with
      | Ok (TB 9 0 [(_, TL 6 0 [_; _]); (_, TL 7 0 []); (_, TL 8 0 [_; _; _])]) => True
      | _ => False
      end
  | _ => False
  end.
Proof. vm_compute. exact I. Qed.

(* what the executable model answers *)
Example exS_computed :
  tx_scan exS_st exS_ops [] = Ok (CVal [IKv kA (big x01); IKv kB (big x02); IKv kE [x09]; IKv kF (big x06); IBk kG]) /\
  tx_scan exS_st exS_ops [kG] = Ok (CVal [IKv kA [x07]; IKv kB [x08]; IBk kC]) /\
  tx_scan exS_st exS_ops [kG; kC] = Ok (CVal [IKv kA [x01]]) /\
  tx_scan exS_st exS_ops [kA] = Err "IncompatibleValue"%string /\
  tx_scan exS_st exS_ops [kC] = Err "BucketMissing"%string /\
  tx_cget exS_st exS_ops [] kE = Ok (Some (IKv kE [x09])) /\
  tx_cget exS_st exS_ops [] kC = Ok None /\
  tx_range exS_st exS_ops [] (BIncl kB) (BExcl kF) = Ok (CVal [IKv kB (big x02); IKv kE [x09]]) /\
  (* a seek of the deleted "c" lands in the empty leaf and iterates from the successor *)
  tx_seek exS_st exS_ops [] kC = Ok (false, CVal [IKv kE [x09]; IKv kF (big x06); IBk kG]).
Proof. vm_compute. repeat split; reflexivity. Qed.

(* the same through the theorems: the reference's buckets after [exS_ops], and the reads *)
Definition exS_ref : snode := Eval vm_compute in sem_tx exS_ops (abs_db exS_st).

Example exS_by_theorem :
  tx_scan exS_st exS_ops [] = Ok (CVal [IKv kA (big x01); IKv kB (big x02); IKv kE [x09]; IKv kF (big x06); IBk kG]) /\
  tx_scan exS_st exS_ops [kG] = Ok (CVal [IKv kA [x07]; IKv kB [x08]; IBk kC]) /\
  tx_scan exS_st exS_ops [kA] = Err "IncompatibleValue"%string /\
  (forall lo hi, exists l, tx_range exS_st exS_ops [kG] lo hi = Ok (CVal l)).
Proof.
  assert (Eref : sem_tx exS_ops (abs_db exS_st) = exS_ref) by (vm_compute; reflexivity).
  pose proof (tx_scan_spec exS_st exS_ops [] exS_pages_wf exS_ops_ok) as H0.
  pose proof (tx_scan_spec exS_st exS_ops [kG] exS_pages_wf exS_ops_ok) as H1.
  pose proof (tx_scan_spec exS_st exS_ops [kA] exS_pages_wf exS_ops_ok) as H2.
  rewrite Eref in H0, H1, H2.
  split; [exact H0|]. split; [exact H1|]. split; [exact H2|].
  intros lo hi.
  assert (Eg : exists o x es, get_at [kG] (sem_tx exS_ops (abs_db exS_st)) = Some (SBucket o x es))
    by (rewrite Eref; eexists _, _, _; vm_compute; reflexivity).
  destruct Eg as (o & x & es & Eg).
  destruct (tx_reads_cursor exS_st exS_ops [kG] o x es exS_pages_wf exS_ops_ok Eg) as (_ & _ & Hr & _).
  eexists. apply Hr.
Qed.

Print Assumptions exS_pages_wf.
Print Assumptions exS_empty_leaf.
Print Assumptions exS_computed.
Print Assumptions exS_by_theorem.
